import PysphVerif.Driver.C19
/-! `pysph_model <model>` : line-protocol driver over the executable models. -/
def main (args : List String) : IO UInt32 := do
  match args with
  | ["C19"] => PysphVerif.Driver.C19.main; return 0
  | _ => IO.eprintln "usage: pysph_model <C01..C20>"; return 2
