import PysphVerif.Lemmas.Riemann
/-!
# C15 — Riemann solvers are reflection-symmetric; contact solvers are admissible

Property theorems only.  They are about the definitions of
`Gen/Riemann.lean`, which `translate/riemann2lean.py` regenerates from
`pysph/sph/gas_dynamics/riemann_solver.py` on every run (and validates by
bit-exact execution against the Python source), instantiated over an
arbitrary linearly ordered field `K` with `fieldOps sqrt pow`: `sqrt` and `pow`
are abstract functions; every theorem lists the facts about them it uses.

`ReflectSym f …` : swapping the sides and negating the velocities gives the
same return code and, on success, the same `p*` and the negated `u*`.
`EqualStates f …` : equal left and right states give code 0 and that state.
-/
set_option linter.unusedSectionVars false
set_option linter.unusedSimpArgs false
namespace PysphVerif.C15
open PysphVerif.Riemann PysphVerif.Gen.Riemann
variable {K : Type} [Field K] [LinearOrder K] [IsStrictOrderedRing K]

/-- the common signature of the generated solvers (after the `Ops` record) -/
abbrev Solver (K : Type) := K → K → K → K → K → K → K → Int → K → K → K → Res K

/-- reflection symmetry of one solver at one state, for every initial content
of the `result` list -/
def ReflectSym (f : Solver K) (rhol rhor pl pr ul ur gamma tol : K) (niter : Int) : Prop :=
  ∀ r0 r1 : K,
    (f rhor rhol pr pl (-ur) (-ul) gamma niter tol r0 r1).code
      = (f rhol rhor pl pr ul ur gamma niter tol r0 r1).code ∧
    ((f rhol rhor pl pr ul ur gamma niter tol r0 r1).code = 0 →
      (f rhor rhol pr pl (-ur) (-ul) gamma niter tol r0 r1).r0
        = (f rhol rhor pl pr ul ur gamma niter tol r0 r1).r0 ∧
      (f rhor rhol pr pl (-ur) (-ul) gamma niter tol r0 r1).r1
        = -(f rhol rhor pl pr ul ur gamma niter tol r0 r1).r1)

/-- equal states on both sides are returned unchanged, with code 0 -/
def EqualStates (f : Solver K) (rho p u gamma tol : K) (niter : Int) : Prop :=
  ∀ r0 r1 : K,
    (f rho rho p p u u gamma niter tol r0 r1).code = 0 ∧
    (f rho rho p p u u gamma niter tol r0 r1).r0 = p ∧
    (f rho rho p p u u gamma niter tol r0 r1).r1 = u

/-- what the theorems assume about `sqrt` : positive on positive arguments -/
def SqrtPos (sqrt : K → K) : Prop := ∀ x : K, 0 < x → 0 < sqrt x

section
variable (sqrt : K → K) (pow : K → K → K)
  (rhol rhor pl pr ul ur gamma tol rho p u : K) (niter : Int)

/-! ## reflection symmetry: the non-iterative solvers (no hypothesis on the data
or on `sqrt` is needed: the identities are purely algebraic) -/

theorem reflect_non_diffusive :
    ReflectSym (non_diffusive (fieldOps sqrt pow)) rhol rhor pl pr ul ur gamma tol niter := by
  intro r0 r1
  simp only [non_diffusive, Nat.cast_ofNat, Nat.cast_one]
  exact ⟨trivial, fun _ => ⟨by ring, by ring⟩⟩

theorem reflect_roe :
    ReflectSym (roe (fieldOps sqrt pow)) rhol rhor pl pr ul ur gamma tol niter := by
  intro r0 r1
  simp only [roe, fieldOps_sqrt, Nat.cast_ofNat, Nat.cast_one]
  refine ⟨trivial, fun _ => ⟨?_, ?_⟩⟩
  · ring_nf
  · ring_nf

theorem reflect_llxf :
    ReflectSym (llxf (fieldOps sqrt pow)) rhol rhor pl pr ul ur gamma tol niter := by
  intro r0 r1
  simp only [llxf, fieldOps_sqrt, Nat.cast_ofNat, Nat.cast_one, pymax_eq_max]
  refine ⟨trivial, fun _ => ⟨?_, ?_⟩⟩
  · rw [max_comm]; ring
  · rw [max_comm]; ring

theorem reflect_hllsy :
    ReflectSym (hllsy (fieldOps sqrt pow)) rhol rhor pl pr ul ur gamma tol niter := by
  intro r0 r1
  simp only [hllsy, fieldOps_sqrt, Nat.cast_ofNat, Nat.cast_one, pymax_eq_max]
  have e : sqrt rhor * sqrt (gamma * pr * rhor) + sqrt rhol * sqrt (gamma * pl * rhol)
      = sqrt rhol * sqrt (gamma * pl * rhol) + sqrt rhor * sqrt (gamma * pr * rhor) := by ring
  have e2 : sqrt rhol + sqrt rhor = sqrt rhor + sqrt rhol := by ring
  rw [e, e2]
  refine ⟨trivial, fun _ => ⟨?_, ?_⟩⟩
  · ring
  · ring

theorem reflect_hlle :
    ReflectSym (hlle (fieldOps sqrt pow)) rhol rhor pl pr ul ur gamma tol niter := by
  intro r0 r1
  simp only [hlle, fieldOps_sqrt, Nat.cast_ofNat, Nat.cast_one, pymax_eq_max, pymin_eq_min]
  generalize sqrt rhol = a
  generalize sqrt rhor = b
  generalize sqrt (gamma * pl * rhol) = cl
  generalize sqrt (gamma * pr * rhor) = cr
  have e1 : (b * cr + a * cl) / (b + a) = (a * cl + b * cr) / (a + b) := by
    rw [add_comm (b * cr), add_comm b]
  rw [e1]
  generalize (a * cl + b * cr) / (a + b) = C
  have e2 : min (-ur - cr) (-C) = -(max (ur + cr) C) := by
    rw [← min_neg_neg]; congr 1; ring
  have e3 : max (-ul + cl) C = -(min (ul - cl) (-C)) := by
    rw [← max_neg_neg, neg_neg]; congr 1; ring
  rw [e2, e3]
  generalize max (ur + cr) C = R
  generalize min (ul - cl) (-C) = S
  rw [max_neg_neg, min_neg_neg, min_comm R S, max_comm R S]
  generalize max S R = M
  generalize min S R = m
  have e4 : -m - -M = M - m := by ring
  refine ⟨trivial, fun _ => ⟨?_, ?_⟩⟩
  · rw [e4]; ring
  · rw [e4]; ring

theorem reflect_hll_ball :
    ReflectSym (hll_ball (fieldOps sqrt pow)) rhol rhor pl pr ul ur gamma tol niter := by
  intro r0 r1
  simp only [hll_ball, fieldOps_sqrt, fieldOps_abs, Nat.cast_ofNat, Nat.cast_one, pymax_eq_max,
    pymin_eq_min, abs_neg]
  generalize sqrt rhol = a
  generalize sqrt rhor = b
  generalize sqrt (gamma * pl / rhol) = cl
  generalize sqrt (gamma * pr / rhor) = cr
  have hE : (b * cr * cr + a * cl * cl) / (b * a) +
      1 / 2 * (gamma - 1) * (a * b) * (1 / (a + b)) * (1 / (a + b)) * (|ul| - |ur|) * (|ul| - |ur|)
      = (a * cl * cl + b * cr * cr) / (a * b) +
      1 / 2 * (gamma - 1) * (b * a) * (1 / (b + a)) * (1 / (b + a)) * (|ur| - |ul|) * (|ur| - |ul|) := by
    ring
  rw [hE]
  generalize sqrt ((a * cl * cl + b * cr * cr) / (a * b) +
      1 / 2 * (gamma - 1) * (b * a) * (1 / (b + a)) * (1 / (b + a)) * (|ur| - |ul|) * (|ur| - |ul|)) = C
  have hU : (b * -ur + a * -ul) / (b * a) = -((a * ul + b * ur) / (a * b)) := by ring
  rw [hU]
  generalize (a * ul + b * ur) / (a * b) = U
  have e2 : min (-U - C) (-ur - cr) = -(max (U + C) (ur + cr)) := by
    rw [← min_neg_neg]; congr 1 <;> ring
  have e3 : max (-U + C) (-ul + cl) = -(min (U - C) (ul - cl)) := by
    rw [← max_neg_neg]; congr 1 <;> ring
  rw [e2, e3]
  generalize max (U + C) (ur + cr) = R
  generalize min (U - C) (ul - cl) = S
  have e4 : rhor * (-ur - -R) + rhol * (-S - -ul) = rhol * (ul - S) + rhor * (R - ur) := by ring
  have e5 : -S - -R = R - S := by ring
  rw [e4, e5]
  refine ⟨trivial, fun _ => ⟨?_, ?_⟩⟩
  · ring
  · ring

/-! ## equal states are returned unchanged (admissible data: `rho, p > 0`,
`gamma > 0`; `sqrt` positive on positives) -/

theorem equal_states_non_diffusive :
    EqualStates (non_diffusive (fieldOps sqrt pow)) rho p u gamma tol niter := by
  intro r0 r1
  simp only [non_diffusive, Nat.cast_ofNat, Nat.cast_one]
  exact ⟨trivial, by ring, by ring⟩

theorem equal_states_roe (hs : SqrtPos sqrt) (hrho : 0 < rho) :
    EqualStates (roe (fieldOps sqrt pow)) rho p u gamma tol niter := by
  intro r0 r1
  simp only [roe, fieldOps_sqrt, Nat.cast_ofNat, Nat.cast_one]
  have ha : 0 < sqrt rho := hs rho hrho
  generalize sqrt rho = a at ha
  have h2 : a + a ≠ 0 := by positivity
  refine ⟨trivial, ?_, ?_⟩
  · field_simp; ring
  · field_simp; ring

theorem equal_states_llxf (hp : 0 < p) :
    EqualStates (llxf (fieldOps sqrt pow)) rho p u gamma tol niter := by
  intro r0 r1
  simp only [llxf, fieldOps_sqrt, Nat.cast_ofNat, Nat.cast_one, pymax_eq_max]
  have hp' : p ≠ 0 := hp.ne'
  have h0 : (1 : K) / 2 * (p + p - max (sqrt (gamma * p * rho)) (sqrt (gamma * p * rho)) * (u - u)) = p := by
    ring
  refine ⟨trivial, h0, ?_⟩
  rw [h0]; field_simp; ring

theorem equal_states_hllsy (hs : SqrtPos sqrt) (hrho : 0 < rho) (hp : 0 < p) (hg : 0 < gamma) :
    EqualStates (hllsy (fieldOps sqrt pow)) rho p u gamma tol niter := by
  intro r0 r1
  simp only [hllsy, fieldOps_sqrt, Nat.cast_ofNat, Nat.cast_one, pymax_eq_max]
  have ha : 0 < sqrt rho := hs rho hrho
  have hc : 0 < sqrt (gamma * p * rho) := hs _ (by positivity)
  generalize sqrt rho = a at ha
  generalize sqrt (gamma * p * rho) = c at hc
  have h2 : a + a ≠ 0 := by positivity
  have e : 1 / (a + a) * (a * c + a * c) = c := by field_simp
  rw [e, max_self]
  have hcc : c + c ≠ 0 := by positivity
  have hp' : p ≠ 0 := hp.ne'
  have h0 : c / (c + c) * p + c / (c + c) * p - c * c / (c + c) * (u - u) = p := by
    field_simp; ring
  refine ⟨trivial, h0, ?_⟩
  rw [h0]; field_simp; ring

theorem equal_states_hlle (hs : SqrtPos sqrt) (hrho : 0 < rho) (hp : 0 < p) (hg : 0 < gamma) :
    EqualStates (hlle (fieldOps sqrt pow)) rho p u gamma tol niter := by
  intro r0 r1
  simp only [hlle, fieldOps_sqrt, Nat.cast_ofNat, Nat.cast_one, pymax_eq_max, pymin_eq_min]
  have ha : 0 < sqrt rho := hs rho hrho
  have hc : 0 < sqrt (gamma * p * rho) := hs _ (by positivity)
  generalize sqrt rho = a at ha
  generalize sqrt (gamma * p * rho) = c at hc
  have h2 : a + a ≠ 0 := by positivity
  have e : (a * c + a * c) / (a + a) = c := by field_simp
  rw [e]
  have hS : min (u - c) (-c) < 0 := lt_of_le_of_lt (min_le_right _ _) (by linarith)
  have hR : 0 < max (u + c) c := lt_of_lt_of_le hc (le_max_right _ _)
  generalize min (u - c) (-c) = S at hS
  generalize max (u + c) c = R at hR
  rw [max_eq_right (by linarith : S ≤ R), min_eq_left (by linarith : S ≤ R)]
  have hRS : R - S ≠ 0 := by
    have : 0 < R - S := by linarith
    exact this.ne'
  have hp' : p ≠ 0 := hp.ne'
  have h0 : (R * p - S * p) / (R - S) + R * S / (R - S) * (u - u) = p := by
    field_simp; ring
  refine ⟨trivial, h0, ?_⟩
  rw [h0]; field_simp; ring

theorem equal_states_hll_ball (hs : SqrtPos sqrt) (hrho : 0 < rho) (hp : 0 < p) (hg : 0 < gamma) :
    EqualStates (hll_ball (fieldOps sqrt pow)) rho p u gamma tol niter := by
  intro r0 r1
  simp only [hll_ball, fieldOps_sqrt, fieldOps_abs, Nat.cast_ofNat, Nat.cast_one, pymax_eq_max,
    pymin_eq_min]
  have hc : 0 < sqrt (gamma * p / rho) := hs _ (by positivity)
  generalize sqrt rho = a
  generalize sqrt (gamma * p / rho) = c at hc
  generalize sqrt ((a * c * c + a * c * c) / (a * a) +
    1 / 2 * (gamma - 1) * (a * a) * (1 / (a + a)) * (1 / (a + a)) * (|u| - |u|) * (|u| - |u|)) = C
  generalize (a * u + a * u) / (a * a) = U
  have hS : min (U - C) (u - c) ≤ u - c := min_le_right _ _
  have hR : u + c ≤ max (U + C) (u + c) := le_max_right _ _
  generalize min (U - C) (u - c) = S at hS
  generalize max (U + C) (u + c) = R at hR
  have hRS : 0 < R - S := by linarith
  have hRS' : R - S ≠ 0 := hRS.ne'
  have hd : rho * (u - S) + rho * (R - u) = rho * (R - S) := by ring
  have hrho' : rho ≠ 0 := hrho.ne'
  have hu : (R * S * (rho - rho) + rho * u * R - rho * u * S) / (rho * (u - S) + rho * (R - u)) = u := by
    rw [hd, div_eq_iff (mul_ne_zero hrho' hRS')]; ring
  refine ⟨trivial, ?_, hu⟩
  rw [hu]; field_simp; ring
end
end PysphVerif.C15
