import PysphVerif.Lemmas.Riemann
import PysphVerif.Lemmas.RiemannHllc
import PysphVerif.Lemmas.RiemannDucowicz
import PysphVerif.Lemmas.RiemannExact
import PysphVerif.Lemmas.RiemannScale
import PysphVerif.Lemmas.RiemannEqual
import Mathlib.Analysis.Real.Sqrt
import Mathlib.Analysis.SpecialFunctions.Pow.Real
/-!
# C15 — Riemann solvers are reflection-symmetric; contact solvers are admissible

Property theorems only.  They are about the definitions of
`Gen/Riemann.lean`, which `translate/riemann2lean.py` regenerates from
`pysph/sph/gas_dynamics/riemann_solver.py` on every run (and validates by
bit-exact execution against the Python source), instantiated over an
arbitrary linearly ordered field `K` with `fieldOps sqrt pow`: `sqrt` and `pow`
are abstract functions; every theorem lists the facts about them it uses.

`ReflectSym f …` : swapping the sides and negating the velocities gives the
same return code and, on success, the same `p*` and the negated `u*`.
`EqualStates f …` : equal left and right states give code 0 and that state.
-/
set_option linter.unusedSectionVars false
set_option linter.unusedSimpArgs false
namespace PysphVerif.C15
open PysphVerif.Riemann PysphVerif.Gen.Riemann
variable {K : Type} [Field K] [LinearOrder K] [IsStrictOrderedRing K]

/-- the common signature of the generated solvers (after the `Ops` record) -/
abbrev Solver (K : Type) := K → K → K → K → K → K → K → Int → K → K → K → Res K

/-- reflection symmetry of one solver at one state, for every initial content
of the `result` list -/
def ReflectSym (f : Solver K) (rhol rhor pl pr ul ur gamma tol : K) (niter : Int) : Prop :=
  ∀ r0 r1 : K,
    (f rhor rhol pr pl (-ur) (-ul) gamma niter tol r0 r1).code
      = (f rhol rhor pl pr ul ur gamma niter tol r0 r1).code ∧
    ((f rhol rhor pl pr ul ur gamma niter tol r0 r1).code = 0 →
      (f rhor rhol pr pl (-ur) (-ul) gamma niter tol r0 r1).r0
        = (f rhol rhor pl pr ul ur gamma niter tol r0 r1).r0 ∧
      (f rhor rhol pr pl (-ur) (-ul) gamma niter tol r0 r1).r1
        = -(f rhol rhor pl pr ul ur gamma niter tol r0 r1).r1)

/-- equal states on both sides are returned unchanged, with code 0 -/
def EqualStates (f : Solver K) (rho p u gamma tol : K) (niter : Int) : Prop :=
  ∀ r0 r1 : K,
    (f rho rho p p u u gamma niter tol r0 r1).code = 0 ∧
    (f rho rho p p u u gamma niter tol r0 r1).r0 = p ∧
    (f rho rho p p u u gamma niter tol r0 r1).r1 = u

/-- what the theorems assume about `sqrt` : positive on positive arguments -/
def SqrtPos (sqrt : K → K) : Prop := ∀ x : K, 0 < x → 0 < sqrt x

section
variable (sqrt : K → K) (pow : K → K → K)
  (rhol rhor pl pr ul ur gamma tol rho p u : K) (niter : Int)

/-! ## reflection symmetry: the non-iterative solvers (no hypothesis on the data
or on `sqrt` is needed: the identities are purely algebraic) -/

theorem reflect_non_diffusive :
    ReflectSym (non_diffusive (fieldOps sqrt pow)) rhol rhor pl pr ul ur gamma tol niter := by
  intro r0 r1
  simp only [non_diffusive, Nat.cast_ofNat, Nat.cast_one]
  exact ⟨trivial, fun _ => ⟨by ring, by ring⟩⟩

theorem reflect_roe :
    ReflectSym (roe (fieldOps sqrt pow)) rhol rhor pl pr ul ur gamma tol niter := by
  intro r0 r1
  simp only [roe, fieldOps_sqrt, Nat.cast_ofNat, Nat.cast_one]
  refine ⟨trivial, fun _ => ⟨?_, ?_⟩⟩
  · ring_nf
  · ring_nf

theorem reflect_llxf :
    ReflectSym (llxf (fieldOps sqrt pow)) rhol rhor pl pr ul ur gamma tol niter := by
  intro r0 r1
  simp only [llxf, fieldOps_sqrt, Nat.cast_ofNat, Nat.cast_one, pymax_eq_max]
  refine ⟨trivial, fun _ => ⟨?_, ?_⟩⟩
  · rw [max_comm]; ring
  · rw [max_comm]; ring

theorem reflect_hllsy :
    ReflectSym (hllsy (fieldOps sqrt pow)) rhol rhor pl pr ul ur gamma tol niter := by
  intro r0 r1
  simp only [hllsy, fieldOps_sqrt, Nat.cast_ofNat, Nat.cast_one, pymax_eq_max]
  have e : sqrt rhor * sqrt (gamma * pr * rhor) + sqrt rhol * sqrt (gamma * pl * rhol)
      = sqrt rhol * sqrt (gamma * pl * rhol) + sqrt rhor * sqrt (gamma * pr * rhor) := by ring
  have e2 : sqrt rhol + sqrt rhor = sqrt rhor + sqrt rhol := by ring
  rw [e, e2]
  refine ⟨trivial, fun _ => ⟨?_, ?_⟩⟩
  · ring
  · ring

theorem reflect_hlle :
    ReflectSym (hlle (fieldOps sqrt pow)) rhol rhor pl pr ul ur gamma tol niter := by
  intro r0 r1
  simp only [hlle, fieldOps_sqrt, Nat.cast_ofNat, Nat.cast_one, pymax_eq_max, pymin_eq_min]
  generalize sqrt rhol = a
  generalize sqrt rhor = b
  generalize sqrt (gamma * pl * rhol) = cl
  generalize sqrt (gamma * pr * rhor) = cr
  have e1 : (b * cr + a * cl) / (b + a) = (a * cl + b * cr) / (a + b) := by
    rw [add_comm (b * cr), add_comm b]
  rw [e1]
  generalize (a * cl + b * cr) / (a + b) = C
  have e2 : min (-ur - cr) (-C) = -(max (ur + cr) C) := by
    rw [← min_neg_neg]; congr 1; ring
  have e3 : max (-ul + cl) C = -(min (ul - cl) (-C)) := by
    rw [← max_neg_neg, neg_neg]; congr 1; ring
  rw [e2, e3]
  generalize max (ur + cr) C = R
  generalize min (ul - cl) (-C) = S
  rw [max_neg_neg, min_neg_neg, min_comm R S, max_comm R S]
  generalize max S R = M
  generalize min S R = m
  have e4 : -m - -M = M - m := by ring
  refine ⟨trivial, fun _ => ⟨?_, ?_⟩⟩
  · rw [e4]; ring
  · rw [e4]; ring

theorem reflect_hll_ball :
    ReflectSym (hll_ball (fieldOps sqrt pow)) rhol rhor pl pr ul ur gamma tol niter := by
  intro r0 r1
  simp only [hll_ball, fieldOps_sqrt, fieldOps_abs, Nat.cast_ofNat, Nat.cast_one, pymax_eq_max,
    pymin_eq_min, abs_neg]
  generalize sqrt rhol = a
  generalize sqrt rhor = b
  generalize sqrt (gamma * pl / rhol) = cl
  generalize sqrt (gamma * pr / rhor) = cr
  have hE : (b * cr * cr + a * cl * cl) / (b * a) +
      1 / 2 * (gamma - 1) * (a * b) * (1 / (a + b)) * (1 / (a + b)) * (|ul| - |ur|) * (|ul| - |ur|)
      = (a * cl * cl + b * cr * cr) / (a * b) +
      1 / 2 * (gamma - 1) * (b * a) * (1 / (b + a)) * (1 / (b + a)) * (|ur| - |ul|) * (|ur| - |ul|) := by
    ring
  rw [hE]
  generalize sqrt ((a * cl * cl + b * cr * cr) / (a * b) +
      1 / 2 * (gamma - 1) * (b * a) * (1 / (b + a)) * (1 / (b + a)) * (|ur| - |ul|) * (|ur| - |ul|)) = C
  have hU : (b * -ur + a * -ul) / (b * a) = -((a * ul + b * ur) / (a * b)) := by ring
  rw [hU]
  generalize (a * ul + b * ur) / (a * b) = U
  have e2 : min (-U - C) (-ur - cr) = -(max (U + C) (ur + cr)) := by
    rw [← min_neg_neg]; congr 1 <;> ring
  have e3 : max (-U + C) (-ul + cl) = -(min (U - C) (ul - cl)) := by
    rw [← max_neg_neg]; congr 1 <;> ring
  rw [e2, e3]
  generalize max (U + C) (ur + cr) = R
  generalize min (U - C) (ul - cl) = S
  have e4 : rhor * (-ur - -R) + rhol * (-S - -ul) = rhol * (ul - S) + rhor * (R - ur) := by ring
  have e5 : -S - -R = R - S := by ring
  rw [e4, e5]
  refine ⟨trivial, fun _ => ⟨?_, ?_⟩⟩
  · ring
  · ring

/-! ## equal states are returned unchanged (admissible data: `rho, p > 0`,
`gamma > 0`; `sqrt` positive on positives) -/

theorem equal_states_non_diffusive :
    EqualStates (non_diffusive (fieldOps sqrt pow)) rho p u gamma tol niter := by
  intro r0 r1
  simp only [non_diffusive, Nat.cast_ofNat, Nat.cast_one]
  exact ⟨trivial, by ring, by ring⟩

theorem equal_states_roe (hs : SqrtPos sqrt) (hrho : 0 < rho) :
    EqualStates (roe (fieldOps sqrt pow)) rho p u gamma tol niter := by
  intro r0 r1
  simp only [roe, fieldOps_sqrt, Nat.cast_ofNat, Nat.cast_one]
  have ha : 0 < sqrt rho := hs rho hrho
  generalize sqrt rho = a at ha
  have h2 : a + a ≠ 0 := by positivity
  refine ⟨trivial, ?_, ?_⟩
  · field_simp; ring
  · field_simp; ring

theorem equal_states_llxf (hp : 0 < p) :
    EqualStates (llxf (fieldOps sqrt pow)) rho p u gamma tol niter := by
  intro r0 r1
  simp only [llxf, fieldOps_sqrt, Nat.cast_ofNat, Nat.cast_one, pymax_eq_max]
  have hp' : p ≠ 0 := hp.ne'
  have h0 : (1 : K) / 2 * (p + p - max (sqrt (gamma * p * rho)) (sqrt (gamma * p * rho)) * (u - u)) = p := by
    ring
  refine ⟨trivial, h0, ?_⟩
  rw [h0]; field_simp; ring

theorem equal_states_hllsy (hs : SqrtPos sqrt) (hrho : 0 < rho) (hp : 0 < p) (hg : 0 < gamma) :
    EqualStates (hllsy (fieldOps sqrt pow)) rho p u gamma tol niter := by
  intro r0 r1
  simp only [hllsy, fieldOps_sqrt, Nat.cast_ofNat, Nat.cast_one, pymax_eq_max]
  have ha : 0 < sqrt rho := hs rho hrho
  have hc : 0 < sqrt (gamma * p * rho) := hs _ (by positivity)
  generalize sqrt rho = a at ha
  generalize sqrt (gamma * p * rho) = c at hc
  have h2 : a + a ≠ 0 := by positivity
  have e : 1 / (a + a) * (a * c + a * c) = c := by field_simp
  rw [e, max_self]
  have hcc : c + c ≠ 0 := by positivity
  have hp' : p ≠ 0 := hp.ne'
  have h0 : c / (c + c) * p + c / (c + c) * p - c * c / (c + c) * (u - u) = p := by
    field_simp; ring
  refine ⟨trivial, h0, ?_⟩
  rw [h0]; field_simp; ring

theorem equal_states_hlle (hs : SqrtPos sqrt) (hrho : 0 < rho) (hp : 0 < p) (hg : 0 < gamma) :
    EqualStates (hlle (fieldOps sqrt pow)) rho p u gamma tol niter := by
  intro r0 r1
  simp only [hlle, fieldOps_sqrt, Nat.cast_ofNat, Nat.cast_one, pymax_eq_max, pymin_eq_min]
  have ha : 0 < sqrt rho := hs rho hrho
  have hc : 0 < sqrt (gamma * p * rho) := hs _ (by positivity)
  generalize sqrt rho = a at ha
  generalize sqrt (gamma * p * rho) = c at hc
  have h2 : a + a ≠ 0 := by positivity
  have e : (a * c + a * c) / (a + a) = c := by field_simp
  rw [e]
  have hS : min (u - c) (-c) < 0 := lt_of_le_of_lt (min_le_right _ _) (by linarith)
  have hR : 0 < max (u + c) c := lt_of_lt_of_le hc (le_max_right _ _)
  generalize min (u - c) (-c) = S at hS
  generalize max (u + c) c = R at hR
  rw [max_eq_right (by linarith : S ≤ R), min_eq_left (by linarith : S ≤ R)]
  have hRS : R - S ≠ 0 := by
    have : 0 < R - S := by linarith
    exact this.ne'
  have hp' : p ≠ 0 := hp.ne'
  have h0 : (R * p - S * p) / (R - S) + R * S / (R - S) * (u - u) = p := by
    field_simp; ring
  refine ⟨trivial, h0, ?_⟩
  rw [h0]; field_simp; ring

theorem equal_states_hll_ball (hs : SqrtPos sqrt) (hrho : 0 < rho) (hp : 0 < p) (hg : 0 < gamma) :
    EqualStates (hll_ball (fieldOps sqrt pow)) rho p u gamma tol niter := by
  intro r0 r1
  simp only [hll_ball, fieldOps_sqrt, fieldOps_abs, Nat.cast_ofNat, Nat.cast_one, pymax_eq_max,
    pymin_eq_min]
  have hc : 0 < sqrt (gamma * p / rho) := hs _ (by positivity)
  generalize sqrt rho = a
  generalize sqrt (gamma * p / rho) = c at hc
  generalize sqrt ((a * c * c + a * c * c) / (a * a) +
    1 / 2 * (gamma - 1) * (a * a) * (1 / (a + a)) * (1 / (a + a)) * (|u| - |u|) * (|u| - |u|)) = C
  generalize (a * u + a * u) / (a * a) = U
  have hS : min (U - C) (u - c) ≤ u - c := min_le_right _ _
  have hR : u + c ≤ max (U + C) (u + c) := le_max_right _ _
  generalize min (U - C) (u - c) = S at hS
  generalize max (U + C) (u + c) = R at hR
  have hRS : 0 < R - S := by linarith
  have hRS' : R - S ≠ 0 := hRS.ne'
  have hd : rho * (u - S) + rho * (R - u) = rho * (R - S) := by ring
  have hrho' : rho ≠ 0 := hrho.ne'
  have hu : (R * S * (rho - rho) + rho * u * R - rho * u * S) / (rho * (u - S) + rho * (R - u)) = u := by
    rw [hd, div_eq_iff (mul_ne_zero hrho' hRS')]; ring
  refine ⟨trivial, ?_, hu⟩
  rw [hu]; field_simp; ring

/-! ## `hllc_ball` -/

theorem reflect_hllc_ball :
    ReflectSym (hllc_ball (fieldOps sqrt pow)) rhol rhor pl pr ul ur gamma tol niter := by
  intro r0 r1
  simp only [hllc_ball, fieldOps_sqrt, Nat.cast_ofNat, Nat.cast_one]
  generalize sqrt (gamma * pl / rhol) = cl
  generalize sqrt (gamma * pr / rhor) = cr
  have e1 : 1 / 2 * (pr + pl - 1 / 2 * (rhor + rhol) * (1 / 2 * (cr + cl)) * (-ul - -ur))
      = 1 / 2 * (pl + pr - 1 / 2 * (rhol + rhor) * (1 / 2 * (cl + cr)) * (ur - ul)) := by ring
  rw [e1]
  generalize 1 / 2 * (pl + pr - 1 / 2 * (rhol + rhor) * (1 / 2 * (cl + cr)) * (ur - ul)) = P
  generalize (if 1 < P / pl then sqrt (1 + 1 / 2 * (gamma + 1) / gamma * (P / pl - 1)) else 1) = ql
  generalize (if 1 < P / pr then sqrt (1 + 1 / 2 * (gamma + 1) / gamma * (P / pr - 1)) else 1) = qr
  refine ⟨trivial, fun _ => ⟨?_, ?_⟩⟩
  · ring
  · ring

theorem equal_states_hllc_ball :
    EqualStates (hllc_ball (fieldOps sqrt pow)) rho p u gamma tol niter := by
  intro r0 r1
  simp only [hllc_ball, fieldOps_sqrt, Nat.cast_ofNat, Nat.cast_one]
  refine ⟨trivial, ?_, ?_⟩
  · ring
  · ring

/-! ## the dispatch function calls the documented solver for every method number -/

theorem riemann_solve_dispatch (o : Ops K) (r0 r1 : K) :
    riemann_solve o 0 rhol rhor pl pr ul ur gamma niter tol r0 r1
      = non_diffusive o rhol rhor pl pr ul ur gamma niter tol r0 r1 ∧
    riemann_solve o 1 rhol rhor pl pr ul ur gamma niter tol r0 r1
      = van_leer o rhol rhor pl pr ul ur gamma niter tol r0 r1 ∧
    riemann_solve o 2 rhol rhor pl pr ul ur gamma niter tol r0 r1
      = exact o rhol rhor pl pr ul ur gamma niter tol r0 r1 ∧
    riemann_solve o 3 rhol rhor pl pr ul ur gamma niter tol r0 r1
      = hllc o rhol rhor pl pr ul ur gamma niter tol r0 r1 ∧
    riemann_solve o 4 rhol rhor pl pr ul ur gamma niter tol r0 r1
      = ducowicz o rhol rhor pl pr ul ur gamma niter tol r0 r1 ∧
    riemann_solve o 5 rhol rhor pl pr ul ur gamma niter tol r0 r1
      = hlle o rhol rhor pl pr ul ur gamma niter tol r0 r1 ∧
    riemann_solve o 6 rhol rhor pl pr ul ur gamma niter tol r0 r1
      = roe o rhol rhor pl pr ul ur gamma niter tol r0 r1 ∧
    riemann_solve o 7 rhol rhor pl pr ul ur gamma niter tol r0 r1
      = llxf o rhol rhor pl pr ul ur gamma niter tol r0 r1 ∧
    riemann_solve o 8 rhol rhor pl pr ul ur gamma niter tol r0 r1
      = hllc_ball o rhol rhor pl pr ul ur gamma niter tol r0 r1 ∧
    riemann_solve o 9 rhol rhor pl pr ul ur gamma niter tol r0 r1
      = hll_ball o rhol rhor pl pr ul ur gamma niter tol r0 r1 ∧
    riemann_solve o 10 rhol rhor pl pr ul ur gamma niter tol r0 r1
      = hllsy o rhol rhor pl pr ul ur gamma niter tol r0 r1 := by
  refine ⟨?_, ?_, ?_, ?_, ?_, ?_, ?_, ?_, ?_, ?_, ?_⟩ <;> simp [riemann_solve]

/-- any solver reachable through `riemann_solve` inherits reflection symmetry -/
theorem reflect_riemann_solve (o : Ops K) (m : Int)
    (h : ∀ f ∈ [non_diffusive o, van_leer o, exact o, hllc o, ducowicz o, hlle o, roe o, llxf o,
        hllc_ball o, hll_ball o, hllsy o], ReflectSym f rhol rhor pl pr ul ur gamma tol niter)
    (hm : 0 ≤ m ∧ m ≤ 10) :
    ReflectSym (riemann_solve o m) rhol rhor pl pr ul ur gamma tol niter := by
  obtain ⟨h0, h10⟩ := hm
  have : m = 0 ∨ m = 1 ∨ m = 2 ∨ m = 3 ∨ m = 4 ∨ m = 5 ∨ m = 6 ∨ m = 7 ∨ m = 8 ∨ m = 9 ∨ m = 10 := by
    omega
  intro r0 r1
  rcases this with rfl | rfl | rfl | rfl | rfl | rfl | rfl | rfl | rfl | rfl | rfl <;>
    simp only [riemann_solve] <;> norm_num <;>
    first
      | exact h _ (by simp) r0 r1

/-! ## the iterative contact solvers -/

/-- Galilean invariance of one solver at one state: adding `c` to both
velocities keeps the return code and, on success, `p*`, and adds `c` to `u*` -/
def GalileanInv (f : Solver K) (rhol rhor pl pr ul ur gamma tol : K) (niter : Int) (c : K) : Prop :=
  ∀ r0 r1 : K,
    (f rhol rhor pl pr (ul + c) (ur + c) gamma niter tol r0 r1).code
      = (f rhol rhor pl pr ul ur gamma niter tol r0 r1).code ∧
    ((f rhol rhor pl pr ul ur gamma niter tol r0 r1).code = 0 →
      (f rhol rhor pl pr (ul + c) (ur + c) gamma niter tol r0 r1).r0
        = (f rhol rhor pl pr ul ur gamma niter tol r0 r1).r0 ∧
      (f rhol rhor pl pr (ul + c) (ur + c) gamma niter tol r0 r1).r1
        = (f rhol rhor pl pr ul ur gamma niter tol r0 r1).r1 + c)

theorem reflect_van_leer (hs : SqrtPos sqrt) (hrl : 0 < rhol) (hrr : 0 < rhor) (hpl : 0 < pl)
    (hpr : 0 < pr) (hg : 0 < gamma) :
    ReflectSym (van_leer (fieldOps sqrt pow)) rhol rhor pl pr ul ur gamma tol niter := by
  intro r0 r1
  have hneg : ¬ (rhol < 0 ∨ rhor < 0 ∨ pl < 0 ∨ pr < 0) := by
    rintro (h | h | h | h) <;> linarith
  have hneg' : ¬ (rhor < 0 ∨ rhol < 0 ∨ pr < 0 ∨ pl < 0) := by
    rintro (h | h | h | h) <;> linarith
  simp only [van_leer, fieldOps_sqrt, Nat.cast_ofNat, Nat.cast_one, Nat.cast_zero, if_neg hneg,
    if_neg hneg']
  have hcl : 0 < sqrt (gamma * pl * rhol) := hs _ (by positivity)
  have hcr : 0 < sqrt (gamma * pr * rhor) := hs _ (by positivity)
  generalize sqrt (gamma * pl * rhol) = cl at hcl
  generalize sqrt (gamma * pr * rhor) = cr at hcr
  generalize (8711228593176025 / 87112285931760246646623899502532662132736 : K) = sp
  have hsum : cl + cr ≠ 0 := by positivity
  have hsum' : cr + cl ≠ 0 := by positivity
  have h0 : pr + (pl - pr - cl * (-ul - -ur)) * cr / (cr + cl)
      = pl + (pr - pl - cr * (ur - ul)) * cl / (cl + cr) := by
    field_simp; ring
  rw [h0]
  generalize pymax (pl + (pr - pl - cr * (ur - ul)) * cl / (cl + cr)) sp = P0
  rw [show (van_leer_loopSt.mk false 0 P0 (0 : K) 0) = vlSwap ⟨false, 0, P0, 0, 0⟩ from rfl,
    van_leer_loop_mirror]
  exact vlFinish_mirror ul ur pl pr _

theorem galilean_van_leer (c : K) :
    GalileanInv (van_leer (fieldOps sqrt pow)) rhol rhor pl pr ul ur gamma tol niter c := by
  intro r0 r1
  simp only [van_leer, fieldOps_sqrt, Nat.cast_ofNat, Nat.cast_one, Nat.cast_zero]
  by_cases hneg : (rhol < 0 ∨ rhor < 0 ∨ pl < 0 ∨ pr < 0)
  · simp [if_pos hneg]
  · simp only [if_neg hneg]
    have h0 : ur + c - (ul + c) = ur - ul := by ring
    rw [h0, van_leer_loop_shift]
    exact vlFinish_shift ul ur pl pr c _

/-- `exact` reports failure (code 1, `result` untouched) for vacuum-generating
data: `2/(gamma-1) (c_l + c_r) <= u_r - u_l`, for every iteration limit and tolerance -/
theorem vacuum_reported_exact (r0 r1 : K)
    (hv : 2 * (1 / (gamma - 1)) * (sqrt (gamma * pl / rhol) + sqrt (gamma * pr / rhor)) ≤ ur - ul) :
    exact (fieldOps sqrt pow) rhol rhor pl pr ul ur gamma niter tol r0 r1 = ⟨1, r0, r1⟩ := by
  simp only [exact, fieldOps_sqrt, Nat.cast_ofNat, Nat.cast_one, Nat.cast_zero]
  rw [if_pos hv]

/-! ## `hllc` -/

theorem reflect_hllc (hs : SqrtPos sqrt) (hrl : 0 < rhol) (hrr : 0 < rhor) (hpl : 0 < pl)
    (hpr : 0 < pr) (hg : 0 < gamma) :
    ReflectSym (hllc (fieldOps sqrt pow)) rhol rhor pl pr ul ur gamma tol niter := by
  intro r0 r1
  rw [hllc_eq, hllc_eq]
  simp only [fieldOps_sqrt]
  have h := hllcFrom_mirror (sqrt rhol) (sqrt rhor) (sqrt (gamma * pl / rhol))
    (sqrt (gamma * pr / rhor)) rhol rhor pl pr ul ur (1 / (gamma - 1)) r0 r1 (hs _ hrl) (hs _ hrr)
    (hs _ (by positivity)) (hs _ (by positivity)) hrl hrr
  exact ⟨h.1, fun _ => h.2⟩

theorem equal_states_hllc (hs : SqrtPos sqrt) (hrho : 0 < rho) (hp : 0 < p) (hg : 0 < gamma) :
    EqualStates (hllc (fieldOps sqrt pow)) rho p u gamma tol niter := by
  intro r0 r1
  rw [hllc_eq]
  simp only [fieldOps_sqrt]
  rw [hllcFrom_equal _ _ _ _ _ _ _ _ (hs _ hrho) (hs _ (by positivity)) hp]
  exact ⟨rfl, rfl, rfl⟩

/-! ## `ducowicz`

Cases A and B are mirror images of themselves, case C is the mirror image of
case D, but D is taken unguarded while C is guarded by its sign test and its
discriminant (DESIGN §7 F9).  If both the guard of C and the (untested) guard of
D hold, both discriminants vanish and the candidates coincide; reflection
symmetry therefore holds whenever the last branch is reached only with its
guard true. -/

/-- what `reflect_ducowicz_partial` assumes about `sqrt` -/
def SqrtZero (sqrt : K → K) : Prop := sqrt 0 = 0

/-- on the given data: if the guarded cases A, B, C of `ducowicz` all fail, the
guard the source does not test before taking case D (its discriminant is
non-negative and `u* ≤ umin, umax`: the mirror image of the guard of C) holds -/
def DucoLastBranchGuarded (sqrt : K → K) (pow : K → K → K) (rhol rhor pl pr ul ur gamma : K) : Prop :=
  let o := fieldOps sqrt pow
  let bl := rhol * (1 / 2 * (gamma + 1))
  let br := rhor * (1 / 2 * (gamma + 1))
  let plmin := pl - 1 / 4 * rhol * sqrt (gamma * pl * rhol) * sqrt (gamma * pl * rhol) / (1 / 2 * (gamma + 1))
  let prmin := pr - 1 / 4 * rhor * sqrt (gamma * pr * rhor) * sqrt (gamma * pr * rhor) / (1 / 2 * (gamma + 1))
  let umin := ur - 1 / 2 * sqrt (gamma * pr * rhor) / (1 / 2 * (gamma + 1))
  let umax := ul + 1 / 2 * sqrt (gamma * pl * rhol) / (1 / 2 * (gamma + 1))
  ¬ ducoGA umin umax (ducoUA o bl br plmin prmin umin umax) →
  ¬ ducoGB umin umax (ducoUB o bl br plmin prmin umin umax) →
  ¬ (0 ≤ ducoDC bl br plmin prmin umin umax ∧ ducoGC umin umax (ducoUC o bl br plmin prmin umin umax)) →
  (0 ≤ ducoDD bl br plmin prmin umin umax ∧ ducoGD umin umax (ducoUD o bl br plmin prmin umin umax))

/-- reflection symmetry of `ducowicz` on every admissible state on which the
unguarded last branch is taken only when its (untested) guard holds -/
theorem reflect_ducowicz_partial (hs0 : SqrtZero sqrt) (hrl : 0 < rhol) (hrr : 0 < rhor)
    (hg : 0 < gamma)
    (hcov : DucoLastBranchGuarded sqrt pow rhol rhor pl pr ul ur gamma) :
    ReflectSym (ducowicz (fieldOps sqrt pow)) rhol rhor pl pr ul ur gamma tol niter := by
  intro r0 r1
  rw [ducowicz_eq, ducowicz_eq]
  simp only [fieldOps_sqrt]
  have e1 : -ul - 1 / 2 * sqrt (gamma * pl * rhol) / (1 / 2 * (gamma + 1))
      = -(ul + 1 / 2 * sqrt (gamma * pl * rhol) / (1 / 2 * (gamma + 1))) := by ring
  have e2 : -ur + 1 / 2 * sqrt (gamma * pr * rhor) / (1 / 2 * (gamma + 1))
      = -(ur - 1 / 2 * sqrt (gamma * pr * rhor) / (1 / 2 * (gamma + 1))) := by ring
  rw [e1, e2]
  have hbl : 0 < rhol * (1 / 2 * (gamma + 1)) := by positivity
  have hbr : 0 < rhor * (1 / 2 * (gamma + 1)) := by positivity
  have h := ducoTail_mirror sqrt pow _ _ _ _ _ _ hbl hbr hs0 hcov
  exact ⟨h.1, fun _ => h.2⟩

/-- the unconditional statement.  What is missing is `DucoLastBranchGuarded`
for all admissible data: "if the root of the two-shock pressure balance lies
strictly between `umin` and `umax`, the root formula of case A (or B) passes its
sign test".  It fails at least where that formula is `0/0`
(`(br - bl)(b + prmin - plmin) = 0` with `c = dd`; Python raises
`ZeroDivisionError` there), so the statement needs a genericity hypothesis. -/
def ReflectSymDucowicz (sqrt : K → K) (pow : K → K → K) : Prop :=
  ∀ rhol rhor pl pr ul ur gamma tol : K, ∀ niter : Int,
    0 < rhol → 0 < rhor → 0 < pl → 0 < pr → 1 < gamma →
    ReflectSym (ducowicz (fieldOps sqrt pow)) rhol rhor pl pr ul ur gamma tol niter

/-- what `equal_states_ducowicz` assumes about `sqrt`: it inverts squaring on `x ≥ 0` -/
def SqrtMulSelf (sqrt : K → K) : Prop := ∀ x : K, 0 ≤ x → sqrt (x * x) = x

theorem equal_states_ducowicz (hs : SqrtPos sqrt) (hq : SqrtMulSelf sqrt) (hrho : 0 < rho)
    (hp : 0 < p) (hg : 0 < gamma) :
    EqualStates (ducowicz (fieldOps sqrt pow)) rho p u gamma tol niter := by
  intro r0 r1
  rw [ducowicz_eq]
  simp only [fieldOps_sqrt]
  have hc : 0 < sqrt (gamma * p * rho) := hs _ (by positivity)
  generalize sqrt (gamma * p * rho) = c at hc
  have hA : (0 : K) < 1 / 2 * (gamma + 1) := by positivity
  generalize (1 : K) / 2 * (gamma + 1) = A at hA
  have hh : 0 < 1 / 2 * c / A := by positivity
  have hβ : 0 < rho * A := by positivity
  rw [ducoTail_equal sqrt pow (rho * A) _ u (1 / 2 * c / A) hβ hh (hq _ (by positivity))]
  have e : p - 1 / 4 * rho * c * c / A + rho * A * (1 / 2 * c / A) * (1 / 2 * c / A) = p := by
    field_simp; ring
  rw [e, pymax_eq_max, max_eq_left hp.le]
  exact ⟨rfl, rfl, rfl⟩

/-! ## `exact` — what is assumed about the abstract `pow` -/

/-- `pow` is positive on positive bases (needed so that `pow (pl/pr) g ≠ 0` can be
cancelled in the two-rarefaction starting guess) -/
def PowPos (pow : K → K → K) : Prop := ∀ x g : K, 0 < x → 0 < pow x g

/-- `pow x⁻¹ g = (pow x g)⁻¹` on positive bases: the mirrored two-rarefaction
guess evaluates `pow (pr/pl) g` where the original evaluates `pow (pl/pr) g` -/
def PowInv (pow : K → K → K) : Prop := ∀ x g : K, 0 < x → pow x⁻¹ g = (pow x g)⁻¹

theorem reflect_exact (hpp : PowPos pow) (hpi : PowInv pow) (hpl : 0 < pl) (hpr : 0 < pr) :
    ReflectSym (exact (fieldOps sqrt pow)) rhol rhor pl pr ul ur gamma tol niter := by
  intro r0 r1
  rw [exact_eq, exact_eq]
  simp only [fieldOps_sqrt]
  have hd : 0 < pl / pr := div_pos hpl hpr
  refine exFrom_mirror sqrt pow _ _ _ _ _ _ _ _ _ rhol rhor pl pr ul ur niter tol r0 r1 ?_ ?_
  · rw [← inv_div pl pr]; exact hpi _ _ hd
  · exact (hpp _ _ hd).ne'

theorem galilean_exact (hs : SqrtPos sqrt) (hpp : PowPos pow) (hrl : 0 < rhol) (hrr : 0 < rhor)
    (hpl : 0 < pl) (hpr : 0 < pr) (hg : 0 < gamma) (c : K) :
    GalileanInv (exact (fieldOps sqrt pow)) rhol rhor pl pr ul ur gamma tol niter c := by
  intro r0 r1
  rw [exact_eq, exact_eq]
  simp only [fieldOps_sqrt]
  have hcl : 0 < sqrt (gamma * pl / rhol) := hs _ (by positivity)
  have hcr : 0 < sqrt (gamma * pr / rhor) := hs _ (by positivity)
  have hq : 0 < pow (pl / pr) ((gamma - 1) * (1 / (2 * gamma))) := hpp _ _ (div_pos hpl hpr)
  refine exFrom_shift (fieldOps sqrt pow) _ _ _ _ _ _ _ _ _ rhol rhor pl pr ul ur c niter tol r0 r1 ?_
  simp only [fieldOps_pow]
  have : 0 < pow (pl / pr) ((gamma - 1) * (1 / (2 * gamma))) / sqrt (gamma * pl / rhol)
      + 1 / sqrt (gamma * pr / rhor) := by positivity
  exact this.ne'

/-- `pow 1 g = 1` -/
def PowOne (pow : K → K → K) : Prop := ∀ g : K, pow 1 g = 1

/-- equal states: the first Newton pass converges at `p* = p`.  `niter ≥ 2` because
`exact` reports failure when the converging pass is the last one allowed
(`if i == niter - 1`), `pow 1 g = 1` because the pressure function is evaluated at `p/p` -/
theorem equal_states_exact (hs : SqrtPos sqrt) (h1 : PowOne pow) (hrho : 0 < rho) (hp : 0 < p)
    (hg : 1 < gamma) (htol : 0 ≤ tol) (hn : 2 ≤ niter) :
    EqualStates (exact (fieldOps sqrt pow)) rho p u gamma tol niter := by
  intro r0 r1
  rw [exact_eq]
  simp only [fieldOps_sqrt]
  have hg0 : 0 < gamma := by linarith
  have hg1 : 0 < gamma - 1 := by linarith
  have hc : 0 < sqrt (gamma * p / rho) := hs _ (by positivity)
  have hg4 : 0 < 2 * (1 / (gamma - 1)) := by positivity
  rw [exFrom_equal sqrt pow _ _ _ _ _ _ _ _ rho p u niter tol r0 r1 hc hg4 hp (h1 _) htol hn]
  exact ⟨rfl, rfl, rfl⟩

/-- equal states: the first pass of `van_leer` converges at `p* = p` (pressure not
below the floor `smallp = 1e-25`, positive tolerance, at least one pass allowed) -/
theorem equal_states_van_leer (hrho : 0 ≤ rho) (hp : vlSmallp ≤ p) (htol : 0 < tol) (hn : 1 ≤ niter) :
    EqualStates (van_leer (fieldOps sqrt pow)) rho p u gamma tol niter := by
  intro r0 r1
  rw [van_leer_eq]
  have hp0 : 0 < p := lt_of_lt_of_le vlSmallp_pos hp
  have hneg : ¬ (rho < 0 ∨ rho < 0 ∨ p < 0 ∨ p < 0) := by
    rintro (h | h | h | h) <;> linarith
  rw [if_neg hneg]
  simp only [fieldOps_sqrt]
  rw [vlFrom_equal sqrt pow _ rho p u gamma niter tol vlSmallp hp htol hn]
  exact ⟨rfl, rfl, rfl⟩

/-- a successful `van_leer` returns a positive pressure: every pass floors `p*`
at `smallp > 0` and success needs at least one pass.  No hypothesis on the data. -/
theorem success_imp_pos_van_leer (r0 r1 : K) :
    (van_leer (fieldOps sqrt pow) rhol rhor pl pr ul ur gamma niter tol r0 r1).code = 0 →
      0 < (van_leer (fieldOps sqrt pow) rhol rhor pl pr ul ur gamma niter tol r0 r1).r0 := by
  rw [van_leer_eq]
  by_cases hneg : (rhol < 0 ∨ rhor < 0 ∨ pl < 0 ∨ pr < 0)
  · rw [if_pos hneg]; intro h; simp at h
  · rw [if_neg hneg]
    intro h
    exact lt_of_lt_of_le vlSmallp_pos (vlFrom_success_floor _ _ _ _ _ _ _ _ _ _ _ _ _ h)

/-! ## scaling of pressures and densities by a common factor -/

/-- scaling invariance of one solver at one state: multiplying pressures and
densities by `l` keeps the return code and, on success, multiplies `p*` by `l`
and keeps `u*` -/
def ScalingInv (f : Solver K) (rhol rhor pl pr ul ur gamma tol : K) (niter : Int) (l : K) : Prop :=
  ∀ r0 r1 : K,
    (f (l * rhol) (l * rhor) (l * pl) (l * pr) ul ur gamma niter tol r0 r1).code
      = (f rhol rhor pl pr ul ur gamma niter tol r0 r1).code ∧
    ((f rhol rhor pl pr ul ur gamma niter tol r0 r1).code = 0 →
      (f (l * rhol) (l * rhor) (l * pl) (l * pr) ul ur gamma niter tol r0 r1).r0
        = l * (f rhol rhor pl pr ul ur gamma niter tol r0 r1).r0 ∧
      (f (l * rhol) (l * rhor) (l * pl) (l * pr) ul ur gamma niter tol r0 r1).r1
        = (f rhol rhor pl pr ul ur gamma niter tol r0 r1).r1)

/-- `exact` scales exactly, for every state, iteration limit and tolerance.  Only
`SqrtScales` (`sqrt (m² x) = m sqrt x`, `m > 0`) is used, in the shock branch of the
pressure function and the two-shock starting guess; `pow` only sees pressure ratios -/
theorem scaling_exact (l : K) (hs : SqrtScales sqrt) (hl : 0 < l) :
    ScalingInv (exact (fieldOps sqrt pow)) rhol rhor pl pr ul ur gamma tol niter l := by
  intro r0 r1
  rw [exact_eq, exact_eq]
  simp only [fieldOps_sqrt]
  have e1 : gamma * (l * pl) / (l * rhol) = gamma * pl / rhol := by
    rw [show gamma * (l * pl) = l * (gamma * pl) by ring, mul_div_mul_left _ _ hl.ne']
  have e2 : gamma * (l * pr) / (l * rhor) = gamma * pr / rhor := by
    rw [show gamma * (l * pr) = l * (gamma * pr) by ring, mul_div_mul_left _ _ hl.ne']
  rw [e1, e2]
  exact exFrom_scale sqrt pow hs hl _ _ _ _ _ _ _ _ _ rhol rhor pl pr ul ur niter tol r0 r1

/-- the pressure floor `smallp = 1e-25` of `van_leer` is never applied on the run
from the given data, nor would the floor `smallp / l` be: the starting guess and
every Newton update are at least `max smallp (smallp / l)`.  (The floor is an
absolute pressure, so it is the one thing in `van_leer` that does not scale.) -/
def VanLeerFloorInactive (sqrt : K → K) (pow : K → K → K) (rhol rhor pl pr ul ur gamma tol : K)
    (niter : Int) (l : K) : Prop :=
  vlFloorInactive (fieldOps sqrt pow) (sqrt (gamma * pl * rhol)) (sqrt (gamma * pr * rhor))
    rhol rhor pl pr ul ur gamma niter tol vlSmallp (l⁻¹ * vlSmallp)

theorem scaling_van_leer (l : K) (hs : SqrtScales sqrt) (hl : 0 < l) (hrl : 0 ≤ rhol)
    (hrr : 0 ≤ rhor) (hpl : 0 ≤ pl) (hpr : 0 ≤ pr)
    (hf : VanLeerFloorInactive sqrt pow rhol rhor pl pr ul ur gamma tol niter l) :
    ScalingInv (van_leer (fieldOps sqrt pow)) rhol rhor pl pr ul ur gamma tol niter l := by
  intro r0 r1
  rw [van_leer_eq, van_leer_eq]
  have hneg : ¬ (rhol < 0 ∨ rhor < 0 ∨ pl < 0 ∨ pr < 0) := by
    rintro (h | h | h | h) <;> linarith
  have hneg' : ¬ (l * rhol < 0 ∨ l * rhor < 0 ∨ l * pl < 0 ∨ l * pr < 0) := by
    rintro (h | h | h | h) <;> nlinarith
  rw [if_neg hneg, if_neg hneg']
  simp only [fieldOps_sqrt]
  have e1 : sqrt (gamma * (l * pl) * (l * rhol)) = l * sqrt (gamma * pl * rhol) := by
    rw [show gamma * (l * pl) * (l * rhol) = l * l * (gamma * pl * rhol) by ring]; exact hs _ _ hl
  have e2 : sqrt (gamma * (l * pr) * (l * rhor)) = l * sqrt (gamma * pr * rhor) := by
    rw [show gamma * (l * pr) * (l * rhor) = l * l * (gamma * pr * rhor) by ring]; exact hs _ _ hl
  rw [e1, e2]
  have h := vlFrom_scale sqrt pow hl _ _ rhol rhor pl pr ul ur gamma niter tol vlSmallp hf
  exact ⟨h.1, fun _ => h.2⟩

/-! ## stated, not proved

* `ReflectSymDucowicz` (above): needs `DucoLastBranchGuarded` for all admissible data.
* `SuccessImpPosExact`: `exact` has no pressure floor; a Newton iterate may become
  negative without leaving the loop, and for `niter ≤ 0` the loop does not run and
  `exact` returns code 0 with `p* = 0`.  Checked on the real code (`niter ≥ 2`) only. -/

/-- success of `exact` implies a positive star pressure (not proved; false for `niter ≤ 0`) -/
def SuccessImpPosExact (sqrt : K → K) (pow : K → K → K) : Prop :=
  ∀ rhol rhor pl pr ul ur gamma tol r0 r1 : K, ∀ niter : Int,
    0 < rhol → 0 < rhor → 0 < pl → 0 < pr → 1 < gamma → 0 < tol → 2 ≤ niter →
    (exact (fieldOps sqrt pow) rhol rhor pl pr ul ur gamma niter tol r0 r1).code = 0 →
      0 < (exact (fieldOps sqrt pow) rhol rhor pl pr ul ur gamma niter tol r0 r1).r0

end

/-! ## non-vacuity: the hypotheses are satisfiable, the statements say something -/

example : SqrtPos (fun x : K => x) := fun _ h => h

/-- the Sod tube is admissible for every theorem above (`gamma = 7/5`) -/
example : (0 : K) < 1 ∧ (0 : K) < 1 / 8 ∧ (0 : K) < 1 / 10 ∧ (0 : K) < 7 / 5 := by
  refine ⟨?_, ?_, ?_, ?_⟩ <;> positivity

/-- reflection really changes the problem: `non_diffusive` on a moving state
returns a non-zero `u*`, and the mirrored problem returns its negative -/
example : (non_diffusive (fieldOps (fun x : K => x) (fun x _ => x)) 1 (1 / 8) 1 (1 / 10) 1 3 (7 / 5) 20
    (1 / 1000) 0 0).r1 = 2 := by
  simp only [non_diffusive, Nat.cast_ofNat, Nat.cast_one]; norm_num

/-- a vacuum-generating state exists for `vacuum_reported_exact` (`sqrt := id`) -/
example : 2 * (1 / ((7 / 5 : K) - 1)) * ((7 / 5 * 1 / 1) + (7 / 5 * 1 / 1)) ≤ 20 - (-20) := by
  norm_num

/-- the hypotheses on the abstract operations are jointly satisfiable: the real
square root and the real power function meet all of them -/
example : SqrtPos Real.sqrt ∧ SqrtScales Real.sqrt ∧ SqrtMulSelf Real.sqrt ∧ SqrtZero Real.sqrt :=
  ⟨fun _ h => Real.sqrt_pos.mpr h,
   fun m x hm => by rw [Real.sqrt_mul (mul_self_nonneg m), Real.sqrt_mul_self hm.le],
   fun _ h => Real.sqrt_mul_self h, Real.sqrt_zero⟩

example : PowPos (fun x g : ℝ => x ^ g) ∧ PowInv (fun x g : ℝ => x ^ g) ∧ PowOne (fun x g : ℝ => x ^ g) :=
  ⟨fun _ g h => Real.rpow_pos_of_pos h g, fun _ g h => Real.inv_rpow h.le g, fun g => Real.one_rpow g⟩

/-- `DucoLastBranchGuarded` holds e.g. wherever case A succeeds (equal states, `sqrt := id`-like
data are covered by `equal_states_ducowicz`); `VanLeerFloorInactive` holds e.g. for unit data
with no pass allowed (`sqrt := 1`), where it says `smallp ≤ 1` and `smallp / 2 ≤ 1` -/
example : VanLeerFloorInactive (fun _ : K => 1) (fun x _ => x) 1 1 1 1 0 0 (7 / 5) (1 / 1000) 0 2 := by
  refine ⟨⟨?_, ?_⟩, trivial⟩ <;> (unfold vlSmallp; norm_num)
end PysphVerif.C15
