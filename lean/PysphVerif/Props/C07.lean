import PysphVerif.Lemmas.Domain
import PysphVerif.Lemmas.DomainCover
/-!
# C07 — periodic and mirror domains create exactly the right ghost particles

Property theorems only (helper lemmas live in `Lemmas/Domain.lean`).  They are
about `Model/Domain.lean`, which transcribes `CPUDomainManager.update` and the
routines it calls (mirror part: the repaired code, see
`proposed_fixes/C07-mirror-ghosts.diff`) and is tied to the compiled code by
exact differential execution on every run.

All statements hold over every linearly ordered field `α`, every box, every
combination of periodic / mirror flags, every layer thickness `δ`, every
copied-property subset, every particle list and every history of
move-then-update rounds.  Multiset equality is `List.Perm`.
-/
set_option linter.unusedSectionVars false
namespace PysphVerif.C07
open PysphVerif.Domain

variable {α : Type} [Field α] [LinearOrder α] [IsStrictOrderedRing α]

/-! ## wrapping -/

/-- A coordinate that left a periodic box by at most one period lies inside it
again after `_box_wrap_periodic`. -/
theorem wrap_inside (lo hi v : α) (h1 : lo - (hi - lo) ≤ v) (h2 : v ≤ hi + (hi - lo)) :
    lo ≤ wrap1 lo hi (hi - lo) v ∧ wrap1 lo hi (hi - lo) v ≤ hi :=
  wrap1_inside lo hi v h1 h2

/-- Wrapping moves by a whole period or not at all, and leaves points of the
box where they are. -/
theorem wrap_is_period_shift (lo hi L v : α) :
    (wrap1 lo hi L v = v ∨ wrap1 lo hi L v = v + L ∨ wrap1 lo hi L v = v - L) ∧
    (lo ≤ v → v ≤ hi → wrap1 lo hi L v = v) :=
  ⟨wrap1_cases lo hi L v, wrap1_fix lo hi L v⟩

/-- Whole-particle form: on every periodic axis a particle that left the box by
at most one period is inside again; coordinates on other axes and every other
property (velocities, `h`, tag, all remaining properties) are untouched. -/
theorem wrap_particle (c : Config α) (p : Particle α) :
    (∀ a, c.periodic a = true →
        c.lo a - c.translate a ≤ p.pos a → p.pos a ≤ c.hi a + c.translate a →
        c.lo a ≤ (wrapParticle c p).pos a ∧ (wrapParticle c p).pos a ≤ c.hi a) ∧
    (∀ a, c.periodic a = false → (wrapParticle c p).pos a = p.pos a) ∧
    SameButPos p (wrapParticle c p) := by
  refine ⟨?_, ?_, sameButPos_wrapParticle c p⟩
  · intro a ha h1 h2
    rw [pos_wrapParticle, wrapCoord, ha]
    exact wrap1_inside _ _ _ h1 h2
  · intro a ha
    rw [pos_wrapParticle, wrapCoord, ha]
    simp

/-! ## the ghosts are exactly the images -/

/-- **Periodic ghosts.**  The buffer built by `_create_ghosts_periodic` from
the rows `base` of an array holds, as a multiset, exactly the face, edge and
corner images of every row (restricted to the copied properties) — none
missing, none duplicated.  `imagesOf` is made explicit by
`periodic_images_explicit`. -/
theorem periodic_ghosts_eq_image_set (c : Config α) (δ : α) (cs : CopySpec α)
    (base : List (Particle α)) :
    (ghostsFor c.periodic (periodicOps c δ) (restrict cs) base).Perm
      ((base.map (restrict cs)).flatMap (imagesOf c.periodic (periodicOps c δ))) :=
  ghostsFor_perm _ _ _ (selInvariant_periodic c δ cs) base

/-- **Mirror ghosts** (repaired code): same statement with the reflections. -/
theorem mirror_ghosts_eq_image_set (c : Config α) (δ : α) (base : List (Particle α)) :
    (ghostsFor c.mirror (mirrorOps c δ) id base).Perm
      (base.flatMap (imagesOf c.mirror (mirrorOps c δ))) := by
  have := ghostsFor_perm c.mirror (mirrorOps c δ) id (fun a => selInvariant_id _) base
  simpa using this

/-- direction `d` of axis `a` is taken for `q`: the axis is periodic and `q`
lies within `δ` of the corresponding face (`<=`, as in the code) -/
def inLayer (c : Config α) (δ : α) (a : Axis) (d : Dir) (q : Particle α) : Bool :=
  match d with
  | .none => true
  | .low => c.periodic a && inLow c δ a q
  | .high => c.periodic a && inHigh c δ a q

/-- `+1` period for the low layer, `−1` for the high layer -/
def coef : Dir → α
  | .none => 0
  | .low => 1
  | .high => -1

/-- `q` translated by `(a·Lx, b·Ly, c·Lz)` -/
def translateBy (c : Config α) (dx dy dz : Dir) (q : Particle α) : Particle α :=
  { q with x := q.x + coef dx * c.translate .x, y := q.y + coef dy * c.translate .y,
           z := q.z + coef dz * c.translate .z }

private theorem flatMap_congr_mem {β γ : Type} (l : List β) (f g : β → List γ)
    (h : ∀ a ∈ l, f a = g a) : l.flatMap f = l.flatMap g := by
  induction l with
  | nil => rfl
  | cons a l ih =>
    simp only [List.flatMap_cons]
    rw [h a List.mem_cons_self, ih (fun b hb => h b (List.mem_cons_of_mem _ hb))]

private theorem eff_periodic_ok (c : Config α) (δ : α) (a : Axis) (d : Dir) (q : Particle α) :
    (eff c.periodic (periodicOps c δ) a).ok d q = inLayer c δ a d q := by
  unfold eff inLayer
  cases h : c.periodic a <;> cases d <;> simp [AxisOps.ok, offOps, periodicOps]

private theorem eff_periodic_img_pos (c : Config α) (δ : α) (a : Axis) (d : Dir) (q : Particle α)
    (hok : inLayer c δ a d q = true) :
    (eff c.periodic (periodicOps c δ) a).img d q = shift a (coef d * c.translate a) q := by
  unfold eff
  cases h : c.periodic a
  · cases d
    · cases a <;> simp [AxisOps.img, offOps, shift, coef, Particle.setPos, Particle.pos]
    · simp [inLayer, h] at hok
    · simp [inLayer, h] at hok
  · cases d
    · cases a <;> simp [AxisOps.img, shift, coef, Particle.setPos, Particle.pos]
    · simp [AxisOps.img, periodicOps, coef]
    · simp [AxisOps.img, periodicOps, coef]

private theorem eff_periodic_ok_other (c : Config α) (δ : α) {a b : Axis} (hab : a ≠ b)
    (d d' : Dir) (q : Particle α) :
    (eff c.periodic (periodicOps c δ) b).ok d' ((eff c.periodic (periodicOps c δ) a).img d q) =
      (eff c.periodic (periodicOps c δ) b).ok d' q := by
  have hpos : ((eff c.periodic (periodicOps c δ) a).img d q).pos b = q.pos b := by
    unfold eff
    cases c.periodic a <;> cases d <;>
      simp [AxisOps.img, offOps, periodicOps, pos_shift_ne hab]
  rw [eff_periodic_ok, eff_periodic_ok]
  unfold inLayer
  cases d'
  · rfl
  · rw [inLow_congr c δ b _ _ hpos]
  · rw [inHigh_congr c δ b _ _ hpos]

/-- **The periodic images, explicitly.**  A particle `q` together with its
periodic images is the list of `q + (a·Lx, b·Ly, c·Lz)` over the direction
triples `(a, b, c) ∈ {0, +1, −1}³` whose three layer tests hold for `q` itself
(the triple `(0,0,0)` — the head of the list — is `q`): faces, edges and
corners.  Every other property of an image equals that of `q`. -/
theorem periodic_images_explicit (c : Config α) (δ : α) (q : Particle α) :
    allVariants c.periodic (periodicOps c δ) q =
      (dirs.filter (fun d => inLayer c δ .x d q)).flatMap fun dx =>
        (dirs.filter (fun d => inLayer c δ .y d q)).flatMap fun dy =>
          (dirs.filter (fun d => inLayer c δ .z d q)).map fun dz => translateBy c dx dy dz q := by
  unfold allVariants
  rw [variants3_explicit _ _ _
    (eff_periodic_ok_other c δ (by decide)) (eff_periodic_ok_other c δ (by decide))
    (eff_periodic_ok_other c δ (by decide))]
  simp only [eff_periodic_ok]
  apply flatMap_congr_mem
  intro dx hdx
  apply flatMap_congr_mem
  intro dy hdy
  apply List.map_congr_left
  intro dz hdz
  have hx := (List.mem_filter.mp hdx).2
  have hy := (List.mem_filter.mp hdy).2
  have hz := (List.mem_filter.mp hdz).2
  rw [eff_periodic_img_pos c δ .x dx q hx]
  have hy' : inLayer c δ .y dy (shift .x (coef dx * c.translate .x) q) = true := by
    rw [← eff_periodic_ok, ← eff_periodic_img_pos c δ .x dx q hx,
      eff_periodic_ok_other c δ (by decide), eff_periodic_ok]; exact hy
  rw [eff_periodic_img_pos c δ .y dy _ hy']
  have hz' : inLayer c δ .z dz
      (shift .y (coef dy * c.translate .y) (shift .x (coef dx * c.translate .x) q)) = true := by
    rw [← eff_periodic_ok, ← eff_periodic_img_pos c δ .y dy _ hy',
      eff_periodic_ok_other c δ (by decide), ← eff_periodic_img_pos c δ .x dx q hx,
      eff_periodic_ok_other c δ (by decide), eff_periodic_ok]; exact hz
  rw [eff_periodic_img_pos c δ .z dz _ hz']
  simp [shift, translateBy, Particle.setPos, Particle.pos]

/-- Both images of one particle along one axis are different from each other
and from the particle when the period is not zero: no ghost is produced twice. -/
theorem periodic_images_distinct (c : Config α) (a : Axis) (q : Particle α)
    (hL : c.translate a ≠ 0) :
    shift a (c.translate a) q ≠ q ∧ shift a (-(c.translate a)) q ≠ q ∧
    shift a (c.translate a) q ≠ shift a (-(c.translate a)) q := by
  have key : ∀ d e : α, shift a d q = shift a e q → d = e := by
    intro d e h
    have := congrArg (fun p => p.pos a) h
    simp only [pos_shift_same] at this
    exact add_left_cancel this
  have hid : shift a 0 q = q := by
    cases a <;> simp [shift, Particle.setPos, Particle.pos]
  refine ⟨?_, ?_, ?_⟩
  · intro h; exact hL (key _ 0 (h.trans hid.symm))
  · intro h; exact hL (neg_eq_zero.mp (key _ 0 (h.trans hid.symm)))
  · intro h
    have := key _ _ h
    have h2 : c.translate a + c.translate a = 0 := by
      have := congrArg (fun t => t + c.translate a) this
      simpa using this
    have : (2 : α) * c.translate a = 0 := by rw [two_mul]; exact h2
    rcases mul_eq_zero.mp this with h | h
    · exact absurd h two_ne_zero
    · exact hL h

/-! ## exact copies, tagged as ghosts -/

/-- Every periodic image of `q` carries exactly `q`'s velocities, `h`, tag and
remaining properties; only coordinates differ. -/
theorem periodic_image_same_props (c : Config α) (δ : α) (q g : Particle α)
    (hg : g ∈ allVariants c.periodic (periodicOps c δ) q) : SameButPos q g :=
  allVariants_rel _ _ SameButPos SameButPos.refl (fun _ _ _ => SameButPos.trans)
    (fun a p => ⟨sameButPos_shift a _ p, sameButPos_shift a _ p⟩) q g hg

/-- A copied property of a ghost is the source particle's value, a non-copied
one is the array's default. -/
theorem restrict_spec (cs : CopySpec α) (p : Particle α) :
    (restrict cs p).x = p.x ∧ (restrict cs p).y = p.y ∧ (restrict cs p).z = p.z ∧
    (restrict cs p).u = (if cs.keepU then p.u else cs.dU) ∧
    (restrict cs p).v = (if cs.keepV then p.v else cs.dV) ∧
    (restrict cs p).w = (if cs.keepW then p.w else cs.dW) ∧
    (restrict cs p).h = (if cs.keepH then p.h else cs.dH) ∧
    (restrict cs p).extra = pickList cs.keepExtra p.extra cs.dExtra :=
  ⟨rfl, rfl, rfl, rfl, rfl, rfl, rfl, rfl⟩

/-- `pickList` position by position -/
theorem pickList_getElem (ks : List Bool) (as ds : List α) (i : Nat)
    (hk : i < ks.length) (ha : i < as.length) (hd : i < ds.length) :
    (pickList ks as ds)[i]? = some (if ks[i] then as[i] else ds[i]) := by
  induction ks generalizing as ds i with
  | nil => simp at hk
  | cons k ks ih =>
    cases as with
    | nil => simp at ha
    | cons a as =>
      cases ds with
      | nil => simp at hd
      | cons d ds =>
        cases i with
        | zero => simp [pickList, pick]
        | succ i =>
          simp only [pickList, List.getElem?_cons_succ, List.getElem_cons_succ]
          exact ih as ds i (by simpa using hk) (by simpa using ha) (by simpa using hd)

/-! ## one update: real particles only wrapped, ghosts a function of them -/

/-- What one `update()` leaves in an array, when the domain is periodic and/or
mirrored: the non-ghost rows, wrapped (in their order), then the periodic
ghosts, then the mirror ghosts — where the periodic ghosts are exactly the
images of the wrapped rows and the mirror ghosts exactly the reflections of
everything before them; all ghosts are tagged, nothing else is. -/
theorem update_structure (c : Config α) (δ : α) (cs : CopySpec α) (arr : List (Particle α))
    (hact : (c.isPeriodic || c.isMirror) = true) :
    ∃ R Gp Gm : List (Particle α),
      updateArray c δ cs arr = R ++ Gp ++ Gm ∧
      R = (if c.isPeriodic then (removeGhosts arr).map (wrapParticle c) else removeGhosts arr) ∧
      Gp.Perm (if c.isPeriodic then
          (((R.map (restrict cs)).flatMap (imagesOf c.periodic (periodicOps c δ))).map
            (setTag ghostTag)) else []) ∧
      Gm.Perm (if c.isMirror then
          (((R ++ Gp).flatMap (imagesOf c.mirror (mirrorOps c δ))).map (setTag ghostTag)) else []) ∧
      (∀ g ∈ Gp ++ Gm, g.tag = ghostTag) ∧ removeGhosts R = R := by
  have hR0 : removeGhosts (removeGhosts arr) = removeGhosts arr := removeGhosts_idem arr
  have hRw : removeGhosts ((removeGhosts arr).map (wrapParticle c)) =
      (removeGhosts arr).map (wrapParticle c) := by
    rw [removeGhosts_map_of_tag _ (tag_wrapParticle c), hR0]
  have htag : ∀ (l : List (Particle α)), ∀ g ∈ l.map (setTag ghostTag), g.tag = ghostTag := by
    intro l g hg
    obtain ⟨q, _, rfl⟩ := List.mem_map.mp hg
    rfl
  unfold updateArray
  rw [if_pos hact]
  cases hp : c.isPeriodic <;> cases hm : c.isMirror
  · simp [hp, hm] at hact
  · -- mirror only
    refine ⟨removeGhosts arr, [],
      (ghostsFor c.mirror (mirrorOps c δ) id (removeGhosts arr)).map (setTag ghostTag),
      ?_, ?_, ?_, ?_, ?_, hR0⟩
    · simp [mirrorStage]
    · simp
    · simp
    · simp only [if_true, List.append_nil]
      exact (mirror_ghosts_eq_image_set c δ _).map _
    · intro g hg; exact htag _ g (by simpa using hg)
  · -- periodic only
    refine ⟨(removeGhosts arr).map (wrapParticle c),
      (ghostsFor c.periodic (periodicOps c δ) (restrict cs)
        ((removeGhosts arr).map (wrapParticle c))).map (setTag ghostTag), [],
      ?_, ?_, ?_, ?_, ?_, hRw⟩
    · simp [periodicStage]
    · simp
    · simp only [if_true]
      exact (periodic_ghosts_eq_image_set c δ cs _).map _
    · simp
    · intro g hg; exact htag _ g (by simpa using hg)
  · -- both
    refine ⟨(removeGhosts arr).map (wrapParticle c),
      (ghostsFor c.periodic (periodicOps c δ) (restrict cs)
        ((removeGhosts arr).map (wrapParticle c))).map (setTag ghostTag),
      (ghostsFor c.mirror (mirrorOps c δ) id
        (periodicStage c δ cs (removeGhosts arr))).map (setTag ghostTag),
      ?_, ?_, ?_, ?_, ?_, hRw⟩
    · simp [periodicStage, mirrorStage]
    · simp
    · simp only [if_true]
      exact (periodic_ghosts_eq_image_set c δ cs _).map _
    · simp only [if_true]
      exact (mirror_ghosts_eq_image_set c δ _).map _
    · intro g hg
      rcases List.mem_append.mp hg with h | h
      · exact htag _ g h
      · exact htag _ g h

/-- Real (non-ghost) particles after an update: those before, wrapped on the
periodic axes, in the same order — nothing else about them changes
(`wrap_particle`), none is lost, none is added. -/
theorem update_reals (c : Config α) (δ : α) (cs : CopySpec α) (arr : List (Particle α))
    (hact : (c.isPeriodic || c.isMirror) = true) :
    removeGhosts (updateArray c δ cs arr) =
      if c.isPeriodic then (removeGhosts arr).map (wrapParticle c) else removeGhosts arr := by
  obtain ⟨R, Gp, Gm, heq, hR, _, _, htag, hRR⟩ := update_structure c δ cs arr hact
  have hG : removeGhosts (Gp ++ Gm) = [] := by
    unfold removeGhosts
    rw [List.filter_eq_nil_iff]
    intro g hg
    simp [isGhost, htag g hg]
  rw [heq, List.append_assoc, removeGhosts_append, hG, hRR, List.append_nil, hR]

/-- Ghosts present before an update have no influence on its result. -/
theorem update_ignores_old_ghosts (c : Config α) (δ : α) (cs : CopySpec α)
    (arr : List (Particle α)) (hact : (c.isPeriodic || c.isMirror) = true) :
    updateArray c δ cs arr = updateArray c δ cs (removeGhosts arr) := by
  unfold updateArray
  rw [if_pos hact, if_pos hact, removeGhosts_idem]

/-! ## histories: no accumulation -/

/-- anything the integrator may do to the rows between two updates, as long as
it keeps their tags (positions, velocities, `h`, … may all change) -/
def TagPreserving (m : Particle α → Particle α) : Prop := ∀ p, (m p).tag = p.tag

/-- one round: move, then update with that round's layer thickness -/
def step (c : Config α) (cs : CopySpec α) (st : List (Particle α))
    (r : α × (Particle α → Particle α)) : List (Particle α) :=
  updateArray c r.1 cs (st.map r.2)

/-- any number of move-then-update rounds -/
def run (c : Config α) (cs : CopySpec α) (rounds : List (α × (Particle α → Particle α)))
    (arr : List (Particle α)) : List (Particle α) :=
  rounds.foldl (step c cs) arr

/-- the real particles after a history: moved and wrapped round by round -/
def realsAfter (c : Config α) (rounds : List (α × (Particle α → Particle α)))
    (reals : List (Particle α)) : List (Particle α) :=
  rounds.foldl (fun r rd => if c.isPeriodic then (r.map rd.2).map (wrapParticle c) else r.map rd.2)
    reals

theorem reals_of_run (c : Config α) (cs : CopySpec α)
    (hact : (c.isPeriodic || c.isMirror) = true)
    (rounds : List (α × (Particle α → Particle α)))
    (hm : ∀ r ∈ rounds, TagPreserving r.2) (arr : List (Particle α)) :
    removeGhosts (run c cs rounds arr) = realsAfter c rounds (removeGhosts arr) := by
  induction rounds generalizing arr with
  | nil => rfl
  | cons r rounds ih =>
    simp only [run, realsAfter, List.foldl_cons]
    have h1 := ih (fun r' hr' => hm r' (List.mem_cons_of_mem _ hr')) (step c cs arr r)
    simp only [run, realsAfter] at h1
    rw [h1]
    congr 1
    unfold step
    rw [update_reals c r.1 cs _ hact,
      removeGhosts_map_of_tag _ (hm r List.mem_cons_self)]

/-- **No accumulation.**  After any history of move-then-update rounds the
array is what a single update produces from the current real particles alone:
ghosts of earlier rounds leave no trace, and the real particles are the
initial ones, moved and wrapped. -/
theorem no_accumulation (c : Config α) (cs : CopySpec α)
    (hact : (c.isPeriodic || c.isMirror) = true)
    (rounds : List (α × (Particle α → Particle α)))
    (hm : ∀ r ∈ rounds, TagPreserving r.2)
    (δ : α) (m : Particle α → Particle α) (hmove : TagPreserving m) (arr : List (Particle α)) :
    run c cs (rounds ++ [(δ, m)]) arr =
      updateArray c δ cs ((realsAfter c rounds (removeGhosts arr)).map m) := by
  simp only [run, List.foldl_append, List.foldl_cons, List.foldl_nil, step]
  rw [update_ignores_old_ghosts c δ cs _ hact, removeGhosts_map_of_tag _ hmove]
  have := reals_of_run c cs hact rounds hm arr
  simp only [run] at this
  rw [this]

/-! ### histories in which the SET of real particles changes

Between two updates of the same manager an inlet / particle splitting appends
rows (`add_particles`), an outlet removes rows, and everything may move.  The
model's `update` has no memory (it takes the current rows), so such histories
are just `updateArray` applied to whatever the edit leaves; the theorems below
say what that is.  (The compiled code does have memory — the wrappers built
with the manager — and the harness drives exactly these histories against it.) -/

/-- an edit `e` of the rows between two updates whose effect on the non-ghost
rows is the function `eR` of the non-ghost rows alone; it may do anything to
the ghost rows (they are dropped by the next update) -/
def ActsOnReals (e eR : List (Particle α) → List (Particle α)) : Prop :=
  ∀ l, removeGhosts (e l) = eR (removeGhosts l)

/-- one round: the layer thickness of its update, the edit, its action on the real rows -/
structure Round (α : Type) where
  δ : α
  edit : List (Particle α) → List (Particle α)
  onReals : List (Particle α) → List (Particle α)

def stepE (c : Config α) (cs : CopySpec α) (st : List (Particle α)) (r : Round α) :
    List (Particle α) :=
  updateArray c r.δ cs (r.edit st)

/-- any number of edit-then-update rounds -/
def runE (c : Config α) (cs : CopySpec α) (rounds : List (Round α)) (arr : List (Particle α)) :
    List (Particle α) :=
  rounds.foldl (stepE c cs) arr

def realsStepE (c : Config α) (r : List (Particle α)) (rd : Round α) : List (Particle α) :=
  if c.isPeriodic then (rd.onReals r).map (wrapParticle c) else rd.onReals r

/-- the real particles after such a history: edited and wrapped round by round -/
def realsAfterE (c : Config α) (rounds : List (Round α)) (reals : List (Particle α)) :
    List (Particle α) :=
  rounds.foldl (realsStepE c) reals

/-- moving (tag-preserving), appending new rows, removing the rows that fail a
test, and compositions of these are such edits -/
theorem actsOnReals_move (m : Particle α → Particle α) (hm : TagPreserving m) :
    ActsOnReals (List.map m) (List.map m) :=
  fun l => removeGhosts_map_of_tag m hm l

theorem actsOnReals_add (new : List (Particle α)) :
    ActsOnReals (· ++ new) (· ++ removeGhosts new) :=
  fun l => removeGhosts_append l new

theorem actsOnReals_remove (keep : Particle α → Bool) :
    ActsOnReals (List.filter keep) (List.filter keep) := by
  intro l
  simp only [removeGhosts, List.filter_filter]
  congr 1
  funext p
  exact Bool.and_comm _ _

theorem actsOnReals_comp {e₁ r₁ e₂ r₂ : List (Particle α) → List (Particle α)}
    (h₁ : ActsOnReals e₁ r₁) (h₂ : ActsOnReals e₂ r₂) : ActsOnReals (e₂ ∘ e₁) (r₂ ∘ r₁) := by
  intro l
  simp only [Function.comp]
  rw [h₂, h₁]

/-- The real particles after any history of edit-then-update rounds are the
initial ones, edited (moved / added / removed) and wrapped round by round:
every real particle present at an update — added ones included — is wrapped by
it, none is lost, none appears. -/
theorem reals_of_runE (c : Config α) (cs : CopySpec α)
    (hact : (c.isPeriodic || c.isMirror) = true) (rounds : List (Round α))
    (hm : ∀ r ∈ rounds, ActsOnReals r.edit r.onReals) (arr : List (Particle α)) :
    removeGhosts (runE c cs rounds arr) = realsAfterE c rounds (removeGhosts arr) := by
  induction rounds generalizing arr with
  | nil => rfl
  | cons r rounds ih =>
    simp only [runE, realsAfterE, List.foldl_cons]
    have h1 := ih (fun r' hr' => hm r' (List.mem_cons_of_mem _ hr')) (stepE c cs arr r)
    simp only [runE, realsAfterE] at h1
    rw [h1]
    congr 1
    unfold stepE realsStepE
    rw [update_reals c r.δ cs _ hact, hm r List.mem_cons_self]

/-- **No accumulation, changing population.**  After any such history the array
is what ONE update produces from the current real particles alone. -/
theorem no_accumulation_changing_population (c : Config α) (cs : CopySpec α)
    (hact : (c.isPeriodic || c.isMirror) = true) (rounds : List (Round α))
    (hm : ∀ r ∈ rounds, ActsOnReals r.edit r.onReals)
    (last : Round α) (hlast : ActsOnReals last.edit last.onReals) (arr : List (Particle α)) :
    runE c cs (rounds ++ [last]) arr =
      updateArray c last.δ cs (last.onReals (realsAfterE c rounds (removeGhosts arr))) := by
  simp only [runE, List.foldl_append, List.foldl_cons, List.foldl_nil, stepE]
  rw [update_ignores_old_ghosts c last.δ cs _ hact, hlast]
  have := reals_of_runE c cs hact rounds hm arr
  simp only [runE] at this
  rw [this]

/-- The number of periodic ghosts never exceeds 26 per real particle, whatever
the history. -/
theorem periodic_ghost_count_le (c : Config α) (δ : α) (cs : CopySpec α)
    (base : List (Particle α)) :
    (ghostsFor c.periodic (periodicOps c δ) (restrict cs) base).length ≤ 26 * base.length := by
  rw [(periodic_ghosts_eq_image_set c δ cs base).length_eq]
  have key : ∀ l : List (Particle α),
      (l.flatMap (imagesOf c.periodic (periodicOps c δ))).length ≤ 26 * l.length := by
    intro l
    induction l with
    | nil => simp
    | cons b l ih =>
      simp only [List.flatMap_cons, List.length_append, List.length_cons]
      have := imagesOf_length_le c.periodic (periodicOps c δ) b
      omega
  have := key (base.map (restrict cs))
  simpa using this

/-! ## mirror images -/

/-- A mirror image along axis `a`: position reflected in the face
(`2·lo − x`, `2·hi − x`), normal velocity component reversed, everything else
(other coordinates and velocity components, `h`, tag, remaining properties)
unchanged; taken exactly when the particle is within `δ` of that face. -/
theorem mirror_images (c : Config α) (δ : α) (a : Axis) (p : Particle α) :
    ((mirrorOps c δ a).selLow p = true ↔ p.pos a - c.lo a ≤ δ) ∧
    ((mirrorOps c δ a).selHigh p = true ↔ c.hi a - p.pos a ≤ δ) ∧
    ((mirrorOps c δ a).imgLow p).pos a = 2 * c.lo a - p.pos a ∧
    ((mirrorOps c δ a).imgLow p).vel a = - p.vel a ∧
    ((mirrorOps c δ a).imgHigh p).pos a = 2 * c.hi a - p.pos a ∧
    ((mirrorOps c δ a).imgHigh p).vel a = - p.vel a ∧
    (∀ b, b ≠ a →
      ((mirrorOps c δ a).imgLow p).pos b = p.pos b ∧ ((mirrorOps c δ a).imgLow p).vel b = p.vel b ∧
      ((mirrorOps c δ a).imgHigh p).pos b = p.pos b ∧ ((mirrorOps c δ a).imgHigh p).vel b = p.vel b) ∧
    ((mirrorOps c δ a).imgLow p).h = p.h ∧ ((mirrorOps c δ a).imgLow p).extra = p.extra ∧
    ((mirrorOps c δ a).imgHigh p).h = p.h ∧ ((mirrorOps c δ a).imgHigh p).extra = p.extra := by
  have hl := mirrorLow_spec c a p
  have hh := mirrorHigh_spec c a p
  obtain ⟨ho, h1, h2, _, h3, h4, _⟩ := mirror_others c a p
  refine ⟨by simp [mirrorOps, inLow], by simp [mirrorOps, inHigh], hl.1, hl.2, hh.1, hh.2, ho,
    h1, h2, h3, h4⟩

/-! ## several arrays -/

/-- One `update()` treats every particle array on its own: array `i` of the
result depends on array `i` of the input (and its copied-property list) only,
apart from the common layer thickness `n_layers · cell_size`.  (This is what
the unrepaired mirror code violated for the second array.) -/
theorem update_each_array (c : Config α) (specs : List (CopySpec α))
    (arrs : List (List (Particle α))) :
    (update c specs arrs).2 =
      List.zipWith (updateArray c (c.nLayers * cellSize c arrs)) specs arrs := by
  have h : ∀ (δ : α) (specs : List (CopySpec α)) (arrs : List (List (Particle α))),
      updateArrays c δ specs arrs = List.zipWith (updateArray c δ) specs arrs := by
    intro δ specs
    induction specs with
    | nil => intro arrs; cases arrs <;> rfl
    | cons s specs ih =>
      intro arrs
      cases arrs with
      | nil => rfl
      | cons a arrs => simp [updateArrays, ih]
  exact h _ specs arrs

/-! ## every image that can interact with a real particle is present -/

/-- the lattice image `q + (kx·Lx, ky·Ly, kz·Lz)` of `q`, `k` any integers -/
def latticeImage (c : Config α) (k : Axis → ℤ) (q : Particle α) : Particle α :=
  { q with x := q.x + (k .x : α) * c.translate .x, y := q.y + (k .y : α) * c.translate .y,
           z := q.z + (k .z : α) * c.translate .z }

private theorem axis_dir (c : Config α) (δ : α) (p q : Particle α) (k : Axis → ℤ) (a : Axis)
    (hbox : c.periodic a = true →
      (c.lo a ≤ p.pos a ∧ p.pos a ≤ c.hi a) ∧ (c.lo a ≤ q.pos a ∧ q.pos a ≤ c.hi a) ∧
        δ < c.translate a)
    (hk : c.periodic a = false → k a = 0)
    (hnear : |q.pos a + (k a : α) * c.translate a - p.pos a| ≤ δ) :
    ∃ d, inLayer c δ a d q = true ∧ (k a : α) = coef d := by
  cases hper : c.periodic a
  · refine ⟨Dir.none, rfl, ?_⟩
    rw [hk hper]; simp [coef]
  · obtain ⟨hp, hq, hδ⟩ := hbox hper
    rcases axis_cover (c.lo a) (c.hi a) δ (p.pos a) (q.pos a) (k a) hp hq hδ hnear with
      h | ⟨h, hl⟩ | ⟨h, hh⟩
    · refine ⟨Dir.none, rfl, ?_⟩
      rw [h]; simp [coef]
    · refine ⟨Dir.low, ?_, ?_⟩
      · simp [inLayer, hper, inLow, hl]
      · rw [h]; simp [coef]
    · refine ⟨Dir.high, ?_, ?_⟩
      · simp [inLayer, hper, inHigh, hh]
      · rw [h]; simp [coef]

/-- **Coverage.**  Let `p` and `q` lie in the box on every periodic axis, let
the layer be thinner than every period, and let some lattice image
`q + k·L ≠ q` of `q` (any integers `k`, zero on the non-periodic axes) come
within `δ` of `p` on every axis — in particular whenever it is within a cut-off
`≤ δ` of `p` in the Euclidean distance.  Then that lattice image is one of the
images the domain manager creates for `q`. -/
theorem images_cover_interactions (c : Config α) (δ : α) (p q : Particle α) (k : Axis → ℤ)
    (hbox : ∀ a, c.periodic a = true →
      (c.lo a ≤ p.pos a ∧ p.pos a ≤ c.hi a) ∧ (c.lo a ≤ q.pos a ∧ q.pos a ≤ c.hi a) ∧
        δ < c.translate a)
    (hk : ∀ a, c.periodic a = false → k a = 0)
    (hk0 : ∃ a, k a ≠ 0)
    (hnear : ∀ a, |q.pos a + (k a : α) * c.translate a - p.pos a| ≤ δ) :
    latticeImage c k q ∈ imagesOf c.periodic (periodicOps c δ) q := by
  obtain ⟨dx, hx1, hx2⟩ := axis_dir c δ p q k .x (hbox .x) (hk .x) (hnear .x)
  obtain ⟨dy, hy1, hy2⟩ := axis_dir c δ p q k .y (hbox .y) (hk .y) (hnear .y)
  obtain ⟨dz, hz1, hz2⟩ := axis_dir c δ p q k .z (hbox .z) (hk .z) (hnear .z)
  have heq : latticeImage c k q = translateBy c dx dy dz q := by
    simp [latticeImage, translateBy, hx2, hy2, hz2]
  have hd : ∀ d : Dir, d ∈ dirs := by intro d; cases d <;> simp [dirs]
  have hmem : latticeImage c k q ∈ allVariants c.periodic (periodicOps c δ) q := by
    rw [periodic_images_explicit, heq]
    simp only [List.mem_flatMap, List.mem_filter, List.mem_map]
    exact ⟨dx, ⟨hd dx, hx1⟩, dy, ⟨hd dy, hy1⟩, dz, ⟨hd dz, hz1⟩, rfl⟩
  rw [allVariants_head] at hmem
  rcases List.mem_cons.mp hmem with h | h
  · exfalso
    obtain ⟨a, ha⟩ := hk0
    have hper : c.periodic a = true := by
      cases hp : c.periodic a
      · exact absurd (hk a hp) ha
      · rfl
    obtain ⟨_, _, hδ⟩ := hbox a hper
    have hL : 0 < c.translate a := lt_of_le_of_lt (le_trans (abs_nonneg _) (hnear a)) hδ
    have hpos : (latticeImage c k q).pos a = q.pos a + (k a : α) * c.translate a := by
      cases a <;> rfl
    rw [h] at hpos
    have : (k a : α) * c.translate a = 0 := by linarith
    rcases mul_eq_zero.mp this with h0 | h0
    · exact ha (by exact_mod_cast h0)
    · exact absurd h0 (ne_of_gt hL)
  · exact h

/-- …and therefore a ghost of the array: for every row `q` of the array, the
interacting lattice image (restricted to the copied properties, tagged) is in
the ghost buffer that `_create_ghosts_periodic` appends. -/
theorem interacting_image_is_ghost (c : Config α) (δ : α) (cs : CopySpec α)
    (base : List (Particle α)) (p q : Particle α) (hq : q ∈ base) (k : Axis → ℤ)
    (hbox : ∀ a, c.periodic a = true →
      (c.lo a ≤ p.pos a ∧ p.pos a ≤ c.hi a) ∧ (c.lo a ≤ q.pos a ∧ q.pos a ≤ c.hi a) ∧
        δ < c.translate a)
    (hk : ∀ a, c.periodic a = false → k a = 0)
    (hk0 : ∃ a, k a ≠ 0)
    (hnear : ∀ a, |q.pos a + (k a : α) * c.translate a - p.pos a| ≤ δ) :
    setTag ghostTag (latticeImage c k (restrict cs q)) ∈
      (ghostsFor c.periodic (periodicOps c δ) (restrict cs) base).map (setTag ghostTag) := by
  apply List.mem_map_of_mem
  rw [(periodic_ghosts_eq_image_set c δ cs base).mem_iff, List.mem_flatMap]
  refine ⟨restrict cs q, List.mem_map_of_mem hq, ?_⟩
  apply images_cover_interactions c δ p (restrict cs q) k _ hk hk0
  · intro a; rw [pos_restrict]; exact hnear a
  · intro a ha; rw [pos_restrict]; exact hbox a ha

/-- The layer the update uses, `n_layers · cell_size`, is at least the
interaction radius `radius_scale · h` of every particle present, provided
`n_layers ≥ 1` (and `0 ≤ 1e-6 ≤ 1`, `radius_scale ≥ 0`). -/
theorem layer_covers_cutoff (c : Config α) (hrs : 0 ≤ c.radiusScale) (heps0 : 0 ≤ c.eps)
    (heps : c.eps ≤ 1) (hnl : 1 ≤ c.nLayers)
    (arrs : List (List (Particle α))) (arr : List (Particle α)) (harr : arr ∈ arrs)
    (p : Particle α) (hp : p ∈ arr) :
    c.radiusScale * p.h ≤ c.nLayers * cellSize c arrs := by
  have h1 := cellSize_ge c hrs heps arrs arr harr p hp
  have h0 : 0 ≤ cellSize c arrs := by
    unfold cellSize
    simp only
    split
    · exact zero_le_one
    · rename_i h; exact le_trans heps0 (not_lt.mp h)
  calc c.radiusScale * p.h ≤ cellSize c arrs := h1
    _ = 1 * cellSize c arrs := (one_mul _).symm
    _ ≤ c.nLayers * cellSize c arrs := mul_le_mul_of_nonneg_right hnl h0

/-! ## non-vacuity: concrete states meeting the hypotheses (over ℚ) -/

/-- unit square, periodic in x and y, layer 1/8 -/
def exCfg : Config ℚ :=
  { xmin := 0, xmax := 1, ymin := 0, ymax := 1, zmin := 0, zmax := 0,
    px := true, py := true, pz := false, mx := false, my := false, mz := false,
    nLayers := 1, radiusScale := 2, eps := 1 / 1000000 }
def exSpec : CopySpec ℚ :=
  { keepU := true, keepV := false, keepW := true, keepH := true, keepExtra := [true],
    dU := 0, dV := 9, dW := 0, dH := 0, dExtra := [0] }
/-- a particle that left the box through the corner, and a stale ghost -/
def exOut : Particle ℚ :=
  { x := -15/16, y := 17/16, z := 0, u := 1, v := 2, w := 3, h := 1/16, tag := 0, extra := [7] }
def exStale : Particle ℚ := { exOut with x := 5, tag := 2 }

/-- wrapped into the corner (1/16, 1/16); three images (two faces, one corner),
tagged, `v` replaced by its default, the stale ghost gone -/
example : updateArray exCfg (1/8) exSpec [exOut, exStale] =
    [ { exOut with x := 1/16, y := 1/16 },
      { exOut with x := 17/16, y := 1/16, v := 9, tag := 2 },
      { exOut with x := 17/16, y := 17/16, v := 9, tag := 2 },
      { exOut with x := 1/16, y := 17/16, v := 9, tag := 2 } ] := by decide +kernel

example : wrap1 (0 : ℚ) 1 (1 - 0) (-15/16) = 1/16 ∧ (0 : ℚ) - (1 - 0) ≤ -15/16 := by
  decide +kernel

example : (exCfg.isPeriodic || exCfg.isMirror) = true ∧
    allVariants exCfg.periodic (periodicOps exCfg (1/8)) { exOut with x := 1/16, y := 1/16 } =
      [ { exOut with x := 1/16, y := 1/16 }, { exOut with x := 1/16, y := 17/16 },
        { exOut with x := 17/16, y := 1/16 }, { exOut with x := 17/16, y := 17/16 } ] := by
  decide +kernel

/-- mirror in x on [0,1]: the image of x = 1/16 moving with u = 1 sits at −1/16 with u = −1 -/
example :
    let c : Config ℚ := { exCfg with px := false, py := false, mx := true }
    updateArray c (1/8) exSpec [{ exOut with x := 1/16, y := 1/2 }] =
      [ { exOut with x := 1/16, y := 1/2 },
        { exOut with x := -1/16, y := 1/2, u := -1, tag := 2 } ] := by decide +kernel

/-- a two-round history with a tag-preserving move -/
example :
    let mv : Particle ℚ → Particle ℚ := fun p => { p with x := p.x + 1/2 }
    TagPreserving mv ∧
    run exCfg exSpec [(1/8, mv), (1/8, mv)] [exOut, exStale] =
      updateArray exCfg (1/8) exSpec [{ exOut with x := 1/16 + 1/2 + 1/2, y := 1/16 }] := by
  refine ⟨fun _ => rfl, ?_⟩
  decide +kernel

/-- a history with a changing population: round 1 appends a particle that is
outside the box (it comes out wrapped, with its images); round 2 removes the
original particle; the result is one update of the surviving real particle -/
example :
    let new : Particle ℚ := { exOut with x := 33/32, y := 1/2, extra := [8] }
    let r1 : Round ℚ := ⟨1/8, (· ++ [new]), (· ++ removeGhosts [new])⟩
    let r2 : Round ℚ := ⟨1/8, List.filter (fun p => p.extra == [8]), List.filter (fun p => p.extra == [8])⟩
    removeGhosts (runE exCfg exSpec [r1] [exOut, exStale]) =
      [{ exOut with x := 1/16, y := 1/16 }, { new with x := 1/32 }] ∧
    runE exCfg exSpec [r1, r2] [exOut, exStale] =
      updateArray exCfg (1/8) exSpec [{ new with x := 1/32 }] ∧
    (updateArray exCfg (1/8) exSpec [{ new with x := 1/32 }]).length = 2 := by
  decide +kernel

/-- coverage: `q` near the high x face, `p` near the low one; the `−Lx` image of
`q` is within `δ = 1/8` of `p` and is among the images created -/
example :
    let p : Particle ℚ := { exOut with x := 1/16, y := 1/2 }
    let q : Particle ℚ := { exOut with x := 15/16, y := 1/2 }
    let k : Axis → ℤ := fun a => match a with | .x => -1 | _ => 0
    (|q.pos .x + (k .x : ℚ) * exCfg.translate .x - p.pos .x| ≤ 1/8 ∧
     |q.pos .y + (k .y : ℚ) * exCfg.translate .y - p.pos .y| ≤ 1/8 ∧
     |q.pos .z + (k .z : ℚ) * exCfg.translate .z - p.pos .z| ≤ 1/8 ∧
     (1/8 : ℚ) < exCfg.translate .x ∧ (1/8 : ℚ) < exCfg.translate .y) ∧
    latticeImage exCfg k q ∈ imagesOf exCfg.periodic (periodicOps exCfg (1/8)) q := by
  refine ⟨?_, by decide +kernel⟩
  simp only [Particle.pos, exOut, exCfg, Config.translate, Config.hi, Config.lo]
  norm_num [abs_le]

end PysphVerif.C07
