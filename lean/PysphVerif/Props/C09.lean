import PysphVerif.Lemmas.PairSym
import PysphVerif.Lemmas.NbrCacheHist
import PysphVerif.Lemmas.NbrMask
import PysphVerif.Lemmas.PeriodicGhosts
import Mathlib.Tactic.NormNum
import Mathlib.Tactic.FieldSimp
/-!
# C09 — pair-symmetric momentum equations conserve linear and angular momentum

Everything below is about the definitions of `Gen/C09Equations.lean`, which
`translate/c09_equations2lean.py` regenerates from the current source of the
equations' `loop` bodies and of `equation.py::precomputed_symbols()` on every
run.  Numbers: any linearly ordered field `K`; `sqrt/abs/pow` (`Ops K`) and the
kernel (`Kern K`) are arbitrary functions, the kernel constrained only to the
radial shape `Radial k w g` (`W = w(r,h)`, `∇W = g(r,h)·x`).

* general: `sum_pair_antisym_eq_zero`, `torque_zero_of_central`,
  `dwij_antisym`, `dwi_dwj_swap`, `nbr_criterion_symm`;
* per equation `T`: `additive_T` (the neighbour loop is a sum),
  `pair_antisym_T` (`m_a·contrib(a,b) = −m_b·contrib(b,a)`; branch conditions
  such as `v_ab·x_ab < 0` are shown symmetric inside), `central_T` where the
  force is along `x_ab`, and the closed-system corollaries
  `linear_momentum_T`, `angular_momentum_T` for every finite particle set,
  every symmetric duplicate-free neighbour relation and every parameter value;
* `summation_density_pos_*`.

The closed system is indexed by an arbitrary finite type `ι`: several mutually
interacting particle arrays are the disjoint union of their index sets, the
neighbour list of a particle being the concatenation of its neighbours in every
source array (the order does not matter in a field).
-/
set_option linter.unusedSectionVars false
set_option linter.unusedVariables false
set_option linter.unusedSimpArgs false
set_option linter.unusedTactic false
set_option linter.unreachableTactic false
namespace PysphVerif.C09
open PysphVerif.PairSym PysphVerif.Gen.C09

variable {K : Type} [Field K] [LinearOrder K] [IsStrictOrderedRing K]

/-- close a goal that is a rational identity on every branch of the (symmetric)
conditions; `field_simp` cancels the masses assumed non-zero -/
macro "c09_closeF" : tactic =>
  `(tactic| first
    | (split_ifs <;> (try simp only [neg_div, neg_mul, mul_neg, neg_neg] at *) <;>
        first | contradiction | ring1 | (field_simp; done) | (field_simp; ring1) | (ring_nf; done)
              | (exfalso; linarith))
    | ring1 | (field_simp; done) | (field_simp; ring1) | (ring_nf; done))

/-! ## general statements -/

/-- A pair-antisymmetric interaction summed over a finite symmetric neighbour
relation vanishes. -/
theorem sum_pair_antisym_eq_zero_field {ι : Type} [Fintype ι] [DecidableEq ι]
    (nbr : ι → Finset ι) (hsymm : ∀ i j, j ∈ nbr i → i ∈ nbr j)
    (F : ι → ι → K) (hF : ∀ i j, j ∈ nbr i → F i j = -F j i) :
    ∑ i, ∑ j ∈ nbr i, F i j = 0 :=
  sum_pair_antisym_eq_zero nbr hsymm F hF

/-- The same for vector-valued interactions (any module without 2-torsion,
e.g. `K × K × K`). -/
theorem sum_pair_antisym_eq_zero_vec {ι : Type} [Fintype ι] [DecidableEq ι]
    (nbr : ι → Finset ι) (hsymm : ∀ i j, j ∈ nbr i → i ∈ nbr j)
    (F : ι → ι → K × K × K) (hF : ∀ i j, j ∈ nbr i → F i j = -F j i) :
    ∑ i, ∑ j ∈ nbr i, F i j = 0 := by
  apply sum_pair_antisym_eq_zero_of_no_two_torsion _ nbr hsymm F hF
  rintro ⟨x, y, z⟩ h
  simp only [Prod.mk_add_mk, Prod.mk_eq_zero] at h
  obtain ⟨h1, h2, h3⟩ := h
  simp only [Prod.mk_eq_zero]
  exact ⟨no_two_torsion x h1, no_two_torsion y h2, no_two_torsion z h3⟩

/-- Total moment of a pair-antisymmetric central interaction: all three
components of `Σ_i x_i × Σ_j F_ij` vanish. -/
theorem torque_zero_of_central {ι : Type} [Fintype ι] [DecidableEq ι]
    (nbr : ι → Finset ι) (hsymm : ∀ i j, j ∈ nbr i → i ∈ nbr j)
    (X Y Z : ι → K) (FX FY FZ : ι → ι → K)
    (hX : ∀ i j, j ∈ nbr i → FX i j = -FX j i)
    (hY : ∀ i j, j ∈ nbr i → FY i j = -FY j i)
    (hZ : ∀ i j, j ∈ nbr i → FZ i j = -FZ j i)
    (hc : ∀ i j, j ∈ nbr i → ∃ c, FX i j = c * (X i - X j) ∧ FY i j = c * (Y i - Y j)
            ∧ FZ i j = c * (Z i - Z j)) :
    (∑ i, ∑ j ∈ nbr i, (X i * FY i j - Y i * FX i j) = 0) ∧
    (∑ i, ∑ j ∈ nbr i, (Y i * FZ i j - Z i * FY i j) = 0) ∧
    (∑ i, ∑ j ∈ nbr i, (Z i * FX i j - X i * FZ i j) = 0) := by
  refine ⟨torque_component_zero nbr hsymm X Y FX FY hX hY ?_,
          torque_component_zero nbr hsymm Y Z FY FZ hY hZ ?_,
          torque_component_zero nbr hsymm Z X FZ FX hZ hX ?_⟩ <;>
  · intro i j hj
    obtain ⟨c, h1, h2, h3⟩ := hc i j hj
    simp only [h1, h2, h3]; ring

/-- `DWIJ(a,b) = −DWIJ(b,a)`: `HIJ` is the (symmetric) mean smoothing length,
`XIJ` changes sign, `RIJ` does not, and the gradient is `g(r,h)·x`. -/
theorem dwij_antisym (o : Ops K) (k : Kern K) {w g : K → K → K} (hk : Radial k w g) (a b : P K) :
    pre_DWIJ_0 o k b a = -(pre_DWIJ_0 o k a b) ∧
    pre_DWIJ_1 o k b a = -(pre_DWIJ_1 o k a b) ∧
    pre_DWIJ_2 o k b a = -(pre_DWIJ_2 o k a b) :=
  ⟨DWIJ_0_swap o k a b hk, DWIJ_1_swap o k a b hk, DWIJ_2_swap o k a b hk⟩

/-- grad-h forms: exchanging the particles exchanges `DWI` and `DWJ` with a sign. -/
theorem dwi_dwj_swap (o : Ops K) (k : Kern K) {w g : K → K → K} (hk : Radial k w g) (a b : P K) :
    pre_DWI_0 o k b a = -(pre_DWJ_0 o k a b) ∧ pre_DWI_1 o k b a = -(pre_DWJ_1 o k a b) ∧
    pre_DWI_2 o k b a = -(pre_DWJ_2 o k a b) ∧ pre_DWJ_0 o k b a = -(pre_DWI_0 o k a b) ∧
    pre_DWJ_1 o k b a = -(pre_DWI_1 o k a b) ∧ pre_DWJ_2 o k b a = -(pre_DWI_2 o k a b) :=
  ⟨DWI_0_swap o k a b hk, DWI_1_swap o k a b hk, DWI_2_swap o k a b hk,
   DWJ_0_swap o k a b hk, DWJ_1_swap o k a b hk, DWJ_2_swap o k a b hk⟩

/-- The symmetric scalars of a pair. -/
theorem pair_scalars_symm (o : Ops K) (k : Kern K) {w g : K → K → K} (hk : Radial k w g) (a b : P K) :
    pre_HIJ o k b a = pre_HIJ o k a b ∧ pre_R2IJ o k b a = pre_R2IJ o k a b ∧
    pre_RIJ o k b a = pre_RIJ o k a b ∧ pre_RHOIJ1 o k b a = pre_RHOIJ1 o k a b ∧
    pre_EPS o k b a = pre_EPS o k a b ∧ pre_WIJ o k b a = pre_WIJ o k a b ∧
    pre_WDP o k b a = pre_WDP o k a b :=
  ⟨HIJ_swap o k a b, R2IJ_swap o k a b, RIJ_swap o k a b, RHOIJ1_swap o k a b, EPS_swap o k a b,
   WIJ_swap o k a b hk, WDP_swap o k a b hk⟩

/-- The neighbour criterion of `find_nearest_neighbors`
(`xij2 < (k h_i)^2 or xij2 < (k h_j)^2`, nnps_base.pyx) as a predicate on a
pair; hand-written (C01 is about the search itself). -/
def nbrCriterion (o : Ops K) (k : Kern K) (scale : K) (a b : P K) : Prop :=
  pre_R2IJ o k a b < (scale * a.h) * (scale * a.h) ∨ pre_R2IJ o k a b < (scale * b.h) * (scale * b.h)

theorem nbr_criterion_symm (o : Ops K) (k : Kern K) (scale : K) (a b : P K) :
    nbrCriterion o k scale a b ↔ nbrCriterion o k scale b a := by
  unfold nbrCriterion
  rw [R2IJ_swap o k a b]
  exact Or.comm


/-! ## `pysph/sph/wc/basic.py.MomentumEquation` (WC_MomentumEquation) -/
section WC_MomentumEquation
variable (o : Ops K) (k : Kern K) {w g : K → K → K} (hk : Radial k w g) (self_alpha : K) (self_beta : K) (self_c0 : K) (self_tensile_correction : Bool)

/-- the contribution of a pair to the accumulated acceleration does not depend on the accumulator -/
theorem additive_WC_MomentumEquation (acc acc' : Out_WC_MomentumEquation K) (a b : P K) :
    ((pair_WC_MomentumEquation o k self_alpha self_beta self_c0 self_tensile_correction acc a b).d_au - acc.d_au) = ((pair_WC_MomentumEquation o k self_alpha self_beta self_c0 self_tensile_correction acc' a b).d_au - acc'.d_au) ∧
    ((pair_WC_MomentumEquation o k self_alpha self_beta self_c0 self_tensile_correction acc a b).d_av - acc.d_av) = ((pair_WC_MomentumEquation o k self_alpha self_beta self_c0 self_tensile_correction acc' a b).d_av - acc'.d_av) ∧
    ((pair_WC_MomentumEquation o k self_alpha self_beta self_c0 self_tensile_correction acc a b).d_aw - acc.d_aw) = ((pair_WC_MomentumEquation o k self_alpha self_beta self_c0 self_tensile_correction acc' a b).d_aw - acc'.d_aw) := by
  refine ⟨?_, ?_, ?_⟩ <;>
  · simp only [pair_WC_MomentumEquation]
    c09_atoms o k a b
    simp only [loop_WC_MomentumEquation]
    c09_norm
    c09_close

include hk in
/-- `m_a · contrib(a, b) = −(m_b · contrib(b, a))`, component by component -/
theorem pair_antisym_WC_MomentumEquation (acc acc' : Out_WC_MomentumEquation K) (a b : P K) :
    a.m * ((pair_WC_MomentumEquation o k self_alpha self_beta self_c0 self_tensile_correction acc a b).d_au - acc.d_au) = -(b.m * ((pair_WC_MomentumEquation o k self_alpha self_beta self_c0 self_tensile_correction acc' b a).d_au - acc'.d_au)) ∧
    a.m * ((pair_WC_MomentumEquation o k self_alpha self_beta self_c0 self_tensile_correction acc a b).d_av - acc.d_av) = -(b.m * ((pair_WC_MomentumEquation o k self_alpha self_beta self_c0 self_tensile_correction acc' b a).d_av - acc'.d_av)) ∧
    a.m * ((pair_WC_MomentumEquation o k self_alpha self_beta self_c0 self_tensile_correction acc a b).d_aw - acc.d_aw) = -(b.m * ((pair_WC_MomentumEquation o k self_alpha self_beta self_c0 self_tensile_correction acc' b a).d_aw - acc'.d_aw)) := by
  refine ⟨?_, ?_, ?_⟩ <;>
  · simp only [pair_WC_MomentumEquation]
    c09_swap o k a b hk
    c09_atoms o k a b
    simp only [loop_WC_MomentumEquation]
    c09_norm
    c09_close

include hk in
/-- the pair contribution is parallel to the separation `x_a − x_b` (cross product zero) -/
theorem central_WC_MomentumEquation (acc : Out_WC_MomentumEquation K) (a b : P K) :
    (a.x - b.x) * ((pair_WC_MomentumEquation o k self_alpha self_beta self_c0 self_tensile_correction acc a b).d_av - acc.d_av) = (a.y - b.y) * ((pair_WC_MomentumEquation o k self_alpha self_beta self_c0 self_tensile_correction acc a b).d_au - acc.d_au) ∧
    (a.y - b.y) * ((pair_WC_MomentumEquation o k self_alpha self_beta self_c0 self_tensile_correction acc a b).d_aw - acc.d_aw) = (a.z - b.z) * ((pair_WC_MomentumEquation o k self_alpha self_beta self_c0 self_tensile_correction acc a b).d_av - acc.d_av) ∧
    (a.z - b.z) * ((pair_WC_MomentumEquation o k self_alpha self_beta self_c0 self_tensile_correction acc a b).d_au - acc.d_au) = (a.x - b.x) * ((pair_WC_MomentumEquation o k self_alpha self_beta self_c0 self_tensile_correction acc a b).d_aw - acc.d_aw) := by
  refine ⟨?_, ?_, ?_⟩ <;>
  · simp only [pair_WC_MomentumEquation]
    c09_shape o k a b hk
    c09_atoms o k a b
    simp only [loop_WC_MomentumEquation]
    c09_norm
    c09_close

include hk in
/-- closed system: evaluating the equation for every particle over a symmetric neighbour relation
gives `Σ m a = 0` -/
theorem linear_momentum_WC_MomentumEquation {ι : Type} [Fintype ι] [DecidableEq ι] (p : ι → P K)
    (nbrs : ι → List ι) (hnd : ∀ i, (nbrs i).Nodup) (hsymm : ∀ i j, j ∈ nbrs i → i ∈ nbrs j)
    (init : ι → Out_WC_MomentumEquation K) (hinit : ∀ i, (init i).d_au = 0 ∧ (init i).d_av = 0 ∧ (init i).d_aw = 0) :
    ∑ i, (p i).m * ((nbrs i).foldl (fun acc j => pair_WC_MomentumEquation o k self_alpha self_beta self_c0 self_tensile_correction acc (p i) (p j)) (init i)).d_au = 0 ∧
    ∑ i, (p i).m * ((nbrs i).foldl (fun acc j => pair_WC_MomentumEquation o k self_alpha self_beta self_c0 self_tensile_correction acc (p i) (p j)) (init i)).d_av = 0 ∧
    ∑ i, (p i).m * ((nbrs i).foldl (fun acc j => pair_WC_MomentumEquation o k self_alpha self_beta self_c0 self_tensile_correction acc (p i) (p j)) (init i)).d_aw = 0 := by
  refine ⟨?_, ?_, ?_⟩
  · exact linear_momentum_of_pair (fun i => (p i).m) nbrs hnd hsymm (fun i acc j => pair_WC_MomentumEquation o k self_alpha self_beta self_c0 self_tensile_correction acc (p i) (p j))
      (fun s => s.d_au) init (fun i => (hinit i).1)
      (fun i j acc acc' => (additive_WC_MomentumEquation o k self_alpha self_beta self_c0 self_tensile_correction acc acc' (p i) (p j)).1)
      (fun i j acc acc' => (pair_antisym_WC_MomentumEquation o k hk self_alpha self_beta self_c0 self_tensile_correction acc acc' (p i) (p j)).1)
  · exact linear_momentum_of_pair (fun i => (p i).m) nbrs hnd hsymm (fun i acc j => pair_WC_MomentumEquation o k self_alpha self_beta self_c0 self_tensile_correction acc (p i) (p j))
      (fun s => s.d_av) init (fun i => (hinit i).2.1)
      (fun i j acc acc' => (additive_WC_MomentumEquation o k self_alpha self_beta self_c0 self_tensile_correction acc acc' (p i) (p j)).2.1)
      (fun i j acc acc' => (pair_antisym_WC_MomentumEquation o k hk self_alpha self_beta self_c0 self_tensile_correction acc acc' (p i) (p j)).2.1)
  · exact linear_momentum_of_pair (fun i => (p i).m) nbrs hnd hsymm (fun i acc j => pair_WC_MomentumEquation o k self_alpha self_beta self_c0 self_tensile_correction acc (p i) (p j))
      (fun s => s.d_aw) init (fun i => (hinit i).2.2)
      (fun i j acc acc' => (additive_WC_MomentumEquation o k self_alpha self_beta self_c0 self_tensile_correction acc acc' (p i) (p j)).2.2)
      (fun i j acc acc' => (pair_antisym_WC_MomentumEquation o k hk self_alpha self_beta self_c0 self_tensile_correction acc acc' (p i) (p j)).2.2)

include hk in
/-- closed system: `Σ m x × a = 0` (three components) -/
theorem angular_momentum_WC_MomentumEquation {ι : Type} [Fintype ι] [DecidableEq ι] (p : ι → P K)
    (nbrs : ι → List ι) (hnd : ∀ i, (nbrs i).Nodup) (hsymm : ∀ i j, j ∈ nbrs i → i ∈ nbrs j)
    (init : ι → Out_WC_MomentumEquation K) (hinit : ∀ i, (init i).d_au = 0 ∧ (init i).d_av = 0 ∧ (init i).d_aw = 0) :
    (∑ i, (p i).m * ((p i).x * ((nbrs i).foldl (fun acc j => pair_WC_MomentumEquation o k self_alpha self_beta self_c0 self_tensile_correction acc (p i) (p j)) (init i)).d_av - (p i).y * ((nbrs i).foldl (fun acc j => pair_WC_MomentumEquation o k self_alpha self_beta self_c0 self_tensile_correction acc (p i) (p j)) (init i)).d_au) = 0) ∧
    (∑ i, (p i).m * ((p i).y * ((nbrs i).foldl (fun acc j => pair_WC_MomentumEquation o k self_alpha self_beta self_c0 self_tensile_correction acc (p i) (p j)) (init i)).d_aw - (p i).z * ((nbrs i).foldl (fun acc j => pair_WC_MomentumEquation o k self_alpha self_beta self_c0 self_tensile_correction acc (p i) (p j)) (init i)).d_av) = 0) ∧
    (∑ i, (p i).m * ((p i).z * ((nbrs i).foldl (fun acc j => pair_WC_MomentumEquation o k self_alpha self_beta self_c0 self_tensile_correction acc (p i) (p j)) (init i)).d_au - (p i).x * ((nbrs i).foldl (fun acc j => pair_WC_MomentumEquation o k self_alpha self_beta self_c0 self_tensile_correction acc (p i) (p j)) (init i)).d_aw) = 0) := by
  refine ⟨?_, ?_, ?_⟩
  · exact angular_momentum_of_pair (fun i => (p i).m) (fun i => (p i).x) (fun i => (p i).y) nbrs hnd hsymm
      (fun i acc j => pair_WC_MomentumEquation o k self_alpha self_beta self_c0 self_tensile_correction acc (p i) (p j)) (fun s => s.d_au) (fun s => s.d_av) init
      (fun i => (hinit i).1) (fun i => (hinit i).2.1)
      (fun i j acc acc' => (additive_WC_MomentumEquation o k self_alpha self_beta self_c0 self_tensile_correction acc acc' (p i) (p j)).1)
      (fun i j acc acc' => (additive_WC_MomentumEquation o k self_alpha self_beta self_c0 self_tensile_correction acc acc' (p i) (p j)).2.1)
      (fun i j acc acc' => (pair_antisym_WC_MomentumEquation o k hk self_alpha self_beta self_c0 self_tensile_correction acc acc' (p i) (p j)).1)
      (fun i j acc acc' => (pair_antisym_WC_MomentumEquation o k hk self_alpha self_beta self_c0 self_tensile_correction acc acc' (p i) (p j)).2.1)
      (fun i j acc => (central_WC_MomentumEquation o k hk self_alpha self_beta self_c0 self_tensile_correction acc (p i) (p j)).1)
  · exact angular_momentum_of_pair (fun i => (p i).m) (fun i => (p i).y) (fun i => (p i).z) nbrs hnd hsymm
      (fun i acc j => pair_WC_MomentumEquation o k self_alpha self_beta self_c0 self_tensile_correction acc (p i) (p j)) (fun s => s.d_av) (fun s => s.d_aw) init
      (fun i => (hinit i).2.1) (fun i => (hinit i).2.2)
      (fun i j acc acc' => (additive_WC_MomentumEquation o k self_alpha self_beta self_c0 self_tensile_correction acc acc' (p i) (p j)).2.1)
      (fun i j acc acc' => (additive_WC_MomentumEquation o k self_alpha self_beta self_c0 self_tensile_correction acc acc' (p i) (p j)).2.2)
      (fun i j acc acc' => (pair_antisym_WC_MomentumEquation o k hk self_alpha self_beta self_c0 self_tensile_correction acc acc' (p i) (p j)).2.1)
      (fun i j acc acc' => (pair_antisym_WC_MomentumEquation o k hk self_alpha self_beta self_c0 self_tensile_correction acc acc' (p i) (p j)).2.2)
      (fun i j acc => (central_WC_MomentumEquation o k hk self_alpha self_beta self_c0 self_tensile_correction acc (p i) (p j)).2.1)
  · exact angular_momentum_of_pair (fun i => (p i).m) (fun i => (p i).z) (fun i => (p i).x) nbrs hnd hsymm
      (fun i acc j => pair_WC_MomentumEquation o k self_alpha self_beta self_c0 self_tensile_correction acc (p i) (p j)) (fun s => s.d_aw) (fun s => s.d_au) init
      (fun i => (hinit i).2.2) (fun i => (hinit i).1)
      (fun i j acc acc' => (additive_WC_MomentumEquation o k self_alpha self_beta self_c0 self_tensile_correction acc acc' (p i) (p j)).2.2)
      (fun i j acc acc' => (additive_WC_MomentumEquation o k self_alpha self_beta self_c0 self_tensile_correction acc acc' (p i) (p j)).1)
      (fun i j acc acc' => (pair_antisym_WC_MomentumEquation o k hk self_alpha self_beta self_c0 self_tensile_correction acc acc' (p i) (p j)).2.2)
      (fun i j acc acc' => (pair_antisym_WC_MomentumEquation o k hk self_alpha self_beta self_c0 self_tensile_correction acc acc' (p i) (p j)).1)
      (fun i j acc => (central_WC_MomentumEquation o k hk self_alpha self_beta self_c0 self_tensile_correction acc (p i) (p j)).2.2)

end WC_MomentumEquation

/-! ## `pysph/sph/wc/basic.py.MomentumEquationDeltaSPH` (WC_MomentumEquationDeltaSPH) -/
section WC_MomentumEquationDeltaSPH
variable (o : Ops K) (k : Kern K) {w g : K → K → K} (hk : Radial k w g) (self_alpha : K) (self_c0 : K) (self_rho0 : K)

/-- the contribution of a pair to the accumulated acceleration does not depend on the accumulator -/
theorem additive_WC_MomentumEquationDeltaSPH (acc acc' : Out_WC_MomentumEquationDeltaSPH K) (a b : P K) :
    ((pair_WC_MomentumEquationDeltaSPH o k self_alpha self_c0 self_rho0 acc a b).d_au - acc.d_au) = ((pair_WC_MomentumEquationDeltaSPH o k self_alpha self_c0 self_rho0 acc' a b).d_au - acc'.d_au) ∧
    ((pair_WC_MomentumEquationDeltaSPH o k self_alpha self_c0 self_rho0 acc a b).d_av - acc.d_av) = ((pair_WC_MomentumEquationDeltaSPH o k self_alpha self_c0 self_rho0 acc' a b).d_av - acc'.d_av) ∧
    ((pair_WC_MomentumEquationDeltaSPH o k self_alpha self_c0 self_rho0 acc a b).d_aw - acc.d_aw) = ((pair_WC_MomentumEquationDeltaSPH o k self_alpha self_c0 self_rho0 acc' a b).d_aw - acc'.d_aw) := by
  refine ⟨?_, ?_, ?_⟩ <;>
  · simp only [pair_WC_MomentumEquationDeltaSPH]
    c09_atoms o k a b
    simp only [loop_WC_MomentumEquationDeltaSPH]
    c09_norm
    c09_close

include hk in
/-- `m_a · contrib(a, b) = −(m_b · contrib(b, a))`, component by component -/
theorem pair_antisym_WC_MomentumEquationDeltaSPH (acc acc' : Out_WC_MomentumEquationDeltaSPH K) (a b : P K) :
    a.m * ((pair_WC_MomentumEquationDeltaSPH o k self_alpha self_c0 self_rho0 acc a b).d_au - acc.d_au) = -(b.m * ((pair_WC_MomentumEquationDeltaSPH o k self_alpha self_c0 self_rho0 acc' b a).d_au - acc'.d_au)) ∧
    a.m * ((pair_WC_MomentumEquationDeltaSPH o k self_alpha self_c0 self_rho0 acc a b).d_av - acc.d_av) = -(b.m * ((pair_WC_MomentumEquationDeltaSPH o k self_alpha self_c0 self_rho0 acc' b a).d_av - acc'.d_av)) ∧
    a.m * ((pair_WC_MomentumEquationDeltaSPH o k self_alpha self_c0 self_rho0 acc a b).d_aw - acc.d_aw) = -(b.m * ((pair_WC_MomentumEquationDeltaSPH o k self_alpha self_c0 self_rho0 acc' b a).d_aw - acc'.d_aw)) := by
  refine ⟨?_, ?_, ?_⟩ <;>
  · simp only [pair_WC_MomentumEquationDeltaSPH]
    c09_swap o k a b hk
    c09_atoms o k a b
    simp only [loop_WC_MomentumEquationDeltaSPH]
    c09_norm
    c09_close

include hk in
/-- the pair contribution is parallel to the separation `x_a − x_b` (cross product zero) -/
theorem central_WC_MomentumEquationDeltaSPH (acc : Out_WC_MomentumEquationDeltaSPH K) (a b : P K) :
    (a.x - b.x) * ((pair_WC_MomentumEquationDeltaSPH o k self_alpha self_c0 self_rho0 acc a b).d_av - acc.d_av) = (a.y - b.y) * ((pair_WC_MomentumEquationDeltaSPH o k self_alpha self_c0 self_rho0 acc a b).d_au - acc.d_au) ∧
    (a.y - b.y) * ((pair_WC_MomentumEquationDeltaSPH o k self_alpha self_c0 self_rho0 acc a b).d_aw - acc.d_aw) = (a.z - b.z) * ((pair_WC_MomentumEquationDeltaSPH o k self_alpha self_c0 self_rho0 acc a b).d_av - acc.d_av) ∧
    (a.z - b.z) * ((pair_WC_MomentumEquationDeltaSPH o k self_alpha self_c0 self_rho0 acc a b).d_au - acc.d_au) = (a.x - b.x) * ((pair_WC_MomentumEquationDeltaSPH o k self_alpha self_c0 self_rho0 acc a b).d_aw - acc.d_aw) := by
  refine ⟨?_, ?_, ?_⟩ <;>
  · simp only [pair_WC_MomentumEquationDeltaSPH]
    c09_shape o k a b hk
    c09_atoms o k a b
    simp only [loop_WC_MomentumEquationDeltaSPH]
    c09_norm
    c09_close

include hk in
/-- closed system: evaluating the equation for every particle over a symmetric neighbour relation
gives `Σ m a = 0` -/
theorem linear_momentum_WC_MomentumEquationDeltaSPH {ι : Type} [Fintype ι] [DecidableEq ι] (p : ι → P K)
    (nbrs : ι → List ι) (hnd : ∀ i, (nbrs i).Nodup) (hsymm : ∀ i j, j ∈ nbrs i → i ∈ nbrs j)
    (init : ι → Out_WC_MomentumEquationDeltaSPH K) (hinit : ∀ i, (init i).d_au = 0 ∧ (init i).d_av = 0 ∧ (init i).d_aw = 0) :
    ∑ i, (p i).m * ((nbrs i).foldl (fun acc j => pair_WC_MomentumEquationDeltaSPH o k self_alpha self_c0 self_rho0 acc (p i) (p j)) (init i)).d_au = 0 ∧
    ∑ i, (p i).m * ((nbrs i).foldl (fun acc j => pair_WC_MomentumEquationDeltaSPH o k self_alpha self_c0 self_rho0 acc (p i) (p j)) (init i)).d_av = 0 ∧
    ∑ i, (p i).m * ((nbrs i).foldl (fun acc j => pair_WC_MomentumEquationDeltaSPH o k self_alpha self_c0 self_rho0 acc (p i) (p j)) (init i)).d_aw = 0 := by
  refine ⟨?_, ?_, ?_⟩
  · exact linear_momentum_of_pair (fun i => (p i).m) nbrs hnd hsymm (fun i acc j => pair_WC_MomentumEquationDeltaSPH o k self_alpha self_c0 self_rho0 acc (p i) (p j))
      (fun s => s.d_au) init (fun i => (hinit i).1)
      (fun i j acc acc' => (additive_WC_MomentumEquationDeltaSPH o k self_alpha self_c0 self_rho0 acc acc' (p i) (p j)).1)
      (fun i j acc acc' => (pair_antisym_WC_MomentumEquationDeltaSPH o k hk self_alpha self_c0 self_rho0 acc acc' (p i) (p j)).1)
  · exact linear_momentum_of_pair (fun i => (p i).m) nbrs hnd hsymm (fun i acc j => pair_WC_MomentumEquationDeltaSPH o k self_alpha self_c0 self_rho0 acc (p i) (p j))
      (fun s => s.d_av) init (fun i => (hinit i).2.1)
      (fun i j acc acc' => (additive_WC_MomentumEquationDeltaSPH o k self_alpha self_c0 self_rho0 acc acc' (p i) (p j)).2.1)
      (fun i j acc acc' => (pair_antisym_WC_MomentumEquationDeltaSPH o k hk self_alpha self_c0 self_rho0 acc acc' (p i) (p j)).2.1)
  · exact linear_momentum_of_pair (fun i => (p i).m) nbrs hnd hsymm (fun i acc j => pair_WC_MomentumEquationDeltaSPH o k self_alpha self_c0 self_rho0 acc (p i) (p j))
      (fun s => s.d_aw) init (fun i => (hinit i).2.2)
      (fun i j acc acc' => (additive_WC_MomentumEquationDeltaSPH o k self_alpha self_c0 self_rho0 acc acc' (p i) (p j)).2.2)
      (fun i j acc acc' => (pair_antisym_WC_MomentumEquationDeltaSPH o k hk self_alpha self_c0 self_rho0 acc acc' (p i) (p j)).2.2)

include hk in
/-- closed system: `Σ m x × a = 0` (three components) -/
theorem angular_momentum_WC_MomentumEquationDeltaSPH {ι : Type} [Fintype ι] [DecidableEq ι] (p : ι → P K)
    (nbrs : ι → List ι) (hnd : ∀ i, (nbrs i).Nodup) (hsymm : ∀ i j, j ∈ nbrs i → i ∈ nbrs j)
    (init : ι → Out_WC_MomentumEquationDeltaSPH K) (hinit : ∀ i, (init i).d_au = 0 ∧ (init i).d_av = 0 ∧ (init i).d_aw = 0) :
    (∑ i, (p i).m * ((p i).x * ((nbrs i).foldl (fun acc j => pair_WC_MomentumEquationDeltaSPH o k self_alpha self_c0 self_rho0 acc (p i) (p j)) (init i)).d_av - (p i).y * ((nbrs i).foldl (fun acc j => pair_WC_MomentumEquationDeltaSPH o k self_alpha self_c0 self_rho0 acc (p i) (p j)) (init i)).d_au) = 0) ∧
    (∑ i, (p i).m * ((p i).y * ((nbrs i).foldl (fun acc j => pair_WC_MomentumEquationDeltaSPH o k self_alpha self_c0 self_rho0 acc (p i) (p j)) (init i)).d_aw - (p i).z * ((nbrs i).foldl (fun acc j => pair_WC_MomentumEquationDeltaSPH o k self_alpha self_c0 self_rho0 acc (p i) (p j)) (init i)).d_av) = 0) ∧
    (∑ i, (p i).m * ((p i).z * ((nbrs i).foldl (fun acc j => pair_WC_MomentumEquationDeltaSPH o k self_alpha self_c0 self_rho0 acc (p i) (p j)) (init i)).d_au - (p i).x * ((nbrs i).foldl (fun acc j => pair_WC_MomentumEquationDeltaSPH o k self_alpha self_c0 self_rho0 acc (p i) (p j)) (init i)).d_aw) = 0) := by
  refine ⟨?_, ?_, ?_⟩
  · exact angular_momentum_of_pair (fun i => (p i).m) (fun i => (p i).x) (fun i => (p i).y) nbrs hnd hsymm
      (fun i acc j => pair_WC_MomentumEquationDeltaSPH o k self_alpha self_c0 self_rho0 acc (p i) (p j)) (fun s => s.d_au) (fun s => s.d_av) init
      (fun i => (hinit i).1) (fun i => (hinit i).2.1)
      (fun i j acc acc' => (additive_WC_MomentumEquationDeltaSPH o k self_alpha self_c0 self_rho0 acc acc' (p i) (p j)).1)
      (fun i j acc acc' => (additive_WC_MomentumEquationDeltaSPH o k self_alpha self_c0 self_rho0 acc acc' (p i) (p j)).2.1)
      (fun i j acc acc' => (pair_antisym_WC_MomentumEquationDeltaSPH o k hk self_alpha self_c0 self_rho0 acc acc' (p i) (p j)).1)
      (fun i j acc acc' => (pair_antisym_WC_MomentumEquationDeltaSPH o k hk self_alpha self_c0 self_rho0 acc acc' (p i) (p j)).2.1)
      (fun i j acc => (central_WC_MomentumEquationDeltaSPH o k hk self_alpha self_c0 self_rho0 acc (p i) (p j)).1)
  · exact angular_momentum_of_pair (fun i => (p i).m) (fun i => (p i).y) (fun i => (p i).z) nbrs hnd hsymm
      (fun i acc j => pair_WC_MomentumEquationDeltaSPH o k self_alpha self_c0 self_rho0 acc (p i) (p j)) (fun s => s.d_av) (fun s => s.d_aw) init
      (fun i => (hinit i).2.1) (fun i => (hinit i).2.2)
      (fun i j acc acc' => (additive_WC_MomentumEquationDeltaSPH o k self_alpha self_c0 self_rho0 acc acc' (p i) (p j)).2.1)
      (fun i j acc acc' => (additive_WC_MomentumEquationDeltaSPH o k self_alpha self_c0 self_rho0 acc acc' (p i) (p j)).2.2)
      (fun i j acc acc' => (pair_antisym_WC_MomentumEquationDeltaSPH o k hk self_alpha self_c0 self_rho0 acc acc' (p i) (p j)).2.1)
      (fun i j acc acc' => (pair_antisym_WC_MomentumEquationDeltaSPH o k hk self_alpha self_c0 self_rho0 acc acc' (p i) (p j)).2.2)
      (fun i j acc => (central_WC_MomentumEquationDeltaSPH o k hk self_alpha self_c0 self_rho0 acc (p i) (p j)).2.1)
  · exact angular_momentum_of_pair (fun i => (p i).m) (fun i => (p i).z) (fun i => (p i).x) nbrs hnd hsymm
      (fun i acc j => pair_WC_MomentumEquationDeltaSPH o k self_alpha self_c0 self_rho0 acc (p i) (p j)) (fun s => s.d_aw) (fun s => s.d_au) init
      (fun i => (hinit i).2.2) (fun i => (hinit i).1)
      (fun i j acc acc' => (additive_WC_MomentumEquationDeltaSPH o k self_alpha self_c0 self_rho0 acc acc' (p i) (p j)).2.2)
      (fun i j acc acc' => (additive_WC_MomentumEquationDeltaSPH o k self_alpha self_c0 self_rho0 acc acc' (p i) (p j)).1)
      (fun i j acc acc' => (pair_antisym_WC_MomentumEquationDeltaSPH o k hk self_alpha self_c0 self_rho0 acc acc' (p i) (p j)).2.2)
      (fun i j acc acc' => (pair_antisym_WC_MomentumEquationDeltaSPH o k hk self_alpha self_c0 self_rho0 acc acc' (p i) (p j)).1)
      (fun i j acc => (central_WC_MomentumEquationDeltaSPH o k hk self_alpha self_c0 self_rho0 acc (p i) (p j)).2.2)

end WC_MomentumEquationDeltaSPH

/-! ## `pysph/sph/wc/basic.py.PressureGradientUsingNumberDensity` (WC_PressureGradientUsingNumberDensity) -/
section WC_PressureGradientUsingNumberDensity
variable (o : Ops K) (k : Kern K) {w g : K → K → K} (hk : Radial k w g) 

/-- the contribution of a pair to the accumulated acceleration does not depend on the accumulator -/
theorem additive_WC_PressureGradientUsingNumberDensity (acc acc' : Out_WC_PressureGradientUsingNumberDensity K) (a b : P K) :
    ((pair_WC_PressureGradientUsingNumberDensity o k  acc a b).d_au - acc.d_au) = ((pair_WC_PressureGradientUsingNumberDensity o k  acc' a b).d_au - acc'.d_au) ∧
    ((pair_WC_PressureGradientUsingNumberDensity o k  acc a b).d_av - acc.d_av) = ((pair_WC_PressureGradientUsingNumberDensity o k  acc' a b).d_av - acc'.d_av) ∧
    ((pair_WC_PressureGradientUsingNumberDensity o k  acc a b).d_aw - acc.d_aw) = ((pair_WC_PressureGradientUsingNumberDensity o k  acc' a b).d_aw - acc'.d_aw) := by
  refine ⟨?_, ?_, ?_⟩ <;>
  · simp only [pair_WC_PressureGradientUsingNumberDensity]
    c09_atoms o k a b
    simp only [loop_WC_PressureGradientUsingNumberDensity]
    c09_norm
    c09_close

include hk in
/-- `m_a · contrib(a, b) = −(m_b · contrib(b, a))`, component by component (the body divides by the destination mass: masses non-zero) -/
theorem pair_antisym_WC_PressureGradientUsingNumberDensity (acc acc' : Out_WC_PressureGradientUsingNumberDensity K) (a b : P K) (ha : a.m ≠ 0) (hb : b.m ≠ 0) :
    a.m * ((pair_WC_PressureGradientUsingNumberDensity o k  acc a b).d_au - acc.d_au) = -(b.m * ((pair_WC_PressureGradientUsingNumberDensity o k  acc' b a).d_au - acc'.d_au)) ∧
    a.m * ((pair_WC_PressureGradientUsingNumberDensity o k  acc a b).d_av - acc.d_av) = -(b.m * ((pair_WC_PressureGradientUsingNumberDensity o k  acc' b a).d_av - acc'.d_av)) ∧
    a.m * ((pair_WC_PressureGradientUsingNumberDensity o k  acc a b).d_aw - acc.d_aw) = -(b.m * ((pair_WC_PressureGradientUsingNumberDensity o k  acc' b a).d_aw - acc'.d_aw)) := by
  refine ⟨?_, ?_, ?_⟩ <;>
  · simp only [pair_WC_PressureGradientUsingNumberDensity]
    c09_swap o k a b hk
    c09_atoms o k a b
    simp only [loop_WC_PressureGradientUsingNumberDensity]
    c09_norm
    c09_closeF

include hk in
/-- the pair contribution is parallel to the separation `x_a − x_b` (cross product zero) -/
theorem central_WC_PressureGradientUsingNumberDensity (acc : Out_WC_PressureGradientUsingNumberDensity K) (a b : P K) :
    (a.x - b.x) * ((pair_WC_PressureGradientUsingNumberDensity o k  acc a b).d_av - acc.d_av) = (a.y - b.y) * ((pair_WC_PressureGradientUsingNumberDensity o k  acc a b).d_au - acc.d_au) ∧
    (a.y - b.y) * ((pair_WC_PressureGradientUsingNumberDensity o k  acc a b).d_aw - acc.d_aw) = (a.z - b.z) * ((pair_WC_PressureGradientUsingNumberDensity o k  acc a b).d_av - acc.d_av) ∧
    (a.z - b.z) * ((pair_WC_PressureGradientUsingNumberDensity o k  acc a b).d_au - acc.d_au) = (a.x - b.x) * ((pair_WC_PressureGradientUsingNumberDensity o k  acc a b).d_aw - acc.d_aw) := by
  refine ⟨?_, ?_, ?_⟩ <;>
  · simp only [pair_WC_PressureGradientUsingNumberDensity]
    c09_shape o k a b hk
    c09_atoms o k a b
    simp only [loop_WC_PressureGradientUsingNumberDensity]
    c09_norm
    c09_close

include hk in
/-- closed system: evaluating the equation for every particle over a symmetric neighbour relation
gives `Σ m a = 0` -/
theorem linear_momentum_WC_PressureGradientUsingNumberDensity {ι : Type} [Fintype ι] [DecidableEq ι] (p : ι → P K)
    (nbrs : ι → List ι) (hnd : ∀ i, (nbrs i).Nodup) (hsymm : ∀ i j, j ∈ nbrs i → i ∈ nbrs j)
    (init : ι → Out_WC_PressureGradientUsingNumberDensity K) (hinit : ∀ i, (init i).d_au = 0 ∧ (init i).d_av = 0 ∧ (init i).d_aw = 0) (hm : ∀ i, (p i).m ≠ 0) :
    ∑ i, (p i).m * ((nbrs i).foldl (fun acc j => pair_WC_PressureGradientUsingNumberDensity o k  acc (p i) (p j)) (init i)).d_au = 0 ∧
    ∑ i, (p i).m * ((nbrs i).foldl (fun acc j => pair_WC_PressureGradientUsingNumberDensity o k  acc (p i) (p j)) (init i)).d_av = 0 ∧
    ∑ i, (p i).m * ((nbrs i).foldl (fun acc j => pair_WC_PressureGradientUsingNumberDensity o k  acc (p i) (p j)) (init i)).d_aw = 0 := by
  refine ⟨?_, ?_, ?_⟩
  · exact linear_momentum_of_pair (fun i => (p i).m) nbrs hnd hsymm (fun i acc j => pair_WC_PressureGradientUsingNumberDensity o k  acc (p i) (p j))
      (fun s => s.d_au) init (fun i => (hinit i).1)
      (fun i j acc acc' => (additive_WC_PressureGradientUsingNumberDensity o k  acc acc' (p i) (p j)).1)
      (fun i j acc acc' => (pair_antisym_WC_PressureGradientUsingNumberDensity o k hk  acc acc' (p i) (p j) (hm i) (hm j)).1)
  · exact linear_momentum_of_pair (fun i => (p i).m) nbrs hnd hsymm (fun i acc j => pair_WC_PressureGradientUsingNumberDensity o k  acc (p i) (p j))
      (fun s => s.d_av) init (fun i => (hinit i).2.1)
      (fun i j acc acc' => (additive_WC_PressureGradientUsingNumberDensity o k  acc acc' (p i) (p j)).2.1)
      (fun i j acc acc' => (pair_antisym_WC_PressureGradientUsingNumberDensity o k hk  acc acc' (p i) (p j) (hm i) (hm j)).2.1)
  · exact linear_momentum_of_pair (fun i => (p i).m) nbrs hnd hsymm (fun i acc j => pair_WC_PressureGradientUsingNumberDensity o k  acc (p i) (p j))
      (fun s => s.d_aw) init (fun i => (hinit i).2.2)
      (fun i j acc acc' => (additive_WC_PressureGradientUsingNumberDensity o k  acc acc' (p i) (p j)).2.2)
      (fun i j acc acc' => (pair_antisym_WC_PressureGradientUsingNumberDensity o k hk  acc acc' (p i) (p j) (hm i) (hm j)).2.2)

include hk in
/-- closed system: `Σ m x × a = 0` (three components) -/
theorem angular_momentum_WC_PressureGradientUsingNumberDensity {ι : Type} [Fintype ι] [DecidableEq ι] (p : ι → P K)
    (nbrs : ι → List ι) (hnd : ∀ i, (nbrs i).Nodup) (hsymm : ∀ i j, j ∈ nbrs i → i ∈ nbrs j)
    (init : ι → Out_WC_PressureGradientUsingNumberDensity K) (hinit : ∀ i, (init i).d_au = 0 ∧ (init i).d_av = 0 ∧ (init i).d_aw = 0) (hm : ∀ i, (p i).m ≠ 0) :
    (∑ i, (p i).m * ((p i).x * ((nbrs i).foldl (fun acc j => pair_WC_PressureGradientUsingNumberDensity o k  acc (p i) (p j)) (init i)).d_av - (p i).y * ((nbrs i).foldl (fun acc j => pair_WC_PressureGradientUsingNumberDensity o k  acc (p i) (p j)) (init i)).d_au) = 0) ∧
    (∑ i, (p i).m * ((p i).y * ((nbrs i).foldl (fun acc j => pair_WC_PressureGradientUsingNumberDensity o k  acc (p i) (p j)) (init i)).d_aw - (p i).z * ((nbrs i).foldl (fun acc j => pair_WC_PressureGradientUsingNumberDensity o k  acc (p i) (p j)) (init i)).d_av) = 0) ∧
    (∑ i, (p i).m * ((p i).z * ((nbrs i).foldl (fun acc j => pair_WC_PressureGradientUsingNumberDensity o k  acc (p i) (p j)) (init i)).d_au - (p i).x * ((nbrs i).foldl (fun acc j => pair_WC_PressureGradientUsingNumberDensity o k  acc (p i) (p j)) (init i)).d_aw) = 0) := by
  refine ⟨?_, ?_, ?_⟩
  · exact angular_momentum_of_pair (fun i => (p i).m) (fun i => (p i).x) (fun i => (p i).y) nbrs hnd hsymm
      (fun i acc j => pair_WC_PressureGradientUsingNumberDensity o k  acc (p i) (p j)) (fun s => s.d_au) (fun s => s.d_av) init
      (fun i => (hinit i).1) (fun i => (hinit i).2.1)
      (fun i j acc acc' => (additive_WC_PressureGradientUsingNumberDensity o k  acc acc' (p i) (p j)).1)
      (fun i j acc acc' => (additive_WC_PressureGradientUsingNumberDensity o k  acc acc' (p i) (p j)).2.1)
      (fun i j acc acc' => (pair_antisym_WC_PressureGradientUsingNumberDensity o k hk  acc acc' (p i) (p j) (hm i) (hm j)).1)
      (fun i j acc acc' => (pair_antisym_WC_PressureGradientUsingNumberDensity o k hk  acc acc' (p i) (p j) (hm i) (hm j)).2.1)
      (fun i j acc => (central_WC_PressureGradientUsingNumberDensity o k hk  acc (p i) (p j)).1)
  · exact angular_momentum_of_pair (fun i => (p i).m) (fun i => (p i).y) (fun i => (p i).z) nbrs hnd hsymm
      (fun i acc j => pair_WC_PressureGradientUsingNumberDensity o k  acc (p i) (p j)) (fun s => s.d_av) (fun s => s.d_aw) init
      (fun i => (hinit i).2.1) (fun i => (hinit i).2.2)
      (fun i j acc acc' => (additive_WC_PressureGradientUsingNumberDensity o k  acc acc' (p i) (p j)).2.1)
      (fun i j acc acc' => (additive_WC_PressureGradientUsingNumberDensity o k  acc acc' (p i) (p j)).2.2)
      (fun i j acc acc' => (pair_antisym_WC_PressureGradientUsingNumberDensity o k hk  acc acc' (p i) (p j) (hm i) (hm j)).2.1)
      (fun i j acc acc' => (pair_antisym_WC_PressureGradientUsingNumberDensity o k hk  acc acc' (p i) (p j) (hm i) (hm j)).2.2)
      (fun i j acc => (central_WC_PressureGradientUsingNumberDensity o k hk  acc (p i) (p j)).2.1)
  · exact angular_momentum_of_pair (fun i => (p i).m) (fun i => (p i).z) (fun i => (p i).x) nbrs hnd hsymm
      (fun i acc j => pair_WC_PressureGradientUsingNumberDensity o k  acc (p i) (p j)) (fun s => s.d_aw) (fun s => s.d_au) init
      (fun i => (hinit i).2.2) (fun i => (hinit i).1)
      (fun i j acc acc' => (additive_WC_PressureGradientUsingNumberDensity o k  acc acc' (p i) (p j)).2.2)
      (fun i j acc acc' => (additive_WC_PressureGradientUsingNumberDensity o k  acc acc' (p i) (p j)).1)
      (fun i j acc acc' => (pair_antisym_WC_PressureGradientUsingNumberDensity o k hk  acc acc' (p i) (p j) (hm i) (hm j)).2.2)
      (fun i j acc acc' => (pair_antisym_WC_PressureGradientUsingNumberDensity o k hk  acc acc' (p i) (p j) (hm i) (hm j)).1)
      (fun i j acc => (central_WC_PressureGradientUsingNumberDensity o k hk  acc (p i) (p j)).2.2)

end WC_PressureGradientUsingNumberDensity

/-! ## `pysph/sph/basic_equations.py.MonaghanArtificialViscosity` (BE_MonaghanArtificialViscosity) -/
section BE_MonaghanArtificialViscosity
variable (o : Ops K) (k : Kern K) {w g : K → K → K} (hk : Radial k w g) (self_alpha : K) (self_beta : K)

/-- the contribution of a pair to the accumulated acceleration does not depend on the accumulator -/
theorem additive_BE_MonaghanArtificialViscosity (acc acc' : Out_BE_MonaghanArtificialViscosity K) (a b : P K) :
    ((pair_BE_MonaghanArtificialViscosity o k self_alpha self_beta acc a b).d_au - acc.d_au) = ((pair_BE_MonaghanArtificialViscosity o k self_alpha self_beta acc' a b).d_au - acc'.d_au) ∧
    ((pair_BE_MonaghanArtificialViscosity o k self_alpha self_beta acc a b).d_av - acc.d_av) = ((pair_BE_MonaghanArtificialViscosity o k self_alpha self_beta acc' a b).d_av - acc'.d_av) ∧
    ((pair_BE_MonaghanArtificialViscosity o k self_alpha self_beta acc a b).d_aw - acc.d_aw) = ((pair_BE_MonaghanArtificialViscosity o k self_alpha self_beta acc' a b).d_aw - acc'.d_aw) := by
  refine ⟨?_, ?_, ?_⟩ <;>
  · simp only [pair_BE_MonaghanArtificialViscosity]
    c09_atoms o k a b
    simp only [loop_BE_MonaghanArtificialViscosity]
    c09_norm
    c09_close

include hk in
/-- `m_a · contrib(a, b) = −(m_b · contrib(b, a))`, component by component -/
theorem pair_antisym_BE_MonaghanArtificialViscosity (acc acc' : Out_BE_MonaghanArtificialViscosity K) (a b : P K) :
    a.m * ((pair_BE_MonaghanArtificialViscosity o k self_alpha self_beta acc a b).d_au - acc.d_au) = -(b.m * ((pair_BE_MonaghanArtificialViscosity o k self_alpha self_beta acc' b a).d_au - acc'.d_au)) ∧
    a.m * ((pair_BE_MonaghanArtificialViscosity o k self_alpha self_beta acc a b).d_av - acc.d_av) = -(b.m * ((pair_BE_MonaghanArtificialViscosity o k self_alpha self_beta acc' b a).d_av - acc'.d_av)) ∧
    a.m * ((pair_BE_MonaghanArtificialViscosity o k self_alpha self_beta acc a b).d_aw - acc.d_aw) = -(b.m * ((pair_BE_MonaghanArtificialViscosity o k self_alpha self_beta acc' b a).d_aw - acc'.d_aw)) := by
  refine ⟨?_, ?_, ?_⟩ <;>
  · simp only [pair_BE_MonaghanArtificialViscosity]
    c09_swap o k a b hk
    c09_atoms o k a b
    simp only [loop_BE_MonaghanArtificialViscosity]
    c09_norm
    c09_close

include hk in
/-- the pair contribution is parallel to the separation `x_a − x_b` (cross product zero) -/
theorem central_BE_MonaghanArtificialViscosity (acc : Out_BE_MonaghanArtificialViscosity K) (a b : P K) :
    (a.x - b.x) * ((pair_BE_MonaghanArtificialViscosity o k self_alpha self_beta acc a b).d_av - acc.d_av) = (a.y - b.y) * ((pair_BE_MonaghanArtificialViscosity o k self_alpha self_beta acc a b).d_au - acc.d_au) ∧
    (a.y - b.y) * ((pair_BE_MonaghanArtificialViscosity o k self_alpha self_beta acc a b).d_aw - acc.d_aw) = (a.z - b.z) * ((pair_BE_MonaghanArtificialViscosity o k self_alpha self_beta acc a b).d_av - acc.d_av) ∧
    (a.z - b.z) * ((pair_BE_MonaghanArtificialViscosity o k self_alpha self_beta acc a b).d_au - acc.d_au) = (a.x - b.x) * ((pair_BE_MonaghanArtificialViscosity o k self_alpha self_beta acc a b).d_aw - acc.d_aw) := by
  refine ⟨?_, ?_, ?_⟩ <;>
  · simp only [pair_BE_MonaghanArtificialViscosity]
    c09_shape o k a b hk
    c09_atoms o k a b
    simp only [loop_BE_MonaghanArtificialViscosity]
    c09_norm
    c09_close

include hk in
/-- closed system: evaluating the equation for every particle over a symmetric neighbour relation
gives `Σ m a = 0` -/
theorem linear_momentum_BE_MonaghanArtificialViscosity {ι : Type} [Fintype ι] [DecidableEq ι] (p : ι → P K)
    (nbrs : ι → List ι) (hnd : ∀ i, (nbrs i).Nodup) (hsymm : ∀ i j, j ∈ nbrs i → i ∈ nbrs j)
    (init : ι → Out_BE_MonaghanArtificialViscosity K) (hinit : ∀ i, (init i).d_au = 0 ∧ (init i).d_av = 0 ∧ (init i).d_aw = 0) :
    ∑ i, (p i).m * ((nbrs i).foldl (fun acc j => pair_BE_MonaghanArtificialViscosity o k self_alpha self_beta acc (p i) (p j)) (init i)).d_au = 0 ∧
    ∑ i, (p i).m * ((nbrs i).foldl (fun acc j => pair_BE_MonaghanArtificialViscosity o k self_alpha self_beta acc (p i) (p j)) (init i)).d_av = 0 ∧
    ∑ i, (p i).m * ((nbrs i).foldl (fun acc j => pair_BE_MonaghanArtificialViscosity o k self_alpha self_beta acc (p i) (p j)) (init i)).d_aw = 0 := by
  refine ⟨?_, ?_, ?_⟩
  · exact linear_momentum_of_pair (fun i => (p i).m) nbrs hnd hsymm (fun i acc j => pair_BE_MonaghanArtificialViscosity o k self_alpha self_beta acc (p i) (p j))
      (fun s => s.d_au) init (fun i => (hinit i).1)
      (fun i j acc acc' => (additive_BE_MonaghanArtificialViscosity o k self_alpha self_beta acc acc' (p i) (p j)).1)
      (fun i j acc acc' => (pair_antisym_BE_MonaghanArtificialViscosity o k hk self_alpha self_beta acc acc' (p i) (p j)).1)
  · exact linear_momentum_of_pair (fun i => (p i).m) nbrs hnd hsymm (fun i acc j => pair_BE_MonaghanArtificialViscosity o k self_alpha self_beta acc (p i) (p j))
      (fun s => s.d_av) init (fun i => (hinit i).2.1)
      (fun i j acc acc' => (additive_BE_MonaghanArtificialViscosity o k self_alpha self_beta acc acc' (p i) (p j)).2.1)
      (fun i j acc acc' => (pair_antisym_BE_MonaghanArtificialViscosity o k hk self_alpha self_beta acc acc' (p i) (p j)).2.1)
  · exact linear_momentum_of_pair (fun i => (p i).m) nbrs hnd hsymm (fun i acc j => pair_BE_MonaghanArtificialViscosity o k self_alpha self_beta acc (p i) (p j))
      (fun s => s.d_aw) init (fun i => (hinit i).2.2)
      (fun i j acc acc' => (additive_BE_MonaghanArtificialViscosity o k self_alpha self_beta acc acc' (p i) (p j)).2.2)
      (fun i j acc acc' => (pair_antisym_BE_MonaghanArtificialViscosity o k hk self_alpha self_beta acc acc' (p i) (p j)).2.2)

include hk in
/-- closed system: `Σ m x × a = 0` (three components) -/
theorem angular_momentum_BE_MonaghanArtificialViscosity {ι : Type} [Fintype ι] [DecidableEq ι] (p : ι → P K)
    (nbrs : ι → List ι) (hnd : ∀ i, (nbrs i).Nodup) (hsymm : ∀ i j, j ∈ nbrs i → i ∈ nbrs j)
    (init : ι → Out_BE_MonaghanArtificialViscosity K) (hinit : ∀ i, (init i).d_au = 0 ∧ (init i).d_av = 0 ∧ (init i).d_aw = 0) :
    (∑ i, (p i).m * ((p i).x * ((nbrs i).foldl (fun acc j => pair_BE_MonaghanArtificialViscosity o k self_alpha self_beta acc (p i) (p j)) (init i)).d_av - (p i).y * ((nbrs i).foldl (fun acc j => pair_BE_MonaghanArtificialViscosity o k self_alpha self_beta acc (p i) (p j)) (init i)).d_au) = 0) ∧
    (∑ i, (p i).m * ((p i).y * ((nbrs i).foldl (fun acc j => pair_BE_MonaghanArtificialViscosity o k self_alpha self_beta acc (p i) (p j)) (init i)).d_aw - (p i).z * ((nbrs i).foldl (fun acc j => pair_BE_MonaghanArtificialViscosity o k self_alpha self_beta acc (p i) (p j)) (init i)).d_av) = 0) ∧
    (∑ i, (p i).m * ((p i).z * ((nbrs i).foldl (fun acc j => pair_BE_MonaghanArtificialViscosity o k self_alpha self_beta acc (p i) (p j)) (init i)).d_au - (p i).x * ((nbrs i).foldl (fun acc j => pair_BE_MonaghanArtificialViscosity o k self_alpha self_beta acc (p i) (p j)) (init i)).d_aw) = 0) := by
  refine ⟨?_, ?_, ?_⟩
  · exact angular_momentum_of_pair (fun i => (p i).m) (fun i => (p i).x) (fun i => (p i).y) nbrs hnd hsymm
      (fun i acc j => pair_BE_MonaghanArtificialViscosity o k self_alpha self_beta acc (p i) (p j)) (fun s => s.d_au) (fun s => s.d_av) init
      (fun i => (hinit i).1) (fun i => (hinit i).2.1)
      (fun i j acc acc' => (additive_BE_MonaghanArtificialViscosity o k self_alpha self_beta acc acc' (p i) (p j)).1)
      (fun i j acc acc' => (additive_BE_MonaghanArtificialViscosity o k self_alpha self_beta acc acc' (p i) (p j)).2.1)
      (fun i j acc acc' => (pair_antisym_BE_MonaghanArtificialViscosity o k hk self_alpha self_beta acc acc' (p i) (p j)).1)
      (fun i j acc acc' => (pair_antisym_BE_MonaghanArtificialViscosity o k hk self_alpha self_beta acc acc' (p i) (p j)).2.1)
      (fun i j acc => (central_BE_MonaghanArtificialViscosity o k hk self_alpha self_beta acc (p i) (p j)).1)
  · exact angular_momentum_of_pair (fun i => (p i).m) (fun i => (p i).y) (fun i => (p i).z) nbrs hnd hsymm
      (fun i acc j => pair_BE_MonaghanArtificialViscosity o k self_alpha self_beta acc (p i) (p j)) (fun s => s.d_av) (fun s => s.d_aw) init
      (fun i => (hinit i).2.1) (fun i => (hinit i).2.2)
      (fun i j acc acc' => (additive_BE_MonaghanArtificialViscosity o k self_alpha self_beta acc acc' (p i) (p j)).2.1)
      (fun i j acc acc' => (additive_BE_MonaghanArtificialViscosity o k self_alpha self_beta acc acc' (p i) (p j)).2.2)
      (fun i j acc acc' => (pair_antisym_BE_MonaghanArtificialViscosity o k hk self_alpha self_beta acc acc' (p i) (p j)).2.1)
      (fun i j acc acc' => (pair_antisym_BE_MonaghanArtificialViscosity o k hk self_alpha self_beta acc acc' (p i) (p j)).2.2)
      (fun i j acc => (central_BE_MonaghanArtificialViscosity o k hk self_alpha self_beta acc (p i) (p j)).2.1)
  · exact angular_momentum_of_pair (fun i => (p i).m) (fun i => (p i).z) (fun i => (p i).x) nbrs hnd hsymm
      (fun i acc j => pair_BE_MonaghanArtificialViscosity o k self_alpha self_beta acc (p i) (p j)) (fun s => s.d_aw) (fun s => s.d_au) init
      (fun i => (hinit i).2.2) (fun i => (hinit i).1)
      (fun i j acc acc' => (additive_BE_MonaghanArtificialViscosity o k self_alpha self_beta acc acc' (p i) (p j)).2.2)
      (fun i j acc acc' => (additive_BE_MonaghanArtificialViscosity o k self_alpha self_beta acc acc' (p i) (p j)).1)
      (fun i j acc acc' => (pair_antisym_BE_MonaghanArtificialViscosity o k hk self_alpha self_beta acc acc' (p i) (p j)).2.2)
      (fun i j acc acc' => (pair_antisym_BE_MonaghanArtificialViscosity o k hk self_alpha self_beta acc acc' (p i) (p j)).1)
      (fun i j acc => (central_BE_MonaghanArtificialViscosity o k hk self_alpha self_beta acc (p i) (p j)).2.2)

end BE_MonaghanArtificialViscosity

/-! ## `pysph/sph/wc/transport_velocity.py.MomentumEquationPressureGradient` (TV_MomentumEquationPressureGradient) -/
section TV_MomentumEquationPressureGradient
variable (o : Ops K) (k : Kern K) {w g : K → K → K} (hk : Radial k w g) (self_pb : K)

/-- the contribution of a pair to the accumulated acceleration does not depend on the accumulator -/
theorem additive_TV_MomentumEquationPressureGradient (acc acc' : Out_TV_MomentumEquationPressureGradient K) (a b : P K) :
    ((pair_TV_MomentumEquationPressureGradient o k self_pb acc a b).d_au - acc.d_au) = ((pair_TV_MomentumEquationPressureGradient o k self_pb acc' a b).d_au - acc'.d_au) ∧
    ((pair_TV_MomentumEquationPressureGradient o k self_pb acc a b).d_av - acc.d_av) = ((pair_TV_MomentumEquationPressureGradient o k self_pb acc' a b).d_av - acc'.d_av) ∧
    ((pair_TV_MomentumEquationPressureGradient o k self_pb acc a b).d_aw - acc.d_aw) = ((pair_TV_MomentumEquationPressureGradient o k self_pb acc' a b).d_aw - acc'.d_aw) := by
  refine ⟨?_, ?_, ?_⟩ <;>
  · simp only [pair_TV_MomentumEquationPressureGradient]
    c09_atoms o k a b
    simp only [loop_TV_MomentumEquationPressureGradient]
    c09_norm
    c09_close

include hk in
/-- `m_a · contrib(a, b) = −(m_b · contrib(b, a))`, component by component (the body divides by the destination mass: masses non-zero) -/
theorem pair_antisym_TV_MomentumEquationPressureGradient (acc acc' : Out_TV_MomentumEquationPressureGradient K) (a b : P K) (ha : a.m ≠ 0) (hb : b.m ≠ 0) :
    a.m * ((pair_TV_MomentumEquationPressureGradient o k self_pb acc a b).d_au - acc.d_au) = -(b.m * ((pair_TV_MomentumEquationPressureGradient o k self_pb acc' b a).d_au - acc'.d_au)) ∧
    a.m * ((pair_TV_MomentumEquationPressureGradient o k self_pb acc a b).d_av - acc.d_av) = -(b.m * ((pair_TV_MomentumEquationPressureGradient o k self_pb acc' b a).d_av - acc'.d_av)) ∧
    a.m * ((pair_TV_MomentumEquationPressureGradient o k self_pb acc a b).d_aw - acc.d_aw) = -(b.m * ((pair_TV_MomentumEquationPressureGradient o k self_pb acc' b a).d_aw - acc'.d_aw)) := by
  refine ⟨?_, ?_, ?_⟩ <;>
  · simp only [pair_TV_MomentumEquationPressureGradient]
    c09_swap o k a b hk
    c09_atoms o k a b
    simp only [loop_TV_MomentumEquationPressureGradient]
    c09_norm
    c09_closeF

include hk in
/-- the pair contribution is parallel to the separation `x_a − x_b` (cross product zero) -/
theorem central_TV_MomentumEquationPressureGradient (acc : Out_TV_MomentumEquationPressureGradient K) (a b : P K) :
    (a.x - b.x) * ((pair_TV_MomentumEquationPressureGradient o k self_pb acc a b).d_av - acc.d_av) = (a.y - b.y) * ((pair_TV_MomentumEquationPressureGradient o k self_pb acc a b).d_au - acc.d_au) ∧
    (a.y - b.y) * ((pair_TV_MomentumEquationPressureGradient o k self_pb acc a b).d_aw - acc.d_aw) = (a.z - b.z) * ((pair_TV_MomentumEquationPressureGradient o k self_pb acc a b).d_av - acc.d_av) ∧
    (a.z - b.z) * ((pair_TV_MomentumEquationPressureGradient o k self_pb acc a b).d_au - acc.d_au) = (a.x - b.x) * ((pair_TV_MomentumEquationPressureGradient o k self_pb acc a b).d_aw - acc.d_aw) := by
  refine ⟨?_, ?_, ?_⟩ <;>
  · simp only [pair_TV_MomentumEquationPressureGradient]
    c09_shape o k a b hk
    c09_atoms o k a b
    simp only [loop_TV_MomentumEquationPressureGradient]
    c09_norm
    c09_close

include hk in
/-- closed system: evaluating the equation for every particle over a symmetric neighbour relation
gives `Σ m a = 0` -/
theorem linear_momentum_TV_MomentumEquationPressureGradient {ι : Type} [Fintype ι] [DecidableEq ι] (p : ι → P K)
    (nbrs : ι → List ι) (hnd : ∀ i, (nbrs i).Nodup) (hsymm : ∀ i j, j ∈ nbrs i → i ∈ nbrs j)
    (init : ι → Out_TV_MomentumEquationPressureGradient K) (hinit : ∀ i, (init i).d_au = 0 ∧ (init i).d_av = 0 ∧ (init i).d_aw = 0) (hm : ∀ i, (p i).m ≠ 0) :
    ∑ i, (p i).m * ((nbrs i).foldl (fun acc j => pair_TV_MomentumEquationPressureGradient o k self_pb acc (p i) (p j)) (init i)).d_au = 0 ∧
    ∑ i, (p i).m * ((nbrs i).foldl (fun acc j => pair_TV_MomentumEquationPressureGradient o k self_pb acc (p i) (p j)) (init i)).d_av = 0 ∧
    ∑ i, (p i).m * ((nbrs i).foldl (fun acc j => pair_TV_MomentumEquationPressureGradient o k self_pb acc (p i) (p j)) (init i)).d_aw = 0 := by
  refine ⟨?_, ?_, ?_⟩
  · exact linear_momentum_of_pair (fun i => (p i).m) nbrs hnd hsymm (fun i acc j => pair_TV_MomentumEquationPressureGradient o k self_pb acc (p i) (p j))
      (fun s => s.d_au) init (fun i => (hinit i).1)
      (fun i j acc acc' => (additive_TV_MomentumEquationPressureGradient o k self_pb acc acc' (p i) (p j)).1)
      (fun i j acc acc' => (pair_antisym_TV_MomentumEquationPressureGradient o k hk self_pb acc acc' (p i) (p j) (hm i) (hm j)).1)
  · exact linear_momentum_of_pair (fun i => (p i).m) nbrs hnd hsymm (fun i acc j => pair_TV_MomentumEquationPressureGradient o k self_pb acc (p i) (p j))
      (fun s => s.d_av) init (fun i => (hinit i).2.1)
      (fun i j acc acc' => (additive_TV_MomentumEquationPressureGradient o k self_pb acc acc' (p i) (p j)).2.1)
      (fun i j acc acc' => (pair_antisym_TV_MomentumEquationPressureGradient o k hk self_pb acc acc' (p i) (p j) (hm i) (hm j)).2.1)
  · exact linear_momentum_of_pair (fun i => (p i).m) nbrs hnd hsymm (fun i acc j => pair_TV_MomentumEquationPressureGradient o k self_pb acc (p i) (p j))
      (fun s => s.d_aw) init (fun i => (hinit i).2.2)
      (fun i j acc acc' => (additive_TV_MomentumEquationPressureGradient o k self_pb acc acc' (p i) (p j)).2.2)
      (fun i j acc acc' => (pair_antisym_TV_MomentumEquationPressureGradient o k hk self_pb acc acc' (p i) (p j) (hm i) (hm j)).2.2)

include hk in
/-- closed system: `Σ m x × a = 0` (three components) -/
theorem angular_momentum_TV_MomentumEquationPressureGradient {ι : Type} [Fintype ι] [DecidableEq ι] (p : ι → P K)
    (nbrs : ι → List ι) (hnd : ∀ i, (nbrs i).Nodup) (hsymm : ∀ i j, j ∈ nbrs i → i ∈ nbrs j)
    (init : ι → Out_TV_MomentumEquationPressureGradient K) (hinit : ∀ i, (init i).d_au = 0 ∧ (init i).d_av = 0 ∧ (init i).d_aw = 0) (hm : ∀ i, (p i).m ≠ 0) :
    (∑ i, (p i).m * ((p i).x * ((nbrs i).foldl (fun acc j => pair_TV_MomentumEquationPressureGradient o k self_pb acc (p i) (p j)) (init i)).d_av - (p i).y * ((nbrs i).foldl (fun acc j => pair_TV_MomentumEquationPressureGradient o k self_pb acc (p i) (p j)) (init i)).d_au) = 0) ∧
    (∑ i, (p i).m * ((p i).y * ((nbrs i).foldl (fun acc j => pair_TV_MomentumEquationPressureGradient o k self_pb acc (p i) (p j)) (init i)).d_aw - (p i).z * ((nbrs i).foldl (fun acc j => pair_TV_MomentumEquationPressureGradient o k self_pb acc (p i) (p j)) (init i)).d_av) = 0) ∧
    (∑ i, (p i).m * ((p i).z * ((nbrs i).foldl (fun acc j => pair_TV_MomentumEquationPressureGradient o k self_pb acc (p i) (p j)) (init i)).d_au - (p i).x * ((nbrs i).foldl (fun acc j => pair_TV_MomentumEquationPressureGradient o k self_pb acc (p i) (p j)) (init i)).d_aw) = 0) := by
  refine ⟨?_, ?_, ?_⟩
  · exact angular_momentum_of_pair (fun i => (p i).m) (fun i => (p i).x) (fun i => (p i).y) nbrs hnd hsymm
      (fun i acc j => pair_TV_MomentumEquationPressureGradient o k self_pb acc (p i) (p j)) (fun s => s.d_au) (fun s => s.d_av) init
      (fun i => (hinit i).1) (fun i => (hinit i).2.1)
      (fun i j acc acc' => (additive_TV_MomentumEquationPressureGradient o k self_pb acc acc' (p i) (p j)).1)
      (fun i j acc acc' => (additive_TV_MomentumEquationPressureGradient o k self_pb acc acc' (p i) (p j)).2.1)
      (fun i j acc acc' => (pair_antisym_TV_MomentumEquationPressureGradient o k hk self_pb acc acc' (p i) (p j) (hm i) (hm j)).1)
      (fun i j acc acc' => (pair_antisym_TV_MomentumEquationPressureGradient o k hk self_pb acc acc' (p i) (p j) (hm i) (hm j)).2.1)
      (fun i j acc => (central_TV_MomentumEquationPressureGradient o k hk self_pb acc (p i) (p j)).1)
  · exact angular_momentum_of_pair (fun i => (p i).m) (fun i => (p i).y) (fun i => (p i).z) nbrs hnd hsymm
      (fun i acc j => pair_TV_MomentumEquationPressureGradient o k self_pb acc (p i) (p j)) (fun s => s.d_av) (fun s => s.d_aw) init
      (fun i => (hinit i).2.1) (fun i => (hinit i).2.2)
      (fun i j acc acc' => (additive_TV_MomentumEquationPressureGradient o k self_pb acc acc' (p i) (p j)).2.1)
      (fun i j acc acc' => (additive_TV_MomentumEquationPressureGradient o k self_pb acc acc' (p i) (p j)).2.2)
      (fun i j acc acc' => (pair_antisym_TV_MomentumEquationPressureGradient o k hk self_pb acc acc' (p i) (p j) (hm i) (hm j)).2.1)
      (fun i j acc acc' => (pair_antisym_TV_MomentumEquationPressureGradient o k hk self_pb acc acc' (p i) (p j) (hm i) (hm j)).2.2)
      (fun i j acc => (central_TV_MomentumEquationPressureGradient o k hk self_pb acc (p i) (p j)).2.1)
  · exact angular_momentum_of_pair (fun i => (p i).m) (fun i => (p i).z) (fun i => (p i).x) nbrs hnd hsymm
      (fun i acc j => pair_TV_MomentumEquationPressureGradient o k self_pb acc (p i) (p j)) (fun s => s.d_aw) (fun s => s.d_au) init
      (fun i => (hinit i).2.2) (fun i => (hinit i).1)
      (fun i j acc acc' => (additive_TV_MomentumEquationPressureGradient o k self_pb acc acc' (p i) (p j)).2.2)
      (fun i j acc acc' => (additive_TV_MomentumEquationPressureGradient o k self_pb acc acc' (p i) (p j)).1)
      (fun i j acc acc' => (pair_antisym_TV_MomentumEquationPressureGradient o k hk self_pb acc acc' (p i) (p j) (hm i) (hm j)).2.2)
      (fun i j acc acc' => (pair_antisym_TV_MomentumEquationPressureGradient o k hk self_pb acc acc' (p i) (p j) (hm i) (hm j)).1)
      (fun i j acc => (central_TV_MomentumEquationPressureGradient o k hk self_pb acc (p i) (p j)).2.2)

end TV_MomentumEquationPressureGradient

/-! ## `pysph/sph/wc/transport_velocity.py.MomentumEquationViscosity` (TV_MomentumEquationViscosity) -/
section TV_MomentumEquationViscosity
variable (o : Ops K) (k : Kern K) {w g : K → K → K} (hk : Radial k w g) (self_nu : K)

/-- the contribution of a pair to the accumulated acceleration does not depend on the accumulator -/
theorem additive_TV_MomentumEquationViscosity (acc acc' : Out_TV_MomentumEquationViscosity K) (a b : P K) :
    ((pair_TV_MomentumEquationViscosity o k self_nu acc a b).d_au - acc.d_au) = ((pair_TV_MomentumEquationViscosity o k self_nu acc' a b).d_au - acc'.d_au) ∧
    ((pair_TV_MomentumEquationViscosity o k self_nu acc a b).d_av - acc.d_av) = ((pair_TV_MomentumEquationViscosity o k self_nu acc' a b).d_av - acc'.d_av) ∧
    ((pair_TV_MomentumEquationViscosity o k self_nu acc a b).d_aw - acc.d_aw) = ((pair_TV_MomentumEquationViscosity o k self_nu acc' a b).d_aw - acc'.d_aw) := by
  refine ⟨?_, ?_, ?_⟩ <;>
  · simp only [pair_TV_MomentumEquationViscosity]
    c09_atoms o k a b
    simp only [loop_TV_MomentumEquationViscosity]
    c09_norm
    c09_close

include hk in
/-- `m_a · contrib(a, b) = −(m_b · contrib(b, a))`, component by component (the body divides by the destination mass: masses non-zero) -/
theorem pair_antisym_TV_MomentumEquationViscosity (acc acc' : Out_TV_MomentumEquationViscosity K) (a b : P K) (ha : a.m ≠ 0) (hb : b.m ≠ 0) :
    a.m * ((pair_TV_MomentumEquationViscosity o k self_nu acc a b).d_au - acc.d_au) = -(b.m * ((pair_TV_MomentumEquationViscosity o k self_nu acc' b a).d_au - acc'.d_au)) ∧
    a.m * ((pair_TV_MomentumEquationViscosity o k self_nu acc a b).d_av - acc.d_av) = -(b.m * ((pair_TV_MomentumEquationViscosity o k self_nu acc' b a).d_av - acc'.d_av)) ∧
    a.m * ((pair_TV_MomentumEquationViscosity o k self_nu acc a b).d_aw - acc.d_aw) = -(b.m * ((pair_TV_MomentumEquationViscosity o k self_nu acc' b a).d_aw - acc'.d_aw)) := by
  refine ⟨?_, ?_, ?_⟩ <;>
  · simp only [pair_TV_MomentumEquationViscosity]
    c09_swap o k a b hk
    c09_atoms o k a b
    simp only [loop_TV_MomentumEquationViscosity]
    c09_norm
    c09_closeF

include hk in
/-- closed system: evaluating the equation for every particle over a symmetric neighbour relation
gives `Σ m a = 0` -/
theorem linear_momentum_TV_MomentumEquationViscosity {ι : Type} [Fintype ι] [DecidableEq ι] (p : ι → P K)
    (nbrs : ι → List ι) (hnd : ∀ i, (nbrs i).Nodup) (hsymm : ∀ i j, j ∈ nbrs i → i ∈ nbrs j)
    (init : ι → Out_TV_MomentumEquationViscosity K) (hinit : ∀ i, (init i).d_au = 0 ∧ (init i).d_av = 0 ∧ (init i).d_aw = 0) (hm : ∀ i, (p i).m ≠ 0) :
    ∑ i, (p i).m * ((nbrs i).foldl (fun acc j => pair_TV_MomentumEquationViscosity o k self_nu acc (p i) (p j)) (init i)).d_au = 0 ∧
    ∑ i, (p i).m * ((nbrs i).foldl (fun acc j => pair_TV_MomentumEquationViscosity o k self_nu acc (p i) (p j)) (init i)).d_av = 0 ∧
    ∑ i, (p i).m * ((nbrs i).foldl (fun acc j => pair_TV_MomentumEquationViscosity o k self_nu acc (p i) (p j)) (init i)).d_aw = 0 := by
  refine ⟨?_, ?_, ?_⟩
  · exact linear_momentum_of_pair (fun i => (p i).m) nbrs hnd hsymm (fun i acc j => pair_TV_MomentumEquationViscosity o k self_nu acc (p i) (p j))
      (fun s => s.d_au) init (fun i => (hinit i).1)
      (fun i j acc acc' => (additive_TV_MomentumEquationViscosity o k self_nu acc acc' (p i) (p j)).1)
      (fun i j acc acc' => (pair_antisym_TV_MomentumEquationViscosity o k hk self_nu acc acc' (p i) (p j) (hm i) (hm j)).1)
  · exact linear_momentum_of_pair (fun i => (p i).m) nbrs hnd hsymm (fun i acc j => pair_TV_MomentumEquationViscosity o k self_nu acc (p i) (p j))
      (fun s => s.d_av) init (fun i => (hinit i).2.1)
      (fun i j acc acc' => (additive_TV_MomentumEquationViscosity o k self_nu acc acc' (p i) (p j)).2.1)
      (fun i j acc acc' => (pair_antisym_TV_MomentumEquationViscosity o k hk self_nu acc acc' (p i) (p j) (hm i) (hm j)).2.1)
  · exact linear_momentum_of_pair (fun i => (p i).m) nbrs hnd hsymm (fun i acc j => pair_TV_MomentumEquationViscosity o k self_nu acc (p i) (p j))
      (fun s => s.d_aw) init (fun i => (hinit i).2.2)
      (fun i j acc acc' => (additive_TV_MomentumEquationViscosity o k self_nu acc acc' (p i) (p j)).2.2)
      (fun i j acc acc' => (pair_antisym_TV_MomentumEquationViscosity o k hk self_nu acc acc' (p i) (p j) (hm i) (hm j)).2.2)

end TV_MomentumEquationViscosity

/-! ## `pysph/sph/wc/transport_velocity.py.MomentumEquationArtificialViscosity` (TV_MomentumEquationArtificialViscosity) -/
section TV_MomentumEquationArtificialViscosity
variable (o : Ops K) (k : Kern K) {w g : K → K → K} (hk : Radial k w g) (self_alpha : K) (self_c0 : K)

/-- the contribution of a pair to the accumulated acceleration does not depend on the accumulator -/
theorem additive_TV_MomentumEquationArtificialViscosity (acc acc' : Out_TV_MomentumEquationArtificialViscosity K) (a b : P K) :
    ((pair_TV_MomentumEquationArtificialViscosity o k self_alpha self_c0 acc a b).d_au - acc.d_au) = ((pair_TV_MomentumEquationArtificialViscosity o k self_alpha self_c0 acc' a b).d_au - acc'.d_au) ∧
    ((pair_TV_MomentumEquationArtificialViscosity o k self_alpha self_c0 acc a b).d_av - acc.d_av) = ((pair_TV_MomentumEquationArtificialViscosity o k self_alpha self_c0 acc' a b).d_av - acc'.d_av) ∧
    ((pair_TV_MomentumEquationArtificialViscosity o k self_alpha self_c0 acc a b).d_aw - acc.d_aw) = ((pair_TV_MomentumEquationArtificialViscosity o k self_alpha self_c0 acc' a b).d_aw - acc'.d_aw) := by
  refine ⟨?_, ?_, ?_⟩ <;>
  · simp only [pair_TV_MomentumEquationArtificialViscosity]
    c09_atoms o k a b
    simp only [loop_TV_MomentumEquationArtificialViscosity]
    c09_norm
    c09_close

include hk in
/-- `m_a · contrib(a, b) = −(m_b · contrib(b, a))`, component by component -/
theorem pair_antisym_TV_MomentumEquationArtificialViscosity (acc acc' : Out_TV_MomentumEquationArtificialViscosity K) (a b : P K) :
    a.m * ((pair_TV_MomentumEquationArtificialViscosity o k self_alpha self_c0 acc a b).d_au - acc.d_au) = -(b.m * ((pair_TV_MomentumEquationArtificialViscosity o k self_alpha self_c0 acc' b a).d_au - acc'.d_au)) ∧
    a.m * ((pair_TV_MomentumEquationArtificialViscosity o k self_alpha self_c0 acc a b).d_av - acc.d_av) = -(b.m * ((pair_TV_MomentumEquationArtificialViscosity o k self_alpha self_c0 acc' b a).d_av - acc'.d_av)) ∧
    a.m * ((pair_TV_MomentumEquationArtificialViscosity o k self_alpha self_c0 acc a b).d_aw - acc.d_aw) = -(b.m * ((pair_TV_MomentumEquationArtificialViscosity o k self_alpha self_c0 acc' b a).d_aw - acc'.d_aw)) := by
  refine ⟨?_, ?_, ?_⟩ <;>
  · simp only [pair_TV_MomentumEquationArtificialViscosity]
    c09_swap o k a b hk
    c09_atoms o k a b
    simp only [loop_TV_MomentumEquationArtificialViscosity]
    c09_norm
    c09_close

include hk in
/-- the pair contribution is parallel to the separation `x_a − x_b` (cross product zero) -/
theorem central_TV_MomentumEquationArtificialViscosity (acc : Out_TV_MomentumEquationArtificialViscosity K) (a b : P K) :
    (a.x - b.x) * ((pair_TV_MomentumEquationArtificialViscosity o k self_alpha self_c0 acc a b).d_av - acc.d_av) = (a.y - b.y) * ((pair_TV_MomentumEquationArtificialViscosity o k self_alpha self_c0 acc a b).d_au - acc.d_au) ∧
    (a.y - b.y) * ((pair_TV_MomentumEquationArtificialViscosity o k self_alpha self_c0 acc a b).d_aw - acc.d_aw) = (a.z - b.z) * ((pair_TV_MomentumEquationArtificialViscosity o k self_alpha self_c0 acc a b).d_av - acc.d_av) ∧
    (a.z - b.z) * ((pair_TV_MomentumEquationArtificialViscosity o k self_alpha self_c0 acc a b).d_au - acc.d_au) = (a.x - b.x) * ((pair_TV_MomentumEquationArtificialViscosity o k self_alpha self_c0 acc a b).d_aw - acc.d_aw) := by
  refine ⟨?_, ?_, ?_⟩ <;>
  · simp only [pair_TV_MomentumEquationArtificialViscosity]
    c09_shape o k a b hk
    c09_atoms o k a b
    simp only [loop_TV_MomentumEquationArtificialViscosity]
    c09_norm
    c09_close

include hk in
/-- closed system: evaluating the equation for every particle over a symmetric neighbour relation
gives `Σ m a = 0` -/
theorem linear_momentum_TV_MomentumEquationArtificialViscosity {ι : Type} [Fintype ι] [DecidableEq ι] (p : ι → P K)
    (nbrs : ι → List ι) (hnd : ∀ i, (nbrs i).Nodup) (hsymm : ∀ i j, j ∈ nbrs i → i ∈ nbrs j)
    (init : ι → Out_TV_MomentumEquationArtificialViscosity K) (hinit : ∀ i, (init i).d_au = 0 ∧ (init i).d_av = 0 ∧ (init i).d_aw = 0) :
    ∑ i, (p i).m * ((nbrs i).foldl (fun acc j => pair_TV_MomentumEquationArtificialViscosity o k self_alpha self_c0 acc (p i) (p j)) (init i)).d_au = 0 ∧
    ∑ i, (p i).m * ((nbrs i).foldl (fun acc j => pair_TV_MomentumEquationArtificialViscosity o k self_alpha self_c0 acc (p i) (p j)) (init i)).d_av = 0 ∧
    ∑ i, (p i).m * ((nbrs i).foldl (fun acc j => pair_TV_MomentumEquationArtificialViscosity o k self_alpha self_c0 acc (p i) (p j)) (init i)).d_aw = 0 := by
  refine ⟨?_, ?_, ?_⟩
  · exact linear_momentum_of_pair (fun i => (p i).m) nbrs hnd hsymm (fun i acc j => pair_TV_MomentumEquationArtificialViscosity o k self_alpha self_c0 acc (p i) (p j))
      (fun s => s.d_au) init (fun i => (hinit i).1)
      (fun i j acc acc' => (additive_TV_MomentumEquationArtificialViscosity o k self_alpha self_c0 acc acc' (p i) (p j)).1)
      (fun i j acc acc' => (pair_antisym_TV_MomentumEquationArtificialViscosity o k hk self_alpha self_c0 acc acc' (p i) (p j)).1)
  · exact linear_momentum_of_pair (fun i => (p i).m) nbrs hnd hsymm (fun i acc j => pair_TV_MomentumEquationArtificialViscosity o k self_alpha self_c0 acc (p i) (p j))
      (fun s => s.d_av) init (fun i => (hinit i).2.1)
      (fun i j acc acc' => (additive_TV_MomentumEquationArtificialViscosity o k self_alpha self_c0 acc acc' (p i) (p j)).2.1)
      (fun i j acc acc' => (pair_antisym_TV_MomentumEquationArtificialViscosity o k hk self_alpha self_c0 acc acc' (p i) (p j)).2.1)
  · exact linear_momentum_of_pair (fun i => (p i).m) nbrs hnd hsymm (fun i acc j => pair_TV_MomentumEquationArtificialViscosity o k self_alpha self_c0 acc (p i) (p j))
      (fun s => s.d_aw) init (fun i => (hinit i).2.2)
      (fun i j acc acc' => (additive_TV_MomentumEquationArtificialViscosity o k self_alpha self_c0 acc acc' (p i) (p j)).2.2)
      (fun i j acc acc' => (pair_antisym_TV_MomentumEquationArtificialViscosity o k hk self_alpha self_c0 acc acc' (p i) (p j)).2.2)

include hk in
/-- closed system: `Σ m x × a = 0` (three components) -/
theorem angular_momentum_TV_MomentumEquationArtificialViscosity {ι : Type} [Fintype ι] [DecidableEq ι] (p : ι → P K)
    (nbrs : ι → List ι) (hnd : ∀ i, (nbrs i).Nodup) (hsymm : ∀ i j, j ∈ nbrs i → i ∈ nbrs j)
    (init : ι → Out_TV_MomentumEquationArtificialViscosity K) (hinit : ∀ i, (init i).d_au = 0 ∧ (init i).d_av = 0 ∧ (init i).d_aw = 0) :
    (∑ i, (p i).m * ((p i).x * ((nbrs i).foldl (fun acc j => pair_TV_MomentumEquationArtificialViscosity o k self_alpha self_c0 acc (p i) (p j)) (init i)).d_av - (p i).y * ((nbrs i).foldl (fun acc j => pair_TV_MomentumEquationArtificialViscosity o k self_alpha self_c0 acc (p i) (p j)) (init i)).d_au) = 0) ∧
    (∑ i, (p i).m * ((p i).y * ((nbrs i).foldl (fun acc j => pair_TV_MomentumEquationArtificialViscosity o k self_alpha self_c0 acc (p i) (p j)) (init i)).d_aw - (p i).z * ((nbrs i).foldl (fun acc j => pair_TV_MomentumEquationArtificialViscosity o k self_alpha self_c0 acc (p i) (p j)) (init i)).d_av) = 0) ∧
    (∑ i, (p i).m * ((p i).z * ((nbrs i).foldl (fun acc j => pair_TV_MomentumEquationArtificialViscosity o k self_alpha self_c0 acc (p i) (p j)) (init i)).d_au - (p i).x * ((nbrs i).foldl (fun acc j => pair_TV_MomentumEquationArtificialViscosity o k self_alpha self_c0 acc (p i) (p j)) (init i)).d_aw) = 0) := by
  refine ⟨?_, ?_, ?_⟩
  · exact angular_momentum_of_pair (fun i => (p i).m) (fun i => (p i).x) (fun i => (p i).y) nbrs hnd hsymm
      (fun i acc j => pair_TV_MomentumEquationArtificialViscosity o k self_alpha self_c0 acc (p i) (p j)) (fun s => s.d_au) (fun s => s.d_av) init
      (fun i => (hinit i).1) (fun i => (hinit i).2.1)
      (fun i j acc acc' => (additive_TV_MomentumEquationArtificialViscosity o k self_alpha self_c0 acc acc' (p i) (p j)).1)
      (fun i j acc acc' => (additive_TV_MomentumEquationArtificialViscosity o k self_alpha self_c0 acc acc' (p i) (p j)).2.1)
      (fun i j acc acc' => (pair_antisym_TV_MomentumEquationArtificialViscosity o k hk self_alpha self_c0 acc acc' (p i) (p j)).1)
      (fun i j acc acc' => (pair_antisym_TV_MomentumEquationArtificialViscosity o k hk self_alpha self_c0 acc acc' (p i) (p j)).2.1)
      (fun i j acc => (central_TV_MomentumEquationArtificialViscosity o k hk self_alpha self_c0 acc (p i) (p j)).1)
  · exact angular_momentum_of_pair (fun i => (p i).m) (fun i => (p i).y) (fun i => (p i).z) nbrs hnd hsymm
      (fun i acc j => pair_TV_MomentumEquationArtificialViscosity o k self_alpha self_c0 acc (p i) (p j)) (fun s => s.d_av) (fun s => s.d_aw) init
      (fun i => (hinit i).2.1) (fun i => (hinit i).2.2)
      (fun i j acc acc' => (additive_TV_MomentumEquationArtificialViscosity o k self_alpha self_c0 acc acc' (p i) (p j)).2.1)
      (fun i j acc acc' => (additive_TV_MomentumEquationArtificialViscosity o k self_alpha self_c0 acc acc' (p i) (p j)).2.2)
      (fun i j acc acc' => (pair_antisym_TV_MomentumEquationArtificialViscosity o k hk self_alpha self_c0 acc acc' (p i) (p j)).2.1)
      (fun i j acc acc' => (pair_antisym_TV_MomentumEquationArtificialViscosity o k hk self_alpha self_c0 acc acc' (p i) (p j)).2.2)
      (fun i j acc => (central_TV_MomentumEquationArtificialViscosity o k hk self_alpha self_c0 acc (p i) (p j)).2.1)
  · exact angular_momentum_of_pair (fun i => (p i).m) (fun i => (p i).z) (fun i => (p i).x) nbrs hnd hsymm
      (fun i acc j => pair_TV_MomentumEquationArtificialViscosity o k self_alpha self_c0 acc (p i) (p j)) (fun s => s.d_aw) (fun s => s.d_au) init
      (fun i => (hinit i).2.2) (fun i => (hinit i).1)
      (fun i j acc acc' => (additive_TV_MomentumEquationArtificialViscosity o k self_alpha self_c0 acc acc' (p i) (p j)).2.2)
      (fun i j acc acc' => (additive_TV_MomentumEquationArtificialViscosity o k self_alpha self_c0 acc acc' (p i) (p j)).1)
      (fun i j acc acc' => (pair_antisym_TV_MomentumEquationArtificialViscosity o k hk self_alpha self_c0 acc acc' (p i) (p j)).2.2)
      (fun i j acc acc' => (pair_antisym_TV_MomentumEquationArtificialViscosity o k hk self_alpha self_c0 acc acc' (p i) (p j)).1)
      (fun i j acc => (central_TV_MomentumEquationArtificialViscosity o k hk self_alpha self_c0 acc (p i) (p j)).2.2)

end TV_MomentumEquationArtificialViscosity

/-! ## `pysph/sph/wc/transport_velocity.py.MomentumEquationArtificialStress` (TV_MomentumEquationArtificialStress) -/
section TV_MomentumEquationArtificialStress
variable (o : Ops K) (k : Kern K) {w g : K → K → K} (hk : Radial k w g) 

/-- the contribution of a pair to the accumulated acceleration does not depend on the accumulator -/
theorem additive_TV_MomentumEquationArtificialStress (acc acc' : Out_TV_MomentumEquationArtificialStress K) (a b : P K) :
    ((pair_TV_MomentumEquationArtificialStress o k  acc a b).d_au - acc.d_au) = ((pair_TV_MomentumEquationArtificialStress o k  acc' a b).d_au - acc'.d_au) ∧
    ((pair_TV_MomentumEquationArtificialStress o k  acc a b).d_av - acc.d_av) = ((pair_TV_MomentumEquationArtificialStress o k  acc' a b).d_av - acc'.d_av) ∧
    ((pair_TV_MomentumEquationArtificialStress o k  acc a b).d_aw - acc.d_aw) = ((pair_TV_MomentumEquationArtificialStress o k  acc' a b).d_aw - acc'.d_aw) := by
  refine ⟨?_, ?_, ?_⟩ <;>
  · simp only [pair_TV_MomentumEquationArtificialStress]
    c09_atoms o k a b
    simp only [loop_TV_MomentumEquationArtificialStress]
    c09_norm
    c09_close

include hk in
/-- `m_a · contrib(a, b) = −(m_b · contrib(b, a))`, component by component (the body divides by the destination mass: masses non-zero) -/
theorem pair_antisym_TV_MomentumEquationArtificialStress (acc acc' : Out_TV_MomentumEquationArtificialStress K) (a b : P K) (ha : a.m ≠ 0) (hb : b.m ≠ 0) :
    a.m * ((pair_TV_MomentumEquationArtificialStress o k  acc a b).d_au - acc.d_au) = -(b.m * ((pair_TV_MomentumEquationArtificialStress o k  acc' b a).d_au - acc'.d_au)) ∧
    a.m * ((pair_TV_MomentumEquationArtificialStress o k  acc a b).d_av - acc.d_av) = -(b.m * ((pair_TV_MomentumEquationArtificialStress o k  acc' b a).d_av - acc'.d_av)) ∧
    a.m * ((pair_TV_MomentumEquationArtificialStress o k  acc a b).d_aw - acc.d_aw) = -(b.m * ((pair_TV_MomentumEquationArtificialStress o k  acc' b a).d_aw - acc'.d_aw)) := by
  refine ⟨?_, ?_, ?_⟩ <;>
  · simp only [pair_TV_MomentumEquationArtificialStress]
    c09_swap o k a b hk
    c09_atoms o k a b
    simp only [loop_TV_MomentumEquationArtificialStress]
    c09_norm
    c09_closeF

include hk in
/-- closed system: evaluating the equation for every particle over a symmetric neighbour relation
gives `Σ m a = 0` -/
theorem linear_momentum_TV_MomentumEquationArtificialStress {ι : Type} [Fintype ι] [DecidableEq ι] (p : ι → P K)
    (nbrs : ι → List ι) (hnd : ∀ i, (nbrs i).Nodup) (hsymm : ∀ i j, j ∈ nbrs i → i ∈ nbrs j)
    (init : ι → Out_TV_MomentumEquationArtificialStress K) (hinit : ∀ i, (init i).d_au = 0 ∧ (init i).d_av = 0 ∧ (init i).d_aw = 0) (hm : ∀ i, (p i).m ≠ 0) :
    ∑ i, (p i).m * ((nbrs i).foldl (fun acc j => pair_TV_MomentumEquationArtificialStress o k  acc (p i) (p j)) (init i)).d_au = 0 ∧
    ∑ i, (p i).m * ((nbrs i).foldl (fun acc j => pair_TV_MomentumEquationArtificialStress o k  acc (p i) (p j)) (init i)).d_av = 0 ∧
    ∑ i, (p i).m * ((nbrs i).foldl (fun acc j => pair_TV_MomentumEquationArtificialStress o k  acc (p i) (p j)) (init i)).d_aw = 0 := by
  refine ⟨?_, ?_, ?_⟩
  · exact linear_momentum_of_pair (fun i => (p i).m) nbrs hnd hsymm (fun i acc j => pair_TV_MomentumEquationArtificialStress o k  acc (p i) (p j))
      (fun s => s.d_au) init (fun i => (hinit i).1)
      (fun i j acc acc' => (additive_TV_MomentumEquationArtificialStress o k  acc acc' (p i) (p j)).1)
      (fun i j acc acc' => (pair_antisym_TV_MomentumEquationArtificialStress o k hk  acc acc' (p i) (p j) (hm i) (hm j)).1)
  · exact linear_momentum_of_pair (fun i => (p i).m) nbrs hnd hsymm (fun i acc j => pair_TV_MomentumEquationArtificialStress o k  acc (p i) (p j))
      (fun s => s.d_av) init (fun i => (hinit i).2.1)
      (fun i j acc acc' => (additive_TV_MomentumEquationArtificialStress o k  acc acc' (p i) (p j)).2.1)
      (fun i j acc acc' => (pair_antisym_TV_MomentumEquationArtificialStress o k hk  acc acc' (p i) (p j) (hm i) (hm j)).2.1)
  · exact linear_momentum_of_pair (fun i => (p i).m) nbrs hnd hsymm (fun i acc j => pair_TV_MomentumEquationArtificialStress o k  acc (p i) (p j))
      (fun s => s.d_aw) init (fun i => (hinit i).2.2)
      (fun i j acc acc' => (additive_TV_MomentumEquationArtificialStress o k  acc acc' (p i) (p j)).2.2)
      (fun i j acc acc' => (pair_antisym_TV_MomentumEquationArtificialStress o k hk  acc acc' (p i) (p j) (hm i) (hm j)).2.2)

end TV_MomentumEquationArtificialStress

/-! ## `pysph/sph/wc/edac.py.MomentumEquation` (ED_MomentumEquation) -/
section ED_MomentumEquation
variable (o : Ops K) (k : Kern K) {w g : K → K → K} (hk : Radial k w g) 

/-- the contribution of a pair to the accumulated acceleration does not depend on the accumulator -/
theorem additive_ED_MomentumEquation (acc acc' : Out_ED_MomentumEquation K) (a b : P K) :
    ((pair_ED_MomentumEquation o k  acc a b).d_au - acc.d_au) = ((pair_ED_MomentumEquation o k  acc' a b).d_au - acc'.d_au) ∧
    ((pair_ED_MomentumEquation o k  acc a b).d_av - acc.d_av) = ((pair_ED_MomentumEquation o k  acc' a b).d_av - acc'.d_av) ∧
    ((pair_ED_MomentumEquation o k  acc a b).d_aw - acc.d_aw) = ((pair_ED_MomentumEquation o k  acc' a b).d_aw - acc'.d_aw) := by
  refine ⟨?_, ?_, ?_⟩ <;>
  · simp only [pair_ED_MomentumEquation]
    c09_atoms o k a b
    simp only [loop_ED_MomentumEquation]
    c09_norm
    c09_close

include hk in
/-- `m_a · contrib(a, b) = −(m_b · contrib(b, a))`, component by component (the body divides by the destination mass: masses non-zero) -/
theorem pair_antisym_ED_MomentumEquation (acc acc' : Out_ED_MomentumEquation K) (a b : P K) (ha : a.m ≠ 0) (hb : b.m ≠ 0) :
    a.m * ((pair_ED_MomentumEquation o k  acc a b).d_au - acc.d_au) = -(b.m * ((pair_ED_MomentumEquation o k  acc' b a).d_au - acc'.d_au)) ∧
    a.m * ((pair_ED_MomentumEquation o k  acc a b).d_av - acc.d_av) = -(b.m * ((pair_ED_MomentumEquation o k  acc' b a).d_av - acc'.d_av)) ∧
    a.m * ((pair_ED_MomentumEquation o k  acc a b).d_aw - acc.d_aw) = -(b.m * ((pair_ED_MomentumEquation o k  acc' b a).d_aw - acc'.d_aw)) := by
  refine ⟨?_, ?_, ?_⟩ <;>
  · simp only [pair_ED_MomentumEquation]
    c09_swap o k a b hk
    c09_atoms o k a b
    simp only [loop_ED_MomentumEquation]
    c09_norm
    c09_closeF

include hk in
/-- the pair contribution is parallel to the separation `x_a − x_b` (cross product zero) -/
theorem central_ED_MomentumEquation (acc : Out_ED_MomentumEquation K) (a b : P K) :
    (a.x - b.x) * ((pair_ED_MomentumEquation o k  acc a b).d_av - acc.d_av) = (a.y - b.y) * ((pair_ED_MomentumEquation o k  acc a b).d_au - acc.d_au) ∧
    (a.y - b.y) * ((pair_ED_MomentumEquation o k  acc a b).d_aw - acc.d_aw) = (a.z - b.z) * ((pair_ED_MomentumEquation o k  acc a b).d_av - acc.d_av) ∧
    (a.z - b.z) * ((pair_ED_MomentumEquation o k  acc a b).d_au - acc.d_au) = (a.x - b.x) * ((pair_ED_MomentumEquation o k  acc a b).d_aw - acc.d_aw) := by
  refine ⟨?_, ?_, ?_⟩ <;>
  · simp only [pair_ED_MomentumEquation]
    c09_shape o k a b hk
    c09_atoms o k a b
    simp only [loop_ED_MomentumEquation]
    c09_norm
    c09_close

include hk in
/-- closed system: evaluating the equation for every particle over a symmetric neighbour relation
gives `Σ m a = 0` -/
theorem linear_momentum_ED_MomentumEquation {ι : Type} [Fintype ι] [DecidableEq ι] (p : ι → P K)
    (nbrs : ι → List ι) (hnd : ∀ i, (nbrs i).Nodup) (hsymm : ∀ i j, j ∈ nbrs i → i ∈ nbrs j)
    (init : ι → Out_ED_MomentumEquation K) (hinit : ∀ i, (init i).d_au = 0 ∧ (init i).d_av = 0 ∧ (init i).d_aw = 0) (hm : ∀ i, (p i).m ≠ 0) :
    ∑ i, (p i).m * ((nbrs i).foldl (fun acc j => pair_ED_MomentumEquation o k  acc (p i) (p j)) (init i)).d_au = 0 ∧
    ∑ i, (p i).m * ((nbrs i).foldl (fun acc j => pair_ED_MomentumEquation o k  acc (p i) (p j)) (init i)).d_av = 0 ∧
    ∑ i, (p i).m * ((nbrs i).foldl (fun acc j => pair_ED_MomentumEquation o k  acc (p i) (p j)) (init i)).d_aw = 0 := by
  refine ⟨?_, ?_, ?_⟩
  · exact linear_momentum_of_pair (fun i => (p i).m) nbrs hnd hsymm (fun i acc j => pair_ED_MomentumEquation o k  acc (p i) (p j))
      (fun s => s.d_au) init (fun i => (hinit i).1)
      (fun i j acc acc' => (additive_ED_MomentumEquation o k  acc acc' (p i) (p j)).1)
      (fun i j acc acc' => (pair_antisym_ED_MomentumEquation o k hk  acc acc' (p i) (p j) (hm i) (hm j)).1)
  · exact linear_momentum_of_pair (fun i => (p i).m) nbrs hnd hsymm (fun i acc j => pair_ED_MomentumEquation o k  acc (p i) (p j))
      (fun s => s.d_av) init (fun i => (hinit i).2.1)
      (fun i j acc acc' => (additive_ED_MomentumEquation o k  acc acc' (p i) (p j)).2.1)
      (fun i j acc acc' => (pair_antisym_ED_MomentumEquation o k hk  acc acc' (p i) (p j) (hm i) (hm j)).2.1)
  · exact linear_momentum_of_pair (fun i => (p i).m) nbrs hnd hsymm (fun i acc j => pair_ED_MomentumEquation o k  acc (p i) (p j))
      (fun s => s.d_aw) init (fun i => (hinit i).2.2)
      (fun i j acc acc' => (additive_ED_MomentumEquation o k  acc acc' (p i) (p j)).2.2)
      (fun i j acc acc' => (pair_antisym_ED_MomentumEquation o k hk  acc acc' (p i) (p j) (hm i) (hm j)).2.2)

include hk in
/-- closed system: `Σ m x × a = 0` (three components) -/
theorem angular_momentum_ED_MomentumEquation {ι : Type} [Fintype ι] [DecidableEq ι] (p : ι → P K)
    (nbrs : ι → List ι) (hnd : ∀ i, (nbrs i).Nodup) (hsymm : ∀ i j, j ∈ nbrs i → i ∈ nbrs j)
    (init : ι → Out_ED_MomentumEquation K) (hinit : ∀ i, (init i).d_au = 0 ∧ (init i).d_av = 0 ∧ (init i).d_aw = 0) (hm : ∀ i, (p i).m ≠ 0) :
    (∑ i, (p i).m * ((p i).x * ((nbrs i).foldl (fun acc j => pair_ED_MomentumEquation o k  acc (p i) (p j)) (init i)).d_av - (p i).y * ((nbrs i).foldl (fun acc j => pair_ED_MomentumEquation o k  acc (p i) (p j)) (init i)).d_au) = 0) ∧
    (∑ i, (p i).m * ((p i).y * ((nbrs i).foldl (fun acc j => pair_ED_MomentumEquation o k  acc (p i) (p j)) (init i)).d_aw - (p i).z * ((nbrs i).foldl (fun acc j => pair_ED_MomentumEquation o k  acc (p i) (p j)) (init i)).d_av) = 0) ∧
    (∑ i, (p i).m * ((p i).z * ((nbrs i).foldl (fun acc j => pair_ED_MomentumEquation o k  acc (p i) (p j)) (init i)).d_au - (p i).x * ((nbrs i).foldl (fun acc j => pair_ED_MomentumEquation o k  acc (p i) (p j)) (init i)).d_aw) = 0) := by
  refine ⟨?_, ?_, ?_⟩
  · exact angular_momentum_of_pair (fun i => (p i).m) (fun i => (p i).x) (fun i => (p i).y) nbrs hnd hsymm
      (fun i acc j => pair_ED_MomentumEquation o k  acc (p i) (p j)) (fun s => s.d_au) (fun s => s.d_av) init
      (fun i => (hinit i).1) (fun i => (hinit i).2.1)
      (fun i j acc acc' => (additive_ED_MomentumEquation o k  acc acc' (p i) (p j)).1)
      (fun i j acc acc' => (additive_ED_MomentumEquation o k  acc acc' (p i) (p j)).2.1)
      (fun i j acc acc' => (pair_antisym_ED_MomentumEquation o k hk  acc acc' (p i) (p j) (hm i) (hm j)).1)
      (fun i j acc acc' => (pair_antisym_ED_MomentumEquation o k hk  acc acc' (p i) (p j) (hm i) (hm j)).2.1)
      (fun i j acc => (central_ED_MomentumEquation o k hk  acc (p i) (p j)).1)
  · exact angular_momentum_of_pair (fun i => (p i).m) (fun i => (p i).y) (fun i => (p i).z) nbrs hnd hsymm
      (fun i acc j => pair_ED_MomentumEquation o k  acc (p i) (p j)) (fun s => s.d_av) (fun s => s.d_aw) init
      (fun i => (hinit i).2.1) (fun i => (hinit i).2.2)
      (fun i j acc acc' => (additive_ED_MomentumEquation o k  acc acc' (p i) (p j)).2.1)
      (fun i j acc acc' => (additive_ED_MomentumEquation o k  acc acc' (p i) (p j)).2.2)
      (fun i j acc acc' => (pair_antisym_ED_MomentumEquation o k hk  acc acc' (p i) (p j) (hm i) (hm j)).2.1)
      (fun i j acc acc' => (pair_antisym_ED_MomentumEquation o k hk  acc acc' (p i) (p j) (hm i) (hm j)).2.2)
      (fun i j acc => (central_ED_MomentumEquation o k hk  acc (p i) (p j)).2.1)
  · exact angular_momentum_of_pair (fun i => (p i).m) (fun i => (p i).z) (fun i => (p i).x) nbrs hnd hsymm
      (fun i acc j => pair_ED_MomentumEquation o k  acc (p i) (p j)) (fun s => s.d_aw) (fun s => s.d_au) init
      (fun i => (hinit i).2.2) (fun i => (hinit i).1)
      (fun i j acc acc' => (additive_ED_MomentumEquation o k  acc acc' (p i) (p j)).2.2)
      (fun i j acc acc' => (additive_ED_MomentumEquation o k  acc acc' (p i) (p j)).1)
      (fun i j acc acc' => (pair_antisym_ED_MomentumEquation o k hk  acc acc' (p i) (p j) (hm i) (hm j)).2.2)
      (fun i j acc acc' => (pair_antisym_ED_MomentumEquation o k hk  acc acc' (p i) (p j) (hm i) (hm j)).1)
      (fun i j acc => (central_ED_MomentumEquation o k hk  acc (p i) (p j)).2.2)

end ED_MomentumEquation

/-! ## `pysph/sph/wc/edac.py.MomentumEquationPressureGradient` (ED_MomentumEquationPressureGradient) -/
section ED_MomentumEquationPressureGradient
variable (o : Ops K) (k : Kern K) {w g : K → K → K} (hk : Radial k w g) (self_pb : K)

/-- the contribution of a pair to the accumulated acceleration does not depend on the accumulator -/
theorem additive_ED_MomentumEquationPressureGradient (acc acc' : Out_ED_MomentumEquationPressureGradient K) (a b : P K) :
    ((pair_ED_MomentumEquationPressureGradient o k self_pb acc a b).d_au - acc.d_au) = ((pair_ED_MomentumEquationPressureGradient o k self_pb acc' a b).d_au - acc'.d_au) ∧
    ((pair_ED_MomentumEquationPressureGradient o k self_pb acc a b).d_av - acc.d_av) = ((pair_ED_MomentumEquationPressureGradient o k self_pb acc' a b).d_av - acc'.d_av) ∧
    ((pair_ED_MomentumEquationPressureGradient o k self_pb acc a b).d_aw - acc.d_aw) = ((pair_ED_MomentumEquationPressureGradient o k self_pb acc' a b).d_aw - acc'.d_aw) := by
  refine ⟨?_, ?_, ?_⟩ <;>
  · simp only [pair_ED_MomentumEquationPressureGradient]
    c09_atoms o k a b
    simp only [loop_ED_MomentumEquationPressureGradient]
    c09_norm
    c09_close

include hk in
/-- `m_a · contrib(a, b) = −(m_b · contrib(b, a))`, component by component — for a uniform average pressure only (the body divides by the destination mass: masses non-zero) -/
theorem pair_antisym_ED_MomentumEquationPressureGradient (acc acc' : Out_ED_MomentumEquationPressureGradient K) (a b : P K) (hp : a.pavg = b.pavg) (ha : a.m ≠ 0) (hb : b.m ≠ 0) :
    a.m * ((pair_ED_MomentumEquationPressureGradient o k self_pb acc a b).d_au - acc.d_au) = -(b.m * ((pair_ED_MomentumEquationPressureGradient o k self_pb acc' b a).d_au - acc'.d_au)) ∧
    a.m * ((pair_ED_MomentumEquationPressureGradient o k self_pb acc a b).d_av - acc.d_av) = -(b.m * ((pair_ED_MomentumEquationPressureGradient o k self_pb acc' b a).d_av - acc'.d_av)) ∧
    a.m * ((pair_ED_MomentumEquationPressureGradient o k self_pb acc a b).d_aw - acc.d_aw) = -(b.m * ((pair_ED_MomentumEquationPressureGradient o k self_pb acc' b a).d_aw - acc'.d_aw)) := by
  refine ⟨?_, ?_, ?_⟩ <;>
  · simp only [pair_ED_MomentumEquationPressureGradient]
    c09_swap o k a b hk
    c09_atoms o k a b
    simp only [loop_ED_MomentumEquationPressureGradient, hp]
    c09_norm
    c09_closeF

include hk in
/-- the pair contribution is parallel to the separation `x_a − x_b` (cross product zero) -/
theorem central_ED_MomentumEquationPressureGradient (acc : Out_ED_MomentumEquationPressureGradient K) (a b : P K) :
    (a.x - b.x) * ((pair_ED_MomentumEquationPressureGradient o k self_pb acc a b).d_av - acc.d_av) = (a.y - b.y) * ((pair_ED_MomentumEquationPressureGradient o k self_pb acc a b).d_au - acc.d_au) ∧
    (a.y - b.y) * ((pair_ED_MomentumEquationPressureGradient o k self_pb acc a b).d_aw - acc.d_aw) = (a.z - b.z) * ((pair_ED_MomentumEquationPressureGradient o k self_pb acc a b).d_av - acc.d_av) ∧
    (a.z - b.z) * ((pair_ED_MomentumEquationPressureGradient o k self_pb acc a b).d_au - acc.d_au) = (a.x - b.x) * ((pair_ED_MomentumEquationPressureGradient o k self_pb acc a b).d_aw - acc.d_aw) := by
  refine ⟨?_, ?_, ?_⟩ <;>
  · simp only [pair_ED_MomentumEquationPressureGradient]
    c09_shape o k a b hk
    c09_atoms o k a b
    simp only [loop_ED_MomentumEquationPressureGradient]
    c09_norm
    c09_close

include hk in
/-- closed system: evaluating the equation for every particle over a symmetric neighbour relation
gives `Σ m a = 0` -/
theorem linear_momentum_ED_MomentumEquationPressureGradient {ι : Type} [Fintype ι] [DecidableEq ι] (p : ι → P K)
    (nbrs : ι → List ι) (hnd : ∀ i, (nbrs i).Nodup) (hsymm : ∀ i j, j ∈ nbrs i → i ∈ nbrs j)
    (init : ι → Out_ED_MomentumEquationPressureGradient K) (hinit : ∀ i, (init i).d_au = 0 ∧ (init i).d_av = 0 ∧ (init i).d_aw = 0) (hp_all : ∀ i j, (p i).pavg = (p j).pavg) (hm : ∀ i, (p i).m ≠ 0) :
    ∑ i, (p i).m * ((nbrs i).foldl (fun acc j => pair_ED_MomentumEquationPressureGradient o k self_pb acc (p i) (p j)) (init i)).d_au = 0 ∧
    ∑ i, (p i).m * ((nbrs i).foldl (fun acc j => pair_ED_MomentumEquationPressureGradient o k self_pb acc (p i) (p j)) (init i)).d_av = 0 ∧
    ∑ i, (p i).m * ((nbrs i).foldl (fun acc j => pair_ED_MomentumEquationPressureGradient o k self_pb acc (p i) (p j)) (init i)).d_aw = 0 := by
  refine ⟨?_, ?_, ?_⟩
  · exact linear_momentum_of_pair (fun i => (p i).m) nbrs hnd hsymm (fun i acc j => pair_ED_MomentumEquationPressureGradient o k self_pb acc (p i) (p j))
      (fun s => s.d_au) init (fun i => (hinit i).1)
      (fun i j acc acc' => (additive_ED_MomentumEquationPressureGradient o k self_pb acc acc' (p i) (p j)).1)
      (fun i j acc acc' => (pair_antisym_ED_MomentumEquationPressureGradient o k hk self_pb acc acc' (p i) (p j) (hp_all i j) (hm i) (hm j)).1)
  · exact linear_momentum_of_pair (fun i => (p i).m) nbrs hnd hsymm (fun i acc j => pair_ED_MomentumEquationPressureGradient o k self_pb acc (p i) (p j))
      (fun s => s.d_av) init (fun i => (hinit i).2.1)
      (fun i j acc acc' => (additive_ED_MomentumEquationPressureGradient o k self_pb acc acc' (p i) (p j)).2.1)
      (fun i j acc acc' => (pair_antisym_ED_MomentumEquationPressureGradient o k hk self_pb acc acc' (p i) (p j) (hp_all i j) (hm i) (hm j)).2.1)
  · exact linear_momentum_of_pair (fun i => (p i).m) nbrs hnd hsymm (fun i acc j => pair_ED_MomentumEquationPressureGradient o k self_pb acc (p i) (p j))
      (fun s => s.d_aw) init (fun i => (hinit i).2.2)
      (fun i j acc acc' => (additive_ED_MomentumEquationPressureGradient o k self_pb acc acc' (p i) (p j)).2.2)
      (fun i j acc acc' => (pair_antisym_ED_MomentumEquationPressureGradient o k hk self_pb acc acc' (p i) (p j) (hp_all i j) (hm i) (hm j)).2.2)

include hk in
/-- closed system: `Σ m x × a = 0` (three components) -/
theorem angular_momentum_ED_MomentumEquationPressureGradient {ι : Type} [Fintype ι] [DecidableEq ι] (p : ι → P K)
    (nbrs : ι → List ι) (hnd : ∀ i, (nbrs i).Nodup) (hsymm : ∀ i j, j ∈ nbrs i → i ∈ nbrs j)
    (init : ι → Out_ED_MomentumEquationPressureGradient K) (hinit : ∀ i, (init i).d_au = 0 ∧ (init i).d_av = 0 ∧ (init i).d_aw = 0) (hp_all : ∀ i j, (p i).pavg = (p j).pavg) (hm : ∀ i, (p i).m ≠ 0) :
    (∑ i, (p i).m * ((p i).x * ((nbrs i).foldl (fun acc j => pair_ED_MomentumEquationPressureGradient o k self_pb acc (p i) (p j)) (init i)).d_av - (p i).y * ((nbrs i).foldl (fun acc j => pair_ED_MomentumEquationPressureGradient o k self_pb acc (p i) (p j)) (init i)).d_au) = 0) ∧
    (∑ i, (p i).m * ((p i).y * ((nbrs i).foldl (fun acc j => pair_ED_MomentumEquationPressureGradient o k self_pb acc (p i) (p j)) (init i)).d_aw - (p i).z * ((nbrs i).foldl (fun acc j => pair_ED_MomentumEquationPressureGradient o k self_pb acc (p i) (p j)) (init i)).d_av) = 0) ∧
    (∑ i, (p i).m * ((p i).z * ((nbrs i).foldl (fun acc j => pair_ED_MomentumEquationPressureGradient o k self_pb acc (p i) (p j)) (init i)).d_au - (p i).x * ((nbrs i).foldl (fun acc j => pair_ED_MomentumEquationPressureGradient o k self_pb acc (p i) (p j)) (init i)).d_aw) = 0) := by
  refine ⟨?_, ?_, ?_⟩
  · exact angular_momentum_of_pair (fun i => (p i).m) (fun i => (p i).x) (fun i => (p i).y) nbrs hnd hsymm
      (fun i acc j => pair_ED_MomentumEquationPressureGradient o k self_pb acc (p i) (p j)) (fun s => s.d_au) (fun s => s.d_av) init
      (fun i => (hinit i).1) (fun i => (hinit i).2.1)
      (fun i j acc acc' => (additive_ED_MomentumEquationPressureGradient o k self_pb acc acc' (p i) (p j)).1)
      (fun i j acc acc' => (additive_ED_MomentumEquationPressureGradient o k self_pb acc acc' (p i) (p j)).2.1)
      (fun i j acc acc' => (pair_antisym_ED_MomentumEquationPressureGradient o k hk self_pb acc acc' (p i) (p j) (hp_all i j) (hm i) (hm j)).1)
      (fun i j acc acc' => (pair_antisym_ED_MomentumEquationPressureGradient o k hk self_pb acc acc' (p i) (p j) (hp_all i j) (hm i) (hm j)).2.1)
      (fun i j acc => (central_ED_MomentumEquationPressureGradient o k hk self_pb acc (p i) (p j)).1)
  · exact angular_momentum_of_pair (fun i => (p i).m) (fun i => (p i).y) (fun i => (p i).z) nbrs hnd hsymm
      (fun i acc j => pair_ED_MomentumEquationPressureGradient o k self_pb acc (p i) (p j)) (fun s => s.d_av) (fun s => s.d_aw) init
      (fun i => (hinit i).2.1) (fun i => (hinit i).2.2)
      (fun i j acc acc' => (additive_ED_MomentumEquationPressureGradient o k self_pb acc acc' (p i) (p j)).2.1)
      (fun i j acc acc' => (additive_ED_MomentumEquationPressureGradient o k self_pb acc acc' (p i) (p j)).2.2)
      (fun i j acc acc' => (pair_antisym_ED_MomentumEquationPressureGradient o k hk self_pb acc acc' (p i) (p j) (hp_all i j) (hm i) (hm j)).2.1)
      (fun i j acc acc' => (pair_antisym_ED_MomentumEquationPressureGradient o k hk self_pb acc acc' (p i) (p j) (hp_all i j) (hm i) (hm j)).2.2)
      (fun i j acc => (central_ED_MomentumEquationPressureGradient o k hk self_pb acc (p i) (p j)).2.1)
  · exact angular_momentum_of_pair (fun i => (p i).m) (fun i => (p i).z) (fun i => (p i).x) nbrs hnd hsymm
      (fun i acc j => pair_ED_MomentumEquationPressureGradient o k self_pb acc (p i) (p j)) (fun s => s.d_aw) (fun s => s.d_au) init
      (fun i => (hinit i).2.2) (fun i => (hinit i).1)
      (fun i j acc acc' => (additive_ED_MomentumEquationPressureGradient o k self_pb acc acc' (p i) (p j)).2.2)
      (fun i j acc acc' => (additive_ED_MomentumEquationPressureGradient o k self_pb acc acc' (p i) (p j)).1)
      (fun i j acc acc' => (pair_antisym_ED_MomentumEquationPressureGradient o k hk self_pb acc acc' (p i) (p j) (hp_all i j) (hm i) (hm j)).2.2)
      (fun i j acc acc' => (pair_antisym_ED_MomentumEquationPressureGradient o k hk self_pb acc acc' (p i) (p j) (hp_all i j) (hm i) (hm j)).1)
      (fun i j acc => (central_ED_MomentumEquationPressureGradient o k hk self_pb acc (p i) (p j)).2.2)

end ED_MomentumEquationPressureGradient

/-! ## `pysph/sph/wc/viscosity.py.LaminarViscosity` (VI_LaminarViscosity) -/
section VI_LaminarViscosity
variable (o : Ops K) (k : Kern K) {w g : K → K → K} (hk : Radial k w g) (self_eta : K) (self_nu : K)

/-- the contribution of a pair to the accumulated acceleration does not depend on the accumulator -/
theorem additive_VI_LaminarViscosity (acc acc' : Out_VI_LaminarViscosity K) (a b : P K) :
    ((pair_VI_LaminarViscosity o k self_eta self_nu acc a b).d_au - acc.d_au) = ((pair_VI_LaminarViscosity o k self_eta self_nu acc' a b).d_au - acc'.d_au) ∧
    ((pair_VI_LaminarViscosity o k self_eta self_nu acc a b).d_av - acc.d_av) = ((pair_VI_LaminarViscosity o k self_eta self_nu acc' a b).d_av - acc'.d_av) ∧
    ((pair_VI_LaminarViscosity o k self_eta self_nu acc a b).d_aw - acc.d_aw) = ((pair_VI_LaminarViscosity o k self_eta self_nu acc' a b).d_aw - acc'.d_aw) := by
  refine ⟨?_, ?_, ?_⟩ <;>
  · simp only [pair_VI_LaminarViscosity]
    c09_atoms o k a b
    simp only [loop_VI_LaminarViscosity]
    c09_norm
    c09_close

include hk in
/-- `m_a · contrib(a, b) = −(m_b · contrib(b, a))`, component by component -/
theorem pair_antisym_VI_LaminarViscosity (acc acc' : Out_VI_LaminarViscosity K) (a b : P K) :
    a.m * ((pair_VI_LaminarViscosity o k self_eta self_nu acc a b).d_au - acc.d_au) = -(b.m * ((pair_VI_LaminarViscosity o k self_eta self_nu acc' b a).d_au - acc'.d_au)) ∧
    a.m * ((pair_VI_LaminarViscosity o k self_eta self_nu acc a b).d_av - acc.d_av) = -(b.m * ((pair_VI_LaminarViscosity o k self_eta self_nu acc' b a).d_av - acc'.d_av)) ∧
    a.m * ((pair_VI_LaminarViscosity o k self_eta self_nu acc a b).d_aw - acc.d_aw) = -(b.m * ((pair_VI_LaminarViscosity o k self_eta self_nu acc' b a).d_aw - acc'.d_aw)) := by
  refine ⟨?_, ?_, ?_⟩ <;>
  · simp only [pair_VI_LaminarViscosity]
    c09_swap o k a b hk
    c09_atoms o k a b
    simp only [loop_VI_LaminarViscosity]
    c09_norm
    c09_close

include hk in
/-- closed system: evaluating the equation for every particle over a symmetric neighbour relation
gives `Σ m a = 0` -/
theorem linear_momentum_VI_LaminarViscosity {ι : Type} [Fintype ι] [DecidableEq ι] (p : ι → P K)
    (nbrs : ι → List ι) (hnd : ∀ i, (nbrs i).Nodup) (hsymm : ∀ i j, j ∈ nbrs i → i ∈ nbrs j)
    (init : ι → Out_VI_LaminarViscosity K) (hinit : ∀ i, (init i).d_au = 0 ∧ (init i).d_av = 0 ∧ (init i).d_aw = 0) :
    ∑ i, (p i).m * ((nbrs i).foldl (fun acc j => pair_VI_LaminarViscosity o k self_eta self_nu acc (p i) (p j)) (init i)).d_au = 0 ∧
    ∑ i, (p i).m * ((nbrs i).foldl (fun acc j => pair_VI_LaminarViscosity o k self_eta self_nu acc (p i) (p j)) (init i)).d_av = 0 ∧
    ∑ i, (p i).m * ((nbrs i).foldl (fun acc j => pair_VI_LaminarViscosity o k self_eta self_nu acc (p i) (p j)) (init i)).d_aw = 0 := by
  refine ⟨?_, ?_, ?_⟩
  · exact linear_momentum_of_pair (fun i => (p i).m) nbrs hnd hsymm (fun i acc j => pair_VI_LaminarViscosity o k self_eta self_nu acc (p i) (p j))
      (fun s => s.d_au) init (fun i => (hinit i).1)
      (fun i j acc acc' => (additive_VI_LaminarViscosity o k self_eta self_nu acc acc' (p i) (p j)).1)
      (fun i j acc acc' => (pair_antisym_VI_LaminarViscosity o k hk self_eta self_nu acc acc' (p i) (p j)).1)
  · exact linear_momentum_of_pair (fun i => (p i).m) nbrs hnd hsymm (fun i acc j => pair_VI_LaminarViscosity o k self_eta self_nu acc (p i) (p j))
      (fun s => s.d_av) init (fun i => (hinit i).2.1)
      (fun i j acc acc' => (additive_VI_LaminarViscosity o k self_eta self_nu acc acc' (p i) (p j)).2.1)
      (fun i j acc acc' => (pair_antisym_VI_LaminarViscosity o k hk self_eta self_nu acc acc' (p i) (p j)).2.1)
  · exact linear_momentum_of_pair (fun i => (p i).m) nbrs hnd hsymm (fun i acc j => pair_VI_LaminarViscosity o k self_eta self_nu acc (p i) (p j))
      (fun s => s.d_aw) init (fun i => (hinit i).2.2)
      (fun i j acc acc' => (additive_VI_LaminarViscosity o k self_eta self_nu acc acc' (p i) (p j)).2.2)
      (fun i j acc acc' => (pair_antisym_VI_LaminarViscosity o k hk self_eta self_nu acc acc' (p i) (p j)).2.2)

end VI_LaminarViscosity

/-! ## `pysph/sph/wc/viscosity.py.MonaghanSignalViscosityFluids` (VI_MonaghanSignalViscosityFluids) -/
section VI_MonaghanSignalViscosityFluids
variable (o : Ops K) (k : Kern K) {w g : K → K → K} (hk : Radial k w g) (self_alpha : K)

/-- the contribution of a pair to the accumulated acceleration does not depend on the accumulator -/
theorem additive_VI_MonaghanSignalViscosityFluids (acc acc' : Out_VI_MonaghanSignalViscosityFluids K) (a b : P K) :
    ((pair_VI_MonaghanSignalViscosityFluids o k self_alpha acc a b).d_au - acc.d_au) = ((pair_VI_MonaghanSignalViscosityFluids o k self_alpha acc' a b).d_au - acc'.d_au) ∧
    ((pair_VI_MonaghanSignalViscosityFluids o k self_alpha acc a b).d_av - acc.d_av) = ((pair_VI_MonaghanSignalViscosityFluids o k self_alpha acc' a b).d_av - acc'.d_av) ∧
    ((pair_VI_MonaghanSignalViscosityFluids o k self_alpha acc a b).d_aw - acc.d_aw) = ((pair_VI_MonaghanSignalViscosityFluids o k self_alpha acc' a b).d_aw - acc'.d_aw) := by
  refine ⟨?_, ?_, ?_⟩ <;>
  · simp only [pair_VI_MonaghanSignalViscosityFluids]
    c09_atoms o k a b
    simp only [loop_VI_MonaghanSignalViscosityFluids]
    c09_norm
    c09_close

include hk in
/-- `m_a · contrib(a, b) = −(m_b · contrib(b, a))`, component by component -/
theorem pair_antisym_VI_MonaghanSignalViscosityFluids (acc acc' : Out_VI_MonaghanSignalViscosityFluids K) (a b : P K) :
    a.m * ((pair_VI_MonaghanSignalViscosityFluids o k self_alpha acc a b).d_au - acc.d_au) = -(b.m * ((pair_VI_MonaghanSignalViscosityFluids o k self_alpha acc' b a).d_au - acc'.d_au)) ∧
    a.m * ((pair_VI_MonaghanSignalViscosityFluids o k self_alpha acc a b).d_av - acc.d_av) = -(b.m * ((pair_VI_MonaghanSignalViscosityFluids o k self_alpha acc' b a).d_av - acc'.d_av)) ∧
    a.m * ((pair_VI_MonaghanSignalViscosityFluids o k self_alpha acc a b).d_aw - acc.d_aw) = -(b.m * ((pair_VI_MonaghanSignalViscosityFluids o k self_alpha acc' b a).d_aw - acc'.d_aw)) := by
  refine ⟨?_, ?_, ?_⟩ <;>
  · simp only [pair_VI_MonaghanSignalViscosityFluids]
    c09_swap o k a b hk
    c09_atoms o k a b
    simp only [loop_VI_MonaghanSignalViscosityFluids]
    c09_norm
    c09_close

include hk in
/-- the pair contribution is parallel to the separation `x_a − x_b` (cross product zero) -/
theorem central_VI_MonaghanSignalViscosityFluids (acc : Out_VI_MonaghanSignalViscosityFluids K) (a b : P K) :
    (a.x - b.x) * ((pair_VI_MonaghanSignalViscosityFluids o k self_alpha acc a b).d_av - acc.d_av) = (a.y - b.y) * ((pair_VI_MonaghanSignalViscosityFluids o k self_alpha acc a b).d_au - acc.d_au) ∧
    (a.y - b.y) * ((pair_VI_MonaghanSignalViscosityFluids o k self_alpha acc a b).d_aw - acc.d_aw) = (a.z - b.z) * ((pair_VI_MonaghanSignalViscosityFluids o k self_alpha acc a b).d_av - acc.d_av) ∧
    (a.z - b.z) * ((pair_VI_MonaghanSignalViscosityFluids o k self_alpha acc a b).d_au - acc.d_au) = (a.x - b.x) * ((pair_VI_MonaghanSignalViscosityFluids o k self_alpha acc a b).d_aw - acc.d_aw) := by
  refine ⟨?_, ?_, ?_⟩ <;>
  · simp only [pair_VI_MonaghanSignalViscosityFluids]
    c09_shape o k a b hk
    c09_atoms o k a b
    simp only [loop_VI_MonaghanSignalViscosityFluids]
    c09_norm
    c09_close

include hk in
/-- closed system: evaluating the equation for every particle over a symmetric neighbour relation
gives `Σ m a = 0` -/
theorem linear_momentum_VI_MonaghanSignalViscosityFluids {ι : Type} [Fintype ι] [DecidableEq ι] (p : ι → P K)
    (nbrs : ι → List ι) (hnd : ∀ i, (nbrs i).Nodup) (hsymm : ∀ i j, j ∈ nbrs i → i ∈ nbrs j)
    (init : ι → Out_VI_MonaghanSignalViscosityFluids K) (hinit : ∀ i, (init i).d_au = 0 ∧ (init i).d_av = 0 ∧ (init i).d_aw = 0) :
    ∑ i, (p i).m * ((nbrs i).foldl (fun acc j => pair_VI_MonaghanSignalViscosityFluids o k self_alpha acc (p i) (p j)) (init i)).d_au = 0 ∧
    ∑ i, (p i).m * ((nbrs i).foldl (fun acc j => pair_VI_MonaghanSignalViscosityFluids o k self_alpha acc (p i) (p j)) (init i)).d_av = 0 ∧
    ∑ i, (p i).m * ((nbrs i).foldl (fun acc j => pair_VI_MonaghanSignalViscosityFluids o k self_alpha acc (p i) (p j)) (init i)).d_aw = 0 := by
  refine ⟨?_, ?_, ?_⟩
  · exact linear_momentum_of_pair (fun i => (p i).m) nbrs hnd hsymm (fun i acc j => pair_VI_MonaghanSignalViscosityFluids o k self_alpha acc (p i) (p j))
      (fun s => s.d_au) init (fun i => (hinit i).1)
      (fun i j acc acc' => (additive_VI_MonaghanSignalViscosityFluids o k self_alpha acc acc' (p i) (p j)).1)
      (fun i j acc acc' => (pair_antisym_VI_MonaghanSignalViscosityFluids o k hk self_alpha acc acc' (p i) (p j)).1)
  · exact linear_momentum_of_pair (fun i => (p i).m) nbrs hnd hsymm (fun i acc j => pair_VI_MonaghanSignalViscosityFluids o k self_alpha acc (p i) (p j))
      (fun s => s.d_av) init (fun i => (hinit i).2.1)
      (fun i j acc acc' => (additive_VI_MonaghanSignalViscosityFluids o k self_alpha acc acc' (p i) (p j)).2.1)
      (fun i j acc acc' => (pair_antisym_VI_MonaghanSignalViscosityFluids o k hk self_alpha acc acc' (p i) (p j)).2.1)
  · exact linear_momentum_of_pair (fun i => (p i).m) nbrs hnd hsymm (fun i acc j => pair_VI_MonaghanSignalViscosityFluids o k self_alpha acc (p i) (p j))
      (fun s => s.d_aw) init (fun i => (hinit i).2.2)
      (fun i j acc acc' => (additive_VI_MonaghanSignalViscosityFluids o k self_alpha acc acc' (p i) (p j)).2.2)
      (fun i j acc acc' => (pair_antisym_VI_MonaghanSignalViscosityFluids o k hk self_alpha acc acc' (p i) (p j)).2.2)

include hk in
/-- closed system: `Σ m x × a = 0` (three components) -/
theorem angular_momentum_VI_MonaghanSignalViscosityFluids {ι : Type} [Fintype ι] [DecidableEq ι] (p : ι → P K)
    (nbrs : ι → List ι) (hnd : ∀ i, (nbrs i).Nodup) (hsymm : ∀ i j, j ∈ nbrs i → i ∈ nbrs j)
    (init : ι → Out_VI_MonaghanSignalViscosityFluids K) (hinit : ∀ i, (init i).d_au = 0 ∧ (init i).d_av = 0 ∧ (init i).d_aw = 0) :
    (∑ i, (p i).m * ((p i).x * ((nbrs i).foldl (fun acc j => pair_VI_MonaghanSignalViscosityFluids o k self_alpha acc (p i) (p j)) (init i)).d_av - (p i).y * ((nbrs i).foldl (fun acc j => pair_VI_MonaghanSignalViscosityFluids o k self_alpha acc (p i) (p j)) (init i)).d_au) = 0) ∧
    (∑ i, (p i).m * ((p i).y * ((nbrs i).foldl (fun acc j => pair_VI_MonaghanSignalViscosityFluids o k self_alpha acc (p i) (p j)) (init i)).d_aw - (p i).z * ((nbrs i).foldl (fun acc j => pair_VI_MonaghanSignalViscosityFluids o k self_alpha acc (p i) (p j)) (init i)).d_av) = 0) ∧
    (∑ i, (p i).m * ((p i).z * ((nbrs i).foldl (fun acc j => pair_VI_MonaghanSignalViscosityFluids o k self_alpha acc (p i) (p j)) (init i)).d_au - (p i).x * ((nbrs i).foldl (fun acc j => pair_VI_MonaghanSignalViscosityFluids o k self_alpha acc (p i) (p j)) (init i)).d_aw) = 0) := by
  refine ⟨?_, ?_, ?_⟩
  · exact angular_momentum_of_pair (fun i => (p i).m) (fun i => (p i).x) (fun i => (p i).y) nbrs hnd hsymm
      (fun i acc j => pair_VI_MonaghanSignalViscosityFluids o k self_alpha acc (p i) (p j)) (fun s => s.d_au) (fun s => s.d_av) init
      (fun i => (hinit i).1) (fun i => (hinit i).2.1)
      (fun i j acc acc' => (additive_VI_MonaghanSignalViscosityFluids o k self_alpha acc acc' (p i) (p j)).1)
      (fun i j acc acc' => (additive_VI_MonaghanSignalViscosityFluids o k self_alpha acc acc' (p i) (p j)).2.1)
      (fun i j acc acc' => (pair_antisym_VI_MonaghanSignalViscosityFluids o k hk self_alpha acc acc' (p i) (p j)).1)
      (fun i j acc acc' => (pair_antisym_VI_MonaghanSignalViscosityFluids o k hk self_alpha acc acc' (p i) (p j)).2.1)
      (fun i j acc => (central_VI_MonaghanSignalViscosityFluids o k hk self_alpha acc (p i) (p j)).1)
  · exact angular_momentum_of_pair (fun i => (p i).m) (fun i => (p i).y) (fun i => (p i).z) nbrs hnd hsymm
      (fun i acc j => pair_VI_MonaghanSignalViscosityFluids o k self_alpha acc (p i) (p j)) (fun s => s.d_av) (fun s => s.d_aw) init
      (fun i => (hinit i).2.1) (fun i => (hinit i).2.2)
      (fun i j acc acc' => (additive_VI_MonaghanSignalViscosityFluids o k self_alpha acc acc' (p i) (p j)).2.1)
      (fun i j acc acc' => (additive_VI_MonaghanSignalViscosityFluids o k self_alpha acc acc' (p i) (p j)).2.2)
      (fun i j acc acc' => (pair_antisym_VI_MonaghanSignalViscosityFluids o k hk self_alpha acc acc' (p i) (p j)).2.1)
      (fun i j acc acc' => (pair_antisym_VI_MonaghanSignalViscosityFluids o k hk self_alpha acc acc' (p i) (p j)).2.2)
      (fun i j acc => (central_VI_MonaghanSignalViscosityFluids o k hk self_alpha acc (p i) (p j)).2.1)
  · exact angular_momentum_of_pair (fun i => (p i).m) (fun i => (p i).z) (fun i => (p i).x) nbrs hnd hsymm
      (fun i acc j => pair_VI_MonaghanSignalViscosityFluids o k self_alpha acc (p i) (p j)) (fun s => s.d_aw) (fun s => s.d_au) init
      (fun i => (hinit i).2.2) (fun i => (hinit i).1)
      (fun i j acc acc' => (additive_VI_MonaghanSignalViscosityFluids o k self_alpha acc acc' (p i) (p j)).2.2)
      (fun i j acc acc' => (additive_VI_MonaghanSignalViscosityFluids o k self_alpha acc acc' (p i) (p j)).1)
      (fun i j acc acc' => (pair_antisym_VI_MonaghanSignalViscosityFluids o k hk self_alpha acc acc' (p i) (p j)).2.2)
      (fun i j acc acc' => (pair_antisym_VI_MonaghanSignalViscosityFluids o k hk self_alpha acc acc' (p i) (p j)).1)
      (fun i j acc => (central_VI_MonaghanSignalViscosityFluids o k hk self_alpha acc (p i) (p j)).2.2)

end VI_MonaghanSignalViscosityFluids

/-! ## `pysph/sph/wc/viscosity.py.ClearyArtificialViscosity` (VI_ClearyArtificialViscosity) -/
section VI_ClearyArtificialViscosity
variable (o : Ops K) (k : Kern K) {w g : K → K → K} (hk : Radial k w g) (self_alpha : K) (self_factor : K)

/-- the contribution of a pair to the accumulated acceleration does not depend on the accumulator -/
theorem additive_VI_ClearyArtificialViscosity (acc acc' : Out_VI_ClearyArtificialViscosity K) (a b : P K) :
    ((pair_VI_ClearyArtificialViscosity o k self_alpha self_factor acc a b).d_au - acc.d_au) = ((pair_VI_ClearyArtificialViscosity o k self_alpha self_factor acc' a b).d_au - acc'.d_au) ∧
    ((pair_VI_ClearyArtificialViscosity o k self_alpha self_factor acc a b).d_av - acc.d_av) = ((pair_VI_ClearyArtificialViscosity o k self_alpha self_factor acc' a b).d_av - acc'.d_av) ∧
    ((pair_VI_ClearyArtificialViscosity o k self_alpha self_factor acc a b).d_aw - acc.d_aw) = ((pair_VI_ClearyArtificialViscosity o k self_alpha self_factor acc' a b).d_aw - acc'.d_aw) := by
  refine ⟨?_, ?_, ?_⟩ <;>
  · simp only [pair_VI_ClearyArtificialViscosity]
    c09_atoms o k a b
    simp only [loop_VI_ClearyArtificialViscosity]
    c09_norm
    c09_close

include hk in
/-- `m_a · contrib(a, b) = −(m_b · contrib(b, a))`, component by component (the body divides by the destination mass: masses non-zero) -/
theorem pair_antisym_VI_ClearyArtificialViscosity (acc acc' : Out_VI_ClearyArtificialViscosity K) (a b : P K) (ha : a.m ≠ 0) (hb : b.m ≠ 0) :
    a.m * ((pair_VI_ClearyArtificialViscosity o k self_alpha self_factor acc a b).d_au - acc.d_au) = -(b.m * ((pair_VI_ClearyArtificialViscosity o k self_alpha self_factor acc' b a).d_au - acc'.d_au)) ∧
    a.m * ((pair_VI_ClearyArtificialViscosity o k self_alpha self_factor acc a b).d_av - acc.d_av) = -(b.m * ((pair_VI_ClearyArtificialViscosity o k self_alpha self_factor acc' b a).d_av - acc'.d_av)) ∧
    a.m * ((pair_VI_ClearyArtificialViscosity o k self_alpha self_factor acc a b).d_aw - acc.d_aw) = -(b.m * ((pair_VI_ClearyArtificialViscosity o k self_alpha self_factor acc' b a).d_aw - acc'.d_aw)) := by
  refine ⟨?_, ?_, ?_⟩ <;>
  · simp only [pair_VI_ClearyArtificialViscosity]
    c09_swap o k a b hk
    c09_atoms o k a b
    simp only [loop_VI_ClearyArtificialViscosity]
    c09_norm
    c09_closeF

include hk in
/-- the pair contribution is parallel to the separation `x_a − x_b` (cross product zero) -/
theorem central_VI_ClearyArtificialViscosity (acc : Out_VI_ClearyArtificialViscosity K) (a b : P K) :
    (a.x - b.x) * ((pair_VI_ClearyArtificialViscosity o k self_alpha self_factor acc a b).d_av - acc.d_av) = (a.y - b.y) * ((pair_VI_ClearyArtificialViscosity o k self_alpha self_factor acc a b).d_au - acc.d_au) ∧
    (a.y - b.y) * ((pair_VI_ClearyArtificialViscosity o k self_alpha self_factor acc a b).d_aw - acc.d_aw) = (a.z - b.z) * ((pair_VI_ClearyArtificialViscosity o k self_alpha self_factor acc a b).d_av - acc.d_av) ∧
    (a.z - b.z) * ((pair_VI_ClearyArtificialViscosity o k self_alpha self_factor acc a b).d_au - acc.d_au) = (a.x - b.x) * ((pair_VI_ClearyArtificialViscosity o k self_alpha self_factor acc a b).d_aw - acc.d_aw) := by
  refine ⟨?_, ?_, ?_⟩ <;>
  · simp only [pair_VI_ClearyArtificialViscosity]
    c09_shape o k a b hk
    c09_atoms o k a b
    simp only [loop_VI_ClearyArtificialViscosity]
    c09_norm
    c09_close

include hk in
/-- closed system: evaluating the equation for every particle over a symmetric neighbour relation
gives `Σ m a = 0` -/
theorem linear_momentum_VI_ClearyArtificialViscosity {ι : Type} [Fintype ι] [DecidableEq ι] (p : ι → P K)
    (nbrs : ι → List ι) (hnd : ∀ i, (nbrs i).Nodup) (hsymm : ∀ i j, j ∈ nbrs i → i ∈ nbrs j)
    (init : ι → Out_VI_ClearyArtificialViscosity K) (hinit : ∀ i, (init i).d_au = 0 ∧ (init i).d_av = 0 ∧ (init i).d_aw = 0) (hm : ∀ i, (p i).m ≠ 0) :
    ∑ i, (p i).m * ((nbrs i).foldl (fun acc j => pair_VI_ClearyArtificialViscosity o k self_alpha self_factor acc (p i) (p j)) (init i)).d_au = 0 ∧
    ∑ i, (p i).m * ((nbrs i).foldl (fun acc j => pair_VI_ClearyArtificialViscosity o k self_alpha self_factor acc (p i) (p j)) (init i)).d_av = 0 ∧
    ∑ i, (p i).m * ((nbrs i).foldl (fun acc j => pair_VI_ClearyArtificialViscosity o k self_alpha self_factor acc (p i) (p j)) (init i)).d_aw = 0 := by
  refine ⟨?_, ?_, ?_⟩
  · exact linear_momentum_of_pair (fun i => (p i).m) nbrs hnd hsymm (fun i acc j => pair_VI_ClearyArtificialViscosity o k self_alpha self_factor acc (p i) (p j))
      (fun s => s.d_au) init (fun i => (hinit i).1)
      (fun i j acc acc' => (additive_VI_ClearyArtificialViscosity o k self_alpha self_factor acc acc' (p i) (p j)).1)
      (fun i j acc acc' => (pair_antisym_VI_ClearyArtificialViscosity o k hk self_alpha self_factor acc acc' (p i) (p j) (hm i) (hm j)).1)
  · exact linear_momentum_of_pair (fun i => (p i).m) nbrs hnd hsymm (fun i acc j => pair_VI_ClearyArtificialViscosity o k self_alpha self_factor acc (p i) (p j))
      (fun s => s.d_av) init (fun i => (hinit i).2.1)
      (fun i j acc acc' => (additive_VI_ClearyArtificialViscosity o k self_alpha self_factor acc acc' (p i) (p j)).2.1)
      (fun i j acc acc' => (pair_antisym_VI_ClearyArtificialViscosity o k hk self_alpha self_factor acc acc' (p i) (p j) (hm i) (hm j)).2.1)
  · exact linear_momentum_of_pair (fun i => (p i).m) nbrs hnd hsymm (fun i acc j => pair_VI_ClearyArtificialViscosity o k self_alpha self_factor acc (p i) (p j))
      (fun s => s.d_aw) init (fun i => (hinit i).2.2)
      (fun i j acc acc' => (additive_VI_ClearyArtificialViscosity o k self_alpha self_factor acc acc' (p i) (p j)).2.2)
      (fun i j acc acc' => (pair_antisym_VI_ClearyArtificialViscosity o k hk self_alpha self_factor acc acc' (p i) (p j) (hm i) (hm j)).2.2)

include hk in
/-- closed system: `Σ m x × a = 0` (three components) -/
theorem angular_momentum_VI_ClearyArtificialViscosity {ι : Type} [Fintype ι] [DecidableEq ι] (p : ι → P K)
    (nbrs : ι → List ι) (hnd : ∀ i, (nbrs i).Nodup) (hsymm : ∀ i j, j ∈ nbrs i → i ∈ nbrs j)
    (init : ι → Out_VI_ClearyArtificialViscosity K) (hinit : ∀ i, (init i).d_au = 0 ∧ (init i).d_av = 0 ∧ (init i).d_aw = 0) (hm : ∀ i, (p i).m ≠ 0) :
    (∑ i, (p i).m * ((p i).x * ((nbrs i).foldl (fun acc j => pair_VI_ClearyArtificialViscosity o k self_alpha self_factor acc (p i) (p j)) (init i)).d_av - (p i).y * ((nbrs i).foldl (fun acc j => pair_VI_ClearyArtificialViscosity o k self_alpha self_factor acc (p i) (p j)) (init i)).d_au) = 0) ∧
    (∑ i, (p i).m * ((p i).y * ((nbrs i).foldl (fun acc j => pair_VI_ClearyArtificialViscosity o k self_alpha self_factor acc (p i) (p j)) (init i)).d_aw - (p i).z * ((nbrs i).foldl (fun acc j => pair_VI_ClearyArtificialViscosity o k self_alpha self_factor acc (p i) (p j)) (init i)).d_av) = 0) ∧
    (∑ i, (p i).m * ((p i).z * ((nbrs i).foldl (fun acc j => pair_VI_ClearyArtificialViscosity o k self_alpha self_factor acc (p i) (p j)) (init i)).d_au - (p i).x * ((nbrs i).foldl (fun acc j => pair_VI_ClearyArtificialViscosity o k self_alpha self_factor acc (p i) (p j)) (init i)).d_aw) = 0) := by
  refine ⟨?_, ?_, ?_⟩
  · exact angular_momentum_of_pair (fun i => (p i).m) (fun i => (p i).x) (fun i => (p i).y) nbrs hnd hsymm
      (fun i acc j => pair_VI_ClearyArtificialViscosity o k self_alpha self_factor acc (p i) (p j)) (fun s => s.d_au) (fun s => s.d_av) init
      (fun i => (hinit i).1) (fun i => (hinit i).2.1)
      (fun i j acc acc' => (additive_VI_ClearyArtificialViscosity o k self_alpha self_factor acc acc' (p i) (p j)).1)
      (fun i j acc acc' => (additive_VI_ClearyArtificialViscosity o k self_alpha self_factor acc acc' (p i) (p j)).2.1)
      (fun i j acc acc' => (pair_antisym_VI_ClearyArtificialViscosity o k hk self_alpha self_factor acc acc' (p i) (p j) (hm i) (hm j)).1)
      (fun i j acc acc' => (pair_antisym_VI_ClearyArtificialViscosity o k hk self_alpha self_factor acc acc' (p i) (p j) (hm i) (hm j)).2.1)
      (fun i j acc => (central_VI_ClearyArtificialViscosity o k hk self_alpha self_factor acc (p i) (p j)).1)
  · exact angular_momentum_of_pair (fun i => (p i).m) (fun i => (p i).y) (fun i => (p i).z) nbrs hnd hsymm
      (fun i acc j => pair_VI_ClearyArtificialViscosity o k self_alpha self_factor acc (p i) (p j)) (fun s => s.d_av) (fun s => s.d_aw) init
      (fun i => (hinit i).2.1) (fun i => (hinit i).2.2)
      (fun i j acc acc' => (additive_VI_ClearyArtificialViscosity o k self_alpha self_factor acc acc' (p i) (p j)).2.1)
      (fun i j acc acc' => (additive_VI_ClearyArtificialViscosity o k self_alpha self_factor acc acc' (p i) (p j)).2.2)
      (fun i j acc acc' => (pair_antisym_VI_ClearyArtificialViscosity o k hk self_alpha self_factor acc acc' (p i) (p j) (hm i) (hm j)).2.1)
      (fun i j acc acc' => (pair_antisym_VI_ClearyArtificialViscosity o k hk self_alpha self_factor acc acc' (p i) (p j) (hm i) (hm j)).2.2)
      (fun i j acc => (central_VI_ClearyArtificialViscosity o k hk self_alpha self_factor acc (p i) (p j)).2.1)
  · exact angular_momentum_of_pair (fun i => (p i).m) (fun i => (p i).z) (fun i => (p i).x) nbrs hnd hsymm
      (fun i acc j => pair_VI_ClearyArtificialViscosity o k self_alpha self_factor acc (p i) (p j)) (fun s => s.d_aw) (fun s => s.d_au) init
      (fun i => (hinit i).2.2) (fun i => (hinit i).1)
      (fun i j acc acc' => (additive_VI_ClearyArtificialViscosity o k self_alpha self_factor acc acc' (p i) (p j)).2.2)
      (fun i j acc acc' => (additive_VI_ClearyArtificialViscosity o k self_alpha self_factor acc acc' (p i) (p j)).1)
      (fun i j acc acc' => (pair_antisym_VI_ClearyArtificialViscosity o k hk self_alpha self_factor acc acc' (p i) (p j) (hm i) (hm j)).2.2)
      (fun i j acc acc' => (pair_antisym_VI_ClearyArtificialViscosity o k hk self_alpha self_factor acc acc' (p i) (p j) (hm i) (hm j)).1)
      (fun i j acc => (central_VI_ClearyArtificialViscosity o k hk self_alpha self_factor acc (p i) (p j)).2.2)

end VI_ClearyArtificialViscosity

/-! ## `pysph/sph/wc/viscosity.py.LaminarViscosityDeltaSPH` (VI_LaminarViscosityDeltaSPH) -/
section VI_LaminarViscosityDeltaSPH
variable (o : Ops K) (k : Kern K) {w g : K → K → K} (hk : Radial k w g) (self_dim : K) (self_nu : K) (self_rho0 : K)

/-- the contribution of a pair to the accumulated acceleration does not depend on the accumulator -/
theorem additive_VI_LaminarViscosityDeltaSPH (acc acc' : Out_VI_LaminarViscosityDeltaSPH K) (a b : P K) :
    ((pair_VI_LaminarViscosityDeltaSPH o k self_dim self_nu self_rho0 acc a b).d_au - acc.d_au) = ((pair_VI_LaminarViscosityDeltaSPH o k self_dim self_nu self_rho0 acc' a b).d_au - acc'.d_au) ∧
    ((pair_VI_LaminarViscosityDeltaSPH o k self_dim self_nu self_rho0 acc a b).d_av - acc.d_av) = ((pair_VI_LaminarViscosityDeltaSPH o k self_dim self_nu self_rho0 acc' a b).d_av - acc'.d_av) ∧
    ((pair_VI_LaminarViscosityDeltaSPH o k self_dim self_nu self_rho0 acc a b).d_aw - acc.d_aw) = ((pair_VI_LaminarViscosityDeltaSPH o k self_dim self_nu self_rho0 acc' a b).d_aw - acc'.d_aw) := by
  refine ⟨?_, ?_, ?_⟩ <;>
  · simp only [pair_VI_LaminarViscosityDeltaSPH]
    c09_atoms o k a b
    simp only [loop_VI_LaminarViscosityDeltaSPH]
    c09_norm
    c09_close

include hk in
/-- `m_a · contrib(a, b) = −(m_b · contrib(b, a))`, component by component -/
theorem pair_antisym_VI_LaminarViscosityDeltaSPH (acc acc' : Out_VI_LaminarViscosityDeltaSPH K) (a b : P K) :
    a.m * ((pair_VI_LaminarViscosityDeltaSPH o k self_dim self_nu self_rho0 acc a b).d_au - acc.d_au) = -(b.m * ((pair_VI_LaminarViscosityDeltaSPH o k self_dim self_nu self_rho0 acc' b a).d_au - acc'.d_au)) ∧
    a.m * ((pair_VI_LaminarViscosityDeltaSPH o k self_dim self_nu self_rho0 acc a b).d_av - acc.d_av) = -(b.m * ((pair_VI_LaminarViscosityDeltaSPH o k self_dim self_nu self_rho0 acc' b a).d_av - acc'.d_av)) ∧
    a.m * ((pair_VI_LaminarViscosityDeltaSPH o k self_dim self_nu self_rho0 acc a b).d_aw - acc.d_aw) = -(b.m * ((pair_VI_LaminarViscosityDeltaSPH o k self_dim self_nu self_rho0 acc' b a).d_aw - acc'.d_aw)) := by
  refine ⟨?_, ?_, ?_⟩ <;>
  · simp only [pair_VI_LaminarViscosityDeltaSPH]
    c09_swap o k a b hk
    c09_atoms o k a b
    simp only [loop_VI_LaminarViscosityDeltaSPH]
    c09_norm
    c09_close

include hk in
/-- the pair contribution is parallel to the separation `x_a − x_b` (cross product zero) -/
theorem central_VI_LaminarViscosityDeltaSPH (acc : Out_VI_LaminarViscosityDeltaSPH K) (a b : P K) :
    (a.x - b.x) * ((pair_VI_LaminarViscosityDeltaSPH o k self_dim self_nu self_rho0 acc a b).d_av - acc.d_av) = (a.y - b.y) * ((pair_VI_LaminarViscosityDeltaSPH o k self_dim self_nu self_rho0 acc a b).d_au - acc.d_au) ∧
    (a.y - b.y) * ((pair_VI_LaminarViscosityDeltaSPH o k self_dim self_nu self_rho0 acc a b).d_aw - acc.d_aw) = (a.z - b.z) * ((pair_VI_LaminarViscosityDeltaSPH o k self_dim self_nu self_rho0 acc a b).d_av - acc.d_av) ∧
    (a.z - b.z) * ((pair_VI_LaminarViscosityDeltaSPH o k self_dim self_nu self_rho0 acc a b).d_au - acc.d_au) = (a.x - b.x) * ((pair_VI_LaminarViscosityDeltaSPH o k self_dim self_nu self_rho0 acc a b).d_aw - acc.d_aw) := by
  refine ⟨?_, ?_, ?_⟩ <;>
  · simp only [pair_VI_LaminarViscosityDeltaSPH]
    c09_shape o k a b hk
    c09_atoms o k a b
    simp only [loop_VI_LaminarViscosityDeltaSPH]
    c09_norm
    c09_close

include hk in
/-- closed system: evaluating the equation for every particle over a symmetric neighbour relation
gives `Σ m a = 0` -/
theorem linear_momentum_VI_LaminarViscosityDeltaSPH {ι : Type} [Fintype ι] [DecidableEq ι] (p : ι → P K)
    (nbrs : ι → List ι) (hnd : ∀ i, (nbrs i).Nodup) (hsymm : ∀ i j, j ∈ nbrs i → i ∈ nbrs j)
    (init : ι → Out_VI_LaminarViscosityDeltaSPH K) (hinit : ∀ i, (init i).d_au = 0 ∧ (init i).d_av = 0 ∧ (init i).d_aw = 0) :
    ∑ i, (p i).m * ((nbrs i).foldl (fun acc j => pair_VI_LaminarViscosityDeltaSPH o k self_dim self_nu self_rho0 acc (p i) (p j)) (init i)).d_au = 0 ∧
    ∑ i, (p i).m * ((nbrs i).foldl (fun acc j => pair_VI_LaminarViscosityDeltaSPH o k self_dim self_nu self_rho0 acc (p i) (p j)) (init i)).d_av = 0 ∧
    ∑ i, (p i).m * ((nbrs i).foldl (fun acc j => pair_VI_LaminarViscosityDeltaSPH o k self_dim self_nu self_rho0 acc (p i) (p j)) (init i)).d_aw = 0 := by
  refine ⟨?_, ?_, ?_⟩
  · exact linear_momentum_of_pair (fun i => (p i).m) nbrs hnd hsymm (fun i acc j => pair_VI_LaminarViscosityDeltaSPH o k self_dim self_nu self_rho0 acc (p i) (p j))
      (fun s => s.d_au) init (fun i => (hinit i).1)
      (fun i j acc acc' => (additive_VI_LaminarViscosityDeltaSPH o k self_dim self_nu self_rho0 acc acc' (p i) (p j)).1)
      (fun i j acc acc' => (pair_antisym_VI_LaminarViscosityDeltaSPH o k hk self_dim self_nu self_rho0 acc acc' (p i) (p j)).1)
  · exact linear_momentum_of_pair (fun i => (p i).m) nbrs hnd hsymm (fun i acc j => pair_VI_LaminarViscosityDeltaSPH o k self_dim self_nu self_rho0 acc (p i) (p j))
      (fun s => s.d_av) init (fun i => (hinit i).2.1)
      (fun i j acc acc' => (additive_VI_LaminarViscosityDeltaSPH o k self_dim self_nu self_rho0 acc acc' (p i) (p j)).2.1)
      (fun i j acc acc' => (pair_antisym_VI_LaminarViscosityDeltaSPH o k hk self_dim self_nu self_rho0 acc acc' (p i) (p j)).2.1)
  · exact linear_momentum_of_pair (fun i => (p i).m) nbrs hnd hsymm (fun i acc j => pair_VI_LaminarViscosityDeltaSPH o k self_dim self_nu self_rho0 acc (p i) (p j))
      (fun s => s.d_aw) init (fun i => (hinit i).2.2)
      (fun i j acc acc' => (additive_VI_LaminarViscosityDeltaSPH o k self_dim self_nu self_rho0 acc acc' (p i) (p j)).2.2)
      (fun i j acc acc' => (pair_antisym_VI_LaminarViscosityDeltaSPH o k hk self_dim self_nu self_rho0 acc acc' (p i) (p j)).2.2)

include hk in
/-- closed system: `Σ m x × a = 0` (three components) -/
theorem angular_momentum_VI_LaminarViscosityDeltaSPH {ι : Type} [Fintype ι] [DecidableEq ι] (p : ι → P K)
    (nbrs : ι → List ι) (hnd : ∀ i, (nbrs i).Nodup) (hsymm : ∀ i j, j ∈ nbrs i → i ∈ nbrs j)
    (init : ι → Out_VI_LaminarViscosityDeltaSPH K) (hinit : ∀ i, (init i).d_au = 0 ∧ (init i).d_av = 0 ∧ (init i).d_aw = 0) :
    (∑ i, (p i).m * ((p i).x * ((nbrs i).foldl (fun acc j => pair_VI_LaminarViscosityDeltaSPH o k self_dim self_nu self_rho0 acc (p i) (p j)) (init i)).d_av - (p i).y * ((nbrs i).foldl (fun acc j => pair_VI_LaminarViscosityDeltaSPH o k self_dim self_nu self_rho0 acc (p i) (p j)) (init i)).d_au) = 0) ∧
    (∑ i, (p i).m * ((p i).y * ((nbrs i).foldl (fun acc j => pair_VI_LaminarViscosityDeltaSPH o k self_dim self_nu self_rho0 acc (p i) (p j)) (init i)).d_aw - (p i).z * ((nbrs i).foldl (fun acc j => pair_VI_LaminarViscosityDeltaSPH o k self_dim self_nu self_rho0 acc (p i) (p j)) (init i)).d_av) = 0) ∧
    (∑ i, (p i).m * ((p i).z * ((nbrs i).foldl (fun acc j => pair_VI_LaminarViscosityDeltaSPH o k self_dim self_nu self_rho0 acc (p i) (p j)) (init i)).d_au - (p i).x * ((nbrs i).foldl (fun acc j => pair_VI_LaminarViscosityDeltaSPH o k self_dim self_nu self_rho0 acc (p i) (p j)) (init i)).d_aw) = 0) := by
  refine ⟨?_, ?_, ?_⟩
  · exact angular_momentum_of_pair (fun i => (p i).m) (fun i => (p i).x) (fun i => (p i).y) nbrs hnd hsymm
      (fun i acc j => pair_VI_LaminarViscosityDeltaSPH o k self_dim self_nu self_rho0 acc (p i) (p j)) (fun s => s.d_au) (fun s => s.d_av) init
      (fun i => (hinit i).1) (fun i => (hinit i).2.1)
      (fun i j acc acc' => (additive_VI_LaminarViscosityDeltaSPH o k self_dim self_nu self_rho0 acc acc' (p i) (p j)).1)
      (fun i j acc acc' => (additive_VI_LaminarViscosityDeltaSPH o k self_dim self_nu self_rho0 acc acc' (p i) (p j)).2.1)
      (fun i j acc acc' => (pair_antisym_VI_LaminarViscosityDeltaSPH o k hk self_dim self_nu self_rho0 acc acc' (p i) (p j)).1)
      (fun i j acc acc' => (pair_antisym_VI_LaminarViscosityDeltaSPH o k hk self_dim self_nu self_rho0 acc acc' (p i) (p j)).2.1)
      (fun i j acc => (central_VI_LaminarViscosityDeltaSPH o k hk self_dim self_nu self_rho0 acc (p i) (p j)).1)
  · exact angular_momentum_of_pair (fun i => (p i).m) (fun i => (p i).y) (fun i => (p i).z) nbrs hnd hsymm
      (fun i acc j => pair_VI_LaminarViscosityDeltaSPH o k self_dim self_nu self_rho0 acc (p i) (p j)) (fun s => s.d_av) (fun s => s.d_aw) init
      (fun i => (hinit i).2.1) (fun i => (hinit i).2.2)
      (fun i j acc acc' => (additive_VI_LaminarViscosityDeltaSPH o k self_dim self_nu self_rho0 acc acc' (p i) (p j)).2.1)
      (fun i j acc acc' => (additive_VI_LaminarViscosityDeltaSPH o k self_dim self_nu self_rho0 acc acc' (p i) (p j)).2.2)
      (fun i j acc acc' => (pair_antisym_VI_LaminarViscosityDeltaSPH o k hk self_dim self_nu self_rho0 acc acc' (p i) (p j)).2.1)
      (fun i j acc acc' => (pair_antisym_VI_LaminarViscosityDeltaSPH o k hk self_dim self_nu self_rho0 acc acc' (p i) (p j)).2.2)
      (fun i j acc => (central_VI_LaminarViscosityDeltaSPH o k hk self_dim self_nu self_rho0 acc (p i) (p j)).2.1)
  · exact angular_momentum_of_pair (fun i => (p i).m) (fun i => (p i).z) (fun i => (p i).x) nbrs hnd hsymm
      (fun i acc j => pair_VI_LaminarViscosityDeltaSPH o k self_dim self_nu self_rho0 acc (p i) (p j)) (fun s => s.d_aw) (fun s => s.d_au) init
      (fun i => (hinit i).2.2) (fun i => (hinit i).1)
      (fun i j acc acc' => (additive_VI_LaminarViscosityDeltaSPH o k self_dim self_nu self_rho0 acc acc' (p i) (p j)).2.2)
      (fun i j acc acc' => (additive_VI_LaminarViscosityDeltaSPH o k self_dim self_nu self_rho0 acc acc' (p i) (p j)).1)
      (fun i j acc acc' => (pair_antisym_VI_LaminarViscosityDeltaSPH o k hk self_dim self_nu self_rho0 acc acc' (p i) (p j)).2.2)
      (fun i j acc acc' => (pair_antisym_VI_LaminarViscosityDeltaSPH o k hk self_dim self_nu self_rho0 acc acc' (p i) (p j)).1)
      (fun i j acc => (central_VI_LaminarViscosityDeltaSPH o k hk self_dim self_nu self_rho0 acc (p i) (p j)).2.2)

end VI_LaminarViscosityDeltaSPH

/-! ## `pysph/sph/gas_dynamics/basic.py.Monaghan92Accelerations` (GD_Monaghan92Accelerations) -/
section GD_Monaghan92Accelerations
variable (o : Ops K) (k : Kern K) {w g : K → K → K} (hk : Radial k w g) (self_alpha : K) (self_beta : K)

/-- the contribution of a pair to the accumulated acceleration does not depend on the accumulator -/
theorem additive_GD_Monaghan92Accelerations (acc acc' : Out_GD_Monaghan92Accelerations K) (a b : P K) :
    ((pair_GD_Monaghan92Accelerations o k self_alpha self_beta acc a b).d_au - acc.d_au) = ((pair_GD_Monaghan92Accelerations o k self_alpha self_beta acc' a b).d_au - acc'.d_au) ∧
    ((pair_GD_Monaghan92Accelerations o k self_alpha self_beta acc a b).d_av - acc.d_av) = ((pair_GD_Monaghan92Accelerations o k self_alpha self_beta acc' a b).d_av - acc'.d_av) ∧
    ((pair_GD_Monaghan92Accelerations o k self_alpha self_beta acc a b).d_aw - acc.d_aw) = ((pair_GD_Monaghan92Accelerations o k self_alpha self_beta acc' a b).d_aw - acc'.d_aw) := by
  refine ⟨?_, ?_, ?_⟩ <;>
  · simp only [pair_GD_Monaghan92Accelerations]
    c09_atoms o k a b
    simp only [loop_GD_Monaghan92Accelerations]
    c09_norm
    c09_close

include hk in
/-- `m_a · contrib(a, b) = −(m_b · contrib(b, a))`, component by component -/
theorem pair_antisym_GD_Monaghan92Accelerations (acc acc' : Out_GD_Monaghan92Accelerations K) (a b : P K) :
    a.m * ((pair_GD_Monaghan92Accelerations o k self_alpha self_beta acc a b).d_au - acc.d_au) = -(b.m * ((pair_GD_Monaghan92Accelerations o k self_alpha self_beta acc' b a).d_au - acc'.d_au)) ∧
    a.m * ((pair_GD_Monaghan92Accelerations o k self_alpha self_beta acc a b).d_av - acc.d_av) = -(b.m * ((pair_GD_Monaghan92Accelerations o k self_alpha self_beta acc' b a).d_av - acc'.d_av)) ∧
    a.m * ((pair_GD_Monaghan92Accelerations o k self_alpha self_beta acc a b).d_aw - acc.d_aw) = -(b.m * ((pair_GD_Monaghan92Accelerations o k self_alpha self_beta acc' b a).d_aw - acc'.d_aw)) := by
  refine ⟨?_, ?_, ?_⟩ <;>
  · simp only [pair_GD_Monaghan92Accelerations]
    c09_swap o k a b hk
    c09_atoms o k a b
    simp only [loop_GD_Monaghan92Accelerations]
    c09_norm
    c09_close

include hk in
/-- the pair contribution is parallel to the separation `x_a − x_b` (cross product zero) -/
theorem central_GD_Monaghan92Accelerations (acc : Out_GD_Monaghan92Accelerations K) (a b : P K) :
    (a.x - b.x) * ((pair_GD_Monaghan92Accelerations o k self_alpha self_beta acc a b).d_av - acc.d_av) = (a.y - b.y) * ((pair_GD_Monaghan92Accelerations o k self_alpha self_beta acc a b).d_au - acc.d_au) ∧
    (a.y - b.y) * ((pair_GD_Monaghan92Accelerations o k self_alpha self_beta acc a b).d_aw - acc.d_aw) = (a.z - b.z) * ((pair_GD_Monaghan92Accelerations o k self_alpha self_beta acc a b).d_av - acc.d_av) ∧
    (a.z - b.z) * ((pair_GD_Monaghan92Accelerations o k self_alpha self_beta acc a b).d_au - acc.d_au) = (a.x - b.x) * ((pair_GD_Monaghan92Accelerations o k self_alpha self_beta acc a b).d_aw - acc.d_aw) := by
  refine ⟨?_, ?_, ?_⟩ <;>
  · simp only [pair_GD_Monaghan92Accelerations]
    c09_shape o k a b hk
    c09_atoms o k a b
    simp only [loop_GD_Monaghan92Accelerations]
    c09_norm
    c09_close

include hk in
/-- closed system: evaluating the equation for every particle over a symmetric neighbour relation
gives `Σ m a = 0` -/
theorem linear_momentum_GD_Monaghan92Accelerations {ι : Type} [Fintype ι] [DecidableEq ι] (p : ι → P K)
    (nbrs : ι → List ι) (hnd : ∀ i, (nbrs i).Nodup) (hsymm : ∀ i j, j ∈ nbrs i → i ∈ nbrs j)
    (init : ι → Out_GD_Monaghan92Accelerations K) (hinit : ∀ i, (init i).d_au = 0 ∧ (init i).d_av = 0 ∧ (init i).d_aw = 0) :
    ∑ i, (p i).m * ((nbrs i).foldl (fun acc j => pair_GD_Monaghan92Accelerations o k self_alpha self_beta acc (p i) (p j)) (init i)).d_au = 0 ∧
    ∑ i, (p i).m * ((nbrs i).foldl (fun acc j => pair_GD_Monaghan92Accelerations o k self_alpha self_beta acc (p i) (p j)) (init i)).d_av = 0 ∧
    ∑ i, (p i).m * ((nbrs i).foldl (fun acc j => pair_GD_Monaghan92Accelerations o k self_alpha self_beta acc (p i) (p j)) (init i)).d_aw = 0 := by
  refine ⟨?_, ?_, ?_⟩
  · exact linear_momentum_of_pair (fun i => (p i).m) nbrs hnd hsymm (fun i acc j => pair_GD_Monaghan92Accelerations o k self_alpha self_beta acc (p i) (p j))
      (fun s => s.d_au) init (fun i => (hinit i).1)
      (fun i j acc acc' => (additive_GD_Monaghan92Accelerations o k self_alpha self_beta acc acc' (p i) (p j)).1)
      (fun i j acc acc' => (pair_antisym_GD_Monaghan92Accelerations o k hk self_alpha self_beta acc acc' (p i) (p j)).1)
  · exact linear_momentum_of_pair (fun i => (p i).m) nbrs hnd hsymm (fun i acc j => pair_GD_Monaghan92Accelerations o k self_alpha self_beta acc (p i) (p j))
      (fun s => s.d_av) init (fun i => (hinit i).2.1)
      (fun i j acc acc' => (additive_GD_Monaghan92Accelerations o k self_alpha self_beta acc acc' (p i) (p j)).2.1)
      (fun i j acc acc' => (pair_antisym_GD_Monaghan92Accelerations o k hk self_alpha self_beta acc acc' (p i) (p j)).2.1)
  · exact linear_momentum_of_pair (fun i => (p i).m) nbrs hnd hsymm (fun i acc j => pair_GD_Monaghan92Accelerations o k self_alpha self_beta acc (p i) (p j))
      (fun s => s.d_aw) init (fun i => (hinit i).2.2)
      (fun i j acc acc' => (additive_GD_Monaghan92Accelerations o k self_alpha self_beta acc acc' (p i) (p j)).2.2)
      (fun i j acc acc' => (pair_antisym_GD_Monaghan92Accelerations o k hk self_alpha self_beta acc acc' (p i) (p j)).2.2)

include hk in
/-- closed system: `Σ m x × a = 0` (three components) -/
theorem angular_momentum_GD_Monaghan92Accelerations {ι : Type} [Fintype ι] [DecidableEq ι] (p : ι → P K)
    (nbrs : ι → List ι) (hnd : ∀ i, (nbrs i).Nodup) (hsymm : ∀ i j, j ∈ nbrs i → i ∈ nbrs j)
    (init : ι → Out_GD_Monaghan92Accelerations K) (hinit : ∀ i, (init i).d_au = 0 ∧ (init i).d_av = 0 ∧ (init i).d_aw = 0) :
    (∑ i, (p i).m * ((p i).x * ((nbrs i).foldl (fun acc j => pair_GD_Monaghan92Accelerations o k self_alpha self_beta acc (p i) (p j)) (init i)).d_av - (p i).y * ((nbrs i).foldl (fun acc j => pair_GD_Monaghan92Accelerations o k self_alpha self_beta acc (p i) (p j)) (init i)).d_au) = 0) ∧
    (∑ i, (p i).m * ((p i).y * ((nbrs i).foldl (fun acc j => pair_GD_Monaghan92Accelerations o k self_alpha self_beta acc (p i) (p j)) (init i)).d_aw - (p i).z * ((nbrs i).foldl (fun acc j => pair_GD_Monaghan92Accelerations o k self_alpha self_beta acc (p i) (p j)) (init i)).d_av) = 0) ∧
    (∑ i, (p i).m * ((p i).z * ((nbrs i).foldl (fun acc j => pair_GD_Monaghan92Accelerations o k self_alpha self_beta acc (p i) (p j)) (init i)).d_au - (p i).x * ((nbrs i).foldl (fun acc j => pair_GD_Monaghan92Accelerations o k self_alpha self_beta acc (p i) (p j)) (init i)).d_aw) = 0) := by
  refine ⟨?_, ?_, ?_⟩
  · exact angular_momentum_of_pair (fun i => (p i).m) (fun i => (p i).x) (fun i => (p i).y) nbrs hnd hsymm
      (fun i acc j => pair_GD_Monaghan92Accelerations o k self_alpha self_beta acc (p i) (p j)) (fun s => s.d_au) (fun s => s.d_av) init
      (fun i => (hinit i).1) (fun i => (hinit i).2.1)
      (fun i j acc acc' => (additive_GD_Monaghan92Accelerations o k self_alpha self_beta acc acc' (p i) (p j)).1)
      (fun i j acc acc' => (additive_GD_Monaghan92Accelerations o k self_alpha self_beta acc acc' (p i) (p j)).2.1)
      (fun i j acc acc' => (pair_antisym_GD_Monaghan92Accelerations o k hk self_alpha self_beta acc acc' (p i) (p j)).1)
      (fun i j acc acc' => (pair_antisym_GD_Monaghan92Accelerations o k hk self_alpha self_beta acc acc' (p i) (p j)).2.1)
      (fun i j acc => (central_GD_Monaghan92Accelerations o k hk self_alpha self_beta acc (p i) (p j)).1)
  · exact angular_momentum_of_pair (fun i => (p i).m) (fun i => (p i).y) (fun i => (p i).z) nbrs hnd hsymm
      (fun i acc j => pair_GD_Monaghan92Accelerations o k self_alpha self_beta acc (p i) (p j)) (fun s => s.d_av) (fun s => s.d_aw) init
      (fun i => (hinit i).2.1) (fun i => (hinit i).2.2)
      (fun i j acc acc' => (additive_GD_Monaghan92Accelerations o k self_alpha self_beta acc acc' (p i) (p j)).2.1)
      (fun i j acc acc' => (additive_GD_Monaghan92Accelerations o k self_alpha self_beta acc acc' (p i) (p j)).2.2)
      (fun i j acc acc' => (pair_antisym_GD_Monaghan92Accelerations o k hk self_alpha self_beta acc acc' (p i) (p j)).2.1)
      (fun i j acc acc' => (pair_antisym_GD_Monaghan92Accelerations o k hk self_alpha self_beta acc acc' (p i) (p j)).2.2)
      (fun i j acc => (central_GD_Monaghan92Accelerations o k hk self_alpha self_beta acc (p i) (p j)).2.1)
  · exact angular_momentum_of_pair (fun i => (p i).m) (fun i => (p i).z) (fun i => (p i).x) nbrs hnd hsymm
      (fun i acc j => pair_GD_Monaghan92Accelerations o k self_alpha self_beta acc (p i) (p j)) (fun s => s.d_aw) (fun s => s.d_au) init
      (fun i => (hinit i).2.2) (fun i => (hinit i).1)
      (fun i j acc acc' => (additive_GD_Monaghan92Accelerations o k self_alpha self_beta acc acc' (p i) (p j)).2.2)
      (fun i j acc acc' => (additive_GD_Monaghan92Accelerations o k self_alpha self_beta acc acc' (p i) (p j)).1)
      (fun i j acc acc' => (pair_antisym_GD_Monaghan92Accelerations o k hk self_alpha self_beta acc acc' (p i) (p j)).2.2)
      (fun i j acc acc' => (pair_antisym_GD_Monaghan92Accelerations o k hk self_alpha self_beta acc acc' (p i) (p j)).1)
      (fun i j acc => (central_GD_Monaghan92Accelerations o k hk self_alpha self_beta acc (p i) (p j)).2.2)

end GD_Monaghan92Accelerations

/-! ## `pysph/sph/gas_dynamics/basic.py.ADKEAccelerations` (GD_ADKEAccelerations) -/
section GD_ADKEAccelerations
variable (o : Ops K) (k : Kern K) {w g : K → K → K} (hk : Radial k w g) (self_alpha : K) (self_beta : K) (self_g1 : K) (self_g2 : K)

/-- the contribution of a pair to the accumulated acceleration does not depend on the accumulator -/
theorem additive_GD_ADKEAccelerations (acc acc' : Out_GD_ADKEAccelerations K) (a b : P K) :
    ((pair_GD_ADKEAccelerations o k self_alpha self_beta self_g1 self_g2 acc a b).d_au - acc.d_au) = ((pair_GD_ADKEAccelerations o k self_alpha self_beta self_g1 self_g2 acc' a b).d_au - acc'.d_au) ∧
    ((pair_GD_ADKEAccelerations o k self_alpha self_beta self_g1 self_g2 acc a b).d_av - acc.d_av) = ((pair_GD_ADKEAccelerations o k self_alpha self_beta self_g1 self_g2 acc' a b).d_av - acc'.d_av) ∧
    ((pair_GD_ADKEAccelerations o k self_alpha self_beta self_g1 self_g2 acc a b).d_aw - acc.d_aw) = ((pair_GD_ADKEAccelerations o k self_alpha self_beta self_g1 self_g2 acc' a b).d_aw - acc'.d_aw) := by
  refine ⟨?_, ?_, ?_⟩ <;>
  · simp only [pair_GD_ADKEAccelerations]
    c09_atoms o k a b
    simp only [loop_GD_ADKEAccelerations]
    c09_norm
    c09_close

include hk in
/-- `m_a · contrib(a, b) = −(m_b · contrib(b, a))`, component by component (the body divides by the destination mass: masses non-zero) -/
theorem pair_antisym_GD_ADKEAccelerations (acc acc' : Out_GD_ADKEAccelerations K) (a b : P K) (ha : a.m ≠ 0) (hb : b.m ≠ 0) :
    a.m * ((pair_GD_ADKEAccelerations o k self_alpha self_beta self_g1 self_g2 acc a b).d_au - acc.d_au) = -(b.m * ((pair_GD_ADKEAccelerations o k self_alpha self_beta self_g1 self_g2 acc' b a).d_au - acc'.d_au)) ∧
    a.m * ((pair_GD_ADKEAccelerations o k self_alpha self_beta self_g1 self_g2 acc a b).d_av - acc.d_av) = -(b.m * ((pair_GD_ADKEAccelerations o k self_alpha self_beta self_g1 self_g2 acc' b a).d_av - acc'.d_av)) ∧
    a.m * ((pair_GD_ADKEAccelerations o k self_alpha self_beta self_g1 self_g2 acc a b).d_aw - acc.d_aw) = -(b.m * ((pair_GD_ADKEAccelerations o k self_alpha self_beta self_g1 self_g2 acc' b a).d_aw - acc'.d_aw)) := by
  refine ⟨?_, ?_, ?_⟩ <;>
  · simp only [pair_GD_ADKEAccelerations]
    c09_swap o k a b hk
    c09_atoms o k a b
    simp only [loop_GD_ADKEAccelerations]
    c09_norm
    c09_closeF

include hk in
/-- the pair contribution is parallel to the separation `x_a − x_b` (cross product zero) -/
theorem central_GD_ADKEAccelerations (acc : Out_GD_ADKEAccelerations K) (a b : P K) :
    (a.x - b.x) * ((pair_GD_ADKEAccelerations o k self_alpha self_beta self_g1 self_g2 acc a b).d_av - acc.d_av) = (a.y - b.y) * ((pair_GD_ADKEAccelerations o k self_alpha self_beta self_g1 self_g2 acc a b).d_au - acc.d_au) ∧
    (a.y - b.y) * ((pair_GD_ADKEAccelerations o k self_alpha self_beta self_g1 self_g2 acc a b).d_aw - acc.d_aw) = (a.z - b.z) * ((pair_GD_ADKEAccelerations o k self_alpha self_beta self_g1 self_g2 acc a b).d_av - acc.d_av) ∧
    (a.z - b.z) * ((pair_GD_ADKEAccelerations o k self_alpha self_beta self_g1 self_g2 acc a b).d_au - acc.d_au) = (a.x - b.x) * ((pair_GD_ADKEAccelerations o k self_alpha self_beta self_g1 self_g2 acc a b).d_aw - acc.d_aw) := by
  refine ⟨?_, ?_, ?_⟩ <;>
  · simp only [pair_GD_ADKEAccelerations]
    c09_shape o k a b hk
    c09_atoms o k a b
    simp only [loop_GD_ADKEAccelerations]
    c09_norm
    c09_close

include hk in
/-- closed system: evaluating the equation for every particle over a symmetric neighbour relation
gives `Σ m a = 0` -/
theorem linear_momentum_GD_ADKEAccelerations {ι : Type} [Fintype ι] [DecidableEq ι] (p : ι → P K)
    (nbrs : ι → List ι) (hnd : ∀ i, (nbrs i).Nodup) (hsymm : ∀ i j, j ∈ nbrs i → i ∈ nbrs j)
    (init : ι → Out_GD_ADKEAccelerations K) (hinit : ∀ i, (init i).d_au = 0 ∧ (init i).d_av = 0 ∧ (init i).d_aw = 0) (hm : ∀ i, (p i).m ≠ 0) :
    ∑ i, (p i).m * ((nbrs i).foldl (fun acc j => pair_GD_ADKEAccelerations o k self_alpha self_beta self_g1 self_g2 acc (p i) (p j)) (init i)).d_au = 0 ∧
    ∑ i, (p i).m * ((nbrs i).foldl (fun acc j => pair_GD_ADKEAccelerations o k self_alpha self_beta self_g1 self_g2 acc (p i) (p j)) (init i)).d_av = 0 ∧
    ∑ i, (p i).m * ((nbrs i).foldl (fun acc j => pair_GD_ADKEAccelerations o k self_alpha self_beta self_g1 self_g2 acc (p i) (p j)) (init i)).d_aw = 0 := by
  refine ⟨?_, ?_, ?_⟩
  · exact linear_momentum_of_pair (fun i => (p i).m) nbrs hnd hsymm (fun i acc j => pair_GD_ADKEAccelerations o k self_alpha self_beta self_g1 self_g2 acc (p i) (p j))
      (fun s => s.d_au) init (fun i => (hinit i).1)
      (fun i j acc acc' => (additive_GD_ADKEAccelerations o k self_alpha self_beta self_g1 self_g2 acc acc' (p i) (p j)).1)
      (fun i j acc acc' => (pair_antisym_GD_ADKEAccelerations o k hk self_alpha self_beta self_g1 self_g2 acc acc' (p i) (p j) (hm i) (hm j)).1)
  · exact linear_momentum_of_pair (fun i => (p i).m) nbrs hnd hsymm (fun i acc j => pair_GD_ADKEAccelerations o k self_alpha self_beta self_g1 self_g2 acc (p i) (p j))
      (fun s => s.d_av) init (fun i => (hinit i).2.1)
      (fun i j acc acc' => (additive_GD_ADKEAccelerations o k self_alpha self_beta self_g1 self_g2 acc acc' (p i) (p j)).2.1)
      (fun i j acc acc' => (pair_antisym_GD_ADKEAccelerations o k hk self_alpha self_beta self_g1 self_g2 acc acc' (p i) (p j) (hm i) (hm j)).2.1)
  · exact linear_momentum_of_pair (fun i => (p i).m) nbrs hnd hsymm (fun i acc j => pair_GD_ADKEAccelerations o k self_alpha self_beta self_g1 self_g2 acc (p i) (p j))
      (fun s => s.d_aw) init (fun i => (hinit i).2.2)
      (fun i j acc acc' => (additive_GD_ADKEAccelerations o k self_alpha self_beta self_g1 self_g2 acc acc' (p i) (p j)).2.2)
      (fun i j acc acc' => (pair_antisym_GD_ADKEAccelerations o k hk self_alpha self_beta self_g1 self_g2 acc acc' (p i) (p j) (hm i) (hm j)).2.2)

include hk in
/-- closed system: `Σ m x × a = 0` (three components) -/
theorem angular_momentum_GD_ADKEAccelerations {ι : Type} [Fintype ι] [DecidableEq ι] (p : ι → P K)
    (nbrs : ι → List ι) (hnd : ∀ i, (nbrs i).Nodup) (hsymm : ∀ i j, j ∈ nbrs i → i ∈ nbrs j)
    (init : ι → Out_GD_ADKEAccelerations K) (hinit : ∀ i, (init i).d_au = 0 ∧ (init i).d_av = 0 ∧ (init i).d_aw = 0) (hm : ∀ i, (p i).m ≠ 0) :
    (∑ i, (p i).m * ((p i).x * ((nbrs i).foldl (fun acc j => pair_GD_ADKEAccelerations o k self_alpha self_beta self_g1 self_g2 acc (p i) (p j)) (init i)).d_av - (p i).y * ((nbrs i).foldl (fun acc j => pair_GD_ADKEAccelerations o k self_alpha self_beta self_g1 self_g2 acc (p i) (p j)) (init i)).d_au) = 0) ∧
    (∑ i, (p i).m * ((p i).y * ((nbrs i).foldl (fun acc j => pair_GD_ADKEAccelerations o k self_alpha self_beta self_g1 self_g2 acc (p i) (p j)) (init i)).d_aw - (p i).z * ((nbrs i).foldl (fun acc j => pair_GD_ADKEAccelerations o k self_alpha self_beta self_g1 self_g2 acc (p i) (p j)) (init i)).d_av) = 0) ∧
    (∑ i, (p i).m * ((p i).z * ((nbrs i).foldl (fun acc j => pair_GD_ADKEAccelerations o k self_alpha self_beta self_g1 self_g2 acc (p i) (p j)) (init i)).d_au - (p i).x * ((nbrs i).foldl (fun acc j => pair_GD_ADKEAccelerations o k self_alpha self_beta self_g1 self_g2 acc (p i) (p j)) (init i)).d_aw) = 0) := by
  refine ⟨?_, ?_, ?_⟩
  · exact angular_momentum_of_pair (fun i => (p i).m) (fun i => (p i).x) (fun i => (p i).y) nbrs hnd hsymm
      (fun i acc j => pair_GD_ADKEAccelerations o k self_alpha self_beta self_g1 self_g2 acc (p i) (p j)) (fun s => s.d_au) (fun s => s.d_av) init
      (fun i => (hinit i).1) (fun i => (hinit i).2.1)
      (fun i j acc acc' => (additive_GD_ADKEAccelerations o k self_alpha self_beta self_g1 self_g2 acc acc' (p i) (p j)).1)
      (fun i j acc acc' => (additive_GD_ADKEAccelerations o k self_alpha self_beta self_g1 self_g2 acc acc' (p i) (p j)).2.1)
      (fun i j acc acc' => (pair_antisym_GD_ADKEAccelerations o k hk self_alpha self_beta self_g1 self_g2 acc acc' (p i) (p j) (hm i) (hm j)).1)
      (fun i j acc acc' => (pair_antisym_GD_ADKEAccelerations o k hk self_alpha self_beta self_g1 self_g2 acc acc' (p i) (p j) (hm i) (hm j)).2.1)
      (fun i j acc => (central_GD_ADKEAccelerations o k hk self_alpha self_beta self_g1 self_g2 acc (p i) (p j)).1)
  · exact angular_momentum_of_pair (fun i => (p i).m) (fun i => (p i).y) (fun i => (p i).z) nbrs hnd hsymm
      (fun i acc j => pair_GD_ADKEAccelerations o k self_alpha self_beta self_g1 self_g2 acc (p i) (p j)) (fun s => s.d_av) (fun s => s.d_aw) init
      (fun i => (hinit i).2.1) (fun i => (hinit i).2.2)
      (fun i j acc acc' => (additive_GD_ADKEAccelerations o k self_alpha self_beta self_g1 self_g2 acc acc' (p i) (p j)).2.1)
      (fun i j acc acc' => (additive_GD_ADKEAccelerations o k self_alpha self_beta self_g1 self_g2 acc acc' (p i) (p j)).2.2)
      (fun i j acc acc' => (pair_antisym_GD_ADKEAccelerations o k hk self_alpha self_beta self_g1 self_g2 acc acc' (p i) (p j) (hm i) (hm j)).2.1)
      (fun i j acc acc' => (pair_antisym_GD_ADKEAccelerations o k hk self_alpha self_beta self_g1 self_g2 acc acc' (p i) (p j) (hm i) (hm j)).2.2)
      (fun i j acc => (central_GD_ADKEAccelerations o k hk self_alpha self_beta self_g1 self_g2 acc (p i) (p j)).2.1)
  · exact angular_momentum_of_pair (fun i => (p i).m) (fun i => (p i).z) (fun i => (p i).x) nbrs hnd hsymm
      (fun i acc j => pair_GD_ADKEAccelerations o k self_alpha self_beta self_g1 self_g2 acc (p i) (p j)) (fun s => s.d_aw) (fun s => s.d_au) init
      (fun i => (hinit i).2.2) (fun i => (hinit i).1)
      (fun i j acc acc' => (additive_GD_ADKEAccelerations o k self_alpha self_beta self_g1 self_g2 acc acc' (p i) (p j)).2.2)
      (fun i j acc acc' => (additive_GD_ADKEAccelerations o k self_alpha self_beta self_g1 self_g2 acc acc' (p i) (p j)).1)
      (fun i j acc acc' => (pair_antisym_GD_ADKEAccelerations o k hk self_alpha self_beta self_g1 self_g2 acc acc' (p i) (p j) (hm i) (hm j)).2.2)
      (fun i j acc acc' => (pair_antisym_GD_ADKEAccelerations o k hk self_alpha self_beta self_g1 self_g2 acc acc' (p i) (p j) (hm i) (hm j)).1)
      (fun i j acc => (central_GD_ADKEAccelerations o k hk self_alpha self_beta self_g1 self_g2 acc (p i) (p j)).2.2)

end GD_ADKEAccelerations

/-! ## `pysph/sph/gas_dynamics/basic.py.MPMAccelerations` (GD_MPMAccelerations) -/
section GD_MPMAccelerations
variable (o : Ops K) (k : Kern K) {w g : K → K → K} (hk : Radial k w g) (self_beta : K)

/-- the contribution of a pair to the accumulated acceleration does not depend on the accumulator -/
theorem additive_GD_MPMAccelerations (acc acc' : Out_GD_MPMAccelerations K) (a b : P K) :
    ((pair_GD_MPMAccelerations o k self_beta acc a b).d_au - acc.d_au) = ((pair_GD_MPMAccelerations o k self_beta acc' a b).d_au - acc'.d_au) ∧
    ((pair_GD_MPMAccelerations o k self_beta acc a b).d_av - acc.d_av) = ((pair_GD_MPMAccelerations o k self_beta acc' a b).d_av - acc'.d_av) ∧
    ((pair_GD_MPMAccelerations o k self_beta acc a b).d_aw - acc.d_aw) = ((pair_GD_MPMAccelerations o k self_beta acc' a b).d_aw - acc'.d_aw) := by
  refine ⟨?_, ?_, ?_⟩ <;>
  · simp only [pair_GD_MPMAccelerations]
    c09_atoms o k a b
    simp only [loop_GD_MPMAccelerations]
    c09_norm
    c09_close

include hk in
/-- `m_a · contrib(a, b) = −(m_b · contrib(b, a))`, component by component (the body divides by the destination mass: masses non-zero) -/
theorem pair_antisym_GD_MPMAccelerations (acc acc' : Out_GD_MPMAccelerations K) (a b : P K) (ha : a.m ≠ 0) (hb : b.m ≠ 0) :
    a.m * ((pair_GD_MPMAccelerations o k self_beta acc a b).d_au - acc.d_au) = -(b.m * ((pair_GD_MPMAccelerations o k self_beta acc' b a).d_au - acc'.d_au)) ∧
    a.m * ((pair_GD_MPMAccelerations o k self_beta acc a b).d_av - acc.d_av) = -(b.m * ((pair_GD_MPMAccelerations o k self_beta acc' b a).d_av - acc'.d_av)) ∧
    a.m * ((pair_GD_MPMAccelerations o k self_beta acc a b).d_aw - acc.d_aw) = -(b.m * ((pair_GD_MPMAccelerations o k self_beta acc' b a).d_aw - acc'.d_aw)) := by
  refine ⟨?_, ?_, ?_⟩ <;>
  · simp only [pair_GD_MPMAccelerations]
    c09_swap o k a b hk
    c09_atoms o k a b
    simp only [loop_GD_MPMAccelerations]
    c09_norm
    c09_closeF

include hk in
/-- the pair contribution is parallel to the separation `x_a − x_b` (cross product zero) -/
theorem central_GD_MPMAccelerations (acc : Out_GD_MPMAccelerations K) (a b : P K) :
    (a.x - b.x) * ((pair_GD_MPMAccelerations o k self_beta acc a b).d_av - acc.d_av) = (a.y - b.y) * ((pair_GD_MPMAccelerations o k self_beta acc a b).d_au - acc.d_au) ∧
    (a.y - b.y) * ((pair_GD_MPMAccelerations o k self_beta acc a b).d_aw - acc.d_aw) = (a.z - b.z) * ((pair_GD_MPMAccelerations o k self_beta acc a b).d_av - acc.d_av) ∧
    (a.z - b.z) * ((pair_GD_MPMAccelerations o k self_beta acc a b).d_au - acc.d_au) = (a.x - b.x) * ((pair_GD_MPMAccelerations o k self_beta acc a b).d_aw - acc.d_aw) := by
  refine ⟨?_, ?_, ?_⟩ <;>
  · simp only [pair_GD_MPMAccelerations]
    c09_shape o k a b hk
    c09_atoms o k a b
    simp only [loop_GD_MPMAccelerations]
    c09_norm
    c09_close

include hk in
/-- closed system: evaluating the equation for every particle over a symmetric neighbour relation
gives `Σ m a = 0` -/
theorem linear_momentum_GD_MPMAccelerations {ι : Type} [Fintype ι] [DecidableEq ι] (p : ι → P K)
    (nbrs : ι → List ι) (hnd : ∀ i, (nbrs i).Nodup) (hsymm : ∀ i j, j ∈ nbrs i → i ∈ nbrs j)
    (init : ι → Out_GD_MPMAccelerations K) (hinit : ∀ i, (init i).d_au = 0 ∧ (init i).d_av = 0 ∧ (init i).d_aw = 0) (hm : ∀ i, (p i).m ≠ 0) :
    ∑ i, (p i).m * ((nbrs i).foldl (fun acc j => pair_GD_MPMAccelerations o k self_beta acc (p i) (p j)) (init i)).d_au = 0 ∧
    ∑ i, (p i).m * ((nbrs i).foldl (fun acc j => pair_GD_MPMAccelerations o k self_beta acc (p i) (p j)) (init i)).d_av = 0 ∧
    ∑ i, (p i).m * ((nbrs i).foldl (fun acc j => pair_GD_MPMAccelerations o k self_beta acc (p i) (p j)) (init i)).d_aw = 0 := by
  refine ⟨?_, ?_, ?_⟩
  · exact linear_momentum_of_pair (fun i => (p i).m) nbrs hnd hsymm (fun i acc j => pair_GD_MPMAccelerations o k self_beta acc (p i) (p j))
      (fun s => s.d_au) init (fun i => (hinit i).1)
      (fun i j acc acc' => (additive_GD_MPMAccelerations o k self_beta acc acc' (p i) (p j)).1)
      (fun i j acc acc' => (pair_antisym_GD_MPMAccelerations o k hk self_beta acc acc' (p i) (p j) (hm i) (hm j)).1)
  · exact linear_momentum_of_pair (fun i => (p i).m) nbrs hnd hsymm (fun i acc j => pair_GD_MPMAccelerations o k self_beta acc (p i) (p j))
      (fun s => s.d_av) init (fun i => (hinit i).2.1)
      (fun i j acc acc' => (additive_GD_MPMAccelerations o k self_beta acc acc' (p i) (p j)).2.1)
      (fun i j acc acc' => (pair_antisym_GD_MPMAccelerations o k hk self_beta acc acc' (p i) (p j) (hm i) (hm j)).2.1)
  · exact linear_momentum_of_pair (fun i => (p i).m) nbrs hnd hsymm (fun i acc j => pair_GD_MPMAccelerations o k self_beta acc (p i) (p j))
      (fun s => s.d_aw) init (fun i => (hinit i).2.2)
      (fun i j acc acc' => (additive_GD_MPMAccelerations o k self_beta acc acc' (p i) (p j)).2.2)
      (fun i j acc acc' => (pair_antisym_GD_MPMAccelerations o k hk self_beta acc acc' (p i) (p j) (hm i) (hm j)).2.2)

include hk in
/-- closed system: `Σ m x × a = 0` (three components) -/
theorem angular_momentum_GD_MPMAccelerations {ι : Type} [Fintype ι] [DecidableEq ι] (p : ι → P K)
    (nbrs : ι → List ι) (hnd : ∀ i, (nbrs i).Nodup) (hsymm : ∀ i j, j ∈ nbrs i → i ∈ nbrs j)
    (init : ι → Out_GD_MPMAccelerations K) (hinit : ∀ i, (init i).d_au = 0 ∧ (init i).d_av = 0 ∧ (init i).d_aw = 0) (hm : ∀ i, (p i).m ≠ 0) :
    (∑ i, (p i).m * ((p i).x * ((nbrs i).foldl (fun acc j => pair_GD_MPMAccelerations o k self_beta acc (p i) (p j)) (init i)).d_av - (p i).y * ((nbrs i).foldl (fun acc j => pair_GD_MPMAccelerations o k self_beta acc (p i) (p j)) (init i)).d_au) = 0) ∧
    (∑ i, (p i).m * ((p i).y * ((nbrs i).foldl (fun acc j => pair_GD_MPMAccelerations o k self_beta acc (p i) (p j)) (init i)).d_aw - (p i).z * ((nbrs i).foldl (fun acc j => pair_GD_MPMAccelerations o k self_beta acc (p i) (p j)) (init i)).d_av) = 0) ∧
    (∑ i, (p i).m * ((p i).z * ((nbrs i).foldl (fun acc j => pair_GD_MPMAccelerations o k self_beta acc (p i) (p j)) (init i)).d_au - (p i).x * ((nbrs i).foldl (fun acc j => pair_GD_MPMAccelerations o k self_beta acc (p i) (p j)) (init i)).d_aw) = 0) := by
  refine ⟨?_, ?_, ?_⟩
  · exact angular_momentum_of_pair (fun i => (p i).m) (fun i => (p i).x) (fun i => (p i).y) nbrs hnd hsymm
      (fun i acc j => pair_GD_MPMAccelerations o k self_beta acc (p i) (p j)) (fun s => s.d_au) (fun s => s.d_av) init
      (fun i => (hinit i).1) (fun i => (hinit i).2.1)
      (fun i j acc acc' => (additive_GD_MPMAccelerations o k self_beta acc acc' (p i) (p j)).1)
      (fun i j acc acc' => (additive_GD_MPMAccelerations o k self_beta acc acc' (p i) (p j)).2.1)
      (fun i j acc acc' => (pair_antisym_GD_MPMAccelerations o k hk self_beta acc acc' (p i) (p j) (hm i) (hm j)).1)
      (fun i j acc acc' => (pair_antisym_GD_MPMAccelerations o k hk self_beta acc acc' (p i) (p j) (hm i) (hm j)).2.1)
      (fun i j acc => (central_GD_MPMAccelerations o k hk self_beta acc (p i) (p j)).1)
  · exact angular_momentum_of_pair (fun i => (p i).m) (fun i => (p i).y) (fun i => (p i).z) nbrs hnd hsymm
      (fun i acc j => pair_GD_MPMAccelerations o k self_beta acc (p i) (p j)) (fun s => s.d_av) (fun s => s.d_aw) init
      (fun i => (hinit i).2.1) (fun i => (hinit i).2.2)
      (fun i j acc acc' => (additive_GD_MPMAccelerations o k self_beta acc acc' (p i) (p j)).2.1)
      (fun i j acc acc' => (additive_GD_MPMAccelerations o k self_beta acc acc' (p i) (p j)).2.2)
      (fun i j acc acc' => (pair_antisym_GD_MPMAccelerations o k hk self_beta acc acc' (p i) (p j) (hm i) (hm j)).2.1)
      (fun i j acc acc' => (pair_antisym_GD_MPMAccelerations o k hk self_beta acc acc' (p i) (p j) (hm i) (hm j)).2.2)
      (fun i j acc => (central_GD_MPMAccelerations o k hk self_beta acc (p i) (p j)).2.1)
  · exact angular_momentum_of_pair (fun i => (p i).m) (fun i => (p i).z) (fun i => (p i).x) nbrs hnd hsymm
      (fun i acc j => pair_GD_MPMAccelerations o k self_beta acc (p i) (p j)) (fun s => s.d_aw) (fun s => s.d_au) init
      (fun i => (hinit i).2.2) (fun i => (hinit i).1)
      (fun i j acc acc' => (additive_GD_MPMAccelerations o k self_beta acc acc' (p i) (p j)).2.2)
      (fun i j acc acc' => (additive_GD_MPMAccelerations o k self_beta acc acc' (p i) (p j)).1)
      (fun i j acc acc' => (pair_antisym_GD_MPMAccelerations o k hk self_beta acc acc' (p i) (p j) (hm i) (hm j)).2.2)
      (fun i j acc acc' => (pair_antisym_GD_MPMAccelerations o k hk self_beta acc acc' (p i) (p j) (hm i) (hm j)).1)
      (fun i j acc => (central_GD_MPMAccelerations o k hk self_beta acc (p i) (p j)).2.2)

end GD_MPMAccelerations

/-! ## `pysph/sph/solid_mech/basic.py.MomentumEquationWithStress` (SM_MomentumEquationWithStress) -/
section SM_MomentumEquationWithStress
variable (o : Ops K) (k : Kern K) {w g : K → K → K} (hk : Radial k w g) 

/-- the contribution of a pair to the accumulated acceleration does not depend on the accumulator -/
theorem additive_SM_MomentumEquationWithStress (acc acc' : Out_SM_MomentumEquationWithStress K) (a b : P K) :
    ((pair_SM_MomentumEquationWithStress o k  acc a b).d_au - acc.d_au) = ((pair_SM_MomentumEquationWithStress o k  acc' a b).d_au - acc'.d_au) ∧
    ((pair_SM_MomentumEquationWithStress o k  acc a b).d_av - acc.d_av) = ((pair_SM_MomentumEquationWithStress o k  acc' a b).d_av - acc'.d_av) ∧
    ((pair_SM_MomentumEquationWithStress o k  acc a b).d_aw - acc.d_aw) = ((pair_SM_MomentumEquationWithStress o k  acc' a b).d_aw - acc'.d_aw) := by
  refine ⟨?_, ?_, ?_⟩ <;>
  · simp only [pair_SM_MomentumEquationWithStress]
    c09_atoms o k a b
    simp only [loop_SM_MomentumEquationWithStress]
    c09_norm
    c09_close

include hk in
/-- `m_a · contrib(a, b) = −(m_b · contrib(b, a))`, component by component — the array constants `wdeltap`, `n` must agree between the arrays -/
theorem pair_antisym_SM_MomentumEquationWithStress (acc acc' : Out_SM_MomentumEquationWithStress K) (a b : P K) (hw : a.c_wdeltap = b.c_wdeltap) (hn : a.c_n = b.c_n) :
    a.m * ((pair_SM_MomentumEquationWithStress o k  acc a b).d_au - acc.d_au) = -(b.m * ((pair_SM_MomentumEquationWithStress o k  acc' b a).d_au - acc'.d_au)) ∧
    a.m * ((pair_SM_MomentumEquationWithStress o k  acc a b).d_av - acc.d_av) = -(b.m * ((pair_SM_MomentumEquationWithStress o k  acc' b a).d_av - acc'.d_av)) ∧
    a.m * ((pair_SM_MomentumEquationWithStress o k  acc a b).d_aw - acc.d_aw) = -(b.m * ((pair_SM_MomentumEquationWithStress o k  acc' b a).d_aw - acc'.d_aw)) := by
  refine ⟨?_, ?_, ?_⟩ <;>
  · simp only [pair_SM_MomentumEquationWithStress]
    c09_swap o k a b hk
    c09_atoms o k a b
    simp only [loop_SM_MomentumEquationWithStress, hw, hn]
    c09_norm
    c09_close

include hk in
/-- closed system: evaluating the equation for every particle over a symmetric neighbour relation
gives `Σ m a = 0` -/
theorem linear_momentum_SM_MomentumEquationWithStress {ι : Type} [Fintype ι] [DecidableEq ι] (p : ι → P K)
    (nbrs : ι → List ι) (hnd : ∀ i, (nbrs i).Nodup) (hsymm : ∀ i j, j ∈ nbrs i → i ∈ nbrs j)
    (init : ι → Out_SM_MomentumEquationWithStress K) (hinit : ∀ i, (init i).d_au = 0 ∧ (init i).d_av = 0 ∧ (init i).d_aw = 0) (hw_all : ∀ i j, (p i).c_wdeltap = (p j).c_wdeltap) (hn_all : ∀ i j, (p i).c_n = (p j).c_n) :
    ∑ i, (p i).m * ((nbrs i).foldl (fun acc j => pair_SM_MomentumEquationWithStress o k  acc (p i) (p j)) (init i)).d_au = 0 ∧
    ∑ i, (p i).m * ((nbrs i).foldl (fun acc j => pair_SM_MomentumEquationWithStress o k  acc (p i) (p j)) (init i)).d_av = 0 ∧
    ∑ i, (p i).m * ((nbrs i).foldl (fun acc j => pair_SM_MomentumEquationWithStress o k  acc (p i) (p j)) (init i)).d_aw = 0 := by
  refine ⟨?_, ?_, ?_⟩
  · exact linear_momentum_of_pair (fun i => (p i).m) nbrs hnd hsymm (fun i acc j => pair_SM_MomentumEquationWithStress o k  acc (p i) (p j))
      (fun s => s.d_au) init (fun i => (hinit i).1)
      (fun i j acc acc' => (additive_SM_MomentumEquationWithStress o k  acc acc' (p i) (p j)).1)
      (fun i j acc acc' => (pair_antisym_SM_MomentumEquationWithStress o k hk  acc acc' (p i) (p j) (hw_all i j) (hn_all i j)).1)
  · exact linear_momentum_of_pair (fun i => (p i).m) nbrs hnd hsymm (fun i acc j => pair_SM_MomentumEquationWithStress o k  acc (p i) (p j))
      (fun s => s.d_av) init (fun i => (hinit i).2.1)
      (fun i j acc acc' => (additive_SM_MomentumEquationWithStress o k  acc acc' (p i) (p j)).2.1)
      (fun i j acc acc' => (pair_antisym_SM_MomentumEquationWithStress o k hk  acc acc' (p i) (p j) (hw_all i j) (hn_all i j)).2.1)
  · exact linear_momentum_of_pair (fun i => (p i).m) nbrs hnd hsymm (fun i acc j => pair_SM_MomentumEquationWithStress o k  acc (p i) (p j))
      (fun s => s.d_aw) init (fun i => (hinit i).2.2)
      (fun i j acc acc' => (additive_SM_MomentumEquationWithStress o k  acc acc' (p i) (p j)).2.2)
      (fun i j acc acc' => (pair_antisym_SM_MomentumEquationWithStress o k hk  acc acc' (p i) (p j) (hw_all i j) (hn_all i j)).2.2)

end SM_MomentumEquationWithStress

/-! ## summation density -/
section density
variable (o : Ops K) (k : Kern K) {w g : K → K → K} (hk : Radial k w g)

theorem R2IJ_self (a : P K) : pre_R2IJ o k a a = 0 := by
  simp only [pre_R2IJ, pre_XIJ_0, pre_XIJ_1, pre_XIJ_2]; ring
theorem HIJ_self (a : P K) : pre_HIJ o k a a = a.h := by
  simp only [pre_HIJ, Nat.cast_one, Nat.cast_ofNat]; ring

include hk in
/-- one step of `basic_equations.SummationDensity`: `rho += m_b W(r_ab, h_ab)` -/
theorem step_BE_SummationDensity (acc : Out_BE_SummationDensity K) (a b : P K) :
    (pair_BE_SummationDensity o k acc a b).d_rho
      = acc.d_rho + b.m * w (pre_RIJ o k a b) (pre_HIJ o k a b) := by
  simp only [pair_BE_SummationDensity, loop_BE_SummationDensity, pre_WIJ, hk.kernel_eq]

include hk in
/-- Summation density is at least `m_i W(0, h_i)`, hence strictly positive,
wherever a particle sees itself (non-negative kernel, non-negative masses). -/
theorem summation_density_pos_BE {ι : Type} (p : ι → P K) (nbrs : List ι) (i : ι) (hi : i ∈ nbrs)
    (hm : ∀ j ∈ nbrs, 0 ≤ (p j).m) (hmi : 0 < (p i).m)
    (hw : ∀ r h, 0 ≤ w r h) (hw0 : 0 < w (o.sqrt 0) (p i).h)
    (init : Out_BE_SummationDensity K) (hinit : init.d_rho = 0) :
    (p i).m * w (o.sqrt 0) (p i).h
        ≤ (nbrs.foldl (fun acc j => pair_BE_SummationDensity o k acc (p i) (p j)) init).d_rho ∧
    0 < (nbrs.foldl (fun acc j => pair_BE_SummationDensity o k acc (p i) (p j)) init).d_rho := by
  have key := foldl_ge_single (fun s : Out_BE_SummationDensity K => s.d_rho)
    (fun acc j => pair_BE_SummationDensity o k acc (p i) (p j))
    (fun j => (p j).m * w (pre_RIJ o k (p i) (p j)) (pre_HIJ o k (p i) (p j)))
    (fun acc j => step_BE_SummationDensity o k hk acc (p i) (p j)) nbrs init hinit
    (fun j hj => mul_nonneg (hm j hj) (hw _ _)) i hi
  simp only [pre_RIJ, R2IJ_self, HIJ_self] at key
  exact ⟨key, lt_of_lt_of_le (mul_pos hmi hw0) key⟩

include hk in
/-- one step of `transport_velocity.SummationDensity`: `rho += m_a W`, `V += W` -/
theorem step_TV_SummationDensity (acc : Out_TV_SummationDensity K) (a b : P K) :
    (pair_TV_SummationDensity o k acc a b).d_rho
      = acc.d_rho + a.m * w (pre_RIJ o k a b) (pre_HIJ o k a b) ∧
    (pair_TV_SummationDensity o k acc a b).d_V
      = acc.d_V + w (pre_RIJ o k a b) (pre_HIJ o k a b) := by
  simp only [pair_TV_SummationDensity, loop_TV_SummationDensity, pre_WIJ, hk.kernel_eq, and_self]

include hk in
theorem summation_density_pos_TV {ι : Type} (p : ι → P K) (nbrs : List ι) (i : ι) (hi : i ∈ nbrs)
    (hmi : 0 < (p i).m)
    (hw : ∀ r h, 0 ≤ w r h) (hw0 : 0 < w (o.sqrt 0) (p i).h)
    (init : Out_TV_SummationDensity K) (hinit : init.d_rho = 0 ∧ init.d_V = 0) :
    0 < (nbrs.foldl (fun acc j => pair_TV_SummationDensity o k acc (p i) (p j)) init).d_rho ∧
    0 < (nbrs.foldl (fun acc j => pair_TV_SummationDensity o k acc (p i) (p j)) init).d_V := by
  have k1 := foldl_ge_single (fun s : Out_TV_SummationDensity K => s.d_rho)
    (fun acc j => pair_TV_SummationDensity o k acc (p i) (p j))
    (fun j => (p i).m * w (pre_RIJ o k (p i) (p j)) (pre_HIJ o k (p i) (p j)))
    (fun acc j => (step_TV_SummationDensity o k hk acc (p i) (p j)).1) nbrs init hinit.1
    (fun j hj => mul_nonneg hmi.le (hw _ _)) i hi
  have k2 := foldl_ge_single (fun s : Out_TV_SummationDensity K => s.d_V)
    (fun acc j => pair_TV_SummationDensity o k acc (p i) (p j))
    (fun j => w (pre_RIJ o k (p i) (p j)) (pre_HIJ o k (p i) (p j)))
    (fun acc j => (step_TV_SummationDensity o k hk acc (p i) (p j)).2) nbrs init hinit.2
    (fun j hj => hw _ _) i hi
  simp only [pre_RIJ, R2IJ_self, HIJ_self] at k1 k2
  exact ⟨lt_of_lt_of_le (mul_pos hmi hw0) k1, lt_of_lt_of_le hw0 k2⟩

end density

/-! ## non-vacuity and a counterexample (concrete rationals; these are examples, not the claim) -/
section concrete

/-- a concrete radial kernel over ℚ: `W = 1`, `∇W = x` -/
def kq : Kern ℚ := ⟨fun _ _ _ _ _ => 1, fun x _ _ _ _ => x, fun _ y _ _ _ => y, fun _ _ z _ _ => z,
  fun _ _ => 0, fun _ _ _ _ _ => 0, 1⟩
def oq : Ops ℚ := ⟨fun x => x, fun x => |x|, fun x _ => x⟩
theorem kq_radial : Radial kq (fun _ _ => 1) (fun _ _ => 1) :=
  ⟨fun _ _ _ _ _ => rfl, fun _ _ _ _ _ => (one_mul _).symm, fun _ _ _ _ _ => (one_mul _).symm,
   fun _ _ _ _ _ => (one_mul _).symm⟩

def qa : P ℚ := { V := 1, alpha1 := 1, alpha2 := 1, c_n := 1, c_wdeltap := 1, cs := 1, div := 1, e := 1, h := 1, m := 1, omega := 1, p := 2, pavg := 0, r00 := 1, r01 := 1, r02 := 1, r11 := 1, r12 := 1, r22 := 1, rho := 1, s00 := 1, s01 := 1, s02 := 1, s11 := 1, s12 := 1, s22 := 1, u := 1, uhat := 1, v := 0, vhat := 1, w := 0, what := 1, x := 0, y := 0, z := 0 }
def qb : P ℚ := { V := 1, alpha1 := 1, alpha2 := 1, c_n := 1, c_wdeltap := 1, cs := 1, div := 1, e := 1, h := 1, m := 2, omega := 1, p := 3, pavg := 5, r00 := 1, r01 := 1, r02 := 1, r11 := 1, r12 := 1, r22 := 1, rho := 2, s00 := 1, s01 := 1, s02 := 1, s11 := 1, s12 := 1, s22 := 1, u := 0, uhat := 1, v := 0, vhat := 1, w := 0, what := 1, x := 1, y := 1/2, z := 0 }

/-- a two-particle closed system meeting every hypothesis of the system-level theorems -/
def qsys : Fin 2 → P ℚ := fun i => if i = 0 then qa else qb
def qnbrs : Fin 2 → List (Fin 2) := fun _ => [0, 1]
example : (∀ i, (qnbrs i).Nodup) ∧ (∀ i j, j ∈ qnbrs i → i ∈ qnbrs j) ∧ (∀ i, (qsys i).m ≠ 0) := by
  decide +kernel

/-- the pair contributions are not trivially zero (approaching pair: the viscous branch is taken) -/
example : (pair_WC_MomentumEquation oq kq 1 1 1 false ⟨0, 0, 0, 0⟩ qa qb).d_au ≠ 0 ∧
    (pair_TV_MomentumEquationViscosity oq kq 1 ⟨0, 0, 0⟩ qa qb).d_au ≠ 0 ∧
    (pair_GD_MPMAccelerations oq kq 2 ⟨0, 0, 0, 0, 0, 0⟩ qa qb).d_au ≠ 0 ∧
    (pair_SM_MomentumEquationWithStress oq kq ⟨0, 0, 0⟩ qa qb).d_au ≠ 0 := by
  decide +kernel

/-- and they are antisymmetric on this instance, as `pair_antisym_WC_MomentumEquation` says -/
example : qa.m * (pair_WC_MomentumEquation oq kq 1 1 1 false ⟨0, 0, 0, 0⟩ qa qb).d_au
    = -(qb.m * (pair_WC_MomentumEquation oq kq 1 1 1 false ⟨0, 0, 0, 0⟩ qb qa).d_au) := by
  decide +kernel

/-- The EDAC pressure-gradient form `edac.MomentumEquationPressureGradient`
subtracts the *destination's* average pressure: with different `pavg` on the two
particles the pair contributions are NOT antisymmetric — it is not written in
pair-symmetric form, and `pair_antisym_ED_MomentumEquationPressureGradient`
needs its hypothesis. -/
theorem ED_MomentumEquationPressureGradient_not_pair_symmetric :
    ¬ (qa.m * (pair_ED_MomentumEquationPressureGradient oq kq 0 ⟨0, 0, 0, 0, 0, 0⟩ qa qb).d_au
      = -(qb.m * (pair_ED_MomentumEquationPressureGradient oq kq 0 ⟨0, 0, 0, 0, 0, 0⟩ qb qa).d_au)) := by
  decide +kernel

end concrete

/-! ## The neighbour lists as they reach the equations

The system-level theorems above take a duplicate-free symmetric neighbour
relation as a hypothesis.  Two layers of `pysph/base` sit between the search's
criterion (`nbr_criterion_symm`) and the lists `AccelerationEval.compute`
iterates over; both are exercised by the executed-conservation oracle of the
harness (every NNPS class × its options × cache on/off × histories with
particles removed and added between evaluations on the same objects).

* the neighbour cache (`Model/NbrCacheHist.lean`): one `NeighborCache` object
  serves all evaluations of a run, its flag/offset arrays are resized and
  re-used when the population changes;
* the cell masks whose width depends on an option (`Lemmas/NbrMask.lean`). -/
section NeighbourLayer
open PysphVerif.NbrCacheHist PysphVerif.NbrMask

/-- `NeighborCache.update()` leaves no current particle flagged as cached —
for every earlier state of the object (any history of sizes and queries) and
whatever freshly allocated memory contains. -/
theorem cache_update_clears_every_current_flag (junk : ℕ → ℕ) (s : St) (np d : ℕ) (hd : d < np) :
    (update junk s np).cached.get d = 0 :=
  update_clears junk s np d hd

/-- One round (NNPS update, then any sequence of `get_neighbors` of current
particles and `find_all_neighbors`) on a cache object in ANY earlier state
hands out exactly the lists of the search. -/
theorem cache_round_serves_search (junk : ℕ → ℕ) (s : St) (r : Round)
    (hr : opsInRange r.np r.ops) :
    (runRound junk s r).2 = specOps r.find r.ops :=
  (runOps_spec r.find r.np r.ops _ hr (inv_update junk r.find s r.np)).2

/-- Whole histories: population sizes going up and down in any order, any
search per round, any queries — the cache never hands out anything but the
current search's list. -/
theorem cache_history_serves_search (junk : ℕ → ℕ) (h : List Round) (s : St)
    (hr : ∀ r ∈ h, opsInRange r.np r.ops) :
    runHist junk s h = specHist h := by
  induction h generalizing s with
  | nil => rfl
  | cons r rest ih =>
    simp only [runHist, specHist, List.map_cons]
    rw [cache_round_serves_search junk s r (hr r (List.mem_cons_self ..))]
    congr 1
    exact ih _ (fun r' hr' => hr r' (List.mem_cons_of_mem _ hr'))

/-- every state a round can be in satisfies the invariant of the cache -/
theorem cache_state_inv (junk : ℕ → ℕ) (s : St) (np : ℕ) (find : ℕ → List ℕ) (ops : List Op)
    (hr : opsInRange np ops) :
    Inv find np (runOps find np (update junk s np) ops).1 :=
  (runOps_spec find np ops _ hr (inv_update junk find s np)).1

/-- Symmetry and duplicate-freeness of the search survive the cache: in any
state of a round, what particle `d` is handed contains `e` only if what `e` is
handed (later, from the then-current state) contains `d`. -/
theorem cache_lists_symmetric (find : ℕ → List ℕ) (np : ℕ) (s : St) (hs : Inv find np s)
    (hsymm : ∀ d e, d < np → e < np → e ∈ find d → d ∈ find e) (hnd : ∀ d, (find d).Nodup)
    (d e : ℕ) (hd : d < np) (he : e < np) :
    ((getNeighbors find s d).2).Nodup ∧
    (e ∈ (getNeighbors find s d).2 → d ∈ (getNeighbors find (getNeighbors find s d).1 e).2) := by
  obtain ⟨hi, hv⟩ := getNeighbors_spec find np s d hd hs
  obtain ⟨_, hv'⟩ := getNeighbors_spec find np _ e he hi
  rw [hv, hv']
  exact ⟨hnd d, hsymm d e hd he⟩

variable (o : Ops K) (k : Kern K) {w g : K → K → K} (hk : Radial k w g)

include hk in
/-- Conservation through the cache: `n` particles, the search's relation
duplicate-free and symmetric; every particle takes its list from the cache in
whatever state the cache is at that moment of the round (`st i`, any state
with the invariant — `cache_state_inv`: after any history).  The WCSPH momentum
equation evaluated over the lists handed out gives `Σ m a = 0`. -/
theorem linear_momentum_WC_MomentumEquation_through_cache
    (self_alpha self_beta self_c0 : K) (self_tensile_correction : Bool) {n : ℕ}
    (pn : ℕ → P K) (nbrs : Fin n → List (Fin n)) (hnd : ∀ i, (nbrs i).Nodup)
    (hsymm : ∀ i j, j ∈ nbrs i → i ∈ nbrs j)
    (find : ℕ → List ℕ) (hfind : ∀ i : Fin n, find i = (nbrs i).map Fin.val)
    (st : Fin n → St) (hst : ∀ i, Inv find n (st i))
    (init : Fin n → Out_WC_MomentumEquation K)
    (hinit : ∀ i, (init i).d_au = 0 ∧ (init i).d_av = 0 ∧ (init i).d_aw = 0) :
    ∑ i : Fin n, (pn i).m * (((getNeighbors find (st i) i).2).foldl (fun acc j => pair_WC_MomentumEquation o k self_alpha self_beta self_c0 self_tensile_correction acc (pn i) (pn j)) (init i)).d_au = 0 ∧
    ∑ i : Fin n, (pn i).m * (((getNeighbors find (st i) i).2).foldl (fun acc j => pair_WC_MomentumEquation o k self_alpha self_beta self_c0 self_tensile_correction acc (pn i) (pn j)) (init i)).d_av = 0 ∧
    ∑ i : Fin n, (pn i).m * (((getNeighbors find (st i) i).2).foldl (fun acc j => pair_WC_MomentumEquation o k self_alpha self_beta self_c0 self_tensile_correction acc (pn i) (pn j)) (init i)).d_aw = 0 := by
  have hserved : ∀ i : Fin n, (getNeighbors find (st i) i).2 = (nbrs i).map Fin.val := fun i => by
    rw [(getNeighbors_spec find n (st i) i i.isLt (hst i)).2, hfind i]
  simp only [hserved, List.foldl_map]
  exact linear_momentum_WC_MomentumEquation o k hk self_alpha self_beta self_c0
    self_tensile_correction (fun i : Fin n => pn i) nbrs hnd hsymm init hinit

/-- The statement about histories rests on the FULL clear in `update`: a cache
that clears only the flags of the previous round's slots (and never shrinks
the flag array) hands particle 1 an empty list after the history
2 particles → 1 particle → 2 particles, although the search finds `[0, 1]`. -/
theorem cache_keeping_flags_goes_stale :
    ∃ h : List Round, (∀ r ∈ h, opsInRange r.np r.ops) ∧
      runHistKeepFlags (fun _ => 0) (init (fun _ => 0) 2) h ≠ specHist h := by
  refine ⟨[⟨2, fun _ => [0, 1], [.get 0, .get 1]⟩, ⟨1, fun _ => [0], [.get 0]⟩,
           ⟨2, fun _ => [0, 1], [.get 0, .get 1]⟩], ?_, by decide⟩
  intro r hr
  simp only [List.mem_cons, List.mem_nil_iff, or_false] at hr
  rcases hr with rfl | rfl | rfl <;> simp [opsInRange]

/-- the same history on the code as it is: served = searched (an instance of
`cache_history_serves_search`, evaluated) -/
example :
    runHist (fun _ => 7) (init (fun _ => 7) 2)
      [⟨2, fun _ => [0, 1], [.get 0, .get 1]⟩, ⟨1, fun _ => [0], [.all, .get 0]⟩,
       ⟨2, fun _ => [0, 1], [.get 1, .get 0, .get 1]⟩]
      = [[[0, 1], [0, 1]], [[0]], [[0, 1], [0, 1], [0, 1]]] := by
  decide

/-- A cell-mask search reaches, along every axis, the cell of every particle
that meets the neighbour criterion (`dx² + dy² + dz² < R²`, `R` the larger of
the two cut-offs, each at most the reach `r` the mask was sized for) when its
half-width is `ceil(r / cell_size)`. -/
theorem cell_mask_covers_criterion [FloorRing K] (c r R : K) (hc : 0 < c) (hR : R ≤ r) (hR0 : 0 ≤ R)
    (xq yq zq xj yj zj : K)
    (hcrit : (xq - xj) * (xq - xj) + (yq - yj) * (yq - yj) + (zq - zj) * (zq - zj) < R * R) :
    |cellId xj c - cellId xq c| ≤ ⌈r / c⌉ ∧ |cellId yj c - cellId yq c| ≤ ⌈r / c⌉ ∧
    |cellId zj c - cellId zq c| ≤ ⌈r / c⌉ := by
  have axis : ∀ u : K, u * u < R * R → |u| ≤ r := fun u hu =>
    le_trans (le_of_lt (abs_lt_of_sq_lt_sq (by simpa [sq] using hu) hR0)) hR
  refine ⟨cell_mask_covers c r xj xq hc ?_, cell_mask_covers c r yj yq hc ?_,
          cell_mask_covers c r zj zq hc ?_⟩
  · rw [abs_sub_comm]; exact axis _ (by nlinarith [mul_self_nonneg (yq - yj), mul_self_nonneg (zq - zj)])
  · rw [abs_sub_comm]; exact axis _ (by nlinarith [mul_self_nonneg (xq - xj), mul_self_nonneg (zq - zj)])
  · rw [abs_sub_comm]; exact axis _ (by nlinarith [mul_self_nonneg (xq - xj), mul_self_nonneg (yq - yj)])

/-- `StratifiedHashNNPS`: with the mask half-width of the source,
`ceil(max(radius_scale·h_q, hmax_level)·H / hmax_level)` on cells of size
`hmax_level / H`, BOTH partners of a pair that meets the criterion reach each
other's cell on the grid of the other's level — for every sub-division `H ≥ 1`
and any two levels.  (Per axis; `cell_mask_covers_criterion` reduces the
Euclidean criterion to the axes.) -/
theorem strat_hash_mask_reaches_both_ways [FloorRing K] (xa xb ra rb hla hlb : K) (Hopt : ℕ)
    (hH : 0 < Hopt) (hla0 : 0 < hla) (hlb0 : 0 < hlb) (ha : ra ≤ hla) (hb : rb ≤ hlb)
    (hcrit : |xa - xb| < max ra rb) :
    |cellId xb (hlb / Hopt) - cellId xa (hlb / Hopt)| ≤ stratMaskWidth ra hlb Hopt ∧
    |cellId xa (hla / Hopt) - cellId xb (hla / Hopt)| ≤ stratMaskWidth rb hla Hopt :=
  ⟨strat_mask_covers xa xb ra rb hlb Hopt hH hlb0 hb hcrit,
   strat_mask_covers xb xa rb ra hla Hopt hH hla0 ha (by rw [abs_sub_comm, max_comm]; exact hcrit)⟩

/-- … and the option cannot be dropped from the width: see
`PysphVerif.NbrMask.strat_mask_without_H_misses` (restated). -/
theorem strat_hash_mask_needs_H :
    |(0 : ℚ) - 5 / 2| < max 3 3 ∧
    ¬ (|cellId (5 / 2 : ℚ) (3 / (3 : ℕ)) - cellId (0 : ℚ) (3 / (3 : ℕ))| ≤ stratMaskWidthNoH (3 : ℚ) 3) ∧
    |cellId (5 / 2 : ℚ) (3 / (3 : ℕ)) - cellId (0 : ℚ) (3 / (3 : ℕ))| ≤ stratMaskWidth (3 : ℚ) 3 3 :=
  strat_mask_without_H_misses

end NeighbourLayer


section PeriodicLayer
open PysphVerif.PeriodicGhosts

/-- Periodic box, any number of arrays of any resolutions: with the image layer
of `_create_ghosts_periodic` — the SAME depth `n_layers * cell_size` for every
array, `cell_size = radius_scale * hmax` over all arrays (or the fallback
`1.0`), `n_layers ≥ 1` — real particle `i` has `j` or an image of `j` in its
neighbour list exactly as often as `j` has `i` or an image of `i`, whatever
arrays the two belong to (`h_i, h_j ≤ hmax`).  Per periodic axis; the sums of
the conservation theorems then pair every force on a real particle with its
reaction on a real particle. -/
theorem periodic_pair_seen_equally (nLayers k tiny hmax cell lo hi xi h_i xj h_j : K)
    (hn : 1 ≤ nLayers) (hk : 0 ≤ k) (htiny : tiny ≤ 1)
    (hcell : cell = if k * hmax < tiny then 1 else k * hmax)
    (hxi : lo ≤ xi ∧ xi ≤ hi) (hxj : lo ≤ xj ∧ xj ≤ hi)
    (hi0 : 0 ≤ h_i) (hj0 : 0 ≤ h_j) (hih : h_i ≤ hmax) (hjh : h_j ≤ hmax) :
    seen k lo hi (depth nLayers cell) xi h_i xj h_j =
    seen k lo hi (depth nLayers cell) xj h_j xi h_i :=
  seen_symm k lo hi _ xi h_i xj h_j hxi hxj (mul_nonneg hk hi0) (mul_nonneg hk hj0)
    (depth_covers nLayers k tiny h_i hmax cell hn hk hih (le_trans hi0 hih) htiny hcell)
    (depth_covers nLayers k tiny h_j hmax cell hn hk hjh (le_trans hj0 hjh) htiny hcell)

/-- the mechanism: whenever `i` meets the criterion with the image of `j`
beyond the high face, that image has been made and so has the image of `i`
beyond the low face (which `j` then meets the criterion with) -/
theorem periodic_image_reaction_exists (k lo hi d xi h_i xj h_j : K) (hxi : xi ≤ hi) (hxj : lo ≤ xj)
    (hi0 : 0 ≤ k * h_i) (hj0 : 0 ≤ k * h_j) (hid : k * h_i ≤ d) (hjd : k * h_j ≤ d)
    (h : crit k h_i h_j ((xi - (xj + (hi - lo))) * (xi - (xj + (hi - lo)))) = true) :
    lowSel lo d xj = true ∧ highSel hi d xi = true ∧
    crit k h_j h_i ((xj - (xi + -(hi - lo))) * (xj - (xi + -(hi - lo)))) = true := by
  obtain ⟨h1, h2⟩ := crit_image_pair k lo hi d xi h_i xj h_j hxi hxj hi0 hj0 hid hjd h
  refine ⟨h1, h2, ?_⟩
  have e : (xj - (xi + -(hi - lo))) * (xj - (xi + -(hi - lo)))
      = (xi - (xj + (hi - lo))) * (xi - (xj + (hi - lo))) := by ring
  rw [e, crit_comm]; exact h

/-- … and the depth must not be sized from the array's own largest `h`
(counterexample): unit box, `radius_scale = 2`, `n_layers = 2`; a fine
particle `a` (`h = 1/100`) at `9/10` and a coarse particle `b` (`h = 1/10`) of
another array at `1/20`.  `a` has the image of `b` (at `21/20`, `3/20` away,
criterion `< 2/10`) as neighbour; with a layer of depth `2*2*(1/100)` for the
fine array no image of `a` exists and `b` has no neighbour: the pair force has
no reaction.  With the common depth of the code both see each other once. -/
theorem own_h_image_depth_loses_reaction :
    seen (2 : ℚ) 0 1 (ownDepth 2 2 (1 / 10)) (9 / 10) (1 / 100) (1 / 20) (1 / 10) = 1 ∧
    seen (2 : ℚ) 0 1 (ownDepth 2 2 (1 / 100)) (1 / 20) (1 / 10) (9 / 10) (1 / 100) = 0 ∧
    seen (2 : ℚ) 0 1 (depth 2 (2 * (1 / 10))) (9 / 10) (1 / 100) (1 / 20) (1 / 10) = 1 ∧
    seen (2 : ℚ) 0 1 (depth 2 (2 * (1 / 10))) (1 / 20) (1 / 10) (9 / 10) (1 / 100) = 1 := by
  refine ⟨?_, ?_, ?_, ?_⟩ <;>
    (simp only [seen, crit, lowSel, highSel, ownDepth, depth]; norm_num)

/-- non-vacuity of `periodic_pair_seen_equally`: the same two particles, the
hypotheses hold and the count is 1 (not 0) -/
example : seen (2 : ℚ) 0 1 (depth 2 (if (2 : ℚ) * (1 / 10) < 1 / 1000000 then 1 else 2 * (1 / 10)))
    (9 / 10) (1 / 100) (1 / 20) (1 / 10) = 1 := by
  simp only [seen, crit, lowSel, highSel, depth]; norm_num

end PeriodicLayer

end PysphVerif.C09
