import PysphVerif.Lemmas.PairSym
/-!
# C09 — pair-symmetric momentum equations conserve linear and angular momentum

Everything below is about the definitions of `Gen/C09Equations.lean`, which
`translate/c09_equations2lean.py` regenerates from the current source of the
equations' `loop` bodies and of `equation.py::precomputed_symbols()` on every
run.  Numbers: any linearly ordered field `K`; `sqrt/abs/pow` (`Ops K`) and the
kernel (`Kern K`) are arbitrary functions, the kernel constrained only to the
radial shape `Radial k w g` (`W = w(r,h)`, `∇W = g(r,h)·x`).

* general: `sum_pair_antisym_eq_zero`, `torque_zero_of_central`,
  `dwij_antisym`, `dwi_dwj_swap`, `nbr_criterion_symm`;
* per equation `T`: `additive_T` (the neighbour loop is a sum),
  `pair_antisym_T` (`m_a·contrib(a,b) = −m_b·contrib(b,a)`; branch conditions
  such as `v_ab·x_ab < 0` are shown symmetric inside), `central_T` where the
  force is along `x_ab`, and the closed-system corollaries
  `linear_momentum_T`, `angular_momentum_T` for every finite particle set,
  every symmetric duplicate-free neighbour relation and every parameter value;
* `summation_density_pos_*`.

The closed system is indexed by an arbitrary finite type `ι`: several mutually
interacting particle arrays are the disjoint union of their index sets, the
neighbour list of a particle being the concatenation of its neighbours in every
source array (the order does not matter in a field).
-/
set_option linter.unusedSectionVars false
set_option linter.unusedVariables false
set_option linter.unusedSimpArgs false
set_option linter.unusedTactic false
set_option linter.unreachableTactic false
namespace PysphVerif.C09
open PysphVerif.PairSym PysphVerif.Gen.C09

variable {K : Type} [Field K] [LinearOrder K] [IsStrictOrderedRing K]

/-! ## general statements -/

/-- A pair-antisymmetric interaction summed over a finite symmetric neighbour
relation vanishes. -/
theorem sum_pair_antisym_eq_zero_field {ι : Type} [Fintype ι] [DecidableEq ι]
    (nbr : ι → Finset ι) (hsymm : ∀ i j, j ∈ nbr i → i ∈ nbr j)
    (F : ι → ι → K) (hF : ∀ i j, j ∈ nbr i → F i j = -F j i) :
    ∑ i, ∑ j ∈ nbr i, F i j = 0 :=
  sum_pair_antisym_eq_zero nbr hsymm F hF

/-- The same for vector-valued interactions (any module without 2-torsion,
e.g. `K × K × K`). -/
theorem sum_pair_antisym_eq_zero_vec {ι : Type} [Fintype ι] [DecidableEq ι]
    (nbr : ι → Finset ι) (hsymm : ∀ i j, j ∈ nbr i → i ∈ nbr j)
    (F : ι → ι → K × K × K) (hF : ∀ i j, j ∈ nbr i → F i j = -F j i) :
    ∑ i, ∑ j ∈ nbr i, F i j = 0 := by
  apply sum_pair_antisym_eq_zero_of_no_two_torsion _ nbr hsymm F hF
  rintro ⟨x, y, z⟩ h
  simp only [Prod.mk_add_mk, Prod.mk_eq_zero] at h
  obtain ⟨h1, h2, h3⟩ := h
  simp only [Prod.mk_eq_zero]
  exact ⟨no_two_torsion x h1, no_two_torsion y h2, no_two_torsion z h3⟩

/-- Total moment of a pair-antisymmetric central interaction: all three
components of `Σ_i x_i × Σ_j F_ij` vanish. -/
theorem torque_zero_of_central {ι : Type} [Fintype ι] [DecidableEq ι]
    (nbr : ι → Finset ι) (hsymm : ∀ i j, j ∈ nbr i → i ∈ nbr j)
    (X Y Z : ι → K) (FX FY FZ : ι → ι → K)
    (hX : ∀ i j, j ∈ nbr i → FX i j = -FX j i)
    (hY : ∀ i j, j ∈ nbr i → FY i j = -FY j i)
    (hZ : ∀ i j, j ∈ nbr i → FZ i j = -FZ j i)
    (hc : ∀ i j, j ∈ nbr i → ∃ c, FX i j = c * (X i - X j) ∧ FY i j = c * (Y i - Y j)
            ∧ FZ i j = c * (Z i - Z j)) :
    (∑ i, ∑ j ∈ nbr i, (X i * FY i j - Y i * FX i j) = 0) ∧
    (∑ i, ∑ j ∈ nbr i, (Y i * FZ i j - Z i * FY i j) = 0) ∧
    (∑ i, ∑ j ∈ nbr i, (Z i * FX i j - X i * FZ i j) = 0) := by
  refine ⟨torque_component_zero nbr hsymm X Y FX FY hX hY ?_,
          torque_component_zero nbr hsymm Y Z FY FZ hY hZ ?_,
          torque_component_zero nbr hsymm Z X FZ FX hZ hX ?_⟩ <;>
  · intro i j hj
    obtain ⟨c, h1, h2, h3⟩ := hc i j hj
    rw [h1, h2, h3]; ring

/-- `DWIJ(a,b) = −DWIJ(b,a)`: `HIJ` is the (symmetric) mean smoothing length,
`XIJ` changes sign, `RIJ` does not, and the gradient is `g(r,h)·x`. -/
theorem dwij_antisym (o : Ops K) (k : Kern K) {w g : K → K → K} (hk : Radial k w g) (a b : P K) :
    pre_DWIJ_0 o k b a = -(pre_DWIJ_0 o k a b) ∧
    pre_DWIJ_1 o k b a = -(pre_DWIJ_1 o k a b) ∧
    pre_DWIJ_2 o k b a = -(pre_DWIJ_2 o k a b) :=
  ⟨DWIJ_0_swap o k a b hk, DWIJ_1_swap o k a b hk, DWIJ_2_swap o k a b hk⟩

/-- grad-h forms: exchanging the particles exchanges `DWI` and `DWJ` with a sign. -/
theorem dwi_dwj_swap (o : Ops K) (k : Kern K) {w g : K → K → K} (hk : Radial k w g) (a b : P K) :
    pre_DWI_0 o k b a = -(pre_DWJ_0 o k a b) ∧ pre_DWI_1 o k b a = -(pre_DWJ_1 o k a b) ∧
    pre_DWI_2 o k b a = -(pre_DWJ_2 o k a b) ∧ pre_DWJ_0 o k b a = -(pre_DWI_0 o k a b) ∧
    pre_DWJ_1 o k b a = -(pre_DWI_1 o k a b) ∧ pre_DWJ_2 o k b a = -(pre_DWI_2 o k a b) :=
  ⟨DWI_0_swap o k a b hk, DWI_1_swap o k a b hk, DWI_2_swap o k a b hk,
   DWJ_0_swap o k a b hk, DWJ_1_swap o k a b hk, DWJ_2_swap o k a b hk⟩

/-- The symmetric scalars of a pair. -/
theorem pair_scalars_symm (o : Ops K) (k : Kern K) {w g : K → K → K} (hk : Radial k w g) (a b : P K) :
    pre_HIJ o k b a = pre_HIJ o k a b ∧ pre_R2IJ o k b a = pre_R2IJ o k a b ∧
    pre_RIJ o k b a = pre_RIJ o k a b ∧ pre_RHOIJ1 o k b a = pre_RHOIJ1 o k a b ∧
    pre_EPS o k b a = pre_EPS o k a b ∧ pre_WIJ o k b a = pre_WIJ o k a b ∧
    pre_WDP o k b a = pre_WDP o k a b :=
  ⟨HIJ_swap o k a b, R2IJ_swap o k a b, RIJ_swap o k a b, RHOIJ1_swap o k a b, EPS_swap o k a b,
   WIJ_swap o k a b hk, WDP_swap o k a b hk⟩

/-- The neighbour criterion of `find_nearest_neighbors`
(`xij2 < (k h_i)^2 or xij2 < (k h_j)^2`, nnps_base.pyx) as a predicate on a
pair; hand-written (C01 is about the search itself). -/
def nbrCriterion (o : Ops K) (k : Kern K) (scale : K) (a b : P K) : Prop :=
  pre_R2IJ o k a b < (scale * a.h) * (scale * a.h) ∨ pre_R2IJ o k a b < (scale * b.h) * (scale * b.h)

theorem nbr_criterion_symm (o : Ops K) (k : Kern K) (scale : K) (a b : P K) :
    nbrCriterion o k scale a b ↔ nbrCriterion o k scale b a := by
  unfold nbrCriterion
  rw [R2IJ_swap o k a b]
  exact Or.comm


/-! ## `pysph/sph/wc/basic.py.MomentumEquation` (WC_MomentumEquation) -/
section WC_MomentumEquation
variable (o : Ops K) (k : Kern K) {w g : K → K → K} (hk : Radial k w g) (self_alpha : K) (self_beta : K) (self_c0 : K) (self_tensile_correction : Bool)

/-- the contribution of a pair to the accumulated acceleration does not depend on the accumulator -/
theorem additive_WC_MomentumEquation (acc acc' : Out_WC_MomentumEquation K) (a b : P K) :
    ((pair_WC_MomentumEquation o k self_alpha self_beta self_c0 self_tensile_correction acc a b).d_au - acc.d_au) = ((pair_WC_MomentumEquation o k self_alpha self_beta self_c0 self_tensile_correction acc' a b).d_au - acc'.d_au) ∧
    ((pair_WC_MomentumEquation o k self_alpha self_beta self_c0 self_tensile_correction acc a b).d_av - acc.d_av) = ((pair_WC_MomentumEquation o k self_alpha self_beta self_c0 self_tensile_correction acc' a b).d_av - acc'.d_av) ∧
    ((pair_WC_MomentumEquation o k self_alpha self_beta self_c0 self_tensile_correction acc a b).d_aw - acc.d_aw) = ((pair_WC_MomentumEquation o k self_alpha self_beta self_c0 self_tensile_correction acc' a b).d_aw - acc'.d_aw) := by
  refine ⟨?_, ?_, ?_⟩ <;>
  · simp only [pair_WC_MomentumEquation]
    c09_atoms o k a b
    simp only [loop_WC_MomentumEquation]
    c09_norm
    c09_close

/-- `m_a · contrib(a, b) = −(m_b · contrib(b, a))`, component by component -/
include hk in
theorem pair_antisym_WC_MomentumEquation (acc acc' : Out_WC_MomentumEquation K) (a b : P K) :
    a.m * ((pair_WC_MomentumEquation o k self_alpha self_beta self_c0 self_tensile_correction acc a b).d_au - acc.d_au) = -(b.m * ((pair_WC_MomentumEquation o k self_alpha self_beta self_c0 self_tensile_correction acc' b a).d_au - acc'.d_au)) ∧
    a.m * ((pair_WC_MomentumEquation o k self_alpha self_beta self_c0 self_tensile_correction acc a b).d_av - acc.d_av) = -(b.m * ((pair_WC_MomentumEquation o k self_alpha self_beta self_c0 self_tensile_correction acc' b a).d_av - acc'.d_av)) ∧
    a.m * ((pair_WC_MomentumEquation o k self_alpha self_beta self_c0 self_tensile_correction acc a b).d_aw - acc.d_aw) = -(b.m * ((pair_WC_MomentumEquation o k self_alpha self_beta self_c0 self_tensile_correction acc' b a).d_aw - acc'.d_aw)) := by
  refine ⟨?_, ?_, ?_⟩ <;>
  · simp only [pair_WC_MomentumEquation]
    c09_swap o k a b hk
    c09_atoms o k a b
    simp only [loop_WC_MomentumEquation]
    c09_norm
    c09_close

/-- the pair contribution is parallel to the separation `x_a − x_b` (cross product zero) -/
include hk in
theorem central_WC_MomentumEquation (acc : Out_WC_MomentumEquation K) (a b : P K) :
    (a.x - b.x) * ((pair_WC_MomentumEquation o k self_alpha self_beta self_c0 self_tensile_correction acc a b).d_av - acc.d_av) = (a.y - b.y) * ((pair_WC_MomentumEquation o k self_alpha self_beta self_c0 self_tensile_correction acc a b).d_au - acc.d_au) ∧
    (a.y - b.y) * ((pair_WC_MomentumEquation o k self_alpha self_beta self_c0 self_tensile_correction acc a b).d_aw - acc.d_aw) = (a.z - b.z) * ((pair_WC_MomentumEquation o k self_alpha self_beta self_c0 self_tensile_correction acc a b).d_av - acc.d_av) ∧
    (a.z - b.z) * ((pair_WC_MomentumEquation o k self_alpha self_beta self_c0 self_tensile_correction acc a b).d_au - acc.d_au) = (a.x - b.x) * ((pair_WC_MomentumEquation o k self_alpha self_beta self_c0 self_tensile_correction acc a b).d_aw - acc.d_aw) := by
  refine ⟨?_, ?_, ?_⟩ <;>
  · simp only [pair_WC_MomentumEquation]
    c09_shape o k a b hk
    c09_atoms o k a b
    simp only [loop_WC_MomentumEquation]
    c09_norm
    c09_close

/-- closed system: evaluating the equation for every particle over a symmetric neighbour relation
gives `Σ m a = 0` -/
include hk in
theorem linear_momentum_WC_MomentumEquation {ι : Type} [Fintype ι] [DecidableEq ι] (p : ι → P K)
    (nbrs : ι → List ι) (hnd : ∀ i, (nbrs i).Nodup) (hsymm : ∀ i j, j ∈ nbrs i → i ∈ nbrs j)
    (init : ι → Out_WC_MomentumEquation K) (hinit : ∀ i, (init i).d_au = 0 ∧ (init i).d_av = 0 ∧ (init i).d_aw = 0) :
    ∑ i, (p i).m * ((nbrs i).foldl (fun acc j => pair_WC_MomentumEquation o k self_alpha self_beta self_c0 self_tensile_correction acc (p i) (p j)) (init i)).d_au = 0 ∧
    ∑ i, (p i).m * ((nbrs i).foldl (fun acc j => pair_WC_MomentumEquation o k self_alpha self_beta self_c0 self_tensile_correction acc (p i) (p j)) (init i)).d_av = 0 ∧
    ∑ i, (p i).m * ((nbrs i).foldl (fun acc j => pair_WC_MomentumEquation o k self_alpha self_beta self_c0 self_tensile_correction acc (p i) (p j)) (init i)).d_aw = 0 := by
  refine ⟨?_, ?_, ?_⟩
  · exact linear_momentum_of_pair (fun i => (p i).m) nbrs hnd hsymm (fun i acc j => pair_WC_MomentumEquation o k self_alpha self_beta self_c0 self_tensile_correction acc (p i) (p j))
      (fun s => s.d_au) init (fun i => (hinit i).1)
      (fun i j acc acc' => (additive_WC_MomentumEquation o k self_alpha self_beta self_c0 self_tensile_correction acc acc' (p i) (p j)).1)
      (fun i j acc acc' => (pair_antisym_WC_MomentumEquation o k hk self_alpha self_beta self_c0 self_tensile_correction acc acc' (p i) (p j)).1)
  · exact linear_momentum_of_pair (fun i => (p i).m) nbrs hnd hsymm (fun i acc j => pair_WC_MomentumEquation o k self_alpha self_beta self_c0 self_tensile_correction acc (p i) (p j))
      (fun s => s.d_av) init (fun i => (hinit i).2.1)
      (fun i j acc acc' => (additive_WC_MomentumEquation o k self_alpha self_beta self_c0 self_tensile_correction acc acc' (p i) (p j)).2.1)
      (fun i j acc acc' => (pair_antisym_WC_MomentumEquation o k hk self_alpha self_beta self_c0 self_tensile_correction acc acc' (p i) (p j)).2.1)
  · exact linear_momentum_of_pair (fun i => (p i).m) nbrs hnd hsymm (fun i acc j => pair_WC_MomentumEquation o k self_alpha self_beta self_c0 self_tensile_correction acc (p i) (p j))
      (fun s => s.d_aw) init (fun i => (hinit i).2.2)
      (fun i j acc acc' => (additive_WC_MomentumEquation o k self_alpha self_beta self_c0 self_tensile_correction acc acc' (p i) (p j)).2.2)
      (fun i j acc acc' => (pair_antisym_WC_MomentumEquation o k hk self_alpha self_beta self_c0 self_tensile_correction acc acc' (p i) (p j)).2.2)

/-- closed system: `Σ m x × a = 0` (three components) -/
include hk in
theorem angular_momentum_WC_MomentumEquation {ι : Type} [Fintype ι] [DecidableEq ι] (p : ι → P K)
    (nbrs : ι → List ι) (hnd : ∀ i, (nbrs i).Nodup) (hsymm : ∀ i j, j ∈ nbrs i → i ∈ nbrs j)
    (init : ι → Out_WC_MomentumEquation K) (hinit : ∀ i, (init i).d_au = 0 ∧ (init i).d_av = 0 ∧ (init i).d_aw = 0) :
    (∑ i, (p i).m * ((p i).x * ((nbrs i).foldl (fun acc j => pair_WC_MomentumEquation o k self_alpha self_beta self_c0 self_tensile_correction acc (p i) (p j)) (init i)).d_av - (p i).y * ((nbrs i).foldl (fun acc j => pair_WC_MomentumEquation o k self_alpha self_beta self_c0 self_tensile_correction acc (p i) (p j)) (init i)).d_au) = 0) ∧
    (∑ i, (p i).m * ((p i).y * ((nbrs i).foldl (fun acc j => pair_WC_MomentumEquation o k self_alpha self_beta self_c0 self_tensile_correction acc (p i) (p j)) (init i)).d_aw - (p i).z * ((nbrs i).foldl (fun acc j => pair_WC_MomentumEquation o k self_alpha self_beta self_c0 self_tensile_correction acc (p i) (p j)) (init i)).d_av) = 0) ∧
    (∑ i, (p i).m * ((p i).z * ((nbrs i).foldl (fun acc j => pair_WC_MomentumEquation o k self_alpha self_beta self_c0 self_tensile_correction acc (p i) (p j)) (init i)).d_au - (p i).x * ((nbrs i).foldl (fun acc j => pair_WC_MomentumEquation o k self_alpha self_beta self_c0 self_tensile_correction acc (p i) (p j)) (init i)).d_aw) = 0) := by
  refine ⟨?_, ?_, ?_⟩
  · exact angular_momentum_of_pair (fun i => (p i).m) (fun i => (p i).x) (fun i => (p i).y) nbrs hnd hsymm
      (fun i acc j => pair_WC_MomentumEquation o k self_alpha self_beta self_c0 self_tensile_correction acc (p i) (p j)) (fun s => s.d_au) (fun s => s.d_av) init
      (fun i => (hinit i).1) (fun i => (hinit i).2.1)
      (fun i j acc acc' => (additive_WC_MomentumEquation o k self_alpha self_beta self_c0 self_tensile_correction acc acc' (p i) (p j)).1)
      (fun i j acc acc' => (additive_WC_MomentumEquation o k self_alpha self_beta self_c0 self_tensile_correction acc acc' (p i) (p j)).2.1)
      (fun i j acc acc' => (pair_antisym_WC_MomentumEquation o k hk self_alpha self_beta self_c0 self_tensile_correction acc acc' (p i) (p j)).1)
      (fun i j acc acc' => (pair_antisym_WC_MomentumEquation o k hk self_alpha self_beta self_c0 self_tensile_correction acc acc' (p i) (p j)).2.1)
      (fun i j acc => (central_WC_MomentumEquation o k hk self_alpha self_beta self_c0 self_tensile_correction acc (p i) (p j)).1)
  · exact angular_momentum_of_pair (fun i => (p i).m) (fun i => (p i).y) (fun i => (p i).z) nbrs hnd hsymm
      (fun i acc j => pair_WC_MomentumEquation o k self_alpha self_beta self_c0 self_tensile_correction acc (p i) (p j)) (fun s => s.d_av) (fun s => s.d_aw) init
      (fun i => (hinit i).2.1) (fun i => (hinit i).2.2)
      (fun i j acc acc' => (additive_WC_MomentumEquation o k self_alpha self_beta self_c0 self_tensile_correction acc acc' (p i) (p j)).2.1)
      (fun i j acc acc' => (additive_WC_MomentumEquation o k self_alpha self_beta self_c0 self_tensile_correction acc acc' (p i) (p j)).2.2)
      (fun i j acc acc' => (pair_antisym_WC_MomentumEquation o k hk self_alpha self_beta self_c0 self_tensile_correction acc acc' (p i) (p j)).2.1)
      (fun i j acc acc' => (pair_antisym_WC_MomentumEquation o k hk self_alpha self_beta self_c0 self_tensile_correction acc acc' (p i) (p j)).2.2)
      (fun i j acc => (central_WC_MomentumEquation o k hk self_alpha self_beta self_c0 self_tensile_correction acc (p i) (p j)).2.1)
  · exact angular_momentum_of_pair (fun i => (p i).m) (fun i => (p i).z) (fun i => (p i).x) nbrs hnd hsymm
      (fun i acc j => pair_WC_MomentumEquation o k self_alpha self_beta self_c0 self_tensile_correction acc (p i) (p j)) (fun s => s.d_aw) (fun s => s.d_au) init
      (fun i => (hinit i).2.2) (fun i => (hinit i).1)
      (fun i j acc acc' => (additive_WC_MomentumEquation o k self_alpha self_beta self_c0 self_tensile_correction acc acc' (p i) (p j)).2.2)
      (fun i j acc acc' => (additive_WC_MomentumEquation o k self_alpha self_beta self_c0 self_tensile_correction acc acc' (p i) (p j)).1)
      (fun i j acc acc' => (pair_antisym_WC_MomentumEquation o k hk self_alpha self_beta self_c0 self_tensile_correction acc acc' (p i) (p j)).2.2)
      (fun i j acc acc' => (pair_antisym_WC_MomentumEquation o k hk self_alpha self_beta self_c0 self_tensile_correction acc acc' (p i) (p j)).1)
      (fun i j acc => (central_WC_MomentumEquation o k hk self_alpha self_beta self_c0 self_tensile_correction acc (p i) (p j)).2.2)

end WC_MomentumEquation

/-! ## `pysph/sph/wc/basic.py.MomentumEquationDeltaSPH` (WC_MomentumEquationDeltaSPH) -/
section WC_MomentumEquationDeltaSPH
variable (o : Ops K) (k : Kern K) {w g : K → K → K} (hk : Radial k w g) (self_alpha : K) (self_c0 : K) (self_rho0 : K)

/-- the contribution of a pair to the accumulated acceleration does not depend on the accumulator -/
theorem additive_WC_MomentumEquationDeltaSPH (acc acc' : Out_WC_MomentumEquationDeltaSPH K) (a b : P K) :
    ((pair_WC_MomentumEquationDeltaSPH o k self_alpha self_c0 self_rho0 acc a b).d_au - acc.d_au) = ((pair_WC_MomentumEquationDeltaSPH o k self_alpha self_c0 self_rho0 acc' a b).d_au - acc'.d_au) ∧
    ((pair_WC_MomentumEquationDeltaSPH o k self_alpha self_c0 self_rho0 acc a b).d_av - acc.d_av) = ((pair_WC_MomentumEquationDeltaSPH o k self_alpha self_c0 self_rho0 acc' a b).d_av - acc'.d_av) ∧
    ((pair_WC_MomentumEquationDeltaSPH o k self_alpha self_c0 self_rho0 acc a b).d_aw - acc.d_aw) = ((pair_WC_MomentumEquationDeltaSPH o k self_alpha self_c0 self_rho0 acc' a b).d_aw - acc'.d_aw) := by
  refine ⟨?_, ?_, ?_⟩ <;>
  · simp only [pair_WC_MomentumEquationDeltaSPH]
    c09_atoms o k a b
    simp only [loop_WC_MomentumEquationDeltaSPH]
    c09_norm
    c09_close

/-- `m_a · contrib(a, b) = −(m_b · contrib(b, a))`, component by component -/
include hk in
theorem pair_antisym_WC_MomentumEquationDeltaSPH (acc acc' : Out_WC_MomentumEquationDeltaSPH K) (a b : P K) :
    a.m * ((pair_WC_MomentumEquationDeltaSPH o k self_alpha self_c0 self_rho0 acc a b).d_au - acc.d_au) = -(b.m * ((pair_WC_MomentumEquationDeltaSPH o k self_alpha self_c0 self_rho0 acc' b a).d_au - acc'.d_au)) ∧
    a.m * ((pair_WC_MomentumEquationDeltaSPH o k self_alpha self_c0 self_rho0 acc a b).d_av - acc.d_av) = -(b.m * ((pair_WC_MomentumEquationDeltaSPH o k self_alpha self_c0 self_rho0 acc' b a).d_av - acc'.d_av)) ∧
    a.m * ((pair_WC_MomentumEquationDeltaSPH o k self_alpha self_c0 self_rho0 acc a b).d_aw - acc.d_aw) = -(b.m * ((pair_WC_MomentumEquationDeltaSPH o k self_alpha self_c0 self_rho0 acc' b a).d_aw - acc'.d_aw)) := by
  refine ⟨?_, ?_, ?_⟩ <;>
  · simp only [pair_WC_MomentumEquationDeltaSPH]
    c09_swap o k a b hk
    c09_atoms o k a b
    simp only [loop_WC_MomentumEquationDeltaSPH]
    c09_norm
    c09_close

/-- the pair contribution is parallel to the separation `x_a − x_b` (cross product zero) -/
include hk in
theorem central_WC_MomentumEquationDeltaSPH (acc : Out_WC_MomentumEquationDeltaSPH K) (a b : P K) :
    (a.x - b.x) * ((pair_WC_MomentumEquationDeltaSPH o k self_alpha self_c0 self_rho0 acc a b).d_av - acc.d_av) = (a.y - b.y) * ((pair_WC_MomentumEquationDeltaSPH o k self_alpha self_c0 self_rho0 acc a b).d_au - acc.d_au) ∧
    (a.y - b.y) * ((pair_WC_MomentumEquationDeltaSPH o k self_alpha self_c0 self_rho0 acc a b).d_aw - acc.d_aw) = (a.z - b.z) * ((pair_WC_MomentumEquationDeltaSPH o k self_alpha self_c0 self_rho0 acc a b).d_av - acc.d_av) ∧
    (a.z - b.z) * ((pair_WC_MomentumEquationDeltaSPH o k self_alpha self_c0 self_rho0 acc a b).d_au - acc.d_au) = (a.x - b.x) * ((pair_WC_MomentumEquationDeltaSPH o k self_alpha self_c0 self_rho0 acc a b).d_aw - acc.d_aw) := by
  refine ⟨?_, ?_, ?_⟩ <;>
  · simp only [pair_WC_MomentumEquationDeltaSPH]
    c09_shape o k a b hk
    c09_atoms o k a b
    simp only [loop_WC_MomentumEquationDeltaSPH]
    c09_norm
    c09_close

/-- closed system: evaluating the equation for every particle over a symmetric neighbour relation
gives `Σ m a = 0` -/
include hk in
theorem linear_momentum_WC_MomentumEquationDeltaSPH {ι : Type} [Fintype ι] [DecidableEq ι] (p : ι → P K)
    (nbrs : ι → List ι) (hnd : ∀ i, (nbrs i).Nodup) (hsymm : ∀ i j, j ∈ nbrs i → i ∈ nbrs j)
    (init : ι → Out_WC_MomentumEquationDeltaSPH K) (hinit : ∀ i, (init i).d_au = 0 ∧ (init i).d_av = 0 ∧ (init i).d_aw = 0) :
    ∑ i, (p i).m * ((nbrs i).foldl (fun acc j => pair_WC_MomentumEquationDeltaSPH o k self_alpha self_c0 self_rho0 acc (p i) (p j)) (init i)).d_au = 0 ∧
    ∑ i, (p i).m * ((nbrs i).foldl (fun acc j => pair_WC_MomentumEquationDeltaSPH o k self_alpha self_c0 self_rho0 acc (p i) (p j)) (init i)).d_av = 0 ∧
    ∑ i, (p i).m * ((nbrs i).foldl (fun acc j => pair_WC_MomentumEquationDeltaSPH o k self_alpha self_c0 self_rho0 acc (p i) (p j)) (init i)).d_aw = 0 := by
  refine ⟨?_, ?_, ?_⟩
  · exact linear_momentum_of_pair (fun i => (p i).m) nbrs hnd hsymm (fun i acc j => pair_WC_MomentumEquationDeltaSPH o k self_alpha self_c0 self_rho0 acc (p i) (p j))
      (fun s => s.d_au) init (fun i => (hinit i).1)
      (fun i j acc acc' => (additive_WC_MomentumEquationDeltaSPH o k self_alpha self_c0 self_rho0 acc acc' (p i) (p j)).1)
      (fun i j acc acc' => (pair_antisym_WC_MomentumEquationDeltaSPH o k hk self_alpha self_c0 self_rho0 acc acc' (p i) (p j)).1)
  · exact linear_momentum_of_pair (fun i => (p i).m) nbrs hnd hsymm (fun i acc j => pair_WC_MomentumEquationDeltaSPH o k self_alpha self_c0 self_rho0 acc (p i) (p j))
      (fun s => s.d_av) init (fun i => (hinit i).2.1)
      (fun i j acc acc' => (additive_WC_MomentumEquationDeltaSPH o k self_alpha self_c0 self_rho0 acc acc' (p i) (p j)).2.1)
      (fun i j acc acc' => (pair_antisym_WC_MomentumEquationDeltaSPH o k hk self_alpha self_c0 self_rho0 acc acc' (p i) (p j)).2.1)
  · exact linear_momentum_of_pair (fun i => (p i).m) nbrs hnd hsymm (fun i acc j => pair_WC_MomentumEquationDeltaSPH o k self_alpha self_c0 self_rho0 acc (p i) (p j))
      (fun s => s.d_aw) init (fun i => (hinit i).2.2)
      (fun i j acc acc' => (additive_WC_MomentumEquationDeltaSPH o k self_alpha self_c0 self_rho0 acc acc' (p i) (p j)).2.2)
      (fun i j acc acc' => (pair_antisym_WC_MomentumEquationDeltaSPH o k hk self_alpha self_c0 self_rho0 acc acc' (p i) (p j)).2.2)

/-- closed system: `Σ m x × a = 0` (three components) -/
include hk in
theorem angular_momentum_WC_MomentumEquationDeltaSPH {ι : Type} [Fintype ι] [DecidableEq ι] (p : ι → P K)
    (nbrs : ι → List ι) (hnd : ∀ i, (nbrs i).Nodup) (hsymm : ∀ i j, j ∈ nbrs i → i ∈ nbrs j)
    (init : ι → Out_WC_MomentumEquationDeltaSPH K) (hinit : ∀ i, (init i).d_au = 0 ∧ (init i).d_av = 0 ∧ (init i).d_aw = 0) :
    (∑ i, (p i).m * ((p i).x * ((nbrs i).foldl (fun acc j => pair_WC_MomentumEquationDeltaSPH o k self_alpha self_c0 self_rho0 acc (p i) (p j)) (init i)).d_av - (p i).y * ((nbrs i).foldl (fun acc j => pair_WC_MomentumEquationDeltaSPH o k self_alpha self_c0 self_rho0 acc (p i) (p j)) (init i)).d_au) = 0) ∧
    (∑ i, (p i).m * ((p i).y * ((nbrs i).foldl (fun acc j => pair_WC_MomentumEquationDeltaSPH o k self_alpha self_c0 self_rho0 acc (p i) (p j)) (init i)).d_aw - (p i).z * ((nbrs i).foldl (fun acc j => pair_WC_MomentumEquationDeltaSPH o k self_alpha self_c0 self_rho0 acc (p i) (p j)) (init i)).d_av) = 0) ∧
    (∑ i, (p i).m * ((p i).z * ((nbrs i).foldl (fun acc j => pair_WC_MomentumEquationDeltaSPH o k self_alpha self_c0 self_rho0 acc (p i) (p j)) (init i)).d_au - (p i).x * ((nbrs i).foldl (fun acc j => pair_WC_MomentumEquationDeltaSPH o k self_alpha self_c0 self_rho0 acc (p i) (p j)) (init i)).d_aw) = 0) := by
  refine ⟨?_, ?_, ?_⟩
  · exact angular_momentum_of_pair (fun i => (p i).m) (fun i => (p i).x) (fun i => (p i).y) nbrs hnd hsymm
      (fun i acc j => pair_WC_MomentumEquationDeltaSPH o k self_alpha self_c0 self_rho0 acc (p i) (p j)) (fun s => s.d_au) (fun s => s.d_av) init
      (fun i => (hinit i).1) (fun i => (hinit i).2.1)
      (fun i j acc acc' => (additive_WC_MomentumEquationDeltaSPH o k self_alpha self_c0 self_rho0 acc acc' (p i) (p j)).1)
      (fun i j acc acc' => (additive_WC_MomentumEquationDeltaSPH o k self_alpha self_c0 self_rho0 acc acc' (p i) (p j)).2.1)
      (fun i j acc acc' => (pair_antisym_WC_MomentumEquationDeltaSPH o k hk self_alpha self_c0 self_rho0 acc acc' (p i) (p j)).1)
      (fun i j acc acc' => (pair_antisym_WC_MomentumEquationDeltaSPH o k hk self_alpha self_c0 self_rho0 acc acc' (p i) (p j)).2.1)
      (fun i j acc => (central_WC_MomentumEquationDeltaSPH o k hk self_alpha self_c0 self_rho0 acc (p i) (p j)).1)
  · exact angular_momentum_of_pair (fun i => (p i).m) (fun i => (p i).y) (fun i => (p i).z) nbrs hnd hsymm
      (fun i acc j => pair_WC_MomentumEquationDeltaSPH o k self_alpha self_c0 self_rho0 acc (p i) (p j)) (fun s => s.d_av) (fun s => s.d_aw) init
      (fun i => (hinit i).2.1) (fun i => (hinit i).2.2)
      (fun i j acc acc' => (additive_WC_MomentumEquationDeltaSPH o k self_alpha self_c0 self_rho0 acc acc' (p i) (p j)).2.1)
      (fun i j acc acc' => (additive_WC_MomentumEquationDeltaSPH o k self_alpha self_c0 self_rho0 acc acc' (p i) (p j)).2.2)
      (fun i j acc acc' => (pair_antisym_WC_MomentumEquationDeltaSPH o k hk self_alpha self_c0 self_rho0 acc acc' (p i) (p j)).2.1)
      (fun i j acc acc' => (pair_antisym_WC_MomentumEquationDeltaSPH o k hk self_alpha self_c0 self_rho0 acc acc' (p i) (p j)).2.2)
      (fun i j acc => (central_WC_MomentumEquationDeltaSPH o k hk self_alpha self_c0 self_rho0 acc (p i) (p j)).2.1)
  · exact angular_momentum_of_pair (fun i => (p i).m) (fun i => (p i).z) (fun i => (p i).x) nbrs hnd hsymm
      (fun i acc j => pair_WC_MomentumEquationDeltaSPH o k self_alpha self_c0 self_rho0 acc (p i) (p j)) (fun s => s.d_aw) (fun s => s.d_au) init
      (fun i => (hinit i).2.2) (fun i => (hinit i).1)
      (fun i j acc acc' => (additive_WC_MomentumEquationDeltaSPH o k self_alpha self_c0 self_rho0 acc acc' (p i) (p j)).2.2)
      (fun i j acc acc' => (additive_WC_MomentumEquationDeltaSPH o k self_alpha self_c0 self_rho0 acc acc' (p i) (p j)).1)
      (fun i j acc acc' => (pair_antisym_WC_MomentumEquationDeltaSPH o k hk self_alpha self_c0 self_rho0 acc acc' (p i) (p j)).2.2)
      (fun i j acc acc' => (pair_antisym_WC_MomentumEquationDeltaSPH o k hk self_alpha self_c0 self_rho0 acc acc' (p i) (p j)).1)
      (fun i j acc => (central_WC_MomentumEquationDeltaSPH o k hk self_alpha self_c0 self_rho0 acc (p i) (p j)).2.2)

end WC_MomentumEquationDeltaSPH

/-! ## `pysph/sph/wc/basic.py.PressureGradientUsingNumberDensity` (WC_PressureGradientUsingNumberDensity) -/
section WC_PressureGradientUsingNumberDensity
variable (o : Ops K) (k : Kern K) {w g : K → K → K} (hk : Radial k w g) 

/-- the contribution of a pair to the accumulated acceleration does not depend on the accumulator -/
theorem additive_WC_PressureGradientUsingNumberDensity (acc acc' : Out_WC_PressureGradientUsingNumberDensity K) (a b : P K) :
    ((pair_WC_PressureGradientUsingNumberDensity o k  acc a b).d_au - acc.d_au) = ((pair_WC_PressureGradientUsingNumberDensity o k  acc' a b).d_au - acc'.d_au) ∧
    ((pair_WC_PressureGradientUsingNumberDensity o k  acc a b).d_av - acc.d_av) = ((pair_WC_PressureGradientUsingNumberDensity o k  acc' a b).d_av - acc'.d_av) ∧
    ((pair_WC_PressureGradientUsingNumberDensity o k  acc a b).d_aw - acc.d_aw) = ((pair_WC_PressureGradientUsingNumberDensity o k  acc' a b).d_aw - acc'.d_aw) := by
  refine ⟨?_, ?_, ?_⟩ <;>
  · simp only [pair_WC_PressureGradientUsingNumberDensity]
    c09_atoms o k a b
    simp only [loop_WC_PressureGradientUsingNumberDensity]
    c09_norm
    c09_close

/-- `m_a · contrib(a, b) = −(m_b · contrib(b, a))`, component by component -/
include hk in
theorem pair_antisym_WC_PressureGradientUsingNumberDensity (acc acc' : Out_WC_PressureGradientUsingNumberDensity K) (a b : P K) :
    a.m * ((pair_WC_PressureGradientUsingNumberDensity o k  acc a b).d_au - acc.d_au) = -(b.m * ((pair_WC_PressureGradientUsingNumberDensity o k  acc' b a).d_au - acc'.d_au)) ∧
    a.m * ((pair_WC_PressureGradientUsingNumberDensity o k  acc a b).d_av - acc.d_av) = -(b.m * ((pair_WC_PressureGradientUsingNumberDensity o k  acc' b a).d_av - acc'.d_av)) ∧
    a.m * ((pair_WC_PressureGradientUsingNumberDensity o k  acc a b).d_aw - acc.d_aw) = -(b.m * ((pair_WC_PressureGradientUsingNumberDensity o k  acc' b a).d_aw - acc'.d_aw)) := by
  refine ⟨?_, ?_, ?_⟩ <;>
  · simp only [pair_WC_PressureGradientUsingNumberDensity]
    c09_swap o k a b hk
    c09_atoms o k a b
    simp only [loop_WC_PressureGradientUsingNumberDensity]
    c09_norm
    c09_close

/-- the pair contribution is parallel to the separation `x_a − x_b` (cross product zero) -/
include hk in
theorem central_WC_PressureGradientUsingNumberDensity (acc : Out_WC_PressureGradientUsingNumberDensity K) (a b : P K) :
    (a.x - b.x) * ((pair_WC_PressureGradientUsingNumberDensity o k  acc a b).d_av - acc.d_av) = (a.y - b.y) * ((pair_WC_PressureGradientUsingNumberDensity o k  acc a b).d_au - acc.d_au) ∧
    (a.y - b.y) * ((pair_WC_PressureGradientUsingNumberDensity o k  acc a b).d_aw - acc.d_aw) = (a.z - b.z) * ((pair_WC_PressureGradientUsingNumberDensity o k  acc a b).d_av - acc.d_av) ∧
    (a.z - b.z) * ((pair_WC_PressureGradientUsingNumberDensity o k  acc a b).d_au - acc.d_au) = (a.x - b.x) * ((pair_WC_PressureGradientUsingNumberDensity o k  acc a b).d_aw - acc.d_aw) := by
  refine ⟨?_, ?_, ?_⟩ <;>
  · simp only [pair_WC_PressureGradientUsingNumberDensity]
    c09_shape o k a b hk
    c09_atoms o k a b
    simp only [loop_WC_PressureGradientUsingNumberDensity]
    c09_norm
    c09_close

/-- closed system: evaluating the equation for every particle over a symmetric neighbour relation
gives `Σ m a = 0` -/
include hk in
theorem linear_momentum_WC_PressureGradientUsingNumberDensity {ι : Type} [Fintype ι] [DecidableEq ι] (p : ι → P K)
    (nbrs : ι → List ι) (hnd : ∀ i, (nbrs i).Nodup) (hsymm : ∀ i j, j ∈ nbrs i → i ∈ nbrs j)
    (init : ι → Out_WC_PressureGradientUsingNumberDensity K) (hinit : ∀ i, (init i).d_au = 0 ∧ (init i).d_av = 0 ∧ (init i).d_aw = 0) :
    ∑ i, (p i).m * ((nbrs i).foldl (fun acc j => pair_WC_PressureGradientUsingNumberDensity o k  acc (p i) (p j)) (init i)).d_au = 0 ∧
    ∑ i, (p i).m * ((nbrs i).foldl (fun acc j => pair_WC_PressureGradientUsingNumberDensity o k  acc (p i) (p j)) (init i)).d_av = 0 ∧
    ∑ i, (p i).m * ((nbrs i).foldl (fun acc j => pair_WC_PressureGradientUsingNumberDensity o k  acc (p i) (p j)) (init i)).d_aw = 0 := by
  refine ⟨?_, ?_, ?_⟩
  · exact linear_momentum_of_pair (fun i => (p i).m) nbrs hnd hsymm (fun i acc j => pair_WC_PressureGradientUsingNumberDensity o k  acc (p i) (p j))
      (fun s => s.d_au) init (fun i => (hinit i).1)
      (fun i j acc acc' => (additive_WC_PressureGradientUsingNumberDensity o k  acc acc' (p i) (p j)).1)
      (fun i j acc acc' => (pair_antisym_WC_PressureGradientUsingNumberDensity o k hk  acc acc' (p i) (p j)).1)
  · exact linear_momentum_of_pair (fun i => (p i).m) nbrs hnd hsymm (fun i acc j => pair_WC_PressureGradientUsingNumberDensity o k  acc (p i) (p j))
      (fun s => s.d_av) init (fun i => (hinit i).2.1)
      (fun i j acc acc' => (additive_WC_PressureGradientUsingNumberDensity o k  acc acc' (p i) (p j)).2.1)
      (fun i j acc acc' => (pair_antisym_WC_PressureGradientUsingNumberDensity o k hk  acc acc' (p i) (p j)).2.1)
  · exact linear_momentum_of_pair (fun i => (p i).m) nbrs hnd hsymm (fun i acc j => pair_WC_PressureGradientUsingNumberDensity o k  acc (p i) (p j))
      (fun s => s.d_aw) init (fun i => (hinit i).2.2)
      (fun i j acc acc' => (additive_WC_PressureGradientUsingNumberDensity o k  acc acc' (p i) (p j)).2.2)
      (fun i j acc acc' => (pair_antisym_WC_PressureGradientUsingNumberDensity o k hk  acc acc' (p i) (p j)).2.2)

/-- closed system: `Σ m x × a = 0` (three components) -/
include hk in
theorem angular_momentum_WC_PressureGradientUsingNumberDensity {ι : Type} [Fintype ι] [DecidableEq ι] (p : ι → P K)
    (nbrs : ι → List ι) (hnd : ∀ i, (nbrs i).Nodup) (hsymm : ∀ i j, j ∈ nbrs i → i ∈ nbrs j)
    (init : ι → Out_WC_PressureGradientUsingNumberDensity K) (hinit : ∀ i, (init i).d_au = 0 ∧ (init i).d_av = 0 ∧ (init i).d_aw = 0) :
    (∑ i, (p i).m * ((p i).x * ((nbrs i).foldl (fun acc j => pair_WC_PressureGradientUsingNumberDensity o k  acc (p i) (p j)) (init i)).d_av - (p i).y * ((nbrs i).foldl (fun acc j => pair_WC_PressureGradientUsingNumberDensity o k  acc (p i) (p j)) (init i)).d_au) = 0) ∧
    (∑ i, (p i).m * ((p i).y * ((nbrs i).foldl (fun acc j => pair_WC_PressureGradientUsingNumberDensity o k  acc (p i) (p j)) (init i)).d_aw - (p i).z * ((nbrs i).foldl (fun acc j => pair_WC_PressureGradientUsingNumberDensity o k  acc (p i) (p j)) (init i)).d_av) = 0) ∧
    (∑ i, (p i).m * ((p i).z * ((nbrs i).foldl (fun acc j => pair_WC_PressureGradientUsingNumberDensity o k  acc (p i) (p j)) (init i)).d_au - (p i).x * ((nbrs i).foldl (fun acc j => pair_WC_PressureGradientUsingNumberDensity o k  acc (p i) (p j)) (init i)).d_aw) = 0) := by
  refine ⟨?_, ?_, ?_⟩
  · exact angular_momentum_of_pair (fun i => (p i).m) (fun i => (p i).x) (fun i => (p i).y) nbrs hnd hsymm
      (fun i acc j => pair_WC_PressureGradientUsingNumberDensity o k  acc (p i) (p j)) (fun s => s.d_au) (fun s => s.d_av) init
      (fun i => (hinit i).1) (fun i => (hinit i).2.1)
      (fun i j acc acc' => (additive_WC_PressureGradientUsingNumberDensity o k  acc acc' (p i) (p j)).1)
      (fun i j acc acc' => (additive_WC_PressureGradientUsingNumberDensity o k  acc acc' (p i) (p j)).2.1)
      (fun i j acc acc' => (pair_antisym_WC_PressureGradientUsingNumberDensity o k hk  acc acc' (p i) (p j)).1)
      (fun i j acc acc' => (pair_antisym_WC_PressureGradientUsingNumberDensity o k hk  acc acc' (p i) (p j)).2.1)
      (fun i j acc => (central_WC_PressureGradientUsingNumberDensity o k hk  acc (p i) (p j)).1)
  · exact angular_momentum_of_pair (fun i => (p i).m) (fun i => (p i).y) (fun i => (p i).z) nbrs hnd hsymm
      (fun i acc j => pair_WC_PressureGradientUsingNumberDensity o k  acc (p i) (p j)) (fun s => s.d_av) (fun s => s.d_aw) init
      (fun i => (hinit i).2.1) (fun i => (hinit i).2.2)
      (fun i j acc acc' => (additive_WC_PressureGradientUsingNumberDensity o k  acc acc' (p i) (p j)).2.1)
      (fun i j acc acc' => (additive_WC_PressureGradientUsingNumberDensity o k  acc acc' (p i) (p j)).2.2)
      (fun i j acc acc' => (pair_antisym_WC_PressureGradientUsingNumberDensity o k hk  acc acc' (p i) (p j)).2.1)
      (fun i j acc acc' => (pair_antisym_WC_PressureGradientUsingNumberDensity o k hk  acc acc' (p i) (p j)).2.2)
      (fun i j acc => (central_WC_PressureGradientUsingNumberDensity o k hk  acc (p i) (p j)).2.1)
  · exact angular_momentum_of_pair (fun i => (p i).m) (fun i => (p i).z) (fun i => (p i).x) nbrs hnd hsymm
      (fun i acc j => pair_WC_PressureGradientUsingNumberDensity o k  acc (p i) (p j)) (fun s => s.d_aw) (fun s => s.d_au) init
      (fun i => (hinit i).2.2) (fun i => (hinit i).1)
      (fun i j acc acc' => (additive_WC_PressureGradientUsingNumberDensity o k  acc acc' (p i) (p j)).2.2)
      (fun i j acc acc' => (additive_WC_PressureGradientUsingNumberDensity o k  acc acc' (p i) (p j)).1)
      (fun i j acc acc' => (pair_antisym_WC_PressureGradientUsingNumberDensity o k hk  acc acc' (p i) (p j)).2.2)
      (fun i j acc acc' => (pair_antisym_WC_PressureGradientUsingNumberDensity o k hk  acc acc' (p i) (p j)).1)
      (fun i j acc => (central_WC_PressureGradientUsingNumberDensity o k hk  acc (p i) (p j)).2.2)

end WC_PressureGradientUsingNumberDensity

/-! ## `pysph/sph/basic_equations.py.MonaghanArtificialViscosity` (BE_MonaghanArtificialViscosity) -/
section BE_MonaghanArtificialViscosity
variable (o : Ops K) (k : Kern K) {w g : K → K → K} (hk : Radial k w g) (self_alpha : K) (self_beta : K)

/-- the contribution of a pair to the accumulated acceleration does not depend on the accumulator -/
theorem additive_BE_MonaghanArtificialViscosity (acc acc' : Out_BE_MonaghanArtificialViscosity K) (a b : P K) :
    ((pair_BE_MonaghanArtificialViscosity o k self_alpha self_beta acc a b).d_au - acc.d_au) = ((pair_BE_MonaghanArtificialViscosity o k self_alpha self_beta acc' a b).d_au - acc'.d_au) ∧
    ((pair_BE_MonaghanArtificialViscosity o k self_alpha self_beta acc a b).d_av - acc.d_av) = ((pair_BE_MonaghanArtificialViscosity o k self_alpha self_beta acc' a b).d_av - acc'.d_av) ∧
    ((pair_BE_MonaghanArtificialViscosity o k self_alpha self_beta acc a b).d_aw - acc.d_aw) = ((pair_BE_MonaghanArtificialViscosity o k self_alpha self_beta acc' a b).d_aw - acc'.d_aw) := by
  refine ⟨?_, ?_, ?_⟩ <;>
  · simp only [pair_BE_MonaghanArtificialViscosity]
    c09_atoms o k a b
    simp only [loop_BE_MonaghanArtificialViscosity]
    c09_norm
    c09_close

/-- `m_a · contrib(a, b) = −(m_b · contrib(b, a))`, component by component -/
include hk in
theorem pair_antisym_BE_MonaghanArtificialViscosity (acc acc' : Out_BE_MonaghanArtificialViscosity K) (a b : P K) :
    a.m * ((pair_BE_MonaghanArtificialViscosity o k self_alpha self_beta acc a b).d_au - acc.d_au) = -(b.m * ((pair_BE_MonaghanArtificialViscosity o k self_alpha self_beta acc' b a).d_au - acc'.d_au)) ∧
    a.m * ((pair_BE_MonaghanArtificialViscosity o k self_alpha self_beta acc a b).d_av - acc.d_av) = -(b.m * ((pair_BE_MonaghanArtificialViscosity o k self_alpha self_beta acc' b a).d_av - acc'.d_av)) ∧
    a.m * ((pair_BE_MonaghanArtificialViscosity o k self_alpha self_beta acc a b).d_aw - acc.d_aw) = -(b.m * ((pair_BE_MonaghanArtificialViscosity o k self_alpha self_beta acc' b a).d_aw - acc'.d_aw)) := by
  refine ⟨?_, ?_, ?_⟩ <;>
  · simp only [pair_BE_MonaghanArtificialViscosity]
    c09_swap o k a b hk
    c09_atoms o k a b
    simp only [loop_BE_MonaghanArtificialViscosity]
    c09_norm
    c09_close

/-- the pair contribution is parallel to the separation `x_a − x_b` (cross product zero) -/
include hk in
theorem central_BE_MonaghanArtificialViscosity (acc : Out_BE_MonaghanArtificialViscosity K) (a b : P K) :
    (a.x - b.x) * ((pair_BE_MonaghanArtificialViscosity o k self_alpha self_beta acc a b).d_av - acc.d_av) = (a.y - b.y) * ((pair_BE_MonaghanArtificialViscosity o k self_alpha self_beta acc a b).d_au - acc.d_au) ∧
    (a.y - b.y) * ((pair_BE_MonaghanArtificialViscosity o k self_alpha self_beta acc a b).d_aw - acc.d_aw) = (a.z - b.z) * ((pair_BE_MonaghanArtificialViscosity o k self_alpha self_beta acc a b).d_av - acc.d_av) ∧
    (a.z - b.z) * ((pair_BE_MonaghanArtificialViscosity o k self_alpha self_beta acc a b).d_au - acc.d_au) = (a.x - b.x) * ((pair_BE_MonaghanArtificialViscosity o k self_alpha self_beta acc a b).d_aw - acc.d_aw) := by
  refine ⟨?_, ?_, ?_⟩ <;>
  · simp only [pair_BE_MonaghanArtificialViscosity]
    c09_shape o k a b hk
    c09_atoms o k a b
    simp only [loop_BE_MonaghanArtificialViscosity]
    c09_norm
    c09_close

/-- closed system: evaluating the equation for every particle over a symmetric neighbour relation
gives `Σ m a = 0` -/
include hk in
theorem linear_momentum_BE_MonaghanArtificialViscosity {ι : Type} [Fintype ι] [DecidableEq ι] (p : ι → P K)
    (nbrs : ι → List ι) (hnd : ∀ i, (nbrs i).Nodup) (hsymm : ∀ i j, j ∈ nbrs i → i ∈ nbrs j)
    (init : ι → Out_BE_MonaghanArtificialViscosity K) (hinit : ∀ i, (init i).d_au = 0 ∧ (init i).d_av = 0 ∧ (init i).d_aw = 0) :
    ∑ i, (p i).m * ((nbrs i).foldl (fun acc j => pair_BE_MonaghanArtificialViscosity o k self_alpha self_beta acc (p i) (p j)) (init i)).d_au = 0 ∧
    ∑ i, (p i).m * ((nbrs i).foldl (fun acc j => pair_BE_MonaghanArtificialViscosity o k self_alpha self_beta acc (p i) (p j)) (init i)).d_av = 0 ∧
    ∑ i, (p i).m * ((nbrs i).foldl (fun acc j => pair_BE_MonaghanArtificialViscosity o k self_alpha self_beta acc (p i) (p j)) (init i)).d_aw = 0 := by
  refine ⟨?_, ?_, ?_⟩
  · exact linear_momentum_of_pair (fun i => (p i).m) nbrs hnd hsymm (fun i acc j => pair_BE_MonaghanArtificialViscosity o k self_alpha self_beta acc (p i) (p j))
      (fun s => s.d_au) init (fun i => (hinit i).1)
      (fun i j acc acc' => (additive_BE_MonaghanArtificialViscosity o k self_alpha self_beta acc acc' (p i) (p j)).1)
      (fun i j acc acc' => (pair_antisym_BE_MonaghanArtificialViscosity o k hk self_alpha self_beta acc acc' (p i) (p j)).1)
  · exact linear_momentum_of_pair (fun i => (p i).m) nbrs hnd hsymm (fun i acc j => pair_BE_MonaghanArtificialViscosity o k self_alpha self_beta acc (p i) (p j))
      (fun s => s.d_av) init (fun i => (hinit i).2.1)
      (fun i j acc acc' => (additive_BE_MonaghanArtificialViscosity o k self_alpha self_beta acc acc' (p i) (p j)).2.1)
      (fun i j acc acc' => (pair_antisym_BE_MonaghanArtificialViscosity o k hk self_alpha self_beta acc acc' (p i) (p j)).2.1)
  · exact linear_momentum_of_pair (fun i => (p i).m) nbrs hnd hsymm (fun i acc j => pair_BE_MonaghanArtificialViscosity o k self_alpha self_beta acc (p i) (p j))
      (fun s => s.d_aw) init (fun i => (hinit i).2.2)
      (fun i j acc acc' => (additive_BE_MonaghanArtificialViscosity o k self_alpha self_beta acc acc' (p i) (p j)).2.2)
      (fun i j acc acc' => (pair_antisym_BE_MonaghanArtificialViscosity o k hk self_alpha self_beta acc acc' (p i) (p j)).2.2)

/-- closed system: `Σ m x × a = 0` (three components) -/
include hk in
theorem angular_momentum_BE_MonaghanArtificialViscosity {ι : Type} [Fintype ι] [DecidableEq ι] (p : ι → P K)
    (nbrs : ι → List ι) (hnd : ∀ i, (nbrs i).Nodup) (hsymm : ∀ i j, j ∈ nbrs i → i ∈ nbrs j)
    (init : ι → Out_BE_MonaghanArtificialViscosity K) (hinit : ∀ i, (init i).d_au = 0 ∧ (init i).d_av = 0 ∧ (init i).d_aw = 0) :
    (∑ i, (p i).m * ((p i).x * ((nbrs i).foldl (fun acc j => pair_BE_MonaghanArtificialViscosity o k self_alpha self_beta acc (p i) (p j)) (init i)).d_av - (p i).y * ((nbrs i).foldl (fun acc j => pair_BE_MonaghanArtificialViscosity o k self_alpha self_beta acc (p i) (p j)) (init i)).d_au) = 0) ∧
    (∑ i, (p i).m * ((p i).y * ((nbrs i).foldl (fun acc j => pair_BE_MonaghanArtificialViscosity o k self_alpha self_beta acc (p i) (p j)) (init i)).d_aw - (p i).z * ((nbrs i).foldl (fun acc j => pair_BE_MonaghanArtificialViscosity o k self_alpha self_beta acc (p i) (p j)) (init i)).d_av) = 0) ∧
    (∑ i, (p i).m * ((p i).z * ((nbrs i).foldl (fun acc j => pair_BE_MonaghanArtificialViscosity o k self_alpha self_beta acc (p i) (p j)) (init i)).d_au - (p i).x * ((nbrs i).foldl (fun acc j => pair_BE_MonaghanArtificialViscosity o k self_alpha self_beta acc (p i) (p j)) (init i)).d_aw) = 0) := by
  refine ⟨?_, ?_, ?_⟩
  · exact angular_momentum_of_pair (fun i => (p i).m) (fun i => (p i).x) (fun i => (p i).y) nbrs hnd hsymm
      (fun i acc j => pair_BE_MonaghanArtificialViscosity o k self_alpha self_beta acc (p i) (p j)) (fun s => s.d_au) (fun s => s.d_av) init
      (fun i => (hinit i).1) (fun i => (hinit i).2.1)
      (fun i j acc acc' => (additive_BE_MonaghanArtificialViscosity o k self_alpha self_beta acc acc' (p i) (p j)).1)
      (fun i j acc acc' => (additive_BE_MonaghanArtificialViscosity o k self_alpha self_beta acc acc' (p i) (p j)).2.1)
      (fun i j acc acc' => (pair_antisym_BE_MonaghanArtificialViscosity o k hk self_alpha self_beta acc acc' (p i) (p j)).1)
      (fun i j acc acc' => (pair_antisym_BE_MonaghanArtificialViscosity o k hk self_alpha self_beta acc acc' (p i) (p j)).2.1)
      (fun i j acc => (central_BE_MonaghanArtificialViscosity o k hk self_alpha self_beta acc (p i) (p j)).1)
  · exact angular_momentum_of_pair (fun i => (p i).m) (fun i => (p i).y) (fun i => (p i).z) nbrs hnd hsymm
      (fun i acc j => pair_BE_MonaghanArtificialViscosity o k self_alpha self_beta acc (p i) (p j)) (fun s => s.d_av) (fun s => s.d_aw) init
      (fun i => (hinit i).2.1) (fun i => (hinit i).2.2)
      (fun i j acc acc' => (additive_BE_MonaghanArtificialViscosity o k self_alpha self_beta acc acc' (p i) (p j)).2.1)
      (fun i j acc acc' => (additive_BE_MonaghanArtificialViscosity o k self_alpha self_beta acc acc' (p i) (p j)).2.2)
      (fun i j acc acc' => (pair_antisym_BE_MonaghanArtificialViscosity o k hk self_alpha self_beta acc acc' (p i) (p j)).2.1)
      (fun i j acc acc' => (pair_antisym_BE_MonaghanArtificialViscosity o k hk self_alpha self_beta acc acc' (p i) (p j)).2.2)
      (fun i j acc => (central_BE_MonaghanArtificialViscosity o k hk self_alpha self_beta acc (p i) (p j)).2.1)
  · exact angular_momentum_of_pair (fun i => (p i).m) (fun i => (p i).z) (fun i => (p i).x) nbrs hnd hsymm
      (fun i acc j => pair_BE_MonaghanArtificialViscosity o k self_alpha self_beta acc (p i) (p j)) (fun s => s.d_aw) (fun s => s.d_au) init
      (fun i => (hinit i).2.2) (fun i => (hinit i).1)
      (fun i j acc acc' => (additive_BE_MonaghanArtificialViscosity o k self_alpha self_beta acc acc' (p i) (p j)).2.2)
      (fun i j acc acc' => (additive_BE_MonaghanArtificialViscosity o k self_alpha self_beta acc acc' (p i) (p j)).1)
      (fun i j acc acc' => (pair_antisym_BE_MonaghanArtificialViscosity o k hk self_alpha self_beta acc acc' (p i) (p j)).2.2)
      (fun i j acc acc' => (pair_antisym_BE_MonaghanArtificialViscosity o k hk self_alpha self_beta acc acc' (p i) (p j)).1)
      (fun i j acc => (central_BE_MonaghanArtificialViscosity o k hk self_alpha self_beta acc (p i) (p j)).2.2)

end BE_MonaghanArtificialViscosity

/-! ## `pysph/sph/wc/transport_velocity.py.MomentumEquationPressureGradient` (TV_MomentumEquationPressureGradient) -/
section TV_MomentumEquationPressureGradient
variable (o : Ops K) (k : Kern K) {w g : K → K → K} (hk : Radial k w g) (self_pb : K)

/-- the contribution of a pair to the accumulated acceleration does not depend on the accumulator -/
theorem additive_TV_MomentumEquationPressureGradient (acc acc' : Out_TV_MomentumEquationPressureGradient K) (a b : P K) :
    ((pair_TV_MomentumEquationPressureGradient o k self_pb acc a b).d_au - acc.d_au) = ((pair_TV_MomentumEquationPressureGradient o k self_pb acc' a b).d_au - acc'.d_au) ∧
    ((pair_TV_MomentumEquationPressureGradient o k self_pb acc a b).d_av - acc.d_av) = ((pair_TV_MomentumEquationPressureGradient o k self_pb acc' a b).d_av - acc'.d_av) ∧
    ((pair_TV_MomentumEquationPressureGradient o k self_pb acc a b).d_aw - acc.d_aw) = ((pair_TV_MomentumEquationPressureGradient o k self_pb acc' a b).d_aw - acc'.d_aw) := by
  refine ⟨?_, ?_, ?_⟩ <;>
  · simp only [pair_TV_MomentumEquationPressureGradient]
    c09_atoms o k a b
    simp only [loop_TV_MomentumEquationPressureGradient]
    c09_norm
    c09_close

/-- `m_a · contrib(a, b) = −(m_b · contrib(b, a))`, component by component -/
include hk in
theorem pair_antisym_TV_MomentumEquationPressureGradient (acc acc' : Out_TV_MomentumEquationPressureGradient K) (a b : P K) :
    a.m * ((pair_TV_MomentumEquationPressureGradient o k self_pb acc a b).d_au - acc.d_au) = -(b.m * ((pair_TV_MomentumEquationPressureGradient o k self_pb acc' b a).d_au - acc'.d_au)) ∧
    a.m * ((pair_TV_MomentumEquationPressureGradient o k self_pb acc a b).d_av - acc.d_av) = -(b.m * ((pair_TV_MomentumEquationPressureGradient o k self_pb acc' b a).d_av - acc'.d_av)) ∧
    a.m * ((pair_TV_MomentumEquationPressureGradient o k self_pb acc a b).d_aw - acc.d_aw) = -(b.m * ((pair_TV_MomentumEquationPressureGradient o k self_pb acc' b a).d_aw - acc'.d_aw)) := by
  refine ⟨?_, ?_, ?_⟩ <;>
  · simp only [pair_TV_MomentumEquationPressureGradient]
    c09_swap o k a b hk
    c09_atoms o k a b
    simp only [loop_TV_MomentumEquationPressureGradient]
    c09_norm
    c09_close

/-- the pair contribution is parallel to the separation `x_a − x_b` (cross product zero) -/
include hk in
theorem central_TV_MomentumEquationPressureGradient (acc : Out_TV_MomentumEquationPressureGradient K) (a b : P K) :
    (a.x - b.x) * ((pair_TV_MomentumEquationPressureGradient o k self_pb acc a b).d_av - acc.d_av) = (a.y - b.y) * ((pair_TV_MomentumEquationPressureGradient o k self_pb acc a b).d_au - acc.d_au) ∧
    (a.y - b.y) * ((pair_TV_MomentumEquationPressureGradient o k self_pb acc a b).d_aw - acc.d_aw) = (a.z - b.z) * ((pair_TV_MomentumEquationPressureGradient o k self_pb acc a b).d_av - acc.d_av) ∧
    (a.z - b.z) * ((pair_TV_MomentumEquationPressureGradient o k self_pb acc a b).d_au - acc.d_au) = (a.x - b.x) * ((pair_TV_MomentumEquationPressureGradient o k self_pb acc a b).d_aw - acc.d_aw) := by
  refine ⟨?_, ?_, ?_⟩ <;>
  · simp only [pair_TV_MomentumEquationPressureGradient]
    c09_shape o k a b hk
    c09_atoms o k a b
    simp only [loop_TV_MomentumEquationPressureGradient]
    c09_norm
    c09_close

/-- closed system: evaluating the equation for every particle over a symmetric neighbour relation
gives `Σ m a = 0` -/
include hk in
theorem linear_momentum_TV_MomentumEquationPressureGradient {ι : Type} [Fintype ι] [DecidableEq ι] (p : ι → P K)
    (nbrs : ι → List ι) (hnd : ∀ i, (nbrs i).Nodup) (hsymm : ∀ i j, j ∈ nbrs i → i ∈ nbrs j)
    (init : ι → Out_TV_MomentumEquationPressureGradient K) (hinit : ∀ i, (init i).d_au = 0 ∧ (init i).d_av = 0 ∧ (init i).d_aw = 0) :
    ∑ i, (p i).m * ((nbrs i).foldl (fun acc j => pair_TV_MomentumEquationPressureGradient o k self_pb acc (p i) (p j)) (init i)).d_au = 0 ∧
    ∑ i, (p i).m * ((nbrs i).foldl (fun acc j => pair_TV_MomentumEquationPressureGradient o k self_pb acc (p i) (p j)) (init i)).d_av = 0 ∧
    ∑ i, (p i).m * ((nbrs i).foldl (fun acc j => pair_TV_MomentumEquationPressureGradient o k self_pb acc (p i) (p j)) (init i)).d_aw = 0 := by
  refine ⟨?_, ?_, ?_⟩
  · exact linear_momentum_of_pair (fun i => (p i).m) nbrs hnd hsymm (fun i acc j => pair_TV_MomentumEquationPressureGradient o k self_pb acc (p i) (p j))
      (fun s => s.d_au) init (fun i => (hinit i).1)
      (fun i j acc acc' => (additive_TV_MomentumEquationPressureGradient o k self_pb acc acc' (p i) (p j)).1)
      (fun i j acc acc' => (pair_antisym_TV_MomentumEquationPressureGradient o k hk self_pb acc acc' (p i) (p j)).1)
  · exact linear_momentum_of_pair (fun i => (p i).m) nbrs hnd hsymm (fun i acc j => pair_TV_MomentumEquationPressureGradient o k self_pb acc (p i) (p j))
      (fun s => s.d_av) init (fun i => (hinit i).2.1)
      (fun i j acc acc' => (additive_TV_MomentumEquationPressureGradient o k self_pb acc acc' (p i) (p j)).2.1)
      (fun i j acc acc' => (pair_antisym_TV_MomentumEquationPressureGradient o k hk self_pb acc acc' (p i) (p j)).2.1)
  · exact linear_momentum_of_pair (fun i => (p i).m) nbrs hnd hsymm (fun i acc j => pair_TV_MomentumEquationPressureGradient o k self_pb acc (p i) (p j))
      (fun s => s.d_aw) init (fun i => (hinit i).2.2)
      (fun i j acc acc' => (additive_TV_MomentumEquationPressureGradient o k self_pb acc acc' (p i) (p j)).2.2)
      (fun i j acc acc' => (pair_antisym_TV_MomentumEquationPressureGradient o k hk self_pb acc acc' (p i) (p j)).2.2)

/-- closed system: `Σ m x × a = 0` (three components) -/
include hk in
theorem angular_momentum_TV_MomentumEquationPressureGradient {ι : Type} [Fintype ι] [DecidableEq ι] (p : ι → P K)
    (nbrs : ι → List ι) (hnd : ∀ i, (nbrs i).Nodup) (hsymm : ∀ i j, j ∈ nbrs i → i ∈ nbrs j)
    (init : ι → Out_TV_MomentumEquationPressureGradient K) (hinit : ∀ i, (init i).d_au = 0 ∧ (init i).d_av = 0 ∧ (init i).d_aw = 0) :
    (∑ i, (p i).m * ((p i).x * ((nbrs i).foldl (fun acc j => pair_TV_MomentumEquationPressureGradient o k self_pb acc (p i) (p j)) (init i)).d_av - (p i).y * ((nbrs i).foldl (fun acc j => pair_TV_MomentumEquationPressureGradient o k self_pb acc (p i) (p j)) (init i)).d_au) = 0) ∧
    (∑ i, (p i).m * ((p i).y * ((nbrs i).foldl (fun acc j => pair_TV_MomentumEquationPressureGradient o k self_pb acc (p i) (p j)) (init i)).d_aw - (p i).z * ((nbrs i).foldl (fun acc j => pair_TV_MomentumEquationPressureGradient o k self_pb acc (p i) (p j)) (init i)).d_av) = 0) ∧
    (∑ i, (p i).m * ((p i).z * ((nbrs i).foldl (fun acc j => pair_TV_MomentumEquationPressureGradient o k self_pb acc (p i) (p j)) (init i)).d_au - (p i).x * ((nbrs i).foldl (fun acc j => pair_TV_MomentumEquationPressureGradient o k self_pb acc (p i) (p j)) (init i)).d_aw) = 0) := by
  refine ⟨?_, ?_, ?_⟩
  · exact angular_momentum_of_pair (fun i => (p i).m) (fun i => (p i).x) (fun i => (p i).y) nbrs hnd hsymm
      (fun i acc j => pair_TV_MomentumEquationPressureGradient o k self_pb acc (p i) (p j)) (fun s => s.d_au) (fun s => s.d_av) init
      (fun i => (hinit i).1) (fun i => (hinit i).2.1)
      (fun i j acc acc' => (additive_TV_MomentumEquationPressureGradient o k self_pb acc acc' (p i) (p j)).1)
      (fun i j acc acc' => (additive_TV_MomentumEquationPressureGradient o k self_pb acc acc' (p i) (p j)).2.1)
      (fun i j acc acc' => (pair_antisym_TV_MomentumEquationPressureGradient o k hk self_pb acc acc' (p i) (p j)).1)
      (fun i j acc acc' => (pair_antisym_TV_MomentumEquationPressureGradient o k hk self_pb acc acc' (p i) (p j)).2.1)
      (fun i j acc => (central_TV_MomentumEquationPressureGradient o k hk self_pb acc (p i) (p j)).1)
  · exact angular_momentum_of_pair (fun i => (p i).m) (fun i => (p i).y) (fun i => (p i).z) nbrs hnd hsymm
      (fun i acc j => pair_TV_MomentumEquationPressureGradient o k self_pb acc (p i) (p j)) (fun s => s.d_av) (fun s => s.d_aw) init
      (fun i => (hinit i).2.1) (fun i => (hinit i).2.2)
      (fun i j acc acc' => (additive_TV_MomentumEquationPressureGradient o k self_pb acc acc' (p i) (p j)).2.1)
      (fun i j acc acc' => (additive_TV_MomentumEquationPressureGradient o k self_pb acc acc' (p i) (p j)).2.2)
      (fun i j acc acc' => (pair_antisym_TV_MomentumEquationPressureGradient o k hk self_pb acc acc' (p i) (p j)).2.1)
      (fun i j acc acc' => (pair_antisym_TV_MomentumEquationPressureGradient o k hk self_pb acc acc' (p i) (p j)).2.2)
      (fun i j acc => (central_TV_MomentumEquationPressureGradient o k hk self_pb acc (p i) (p j)).2.1)
  · exact angular_momentum_of_pair (fun i => (p i).m) (fun i => (p i).z) (fun i => (p i).x) nbrs hnd hsymm
      (fun i acc j => pair_TV_MomentumEquationPressureGradient o k self_pb acc (p i) (p j)) (fun s => s.d_aw) (fun s => s.d_au) init
      (fun i => (hinit i).2.2) (fun i => (hinit i).1)
      (fun i j acc acc' => (additive_TV_MomentumEquationPressureGradient o k self_pb acc acc' (p i) (p j)).2.2)
      (fun i j acc acc' => (additive_TV_MomentumEquationPressureGradient o k self_pb acc acc' (p i) (p j)).1)
      (fun i j acc acc' => (pair_antisym_TV_MomentumEquationPressureGradient o k hk self_pb acc acc' (p i) (p j)).2.2)
      (fun i j acc acc' => (pair_antisym_TV_MomentumEquationPressureGradient o k hk self_pb acc acc' (p i) (p j)).1)
      (fun i j acc => (central_TV_MomentumEquationPressureGradient o k hk self_pb acc (p i) (p j)).2.2)

end TV_MomentumEquationPressureGradient

/-! ## `pysph/sph/wc/transport_velocity.py.MomentumEquationViscosity` (TV_MomentumEquationViscosity) -/
section TV_MomentumEquationViscosity
variable (o : Ops K) (k : Kern K) {w g : K → K → K} (hk : Radial k w g) (self_nu : K)

/-- the contribution of a pair to the accumulated acceleration does not depend on the accumulator -/
theorem additive_TV_MomentumEquationViscosity (acc acc' : Out_TV_MomentumEquationViscosity K) (a b : P K) :
    ((pair_TV_MomentumEquationViscosity o k self_nu acc a b).d_au - acc.d_au) = ((pair_TV_MomentumEquationViscosity o k self_nu acc' a b).d_au - acc'.d_au) ∧
    ((pair_TV_MomentumEquationViscosity o k self_nu acc a b).d_av - acc.d_av) = ((pair_TV_MomentumEquationViscosity o k self_nu acc' a b).d_av - acc'.d_av) ∧
    ((pair_TV_MomentumEquationViscosity o k self_nu acc a b).d_aw - acc.d_aw) = ((pair_TV_MomentumEquationViscosity o k self_nu acc' a b).d_aw - acc'.d_aw) := by
  refine ⟨?_, ?_, ?_⟩ <;>
  · simp only [pair_TV_MomentumEquationViscosity]
    c09_atoms o k a b
    simp only [loop_TV_MomentumEquationViscosity]
    c09_norm
    c09_close

/-- `m_a · contrib(a, b) = −(m_b · contrib(b, a))`, component by component -/
include hk in
theorem pair_antisym_TV_MomentumEquationViscosity (acc acc' : Out_TV_MomentumEquationViscosity K) (a b : P K) :
    a.m * ((pair_TV_MomentumEquationViscosity o k self_nu acc a b).d_au - acc.d_au) = -(b.m * ((pair_TV_MomentumEquationViscosity o k self_nu acc' b a).d_au - acc'.d_au)) ∧
    a.m * ((pair_TV_MomentumEquationViscosity o k self_nu acc a b).d_av - acc.d_av) = -(b.m * ((pair_TV_MomentumEquationViscosity o k self_nu acc' b a).d_av - acc'.d_av)) ∧
    a.m * ((pair_TV_MomentumEquationViscosity o k self_nu acc a b).d_aw - acc.d_aw) = -(b.m * ((pair_TV_MomentumEquationViscosity o k self_nu acc' b a).d_aw - acc'.d_aw)) := by
  refine ⟨?_, ?_, ?_⟩ <;>
  · simp only [pair_TV_MomentumEquationViscosity]
    c09_swap o k a b hk
    c09_atoms o k a b
    simp only [loop_TV_MomentumEquationViscosity]
    c09_norm
    c09_close

/-- closed system: evaluating the equation for every particle over a symmetric neighbour relation
gives `Σ m a = 0` -/
include hk in
theorem linear_momentum_TV_MomentumEquationViscosity {ι : Type} [Fintype ι] [DecidableEq ι] (p : ι → P K)
    (nbrs : ι → List ι) (hnd : ∀ i, (nbrs i).Nodup) (hsymm : ∀ i j, j ∈ nbrs i → i ∈ nbrs j)
    (init : ι → Out_TV_MomentumEquationViscosity K) (hinit : ∀ i, (init i).d_au = 0 ∧ (init i).d_av = 0 ∧ (init i).d_aw = 0) :
    ∑ i, (p i).m * ((nbrs i).foldl (fun acc j => pair_TV_MomentumEquationViscosity o k self_nu acc (p i) (p j)) (init i)).d_au = 0 ∧
    ∑ i, (p i).m * ((nbrs i).foldl (fun acc j => pair_TV_MomentumEquationViscosity o k self_nu acc (p i) (p j)) (init i)).d_av = 0 ∧
    ∑ i, (p i).m * ((nbrs i).foldl (fun acc j => pair_TV_MomentumEquationViscosity o k self_nu acc (p i) (p j)) (init i)).d_aw = 0 := by
  refine ⟨?_, ?_, ?_⟩
  · exact linear_momentum_of_pair (fun i => (p i).m) nbrs hnd hsymm (fun i acc j => pair_TV_MomentumEquationViscosity o k self_nu acc (p i) (p j))
      (fun s => s.d_au) init (fun i => (hinit i).1)
      (fun i j acc acc' => (additive_TV_MomentumEquationViscosity o k self_nu acc acc' (p i) (p j)).1)
      (fun i j acc acc' => (pair_antisym_TV_MomentumEquationViscosity o k hk self_nu acc acc' (p i) (p j)).1)
  · exact linear_momentum_of_pair (fun i => (p i).m) nbrs hnd hsymm (fun i acc j => pair_TV_MomentumEquationViscosity o k self_nu acc (p i) (p j))
      (fun s => s.d_av) init (fun i => (hinit i).2.1)
      (fun i j acc acc' => (additive_TV_MomentumEquationViscosity o k self_nu acc acc' (p i) (p j)).2.1)
      (fun i j acc acc' => (pair_antisym_TV_MomentumEquationViscosity o k hk self_nu acc acc' (p i) (p j)).2.1)
  · exact linear_momentum_of_pair (fun i => (p i).m) nbrs hnd hsymm (fun i acc j => pair_TV_MomentumEquationViscosity o k self_nu acc (p i) (p j))
      (fun s => s.d_aw) init (fun i => (hinit i).2.2)
      (fun i j acc acc' => (additive_TV_MomentumEquationViscosity o k self_nu acc acc' (p i) (p j)).2.2)
      (fun i j acc acc' => (pair_antisym_TV_MomentumEquationViscosity o k hk self_nu acc acc' (p i) (p j)).2.2)

end TV_MomentumEquationViscosity

/-! ## `pysph/sph/wc/transport_velocity.py.MomentumEquationArtificialViscosity` (TV_MomentumEquationArtificialViscosity) -/
section TV_MomentumEquationArtificialViscosity
variable (o : Ops K) (k : Kern K) {w g : K → K → K} (hk : Radial k w g) (self_alpha : K) (self_c0 : K)

/-- the contribution of a pair to the accumulated acceleration does not depend on the accumulator -/
theorem additive_TV_MomentumEquationArtificialViscosity (acc acc' : Out_TV_MomentumEquationArtificialViscosity K) (a b : P K) :
    ((pair_TV_MomentumEquationArtificialViscosity o k self_alpha self_c0 acc a b).d_au - acc.d_au) = ((pair_TV_MomentumEquationArtificialViscosity o k self_alpha self_c0 acc' a b).d_au - acc'.d_au) ∧
    ((pair_TV_MomentumEquationArtificialViscosity o k self_alpha self_c0 acc a b).d_av - acc.d_av) = ((pair_TV_MomentumEquationArtificialViscosity o k self_alpha self_c0 acc' a b).d_av - acc'.d_av) ∧
    ((pair_TV_MomentumEquationArtificialViscosity o k self_alpha self_c0 acc a b).d_aw - acc.d_aw) = ((pair_TV_MomentumEquationArtificialViscosity o k self_alpha self_c0 acc' a b).d_aw - acc'.d_aw) := by
  refine ⟨?_, ?_, ?_⟩ <;>
  · simp only [pair_TV_MomentumEquationArtificialViscosity]
    c09_atoms o k a b
    simp only [loop_TV_MomentumEquationArtificialViscosity]
    c09_norm
    c09_close

/-- `m_a · contrib(a, b) = −(m_b · contrib(b, a))`, component by component -/
include hk in
theorem pair_antisym_TV_MomentumEquationArtificialViscosity (acc acc' : Out_TV_MomentumEquationArtificialViscosity K) (a b : P K) :
    a.m * ((pair_TV_MomentumEquationArtificialViscosity o k self_alpha self_c0 acc a b).d_au - acc.d_au) = -(b.m * ((pair_TV_MomentumEquationArtificialViscosity o k self_alpha self_c0 acc' b a).d_au - acc'.d_au)) ∧
    a.m * ((pair_TV_MomentumEquationArtificialViscosity o k self_alpha self_c0 acc a b).d_av - acc.d_av) = -(b.m * ((pair_TV_MomentumEquationArtificialViscosity o k self_alpha self_c0 acc' b a).d_av - acc'.d_av)) ∧
    a.m * ((pair_TV_MomentumEquationArtificialViscosity o k self_alpha self_c0 acc a b).d_aw - acc.d_aw) = -(b.m * ((pair_TV_MomentumEquationArtificialViscosity o k self_alpha self_c0 acc' b a).d_aw - acc'.d_aw)) := by
  refine ⟨?_, ?_, ?_⟩ <;>
  · simp only [pair_TV_MomentumEquationArtificialViscosity]
    c09_swap o k a b hk
    c09_atoms o k a b
    simp only [loop_TV_MomentumEquationArtificialViscosity]
    c09_norm
    c09_close

/-- the pair contribution is parallel to the separation `x_a − x_b` (cross product zero) -/
include hk in
theorem central_TV_MomentumEquationArtificialViscosity (acc : Out_TV_MomentumEquationArtificialViscosity K) (a b : P K) :
    (a.x - b.x) * ((pair_TV_MomentumEquationArtificialViscosity o k self_alpha self_c0 acc a b).d_av - acc.d_av) = (a.y - b.y) * ((pair_TV_MomentumEquationArtificialViscosity o k self_alpha self_c0 acc a b).d_au - acc.d_au) ∧
    (a.y - b.y) * ((pair_TV_MomentumEquationArtificialViscosity o k self_alpha self_c0 acc a b).d_aw - acc.d_aw) = (a.z - b.z) * ((pair_TV_MomentumEquationArtificialViscosity o k self_alpha self_c0 acc a b).d_av - acc.d_av) ∧
    (a.z - b.z) * ((pair_TV_MomentumEquationArtificialViscosity o k self_alpha self_c0 acc a b).d_au - acc.d_au) = (a.x - b.x) * ((pair_TV_MomentumEquationArtificialViscosity o k self_alpha self_c0 acc a b).d_aw - acc.d_aw) := by
  refine ⟨?_, ?_, ?_⟩ <;>
  · simp only [pair_TV_MomentumEquationArtificialViscosity]
    c09_shape o k a b hk
    c09_atoms o k a b
    simp only [loop_TV_MomentumEquationArtificialViscosity]
    c09_norm
    c09_close

/-- closed system: evaluating the equation for every particle over a symmetric neighbour relation
gives `Σ m a = 0` -/
include hk in
theorem linear_momentum_TV_MomentumEquationArtificialViscosity {ι : Type} [Fintype ι] [DecidableEq ι] (p : ι → P K)
    (nbrs : ι → List ι) (hnd : ∀ i, (nbrs i).Nodup) (hsymm : ∀ i j, j ∈ nbrs i → i ∈ nbrs j)
    (init : ι → Out_TV_MomentumEquationArtificialViscosity K) (hinit : ∀ i, (init i).d_au = 0 ∧ (init i).d_av = 0 ∧ (init i).d_aw = 0) :
    ∑ i, (p i).m * ((nbrs i).foldl (fun acc j => pair_TV_MomentumEquationArtificialViscosity o k self_alpha self_c0 acc (p i) (p j)) (init i)).d_au = 0 ∧
    ∑ i, (p i).m * ((nbrs i).foldl (fun acc j => pair_TV_MomentumEquationArtificialViscosity o k self_alpha self_c0 acc (p i) (p j)) (init i)).d_av = 0 ∧
    ∑ i, (p i).m * ((nbrs i).foldl (fun acc j => pair_TV_MomentumEquationArtificialViscosity o k self_alpha self_c0 acc (p i) (p j)) (init i)).d_aw = 0 := by
  refine ⟨?_, ?_, ?_⟩
  · exact linear_momentum_of_pair (fun i => (p i).m) nbrs hnd hsymm (fun i acc j => pair_TV_MomentumEquationArtificialViscosity o k self_alpha self_c0 acc (p i) (p j))
      (fun s => s.d_au) init (fun i => (hinit i).1)
      (fun i j acc acc' => (additive_TV_MomentumEquationArtificialViscosity o k self_alpha self_c0 acc acc' (p i) (p j)).1)
      (fun i j acc acc' => (pair_antisym_TV_MomentumEquationArtificialViscosity o k hk self_alpha self_c0 acc acc' (p i) (p j)).1)
  · exact linear_momentum_of_pair (fun i => (p i).m) nbrs hnd hsymm (fun i acc j => pair_TV_MomentumEquationArtificialViscosity o k self_alpha self_c0 acc (p i) (p j))
      (fun s => s.d_av) init (fun i => (hinit i).2.1)
      (fun i j acc acc' => (additive_TV_MomentumEquationArtificialViscosity o k self_alpha self_c0 acc acc' (p i) (p j)).2.1)
      (fun i j acc acc' => (pair_antisym_TV_MomentumEquationArtificialViscosity o k hk self_alpha self_c0 acc acc' (p i) (p j)).2.1)
  · exact linear_momentum_of_pair (fun i => (p i).m) nbrs hnd hsymm (fun i acc j => pair_TV_MomentumEquationArtificialViscosity o k self_alpha self_c0 acc (p i) (p j))
      (fun s => s.d_aw) init (fun i => (hinit i).2.2)
      (fun i j acc acc' => (additive_TV_MomentumEquationArtificialViscosity o k self_alpha self_c0 acc acc' (p i) (p j)).2.2)
      (fun i j acc acc' => (pair_antisym_TV_MomentumEquationArtificialViscosity o k hk self_alpha self_c0 acc acc' (p i) (p j)).2.2)

/-- closed system: `Σ m x × a = 0` (three components) -/
include hk in
theorem angular_momentum_TV_MomentumEquationArtificialViscosity {ι : Type} [Fintype ι] [DecidableEq ι] (p : ι → P K)
    (nbrs : ι → List ι) (hnd : ∀ i, (nbrs i).Nodup) (hsymm : ∀ i j, j ∈ nbrs i → i ∈ nbrs j)
    (init : ι → Out_TV_MomentumEquationArtificialViscosity K) (hinit : ∀ i, (init i).d_au = 0 ∧ (init i).d_av = 0 ∧ (init i).d_aw = 0) :
    (∑ i, (p i).m * ((p i).x * ((nbrs i).foldl (fun acc j => pair_TV_MomentumEquationArtificialViscosity o k self_alpha self_c0 acc (p i) (p j)) (init i)).d_av - (p i).y * ((nbrs i).foldl (fun acc j => pair_TV_MomentumEquationArtificialViscosity o k self_alpha self_c0 acc (p i) (p j)) (init i)).d_au) = 0) ∧
    (∑ i, (p i).m * ((p i).y * ((nbrs i).foldl (fun acc j => pair_TV_MomentumEquationArtificialViscosity o k self_alpha self_c0 acc (p i) (p j)) (init i)).d_aw - (p i).z * ((nbrs i).foldl (fun acc j => pair_TV_MomentumEquationArtificialViscosity o k self_alpha self_c0 acc (p i) (p j)) (init i)).d_av) = 0) ∧
    (∑ i, (p i).m * ((p i).z * ((nbrs i).foldl (fun acc j => pair_TV_MomentumEquationArtificialViscosity o k self_alpha self_c0 acc (p i) (p j)) (init i)).d_au - (p i).x * ((nbrs i).foldl (fun acc j => pair_TV_MomentumEquationArtificialViscosity o k self_alpha self_c0 acc (p i) (p j)) (init i)).d_aw) = 0) := by
  refine ⟨?_, ?_, ?_⟩
  · exact angular_momentum_of_pair (fun i => (p i).m) (fun i => (p i).x) (fun i => (p i).y) nbrs hnd hsymm
      (fun i acc j => pair_TV_MomentumEquationArtificialViscosity o k self_alpha self_c0 acc (p i) (p j)) (fun s => s.d_au) (fun s => s.d_av) init
      (fun i => (hinit i).1) (fun i => (hinit i).2.1)
      (fun i j acc acc' => (additive_TV_MomentumEquationArtificialViscosity o k self_alpha self_c0 acc acc' (p i) (p j)).1)
      (fun i j acc acc' => (additive_TV_MomentumEquationArtificialViscosity o k self_alpha self_c0 acc acc' (p i) (p j)).2.1)
      (fun i j acc acc' => (pair_antisym_TV_MomentumEquationArtificialViscosity o k hk self_alpha self_c0 acc acc' (p i) (p j)).1)
      (fun i j acc acc' => (pair_antisym_TV_MomentumEquationArtificialViscosity o k hk self_alpha self_c0 acc acc' (p i) (p j)).2.1)
      (fun i j acc => (central_TV_MomentumEquationArtificialViscosity o k hk self_alpha self_c0 acc (p i) (p j)).1)
  · exact angular_momentum_of_pair (fun i => (p i).m) (fun i => (p i).y) (fun i => (p i).z) nbrs hnd hsymm
      (fun i acc j => pair_TV_MomentumEquationArtificialViscosity o k self_alpha self_c0 acc (p i) (p j)) (fun s => s.d_av) (fun s => s.d_aw) init
      (fun i => (hinit i).2.1) (fun i => (hinit i).2.2)
      (fun i j acc acc' => (additive_TV_MomentumEquationArtificialViscosity o k self_alpha self_c0 acc acc' (p i) (p j)).2.1)
      (fun i j acc acc' => (additive_TV_MomentumEquationArtificialViscosity o k self_alpha self_c0 acc acc' (p i) (p j)).2.2)
      (fun i j acc acc' => (pair_antisym_TV_MomentumEquationArtificialViscosity o k hk self_alpha self_c0 acc acc' (p i) (p j)).2.1)
      (fun i j acc acc' => (pair_antisym_TV_MomentumEquationArtificialViscosity o k hk self_alpha self_c0 acc acc' (p i) (p j)).2.2)
      (fun i j acc => (central_TV_MomentumEquationArtificialViscosity o k hk self_alpha self_c0 acc (p i) (p j)).2.1)
  · exact angular_momentum_of_pair (fun i => (p i).m) (fun i => (p i).z) (fun i => (p i).x) nbrs hnd hsymm
      (fun i acc j => pair_TV_MomentumEquationArtificialViscosity o k self_alpha self_c0 acc (p i) (p j)) (fun s => s.d_aw) (fun s => s.d_au) init
      (fun i => (hinit i).2.2) (fun i => (hinit i).1)
      (fun i j acc acc' => (additive_TV_MomentumEquationArtificialViscosity o k self_alpha self_c0 acc acc' (p i) (p j)).2.2)
      (fun i j acc acc' => (additive_TV_MomentumEquationArtificialViscosity o k self_alpha self_c0 acc acc' (p i) (p j)).1)
      (fun i j acc acc' => (pair_antisym_TV_MomentumEquationArtificialViscosity o k hk self_alpha self_c0 acc acc' (p i) (p j)).2.2)
      (fun i j acc acc' => (pair_antisym_TV_MomentumEquationArtificialViscosity o k hk self_alpha self_c0 acc acc' (p i) (p j)).1)
      (fun i j acc => (central_TV_MomentumEquationArtificialViscosity o k hk self_alpha self_c0 acc (p i) (p j)).2.2)

end TV_MomentumEquationArtificialViscosity

/-! ## `pysph/sph/wc/transport_velocity.py.MomentumEquationArtificialStress` (TV_MomentumEquationArtificialStress) -/
section TV_MomentumEquationArtificialStress
variable (o : Ops K) (k : Kern K) {w g : K → K → K} (hk : Radial k w g) 

/-- the contribution of a pair to the accumulated acceleration does not depend on the accumulator -/
theorem additive_TV_MomentumEquationArtificialStress (acc acc' : Out_TV_MomentumEquationArtificialStress K) (a b : P K) :
    ((pair_TV_MomentumEquationArtificialStress o k  acc a b).d_au - acc.d_au) = ((pair_TV_MomentumEquationArtificialStress o k  acc' a b).d_au - acc'.d_au) ∧
    ((pair_TV_MomentumEquationArtificialStress o k  acc a b).d_av - acc.d_av) = ((pair_TV_MomentumEquationArtificialStress o k  acc' a b).d_av - acc'.d_av) ∧
    ((pair_TV_MomentumEquationArtificialStress o k  acc a b).d_aw - acc.d_aw) = ((pair_TV_MomentumEquationArtificialStress o k  acc' a b).d_aw - acc'.d_aw) := by
  refine ⟨?_, ?_, ?_⟩ <;>
  · simp only [pair_TV_MomentumEquationArtificialStress]
    c09_atoms o k a b
    simp only [loop_TV_MomentumEquationArtificialStress]
    c09_norm
    c09_close

/-- `m_a · contrib(a, b) = −(m_b · contrib(b, a))`, component by component -/
include hk in
theorem pair_antisym_TV_MomentumEquationArtificialStress (acc acc' : Out_TV_MomentumEquationArtificialStress K) (a b : P K) :
    a.m * ((pair_TV_MomentumEquationArtificialStress o k  acc a b).d_au - acc.d_au) = -(b.m * ((pair_TV_MomentumEquationArtificialStress o k  acc' b a).d_au - acc'.d_au)) ∧
    a.m * ((pair_TV_MomentumEquationArtificialStress o k  acc a b).d_av - acc.d_av) = -(b.m * ((pair_TV_MomentumEquationArtificialStress o k  acc' b a).d_av - acc'.d_av)) ∧
    a.m * ((pair_TV_MomentumEquationArtificialStress o k  acc a b).d_aw - acc.d_aw) = -(b.m * ((pair_TV_MomentumEquationArtificialStress o k  acc' b a).d_aw - acc'.d_aw)) := by
  refine ⟨?_, ?_, ?_⟩ <;>
  · simp only [pair_TV_MomentumEquationArtificialStress]
    c09_swap o k a b hk
    c09_atoms o k a b
    simp only [loop_TV_MomentumEquationArtificialStress]
    c09_norm
    c09_close

/-- closed system: evaluating the equation for every particle over a symmetric neighbour relation
gives `Σ m a = 0` -/
include hk in
theorem linear_momentum_TV_MomentumEquationArtificialStress {ι : Type} [Fintype ι] [DecidableEq ι] (p : ι → P K)
    (nbrs : ι → List ι) (hnd : ∀ i, (nbrs i).Nodup) (hsymm : ∀ i j, j ∈ nbrs i → i ∈ nbrs j)
    (init : ι → Out_TV_MomentumEquationArtificialStress K) (hinit : ∀ i, (init i).d_au = 0 ∧ (init i).d_av = 0 ∧ (init i).d_aw = 0) :
    ∑ i, (p i).m * ((nbrs i).foldl (fun acc j => pair_TV_MomentumEquationArtificialStress o k  acc (p i) (p j)) (init i)).d_au = 0 ∧
    ∑ i, (p i).m * ((nbrs i).foldl (fun acc j => pair_TV_MomentumEquationArtificialStress o k  acc (p i) (p j)) (init i)).d_av = 0 ∧
    ∑ i, (p i).m * ((nbrs i).foldl (fun acc j => pair_TV_MomentumEquationArtificialStress o k  acc (p i) (p j)) (init i)).d_aw = 0 := by
  refine ⟨?_, ?_, ?_⟩
  · exact linear_momentum_of_pair (fun i => (p i).m) nbrs hnd hsymm (fun i acc j => pair_TV_MomentumEquationArtificialStress o k  acc (p i) (p j))
      (fun s => s.d_au) init (fun i => (hinit i).1)
      (fun i j acc acc' => (additive_TV_MomentumEquationArtificialStress o k  acc acc' (p i) (p j)).1)
      (fun i j acc acc' => (pair_antisym_TV_MomentumEquationArtificialStress o k hk  acc acc' (p i) (p j)).1)
  · exact linear_momentum_of_pair (fun i => (p i).m) nbrs hnd hsymm (fun i acc j => pair_TV_MomentumEquationArtificialStress o k  acc (p i) (p j))
      (fun s => s.d_av) init (fun i => (hinit i).2.1)
      (fun i j acc acc' => (additive_TV_MomentumEquationArtificialStress o k  acc acc' (p i) (p j)).2.1)
      (fun i j acc acc' => (pair_antisym_TV_MomentumEquationArtificialStress o k hk  acc acc' (p i) (p j)).2.1)
  · exact linear_momentum_of_pair (fun i => (p i).m) nbrs hnd hsymm (fun i acc j => pair_TV_MomentumEquationArtificialStress o k  acc (p i) (p j))
      (fun s => s.d_aw) init (fun i => (hinit i).2.2)
      (fun i j acc acc' => (additive_TV_MomentumEquationArtificialStress o k  acc acc' (p i) (p j)).2.2)
      (fun i j acc acc' => (pair_antisym_TV_MomentumEquationArtificialStress o k hk  acc acc' (p i) (p j)).2.2)

end TV_MomentumEquationArtificialStress

/-! ## `pysph/sph/wc/edac.py.MomentumEquation` (ED_MomentumEquation) -/
section ED_MomentumEquation
variable (o : Ops K) (k : Kern K) {w g : K → K → K} (hk : Radial k w g) 

/-- the contribution of a pair to the accumulated acceleration does not depend on the accumulator -/
theorem additive_ED_MomentumEquation (acc acc' : Out_ED_MomentumEquation K) (a b : P K) :
    ((pair_ED_MomentumEquation o k  acc a b).d_au - acc.d_au) = ((pair_ED_MomentumEquation o k  acc' a b).d_au - acc'.d_au) ∧
    ((pair_ED_MomentumEquation o k  acc a b).d_av - acc.d_av) = ((pair_ED_MomentumEquation o k  acc' a b).d_av - acc'.d_av) ∧
    ((pair_ED_MomentumEquation o k  acc a b).d_aw - acc.d_aw) = ((pair_ED_MomentumEquation o k  acc' a b).d_aw - acc'.d_aw) := by
  refine ⟨?_, ?_, ?_⟩ <;>
  · simp only [pair_ED_MomentumEquation]
    c09_atoms o k a b
    simp only [loop_ED_MomentumEquation]
    c09_norm
    c09_close

/-- `m_a · contrib(a, b) = −(m_b · contrib(b, a))`, component by component -/
include hk in
theorem pair_antisym_ED_MomentumEquation (acc acc' : Out_ED_MomentumEquation K) (a b : P K) :
    a.m * ((pair_ED_MomentumEquation o k  acc a b).d_au - acc.d_au) = -(b.m * ((pair_ED_MomentumEquation o k  acc' b a).d_au - acc'.d_au)) ∧
    a.m * ((pair_ED_MomentumEquation o k  acc a b).d_av - acc.d_av) = -(b.m * ((pair_ED_MomentumEquation o k  acc' b a).d_av - acc'.d_av)) ∧
    a.m * ((pair_ED_MomentumEquation o k  acc a b).d_aw - acc.d_aw) = -(b.m * ((pair_ED_MomentumEquation o k  acc' b a).d_aw - acc'.d_aw)) := by
  refine ⟨?_, ?_, ?_⟩ <;>
  · simp only [pair_ED_MomentumEquation]
    c09_swap o k a b hk
    c09_atoms o k a b
    simp only [loop_ED_MomentumEquation]
    c09_norm
    c09_close

/-- the pair contribution is parallel to the separation `x_a − x_b` (cross product zero) -/
include hk in
theorem central_ED_MomentumEquation (acc : Out_ED_MomentumEquation K) (a b : P K) :
    (a.x - b.x) * ((pair_ED_MomentumEquation o k  acc a b).d_av - acc.d_av) = (a.y - b.y) * ((pair_ED_MomentumEquation o k  acc a b).d_au - acc.d_au) ∧
    (a.y - b.y) * ((pair_ED_MomentumEquation o k  acc a b).d_aw - acc.d_aw) = (a.z - b.z) * ((pair_ED_MomentumEquation o k  acc a b).d_av - acc.d_av) ∧
    (a.z - b.z) * ((pair_ED_MomentumEquation o k  acc a b).d_au - acc.d_au) = (a.x - b.x) * ((pair_ED_MomentumEquation o k  acc a b).d_aw - acc.d_aw) := by
  refine ⟨?_, ?_, ?_⟩ <;>
  · simp only [pair_ED_MomentumEquation]
    c09_shape o k a b hk
    c09_atoms o k a b
    simp only [loop_ED_MomentumEquation]
    c09_norm
    c09_close

/-- closed system: evaluating the equation for every particle over a symmetric neighbour relation
gives `Σ m a = 0` -/
include hk in
theorem linear_momentum_ED_MomentumEquation {ι : Type} [Fintype ι] [DecidableEq ι] (p : ι → P K)
    (nbrs : ι → List ι) (hnd : ∀ i, (nbrs i).Nodup) (hsymm : ∀ i j, j ∈ nbrs i → i ∈ nbrs j)
    (init : ι → Out_ED_MomentumEquation K) (hinit : ∀ i, (init i).d_au = 0 ∧ (init i).d_av = 0 ∧ (init i).d_aw = 0) :
    ∑ i, (p i).m * ((nbrs i).foldl (fun acc j => pair_ED_MomentumEquation o k  acc (p i) (p j)) (init i)).d_au = 0 ∧
    ∑ i, (p i).m * ((nbrs i).foldl (fun acc j => pair_ED_MomentumEquation o k  acc (p i) (p j)) (init i)).d_av = 0 ∧
    ∑ i, (p i).m * ((nbrs i).foldl (fun acc j => pair_ED_MomentumEquation o k  acc (p i) (p j)) (init i)).d_aw = 0 := by
  refine ⟨?_, ?_, ?_⟩
  · exact linear_momentum_of_pair (fun i => (p i).m) nbrs hnd hsymm (fun i acc j => pair_ED_MomentumEquation o k  acc (p i) (p j))
      (fun s => s.d_au) init (fun i => (hinit i).1)
      (fun i j acc acc' => (additive_ED_MomentumEquation o k  acc acc' (p i) (p j)).1)
      (fun i j acc acc' => (pair_antisym_ED_MomentumEquation o k hk  acc acc' (p i) (p j)).1)
  · exact linear_momentum_of_pair (fun i => (p i).m) nbrs hnd hsymm (fun i acc j => pair_ED_MomentumEquation o k  acc (p i) (p j))
      (fun s => s.d_av) init (fun i => (hinit i).2.1)
      (fun i j acc acc' => (additive_ED_MomentumEquation o k  acc acc' (p i) (p j)).2.1)
      (fun i j acc acc' => (pair_antisym_ED_MomentumEquation o k hk  acc acc' (p i) (p j)).2.1)
  · exact linear_momentum_of_pair (fun i => (p i).m) nbrs hnd hsymm (fun i acc j => pair_ED_MomentumEquation o k  acc (p i) (p j))
      (fun s => s.d_aw) init (fun i => (hinit i).2.2)
      (fun i j acc acc' => (additive_ED_MomentumEquation o k  acc acc' (p i) (p j)).2.2)
      (fun i j acc acc' => (pair_antisym_ED_MomentumEquation o k hk  acc acc' (p i) (p j)).2.2)

/-- closed system: `Σ m x × a = 0` (three components) -/
include hk in
theorem angular_momentum_ED_MomentumEquation {ι : Type} [Fintype ι] [DecidableEq ι] (p : ι → P K)
    (nbrs : ι → List ι) (hnd : ∀ i, (nbrs i).Nodup) (hsymm : ∀ i j, j ∈ nbrs i → i ∈ nbrs j)
    (init : ι → Out_ED_MomentumEquation K) (hinit : ∀ i, (init i).d_au = 0 ∧ (init i).d_av = 0 ∧ (init i).d_aw = 0) :
    (∑ i, (p i).m * ((p i).x * ((nbrs i).foldl (fun acc j => pair_ED_MomentumEquation o k  acc (p i) (p j)) (init i)).d_av - (p i).y * ((nbrs i).foldl (fun acc j => pair_ED_MomentumEquation o k  acc (p i) (p j)) (init i)).d_au) = 0) ∧
    (∑ i, (p i).m * ((p i).y * ((nbrs i).foldl (fun acc j => pair_ED_MomentumEquation o k  acc (p i) (p j)) (init i)).d_aw - (p i).z * ((nbrs i).foldl (fun acc j => pair_ED_MomentumEquation o k  acc (p i) (p j)) (init i)).d_av) = 0) ∧
    (∑ i, (p i).m * ((p i).z * ((nbrs i).foldl (fun acc j => pair_ED_MomentumEquation o k  acc (p i) (p j)) (init i)).d_au - (p i).x * ((nbrs i).foldl (fun acc j => pair_ED_MomentumEquation o k  acc (p i) (p j)) (init i)).d_aw) = 0) := by
  refine ⟨?_, ?_, ?_⟩
  · exact angular_momentum_of_pair (fun i => (p i).m) (fun i => (p i).x) (fun i => (p i).y) nbrs hnd hsymm
      (fun i acc j => pair_ED_MomentumEquation o k  acc (p i) (p j)) (fun s => s.d_au) (fun s => s.d_av) init
      (fun i => (hinit i).1) (fun i => (hinit i).2.1)
      (fun i j acc acc' => (additive_ED_MomentumEquation o k  acc acc' (p i) (p j)).1)
      (fun i j acc acc' => (additive_ED_MomentumEquation o k  acc acc' (p i) (p j)).2.1)
      (fun i j acc acc' => (pair_antisym_ED_MomentumEquation o k hk  acc acc' (p i) (p j)).1)
      (fun i j acc acc' => (pair_antisym_ED_MomentumEquation o k hk  acc acc' (p i) (p j)).2.1)
      (fun i j acc => (central_ED_MomentumEquation o k hk  acc (p i) (p j)).1)
  · exact angular_momentum_of_pair (fun i => (p i).m) (fun i => (p i).y) (fun i => (p i).z) nbrs hnd hsymm
      (fun i acc j => pair_ED_MomentumEquation o k  acc (p i) (p j)) (fun s => s.d_av) (fun s => s.d_aw) init
      (fun i => (hinit i).2.1) (fun i => (hinit i).2.2)
      (fun i j acc acc' => (additive_ED_MomentumEquation o k  acc acc' (p i) (p j)).2.1)
      (fun i j acc acc' => (additive_ED_MomentumEquation o k  acc acc' (p i) (p j)).2.2)
      (fun i j acc acc' => (pair_antisym_ED_MomentumEquation o k hk  acc acc' (p i) (p j)).2.1)
      (fun i j acc acc' => (pair_antisym_ED_MomentumEquation o k hk  acc acc' (p i) (p j)).2.2)
      (fun i j acc => (central_ED_MomentumEquation o k hk  acc (p i) (p j)).2.1)
  · exact angular_momentum_of_pair (fun i => (p i).m) (fun i => (p i).z) (fun i => (p i).x) nbrs hnd hsymm
      (fun i acc j => pair_ED_MomentumEquation o k  acc (p i) (p j)) (fun s => s.d_aw) (fun s => s.d_au) init
      (fun i => (hinit i).2.2) (fun i => (hinit i).1)
      (fun i j acc acc' => (additive_ED_MomentumEquation o k  acc acc' (p i) (p j)).2.2)
      (fun i j acc acc' => (additive_ED_MomentumEquation o k  acc acc' (p i) (p j)).1)
      (fun i j acc acc' => (pair_antisym_ED_MomentumEquation o k hk  acc acc' (p i) (p j)).2.2)
      (fun i j acc acc' => (pair_antisym_ED_MomentumEquation o k hk  acc acc' (p i) (p j)).1)
      (fun i j acc => (central_ED_MomentumEquation o k hk  acc (p i) (p j)).2.2)

end ED_MomentumEquation

/-! ## `pysph/sph/wc/edac.py.MomentumEquationPressureGradient` (ED_MomentumEquationPressureGradient) -/
section ED_MomentumEquationPressureGradient
variable (o : Ops K) (k : Kern K) {w g : K → K → K} (hk : Radial k w g) (self_pb : K)

/-- the contribution of a pair to the accumulated acceleration does not depend on the accumulator -/
theorem additive_ED_MomentumEquationPressureGradient (acc acc' : Out_ED_MomentumEquationPressureGradient K) (a b : P K) :
    ((pair_ED_MomentumEquationPressureGradient o k self_pb acc a b).d_au - acc.d_au) = ((pair_ED_MomentumEquationPressureGradient o k self_pb acc' a b).d_au - acc'.d_au) ∧
    ((pair_ED_MomentumEquationPressureGradient o k self_pb acc a b).d_av - acc.d_av) = ((pair_ED_MomentumEquationPressureGradient o k self_pb acc' a b).d_av - acc'.d_av) ∧
    ((pair_ED_MomentumEquationPressureGradient o k self_pb acc a b).d_aw - acc.d_aw) = ((pair_ED_MomentumEquationPressureGradient o k self_pb acc' a b).d_aw - acc'.d_aw) := by
  refine ⟨?_, ?_, ?_⟩ <;>
  · simp only [pair_ED_MomentumEquationPressureGradient]
    c09_atoms o k a b
    simp only [loop_ED_MomentumEquationPressureGradient]
    c09_norm
    c09_close

/-- `m_a · contrib(a, b) = −(m_b · contrib(b, a))`, component by component — for a uniform average pressure only -/
include hk in
theorem pair_antisym_ED_MomentumEquationPressureGradient (acc acc' : Out_ED_MomentumEquationPressureGradient K) (a b : P K) (hp : a.pavg = b.pavg) :
    a.m * ((pair_ED_MomentumEquationPressureGradient o k self_pb acc a b).d_au - acc.d_au) = -(b.m * ((pair_ED_MomentumEquationPressureGradient o k self_pb acc' b a).d_au - acc'.d_au)) ∧
    a.m * ((pair_ED_MomentumEquationPressureGradient o k self_pb acc a b).d_av - acc.d_av) = -(b.m * ((pair_ED_MomentumEquationPressureGradient o k self_pb acc' b a).d_av - acc'.d_av)) ∧
    a.m * ((pair_ED_MomentumEquationPressureGradient o k self_pb acc a b).d_aw - acc.d_aw) = -(b.m * ((pair_ED_MomentumEquationPressureGradient o k self_pb acc' b a).d_aw - acc'.d_aw)) := by
  refine ⟨?_, ?_, ?_⟩ <;>
  · simp only [pair_ED_MomentumEquationPressureGradient]
    c09_swap o k a b hk
    c09_atoms o k a b
    simp only [loop_ED_MomentumEquationPressureGradient, hp]
    c09_norm
    c09_close

/-- the pair contribution is parallel to the separation `x_a − x_b` (cross product zero) -/
include hk in
theorem central_ED_MomentumEquationPressureGradient (acc : Out_ED_MomentumEquationPressureGradient K) (a b : P K) :
    (a.x - b.x) * ((pair_ED_MomentumEquationPressureGradient o k self_pb acc a b).d_av - acc.d_av) = (a.y - b.y) * ((pair_ED_MomentumEquationPressureGradient o k self_pb acc a b).d_au - acc.d_au) ∧
    (a.y - b.y) * ((pair_ED_MomentumEquationPressureGradient o k self_pb acc a b).d_aw - acc.d_aw) = (a.z - b.z) * ((pair_ED_MomentumEquationPressureGradient o k self_pb acc a b).d_av - acc.d_av) ∧
    (a.z - b.z) * ((pair_ED_MomentumEquationPressureGradient o k self_pb acc a b).d_au - acc.d_au) = (a.x - b.x) * ((pair_ED_MomentumEquationPressureGradient o k self_pb acc a b).d_aw - acc.d_aw) := by
  refine ⟨?_, ?_, ?_⟩ <;>
  · simp only [pair_ED_MomentumEquationPressureGradient]
    c09_shape o k a b hk
    c09_atoms o k a b
    simp only [loop_ED_MomentumEquationPressureGradient]
    c09_norm
    c09_close

/-- closed system: evaluating the equation for every particle over a symmetric neighbour relation
gives `Σ m a = 0` -/
include hk in
theorem linear_momentum_ED_MomentumEquationPressureGradient {ι : Type} [Fintype ι] [DecidableEq ι] (p : ι → P K)
    (nbrs : ι → List ι) (hnd : ∀ i, (nbrs i).Nodup) (hsymm : ∀ i j, j ∈ nbrs i → i ∈ nbrs j)
    (init : ι → Out_ED_MomentumEquationPressureGradient K) (hinit : ∀ i, (init i).d_au = 0 ∧ (init i).d_av = 0 ∧ (init i).d_aw = 0) (hpavg : ∀ i j, (p i).pavg = (p j).pavg) :
    ∑ i, (p i).m * ((nbrs i).foldl (fun acc j => pair_ED_MomentumEquationPressureGradient o k self_pb acc (p i) (p j)) (init i)).d_au = 0 ∧
    ∑ i, (p i).m * ((nbrs i).foldl (fun acc j => pair_ED_MomentumEquationPressureGradient o k self_pb acc (p i) (p j)) (init i)).d_av = 0 ∧
    ∑ i, (p i).m * ((nbrs i).foldl (fun acc j => pair_ED_MomentumEquationPressureGradient o k self_pb acc (p i) (p j)) (init i)).d_aw = 0 := by
  refine ⟨?_, ?_, ?_⟩
  · exact linear_momentum_of_pair (fun i => (p i).m) nbrs hnd hsymm (fun i acc j => pair_ED_MomentumEquationPressureGradient o k self_pb acc (p i) (p j))
      (fun s => s.d_au) init (fun i => (hinit i).1)
      (fun i j acc acc' => (additive_ED_MomentumEquationPressureGradient o k self_pb acc acc' (p i) (p j)).1)
      (fun i j acc acc' => (pair_antisym_ED_MomentumEquationPressureGradient o k hk self_pb acc acc' (p i) (p j) (hpavg i j)).1)
  · exact linear_momentum_of_pair (fun i => (p i).m) nbrs hnd hsymm (fun i acc j => pair_ED_MomentumEquationPressureGradient o k self_pb acc (p i) (p j))
      (fun s => s.d_av) init (fun i => (hinit i).2.1)
      (fun i j acc acc' => (additive_ED_MomentumEquationPressureGradient o k self_pb acc acc' (p i) (p j)).2.1)
      (fun i j acc acc' => (pair_antisym_ED_MomentumEquationPressureGradient o k hk self_pb acc acc' (p i) (p j) (hpavg i j)).2.1)
  · exact linear_momentum_of_pair (fun i => (p i).m) nbrs hnd hsymm (fun i acc j => pair_ED_MomentumEquationPressureGradient o k self_pb acc (p i) (p j))
      (fun s => s.d_aw) init (fun i => (hinit i).2.2)
      (fun i j acc acc' => (additive_ED_MomentumEquationPressureGradient o k self_pb acc acc' (p i) (p j)).2.2)
      (fun i j acc acc' => (pair_antisym_ED_MomentumEquationPressureGradient o k hk self_pb acc acc' (p i) (p j) (hpavg i j)).2.2)

/-- closed system: `Σ m x × a = 0` (three components) -/
include hk in
theorem angular_momentum_ED_MomentumEquationPressureGradient {ι : Type} [Fintype ι] [DecidableEq ι] (p : ι → P K)
    (nbrs : ι → List ι) (hnd : ∀ i, (nbrs i).Nodup) (hsymm : ∀ i j, j ∈ nbrs i → i ∈ nbrs j)
    (init : ι → Out_ED_MomentumEquationPressureGradient K) (hinit : ∀ i, (init i).d_au = 0 ∧ (init i).d_av = 0 ∧ (init i).d_aw = 0) (hpavg : ∀ i j, (p i).pavg = (p j).pavg) :
    (∑ i, (p i).m * ((p i).x * ((nbrs i).foldl (fun acc j => pair_ED_MomentumEquationPressureGradient o k self_pb acc (p i) (p j)) (init i)).d_av - (p i).y * ((nbrs i).foldl (fun acc j => pair_ED_MomentumEquationPressureGradient o k self_pb acc (p i) (p j)) (init i)).d_au) = 0) ∧
    (∑ i, (p i).m * ((p i).y * ((nbrs i).foldl (fun acc j => pair_ED_MomentumEquationPressureGradient o k self_pb acc (p i) (p j)) (init i)).d_aw - (p i).z * ((nbrs i).foldl (fun acc j => pair_ED_MomentumEquationPressureGradient o k self_pb acc (p i) (p j)) (init i)).d_av) = 0) ∧
    (∑ i, (p i).m * ((p i).z * ((nbrs i).foldl (fun acc j => pair_ED_MomentumEquationPressureGradient o k self_pb acc (p i) (p j)) (init i)).d_au - (p i).x * ((nbrs i).foldl (fun acc j => pair_ED_MomentumEquationPressureGradient o k self_pb acc (p i) (p j)) (init i)).d_aw) = 0) := by
  refine ⟨?_, ?_, ?_⟩
  · exact angular_momentum_of_pair (fun i => (p i).m) (fun i => (p i).x) (fun i => (p i).y) nbrs hnd hsymm
      (fun i acc j => pair_ED_MomentumEquationPressureGradient o k self_pb acc (p i) (p j)) (fun s => s.d_au) (fun s => s.d_av) init
      (fun i => (hinit i).1) (fun i => (hinit i).2.1)
      (fun i j acc acc' => (additive_ED_MomentumEquationPressureGradient o k self_pb acc acc' (p i) (p j)).1)
      (fun i j acc acc' => (additive_ED_MomentumEquationPressureGradient o k self_pb acc acc' (p i) (p j)).2.1)
      (fun i j acc acc' => (pair_antisym_ED_MomentumEquationPressureGradient o k hk self_pb acc acc' (p i) (p j) (hpavg i j)).1)
      (fun i j acc acc' => (pair_antisym_ED_MomentumEquationPressureGradient o k hk self_pb acc acc' (p i) (p j) (hpavg i j)).2.1)
      (fun i j acc => (central_ED_MomentumEquationPressureGradient o k hk self_pb acc (p i) (p j)).1)
  · exact angular_momentum_of_pair (fun i => (p i).m) (fun i => (p i).y) (fun i => (p i).z) nbrs hnd hsymm
      (fun i acc j => pair_ED_MomentumEquationPressureGradient o k self_pb acc (p i) (p j)) (fun s => s.d_av) (fun s => s.d_aw) init
      (fun i => (hinit i).2.1) (fun i => (hinit i).2.2)
      (fun i j acc acc' => (additive_ED_MomentumEquationPressureGradient o k self_pb acc acc' (p i) (p j)).2.1)
      (fun i j acc acc' => (additive_ED_MomentumEquationPressureGradient o k self_pb acc acc' (p i) (p j)).2.2)
      (fun i j acc acc' => (pair_antisym_ED_MomentumEquationPressureGradient o k hk self_pb acc acc' (p i) (p j) (hpavg i j)).2.1)
      (fun i j acc acc' => (pair_antisym_ED_MomentumEquationPressureGradient o k hk self_pb acc acc' (p i) (p j) (hpavg i j)).2.2)
      (fun i j acc => (central_ED_MomentumEquationPressureGradient o k hk self_pb acc (p i) (p j)).2.1)
  · exact angular_momentum_of_pair (fun i => (p i).m) (fun i => (p i).z) (fun i => (p i).x) nbrs hnd hsymm
      (fun i acc j => pair_ED_MomentumEquationPressureGradient o k self_pb acc (p i) (p j)) (fun s => s.d_aw) (fun s => s.d_au) init
      (fun i => (hinit i).2.2) (fun i => (hinit i).1)
      (fun i j acc acc' => (additive_ED_MomentumEquationPressureGradient o k self_pb acc acc' (p i) (p j)).2.2)
      (fun i j acc acc' => (additive_ED_MomentumEquationPressureGradient o k self_pb acc acc' (p i) (p j)).1)
      (fun i j acc acc' => (pair_antisym_ED_MomentumEquationPressureGradient o k hk self_pb acc acc' (p i) (p j) (hpavg i j)).2.2)
      (fun i j acc acc' => (pair_antisym_ED_MomentumEquationPressureGradient o k hk self_pb acc acc' (p i) (p j) (hpavg i j)).1)
      (fun i j acc => (central_ED_MomentumEquationPressureGradient o k hk self_pb acc (p i) (p j)).2.2)

end ED_MomentumEquationPressureGradient

/-! ## `pysph/sph/wc/viscosity.py.LaminarViscosity` (VI_LaminarViscosity) -/
section VI_LaminarViscosity
variable (o : Ops K) (k : Kern K) {w g : K → K → K} (hk : Radial k w g) (self_eta : K) (self_nu : K)

/-- the contribution of a pair to the accumulated acceleration does not depend on the accumulator -/
theorem additive_VI_LaminarViscosity (acc acc' : Out_VI_LaminarViscosity K) (a b : P K) :
    ((pair_VI_LaminarViscosity o k self_eta self_nu acc a b).d_au - acc.d_au) = ((pair_VI_LaminarViscosity o k self_eta self_nu acc' a b).d_au - acc'.d_au) ∧
    ((pair_VI_LaminarViscosity o k self_eta self_nu acc a b).d_av - acc.d_av) = ((pair_VI_LaminarViscosity o k self_eta self_nu acc' a b).d_av - acc'.d_av) ∧
    ((pair_VI_LaminarViscosity o k self_eta self_nu acc a b).d_aw - acc.d_aw) = ((pair_VI_LaminarViscosity o k self_eta self_nu acc' a b).d_aw - acc'.d_aw) := by
  refine ⟨?_, ?_, ?_⟩ <;>
  · simp only [pair_VI_LaminarViscosity]
    c09_atoms o k a b
    simp only [loop_VI_LaminarViscosity]
    c09_norm
    c09_close

/-- `m_a · contrib(a, b) = −(m_b · contrib(b, a))`, component by component -/
include hk in
theorem pair_antisym_VI_LaminarViscosity (acc acc' : Out_VI_LaminarViscosity K) (a b : P K) :
    a.m * ((pair_VI_LaminarViscosity o k self_eta self_nu acc a b).d_au - acc.d_au) = -(b.m * ((pair_VI_LaminarViscosity o k self_eta self_nu acc' b a).d_au - acc'.d_au)) ∧
    a.m * ((pair_VI_LaminarViscosity o k self_eta self_nu acc a b).d_av - acc.d_av) = -(b.m * ((pair_VI_LaminarViscosity o k self_eta self_nu acc' b a).d_av - acc'.d_av)) ∧
    a.m * ((pair_VI_LaminarViscosity o k self_eta self_nu acc a b).d_aw - acc.d_aw) = -(b.m * ((pair_VI_LaminarViscosity o k self_eta self_nu acc' b a).d_aw - acc'.d_aw)) := by
  refine ⟨?_, ?_, ?_⟩ <;>
  · simp only [pair_VI_LaminarViscosity]
    c09_swap o k a b hk
    c09_atoms o k a b
    simp only [loop_VI_LaminarViscosity]
    c09_norm
    c09_close

/-- closed system: evaluating the equation for every particle over a symmetric neighbour relation
gives `Σ m a = 0` -/
include hk in
theorem linear_momentum_VI_LaminarViscosity {ι : Type} [Fintype ι] [DecidableEq ι] (p : ι → P K)
    (nbrs : ι → List ι) (hnd : ∀ i, (nbrs i).Nodup) (hsymm : ∀ i j, j ∈ nbrs i → i ∈ nbrs j)
    (init : ι → Out_VI_LaminarViscosity K) (hinit : ∀ i, (init i).d_au = 0 ∧ (init i).d_av = 0 ∧ (init i).d_aw = 0) :
    ∑ i, (p i).m * ((nbrs i).foldl (fun acc j => pair_VI_LaminarViscosity o k self_eta self_nu acc (p i) (p j)) (init i)).d_au = 0 ∧
    ∑ i, (p i).m * ((nbrs i).foldl (fun acc j => pair_VI_LaminarViscosity o k self_eta self_nu acc (p i) (p j)) (init i)).d_av = 0 ∧
    ∑ i, (p i).m * ((nbrs i).foldl (fun acc j => pair_VI_LaminarViscosity o k self_eta self_nu acc (p i) (p j)) (init i)).d_aw = 0 := by
  refine ⟨?_, ?_, ?_⟩
  · exact linear_momentum_of_pair (fun i => (p i).m) nbrs hnd hsymm (fun i acc j => pair_VI_LaminarViscosity o k self_eta self_nu acc (p i) (p j))
      (fun s => s.d_au) init (fun i => (hinit i).1)
      (fun i j acc acc' => (additive_VI_LaminarViscosity o k self_eta self_nu acc acc' (p i) (p j)).1)
      (fun i j acc acc' => (pair_antisym_VI_LaminarViscosity o k hk self_eta self_nu acc acc' (p i) (p j)).1)
  · exact linear_momentum_of_pair (fun i => (p i).m) nbrs hnd hsymm (fun i acc j => pair_VI_LaminarViscosity o k self_eta self_nu acc (p i) (p j))
      (fun s => s.d_av) init (fun i => (hinit i).2.1)
      (fun i j acc acc' => (additive_VI_LaminarViscosity o k self_eta self_nu acc acc' (p i) (p j)).2.1)
      (fun i j acc acc' => (pair_antisym_VI_LaminarViscosity o k hk self_eta self_nu acc acc' (p i) (p j)).2.1)
  · exact linear_momentum_of_pair (fun i => (p i).m) nbrs hnd hsymm (fun i acc j => pair_VI_LaminarViscosity o k self_eta self_nu acc (p i) (p j))
      (fun s => s.d_aw) init (fun i => (hinit i).2.2)
      (fun i j acc acc' => (additive_VI_LaminarViscosity o k self_eta self_nu acc acc' (p i) (p j)).2.2)
      (fun i j acc acc' => (pair_antisym_VI_LaminarViscosity o k hk self_eta self_nu acc acc' (p i) (p j)).2.2)

end VI_LaminarViscosity

/-! ## `pysph/sph/wc/viscosity.py.MonaghanSignalViscosityFluids` (VI_MonaghanSignalViscosityFluids) -/
section VI_MonaghanSignalViscosityFluids
variable (o : Ops K) (k : Kern K) {w g : K → K → K} (hk : Radial k w g) (self_alpha : K)

/-- the contribution of a pair to the accumulated acceleration does not depend on the accumulator -/
theorem additive_VI_MonaghanSignalViscosityFluids (acc acc' : Out_VI_MonaghanSignalViscosityFluids K) (a b : P K) :
    ((pair_VI_MonaghanSignalViscosityFluids o k self_alpha acc a b).d_au - acc.d_au) = ((pair_VI_MonaghanSignalViscosityFluids o k self_alpha acc' a b).d_au - acc'.d_au) ∧
    ((pair_VI_MonaghanSignalViscosityFluids o k self_alpha acc a b).d_av - acc.d_av) = ((pair_VI_MonaghanSignalViscosityFluids o k self_alpha acc' a b).d_av - acc'.d_av) ∧
    ((pair_VI_MonaghanSignalViscosityFluids o k self_alpha acc a b).d_aw - acc.d_aw) = ((pair_VI_MonaghanSignalViscosityFluids o k self_alpha acc' a b).d_aw - acc'.d_aw) := by
  refine ⟨?_, ?_, ?_⟩ <;>
  · simp only [pair_VI_MonaghanSignalViscosityFluids]
    c09_atoms o k a b
    simp only [loop_VI_MonaghanSignalViscosityFluids]
    c09_norm
    c09_close

/-- `m_a · contrib(a, b) = −(m_b · contrib(b, a))`, component by component -/
include hk in
theorem pair_antisym_VI_MonaghanSignalViscosityFluids (acc acc' : Out_VI_MonaghanSignalViscosityFluids K) (a b : P K) :
    a.m * ((pair_VI_MonaghanSignalViscosityFluids o k self_alpha acc a b).d_au - acc.d_au) = -(b.m * ((pair_VI_MonaghanSignalViscosityFluids o k self_alpha acc' b a).d_au - acc'.d_au)) ∧
    a.m * ((pair_VI_MonaghanSignalViscosityFluids o k self_alpha acc a b).d_av - acc.d_av) = -(b.m * ((pair_VI_MonaghanSignalViscosityFluids o k self_alpha acc' b a).d_av - acc'.d_av)) ∧
    a.m * ((pair_VI_MonaghanSignalViscosityFluids o k self_alpha acc a b).d_aw - acc.d_aw) = -(b.m * ((pair_VI_MonaghanSignalViscosityFluids o k self_alpha acc' b a).d_aw - acc'.d_aw)) := by
  refine ⟨?_, ?_, ?_⟩ <;>
  · simp only [pair_VI_MonaghanSignalViscosityFluids]
    c09_swap o k a b hk
    c09_atoms o k a b
    simp only [loop_VI_MonaghanSignalViscosityFluids]
    c09_norm
    c09_close

/-- the pair contribution is parallel to the separation `x_a − x_b` (cross product zero) -/
include hk in
theorem central_VI_MonaghanSignalViscosityFluids (acc : Out_VI_MonaghanSignalViscosityFluids K) (a b : P K) :
    (a.x - b.x) * ((pair_VI_MonaghanSignalViscosityFluids o k self_alpha acc a b).d_av - acc.d_av) = (a.y - b.y) * ((pair_VI_MonaghanSignalViscosityFluids o k self_alpha acc a b).d_au - acc.d_au) ∧
    (a.y - b.y) * ((pair_VI_MonaghanSignalViscosityFluids o k self_alpha acc a b).d_aw - acc.d_aw) = (a.z - b.z) * ((pair_VI_MonaghanSignalViscosityFluids o k self_alpha acc a b).d_av - acc.d_av) ∧
    (a.z - b.z) * ((pair_VI_MonaghanSignalViscosityFluids o k self_alpha acc a b).d_au - acc.d_au) = (a.x - b.x) * ((pair_VI_MonaghanSignalViscosityFluids o k self_alpha acc a b).d_aw - acc.d_aw) := by
  refine ⟨?_, ?_, ?_⟩ <;>
  · simp only [pair_VI_MonaghanSignalViscosityFluids]
    c09_shape o k a b hk
    c09_atoms o k a b
    simp only [loop_VI_MonaghanSignalViscosityFluids]
    c09_norm
    c09_close

/-- closed system: evaluating the equation for every particle over a symmetric neighbour relation
gives `Σ m a = 0` -/
include hk in
theorem linear_momentum_VI_MonaghanSignalViscosityFluids {ι : Type} [Fintype ι] [DecidableEq ι] (p : ι → P K)
    (nbrs : ι → List ι) (hnd : ∀ i, (nbrs i).Nodup) (hsymm : ∀ i j, j ∈ nbrs i → i ∈ nbrs j)
    (init : ι → Out_VI_MonaghanSignalViscosityFluids K) (hinit : ∀ i, (init i).d_au = 0 ∧ (init i).d_av = 0 ∧ (init i).d_aw = 0) :
    ∑ i, (p i).m * ((nbrs i).foldl (fun acc j => pair_VI_MonaghanSignalViscosityFluids o k self_alpha acc (p i) (p j)) (init i)).d_au = 0 ∧
    ∑ i, (p i).m * ((nbrs i).foldl (fun acc j => pair_VI_MonaghanSignalViscosityFluids o k self_alpha acc (p i) (p j)) (init i)).d_av = 0 ∧
    ∑ i, (p i).m * ((nbrs i).foldl (fun acc j => pair_VI_MonaghanSignalViscosityFluids o k self_alpha acc (p i) (p j)) (init i)).d_aw = 0 := by
  refine ⟨?_, ?_, ?_⟩
  · exact linear_momentum_of_pair (fun i => (p i).m) nbrs hnd hsymm (fun i acc j => pair_VI_MonaghanSignalViscosityFluids o k self_alpha acc (p i) (p j))
      (fun s => s.d_au) init (fun i => (hinit i).1)
      (fun i j acc acc' => (additive_VI_MonaghanSignalViscosityFluids o k self_alpha acc acc' (p i) (p j)).1)
      (fun i j acc acc' => (pair_antisym_VI_MonaghanSignalViscosityFluids o k hk self_alpha acc acc' (p i) (p j)).1)
  · exact linear_momentum_of_pair (fun i => (p i).m) nbrs hnd hsymm (fun i acc j => pair_VI_MonaghanSignalViscosityFluids o k self_alpha acc (p i) (p j))
      (fun s => s.d_av) init (fun i => (hinit i).2.1)
      (fun i j acc acc' => (additive_VI_MonaghanSignalViscosityFluids o k self_alpha acc acc' (p i) (p j)).2.1)
      (fun i j acc acc' => (pair_antisym_VI_MonaghanSignalViscosityFluids o k hk self_alpha acc acc' (p i) (p j)).2.1)
  · exact linear_momentum_of_pair (fun i => (p i).m) nbrs hnd hsymm (fun i acc j => pair_VI_MonaghanSignalViscosityFluids o k self_alpha acc (p i) (p j))
      (fun s => s.d_aw) init (fun i => (hinit i).2.2)
      (fun i j acc acc' => (additive_VI_MonaghanSignalViscosityFluids o k self_alpha acc acc' (p i) (p j)).2.2)
      (fun i j acc acc' => (pair_antisym_VI_MonaghanSignalViscosityFluids o k hk self_alpha acc acc' (p i) (p j)).2.2)

/-- closed system: `Σ m x × a = 0` (three components) -/
include hk in
theorem angular_momentum_VI_MonaghanSignalViscosityFluids {ι : Type} [Fintype ι] [DecidableEq ι] (p : ι → P K)
    (nbrs : ι → List ι) (hnd : ∀ i, (nbrs i).Nodup) (hsymm : ∀ i j, j ∈ nbrs i → i ∈ nbrs j)
    (init : ι → Out_VI_MonaghanSignalViscosityFluids K) (hinit : ∀ i, (init i).d_au = 0 ∧ (init i).d_av = 0 ∧ (init i).d_aw = 0) :
    (∑ i, (p i).m * ((p i).x * ((nbrs i).foldl (fun acc j => pair_VI_MonaghanSignalViscosityFluids o k self_alpha acc (p i) (p j)) (init i)).d_av - (p i).y * ((nbrs i).foldl (fun acc j => pair_VI_MonaghanSignalViscosityFluids o k self_alpha acc (p i) (p j)) (init i)).d_au) = 0) ∧
    (∑ i, (p i).m * ((p i).y * ((nbrs i).foldl (fun acc j => pair_VI_MonaghanSignalViscosityFluids o k self_alpha acc (p i) (p j)) (init i)).d_aw - (p i).z * ((nbrs i).foldl (fun acc j => pair_VI_MonaghanSignalViscosityFluids o k self_alpha acc (p i) (p j)) (init i)).d_av) = 0) ∧
    (∑ i, (p i).m * ((p i).z * ((nbrs i).foldl (fun acc j => pair_VI_MonaghanSignalViscosityFluids o k self_alpha acc (p i) (p j)) (init i)).d_au - (p i).x * ((nbrs i).foldl (fun acc j => pair_VI_MonaghanSignalViscosityFluids o k self_alpha acc (p i) (p j)) (init i)).d_aw) = 0) := by
  refine ⟨?_, ?_, ?_⟩
  · exact angular_momentum_of_pair (fun i => (p i).m) (fun i => (p i).x) (fun i => (p i).y) nbrs hnd hsymm
      (fun i acc j => pair_VI_MonaghanSignalViscosityFluids o k self_alpha acc (p i) (p j)) (fun s => s.d_au) (fun s => s.d_av) init
      (fun i => (hinit i).1) (fun i => (hinit i).2.1)
      (fun i j acc acc' => (additive_VI_MonaghanSignalViscosityFluids o k self_alpha acc acc' (p i) (p j)).1)
      (fun i j acc acc' => (additive_VI_MonaghanSignalViscosityFluids o k self_alpha acc acc' (p i) (p j)).2.1)
      (fun i j acc acc' => (pair_antisym_VI_MonaghanSignalViscosityFluids o k hk self_alpha acc acc' (p i) (p j)).1)
      (fun i j acc acc' => (pair_antisym_VI_MonaghanSignalViscosityFluids o k hk self_alpha acc acc' (p i) (p j)).2.1)
      (fun i j acc => (central_VI_MonaghanSignalViscosityFluids o k hk self_alpha acc (p i) (p j)).1)
  · exact angular_momentum_of_pair (fun i => (p i).m) (fun i => (p i).y) (fun i => (p i).z) nbrs hnd hsymm
      (fun i acc j => pair_VI_MonaghanSignalViscosityFluids o k self_alpha acc (p i) (p j)) (fun s => s.d_av) (fun s => s.d_aw) init
      (fun i => (hinit i).2.1) (fun i => (hinit i).2.2)
      (fun i j acc acc' => (additive_VI_MonaghanSignalViscosityFluids o k self_alpha acc acc' (p i) (p j)).2.1)
      (fun i j acc acc' => (additive_VI_MonaghanSignalViscosityFluids o k self_alpha acc acc' (p i) (p j)).2.2)
      (fun i j acc acc' => (pair_antisym_VI_MonaghanSignalViscosityFluids o k hk self_alpha acc acc' (p i) (p j)).2.1)
      (fun i j acc acc' => (pair_antisym_VI_MonaghanSignalViscosityFluids o k hk self_alpha acc acc' (p i) (p j)).2.2)
      (fun i j acc => (central_VI_MonaghanSignalViscosityFluids o k hk self_alpha acc (p i) (p j)).2.1)
  · exact angular_momentum_of_pair (fun i => (p i).m) (fun i => (p i).z) (fun i => (p i).x) nbrs hnd hsymm
      (fun i acc j => pair_VI_MonaghanSignalViscosityFluids o k self_alpha acc (p i) (p j)) (fun s => s.d_aw) (fun s => s.d_au) init
      (fun i => (hinit i).2.2) (fun i => (hinit i).1)
      (fun i j acc acc' => (additive_VI_MonaghanSignalViscosityFluids o k self_alpha acc acc' (p i) (p j)).2.2)
      (fun i j acc acc' => (additive_VI_MonaghanSignalViscosityFluids o k self_alpha acc acc' (p i) (p j)).1)
      (fun i j acc acc' => (pair_antisym_VI_MonaghanSignalViscosityFluids o k hk self_alpha acc acc' (p i) (p j)).2.2)
      (fun i j acc acc' => (pair_antisym_VI_MonaghanSignalViscosityFluids o k hk self_alpha acc acc' (p i) (p j)).1)
      (fun i j acc => (central_VI_MonaghanSignalViscosityFluids o k hk self_alpha acc (p i) (p j)).2.2)

end VI_MonaghanSignalViscosityFluids

/-! ## `pysph/sph/wc/viscosity.py.ClearyArtificialViscosity` (VI_ClearyArtificialViscosity) -/
section VI_ClearyArtificialViscosity
variable (o : Ops K) (k : Kern K) {w g : K → K → K} (hk : Radial k w g) (self_alpha : K) (self_factor : K)

/-- the contribution of a pair to the accumulated acceleration does not depend on the accumulator -/
theorem additive_VI_ClearyArtificialViscosity (acc acc' : Out_VI_ClearyArtificialViscosity K) (a b : P K) :
    ((pair_VI_ClearyArtificialViscosity o k self_alpha self_factor acc a b).d_au - acc.d_au) = ((pair_VI_ClearyArtificialViscosity o k self_alpha self_factor acc' a b).d_au - acc'.d_au) ∧
    ((pair_VI_ClearyArtificialViscosity o k self_alpha self_factor acc a b).d_av - acc.d_av) = ((pair_VI_ClearyArtificialViscosity o k self_alpha self_factor acc' a b).d_av - acc'.d_av) ∧
    ((pair_VI_ClearyArtificialViscosity o k self_alpha self_factor acc a b).d_aw - acc.d_aw) = ((pair_VI_ClearyArtificialViscosity o k self_alpha self_factor acc' a b).d_aw - acc'.d_aw) := by
  refine ⟨?_, ?_, ?_⟩ <;>
  · simp only [pair_VI_ClearyArtificialViscosity]
    c09_atoms o k a b
    simp only [loop_VI_ClearyArtificialViscosity]
    c09_norm
    c09_close

/-- `m_a · contrib(a, b) = −(m_b · contrib(b, a))`, component by component -/
include hk in
theorem pair_antisym_VI_ClearyArtificialViscosity (acc acc' : Out_VI_ClearyArtificialViscosity K) (a b : P K) :
    a.m * ((pair_VI_ClearyArtificialViscosity o k self_alpha self_factor acc a b).d_au - acc.d_au) = -(b.m * ((pair_VI_ClearyArtificialViscosity o k self_alpha self_factor acc' b a).d_au - acc'.d_au)) ∧
    a.m * ((pair_VI_ClearyArtificialViscosity o k self_alpha self_factor acc a b).d_av - acc.d_av) = -(b.m * ((pair_VI_ClearyArtificialViscosity o k self_alpha self_factor acc' b a).d_av - acc'.d_av)) ∧
    a.m * ((pair_VI_ClearyArtificialViscosity o k self_alpha self_factor acc a b).d_aw - acc.d_aw) = -(b.m * ((pair_VI_ClearyArtificialViscosity o k self_alpha self_factor acc' b a).d_aw - acc'.d_aw)) := by
  refine ⟨?_, ?_, ?_⟩ <;>
  · simp only [pair_VI_ClearyArtificialViscosity]
    c09_swap o k a b hk
    c09_atoms o k a b
    simp only [loop_VI_ClearyArtificialViscosity]
    c09_norm
    c09_close

/-- the pair contribution is parallel to the separation `x_a − x_b` (cross product zero) -/
include hk in
theorem central_VI_ClearyArtificialViscosity (acc : Out_VI_ClearyArtificialViscosity K) (a b : P K) :
    (a.x - b.x) * ((pair_VI_ClearyArtificialViscosity o k self_alpha self_factor acc a b).d_av - acc.d_av) = (a.y - b.y) * ((pair_VI_ClearyArtificialViscosity o k self_alpha self_factor acc a b).d_au - acc.d_au) ∧
    (a.y - b.y) * ((pair_VI_ClearyArtificialViscosity o k self_alpha self_factor acc a b).d_aw - acc.d_aw) = (a.z - b.z) * ((pair_VI_ClearyArtificialViscosity o k self_alpha self_factor acc a b).d_av - acc.d_av) ∧
    (a.z - b.z) * ((pair_VI_ClearyArtificialViscosity o k self_alpha self_factor acc a b).d_au - acc.d_au) = (a.x - b.x) * ((pair_VI_ClearyArtificialViscosity o k self_alpha self_factor acc a b).d_aw - acc.d_aw) := by
  refine ⟨?_, ?_, ?_⟩ <;>
  · simp only [pair_VI_ClearyArtificialViscosity]
    c09_shape o k a b hk
    c09_atoms o k a b
    simp only [loop_VI_ClearyArtificialViscosity]
    c09_norm
    c09_close

/-- closed system: evaluating the equation for every particle over a symmetric neighbour relation
gives `Σ m a = 0` -/
include hk in
theorem linear_momentum_VI_ClearyArtificialViscosity {ι : Type} [Fintype ι] [DecidableEq ι] (p : ι → P K)
    (nbrs : ι → List ι) (hnd : ∀ i, (nbrs i).Nodup) (hsymm : ∀ i j, j ∈ nbrs i → i ∈ nbrs j)
    (init : ι → Out_VI_ClearyArtificialViscosity K) (hinit : ∀ i, (init i).d_au = 0 ∧ (init i).d_av = 0 ∧ (init i).d_aw = 0) :
    ∑ i, (p i).m * ((nbrs i).foldl (fun acc j => pair_VI_ClearyArtificialViscosity o k self_alpha self_factor acc (p i) (p j)) (init i)).d_au = 0 ∧
    ∑ i, (p i).m * ((nbrs i).foldl (fun acc j => pair_VI_ClearyArtificialViscosity o k self_alpha self_factor acc (p i) (p j)) (init i)).d_av = 0 ∧
    ∑ i, (p i).m * ((nbrs i).foldl (fun acc j => pair_VI_ClearyArtificialViscosity o k self_alpha self_factor acc (p i) (p j)) (init i)).d_aw = 0 := by
  refine ⟨?_, ?_, ?_⟩
  · exact linear_momentum_of_pair (fun i => (p i).m) nbrs hnd hsymm (fun i acc j => pair_VI_ClearyArtificialViscosity o k self_alpha self_factor acc (p i) (p j))
      (fun s => s.d_au) init (fun i => (hinit i).1)
      (fun i j acc acc' => (additive_VI_ClearyArtificialViscosity o k self_alpha self_factor acc acc' (p i) (p j)).1)
      (fun i j acc acc' => (pair_antisym_VI_ClearyArtificialViscosity o k hk self_alpha self_factor acc acc' (p i) (p j)).1)
  · exact linear_momentum_of_pair (fun i => (p i).m) nbrs hnd hsymm (fun i acc j => pair_VI_ClearyArtificialViscosity o k self_alpha self_factor acc (p i) (p j))
      (fun s => s.d_av) init (fun i => (hinit i).2.1)
      (fun i j acc acc' => (additive_VI_ClearyArtificialViscosity o k self_alpha self_factor acc acc' (p i) (p j)).2.1)
      (fun i j acc acc' => (pair_antisym_VI_ClearyArtificialViscosity o k hk self_alpha self_factor acc acc' (p i) (p j)).2.1)
  · exact linear_momentum_of_pair (fun i => (p i).m) nbrs hnd hsymm (fun i acc j => pair_VI_ClearyArtificialViscosity o k self_alpha self_factor acc (p i) (p j))
      (fun s => s.d_aw) init (fun i => (hinit i).2.2)
      (fun i j acc acc' => (additive_VI_ClearyArtificialViscosity o k self_alpha self_factor acc acc' (p i) (p j)).2.2)
      (fun i j acc acc' => (pair_antisym_VI_ClearyArtificialViscosity o k hk self_alpha self_factor acc acc' (p i) (p j)).2.2)

/-- closed system: `Σ m x × a = 0` (three components) -/
include hk in
theorem angular_momentum_VI_ClearyArtificialViscosity {ι : Type} [Fintype ι] [DecidableEq ι] (p : ι → P K)
    (nbrs : ι → List ι) (hnd : ∀ i, (nbrs i).Nodup) (hsymm : ∀ i j, j ∈ nbrs i → i ∈ nbrs j)
    (init : ι → Out_VI_ClearyArtificialViscosity K) (hinit : ∀ i, (init i).d_au = 0 ∧ (init i).d_av = 0 ∧ (init i).d_aw = 0) :
    (∑ i, (p i).m * ((p i).x * ((nbrs i).foldl (fun acc j => pair_VI_ClearyArtificialViscosity o k self_alpha self_factor acc (p i) (p j)) (init i)).d_av - (p i).y * ((nbrs i).foldl (fun acc j => pair_VI_ClearyArtificialViscosity o k self_alpha self_factor acc (p i) (p j)) (init i)).d_au) = 0) ∧
    (∑ i, (p i).m * ((p i).y * ((nbrs i).foldl (fun acc j => pair_VI_ClearyArtificialViscosity o k self_alpha self_factor acc (p i) (p j)) (init i)).d_aw - (p i).z * ((nbrs i).foldl (fun acc j => pair_VI_ClearyArtificialViscosity o k self_alpha self_factor acc (p i) (p j)) (init i)).d_av) = 0) ∧
    (∑ i, (p i).m * ((p i).z * ((nbrs i).foldl (fun acc j => pair_VI_ClearyArtificialViscosity o k self_alpha self_factor acc (p i) (p j)) (init i)).d_au - (p i).x * ((nbrs i).foldl (fun acc j => pair_VI_ClearyArtificialViscosity o k self_alpha self_factor acc (p i) (p j)) (init i)).d_aw) = 0) := by
  refine ⟨?_, ?_, ?_⟩
  · exact angular_momentum_of_pair (fun i => (p i).m) (fun i => (p i).x) (fun i => (p i).y) nbrs hnd hsymm
      (fun i acc j => pair_VI_ClearyArtificialViscosity o k self_alpha self_factor acc (p i) (p j)) (fun s => s.d_au) (fun s => s.d_av) init
      (fun i => (hinit i).1) (fun i => (hinit i).2.1)
      (fun i j acc acc' => (additive_VI_ClearyArtificialViscosity o k self_alpha self_factor acc acc' (p i) (p j)).1)
      (fun i j acc acc' => (additive_VI_ClearyArtificialViscosity o k self_alpha self_factor acc acc' (p i) (p j)).2.1)
      (fun i j acc acc' => (pair_antisym_VI_ClearyArtificialViscosity o k hk self_alpha self_factor acc acc' (p i) (p j)).1)
      (fun i j acc acc' => (pair_antisym_VI_ClearyArtificialViscosity o k hk self_alpha self_factor acc acc' (p i) (p j)).2.1)
      (fun i j acc => (central_VI_ClearyArtificialViscosity o k hk self_alpha self_factor acc (p i) (p j)).1)
  · exact angular_momentum_of_pair (fun i => (p i).m) (fun i => (p i).y) (fun i => (p i).z) nbrs hnd hsymm
      (fun i acc j => pair_VI_ClearyArtificialViscosity o k self_alpha self_factor acc (p i) (p j)) (fun s => s.d_av) (fun s => s.d_aw) init
      (fun i => (hinit i).2.1) (fun i => (hinit i).2.2)
      (fun i j acc acc' => (additive_VI_ClearyArtificialViscosity o k self_alpha self_factor acc acc' (p i) (p j)).2.1)
      (fun i j acc acc' => (additive_VI_ClearyArtificialViscosity o k self_alpha self_factor acc acc' (p i) (p j)).2.2)
      (fun i j acc acc' => (pair_antisym_VI_ClearyArtificialViscosity o k hk self_alpha self_factor acc acc' (p i) (p j)).2.1)
      (fun i j acc acc' => (pair_antisym_VI_ClearyArtificialViscosity o k hk self_alpha self_factor acc acc' (p i) (p j)).2.2)
      (fun i j acc => (central_VI_ClearyArtificialViscosity o k hk self_alpha self_factor acc (p i) (p j)).2.1)
  · exact angular_momentum_of_pair (fun i => (p i).m) (fun i => (p i).z) (fun i => (p i).x) nbrs hnd hsymm
      (fun i acc j => pair_VI_ClearyArtificialViscosity o k self_alpha self_factor acc (p i) (p j)) (fun s => s.d_aw) (fun s => s.d_au) init
      (fun i => (hinit i).2.2) (fun i => (hinit i).1)
      (fun i j acc acc' => (additive_VI_ClearyArtificialViscosity o k self_alpha self_factor acc acc' (p i) (p j)).2.2)
      (fun i j acc acc' => (additive_VI_ClearyArtificialViscosity o k self_alpha self_factor acc acc' (p i) (p j)).1)
      (fun i j acc acc' => (pair_antisym_VI_ClearyArtificialViscosity o k hk self_alpha self_factor acc acc' (p i) (p j)).2.2)
      (fun i j acc acc' => (pair_antisym_VI_ClearyArtificialViscosity o k hk self_alpha self_factor acc acc' (p i) (p j)).1)
      (fun i j acc => (central_VI_ClearyArtificialViscosity o k hk self_alpha self_factor acc (p i) (p j)).2.2)

end VI_ClearyArtificialViscosity

/-! ## `pysph/sph/wc/viscosity.py.LaminarViscosityDeltaSPH` (VI_LaminarViscosityDeltaSPH) -/
section VI_LaminarViscosityDeltaSPH
variable (o : Ops K) (k : Kern K) {w g : K → K → K} (hk : Radial k w g) (self_dim : K) (self_nu : K) (self_rho0 : K)

/-- the contribution of a pair to the accumulated acceleration does not depend on the accumulator -/
theorem additive_VI_LaminarViscosityDeltaSPH (acc acc' : Out_VI_LaminarViscosityDeltaSPH K) (a b : P K) :
    ((pair_VI_LaminarViscosityDeltaSPH o k self_dim self_nu self_rho0 acc a b).d_au - acc.d_au) = ((pair_VI_LaminarViscosityDeltaSPH o k self_dim self_nu self_rho0 acc' a b).d_au - acc'.d_au) ∧
    ((pair_VI_LaminarViscosityDeltaSPH o k self_dim self_nu self_rho0 acc a b).d_av - acc.d_av) = ((pair_VI_LaminarViscosityDeltaSPH o k self_dim self_nu self_rho0 acc' a b).d_av - acc'.d_av) ∧
    ((pair_VI_LaminarViscosityDeltaSPH o k self_dim self_nu self_rho0 acc a b).d_aw - acc.d_aw) = ((pair_VI_LaminarViscosityDeltaSPH o k self_dim self_nu self_rho0 acc' a b).d_aw - acc'.d_aw) := by
  refine ⟨?_, ?_, ?_⟩ <;>
  · simp only [pair_VI_LaminarViscosityDeltaSPH]
    c09_atoms o k a b
    simp only [loop_VI_LaminarViscosityDeltaSPH]
    c09_norm
    c09_close

/-- `m_a · contrib(a, b) = −(m_b · contrib(b, a))`, component by component -/
include hk in
theorem pair_antisym_VI_LaminarViscosityDeltaSPH (acc acc' : Out_VI_LaminarViscosityDeltaSPH K) (a b : P K) :
    a.m * ((pair_VI_LaminarViscosityDeltaSPH o k self_dim self_nu self_rho0 acc a b).d_au - acc.d_au) = -(b.m * ((pair_VI_LaminarViscosityDeltaSPH o k self_dim self_nu self_rho0 acc' b a).d_au - acc'.d_au)) ∧
    a.m * ((pair_VI_LaminarViscosityDeltaSPH o k self_dim self_nu self_rho0 acc a b).d_av - acc.d_av) = -(b.m * ((pair_VI_LaminarViscosityDeltaSPH o k self_dim self_nu self_rho0 acc' b a).d_av - acc'.d_av)) ∧
    a.m * ((pair_VI_LaminarViscosityDeltaSPH o k self_dim self_nu self_rho0 acc a b).d_aw - acc.d_aw) = -(b.m * ((pair_VI_LaminarViscosityDeltaSPH o k self_dim self_nu self_rho0 acc' b a).d_aw - acc'.d_aw)) := by
  refine ⟨?_, ?_, ?_⟩ <;>
  · simp only [pair_VI_LaminarViscosityDeltaSPH]
    c09_swap o k a b hk
    c09_atoms o k a b
    simp only [loop_VI_LaminarViscosityDeltaSPH]
    c09_norm
    c09_close

/-- the pair contribution is parallel to the separation `x_a − x_b` (cross product zero) -/
include hk in
theorem central_VI_LaminarViscosityDeltaSPH (acc : Out_VI_LaminarViscosityDeltaSPH K) (a b : P K) :
    (a.x - b.x) * ((pair_VI_LaminarViscosityDeltaSPH o k self_dim self_nu self_rho0 acc a b).d_av - acc.d_av) = (a.y - b.y) * ((pair_VI_LaminarViscosityDeltaSPH o k self_dim self_nu self_rho0 acc a b).d_au - acc.d_au) ∧
    (a.y - b.y) * ((pair_VI_LaminarViscosityDeltaSPH o k self_dim self_nu self_rho0 acc a b).d_aw - acc.d_aw) = (a.z - b.z) * ((pair_VI_LaminarViscosityDeltaSPH o k self_dim self_nu self_rho0 acc a b).d_av - acc.d_av) ∧
    (a.z - b.z) * ((pair_VI_LaminarViscosityDeltaSPH o k self_dim self_nu self_rho0 acc a b).d_au - acc.d_au) = (a.x - b.x) * ((pair_VI_LaminarViscosityDeltaSPH o k self_dim self_nu self_rho0 acc a b).d_aw - acc.d_aw) := by
  refine ⟨?_, ?_, ?_⟩ <;>
  · simp only [pair_VI_LaminarViscosityDeltaSPH]
    c09_shape o k a b hk
    c09_atoms o k a b
    simp only [loop_VI_LaminarViscosityDeltaSPH]
    c09_norm
    c09_close

/-- closed system: evaluating the equation for every particle over a symmetric neighbour relation
gives `Σ m a = 0` -/
include hk in
theorem linear_momentum_VI_LaminarViscosityDeltaSPH {ι : Type} [Fintype ι] [DecidableEq ι] (p : ι → P K)
    (nbrs : ι → List ι) (hnd : ∀ i, (nbrs i).Nodup) (hsymm : ∀ i j, j ∈ nbrs i → i ∈ nbrs j)
    (init : ι → Out_VI_LaminarViscosityDeltaSPH K) (hinit : ∀ i, (init i).d_au = 0 ∧ (init i).d_av = 0 ∧ (init i).d_aw = 0) :
    ∑ i, (p i).m * ((nbrs i).foldl (fun acc j => pair_VI_LaminarViscosityDeltaSPH o k self_dim self_nu self_rho0 acc (p i) (p j)) (init i)).d_au = 0 ∧
    ∑ i, (p i).m * ((nbrs i).foldl (fun acc j => pair_VI_LaminarViscosityDeltaSPH o k self_dim self_nu self_rho0 acc (p i) (p j)) (init i)).d_av = 0 ∧
    ∑ i, (p i).m * ((nbrs i).foldl (fun acc j => pair_VI_LaminarViscosityDeltaSPH o k self_dim self_nu self_rho0 acc (p i) (p j)) (init i)).d_aw = 0 := by
  refine ⟨?_, ?_, ?_⟩
  · exact linear_momentum_of_pair (fun i => (p i).m) nbrs hnd hsymm (fun i acc j => pair_VI_LaminarViscosityDeltaSPH o k self_dim self_nu self_rho0 acc (p i) (p j))
      (fun s => s.d_au) init (fun i => (hinit i).1)
      (fun i j acc acc' => (additive_VI_LaminarViscosityDeltaSPH o k self_dim self_nu self_rho0 acc acc' (p i) (p j)).1)
      (fun i j acc acc' => (pair_antisym_VI_LaminarViscosityDeltaSPH o k hk self_dim self_nu self_rho0 acc acc' (p i) (p j)).1)
  · exact linear_momentum_of_pair (fun i => (p i).m) nbrs hnd hsymm (fun i acc j => pair_VI_LaminarViscosityDeltaSPH o k self_dim self_nu self_rho0 acc (p i) (p j))
      (fun s => s.d_av) init (fun i => (hinit i).2.1)
      (fun i j acc acc' => (additive_VI_LaminarViscosityDeltaSPH o k self_dim self_nu self_rho0 acc acc' (p i) (p j)).2.1)
      (fun i j acc acc' => (pair_antisym_VI_LaminarViscosityDeltaSPH o k hk self_dim self_nu self_rho0 acc acc' (p i) (p j)).2.1)
  · exact linear_momentum_of_pair (fun i => (p i).m) nbrs hnd hsymm (fun i acc j => pair_VI_LaminarViscosityDeltaSPH o k self_dim self_nu self_rho0 acc (p i) (p j))
      (fun s => s.d_aw) init (fun i => (hinit i).2.2)
      (fun i j acc acc' => (additive_VI_LaminarViscosityDeltaSPH o k self_dim self_nu self_rho0 acc acc' (p i) (p j)).2.2)
      (fun i j acc acc' => (pair_antisym_VI_LaminarViscosityDeltaSPH o k hk self_dim self_nu self_rho0 acc acc' (p i) (p j)).2.2)

/-- closed system: `Σ m x × a = 0` (three components) -/
include hk in
theorem angular_momentum_VI_LaminarViscosityDeltaSPH {ι : Type} [Fintype ι] [DecidableEq ι] (p : ι → P K)
    (nbrs : ι → List ι) (hnd : ∀ i, (nbrs i).Nodup) (hsymm : ∀ i j, j ∈ nbrs i → i ∈ nbrs j)
    (init : ι → Out_VI_LaminarViscosityDeltaSPH K) (hinit : ∀ i, (init i).d_au = 0 ∧ (init i).d_av = 0 ∧ (init i).d_aw = 0) :
    (∑ i, (p i).m * ((p i).x * ((nbrs i).foldl (fun acc j => pair_VI_LaminarViscosityDeltaSPH o k self_dim self_nu self_rho0 acc (p i) (p j)) (init i)).d_av - (p i).y * ((nbrs i).foldl (fun acc j => pair_VI_LaminarViscosityDeltaSPH o k self_dim self_nu self_rho0 acc (p i) (p j)) (init i)).d_au) = 0) ∧
    (∑ i, (p i).m * ((p i).y * ((nbrs i).foldl (fun acc j => pair_VI_LaminarViscosityDeltaSPH o k self_dim self_nu self_rho0 acc (p i) (p j)) (init i)).d_aw - (p i).z * ((nbrs i).foldl (fun acc j => pair_VI_LaminarViscosityDeltaSPH o k self_dim self_nu self_rho0 acc (p i) (p j)) (init i)).d_av) = 0) ∧
    (∑ i, (p i).m * ((p i).z * ((nbrs i).foldl (fun acc j => pair_VI_LaminarViscosityDeltaSPH o k self_dim self_nu self_rho0 acc (p i) (p j)) (init i)).d_au - (p i).x * ((nbrs i).foldl (fun acc j => pair_VI_LaminarViscosityDeltaSPH o k self_dim self_nu self_rho0 acc (p i) (p j)) (init i)).d_aw) = 0) := by
  refine ⟨?_, ?_, ?_⟩
  · exact angular_momentum_of_pair (fun i => (p i).m) (fun i => (p i).x) (fun i => (p i).y) nbrs hnd hsymm
      (fun i acc j => pair_VI_LaminarViscosityDeltaSPH o k self_dim self_nu self_rho0 acc (p i) (p j)) (fun s => s.d_au) (fun s => s.d_av) init
      (fun i => (hinit i).1) (fun i => (hinit i).2.1)
      (fun i j acc acc' => (additive_VI_LaminarViscosityDeltaSPH o k self_dim self_nu self_rho0 acc acc' (p i) (p j)).1)
      (fun i j acc acc' => (additive_VI_LaminarViscosityDeltaSPH o k self_dim self_nu self_rho0 acc acc' (p i) (p j)).2.1)
      (fun i j acc acc' => (pair_antisym_VI_LaminarViscosityDeltaSPH o k hk self_dim self_nu self_rho0 acc acc' (p i) (p j)).1)
      (fun i j acc acc' => (pair_antisym_VI_LaminarViscosityDeltaSPH o k hk self_dim self_nu self_rho0 acc acc' (p i) (p j)).2.1)
      (fun i j acc => (central_VI_LaminarViscosityDeltaSPH o k hk self_dim self_nu self_rho0 acc (p i) (p j)).1)
  · exact angular_momentum_of_pair (fun i => (p i).m) (fun i => (p i).y) (fun i => (p i).z) nbrs hnd hsymm
      (fun i acc j => pair_VI_LaminarViscosityDeltaSPH o k self_dim self_nu self_rho0 acc (p i) (p j)) (fun s => s.d_av) (fun s => s.d_aw) init
      (fun i => (hinit i).2.1) (fun i => (hinit i).2.2)
      (fun i j acc acc' => (additive_VI_LaminarViscosityDeltaSPH o k self_dim self_nu self_rho0 acc acc' (p i) (p j)).2.1)
      (fun i j acc acc' => (additive_VI_LaminarViscosityDeltaSPH o k self_dim self_nu self_rho0 acc acc' (p i) (p j)).2.2)
      (fun i j acc acc' => (pair_antisym_VI_LaminarViscosityDeltaSPH o k hk self_dim self_nu self_rho0 acc acc' (p i) (p j)).2.1)
      (fun i j acc acc' => (pair_antisym_VI_LaminarViscosityDeltaSPH o k hk self_dim self_nu self_rho0 acc acc' (p i) (p j)).2.2)
      (fun i j acc => (central_VI_LaminarViscosityDeltaSPH o k hk self_dim self_nu self_rho0 acc (p i) (p j)).2.1)
  · exact angular_momentum_of_pair (fun i => (p i).m) (fun i => (p i).z) (fun i => (p i).x) nbrs hnd hsymm
      (fun i acc j => pair_VI_LaminarViscosityDeltaSPH o k self_dim self_nu self_rho0 acc (p i) (p j)) (fun s => s.d_aw) (fun s => s.d_au) init
      (fun i => (hinit i).2.2) (fun i => (hinit i).1)
      (fun i j acc acc' => (additive_VI_LaminarViscosityDeltaSPH o k self_dim self_nu self_rho0 acc acc' (p i) (p j)).2.2)
      (fun i j acc acc' => (additive_VI_LaminarViscosityDeltaSPH o k self_dim self_nu self_rho0 acc acc' (p i) (p j)).1)
      (fun i j acc acc' => (pair_antisym_VI_LaminarViscosityDeltaSPH o k hk self_dim self_nu self_rho0 acc acc' (p i) (p j)).2.2)
      (fun i j acc acc' => (pair_antisym_VI_LaminarViscosityDeltaSPH o k hk self_dim self_nu self_rho0 acc acc' (p i) (p j)).1)
      (fun i j acc => (central_VI_LaminarViscosityDeltaSPH o k hk self_dim self_nu self_rho0 acc (p i) (p j)).2.2)

end VI_LaminarViscosityDeltaSPH

/-! ## `pysph/sph/gas_dynamics/basic.py.Monaghan92Accelerations` (GD_Monaghan92Accelerations) -/
section GD_Monaghan92Accelerations
variable (o : Ops K) (k : Kern K) {w g : K → K → K} (hk : Radial k w g) (self_alpha : K) (self_beta : K)

/-- the contribution of a pair to the accumulated acceleration does not depend on the accumulator -/
theorem additive_GD_Monaghan92Accelerations (acc acc' : Out_GD_Monaghan92Accelerations K) (a b : P K) :
    ((pair_GD_Monaghan92Accelerations o k self_alpha self_beta acc a b).d_au - acc.d_au) = ((pair_GD_Monaghan92Accelerations o k self_alpha self_beta acc' a b).d_au - acc'.d_au) ∧
    ((pair_GD_Monaghan92Accelerations o k self_alpha self_beta acc a b).d_av - acc.d_av) = ((pair_GD_Monaghan92Accelerations o k self_alpha self_beta acc' a b).d_av - acc'.d_av) ∧
    ((pair_GD_Monaghan92Accelerations o k self_alpha self_beta acc a b).d_aw - acc.d_aw) = ((pair_GD_Monaghan92Accelerations o k self_alpha self_beta acc' a b).d_aw - acc'.d_aw) := by
  refine ⟨?_, ?_, ?_⟩ <;>
  · simp only [pair_GD_Monaghan92Accelerations]
    c09_atoms o k a b
    simp only [loop_GD_Monaghan92Accelerations]
    c09_norm
    c09_close

/-- `m_a · contrib(a, b) = −(m_b · contrib(b, a))`, component by component -/
include hk in
theorem pair_antisym_GD_Monaghan92Accelerations (acc acc' : Out_GD_Monaghan92Accelerations K) (a b : P K) :
    a.m * ((pair_GD_Monaghan92Accelerations o k self_alpha self_beta acc a b).d_au - acc.d_au) = -(b.m * ((pair_GD_Monaghan92Accelerations o k self_alpha self_beta acc' b a).d_au - acc'.d_au)) ∧
    a.m * ((pair_GD_Monaghan92Accelerations o k self_alpha self_beta acc a b).d_av - acc.d_av) = -(b.m * ((pair_GD_Monaghan92Accelerations o k self_alpha self_beta acc' b a).d_av - acc'.d_av)) ∧
    a.m * ((pair_GD_Monaghan92Accelerations o k self_alpha self_beta acc a b).d_aw - acc.d_aw) = -(b.m * ((pair_GD_Monaghan92Accelerations o k self_alpha self_beta acc' b a).d_aw - acc'.d_aw)) := by
  refine ⟨?_, ?_, ?_⟩ <;>
  · simp only [pair_GD_Monaghan92Accelerations]
    c09_swap o k a b hk
    c09_atoms o k a b
    simp only [loop_GD_Monaghan92Accelerations]
    c09_norm
    c09_close

/-- the pair contribution is parallel to the separation `x_a − x_b` (cross product zero) -/
include hk in
theorem central_GD_Monaghan92Accelerations (acc : Out_GD_Monaghan92Accelerations K) (a b : P K) :
    (a.x - b.x) * ((pair_GD_Monaghan92Accelerations o k self_alpha self_beta acc a b).d_av - acc.d_av) = (a.y - b.y) * ((pair_GD_Monaghan92Accelerations o k self_alpha self_beta acc a b).d_au - acc.d_au) ∧
    (a.y - b.y) * ((pair_GD_Monaghan92Accelerations o k self_alpha self_beta acc a b).d_aw - acc.d_aw) = (a.z - b.z) * ((pair_GD_Monaghan92Accelerations o k self_alpha self_beta acc a b).d_av - acc.d_av) ∧
    (a.z - b.z) * ((pair_GD_Monaghan92Accelerations o k self_alpha self_beta acc a b).d_au - acc.d_au) = (a.x - b.x) * ((pair_GD_Monaghan92Accelerations o k self_alpha self_beta acc a b).d_aw - acc.d_aw) := by
  refine ⟨?_, ?_, ?_⟩ <;>
  · simp only [pair_GD_Monaghan92Accelerations]
    c09_shape o k a b hk
    c09_atoms o k a b
    simp only [loop_GD_Monaghan92Accelerations]
    c09_norm
    c09_close

/-- closed system: evaluating the equation for every particle over a symmetric neighbour relation
gives `Σ m a = 0` -/
include hk in
theorem linear_momentum_GD_Monaghan92Accelerations {ι : Type} [Fintype ι] [DecidableEq ι] (p : ι → P K)
    (nbrs : ι → List ι) (hnd : ∀ i, (nbrs i).Nodup) (hsymm : ∀ i j, j ∈ nbrs i → i ∈ nbrs j)
    (init : ι → Out_GD_Monaghan92Accelerations K) (hinit : ∀ i, (init i).d_au = 0 ∧ (init i).d_av = 0 ∧ (init i).d_aw = 0) :
    ∑ i, (p i).m * ((nbrs i).foldl (fun acc j => pair_GD_Monaghan92Accelerations o k self_alpha self_beta acc (p i) (p j)) (init i)).d_au = 0 ∧
    ∑ i, (p i).m * ((nbrs i).foldl (fun acc j => pair_GD_Monaghan92Accelerations o k self_alpha self_beta acc (p i) (p j)) (init i)).d_av = 0 ∧
    ∑ i, (p i).m * ((nbrs i).foldl (fun acc j => pair_GD_Monaghan92Accelerations o k self_alpha self_beta acc (p i) (p j)) (init i)).d_aw = 0 := by
  refine ⟨?_, ?_, ?_⟩
  · exact linear_momentum_of_pair (fun i => (p i).m) nbrs hnd hsymm (fun i acc j => pair_GD_Monaghan92Accelerations o k self_alpha self_beta acc (p i) (p j))
      (fun s => s.d_au) init (fun i => (hinit i).1)
      (fun i j acc acc' => (additive_GD_Monaghan92Accelerations o k self_alpha self_beta acc acc' (p i) (p j)).1)
      (fun i j acc acc' => (pair_antisym_GD_Monaghan92Accelerations o k hk self_alpha self_beta acc acc' (p i) (p j)).1)
  · exact linear_momentum_of_pair (fun i => (p i).m) nbrs hnd hsymm (fun i acc j => pair_GD_Monaghan92Accelerations o k self_alpha self_beta acc (p i) (p j))
      (fun s => s.d_av) init (fun i => (hinit i).2.1)
      (fun i j acc acc' => (additive_GD_Monaghan92Accelerations o k self_alpha self_beta acc acc' (p i) (p j)).2.1)
      (fun i j acc acc' => (pair_antisym_GD_Monaghan92Accelerations o k hk self_alpha self_beta acc acc' (p i) (p j)).2.1)
  · exact linear_momentum_of_pair (fun i => (p i).m) nbrs hnd hsymm (fun i acc j => pair_GD_Monaghan92Accelerations o k self_alpha self_beta acc (p i) (p j))
      (fun s => s.d_aw) init (fun i => (hinit i).2.2)
      (fun i j acc acc' => (additive_GD_Monaghan92Accelerations o k self_alpha self_beta acc acc' (p i) (p j)).2.2)
      (fun i j acc acc' => (pair_antisym_GD_Monaghan92Accelerations o k hk self_alpha self_beta acc acc' (p i) (p j)).2.2)

/-- closed system: `Σ m x × a = 0` (three components) -/
include hk in
theorem angular_momentum_GD_Monaghan92Accelerations {ι : Type} [Fintype ι] [DecidableEq ι] (p : ι → P K)
    (nbrs : ι → List ι) (hnd : ∀ i, (nbrs i).Nodup) (hsymm : ∀ i j, j ∈ nbrs i → i ∈ nbrs j)
    (init : ι → Out_GD_Monaghan92Accelerations K) (hinit : ∀ i, (init i).d_au = 0 ∧ (init i).d_av = 0 ∧ (init i).d_aw = 0) :
    (∑ i, (p i).m * ((p i).x * ((nbrs i).foldl (fun acc j => pair_GD_Monaghan92Accelerations o k self_alpha self_beta acc (p i) (p j)) (init i)).d_av - (p i).y * ((nbrs i).foldl (fun acc j => pair_GD_Monaghan92Accelerations o k self_alpha self_beta acc (p i) (p j)) (init i)).d_au) = 0) ∧
    (∑ i, (p i).m * ((p i).y * ((nbrs i).foldl (fun acc j => pair_GD_Monaghan92Accelerations o k self_alpha self_beta acc (p i) (p j)) (init i)).d_aw - (p i).z * ((nbrs i).foldl (fun acc j => pair_GD_Monaghan92Accelerations o k self_alpha self_beta acc (p i) (p j)) (init i)).d_av) = 0) ∧
    (∑ i, (p i).m * ((p i).z * ((nbrs i).foldl (fun acc j => pair_GD_Monaghan92Accelerations o k self_alpha self_beta acc (p i) (p j)) (init i)).d_au - (p i).x * ((nbrs i).foldl (fun acc j => pair_GD_Monaghan92Accelerations o k self_alpha self_beta acc (p i) (p j)) (init i)).d_aw) = 0) := by
  refine ⟨?_, ?_, ?_⟩
  · exact angular_momentum_of_pair (fun i => (p i).m) (fun i => (p i).x) (fun i => (p i).y) nbrs hnd hsymm
      (fun i acc j => pair_GD_Monaghan92Accelerations o k self_alpha self_beta acc (p i) (p j)) (fun s => s.d_au) (fun s => s.d_av) init
      (fun i => (hinit i).1) (fun i => (hinit i).2.1)
      (fun i j acc acc' => (additive_GD_Monaghan92Accelerations o k self_alpha self_beta acc acc' (p i) (p j)).1)
      (fun i j acc acc' => (additive_GD_Monaghan92Accelerations o k self_alpha self_beta acc acc' (p i) (p j)).2.1)
      (fun i j acc acc' => (pair_antisym_GD_Monaghan92Accelerations o k hk self_alpha self_beta acc acc' (p i) (p j)).1)
      (fun i j acc acc' => (pair_antisym_GD_Monaghan92Accelerations o k hk self_alpha self_beta acc acc' (p i) (p j)).2.1)
      (fun i j acc => (central_GD_Monaghan92Accelerations o k hk self_alpha self_beta acc (p i) (p j)).1)
  · exact angular_momentum_of_pair (fun i => (p i).m) (fun i => (p i).y) (fun i => (p i).z) nbrs hnd hsymm
      (fun i acc j => pair_GD_Monaghan92Accelerations o k self_alpha self_beta acc (p i) (p j)) (fun s => s.d_av) (fun s => s.d_aw) init
      (fun i => (hinit i).2.1) (fun i => (hinit i).2.2)
      (fun i j acc acc' => (additive_GD_Monaghan92Accelerations o k self_alpha self_beta acc acc' (p i) (p j)).2.1)
      (fun i j acc acc' => (additive_GD_Monaghan92Accelerations o k self_alpha self_beta acc acc' (p i) (p j)).2.2)
      (fun i j acc acc' => (pair_antisym_GD_Monaghan92Accelerations o k hk self_alpha self_beta acc acc' (p i) (p j)).2.1)
      (fun i j acc acc' => (pair_antisym_GD_Monaghan92Accelerations o k hk self_alpha self_beta acc acc' (p i) (p j)).2.2)
      (fun i j acc => (central_GD_Monaghan92Accelerations o k hk self_alpha self_beta acc (p i) (p j)).2.1)
  · exact angular_momentum_of_pair (fun i => (p i).m) (fun i => (p i).z) (fun i => (p i).x) nbrs hnd hsymm
      (fun i acc j => pair_GD_Monaghan92Accelerations o k self_alpha self_beta acc (p i) (p j)) (fun s => s.d_aw) (fun s => s.d_au) init
      (fun i => (hinit i).2.2) (fun i => (hinit i).1)
      (fun i j acc acc' => (additive_GD_Monaghan92Accelerations o k self_alpha self_beta acc acc' (p i) (p j)).2.2)
      (fun i j acc acc' => (additive_GD_Monaghan92Accelerations o k self_alpha self_beta acc acc' (p i) (p j)).1)
      (fun i j acc acc' => (pair_antisym_GD_Monaghan92Accelerations o k hk self_alpha self_beta acc acc' (p i) (p j)).2.2)
      (fun i j acc acc' => (pair_antisym_GD_Monaghan92Accelerations o k hk self_alpha self_beta acc acc' (p i) (p j)).1)
      (fun i j acc => (central_GD_Monaghan92Accelerations o k hk self_alpha self_beta acc (p i) (p j)).2.2)

end GD_Monaghan92Accelerations

/-! ## `pysph/sph/gas_dynamics/basic.py.ADKEAccelerations` (GD_ADKEAccelerations) -/
section GD_ADKEAccelerations
variable (o : Ops K) (k : Kern K) {w g : K → K → K} (hk : Radial k w g) (self_alpha : K) (self_beta : K) (self_g1 : K) (self_g2 : K)

/-- the contribution of a pair to the accumulated acceleration does not depend on the accumulator -/
theorem additive_GD_ADKEAccelerations (acc acc' : Out_GD_ADKEAccelerations K) (a b : P K) :
    ((pair_GD_ADKEAccelerations o k self_alpha self_beta self_g1 self_g2 acc a b).d_au - acc.d_au) = ((pair_GD_ADKEAccelerations o k self_alpha self_beta self_g1 self_g2 acc' a b).d_au - acc'.d_au) ∧
    ((pair_GD_ADKEAccelerations o k self_alpha self_beta self_g1 self_g2 acc a b).d_av - acc.d_av) = ((pair_GD_ADKEAccelerations o k self_alpha self_beta self_g1 self_g2 acc' a b).d_av - acc'.d_av) ∧
    ((pair_GD_ADKEAccelerations o k self_alpha self_beta self_g1 self_g2 acc a b).d_aw - acc.d_aw) = ((pair_GD_ADKEAccelerations o k self_alpha self_beta self_g1 self_g2 acc' a b).d_aw - acc'.d_aw) := by
  refine ⟨?_, ?_, ?_⟩ <;>
  · simp only [pair_GD_ADKEAccelerations]
    c09_atoms o k a b
    simp only [loop_GD_ADKEAccelerations]
    c09_norm
    c09_close

/-- `m_a · contrib(a, b) = −(m_b · contrib(b, a))`, component by component -/
include hk in
theorem pair_antisym_GD_ADKEAccelerations (acc acc' : Out_GD_ADKEAccelerations K) (a b : P K) :
    a.m * ((pair_GD_ADKEAccelerations o k self_alpha self_beta self_g1 self_g2 acc a b).d_au - acc.d_au) = -(b.m * ((pair_GD_ADKEAccelerations o k self_alpha self_beta self_g1 self_g2 acc' b a).d_au - acc'.d_au)) ∧
    a.m * ((pair_GD_ADKEAccelerations o k self_alpha self_beta self_g1 self_g2 acc a b).d_av - acc.d_av) = -(b.m * ((pair_GD_ADKEAccelerations o k self_alpha self_beta self_g1 self_g2 acc' b a).d_av - acc'.d_av)) ∧
    a.m * ((pair_GD_ADKEAccelerations o k self_alpha self_beta self_g1 self_g2 acc a b).d_aw - acc.d_aw) = -(b.m * ((pair_GD_ADKEAccelerations o k self_alpha self_beta self_g1 self_g2 acc' b a).d_aw - acc'.d_aw)) := by
  refine ⟨?_, ?_, ?_⟩ <;>
  · simp only [pair_GD_ADKEAccelerations]
    c09_swap o k a b hk
    c09_atoms o k a b
    simp only [loop_GD_ADKEAccelerations]
    c09_norm
    c09_close

/-- the pair contribution is parallel to the separation `x_a − x_b` (cross product zero) -/
include hk in
theorem central_GD_ADKEAccelerations (acc : Out_GD_ADKEAccelerations K) (a b : P K) :
    (a.x - b.x) * ((pair_GD_ADKEAccelerations o k self_alpha self_beta self_g1 self_g2 acc a b).d_av - acc.d_av) = (a.y - b.y) * ((pair_GD_ADKEAccelerations o k self_alpha self_beta self_g1 self_g2 acc a b).d_au - acc.d_au) ∧
    (a.y - b.y) * ((pair_GD_ADKEAccelerations o k self_alpha self_beta self_g1 self_g2 acc a b).d_aw - acc.d_aw) = (a.z - b.z) * ((pair_GD_ADKEAccelerations o k self_alpha self_beta self_g1 self_g2 acc a b).d_av - acc.d_av) ∧
    (a.z - b.z) * ((pair_GD_ADKEAccelerations o k self_alpha self_beta self_g1 self_g2 acc a b).d_au - acc.d_au) = (a.x - b.x) * ((pair_GD_ADKEAccelerations o k self_alpha self_beta self_g1 self_g2 acc a b).d_aw - acc.d_aw) := by
  refine ⟨?_, ?_, ?_⟩ <;>
  · simp only [pair_GD_ADKEAccelerations]
    c09_shape o k a b hk
    c09_atoms o k a b
    simp only [loop_GD_ADKEAccelerations]
    c09_norm
    c09_close

/-- closed system: evaluating the equation for every particle over a symmetric neighbour relation
gives `Σ m a = 0` -/
include hk in
theorem linear_momentum_GD_ADKEAccelerations {ι : Type} [Fintype ι] [DecidableEq ι] (p : ι → P K)
    (nbrs : ι → List ι) (hnd : ∀ i, (nbrs i).Nodup) (hsymm : ∀ i j, j ∈ nbrs i → i ∈ nbrs j)
    (init : ι → Out_GD_ADKEAccelerations K) (hinit : ∀ i, (init i).d_au = 0 ∧ (init i).d_av = 0 ∧ (init i).d_aw = 0) :
    ∑ i, (p i).m * ((nbrs i).foldl (fun acc j => pair_GD_ADKEAccelerations o k self_alpha self_beta self_g1 self_g2 acc (p i) (p j)) (init i)).d_au = 0 ∧
    ∑ i, (p i).m * ((nbrs i).foldl (fun acc j => pair_GD_ADKEAccelerations o k self_alpha self_beta self_g1 self_g2 acc (p i) (p j)) (init i)).d_av = 0 ∧
    ∑ i, (p i).m * ((nbrs i).foldl (fun acc j => pair_GD_ADKEAccelerations o k self_alpha self_beta self_g1 self_g2 acc (p i) (p j)) (init i)).d_aw = 0 := by
  refine ⟨?_, ?_, ?_⟩
  · exact linear_momentum_of_pair (fun i => (p i).m) nbrs hnd hsymm (fun i acc j => pair_GD_ADKEAccelerations o k self_alpha self_beta self_g1 self_g2 acc (p i) (p j))
      (fun s => s.d_au) init (fun i => (hinit i).1)
      (fun i j acc acc' => (additive_GD_ADKEAccelerations o k self_alpha self_beta self_g1 self_g2 acc acc' (p i) (p j)).1)
      (fun i j acc acc' => (pair_antisym_GD_ADKEAccelerations o k hk self_alpha self_beta self_g1 self_g2 acc acc' (p i) (p j)).1)
  · exact linear_momentum_of_pair (fun i => (p i).m) nbrs hnd hsymm (fun i acc j => pair_GD_ADKEAccelerations o k self_alpha self_beta self_g1 self_g2 acc (p i) (p j))
      (fun s => s.d_av) init (fun i => (hinit i).2.1)
      (fun i j acc acc' => (additive_GD_ADKEAccelerations o k self_alpha self_beta self_g1 self_g2 acc acc' (p i) (p j)).2.1)
      (fun i j acc acc' => (pair_antisym_GD_ADKEAccelerations o k hk self_alpha self_beta self_g1 self_g2 acc acc' (p i) (p j)).2.1)
  · exact linear_momentum_of_pair (fun i => (p i).m) nbrs hnd hsymm (fun i acc j => pair_GD_ADKEAccelerations o k self_alpha self_beta self_g1 self_g2 acc (p i) (p j))
      (fun s => s.d_aw) init (fun i => (hinit i).2.2)
      (fun i j acc acc' => (additive_GD_ADKEAccelerations o k self_alpha self_beta self_g1 self_g2 acc acc' (p i) (p j)).2.2)
      (fun i j acc acc' => (pair_antisym_GD_ADKEAccelerations o k hk self_alpha self_beta self_g1 self_g2 acc acc' (p i) (p j)).2.2)

/-- closed system: `Σ m x × a = 0` (three components) -/
include hk in
theorem angular_momentum_GD_ADKEAccelerations {ι : Type} [Fintype ι] [DecidableEq ι] (p : ι → P K)
    (nbrs : ι → List ι) (hnd : ∀ i, (nbrs i).Nodup) (hsymm : ∀ i j, j ∈ nbrs i → i ∈ nbrs j)
    (init : ι → Out_GD_ADKEAccelerations K) (hinit : ∀ i, (init i).d_au = 0 ∧ (init i).d_av = 0 ∧ (init i).d_aw = 0) :
    (∑ i, (p i).m * ((p i).x * ((nbrs i).foldl (fun acc j => pair_GD_ADKEAccelerations o k self_alpha self_beta self_g1 self_g2 acc (p i) (p j)) (init i)).d_av - (p i).y * ((nbrs i).foldl (fun acc j => pair_GD_ADKEAccelerations o k self_alpha self_beta self_g1 self_g2 acc (p i) (p j)) (init i)).d_au) = 0) ∧
    (∑ i, (p i).m * ((p i).y * ((nbrs i).foldl (fun acc j => pair_GD_ADKEAccelerations o k self_alpha self_beta self_g1 self_g2 acc (p i) (p j)) (init i)).d_aw - (p i).z * ((nbrs i).foldl (fun acc j => pair_GD_ADKEAccelerations o k self_alpha self_beta self_g1 self_g2 acc (p i) (p j)) (init i)).d_av) = 0) ∧
    (∑ i, (p i).m * ((p i).z * ((nbrs i).foldl (fun acc j => pair_GD_ADKEAccelerations o k self_alpha self_beta self_g1 self_g2 acc (p i) (p j)) (init i)).d_au - (p i).x * ((nbrs i).foldl (fun acc j => pair_GD_ADKEAccelerations o k self_alpha self_beta self_g1 self_g2 acc (p i) (p j)) (init i)).d_aw) = 0) := by
  refine ⟨?_, ?_, ?_⟩
  · exact angular_momentum_of_pair (fun i => (p i).m) (fun i => (p i).x) (fun i => (p i).y) nbrs hnd hsymm
      (fun i acc j => pair_GD_ADKEAccelerations o k self_alpha self_beta self_g1 self_g2 acc (p i) (p j)) (fun s => s.d_au) (fun s => s.d_av) init
      (fun i => (hinit i).1) (fun i => (hinit i).2.1)
      (fun i j acc acc' => (additive_GD_ADKEAccelerations o k self_alpha self_beta self_g1 self_g2 acc acc' (p i) (p j)).1)
      (fun i j acc acc' => (additive_GD_ADKEAccelerations o k self_alpha self_beta self_g1 self_g2 acc acc' (p i) (p j)).2.1)
      (fun i j acc acc' => (pair_antisym_GD_ADKEAccelerations o k hk self_alpha self_beta self_g1 self_g2 acc acc' (p i) (p j)).1)
      (fun i j acc acc' => (pair_antisym_GD_ADKEAccelerations o k hk self_alpha self_beta self_g1 self_g2 acc acc' (p i) (p j)).2.1)
      (fun i j acc => (central_GD_ADKEAccelerations o k hk self_alpha self_beta self_g1 self_g2 acc (p i) (p j)).1)
  · exact angular_momentum_of_pair (fun i => (p i).m) (fun i => (p i).y) (fun i => (p i).z) nbrs hnd hsymm
      (fun i acc j => pair_GD_ADKEAccelerations o k self_alpha self_beta self_g1 self_g2 acc (p i) (p j)) (fun s => s.d_av) (fun s => s.d_aw) init
      (fun i => (hinit i).2.1) (fun i => (hinit i).2.2)
      (fun i j acc acc' => (additive_GD_ADKEAccelerations o k self_alpha self_beta self_g1 self_g2 acc acc' (p i) (p j)).2.1)
      (fun i j acc acc' => (additive_GD_ADKEAccelerations o k self_alpha self_beta self_g1 self_g2 acc acc' (p i) (p j)).2.2)
      (fun i j acc acc' => (pair_antisym_GD_ADKEAccelerations o k hk self_alpha self_beta self_g1 self_g2 acc acc' (p i) (p j)).2.1)
      (fun i j acc acc' => (pair_antisym_GD_ADKEAccelerations o k hk self_alpha self_beta self_g1 self_g2 acc acc' (p i) (p j)).2.2)
      (fun i j acc => (central_GD_ADKEAccelerations o k hk self_alpha self_beta self_g1 self_g2 acc (p i) (p j)).2.1)
  · exact angular_momentum_of_pair (fun i => (p i).m) (fun i => (p i).z) (fun i => (p i).x) nbrs hnd hsymm
      (fun i acc j => pair_GD_ADKEAccelerations o k self_alpha self_beta self_g1 self_g2 acc (p i) (p j)) (fun s => s.d_aw) (fun s => s.d_au) init
      (fun i => (hinit i).2.2) (fun i => (hinit i).1)
      (fun i j acc acc' => (additive_GD_ADKEAccelerations o k self_alpha self_beta self_g1 self_g2 acc acc' (p i) (p j)).2.2)
      (fun i j acc acc' => (additive_GD_ADKEAccelerations o k self_alpha self_beta self_g1 self_g2 acc acc' (p i) (p j)).1)
      (fun i j acc acc' => (pair_antisym_GD_ADKEAccelerations o k hk self_alpha self_beta self_g1 self_g2 acc acc' (p i) (p j)).2.2)
      (fun i j acc acc' => (pair_antisym_GD_ADKEAccelerations o k hk self_alpha self_beta self_g1 self_g2 acc acc' (p i) (p j)).1)
      (fun i j acc => (central_GD_ADKEAccelerations o k hk self_alpha self_beta self_g1 self_g2 acc (p i) (p j)).2.2)

end GD_ADKEAccelerations

/-! ## `pysph/sph/gas_dynamics/basic.py.MPMAccelerations` (GD_MPMAccelerations) -/
section GD_MPMAccelerations
variable (o : Ops K) (k : Kern K) {w g : K → K → K} (hk : Radial k w g) (self_beta : K)

/-- the contribution of a pair to the accumulated acceleration does not depend on the accumulator -/
theorem additive_GD_MPMAccelerations (acc acc' : Out_GD_MPMAccelerations K) (a b : P K) :
    ((pair_GD_MPMAccelerations o k self_beta acc a b).d_au - acc.d_au) = ((pair_GD_MPMAccelerations o k self_beta acc' a b).d_au - acc'.d_au) ∧
    ((pair_GD_MPMAccelerations o k self_beta acc a b).d_av - acc.d_av) = ((pair_GD_MPMAccelerations o k self_beta acc' a b).d_av - acc'.d_av) ∧
    ((pair_GD_MPMAccelerations o k self_beta acc a b).d_aw - acc.d_aw) = ((pair_GD_MPMAccelerations o k self_beta acc' a b).d_aw - acc'.d_aw) := by
  refine ⟨?_, ?_, ?_⟩ <;>
  · simp only [pair_GD_MPMAccelerations]
    c09_atoms o k a b
    simp only [loop_GD_MPMAccelerations]
    c09_norm
    c09_close

/-- `m_a · contrib(a, b) = −(m_b · contrib(b, a))`, component by component -/
include hk in
theorem pair_antisym_GD_MPMAccelerations (acc acc' : Out_GD_MPMAccelerations K) (a b : P K) :
    a.m * ((pair_GD_MPMAccelerations o k self_beta acc a b).d_au - acc.d_au) = -(b.m * ((pair_GD_MPMAccelerations o k self_beta acc' b a).d_au - acc'.d_au)) ∧
    a.m * ((pair_GD_MPMAccelerations o k self_beta acc a b).d_av - acc.d_av) = -(b.m * ((pair_GD_MPMAccelerations o k self_beta acc' b a).d_av - acc'.d_av)) ∧
    a.m * ((pair_GD_MPMAccelerations o k self_beta acc a b).d_aw - acc.d_aw) = -(b.m * ((pair_GD_MPMAccelerations o k self_beta acc' b a).d_aw - acc'.d_aw)) := by
  refine ⟨?_, ?_, ?_⟩ <;>
  · simp only [pair_GD_MPMAccelerations]
    c09_swap o k a b hk
    c09_atoms o k a b
    simp only [loop_GD_MPMAccelerations]
    c09_norm
    c09_close

/-- the pair contribution is parallel to the separation `x_a − x_b` (cross product zero) -/
include hk in
theorem central_GD_MPMAccelerations (acc : Out_GD_MPMAccelerations K) (a b : P K) :
    (a.x - b.x) * ((pair_GD_MPMAccelerations o k self_beta acc a b).d_av - acc.d_av) = (a.y - b.y) * ((pair_GD_MPMAccelerations o k self_beta acc a b).d_au - acc.d_au) ∧
    (a.y - b.y) * ((pair_GD_MPMAccelerations o k self_beta acc a b).d_aw - acc.d_aw) = (a.z - b.z) * ((pair_GD_MPMAccelerations o k self_beta acc a b).d_av - acc.d_av) ∧
    (a.z - b.z) * ((pair_GD_MPMAccelerations o k self_beta acc a b).d_au - acc.d_au) = (a.x - b.x) * ((pair_GD_MPMAccelerations o k self_beta acc a b).d_aw - acc.d_aw) := by
  refine ⟨?_, ?_, ?_⟩ <;>
  · simp only [pair_GD_MPMAccelerations]
    c09_shape o k a b hk
    c09_atoms o k a b
    simp only [loop_GD_MPMAccelerations]
    c09_norm
    c09_close

/-- closed system: evaluating the equation for every particle over a symmetric neighbour relation
gives `Σ m a = 0` -/
include hk in
theorem linear_momentum_GD_MPMAccelerations {ι : Type} [Fintype ι] [DecidableEq ι] (p : ι → P K)
    (nbrs : ι → List ι) (hnd : ∀ i, (nbrs i).Nodup) (hsymm : ∀ i j, j ∈ nbrs i → i ∈ nbrs j)
    (init : ι → Out_GD_MPMAccelerations K) (hinit : ∀ i, (init i).d_au = 0 ∧ (init i).d_av = 0 ∧ (init i).d_aw = 0) :
    ∑ i, (p i).m * ((nbrs i).foldl (fun acc j => pair_GD_MPMAccelerations o k self_beta acc (p i) (p j)) (init i)).d_au = 0 ∧
    ∑ i, (p i).m * ((nbrs i).foldl (fun acc j => pair_GD_MPMAccelerations o k self_beta acc (p i) (p j)) (init i)).d_av = 0 ∧
    ∑ i, (p i).m * ((nbrs i).foldl (fun acc j => pair_GD_MPMAccelerations o k self_beta acc (p i) (p j)) (init i)).d_aw = 0 := by
  refine ⟨?_, ?_, ?_⟩
  · exact linear_momentum_of_pair (fun i => (p i).m) nbrs hnd hsymm (fun i acc j => pair_GD_MPMAccelerations o k self_beta acc (p i) (p j))
      (fun s => s.d_au) init (fun i => (hinit i).1)
      (fun i j acc acc' => (additive_GD_MPMAccelerations o k self_beta acc acc' (p i) (p j)).1)
      (fun i j acc acc' => (pair_antisym_GD_MPMAccelerations o k hk self_beta acc acc' (p i) (p j)).1)
  · exact linear_momentum_of_pair (fun i => (p i).m) nbrs hnd hsymm (fun i acc j => pair_GD_MPMAccelerations o k self_beta acc (p i) (p j))
      (fun s => s.d_av) init (fun i => (hinit i).2.1)
      (fun i j acc acc' => (additive_GD_MPMAccelerations o k self_beta acc acc' (p i) (p j)).2.1)
      (fun i j acc acc' => (pair_antisym_GD_MPMAccelerations o k hk self_beta acc acc' (p i) (p j)).2.1)
  · exact linear_momentum_of_pair (fun i => (p i).m) nbrs hnd hsymm (fun i acc j => pair_GD_MPMAccelerations o k self_beta acc (p i) (p j))
      (fun s => s.d_aw) init (fun i => (hinit i).2.2)
      (fun i j acc acc' => (additive_GD_MPMAccelerations o k self_beta acc acc' (p i) (p j)).2.2)
      (fun i j acc acc' => (pair_antisym_GD_MPMAccelerations o k hk self_beta acc acc' (p i) (p j)).2.2)

/-- closed system: `Σ m x × a = 0` (three components) -/
include hk in
theorem angular_momentum_GD_MPMAccelerations {ι : Type} [Fintype ι] [DecidableEq ι] (p : ι → P K)
    (nbrs : ι → List ι) (hnd : ∀ i, (nbrs i).Nodup) (hsymm : ∀ i j, j ∈ nbrs i → i ∈ nbrs j)
    (init : ι → Out_GD_MPMAccelerations K) (hinit : ∀ i, (init i).d_au = 0 ∧ (init i).d_av = 0 ∧ (init i).d_aw = 0) :
    (∑ i, (p i).m * ((p i).x * ((nbrs i).foldl (fun acc j => pair_GD_MPMAccelerations o k self_beta acc (p i) (p j)) (init i)).d_av - (p i).y * ((nbrs i).foldl (fun acc j => pair_GD_MPMAccelerations o k self_beta acc (p i) (p j)) (init i)).d_au) = 0) ∧
    (∑ i, (p i).m * ((p i).y * ((nbrs i).foldl (fun acc j => pair_GD_MPMAccelerations o k self_beta acc (p i) (p j)) (init i)).d_aw - (p i).z * ((nbrs i).foldl (fun acc j => pair_GD_MPMAccelerations o k self_beta acc (p i) (p j)) (init i)).d_av) = 0) ∧
    (∑ i, (p i).m * ((p i).z * ((nbrs i).foldl (fun acc j => pair_GD_MPMAccelerations o k self_beta acc (p i) (p j)) (init i)).d_au - (p i).x * ((nbrs i).foldl (fun acc j => pair_GD_MPMAccelerations o k self_beta acc (p i) (p j)) (init i)).d_aw) = 0) := by
  refine ⟨?_, ?_, ?_⟩
  · exact angular_momentum_of_pair (fun i => (p i).m) (fun i => (p i).x) (fun i => (p i).y) nbrs hnd hsymm
      (fun i acc j => pair_GD_MPMAccelerations o k self_beta acc (p i) (p j)) (fun s => s.d_au) (fun s => s.d_av) init
      (fun i => (hinit i).1) (fun i => (hinit i).2.1)
      (fun i j acc acc' => (additive_GD_MPMAccelerations o k self_beta acc acc' (p i) (p j)).1)
      (fun i j acc acc' => (additive_GD_MPMAccelerations o k self_beta acc acc' (p i) (p j)).2.1)
      (fun i j acc acc' => (pair_antisym_GD_MPMAccelerations o k hk self_beta acc acc' (p i) (p j)).1)
      (fun i j acc acc' => (pair_antisym_GD_MPMAccelerations o k hk self_beta acc acc' (p i) (p j)).2.1)
      (fun i j acc => (central_GD_MPMAccelerations o k hk self_beta acc (p i) (p j)).1)
  · exact angular_momentum_of_pair (fun i => (p i).m) (fun i => (p i).y) (fun i => (p i).z) nbrs hnd hsymm
      (fun i acc j => pair_GD_MPMAccelerations o k self_beta acc (p i) (p j)) (fun s => s.d_av) (fun s => s.d_aw) init
      (fun i => (hinit i).2.1) (fun i => (hinit i).2.2)
      (fun i j acc acc' => (additive_GD_MPMAccelerations o k self_beta acc acc' (p i) (p j)).2.1)
      (fun i j acc acc' => (additive_GD_MPMAccelerations o k self_beta acc acc' (p i) (p j)).2.2)
      (fun i j acc acc' => (pair_antisym_GD_MPMAccelerations o k hk self_beta acc acc' (p i) (p j)).2.1)
      (fun i j acc acc' => (pair_antisym_GD_MPMAccelerations o k hk self_beta acc acc' (p i) (p j)).2.2)
      (fun i j acc => (central_GD_MPMAccelerations o k hk self_beta acc (p i) (p j)).2.1)
  · exact angular_momentum_of_pair (fun i => (p i).m) (fun i => (p i).z) (fun i => (p i).x) nbrs hnd hsymm
      (fun i acc j => pair_GD_MPMAccelerations o k self_beta acc (p i) (p j)) (fun s => s.d_aw) (fun s => s.d_au) init
      (fun i => (hinit i).2.2) (fun i => (hinit i).1)
      (fun i j acc acc' => (additive_GD_MPMAccelerations o k self_beta acc acc' (p i) (p j)).2.2)
      (fun i j acc acc' => (additive_GD_MPMAccelerations o k self_beta acc acc' (p i) (p j)).1)
      (fun i j acc acc' => (pair_antisym_GD_MPMAccelerations o k hk self_beta acc acc' (p i) (p j)).2.2)
      (fun i j acc acc' => (pair_antisym_GD_MPMAccelerations o k hk self_beta acc acc' (p i) (p j)).1)
      (fun i j acc => (central_GD_MPMAccelerations o k hk self_beta acc (p i) (p j)).2.2)

end GD_MPMAccelerations

/-! ## `pysph/sph/solid_mech/basic.py.MomentumEquationWithStress` (SM_MomentumEquationWithStress) -/
section SM_MomentumEquationWithStress
variable (o : Ops K) (k : Kern K) {w g : K → K → K} (hk : Radial k w g) 

/-- the contribution of a pair to the accumulated acceleration does not depend on the accumulator -/
theorem additive_SM_MomentumEquationWithStress (acc acc' : Out_SM_MomentumEquationWithStress K) (a b : P K) :
    ((pair_SM_MomentumEquationWithStress o k  acc a b).d_au - acc.d_au) = ((pair_SM_MomentumEquationWithStress o k  acc' a b).d_au - acc'.d_au) ∧
    ((pair_SM_MomentumEquationWithStress o k  acc a b).d_av - acc.d_av) = ((pair_SM_MomentumEquationWithStress o k  acc' a b).d_av - acc'.d_av) ∧
    ((pair_SM_MomentumEquationWithStress o k  acc a b).d_aw - acc.d_aw) = ((pair_SM_MomentumEquationWithStress o k  acc' a b).d_aw - acc'.d_aw) := by
  refine ⟨?_, ?_, ?_⟩ <;>
  · simp only [pair_SM_MomentumEquationWithStress]
    c09_atoms o k a b
    simp only [loop_SM_MomentumEquationWithStress]
    c09_norm
    c09_close

/-- `m_a · contrib(a, b) = −(m_b · contrib(b, a))`, component by component -/
include hk in
theorem pair_antisym_SM_MomentumEquationWithStress (acc acc' : Out_SM_MomentumEquationWithStress K) (a b : P K) :
    a.m * ((pair_SM_MomentumEquationWithStress o k  acc a b).d_au - acc.d_au) = -(b.m * ((pair_SM_MomentumEquationWithStress o k  acc' b a).d_au - acc'.d_au)) ∧
    a.m * ((pair_SM_MomentumEquationWithStress o k  acc a b).d_av - acc.d_av) = -(b.m * ((pair_SM_MomentumEquationWithStress o k  acc' b a).d_av - acc'.d_av)) ∧
    a.m * ((pair_SM_MomentumEquationWithStress o k  acc a b).d_aw - acc.d_aw) = -(b.m * ((pair_SM_MomentumEquationWithStress o k  acc' b a).d_aw - acc'.d_aw)) := by
  refine ⟨?_, ?_, ?_⟩ <;>
  · simp only [pair_SM_MomentumEquationWithStress]
    c09_swap o k a b hk
    c09_atoms o k a b
    simp only [loop_SM_MomentumEquationWithStress]
    c09_norm
    c09_close

/-- closed system: evaluating the equation for every particle over a symmetric neighbour relation
gives `Σ m a = 0` -/
include hk in
theorem linear_momentum_SM_MomentumEquationWithStress {ι : Type} [Fintype ι] [DecidableEq ι] (p : ι → P K)
    (nbrs : ι → List ι) (hnd : ∀ i, (nbrs i).Nodup) (hsymm : ∀ i j, j ∈ nbrs i → i ∈ nbrs j)
    (init : ι → Out_SM_MomentumEquationWithStress K) (hinit : ∀ i, (init i).d_au = 0 ∧ (init i).d_av = 0 ∧ (init i).d_aw = 0) :
    ∑ i, (p i).m * ((nbrs i).foldl (fun acc j => pair_SM_MomentumEquationWithStress o k  acc (p i) (p j)) (init i)).d_au = 0 ∧
    ∑ i, (p i).m * ((nbrs i).foldl (fun acc j => pair_SM_MomentumEquationWithStress o k  acc (p i) (p j)) (init i)).d_av = 0 ∧
    ∑ i, (p i).m * ((nbrs i).foldl (fun acc j => pair_SM_MomentumEquationWithStress o k  acc (p i) (p j)) (init i)).d_aw = 0 := by
  refine ⟨?_, ?_, ?_⟩
  · exact linear_momentum_of_pair (fun i => (p i).m) nbrs hnd hsymm (fun i acc j => pair_SM_MomentumEquationWithStress o k  acc (p i) (p j))
      (fun s => s.d_au) init (fun i => (hinit i).1)
      (fun i j acc acc' => (additive_SM_MomentumEquationWithStress o k  acc acc' (p i) (p j)).1)
      (fun i j acc acc' => (pair_antisym_SM_MomentumEquationWithStress o k hk  acc acc' (p i) (p j)).1)
  · exact linear_momentum_of_pair (fun i => (p i).m) nbrs hnd hsymm (fun i acc j => pair_SM_MomentumEquationWithStress o k  acc (p i) (p j))
      (fun s => s.d_av) init (fun i => (hinit i).2.1)
      (fun i j acc acc' => (additive_SM_MomentumEquationWithStress o k  acc acc' (p i) (p j)).2.1)
      (fun i j acc acc' => (pair_antisym_SM_MomentumEquationWithStress o k hk  acc acc' (p i) (p j)).2.1)
  · exact linear_momentum_of_pair (fun i => (p i).m) nbrs hnd hsymm (fun i acc j => pair_SM_MomentumEquationWithStress o k  acc (p i) (p j))
      (fun s => s.d_aw) init (fun i => (hinit i).2.2)
      (fun i j acc acc' => (additive_SM_MomentumEquationWithStress o k  acc acc' (p i) (p j)).2.2)
      (fun i j acc acc' => (pair_antisym_SM_MomentumEquationWithStress o k hk  acc acc' (p i) (p j)).2.2)

end SM_MomentumEquationWithStress

end PysphVerif.C09
