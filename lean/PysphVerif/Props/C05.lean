import PysphVerif.Lemmas.Determinism
import PysphVerif.Lemmas.TreeReduce
import PysphVerif.Gen.C05Discipline
/-!
# C05 — results do not depend on neighbour algorithm, cache, threads or re-ordering

Property theorems only.  They are about `Model/Determinism.lean` (the generated
pair loop of `acceleration_eval_cython.mako` as micro-steps "row `dst` absorbs
row `src`", threads as per-thread programs, a schedule as ANY partition of the
destinations among threads plus ANY interleaving, `_sort_neighbors`,
`spatially_order_particles`), and about the table of read/write sets that
`translate/c05_rw_sets.py` extracts from every shipped `Equation` subclass
(`Gen/C05Discipline.lean`).

All statements hold for every row type `ρ`, every pair function `f`, every state,
every neighbour function, every number of threads, every partition and every
interleaving (no size bounds).  What is NOT covered: IEEE rounding (equality "up
to summation order" is equality for a right-commutative `f`, i.e. in an exact
field), OpenMP's memory model, and whether each NNPS returns the exact neighbour
set (that is C01) - here it is the hypothesis `(nb₁ i).Perm (nb₂ i)`.
-/
set_option linter.unusedSectionVars false
namespace PysphVerif.C05
open PysphVerif.Determinism

variable {ρ κ : Type}

/-! ## threads: any partition, any interleaving -/

/-- **Schedule independence.**  If the pair function keeps the own-row discipline
(it reads of the source row only a part that no loop body writes), then for every
assignment of destinations to threads (each destination handed out at most once)
and every interleaving of the threads' micro-steps, the parallel loop leaves
exactly the state of the sequential reference: each destination row is the fold
over its neighbour list, in list order, reading the state before the loop. -/
theorem own_row_schedule_independence {f : ρ → ρ → ρ} {rd : ρ → κ} (D : Discipline f rd)
    (nb : Nat → List Nat) (parts : List (List Nat)) (sched : List Nat) (st : List ρ)
    (hpart : parts.flatten.Nodup) :
    runLoop f nb parts sched st = evalAll f nb parts.flatten st := by
  apply List.ext_getElem?
  intro i
  unfold runLoop evalAll
  rw [run_getElem? D, List.getElem?_mapIdx,
    rowOf_interleave (ownerOf parts) i _ sched (owned_threadProgs nb parts hpart),
    rowOf_owner nb parts hpart i]
  congr 1
  funext r
  unfold evalAt
  by_cases hin : i ∈ parts.flatten
  · simp only [hin, if_true, rowOps, List.foldl_map, evalRow, absorbOp]
  · simp only [hin, if_false, List.foldl_nil]

/-- the reference semantics depends on the destinations only as a set -/
theorem evalAll_congr_dests (f : ρ → ρ → ρ) (nb : Nat → List Nat) (d₁ d₂ : List Nat)
    (st : List ρ) (h : ∀ i, i ∈ d₁ ↔ i ∈ d₂) : evalAll f nb d₁ st = evalAll f nb d₂ st := by
  unfold evalAll
  congr 1
  funext i r
  unfold evalAt
  by_cases h1 : i ∈ d₁
  · simp only [h1, (h i).mp h1, if_true]
  · have h2 : i ∉ d₂ := fun h2 => h1 ((h i).mpr h2)
    simp only [h1, h2, if_false]

/-- **Thread count, OpenMP on/off, chunking and timing are irrelevant**: two runs of
the same loop with different numbers of threads (`parts₁.length`, `parts₂.length`;
a serial run is one thread), different hand-outs of the same destinations and
different interleavings end in the same state. -/
theorem thread_configuration_irrelevant {f : ρ → ρ → ρ} {rd : ρ → κ} (D : Discipline f rd)
    (nb : Nat → List Nat) (parts₁ parts₂ : List (List Nat)) (sched₁ sched₂ : List Nat)
    (st : List ρ) (h₁ : parts₁.flatten.Nodup) (h₂ : parts₂.flatten.Nodup)
    (hsame : parts₁.flatten.Perm parts₂.flatten) :
    runLoop f nb parts₁ sched₁ st = runLoop f nb parts₂ sched₂ st := by
  rw [own_row_schedule_independence D nb parts₁ sched₁ st h₁,
    own_row_schedule_independence D nb parts₂ sched₂ st h₂]
  exact evalAll_congr_dests f nb _ _ st (fun i => hsame.mem_iff)

/-- Without the discipline the claim is false: a pair function that reads what the
loop writes gives different states under two interleavings of two threads. -/
theorem schedule_matters_without_discipline :
    ∃ (f : Nat → Nat → Nat) (nb : Nat → List Nat) (parts : List (List Nat))
      (s₁ s₂ : List Nat) (st : List Nat),
      parts.flatten.Nodup ∧ runLoop f nb parts s₁ st ≠ runLoop f nb parts s₂ st :=
  ⟨fun r s => r + s, fun i => if i = 0 then [1] else [0], [[0], [1]], [0, 1], [1, 0], [1, 2],
    by decide, by decide⟩

/-! ## neighbour algorithm and cache: only the neighbour SET matters -/

/-- **Sorted neighbours: bit-identical.**  Two neighbour searches (different NNPS
classes, cache on or off) that return the same neighbour set for every destination,
in whatever order, give the same state once the lists are sorted by a key that is
distinct on each list (`--sort-gids`) - for ANY pair function, commutative or not,
so also in floating point. -/
theorem eval_depends_on_nbr_set_when_sorted (f : ρ → ρ → ρ) (key : Nat → Nat)
    (nb₁ nb₂ : Nat → List Nat) (dests : List Nat) (st : List ρ)
    (hset : ∀ i ∈ dests, (nb₁ i).Perm (nb₂ i))
    (hkey : ∀ i ∈ dests, ∀ a ∈ nb₁ i, ∀ b ∈ nb₁ i, key a = key b → a = b) :
    evalAll f (fun i => sortNbrs key (nb₁ i)) dests st =
      evalAll f (fun i => sortNbrs key (nb₂ i)) dests st := by
  unfold evalAll
  congr 1
  funext i r
  unfold evalAt
  by_cases h : i ∈ dests
  · simp only [h, if_true, sortNbrs_eq_of_perm key _ _ (hset i h) (hkey i h)]
  · simp only [h, if_false]

/-- the two previous results together: with sorted neighbours the state after a loop
is the same for every exact neighbour search, every thread count, every hand-out and
every interleaving -/
theorem sorted_loop_configuration_independent {f : ρ → ρ → ρ} {rd : ρ → κ}
    (D : Discipline f rd) (key : Nat → Nat) (nb₁ nb₂ : Nat → List Nat)
    (parts₁ parts₂ : List (List Nat)) (sched₁ sched₂ : List Nat) (st : List ρ)
    (h₁ : parts₁.flatten.Nodup) (h₂ : parts₂.flatten.Nodup)
    (hsame : parts₁.flatten.Perm parts₂.flatten)
    (hset : ∀ i ∈ parts₁.flatten, (nb₁ i).Perm (nb₂ i))
    (hkey : ∀ i ∈ parts₁.flatten, ∀ a ∈ nb₁ i, ∀ b ∈ nb₁ i, key a = key b → a = b) :
    runLoop f (fun i => sortNbrs key (nb₁ i)) parts₁ sched₁ st =
      runLoop f (fun i => sortNbrs key (nb₂ i)) parts₂ sched₂ st := by
  rw [own_row_schedule_independence D _ parts₁ sched₁ st h₁,
    own_row_schedule_independence D _ parts₂ sched₂ st h₂,
    eval_depends_on_nbr_set_when_sorted f key nb₁ nb₂ _ st hset hkey]
  exact evalAll_congr_dests f _ _ _ st (fun i => hsame.mem_iff)

/-- **Unsorted neighbours: equal up to summation order.**  If absorbing two sources
commutes (sums in an exact field), the order in which a neighbour search lists the
neighbours does not matter either. -/
theorem eval_indep_of_nbr_order_of_comm {f : ρ → ρ → ρ}
    (hcomm : ∀ r a b, f (f r a) b = f (f r b) a) (nb₁ nb₂ : Nat → List Nat) (dests : List Nat)
    (st : List ρ) (hset : ∀ i ∈ dests, (nb₁ i).Perm (nb₂ i)) :
    evalAll f nb₁ dests st = evalAll f nb₂ dests st := by
  unfold evalAll
  congr 1
  funext i r
  unfold evalAt
  by_cases h : i ∈ dests
  · simp only [h, if_true, evalRow_perm hcomm st r (hset i h)]
  · simp only [h, if_false]

/-! ## re-ordering -/

/-- **Permutation equivariance.**  Re-order the particles (`new[k] = old[idx[k]]` for
every property) and let the neighbour search on the re-ordered arrays return, for
new index `k`, the re-labelled neighbours of old index `idx[k]` in any order.  Then
evaluating the loop on the re-ordered state is the re-ordering of the evaluation on
the original state: the same value per particle identity, as multisets of summands
(`hcomm`: exact field). -/
theorem perm_equivariance {f : ρ → ρ → ρ} (hcomm : ∀ r a b, f (f r a) b = f (f r b) a)
    (idx : List Nat) (st : List ρ) (hin : ∀ j ∈ idx, j < st.length)
    (nb nb' : Nat → List Nat) (dests dests' : List Nat)
    (hrange : ∀ k, ∀ a ∈ nb' k, a < idx.length)
    (hnb : ∀ k j, idx[k]? = some j → ((nb' k).filterMap (fun a => idx[a]?)).Perm (nb j))
    (hd : ∀ k j, idx[k]? = some j → (k ∈ dests' ↔ j ∈ dests)) :
    evalAll f nb' dests' (gather idx st) = gather idx (evalAll f nb dests st) := by
  have hin' : ∀ j ∈ idx, j < (evalAll f nb dests st).length := by
    intro j hj; simpa [evalAll] using hin j hj
  apply List.ext_getElem?
  intro k
  rw [gather_getElem? idx _ hin' k]
  unfold evalAll
  rw [List.getElem?_mapIdx, gather_getElem? idx st hin k]
  cases hk : idx[k]? with
  | none => rfl
  | some j =>
    have hj : j < st.length := hin j (List.mem_of_getElem? hk)
    simp only [Option.bind_some, List.getElem?_mapIdx, List.getElem?_eq_getElem hj,
      Option.map_some]
    congr 1
    unfold evalAt
    by_cases h : j ∈ dests
    · have h' : k ∈ dests' := (hd k j hk).mpr h
      simp only [h, h', if_true]
      rw [evalRow_gather f idx st hin _ _ (hrange k)]
      exact evalRow_perm hcomm st _ (hnb k j hk)
    · have h' : k ∉ dests' := fun e => h ((hd k j hk).mp e)
      simp only [h, h', if_false]

/-- **Re-ordering with sorted neighbours: bit-identical.**  If neighbours are sorted
by a key that travels with the particle (`key' a = key idx[a]`, the gid) and is
distinct on each list, the fold order per particle identity is the same before and
after the re-ordering, so no commutativity is needed. -/
theorem sorted_order_travels_with_particles (key key' : Nat → Nat) (idx : List Nat)
    (l' l : List Nat)
    (hkey : ∀ a j, idx[a]? = some j → key' a = key j)
    (hp : (l'.filterMap (fun a => idx[a]?)).Perm l)
    (hinj : ∀ a ∈ l, ∀ b ∈ l, key a = key b → a = b) :
    (sortNbrs key' l').filterMap (fun a => idx[a]?) = sortNbrs key l := by
  unfold sortNbrs
  have p' := List.mergeSort_perm l' (keyLe key')
  have p := List.mergeSort_perm l (keyLe key)
  have s' := List.pairwise_mergeSort (keyLe_trans key') (keyLe_total key') l'
  have s := List.pairwise_mergeSort (keyLe_trans key) (keyLe_total key) l
  have hperm : ((l'.mergeSort (keyLe key')).filterMap (fun a => idx[a]?)).Perm
      (l.mergeSort (keyLe key)) := ((p'.filterMap _).trans hp).trans p.symm
  have hsorted : List.Pairwise (fun a b => keyLe key a b = true)
      ((l'.mergeSort (keyLe key')).filterMap (fun a => idx[a]?)) := by
    rw [List.pairwise_filterMap]
    refine s'.imp ?_
    intro a b hab ja hja jb hjb
    simp only [keyLe, decide_eq_true_eq] at hab ⊢
    rw [← hkey a ja hja, ← hkey b jb hjb]
    exact hab
  refine List.Perm.eq_of_pairwise ?_ hsorted s hperm
  intro a b ha hb hab hba
  have ha' : a ∈ l := p.mem_iff.mp (hperm.mem_iff.mp ha)
  have hb' : b ∈ l := p.mem_iff.mp hb
  apply hinj a ha' b hb'
  simp only [keyLe, decide_eq_true_eq] at hab hba
  omega

/-! ## whole simulations -/

/-- the pair function keeps the discipline for some choice of "readable part" -/
def Disciplined (f : ρ → ρ → ρ) : Prop := ∃ (κ : Type) (rd : ρ → κ), Discipline f rd

/-- two configurations of one loop that the property regards as "the same simulation":
both hand out the same destinations (each once), and the two neighbour searches agree
on every neighbour SET; keys are distinct on every list -/
def CfgEquiv (key : Nat → Nat) (c₁ c₂ : LoopCfg) : Prop :=
  c₁.parts.flatten.Nodup ∧ c₂.parts.flatten.Nodup ∧ c₁.parts.flatten.Perm c₂.parts.flatten ∧
    (∀ i ∈ c₁.parts.flatten, (c₁.nb i).Perm (c₂.nb i)) ∧
    (∀ i ∈ c₁.parts.flatten, ∀ a ∈ c₁.nb i, ∀ b ∈ c₁.nb i, key a = key b → a = b)

/-- stage by stage: the same pair function under equivalent configurations -/
def StagesEquiv (key : Nat → Nat) :
    List ((ρ → ρ → ρ) × LoopCfg) → List ((ρ → ρ → ρ) × LoopCfg) → Prop
  | [], [] => True
  | a :: l₁, b :: l₂ => a.1 = b.1 ∧ CfgEquiv key a.2 b.2 ∧ StagesEquiv key l₁ l₂
  | _, _ => False

/-- **A whole simulation with sorted neighbours is configuration independent.**  Any
number of loops (all equations, all stages, all time steps), each run under its own
neighbour search, thread count, hand-out and interleaving: if stage by stage the two
runs use the same pair function and equivalent configurations, the final states are
identical - for any pair functions, so bit for bit. -/
theorem sorted_simulation_configuration_independent (key : Nat → Nat)
    (s₁ s₂ : List ((ρ → ρ → ρ) × LoopCfg)) (st : List ρ)
    (hdisc : ∀ x ∈ s₁, Disciplined x.1) (heq : StagesEquiv key s₁ s₂) :
    runStages key s₁ st = runStages key s₂ st := by
  induction s₁ generalizing s₂ st with
  | nil =>
    cases s₂ with
    | nil => rfl
    | cons b l₂ => simp [StagesEquiv] at heq
  | cons a l₁ ih =>
    cases s₂ with
    | nil => simp [StagesEquiv] at heq
    | cons b l₂ =>
      obtain ⟨f, c₁⟩ := a
      obtain ⟨g, c₂⟩ := b
      simp only [StagesEquiv] at heq
      obtain ⟨hfg, ⟨h₁, h₂, hsame, hset, hkey⟩, hrest⟩ := heq
      subst hfg
      obtain ⟨κ, rd, D⟩ := hdisc (f, c₁) (List.mem_cons_self ..)
      simp only [runStages]
      rw [sorted_loop_configuration_independent D key c₁.nb c₂.nb c₁.parts c₂.parts c₁.sched
        c₂.sched st h₁ h₂ hsame hset hkey]
      exact ih l₂ _ (fun x hx => hdisc x (List.mem_cons_of_mem _ hx)) hrest

/-! ## the neighbour search itself: threaded tree build, pruning, pair filter

`Model/TreeReduce.lean`.  The structures the neighbour searches build are threaded
too (octree build: whenever the environment offers threads, whatever `--openmp`
says), and options such as `--fixed-h` reach the pair filter.  What the search
returns must not depend on either. -/

section tree
open PysphVerif.TreeReduce

/-- **The level-1 `hmax` table of the parallel octree build is schedule independent
and equals the serial build's.**  For every number of threads, every hand-out of
the particles to the threads (`chunks`, any permutation of `0..n-1`, not only
OpenMP's static chunks), and every interleaving of the loop iterations, merging the
per-thread tables gives, for every octant, what the single loop of the serial build
computes. -/
theorem level1_hmax_schedule_independent {α : Type} [LinearOrder α] (zero : α)
    (oct : Nat → Nat) (h : Nat → α) (n : Nat) (chunks : List (List Nat)) (sched : List Nat)
    (hperm : chunks.flatten.Perm (List.range n)) :
    parHmax zero oct h n chunks sched = serialHmax zero oct h (List.range n) := by
  have hc : ∀ c ∈ chunks, ∀ p ∈ c, p < n := by
    intro c hcm p hp
    exact List.mem_range.mp (hperm.mem_iff.mp (List.mem_flatten.mpr ⟨c, hcm, hp⟩))
  funext o
  unfold parHmax mergeTables
  rw [parTables_take zero oct h n chunks sched hc,
    merge_chunks zero oct h chunks _ (fun _ => le_refl _) o, serialHmax_apply]
  exact octMax_perm oct h o zero hperm

/-- two parallel builds (different thread counts, chunkings, timings) agree -/
theorem level1_hmax_thread_configuration_irrelevant {α : Type} [LinearOrder α] (zero : α)
    (oct : Nat → Nat) (h : Nat → α) (n : Nat) (chunks₁ chunks₂ : List (List Nat))
    (sched₁ sched₂ : List Nat) (h₁ : chunks₁.flatten.Perm (List.range n))
    (h₂ : chunks₂.flatten.Perm (List.range n)) :
    parHmax zero oct h n chunks₁ sched₁ = parHmax zero oct h n chunks₂ sched₂ := by
  rw [level1_hmax_schedule_independent zero oct h n chunks₁ sched₁ h₁,
    level1_hmax_schedule_independent zero oct h n chunks₂ sched₂ h₂]

/-- the table is an upper bound of the `h` of every particle of the octant - what
the pruning test needs (`prune_sound`) -/
theorem level1_hmax_bounds_octant {α : Type} [LinearOrder α] (zero : α) (oct : Nat → Nat)
    (h : Nat → α) (n : Nat) (chunks : List (List Nat)) (sched : List Nat)
    (hperm : chunks.flatten.Perm (List.range n)) (p : Nat) (hp : p < n) :
    h p ≤ parHmax zero oct h n chunks sched (oct p) := by
  rw [level1_hmax_schedule_independent zero oct h n chunks sched hperm, serialHmax_apply]
  exact le_octMax_of_mem oct h _ zero _ p (List.mem_range.mpr hp) rfl

/-- **Accumulating into ONE shared table is not schedule independent**: with the
read-modify-write `hmax_children[o] = fmax(hmax_children[o], h[p])` executed by two
threads there is an interleaving that loses the larger value (thread 1 loads, thread
0 loads and stores 5, thread 1 stores 1). -/
theorem shared_hmax_lost_update :
    ∃ (oct : Nat → Nat) (h : Nat → Nat) (chunks : List (List Nat)) (sched : List Nat),
      chunks.flatten.Perm (List.range 2) ∧
      racyHmax 0 oct h chunks sched 0 < serialHmax 0 oct h (List.range 2) 0 :=
  ⟨fun _ => 0, fun p => if p = 0 then 5 else 1, [[0], [1]], [1, 0, 0, 1], by decide, by decide⟩

/-- ... while ONE thread on the shared table (the serial path, `OMP_NUM_THREADS=1`)
computes the serial table under every schedule -/
theorem shared_hmax_single_thread_ok {α : Type} [Max α] (zero : α) (oct : Nat → Nat)
    (h : Nat → α) (c : List Nat) (sched : List Nat) :
    racyHmax zero oct h [c] sched = serialHmax zero oct h c := by
  unfold racyHmax serialHmax
  simp only [racyProgs, interleave_single]
  exact racy_fold_single oct h c _

/-- **Pruning is sound when the node's `hmax` bounds the `h` of its particles.**  A
particle `x` of a node (within `half` of the centre `c` on every axis) with
`h_j ≤ hmax` is NOT a neighbour (gather or scatter) of a query point `q` for which
the tree walk skips the node. -/
theorem prune_sound {α : Type} [Field α] [LinearOrder α] [IsStrictOrderedRing α]
    (half k hq hj hmax : α) (c q x : α × α × α) (hk : 0 ≤ k) (hhq : 0 ≤ hq) (hhj : 0 ≤ hj)
    (hle : hj ≤ hmax)
    (hin : |x.1 - c.1| ≤ half ∧ |x.2.1 - c.2.1| ≤ half ∧ |x.2.2 - c.2.2| ≤ half)
    (hp : pruned half k hq hmax c q) : ¬ isNbr k (dist2 x q) hq hj := by
  obtain ⟨d1, d2, d3⟩ := dist2_ge_axes x q
  unfold isNbr
  rcases hp with hp | hp | hp
  · obtain ⟨a, b⟩ := sq_ge_of_pruned_axis half k hq hj hmax c.1 q.1 x.1 hk hhq hhj hle hin.1 hp
    rintro (e | e) <;> linarith
  · obtain ⟨a, b⟩ :=
      sq_ge_of_pruned_axis half k hq hj hmax c.2.1 q.2.1 x.2.1 hk hhq hhj hle hin.2.1 hp
    rintro (e | e) <;> linarith
  · obtain ⟨a, b⟩ :=
      sq_ge_of_pruned_axis half k hq hj hmax c.2.2 q.2.2 x.2.2 hk hhq hhj hle hin.2.2 hp
    rintro (e | e) <;> linarith

/-- ... and unsound when `hmax` under-estimates (a lost update): the node is skipped
although it holds a particle whose scatter radius reaches the query point -/
theorem prune_unsound_if_hmax_underestimated :
    ∃ (half k hq hj hmax : Rat) (c q x : Rat × Rat × Rat),
      0 ≤ k ∧ 0 ≤ hq ∧ 0 ≤ hj ∧ hmax < hj ∧
      (|x.1 - c.1| ≤ half ∧ |x.2.1 - c.2.1| ≤ half ∧ |x.2.2 - c.2.2| ≤ half) ∧
      pruned half k hq hmax c q ∧ isNbr k (dist2 x q) hq hj :=
  ⟨1, 2, 1, 5, 1, (0, 0, 0), (5, 0, 0), (1, 0, 0), by norm_num, by norm_num, by norm_num,
    by norm_num, by norm_num, Or.inl (by norm_num [prunedOnAxis]),
    Or.inr (by norm_num [dist2])⟩

/-- the pair filter is symmetric: `j` is listed for `i` iff `i` is listed for `j` -/
theorem isNbr_symm {α : Type} [Mul α] [LT α] (k d2 hi hj : α) :
    isNbr k d2 hi hj ↔ isNbr k d2 hj hi := Or.comm

/-- with a spatially uniform `h` the gather radius alone selects the same pairs ... -/
theorem gather_only_eq_of_uniform_h {α : Type} [Mul α] [LT α] (k d2 h : α) :
    isNbrGather k d2 h ↔ isNbr k d2 h h := (or_self_iff).symm

/-- ... but "constant in time" (`--fixed-h`) is not "uniform in space": with
`h_i < h_j` the gather radius alone loses the pairs inside the scatter radius, and
is not symmetric -/
theorem gather_only_misses_scatter :
    ∃ (k d2 hi hj : Nat), isNbr k d2 hi hj ∧ ¬ isNbrGather k d2 hi ∧ isNbrGather k d2 hj :=
  ⟨2, 9, 1, 2, by simp [isNbr], by simp [isNbrGather], by simp [isNbrGather]⟩

end tree

/-! ## the discipline table extracted from the shipped equations -/

/-- **Every shipped equation keeps the own-row discipline** (or is one of the listed,
reasoned exceptions): in every per-particle hook it writes destination properties
only at `[d_idx]` (strided: within the row of `d_idx`), never writes a source
property, and no `loop`-type hook reads from the source array a property that a
`loop`-type hook of the same class writes on the destination.  The table is
re-extracted from `/repo` on every run (`translate/c05_rw_sets.py`). -/
theorem own_row_discipline_table :
    PysphVerif.Gen.C05Discipline.table.all PysphVerif.Gen.C05Discipline.rowOk = true := by
  decide +kernel

/-- every exception that is tolerated is still an equation of the table that violates
the syntactic rule - the exception list carries no stale names -/
theorem exceptions_are_real :
    PysphVerif.Gen.C05Discipline.exceptions.all
      PysphVerif.Gen.C05Discipline.exceptionIsReal = true := by
  decide +kernel

/-! ## non-vacuity -/

/-- a concrete discipline: rows `(payload, accumulator)`, `f` adds the source payload
times ten into the accumulator - not commutative-insensitive data, real content -/
example : Discipline (fun (r s : Nat × Nat) => (r.1, 10 * r.2 + s.1)) Prod.fst :=
  ⟨fun _ _ _ h => by simp [h], fun _ _ => rfl⟩

/-- a three-thread schedule with a non-trivial interleaving on five rows -/
example :
    runLoop (fun (r s : Nat × Nat) => (r.1, 10 * r.2 + s.1))
      (fun i => if i = 0 then [1, 2, 4] else if i = 1 then [0, 3] else if i = 3 then [4, 0, 1] else [])
      [[3], [0, 2], [1]] [1, 0, 2, 2, 1, 0, 0, 1, 7, 0] [(1, 0), (2, 0), (3, 0), (4, 0), (5, 0)]
    = [(1, 235), (2, 14), (3, 0), (4, 512), (5, 0)] := by decide

example : sortNbrs (fun j => 100 - j) [3, 9, 4, 7] = [9, 7, 4, 3] := by
  simp [sortNbrs, List.mergeSort, keyLe, List.MergeSort.Internal.splitInTwo]

/-- the hypotheses of `eval_depends_on_nbr_set_when_sorted` are satisfiable by lists
in different orders -/
example : sortNbrs (fun j => 100 - j) [3, 9, 4, 7] = sortNbrs (fun j => 100 - j) [7, 4, 3, 9] :=
  sortNbrs_eq_of_perm _ _ _ (by decide) (by decide)

/-- three threads, a non-trivial interleaving, four octants: the parallel table -/
example :
    (List.range 4).map (PysphVerif.TreeReduce.parHmax 0 (fun p => p % 4)
      (fun p => (7 * p + 3) % 11) 9 [[0, 1, 2], [3, 4, 5], [6, 7, 8]] [2, 0, 1, 1, 2, 0, 0, 5]) =
    (List.range 4).map (PysphVerif.TreeReduce.serialHmax 0 (fun p => p % 4)
      (fun p => (7 * p + 3) % 11) (List.range 9)) := by decide

example : gather [2, 0, 1] ["a", "b", "c"] = ["c", "a", "b"] := by decide

end PysphVerif.C05
