import PysphVerif.Lemmas.PArrayStep
import PysphVerif.Lemmas.PArrayParticles
import PysphVerif.Lemmas.PArrayConsts
import PysphVerif.Lemmas.PArraySpecOps7
/-!
# C06 — a particle array stays coherent under any sequence of operations

Property theorems only (helper lemmas live in `Lemmas/PArray*.lean`).  They are
about `Model/PArray.lean`, which transcribes `pysph/base/particle_array.pyx`
mutator by mutator and is tied to the code by exact state comparison after
every operation of seeded operation sequences (`harness/c06.py`).

All statements are for every array / every pool of arrays / every finite
sequence of operations; nothing is bounded.  `validOp` is the formal reading of
"valid arguments"; an operation that is not valid, or on which the Python code
raises, leaves the state unchanged.
-/
namespace PysphVerif.C06
open PysphVerif.PArray

/-! ## A. a flat array read as rows of `stride` elements -/

/-- reading a flat array as rows and flattening again is the identity -/
theorem flat_rowsOf (s : Nat) (hs : 0 < s) (d : List Int) : flat (rowsOf s d) = d :=
  PysphVerif.PArray.flat_rowsOf s hs d

/-- rows of equal length `s > 0`, flattened and read back, are the same rows -/
theorem rowsOf_flat (s : Nat) (hs : 0 < s) (R : List (List Int))
    (hR : ∀ r ∈ R, r.length = s) : rowsOf s (flat R) = R :=
  PysphVerif.PArray.rowsOf_flat s hs R hR

/-- when the stride divides the length there are `length / stride` rows, all of
length `stride` -/
theorem rowsOf_length (s : Nat) (hs : 0 < s) (d : List Int) (h : s ∣ d.length) :
    (rowsOf s d).length = d.length / s ∧ ∀ r ∈ rowsOf s d, r.length = s :=
  rowsOf_length_of_dvd s hs d h

/-! ## B. the invariant

`Inv pa` (defined in `Lemmas/PArrayInv.lean`): every property `c` of `pa` has
`0 < stride(c)` and `c.data.length = pa.n * stride(c)`; `tag` is the first
property and has stride 1; property names are distinct; every key of the sparse
`stride` dict is a property name (this is what the `fix:` commit to
`remove_property` restored); `default_values` has exactly the property names as
keys. -/

/-- the definition of `Inv`, spelled out -/
theorem inv_def (pa : PA) :
    Inv pa ↔
      (∀ c ∈ pa.props, 0 < pa.strideOf c.name ∧ c.data.length = pa.n * pa.strideOf c.name) ∧
      (pa.props.map Col.name).head? = some "tag" ∧ pa.strideOf "tag" = 1 ∧
      (pa.props.map Col.name).Nodup ∧
      (∀ k ∈ pa.stride.map Prod.fst, k ∈ pa.props.map Col.name) ∧
      pa.defaults.map Prod.fst = pa.props.map Col.name :=
  ⟨fun h => ⟨h.len, h.tagFirst, h.tagStride, h.nodup, h.strideKeys, h.defaultKeys⟩,
   fun h => ⟨h.1, h.2.1, h.2.2.1, h.2.2.2.1, h.2.2.2.2.1, h.2.2.2.2.2⟩⟩

/-- `ParticleArray()` is coherent -/
theorem inv_empty (nm : String) : Inv (PA.empty nm) := PysphVerif.PArray.inv_empty nm

theorem inv_extend {pa : PA} (h : Inv pa) (k : Nat) :
    Inv (pa.extend k) ∧ (pa.extend k).n = pa.n + k := PysphVerif.PArray.inv_extend h k

theorem inv_resize {pa : PA} (h : Inv pa) (m : Nat) :
    Inv (pa.resize m) ∧ (pa.resize m).n = m := PysphVerif.PArray.inv_resize h m

theorem inv_removeParticles {pa pa' : PA} (h : Inv pa) (idx : List Nat) (al : Bool)
    (hr : pa.removeParticles idx al = some pa') : Inv pa' :=
  PysphVerif.PArray.inv_removeParticles h idx al hr

theorem inv_removeTagged {pa pa' : PA} (h : Inv pa) (tag : Int) (al : Bool)
    (hr : pa.removeTagged tag al = some pa') : Inv pa' :=
  PysphVerif.PArray.inv_removeTagged h tag al hr

theorem inv_align {pa : PA} (h : Inv pa) : Inv pa.align := PysphVerif.PArray.inv_align h

theorem inv_setTag {pa : PA} (h : Inv pa) (tag : Int) (idx : List Nat) :
    Inv (pa.setTag tag idx) := PysphVerif.PArray.inv_setTag h tag idx

/-- `add_particles`: every given array must hold the same whole number of rows
(the count is taken from the last one, as the code does) -/
theorem inv_addParticles {pa pa' : PA} (h : Inv pa) (al : Bool) (given : List (String × List Int))
    (hv : ∀ ln ld, given.getLast? = some (ln, ld) →
      ∀ g ∈ given, g.2.length = (ld.length / pa.strideOf ln) * pa.strideOf g.1)
    (hr : pa.addParticles al given = some pa') : Inv pa' :=
  PysphVerif.PArray.inv_addParticles h al given hv hr

/-- `add_property` keeps the invariant whenever the stride is positive; an
existing property is re-added with its own stride (or 1 = "not given") unless
the array is empty; `tag` keeps stride 1; data for a new property is a whole
number of rows.  (Weaker than what `validOp` demands.) -/
theorem inv_addProperty {pa pa' : PA} {name ctype : String} {dflt : Option Int}
    {data : Option (List Int)} {stride : Nat}
    (h : Inv pa) (h1 : 1 ≤ stride)
    (h2 : name ∈ pa.props.map Col.name → stride = 1 ∨ stride = pa.strideOf name ∨ pa.n = 0)
    (h3 : name = "tag" → stride = 1)
    (h4 : ∀ d, data = some d → d.length ≠ 0 → name ∉ pa.props.map Col.name →
      d.length % stride = 0)
    (hr : pa.addProperty name ctype dflt data stride = some pa') : Inv pa' :=
  PysphVerif.PArray.inv_addProperty h h1 h2 h3 h4 hr

/-- `remove_property` (of anything but `tag`): the stride entry goes with the
property, so the sparse stride dict keeps only property names -/
theorem inv_removeProperty {pa : PA} (h : Inv pa) (name : String) (hn : name ≠ "tag") :
    Inv (pa.removeProperty name) ∧ (pa.removeProperty name).n = pa.n :=
  PysphVerif.PArray.inv_removeProperty h name hn

theorem inv_addConstant {pa pa' : PA} (h : Inv pa) (name : String) (data : List Int)
    (hr : pa.addConstant name data = some pa') : Inv pa' :=
  PysphVerif.PArray.inv_addConstant h name data hr

theorem inv_setProp {pa pa' : PA} (h : Inv pa) (name : String) (data : List Int)
    (hr : pa.setProp name data = some pa') : Inv pa' :=
  PysphVerif.PArray.inv_setProp h name data hr

theorem inv_setOutputs {pa pa' : PA} (h : Inv pa) (ps : List String)
    (hr : pa.setOutputs ps = some pa') : Inv pa' := PysphVerif.PArray.inv_setOutputs h ps hr

theorem inv_addOutputs {pa pa' : PA} (h : Inv pa) (ps : List String)
    (hr : pa.addOutputs ps = some pa') : Inv pa' := PysphVerif.PArray.inv_addOutputs h ps hr

/-- `empty_clone`: coherent, empty, and every cloned name has the source's stride -/
theorem inv_emptyClone {pa d : PA} (h : Inv pa) (props : Option (List String))
    (hr : pa.emptyClone props = some d) :
    Inv d ∧ d.n = 0 ∧ ∀ nm ∈ cloneNames pa props, d.strideOf nm = pa.strideOf nm :=
  PysphVerif.PArray.inv_emptyClone h props hr

/-- `extract_particles` into an existing array: the copied properties must have
the same stride in both arrays -/
theorem inv_extractInto {pa dest pa' : PA} (h : Inv pa) (hd : Inv dest) (idx : List Nat)
    (al : Bool) (props : Option (List String))
    (hss : ∀ nm ∈ cloneNames pa props, pa.strideOf nm = dest.strideOf nm)
    (hr : pa.extractInto idx dest al props = some pa') : Inv pa' :=
  PysphVerif.PArray.inv_extractInto h hd idx al props hss hr

theorem inv_extract {pa pa' : PA} (h : Inv pa) (idx : List Nat) (al : Bool)
    (props : Option (List String)) (hr : pa.extract idx al props = some pa') : Inv pa' :=
  PysphVerif.PArray.inv_extract h idx al props hr

theorem inv_appendParray {pa src pa' : PA} (h : Inv pa) (hs : Inv src) (al up : Bool)
    (hr : pa.appendParray src al up = some pa') : Inv pa' :=
  PysphVerif.PArray.inv_appendParray h hs al up hr

theorem inv_ensureProperties {pa src pa' : PA} (h : Inv pa) (hs : Inv src)
    (props : Option (List String)) (hr : pa.ensureProperties src props = some pa') :
    Inv pa' ∧ pa'.n = pa.n ∧ pa'.consts = pa.consts :=
  PysphVerif.PArray.inv_ensureProperties h hs props hr

theorem inv_pickle {pa pa' : PA} (h : Inv pa) (hr : pa.pickle = some pa') : Inv pa' :=
  PysphVerif.PArray.inv_pickle h hr

/-- one operation on a pool of coherent arrays leaves every array coherent -/
theorem inv_applyOp (st : State) (op : Op) (h : ∀ pa ∈ st, Inv pa) :
    ∀ pa ∈ applyOp st op, Inv pa := PysphVerif.PArray.inv_applyOp st op h

/-- **Headline.** After any finite sequence of operations starting from the
empty pool, every array is coherent: each property holds exactly
`number_of_particles × stride` values, and `stride`/`default_values` are in
step with the properties. -/
theorem inv_reachable (ops : List Op) : ∀ pa ∈ run ops, Inv pa := inv_run ops

/-- the length statement on its own, for every reachable array and property -/
theorem reachable_lengths (ops : List Op) (pa : PA) (hpa : pa ∈ run ops) (c : Col)
    (hc : c ∈ pa.props) : c.data.length = pa.n * pa.strideOf c.name :=
  ((inv_run ops pa hpa).len c hc).2

/-! ### non-vacuity: a concrete history with a strided property and mixed tags -/

/-- create, add a strided property, add particles with mixed tags (aligning),
remove one, remove the strided property and add it back with stride 1 (the
order of calls that exposed the stale-stride defect), grow, pickle -/
def demoOps : List Op :=
  [ .new "fluid",
    .addProperty 0 "x" "double" none none 1,
    .addProperty 0 "v" "double" (some 7) none 3,
    .addConstant 0 "c0" [5, 6],
    .addParticles 0 true [("x", [10, 11, 12, 13]), ("tag", [2, 0, 1, 0]),
                          ("v", [1, 2, 3, 4, 5, 6, 7, 8, 9, 10, 11, 12])],
    .removeParticles 0 [0] true,
    .removeProperty 0 "v",
    .addProperty 0 "v" "double" none none 1,
    .extend 0 2,
    .pickle 0 ]

/-- every operation of the demo history is valid in the state it is applied to -/
example : (demoOps.foldl (fun (p : State × Bool) op => (applyOp p.1 op, p.2 && validOp p.1 op))
    ([], true)).2 = true := by decide

example : (run demoOps).map PA.n = [5, 5] := by decide
example : (run demoOps).map (fun pa => pa.props.map (fun c => (c.name, c.data.length))) =
    [[("tag", 5), ("pid", 5), ("gid", 5), ("x", 5), ("v", 5)],
     [("tag", 5), ("pid", 5), ("gid", 5), ("x", 5), ("v", 5)]] := by decide
/-- before the strided property is removed it holds `3 × n` values -/
example : (run (demoOps.take 6)).map (fun pa => (pa.n, pa.strideOf "v",
    (pa.props.filter (·.name == "v")).map (·.data))) =
    [(3, 3, [[10, 11, 12, 1, 2, 3, 7, 8, 9]])] := by decide
example : ∀ pa ∈ run demoOps, Inv pa := inv_reachable demoOps

/-! ## C. whole particles stay together

`particles pa` (defined in `Lemmas/PArrayParticles.lean`) is the array seen as a
list of records: slot `k` ↦ for every property its `k`-th row. -/

/-- the definition of `particles`, spelled out -/
theorem particles_def (pa : PA) :
    particles pa = (List.range pa.n).map (fun k => pa.props.map (fun (c : Col) =>
      (c.name, (rowsOf (pa.strideOf c.name) c.data).getD k []))) := rfl

/-- naturality of the polymorphic row removal: it is a gather through an index
list that depends only on the indices and the length -/
theorem removeRows_naturality {β : Type} (idx : List Nat) (l : List β) :
    removeRows idx l = gather (removeRows idx (List.range l.length)) l :=
  removeRows_eq_gather idx l

theorem gather_naturality {β γ : Type} (f : β → γ) (src : List Nat) (l : List β) :
    (gather src l).map f = gather src (l.map f) := gather_map f src l

/-- gathering every property through the same index list gathers whole particles -/
theorem gather_particles_together {pa : PA} (h : Inv pa) (src : List Nat)
    (hsrc : ∀ i ∈ src, i < pa.n) :
    particles (pa.mapRows (gather src)) = gather src (particles pa) :=
  mapRows_gather_particles h src hsrc

/-- `remove_particles(idx, align=False)` removes whole particles: the particle
list afterwards is the generic row removal applied to the particle list — the
same row map for every property -/
theorem removeParticles_particles {pa pa' : PA} (h : Inv pa) (idx : List Nat)
    (hr : pa.removeParticles idx false = some pa') :
    particles pa' = removeRows (sortNat idx) (particles pa) := by
  rw [removeParticles_noalign pa idx pa' hr]
  exact mapRows_removeRows_particles h (sortNat idx)

/-- for sorted, distinct, in-range indices exactly the addressed records
disappear: what is left together with the addressed records is a permutation of
the original list -/
theorem removeRows_perm {β : Type} (idx : List Nat) (l : List β) (hs : idx.Pairwise (· < ·))
    (hr : ∀ i ∈ idx, i < l.length) : (removeRows idx l ++ gather idx l).Perm l :=
  PysphVerif.PArray.removeRows_perm idx l hs hr

/-- `remove_particles` with distinct in-range indices: the remaining particles
plus the addressed ones are a permutation of the particles before -/
theorem removeParticles_exact {pa pa' : PA} (h : Inv pa) (idx : List Nat) (hnd : idx.Nodup)
    (hin : ∀ i ∈ idx, i < pa.n) (hr : pa.removeParticles idx false = some pa') :
    (particles pa' ++ gather (sortNat idx) (particles pa)).Perm (particles pa) := by
  rw [removeParticles_particles h idx hr]
  apply PysphVerif.PArray.removeRows_perm _ _ (sortNat_strict idx hnd)
  intro i hi
  rw [particles_length]
  exact hin i ((sortNat_perm idx).subset hi)

/-- `align_particles` permutes whole particles -/
theorem align_particles_perm {pa : PA} (h : Inv pa) :
    (particles pa.align).Perm (particles pa) := PysphVerif.PArray.align_particles_perm h

/-- `extend(k)` appends `k` particles with every property at its default and
leaves the existing particles alone -/
theorem extend_particles {pa : PA} (h : Inv pa) (k : Nat) :
    particles (pa.extend k) = particles pa ++ List.replicate k (defaultParticle pa) :=
  PysphVerif.PArray.extend_particles h k

/-- `add_particles(align=False, **given)`: the old particles stay and `k` new
ones are appended, each carrying the given row or the default of every property
(`k` = number of rows of the last given array, as the code computes it) -/
theorem addParticles_particles {pa pa' : PA} (h : Inv pa) (given : List (String × List Int))
    (ln : String) (ld : List Int) (hlast : given.getLast? = some (ln, ld))
    (hv : ∀ g ∈ given, g.2.length = (ld.length / pa.strideOf ln) * pa.strideOf g.1)
    (hr : pa.addParticles false given = some pa') :
    pa'.n = pa.n + ld.length / pa.strideOf ln ∧
    particles pa' = particles pa ++
      (List.range (ld.length / pa.strideOf ln)).map
        (newParticle pa given (ld.length / pa.strideOf ln)) :=
  addParticles_particles' h given ln ld hlast hv hr

/-- the definition of the new particle `j`, spelled out -/
theorem newParticle_def (pa : PA) (given : List (String × List Int)) (k j : Nat) :
    newParticle pa given k j = pa.props.map (fun (c : Col) => (c.name,
      (match given.find? (fun (g : String × List Int) => g.1 == c.name) with
        | some g => rowsOf (pa.strideOf c.name) g.2
        | none => List.replicate k (defaultRow pa c.name)).getD j [])) := rfl

/-! ### non-vacuity for C: a 4-particle array with a stride-3 property and tags 0,0,1,2 -/

def demoPA : PA := ((run (demoOps.take 5))[0]?).getD (PA.empty "")

example : Inv demoPA := inv_reachable (demoOps.take 5) demoPA (by decide)
example : particles demoPA =
    [[("tag", [0]), ("pid", [0]), ("gid", [4294967295]), ("x", [11]), ("v", [4, 5, 6])],
     [("tag", [0]), ("pid", [0]), ("gid", [4294967295]), ("x", [13]), ("v", [10, 11, 12])],
     [("tag", [1]), ("pid", [0]), ("gid", [4294967295]), ("x", [12]), ("v", [7, 8, 9])],
     [("tag", [2]), ("pid", [0]), ("gid", [4294967295]), ("x", [10]), ("v", [1, 2, 3])]] := by
  decide
/-- removing slots 2 and 0 (given unsorted) leaves exactly the other two records -/
example : (demoPA.removeParticles [2, 0] false).map particles = some
    [[("tag", [2]), ("pid", [0]), ("gid", [4294967295]), ("x", [10]), ("v", [1, 2, 3])],
     [("tag", [0]), ("pid", [0]), ("gid", [4294967295]), ("x", [13]), ("v", [10, 11, 12])]] := by
  decide
/-- two new particles: `tag` and the strided `v` given, `x`/`pid`/`gid` defaulted -/
example : (demoPA.addParticles false [("tag", [1, 0]), ("v", [21, 22, 23, 24, 25, 26])]).map
    (fun pa => (particles pa).drop 4) = some
    [[("tag", [1]), ("pid", [0]), ("gid", [4294967295]), ("x", [0]), ("v", [21, 22, 23])],
     [("tag", [0]), ("pid", [0]), ("gid", [4294967295]), ("x", [0]), ("v", [24, 25, 26])]] := by
  decide

/-! ## D. alignment -/

/-- the index array built by `align_particles` is a permutation of `0 … n-1` -/
theorem alignIndex_perm (tags : List Int) :
    (alignIndex tags).1.Perm (List.range tags.length) := PysphVerif.PArray.alignIndex_perm tags

/-- **after `align_particles`** the particle count is unchanged,
`num_real_particles` is the number of Local tags (before and after), and slot
`k` holds a Local-tagged particle iff `k < num_real_particles` -/
theorem align_real_first {pa : PA} (h : Inv pa) :
    pa.align.n = pa.n ∧
    pa.align.nReal = (pa.tags.filter (· == localTag)).length ∧
    pa.align.nReal = (pa.align.tags.filter (· == localTag)).length ∧
    ∀ k, k < pa.align.n →
      (pa.align.tags.getD k 1 == localTag) = decide (k < pa.align.nReal) :=
  align_real_first' h

/-- a misaligned array (slot 0 retagged Ghost): alignment moves the Local particle
to the front, as a whole record -/
example : ((demoPA.setTag 2 [0]).tags, (demoPA.setTag 2 [0]).align.tags,
    (demoPA.setTag 2 [0]).align.nReal) = ([2, 0, 1, 2], [0, 2, 1, 2], 1) := by decide
example : (particles (demoPA.setTag 2 [0]).align).head? =
    some [("tag", [0]), ("pid", [0]), ("gid", [4294967295]), ("x", [13]), ("v", [10, 11, 12])] := by
  decide

/-! ## E. constants are untouched -/

/-- the definition of `touchesConsts`: `add_constant`, `set` on a name that is not
a property, `append_parray(update_constants=True)` -/
theorem touchesConsts_def (st : State) (op : Op) :
    touchesConsts st op = (match op with
      | .addConstant _ _ _ => true
      | .setProp s name _ => (match st[s]? with
          | some pa => !pa.hasProp name
          | none => false)
      | .append _ _ _ up => up
      | _ => false) := by
  cases op <;> rfl

/-- every other operation leaves the constants of every existing array alone
(arrays created by `empty_clone` / `extract_particles` / pickling /
`ParticleArray()` go to new slots of the pool) -/
theorem consts_untouched (st : State) (op : Op) (ht : touchesConsts st op = false)
    (k : Nat) (pa : PA) (hk : st[k]? = some pa) :
    ∃ pa', (applyOp st op)[k]? = some pa' ∧ pa'.consts = pa.consts :=
  consts_untouched_step st op ht k pa hk

example : (run demoOps).map PA.consts = [[("c0", [5, 6])], [("c0", [5, 6])]] := by decide

/-! ## F. pickle round trip -/

/-- `pickle.loads(pickle.dumps(pa))`, when it succeeds, rebuilds a coherent array
with the same properties (names, C types, data, order), the same stride for
every name, the same defaults and constants, and recounts the real particles -/
theorem pickle_roundtrip {pa pa' : PA} (h : Inv pa) (hr : pa.pickle = some pa') :
    Inv pa' ∧ pa'.props = pa.props ∧ pa'.defaults = pa.defaults ∧
      (∀ nm, pa'.strideOf nm = pa.strideOf nm) ∧ pa'.consts = pa.consts ∧
      pa'.name = pa.name ∧ pa'.outputs = [] ∧
      pa'.nReal = (pa.tags.filter (· == localTag)).length :=
  pickle_spec h hr

example : ((run demoOps)[0]?).bind PA.pickle = (run demoOps)[1]? := by decide

/-- pickling succeeds when the constant names are distinct and differ from every
property name.  The second condition is NOT an invariant of reachable states
(`add_property` accepts the name of an existing constant, see `clashOps`). -/
theorem pickle_succeeds {pa : PA} (h : Inv pa) (hcn : (pa.consts.map Prod.fst).Nodup)
    (hcd : ∀ k ∈ pa.consts.map Prod.fst, k ∉ pa.props.map Col.name) :
    ∃ pa', pa.pickle = some pa' := PysphVerif.PArray.pickle_succeeds h hcn hcd

/-- a valid history after which the array cannot be un-pickled: a constant and a
property with the same name (the real `__setstate__` raises
`RuntimeError: Property called "m" already exists.`) -/
def clashOps : List Op :=
  [ .new "a", .addConstant 0 "m" [1], .addProperty 0 "m" "double" none none 1 ]

example : (clashOps.foldl (fun (p : State × Bool) op => (applyOp p.1 op, p.2 && validOp p.1 op))
    ([], true)).2 = true ∧ ((run clashOps)[0]?).bind PA.pickle = none := by decide

/-- sharpness of the stride condition of `inv_addProperty` (and of `validOp`):
re-adding an existing property of a non-empty array with another stride rewrites
`stride[name]` without resizing the array — 2 particles, stride 3, 2 values -/
example : (((run [.new "c", .addProperty 0 "x" "double" none none 1,
      .addParticles 0 true [("x", [1, 2])]])[0]?).bind
      (fun pa => pa.addProperty "x" "double" none none 3)).map
      (fun pa => (pa.n, pa.strideOf "x", (pa.props.filter (·.name == "x")).map (·.data.length)))
    = some (2, 3, [2]) := by decide

/-! ## G. extract / remove-tagged at the record level, conservation -/

/-- the definition of `copyFields`: the listed fields from the source record,
the destination's default elsewhere (in the destination's field order) -/
theorem copyFields_def (names : List String) (src dflt : Rec) :
    copyFields names src dflt =
      dflt.map (fun f => if names.contains f.1 then (f.1, lookupD src f.1 []) else f) := rfl

/-- **`extract_particles(idx, dest, align=False, props)`**: with the copied
properties of equal stride in both arrays (as `validOp` demands) and indices in
range, the destination keeps its records and gets one new record per index, in
the order of `idx`: the copied fields are those of source record `i`, the other
fields the destination's defaults.  (The source is not an output of the
operation: it is unchanged.) -/
theorem extract_particles_spec {pa dest dest' : PA} (h : Inv pa) (hd : Inv dest) (idx : List Nat)
    (props : Option (List String))
    (hss : ∀ nm ∈ cloneNames pa props, pa.strideOf nm = dest.strideOf nm)
    (hin : ∀ i ∈ idx, i < pa.n)
    (hr : pa.extractInto idx dest false props = some dest') :
    dest'.n = dest.n + idx.length ∧
    particles dest' = particles dest ++
      idx.map (fun i => copyFields (cloneNames pa props) ((particles pa).getD i [])
        (defaultParticle dest)) := by
  obtain ⟨h1, h2⟩ := extractInto_particles h hd idx props hss hin hr
  refine ⟨h1, ?_⟩
  rw [h2]
  congr 1
  apply List.map_congr_left
  intro i hi
  rw [particles_getD pa i (hin i hi)]

/-- **conservation**: `extract_particles(idx, dest, props)` followed by
`remove_particles(idx)` on the source conserves the multiset of records
restricted to the copied fields (`project names r` = the fields `names` of `r`,
in the order of `names`) -/
theorem extract_then_remove_conserves {pa dest dest' pa' : PA} (h : Inv pa) (hd : Inv dest)
    (idx : List Nat) (props : Option (List String))
    (hss : ∀ nm ∈ cloneNames pa props, pa.strideOf nm = dest.strideOf nm)
    (hnames : ∀ nm ∈ cloneNames pa props, nm ∈ dest.props.map Col.name)
    (hnd : idx.Nodup) (hin : ∀ i ∈ idx, i < pa.n)
    (he : pa.extractInto idx dest false props = some dest')
    (hr : pa.removeParticles idx false = some pa') :
    ((particles dest' ++ particles pa').map (project (cloneNames pa props))).Perm
      ((particles dest ++ particles pa).map (project (cloneNames pa props))) :=
  extract_remove_conserves h hd idx props hss hnames hnd hin he hr

/-- **`remove_tagged_particles(tag, align=False)`**: exactly the records
carrying that tag disappear (the others stay, possibly reordered by the
swap-removal) -/
theorem removeTagged_particles {pa pa' : PA} (h : Inv pa) (t : Int)
    (hr : pa.removeTagged t false = some pa') :
    (particles pa').Perm ((particles pa).filter (fun r => !(lookupD r "tag" [] == [t]))) :=
  removeTagged_particles' h t hr

/-- the definition of `specAppend a b` (self `a`, source `b`), spelled out -/
theorem specAppend_def (a b : RA) :
    specAppend a b = if b.recs.length = 0 then a else
      ⟨a.dflt ++ missingFields a.dflt b.dflt,
       a.recs.map (fun r => r ++ missingFields a.dflt b.dflt) ++
       b.recs.map (fun r => (a.dflt ++ missingFields a.dflt b.dflt).map (fun f =>
         if (recKeys b.dflt).contains f.1 then (f.1, lookupD r f.1 []) else f))⟩ := rfl

/-- **`append_parray(src, align=False)`**: it never raises on coherent arrays
whose common properties have equal strides, and afterwards the records are the
old records (the fields self did not have filled with src's defaults) followed
by src's records (the fields src does not have filled with self's defaults);
the default record gains src's extra fields -/
theorem appendParray_particles {pa src : PA} (h : Inv pa) (hs : Inv src) (up : Bool)
    (hss : ∀ nm ∈ src.props.map Col.name, pa.strideOf nm = src.strideOf nm) :
    ∃ pa', pa.appendParray src false up = some pa' ∧
      absPA pa' = specAppend (absPA pa) (absPA src) :=
  append_noalign_abs h hs up hss

/-- slot 1 of `demoPA` (`x = 13`, `v = [10,11,12]`) extracted into a clone that
only has `x`: `x` is copied, `tag/pid/gid` take the clone's defaults -/
example : ((demoPA.emptyClone (some ["x"])).bind
    (fun d => demoPA.extractInto [1] d false (some ["x"]))).map particles =
    some [[("tag", [0]), ("pid", [0]), ("gid", [4294967295]), ("x", [13])]] := by decide
example : (demoPA.removeTagged 0 false).map particles = some
    [[("tag", [1]), ("pid", [0]), ("gid", [4294967295]), ("x", [12]), ("v", [7, 8, 9])],
     [("tag", [2]), ("pid", [0]), ("gid", [4294967295]), ("x", [10]), ("v", [1, 2, 3])]] := by
  decide

/-! ## H. every operation refines the record-list model

The record-list model of one array is `RA`: a default record (field ↦ default
row, in property order) and a list of records.  `absPA pa` is the view of a real
array, `absState` of a pool.  `specOp` is the straightforward record-list
function of every operation; it never looks at flat arrays, strides or
`num_real_particles`.  Because `align_particles` and the swap-removal of cyarray
reorder records while indices are positional, the refinement is stated per
step, from the view of the actual state: `poolEquiv` = slot by slot the same
default record and the same records up to a permutation. -/

/-! the record-list functions `specOp` is made of (defined in
`Lemmas/PArrayRefine.lean` / `Lemmas/PArraySpecOps.lean`), spelled out -/

theorem absPA_def (pa : PA) : absPA pa = ⟨defaultParticle pa, particles pa⟩ := rfl

theorem poolEquiv_def (A B : List RA) :
    poolEquiv A B ↔ List.Forall₂ (fun a b => a.dflt = b.dflt ∧ a.recs.Perm b.recs) A B := Iff.rfl

/-- `remove_particles(idx)`: the records whose slot is not listed, in order -/
theorem specRemove_def (idx : List Nat) (a : RA) :
    specRemove idx a = ⟨a.dflt, gather
      ((List.range a.recs.length).filter (fun i => !idx.contains i)) a.recs⟩ := rfl

theorem specRemoveTagged_def (t : Int) (a : RA) :
    specRemoveTagged t a =
      { a with recs := a.recs.filter (fun r => !(lookupD r "tag" [] == [t])) } := rfl

theorem specExtend_def (k : Nat) (a : RA) :
    specExtend k a = { a with recs := a.recs ++ List.replicate k a.dflt } := rfl

/-- `align_particles`: Local records first -/
theorem specAlign_def (a : RA) :
    specAlign a = ⟨a.dflt, a.recs.filter (fun r => lookupD r "tag" [] == [localTag]) ++
      a.recs.filter (fun r => !(lookupD r "tag" [] == [localTag]))⟩ := rfl

theorem specExtractInto_def (names : List String) (idx : List Nat) (src dst : RA) :
    specExtractInto names idx src dst = ⟨dst.dflt, dst.recs ++
      idx.map (fun i => copyFields names (src.recs.getD i []) dst.dflt)⟩ := rfl

theorem specAddParticles_def (given : List (String × List Int)) (a : RA) :
    specAddParticles given a = { a with recs := a.recs ++ specNewRecs a.dflt given } := rfl

theorem specRemoveProperty_def (nm : String) (a : RA) :
    specRemoveProperty nm a =
      ⟨a.dflt.filter (fun f => !(f.1 == nm)), a.recs.map (fun r => r.filter (fun f => !(f.1 == nm)))⟩ :=
  rfl

/-- **the record-list model**: one operation on a pool of record lists -/
def specOp (A : List RA) : Op → List RA
  | .addParticles s _ given => modifySlot A s (specAddParticles given)
  | .removeParticles s idx _ => modifySlot A s (specRemove idx)
  | .removeTagged s t _ => modifySlot A s (specRemoveTagged t)
  | .extend s k => modifySlot A s (specExtend k)
  | .resize s m => modifySlot A s (specResize m)
  | .align s => modifySlot A s specAlign
  | .setTag s t idx => modifySlot A s (specSetTag t idx)
  | .addProperty s nm _ df da sd => modifySlot A s (specAddProperty nm df da sd)
  | .removeProperty s nm => modifySlot A s (specRemoveProperty nm)
  | .addConstant _ _ _ => A
  | .setProp s nm d => modifySlot A s (specSetProp nm d)
  | .setOutputs _ _ => A
  | .addOutputs _ _ => A
  | .emptyClone s ps =>
    match A[s]? with
    | some a => A ++ [specEmptyClone ps a]
    | none => A
  | .extract s idx _ ps =>
    match A[s]? with
    | some a => A ++ [specExtractInto (specNames ps a) idx a (specEmptyClone ps a)]
    | none => A
  | .extractInto s d idx _ ps =>
    match A[s]?, A[d]? with
    | some a, some b => A.set d (specExtractInto (specNames ps a) idx a b)
    | _, _ => A
  | .append s src _ _ =>
    match A[s]?, A[src]? with
    | some a, some b => A.set s (specAppend a b)
    | _, _ => A
  | .ensure s src ps =>
    match A[s]?, A[src]? with
    | some a, some b => A.set s (specEnsure ps a b)
    | _, _ => A
  | .pickle s =>
    match A[s]? with
    | some a => A ++ [a]
    | none => A
  | .new _ => A ++ [⟨baseDflt, []⟩]

/-- "valid arguments" beyond `validOp`, as the harness generates them: index
lists are duplicate-free and in range; `extract_particles` / `empty_clone` /
`ensure_properties` name properties the source array has; `add_property` with
data on a non-empty array brings one row per particle (and the property's own
stride if it exists); the array can be un-pickled (in all other cases the
Python code raises and nothing changes) -/
def goodOp (st : State) : Op → Bool
  | .removeParticles s idx _ =>
    match st[s]? with
    | some pa => decide idx.Nodup && idx.all (fun i => decide (i < pa.n))
    | none => true
  | .extractInto s d idx _ ps =>
    match st[s]?, st[d]? with
    | some pa, some dd => idx.all (fun i => decide (i < pa.n)) &&
        (cloneNames pa ps).all (fun nm => pa.hasProp nm && dd.hasProp nm)
    | _, _ => true
  | .extract s idx _ ps =>
    match st[s]? with
    | some pa => idx.all (fun i => decide (i < pa.n)) && (cloneNames pa ps).all pa.hasProp
    | none => true
  | .emptyClone s ps =>
    match st[s]? with
    | some pa => (cloneNames pa ps).all pa.hasProp
    | none => true
  | .ensure _ src ps =>
    match st[src]? with
    | some sp => (ensureNames sp ps).all sp.hasProp
    | none => true
  | .addProperty s name _ _ data stride =>
    -- data for a non-empty array: one row per particle, an existing property with its own stride
    match st[s]?, data with
    | some pa, some d =>
      d.length == 0 || pa.n == 0 ||
        (if pa.hasProp name then stride == pa.strideOf name else d.length == pa.n * stride)
    | _, _ => true
  | .pickle s =>
    -- un-pickling raises when a constant and a property share a name (`clashOps`)
    match st[s]? with
    | some pa => pa.pickle.isSome
    | none => true
  | _ => true

/-- **Headline (refinement).** Every valid operation on a pool of coherent
arrays refines the record-list model: the record-list view of the new pool is,
slot by slot, `specOp` of the view of the old pool — the same default records
and the same records up to a permutation. -/
theorem refines_record_list (st : State) (op : Op) (hinv : ∀ pa ∈ st, Inv pa)
    (hv : validOp st op = true) (hg : goodOp st op = true) :
    poolEquiv (absState (applyOp st op)) (specOp (absState st) op) := by
  unfold applyOp
  rw [if_neg (by simp [hv])]
  have some_of : ∀ s : Nat, (st[s]?).isSome = true → ∃ pa, st[s]? = some pa :=
    fun s h => Option.isSome_iff_exists.mp h
  cases op with
  | addParticles s al given =>
    cases hs : st[s]? with
    | none => simp [validOp, hs] at hv
    | some pa =>
      simp only [hs]
      have hi := hinv pa (mem_of_getElem?_some hs)
      have hvv := validOp_addParticles hv hs
      have hln : ∀ g ∈ given, g.1 ∈ pa.props.map Col.name := by
        intro g hg
        cases hl : given.getLast? with
        | none =>
          have : given = [] := by simpa using hl
          subst this; simp at hg
        | some lst =>
          obtain ⟨ln, ld⟩ := lst
          simp only [validOp, hs, hl, Bool.and_eq_true, List.all_eq_true] at hv
          exact (hasProp_iff pa g.1).mp (hv.1 g hg).1
      exact refines_setAt hs _ _ (addParticles_isSome pa al given hln)
        (fun pa' hr => addParticles_refines hi al given hvv hln hr)
  | removeParticles s idx al =>
    obtain ⟨pa, hs⟩ := some_of s (by simpa [validOp] using hv)
    have hi := hinv pa (mem_of_getElem?_some hs)
    simp only [goodOp, hs, Bool.and_eq_true, decide_eq_true_eq, List.all_eq_true] at hg
    simp only [hs]
    exact refines_setAt hs _ _ (removeParticles_isSome pa idx al hg.1 hg.2)
      (fun pa' hr => removeParticles_refines hi idx al hg.1 hg.2 hr)
  | removeTagged s t al =>
    obtain ⟨pa, hs⟩ := some_of s (by simpa [validOp] using hv)
    have hi := hinv pa (mem_of_getElem?_some hs)
    simp only [hs]
    exact refines_setAt hs _ _ (removeTagged_isSome hi t al)
      (fun pa' hr => removeTagged_refines hi t al hr)
  | extend s k =>
    obtain ⟨pa, hs⟩ := some_of s (by simpa [validOp] using hv)
    have hi := hinv pa (mem_of_getElem?_some hs)
    simp only [hs]
    exact refines_set hs _ (RA.equiv_of_eq (extend_refines hi k))
  | resize s m =>
    obtain ⟨pa, hs⟩ := some_of s (by simpa [validOp] using hv)
    have hi := hinv pa (mem_of_getElem?_some hs)
    simp only [hs]
    exact refines_set hs _ (RA.equiv_of_eq (resize_refines hi m))
  | align s =>
    obtain ⟨pa, hs⟩ := some_of s (by simpa [validOp] using hv)
    have hi := hinv pa (mem_of_getElem?_some hs)
    simp only [hs]
    exact refines_set hs _ (RA.equiv_trans (absPA_align hi) (RA.equiv_trans (RA.equiv_refl _)
      ⟨(specAlign_equiv _).1.symm, (specAlign_equiv _).2.symm⟩))
  | setTag s t idx =>
    obtain ⟨pa, hs⟩ := some_of s (by simpa [validOp] using hv)
    have hi := hinv pa (mem_of_getElem?_some hs)
    simp only [hs]
    exact refines_set hs _ (RA.equiv_of_eq (setTag_refines hi t idx))
  | addProperty s nm ct df da sd =>
    cases hs : st[s]? with
    | none => simp [validOp, hs] at hv
    | some pa =>
      have hi := hinv pa (mem_of_getElem?_some hs)
      simp only [hs]
      simp only [validOp, hs, Bool.and_eq_true, decide_eq_true_eq] at hv
      obtain ⟨⟨⟨h1, h2⟩, _⟩, h4⟩ := hv
      have hpres : nm ∈ pa.props.map Col.name → sd = 1 ∨ sd = pa.strideOf nm := by
        intro hm
        have hp := (hasProp_iff pa nm).mpr hm
        simpa [hp] using h2
      have nodata : poolEquiv (absState (setAt st s (pa.addProperty nm ct df none sd)))
          (modifySlot (absState st) s (specAddProperty nm df none sd)) := by
        obtain ⟨pa', hr, habs⟩ := addProperty_nodata_refines (ctype := ct) (dflt := df) hi h1 hpres
        rw [hr]
        exact refines_set hs _ (RA.equiv_of_eq habs)
      cases da with
      | none => exact nodata
      | some d =>
        by_cases hd : d.length = 0
        · have : d = [] := List.length_eq_zero_iff.mp hd
          subst this
          rw [addProperty_some_nil]
          exact nodata
        · simp only [goodOp, hs, hd, beq_iff_eq, false_or, Bool.or_eq_true] at hg
          simp only [hd, beq_iff_eq, Bool.and_eq_true, Bool.or_eq_true, or_false,
            Bool.not_eq_eq_eq_not, Bool.not_true] at h4
          obtain ⟨⟨h4a, h4b⟩, h4c⟩ := h4
          have hpres' : nm ∈ pa.props.map Col.name → sd = pa.strideOf nm := by
            intro hm
            have hp := (hasProp_iff pa nm).mpr hm
            by_cases hn0 : pa.n = 0
            · simpa [hn0, hp] using h4c
            · simpa [hn0, hp] using hg
          have hdiv : d.length % sd = 0 := by
            by_cases hp : pa.hasProp nm = true
            · rw [hpres' ((hasProp_iff pa nm).mp hp)]; simpa [hp] using h4a
            · simpa [hp] using h4a
          have hlen : pa.n ≠ 0 → d.length = pa.n * sd := by
            intro hn0
            by_cases hp : pa.hasProp nm = true
            · rw [hpres' ((hasProp_iff pa nm).mp hp)]
              simpa [hn0, hp] using h4b
            · simpa [hn0, hp] using hg
          obtain ⟨pa', hr, habs⟩ := addProperty_data_refines (ctype := ct) (dflt := df) hi h1 hd
            hpres' hdiv hlen
          rw [hr]
          exact refines_set hs _ (RA.equiv_of_eq habs)
  | removeProperty s nm =>
    have hn := validOp_removeProperty hv
    obtain ⟨pa, hs⟩ := some_of s (by
      simp only [validOp, Bool.and_eq_true] at hv; exact hv.1)
    have hi := hinv pa (mem_of_getElem?_some hs)
    simp only [hs]
    exact refines_set hs _ (RA.equiv_of_eq (removeProperty_refines hi nm hn))
  | addConstant s nm d =>
    obtain ⟨pa, hs⟩ := some_of s (by simpa [validOp] using hv)
    simp only [hs]
    exact refines_setAt_same hs _ (fun pa' hr => addConstant_abs hr)
  | setProp s nm d =>
    obtain ⟨pa, hs⟩ := some_of s (by simpa [validOp] using hv)
    have hi := hinv pa (mem_of_getElem?_some hs)
    simp only [hs]
    cases hcol : pa.col? nm with
    | some c =>
      obtain ⟨e1, e2⟩ := setProp_refines hi nm d c hcol
      exact refines_setAt_opt hs _ _ (fun pa' hr => RA.equiv_of_eq (e1 pa' hr)) e2
    | none =>
      have hnp : pa.hasProp nm = false := (hasProp_false_iff pa nm).mpr (col?_none pa nm hcol)
      exact refines_setAt_opt hs _ _
        (fun pa' hr => RA.equiv_of_eq ((setProp_const_abs hnp hr).trans
          (specSetProp_not_prop pa nm d hnp).symm))
        (fun _ => specSetProp_not_prop pa nm d hnp)
  | setOutputs s ps =>
    obtain ⟨pa, hs⟩ := some_of s (by simpa [validOp] using hv)
    simp only [hs]
    exact refines_setAt_same hs _ (fun pa' hr => setOutputs_abs hr)
  | addOutputs s ps =>
    obtain ⟨pa, hs⟩ := some_of s (by simpa [validOp] using hv)
    simp only [hs]
    exact refines_setAt_same hs _ (fun pa' hr => addOutputs_abs hr)
  | emptyClone s ps =>
    obtain ⟨pa, hs⟩ := some_of s (by simpa [validOp] using hv)
    have hi := hinv pa (mem_of_getElem?_some hs)
    simp only [goodOp, hs, List.all_eq_true] at hg
    obtain ⟨d, hd, _, _, habs, _⟩ := emptyClone_spec hi ps
      (fun nm hnm => (hasProp_iff pa nm).mp (hg nm hnm))
    simp only [hs]
    rw [hd]
    show poolEquiv (absState (st ++ [d])) (match (absState st)[s]? with
      | some a => absState st ++ [specEmptyClone ps a]
      | none => absState st)
    rw [absState_getElem?, hs]
    simp only [Option.map_some]
    unfold absState
    rw [List.map_append]
    exact poolEquiv_push (poolEquiv_refl _) _ _ (RA.equiv_of_eq habs)
  | extract s idx al ps =>
    obtain ⟨pa, hs⟩ := some_of s (by simpa [validOp] using hv)
    have hi := hinv pa (mem_of_getElem?_some hs)
    simp only [goodOp, hs, Bool.and_eq_true, decide_eq_true_eq, List.all_eq_true] at hg
    obtain ⟨pa', hr, heq⟩ := extract_refines hi idx al ps
      (fun nm hnm => (hasProp_iff pa nm).mp (hg.2 nm hnm)) hg.1
    simp only [hs]
    rw [hr]
    show poolEquiv (absState (st ++ [pa'])) (match (absState st)[s]? with
      | some a => absState st ++ [specExtractInto (specNames ps a) idx a (specEmptyClone ps a)]
      | none => absState st)
    rw [absState_getElem?, hs]
    simp only [Option.map_some]
    rw [cloneNames_abs]
    unfold absState
    rw [List.map_append]
    exact poolEquiv_push (poolEquiv_refl _) _ _ heq
  | extractInto s d idx al ps =>
    cases hs : st[s]? with
    | none => simp [validOp, hs] at hv
    | some pa =>
      cases hd : st[d]? with
      | none => simp [validOp, hs, hd] at hv
      | some dd =>
        have hi := hinv pa (mem_of_getElem?_some hs)
        have hid := hinv dd (mem_of_getElem?_some hd)
        have hss := validOp_extractInto hv hs hd
        simp only [goodOp, hs, hd, Bool.and_eq_true, decide_eq_true_eq, List.all_eq_true] at hg
        simp only [hs, hd]
        obtain ⟨pa', hr⟩ := extractInto_isSome pa dd idx al ps (Or.inr hg.2)
        rw [hr]
        have := extractInto_refines hi hid idx al ps hss hg.1 hr
        show poolEquiv (absState (st.set d pa')) _
        show poolEquiv _ (match (absState st)[s]?, (absState st)[d]? with
          | some a, some b => (absState st).set d (specExtractInto (specNames ps a) idx a b)
          | _, _ => absState st)
        rw [absState_getElem?, absState_getElem?, hs, hd]
        simp only [Option.map_some]
        unfold absState
        rw [List.map_set]
        refine poolEquiv_set (poolEquiv_refl _) d _ _ ?_
        have hn : specNames ps (absPA pa) = cloneNames pa ps := by
          unfold specNames cloneNames
          cases ps with
          | none => exact defaultParticle_keys' pa
          | some l => rfl
        rw [hn]
        exact this
  | append s src al up =>
    cases hs : st[s]? with
    | none => simp [validOp, hs] at hv
    | some pa =>
      cases hd : st[src]? with
      | none => simp [validOp, hs, hd] at hv
      | some sp =>
        have hi := hinv pa (mem_of_getElem?_some hs)
        have hisp := hinv sp (mem_of_getElem?_some hd)
        simp only [validOp, hs, hd, Bool.and_eq_true] at hv
        have hss := (sameStrides_iff pa sp _).mp hv.1.2
        obtain ⟨pa', hr, heq⟩ := append_refines hi hisp al up hss
        simp only [hs, hd]
        rw [hr]
        show poolEquiv (absState (st.set s pa')) (match (absState st)[s]?, (absState st)[src]? with
          | some a, some b => (absState st).set s (specAppend a b)
          | _, _ => absState st)
        rw [absState_getElem?, absState_getElem?, hs, hd]
        simp only [Option.map_some]
        unfold absState
        rw [List.map_set]
        exact poolEquiv_set (poolEquiv_refl _) s _ _ heq
  | ensure s src ps =>
    simp only [validOp, Bool.and_eq_true] at hv
    obtain ⟨pa, hs⟩ := some_of s hv.1
    obtain ⟨sp, hd⟩ := some_of src hv.2
    have hi := hinv pa (mem_of_getElem?_some hs)
    have hisp := hinv sp (mem_of_getElem?_some hd)
    simp only [goodOp, hd, List.all_eq_true] at hg
    obtain ⟨pa', hr, heq⟩ := ensure_refines hi hisp ps
      (fun nm hnm => (hasProp_iff sp nm).mp (hg nm hnm))
    simp only [hs, hd]
    rw [hr]
    show poolEquiv (absState (st.set s pa')) (match (absState st)[s]?, (absState st)[src]? with
      | some a, some b => (absState st).set s (specEnsure ps a b)
      | _, _ => absState st)
    rw [absState_getElem?, absState_getElem?, hs, hd]
    simp only [Option.map_some]
    unfold absState
    rw [List.map_set]
    exact poolEquiv_set (poolEquiv_refl _) s _ _ (RA.equiv_of_eq heq)
  | pickle s =>
    obtain ⟨pa, hs⟩ := some_of s (by simpa [validOp] using hv)
    have hi := hinv pa (mem_of_getElem?_some hs)
    simp only [hs]
    show poolEquiv _ (match (absState st)[s]? with
      | some a => absState st ++ [a]
      | none => absState st)
    rw [absState_getElem?, hs]
    simp only [Option.map_some]
    cases hp : pa.pickle with
    | none => simp [goodOp, hs, hp] at hg
    | some pa' =>
      exact refines_push (some pa') _ ⟨pa', rfl⟩
        (fun q hq => by cases hq; exact RA.equiv_of_eq (pickle_abs hi hp))
  | new nm =>
    show poolEquiv (absState (st ++ [PA.empty nm])) (absState st ++ [⟨baseDflt, []⟩])
    unfold absState
    rw [List.map_append]
    exact poolEquiv_push (poolEquiv_refl _) _ _ (RA.equiv_of_eq (new_abs nm))

/-- **along every history**: at every step of every history from the empty pool,
the real operation refines the record-list model applied to the view of the
state it starts from (coherence of that state is `inv_reachable`) -/
theorem refines_record_list_run (ops : List Op) (op : Op)
    (hv : validOp (run ops) op = true) (hg : goodOp (run ops) op = true) :
    poolEquiv (absState (run (ops ++ [op]))) (specOp (absState (run ops)) op) := by
  have : run (ops ++ [op]) = applyOp (run ops) op := by
    unfold run; rw [List.foldl_append]; rfl
  rw [this]
  exact refines_record_list _ _ (inv_run ops) hv hg

/-! ### non-vacuity for H: the demo array, record-list model against the real operation -/

/-- removing slots 2 and 0 then aligning is valid and good; the model deletes
records 0 and 2 in place, the real array holds the same two records -/
example : validOp (run (demoOps.take 5)) (.removeParticles 0 [2, 0] true) = true ∧
    goodOp (run (demoOps.take 5)) (.removeParticles 0 [2, 0] true) = true := by decide
example : (specOp (absState (run (demoOps.take 5))) (.removeParticles 0 [2, 0] true)).map RA.recs =
    [[[("tag", [0]), ("pid", [0]), ("gid", [4294967295]), ("x", [13]), ("v", [10, 11, 12])],
      [("tag", [2]), ("pid", [0]), ("gid", [4294967295]), ("x", [10]), ("v", [1, 2, 3])]]] := by
  decide
example : (absState (run (demoOps.take 5 ++ [.removeParticles 0 [2, 0] true]))).map RA.recs =
    [[[("tag", [0]), ("pid", [0]), ("gid", [4294967295]), ("x", [13]), ("v", [10, 11, 12])],
      [("tag", [2]), ("pid", [0]), ("gid", [4294967295]), ("x", [10]), ("v", [1, 2, 3])]]] := by
  decide
/-- the model's `add_particles` on the view of the demo array -/
example : ((specOp (absState (run (demoOps.take 5)))
      (.addParticles 0 false [("tag", [1, 0]), ("v", [21, 22, 23, 24, 25, 26])])).map
      (fun a => a.recs.drop 4)) =
    [[[("tag", [1]), ("pid", [0]), ("gid", [4294967295]), ("x", [0]), ("v", [21, 22, 23])],
      [("tag", [0]), ("pid", [0]), ("gid", [4294967295]), ("x", [0]), ("v", [24, 25, 26])]]] := by
  decide

/-- the model's `append_parray`, `extract_particles` and `add_property` with data
on the view of the demo pool, next to the view of what the real operations leave -/
def demoOps2 : List Op :=
  demoOps.take 5 ++ [.new "b", .addProperty 1 "q" "double" (some 3) none 1,
    .addParticles 1 true [("q", [8, 9])]]

example : (demoOps2.foldl (fun (p : State × Bool) op => (applyOp p.1 op, p.2 && validOp p.1 op))
    ([], true)).2 = true := by decide
example : validOp (run demoOps2) (.append 0 1 false false) = true ∧
    goodOp (run demoOps2) (.append 0 1 false false) = true ∧
    absState (applyOp (run demoOps2) (.append 0 1 false false)) =
      specOp (absState (run demoOps2)) (.append 0 1 false false) := by decide
example : ((specOp (absState (run demoOps2)) (.append 0 1 false false))[0]?).map
      (fun a => (a.dflt, a.recs.drop 3)) =
    some ([("tag", [0]), ("pid", [0]), ("gid", [4294967295]), ("x", [0]), ("v", [7, 7, 7]), ("q", [3])],
      [[("tag", [2]), ("pid", [0]), ("gid", [4294967295]), ("x", [10]), ("v", [1, 2, 3]), ("q", [3])],
       [("tag", [0]), ("pid", [0]), ("gid", [4294967295]), ("x", [0]), ("v", [7, 7, 7]), ("q", [8])],
       [("tag", [0]), ("pid", [0]), ("gid", [4294967295]), ("x", [0]), ("v", [7, 7, 7]), ("q", [9])]]) := by
  decide
example : validOp (run demoOps2) (.extract 0 [3, 1] false (some ["v", "tag"])) = true ∧
    goodOp (run demoOps2) (.extract 0 [3, 1] false (some ["v", "tag"])) = true ∧
    absState (applyOp (run demoOps2) (.extract 0 [3, 1] false (some ["v", "tag"]))) =
      specOp (absState (run demoOps2)) (.extract 0 [3, 1] false (some ["v", "tag"])) := by decide
example : validOp (run demoOps2) (.addProperty 0 "v" "double" none
      (some [1, 1, 1, 2, 2, 2, 3, 3, 3, 4, 4, 4]) 3) = true ∧
    goodOp (run demoOps2) (.addProperty 0 "v" "double" none
      (some [1, 1, 1, 2, 2, 2, 3, 3, 3, 4, 4, 4]) 3) = true ∧
    absState (applyOp (run demoOps2) (.addProperty 0 "v" "double" none
      (some [1, 1, 1, 2, 2, 2, 3, 3, 3, 4, 4, 4]) 3)) =
      specOp (absState (run demoOps2)) (.addProperty 0 "v" "double" none
        (some [1, 1, 1, 2, 2, 2, 3, 3, 3, 4, 4, 4]) 3) := by decide

end PysphVerif.C06
