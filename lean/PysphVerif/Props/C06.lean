import PysphVerif.Model.PArray
namespace PysphVerif.C06
theorem placeholder : True := trivial
end PysphVerif.C06
