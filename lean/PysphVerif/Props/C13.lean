import PysphVerif.Lemmas.GaussJordanDet
import PysphVerif.Lemmas.LinalgHelpers
/-!
# C13 — the small dense linear-algebra helpers solve what they are given

Property theorems only (helper lemmas live in `Lemmas/GaussJordan.lean`).  They are
about `Model/GaussJordan.lean`, which transcribes `pysph/sph/wc/linalg.py` on flat
row-major arrays and is tied to the code (Python and transpiled) by bit-exact
differential execution.  `gjSolve` is the REPAIRED `gj_solve` (partial pivoting with a real
row exchange, proposed_fixes/C13-gj-pivot.diff); `gjSolveOrig` is the pinned code.

All statements hold for every size `n`, every number `nb` of right-hand sides, every
flat array that is large enough, over every linearly ordered field `K`, with the literal
`1e-12` an arbitrary `tol > 0`.  `get2 nt m i j` is `m[nt*i + j]`.

The eigen-decomposition of `linalg3.pyx` is monitored by test (harness), not proved.
-/
set_option linter.unusedSectionVars false
namespace PysphVerif.C13
open PysphVerif.GaussJordan

variable {K : Type} [Field K] [LinearOrder K] [IsStrictOrderedRing K]

/-! ## soundness of `gj_solve` -/

/-- `gj_solve` returned 0 ⇒ the returned columns solve the system that was passed in:
`A · x_c = b_c` for every right-hand side `c`, exactly (over a field) — provided the last
pivot of the triangular form is non-zero (the code does not test it against `tol`; when it
is exactly zero and the right-hand side is below `tol`, the code silently skips the row and
still returns 0, so this hypothesis cannot be dropped; `gj_sound` below discharges it from
`det A ≠ 0`). -/
theorem gj_sound_lastpivot {n nb : Nat} (tol : K) (htol : 0 < tol) (m res : Array K)
    (hsz : n*(n+nb) ≤ m.size) (hres : n*nb ≤ res.size)
    (hret : (gjSolve tol m n nb res).singular = false)
    (hlast : LastPivotNonzero tol m n nb) :
    ∀ c, c < nb → ∀ i, i < n →
      ∑ j ∈ Finset.range n,
        get2 (n+nb) m i j * rd (gjSolve tol m n nb res).result (nb*j + c) =
      get2 (n+nb) m i (n + c) :=
  gjSolve_sound_core tol htol m res hsz hres hret hlast

/-- the silent skip is real: a singular 1×1 system with a right-hand side below `tol`
returns 0 with a "solution" that does not solve it (so `gj_sound_lastpivot` needs its hypothesis) -/
example : (gjSolve (1/1000 : ℚ) #[0, 1/2000] 1 1 #[7]).singular = false ∧
    (0 : ℚ) * rd (gjSolve (1/1000 : ℚ) #[0, 1/2000] 1 1 #[7]).result 0 ≠ 1/2000 := by
  decide +kernel

/-- **`gj_sound`.**  For every `n`, `nb`: if the coefficient block `A` of the augmented
matrix has `det A ≠ 0` (Mathlib's determinant) and `gj_solve` returns 0, then the returned
columns satisfy `A · x_c = b_c` exactly, for every right-hand side `c`. -/
theorem gj_sound {n nb : Nat} (tol : K) (htol : 0 < tol) (m res : Array K)
    (hsz : n*(n+nb) ≤ m.size) (hres : n*nb ≤ res.size)
    (hdet : (toMat n (get2 (n+nb) m)).det ≠ 0)
    (hret : (gjSolve tol m n nb res).singular = false) :
    ∀ c, c < nb → ∀ i, i < n →
      ∑ j ∈ Finset.range n,
        get2 (n+nb) m i j * rd (gjSolve tol m n nb res).result (nb*j + c) =
      get2 (n+nb) m i (n + c) :=
  gjSolve_sound_core tol htol m res hsz hres hret (lastPivotNonzero_of_det tol htol m hsz hdet)

/-- the same in Mathlib's matrix language: `A *ᵥ x_c = b_c` -/
theorem gj_sound_mulVec {n nb : Nat} (tol : K) (htol : 0 < tol) (m res : Array K)
    (hsz : n*(n+nb) ≤ m.size) (hres : n*nb ≤ res.size)
    (hdet : (toMat n (get2 (n+nb) m)).det ≠ 0)
    (hret : (gjSolve tol m n nb res).singular = false) (c : Nat) (hc : c < nb) :
    Matrix.mulVec (toMat n (get2 (n+nb) m))
      (fun j : Fin n => rd (gjSolve tol m n nb res).result (nb*j + c)) =
    fun i : Fin n => get2 (n+nb) m i (n + c) := by
  funext i
  have h := gj_sound tol htol m res hsz hres hdet hret c hc i i.2
  rw [← h]
  simp only [Matrix.mulVec, dotProduct, toMat]
  exact (Finset.sum_range (fun j => get2 (n+nb) m i j *
    rd (gjSolve tol m n nb res).result (nb*j + c))).symm

/-! ## completeness: when does `gj_solve` report a singular matrix -/

/-- `gj_solve` returns non-zero only if, after row operations that preserve the solution
set, a column of the reduced matrix has every candidate pivot (diagonal and below) smaller
than `tol` in absolute value, or the triangular form has an exactly zero last pivot. -/
theorem gj_nonzero_only_if_tiny_or_zero_pivot {n nb : Nat} (tol : K) (htol : 0 < tol)
    (m res : Array K) (hsz : n*(n+nb) ≤ m.size)
    (hret : (gjSolve tol m n nb res).singular = true) :
    TinyColumn n (n+nb) tol m ∨
    ∃ m1, forward tol n nb m = some m1 ∧ FwdInv n (n+nb) tol m m1 n ∧ 0 < n ∧
      get2 (n+nb) m1 (n-1) (n-1) = 0 :=
  gjSolve_singular_cases tol htol m res hsz hret

/-- **`gj_nonzero_only_if_singular_or_tiny`.**  `gj_solve` returns non-zero only if
`det A = 0`, or a column of the row-reduced matrix has every candidate pivot below `tol`. -/
theorem gj_nonzero_only_if_singular_or_tiny {n nb : Nat} (tol : K) (htol : 0 < tol)
    (m res : Array K) (hsz : n*(n+nb) ≤ m.size)
    (hret : (gjSolve tol m n nb res).singular = true) :
    (toMat n (get2 (n+nb) m)).det = 0 ∨ TinyColumn n (n+nb) tol m := by
  rcases gjSolve_singular_cases tol htol m res hsz hret with h | ⟨m1, hf, _, hn, h0⟩
  · exact Or.inr h
  · left
    by_contra hdet
    exact forward_pivots_ne_zero tol htol m m1 hsz hf hdet (n-1) (by omega) h0

/-- **`gj_complete`.**  A system with `det A ≠ 0` in which no column of the reduced matrix
is entirely below `tol` is solved: `gj_solve` returns 0 (and by `gj_sound` the result is
the solution). -/
theorem gj_complete {n nb : Nat} (tol : K) (htol : 0 < tol) (m res : Array K)
    (hsz : n*(n+nb) ≤ m.size) (hdet : (toMat n (get2 (n+nb) m)).det ≠ 0)
    (htiny : ¬ TinyColumn n (n+nb) tol m) :
    (gjSolve tol m n nb res).singular = false := by
  cases h : (gjSolve tol m n nb res).singular with
  | false => rfl
  | true =>
    rcases gj_nonzero_only_if_singular_or_tiny tol htol m res hsz h with h1 | h1
    · exact absurd h1 hdet
    · exact absurd h1 htiny

/-- partial pivoting: the entry brought to the pivot position is the largest (in absolute
value) of its column among the rows not yet used -/
theorem gj_pivot_is_column_max {n nt : Nat} (m : Array K) (k : Nat) (hsz : n*nt ≤ m.size)
    (hk : k < n) (hn : n ≤ nt) (i : Nat) (hi1 : k ≤ i) (hi2 : i < n) :
    |get2 nt m i k| ≤ |get2 nt (swapRows nt nt k (pivotRow m nt n k) m) k k| :=
  pivot_is_column_max m k hsz hk hn i hi1 hi2

/-- the forward phase reduces the system to upper-triangular form by elementary row
operations (so the solution set is kept), every pivot except possibly the last being at
least `tol` in absolute value -/
theorem gj_forward_triangular {n nb : Nat} (tol : K) (htol : 0 < tol) (m m1 : Array K)
    (hsz : n*(n+nb) ≤ m.size) (hf : forward tol n nb m = some m1) :
    RowOps n (n+nb) (get2 (n+nb) m) (get2 (n+nb) m1) ∧
    (∀ i j, i < n → j < i → get2 (n+nb) m1 i j = 0) ∧
    (∀ k, k + 1 < n → tol ≤ |get2 (n+nb) m1 k k|) := by
  have h := forward_spec tol htol m hsz
  rw [hf] at h
  exact ⟨h.ops, fun i j hi hji => h.lz i j hi (by omega) hji,
    fun k hk => not_lt.mp (h.piv k (by omega) hk)⟩

/-- elementary row operations keep solutions: whatever solves the reduced system solves
the original one (`row_ops_preserve_solutions`) -/
theorem row_ops_preserve_solutions {n nt : Nat} (hn : n ≤ nt) {M M' : Nat → Nat → K}
    (h : RowOps n nt M M') (x : Nat → K) (c : Nat) (hc : c < nt) (hx : Sol n M' x c) :
    Sol n M x c :=
  h.sol hn x c hc hx

/-! ## the helpers agree with their mathematical definitions -/

/-- row-major indexing `n*i + j` is injective for `j < n` (`flat_index`) -/
theorem flat_index_injective {nt i j i' j' : Nat} (hj : j < nt) (hj' : j' < nt)
    (h : nt*i + j = nt*i' + j') : i = i' ∧ j = j' :=
  flat_inj hj hj' h

/-- `identity(a, n)` writes Mathlib's identity matrix into the first `n×n` cells -/
theorem identity_eq_one (a : Array K) (n : Nat) (hsz : n*n ≤ a.size) :
    sqMat n (identity a n) = 1 ∧ (identity a n).size = a.size :=
  ⟨identity_eq_one' a n hsz, (identity_spec a n hsz).1⟩

/-- `mat_mult(a, b, n, result)` is Mathlib's matrix product -/
theorem mat_mult_eq_mul (a b r : Array K) (n : Nat) (hsz : n*n ≤ r.size) :
    sqMat n (matMult a b n r) = sqMat n a * sqMat n b :=
  matMult_eq_mul' a b r n hsz

/-- `mat_vec_mult(a, b, n, result)` is Mathlib's matrix-vector product -/
theorem mat_vec_mult_eq_mulVec (a b r : Array K) (n : Nat) (hsz : n ≤ r.size) :
    vecOf n (matVecMult a b n r) = Matrix.mulVec (sqMat n a) (vecOf n b) :=
  matVecMult_eq_mulVec' a b r n hsz

/-- `dot(a, b, n)` is Mathlib's dot product of the first `n` entries -/
theorem dot_eq_dotProduct (a b : Array K) (n : Nat) :
    dot a b n = dotProduct (vecOf n a) (vecOf n b) :=
  dot_eq_dotProduct' a b n

/-- `augmented_matrix(A, b, n, na, nmax, result)` lays out `[A[:n,:n] | b[:n,:na]]` with row
length `n+na` (reading `A` with row length `nmax`, `b` with row length `na`) and leaves
every other cell of `result` alone -/
theorem augmented_is_block_row (A b r : Array K) (n na nmax : Nat) (hsz : n*(n+na) ≤ r.size) :
    (augmentedMatrix A b n na nmax r).size = r.size ∧
    ∀ i j, j < n + na → get2 (n+na) (augmentedMatrix A b n na nmax r) i j =
      if i < n then (if j < n then get2 nmax A i j else get2 na b i (j - n))
      else get2 (n+na) r i j :=
  augmentedMatrix_spec A b r n na nmax hsz

/-- helpers, non-vacuity: a 2×2 product and an augmented matrix taken from a 3×3 array -/
example : matMult (#[1, 2, 3, 4] : Array ℚ) #[0, 1, 1, 0] 2 #[9, 9, 9, 9] = #[2, 1, 4, 3] ∧
    augmentedMatrix (#[1, 2, 3, 4, 5, 6, 7, 8, 9] : Array ℚ) #[10, 20] 2 1 3
      #[0, 0, 0, 0, 0, 0, 0] = #[1, 2, 10, 4, 5, 20, 0] := by
  decide +kernel

/-! ## F5: the pinned code never exchanges rows -/

/-- for every input, the "pivoting" pre-pass of the pinned `gj_solve` leaves the matrix
unchanged: the pinned algorithm is plain elimination without row exchanges -/
theorem orig_prepass_is_identity (n nt : Nat) (m : Array K) : prepass n nt m = m :=
  prepass_eq n nt m

/-- counterexample for the pinned code: the permutation matrix `[[0,1],[1,0]]` is
non-singular, the pinned algorithm reports it singular, the repaired one solves it -/
theorem orig_counterexample :
    (gjSolveOrig (1/1000000000000 : ℚ) #[0, 1, 1, 1, 0, 2] 2 1 #[0, 0]).singular = true ∧
    (gjSolve (1/1000000000000 : ℚ) #[0, 1, 1, 1, 0, 2] 2 1 #[0, 0]).singular = false ∧
    (gjSolve (1/1000000000000 : ℚ) #[0, 1, 1, 1, 0, 2] 2 1 #[0, 0]).result = #[2, 1] := by
  decide +kernel

/-! ## non-vacuity -/

/-- a 3×3 system with a zero leading pivot and two right-hand sides: the hypotheses of
`gj_sound_lastpivot` are met (returns 0) and the result is the exact solution -/
example :
    let m : Array ℚ := #[0, 2, 1, 1, 0,  1, 1, 0, 0, 1,  3, 0, 1, 2, 2]
    (gjSolve (1/1000000000000 : ℚ) m 3 2 #[0, 0, 0, 0, 0, 0]).singular = false ∧
    (forward (1/1000000000000 : ℚ) 3 2 m).isSome = true ∧
    (gjSolve (1/1000000000000 : ℚ) m 3 2 #[0, 0, 0, 0, 0, 0]).result
      = #[1/5, 4/5, -1/5, 1/5, 7/5, -2/5] := by
  decide +kernel

/-- a singular system is reported (`gj_nonzero_only_if_tiny_or_zero_pivot` is not vacuous) -/
example : (gjSolve (1/1000000000000 : ℚ) #[1, 1, 0, 1,  1, 1, 0, 1,  1, 1, 1, 1] 3 1
    #[0, 0, 0]).singular = true := by
  decide +kernel

end PysphVerif.C13
