import PysphVerif.Lemmas.GaussJordanDet
import PysphVerif.Lemmas.LinalgHelpers
import PysphVerif.Lemmas.Eigen3Examples
import Mathlib.LinearAlgebra.Matrix.NonsingularInverse
/-!
# C13 — the small dense linear-algebra helpers solve what they are given

Property theorems only (helper lemmas live in `Lemmas/GaussJordan.lean`).  They are
about `Model/GaussJordan.lean`, which transcribes `pysph/sph/wc/linalg.py` on flat
row-major arrays and is tied to the code (Python and transpiled) by bit-exact
differential execution.  `gjSolve` is the REPAIRED `gj_solve` (partial pivoting with a real
row exchange, proposed_fixes/C13-gj-pivot.diff); `gjSolveOrig` is the pinned code.

All statements hold for every size `n`, every number `nb` of right-hand sides, every
flat array that is large enough, over every linearly ordered field `K`, with the literal
`1e-12` an arbitrary `tol > 0`.  `get2 nt m i j` is `m[nt*i + j]`.

The second half of the file is about `Model/Eigen3.lean`, which transcribes
`eigen_decomposition` (scaling, `tred2`, `tql2`, the sort, `zero_matrix_case`) and the
arithmetic part of `get_eigenvalvec` of `pysph/base/linalg3.pyx` and is tied to the compiled
code bit for bit at `Float`.  Those theorems hold over every linearly ordered field with
`sqrt` abstract (`SqrtOK`: `0 ≤ sqrt x`, `sqrt x * sqrt x = x` for `x ≥ 0`; satisfied by
`Real.sqrt`) and `hypot2` abstract (`HypOK`; satisfied by the pinned and by the repaired
body), for every symmetric input, every branch combination and every number of QL sweeps.
What they do NOT say: that the QL iteration stops (`EigReturnsStatement`), and anything
about rounding.
-/
set_option linter.unusedSectionVars false
namespace PysphVerif.C13
open PysphVerif.GaussJordan

variable {K : Type} [Field K] [LinearOrder K] [IsStrictOrderedRing K]

/-! ## soundness of `gj_solve` -/

/-- `gj_solve` returned 0 ⇒ the returned columns solve the system that was passed in:
`A · x_c = b_c` for every right-hand side `c`, exactly (over a field) — provided the last
pivot of the triangular form is non-zero (the code does not test it against `tol`; when it
is exactly zero and the right-hand side is below `tol`, the code silently skips the row and
still returns 0, so this hypothesis cannot be dropped; `gj_sound` below discharges it from
`det A ≠ 0`). -/
theorem gj_sound_lastpivot {n nb : Nat} (tol : K) (htol : 0 < tol) (m res : Array K)
    (hsz : n*(n+nb) ≤ m.size) (hres : n*nb ≤ res.size)
    (hret : (gjSolve tol m n nb res).singular = false)
    (hlast : LastPivotNonzero tol m n nb) :
    ∀ c, c < nb → ∀ i, i < n →
      ∑ j ∈ Finset.range n,
        get2 (n+nb) m i j * rd (gjSolve tol m n nb res).result (nb*j + c) =
      get2 (n+nb) m i (n + c) :=
  gjSolve_sound_core tol htol m res hsz hres hret hlast

/-- the silent skip is real: a singular 1×1 system with a right-hand side below `tol`
returns 0 with a "solution" that does not solve it (so `gj_sound_lastpivot` needs its hypothesis) -/
example : (gjSolve (1/1000 : ℚ) #[0, 1/2000] 1 1 #[7]).singular = false ∧
    (0 : ℚ) * rd (gjSolve (1/1000 : ℚ) #[0, 1/2000] 1 1 #[7]).result 0 ≠ 1/2000 := by
  decide +kernel

/-- **`gj_sound`.**  For every `n`, `nb`: if the coefficient block `A` of the augmented
matrix has `det A ≠ 0` (Mathlib's determinant) and `gj_solve` returns 0, then the returned
columns satisfy `A · x_c = b_c` exactly, for every right-hand side `c`. -/
theorem gj_sound {n nb : Nat} (tol : K) (htol : 0 < tol) (m res : Array K)
    (hsz : n*(n+nb) ≤ m.size) (hres : n*nb ≤ res.size)
    (hdet : (toMat n (get2 (n+nb) m)).det ≠ 0)
    (hret : (gjSolve tol m n nb res).singular = false) :
    ∀ c, c < nb → ∀ i, i < n →
      ∑ j ∈ Finset.range n,
        get2 (n+nb) m i j * rd (gjSolve tol m n nb res).result (nb*j + c) =
      get2 (n+nb) m i (n + c) :=
  gjSolve_sound_core tol htol m res hsz hres hret (lastPivotNonzero_of_det tol htol m hsz hdet)

/-- the same in Mathlib's matrix language: `A *ᵥ x_c = b_c` -/
theorem gj_sound_mulVec {n nb : Nat} (tol : K) (htol : 0 < tol) (m res : Array K)
    (hsz : n*(n+nb) ≤ m.size) (hres : n*nb ≤ res.size)
    (hdet : (toMat n (get2 (n+nb) m)).det ≠ 0)
    (hret : (gjSolve tol m n nb res).singular = false) (c : Nat) (hc : c < nb) :
    Matrix.mulVec (toMat n (get2 (n+nb) m))
      (fun j : Fin n => rd (gjSolve tol m n nb res).result (nb*j + c)) =
    fun i : Fin n => get2 (n+nb) m i (n + c) := by
  funext i
  have h := gj_sound tol htol m res hsz hres hdet hret c hc i i.2
  rw [← h]
  simp only [Matrix.mulVec, dotProduct, toMat]
  exact (Finset.sum_range (fun j => get2 (n+nb) m i j *
    rd (gjSolve tol m n nb res).result (nb*j + c))).symm

/-! ## completeness: when does `gj_solve` report a singular matrix -/

/-- `gj_solve` returns non-zero only if, after row operations that preserve the solution
set, a column of the reduced matrix has every candidate pivot (diagonal and below) smaller
than `tol` in absolute value, or the triangular form has an exactly zero last pivot. -/
theorem gj_nonzero_only_if_tiny_or_zero_pivot {n nb : Nat} (tol : K) (htol : 0 < tol)
    (m res : Array K) (hsz : n*(n+nb) ≤ m.size)
    (hret : (gjSolve tol m n nb res).singular = true) :
    TinyColumn n (n+nb) tol m ∨
    ∃ m1, forward tol n nb m = some m1 ∧ FwdInv n (n+nb) tol m m1 n ∧ 0 < n ∧
      get2 (n+nb) m1 (n-1) (n-1) = 0 :=
  gjSolve_singular_cases tol htol m res hsz hret

/-- **`gj_nonzero_only_if_singular_or_tiny`.**  `gj_solve` returns non-zero only if
`det A = 0`, or a column of the row-reduced matrix has every candidate pivot below `tol`. -/
theorem gj_nonzero_only_if_singular_or_tiny {n nb : Nat} (tol : K) (htol : 0 < tol)
    (m res : Array K) (hsz : n*(n+nb) ≤ m.size)
    (hret : (gjSolve tol m n nb res).singular = true) :
    (toMat n (get2 (n+nb) m)).det = 0 ∨ TinyColumn n (n+nb) tol m := by
  rcases gjSolve_singular_cases tol htol m res hsz hret with h | ⟨m1, hf, _, hn, h0⟩
  · exact Or.inr h
  · left
    by_contra hdet
    exact forward_pivots_ne_zero tol htol m m1 hsz hf hdet (n-1) (by omega) h0

/-- **`gj_complete`.**  A system with `det A ≠ 0` in which no column of the reduced matrix
is entirely below `tol` is solved: `gj_solve` returns 0 (and by `gj_sound` the result is
the solution). -/
theorem gj_complete {n nb : Nat} (tol : K) (htol : 0 < tol) (m res : Array K)
    (hsz : n*(n+nb) ≤ m.size) (hdet : (toMat n (get2 (n+nb) m)).det ≠ 0)
    (htiny : ¬ TinyColumn n (n+nb) tol m) :
    (gjSolve tol m n nb res).singular = false := by
  cases h : (gjSolve tol m n nb res).singular with
  | false => rfl
  | true =>
    rcases gj_nonzero_only_if_singular_or_tiny tol htol m res hsz h with h1 | h1
    · exact absurd h1 hdet
    · exact absurd h1 htiny

/-- partial pivoting: the entry brought to the pivot position is the largest (in absolute
value) of its column among the rows not yet used -/
theorem gj_pivot_is_column_max {n nt : Nat} (m : Array K) (k : Nat) (hsz : n*nt ≤ m.size)
    (hk : k < n) (hn : n ≤ nt) (i : Nat) (hi1 : k ≤ i) (hi2 : i < n) :
    |get2 nt m i k| ≤ |get2 nt (swapRows nt nt k (pivotRow m nt n k) m) k k| :=
  pivot_is_column_max m k hsz hk hn i hi1 hi2

/-- the forward phase reduces the system to upper-triangular form by elementary row
operations (so the solution set is kept), every pivot except possibly the last being at
least `tol` in absolute value -/
theorem gj_forward_triangular {n nb : Nat} (tol : K) (htol : 0 < tol) (m m1 : Array K)
    (hsz : n*(n+nb) ≤ m.size) (hf : forward tol n nb m = some m1) :
    RowOps n (n+nb) (get2 (n+nb) m) (get2 (n+nb) m1) ∧
    (∀ i j, i < n → j < i → get2 (n+nb) m1 i j = 0) ∧
    (∀ k, k + 1 < n → tol ≤ |get2 (n+nb) m1 k k|) := by
  have h := forward_spec tol htol m hsz
  rw [hf] at h
  exact ⟨h.ops, fun i j hi hji => h.lz i j hi (by omega) hji,
    fun k hk => not_lt.mp (h.piv k (by omega) hk)⟩

/-- elementary row operations keep solutions: whatever solves the reduced system solves
the original one (`row_ops_preserve_solutions`) -/
theorem row_ops_preserve_solutions {n nt : Nat} (hn : n ≤ nt) {M M' : Nat → Nat → K}
    (h : RowOps n nt M M') (x : Nat → K) (c : Nat) (hc : c < nt) (hx : Sol n M' x c) :
    Sol n M x c :=
  h.sol hn x c hc hx

/-! ## the helpers agree with their mathematical definitions -/

/-- row-major indexing `n*i + j` is injective for `j < n` (`flat_index`) -/
theorem flat_index_injective {nt i j i' j' : Nat} (hj : j < nt) (hj' : j' < nt)
    (h : nt*i + j = nt*i' + j') : i = i' ∧ j = j' :=
  flat_inj hj hj' h

/-- `identity(a, n)` writes Mathlib's identity matrix into the first `n×n` cells -/
theorem identity_eq_one (a : Array K) (n : Nat) (hsz : n*n ≤ a.size) :
    sqMat n (identity a n) = 1 ∧ (identity a n).size = a.size :=
  ⟨identity_eq_one' a n hsz, (identity_spec a n hsz).1⟩

/-- `mat_mult(a, b, n, result)` is Mathlib's matrix product -/
theorem mat_mult_eq_mul (a b r : Array K) (n : Nat) (hsz : n*n ≤ r.size) :
    sqMat n (matMult a b n r) = sqMat n a * sqMat n b :=
  matMult_eq_mul' a b r n hsz

/-- `mat_vec_mult(a, b, n, result)` is Mathlib's matrix-vector product -/
theorem mat_vec_mult_eq_mulVec (a b r : Array K) (n : Nat) (hsz : n ≤ r.size) :
    vecOf n (matVecMult a b n r) = Matrix.mulVec (sqMat n a) (vecOf n b) :=
  matVecMult_eq_mulVec' a b r n hsz

/-- `dot(a, b, n)` is Mathlib's dot product of the first `n` entries -/
theorem dot_eq_dotProduct (a b : Array K) (n : Nat) :
    dot a b n = dotProduct (vecOf n a) (vecOf n b) :=
  dot_eq_dotProduct' a b n

/-- `augmented_matrix(A, b, n, na, nmax, result)` lays out `[A[:n,:n] | b[:n,:na]]` with row
length `n+na` (reading `A` with row length `nmax`, `b` with row length `na`) and leaves
every other cell of `result` alone -/
theorem augmented_is_block_row (A b r : Array K) (n na nmax : Nat) (hsz : n*(n+na) ≤ r.size) :
    (augmentedMatrix A b n na nmax r).size = r.size ∧
    ∀ i j, j < n + na → get2 (n+na) (augmentedMatrix A b n na nmax r) i j =
      if i < n then (if j < n then get2 nmax A i j else get2 na b i (j - n))
      else get2 (n+na) r i j :=
  augmentedMatrix_spec A b r n na nmax hsz

/-- helpers, non-vacuity: a 2×2 product and an augmented matrix taken from a 3×3 array -/
example : matMult (#[1, 2, 3, 4] : Array ℚ) #[0, 1, 1, 0] 2 #[9, 9, 9, 9] = #[2, 1, 4, 3] ∧
    augmentedMatrix (#[1, 2, 3, 4, 5, 6, 7, 8, 9] : Array ℚ) #[10, 20] 2 1 3
      #[0, 0, 0, 0, 0, 0, 0] = #[1, 2, 10, 4, 5, 20, 0] := by
  decide +kernel

/-! ## F5: the pinned code never exchanges rows -/

/-- for every input, the "pivoting" pre-pass of the pinned `gj_solve` leaves the matrix
unchanged: the pinned algorithm is plain elimination without row exchanges -/
theorem orig_prepass_is_identity (n nt : Nat) (m : Array K) : prepass n nt m = m :=
  prepass_eq n nt m

/-- counterexample for the pinned code: the permutation matrix `[[0,1],[1,0]]` is
non-singular, the pinned algorithm reports it singular, the repaired one solves it -/
theorem orig_counterexample :
    (gjSolveOrig (1/1000000000000 : ℚ) #[0, 1, 1, 1, 0, 2] 2 1 #[0, 0]).singular = true ∧
    (gjSolve (1/1000000000000 : ℚ) #[0, 1, 1, 1, 0, 2] 2 1 #[0, 0]).singular = false ∧
    (gjSolve (1/1000000000000 : ℚ) #[0, 1, 1, 1, 0, 2] 2 1 #[0, 0]).result = #[2, 1] := by
  decide +kernel

/-! ## non-vacuity -/

/-- a 3×3 system with a zero leading pivot and two right-hand sides: the hypotheses of
`gj_sound_lastpivot` are met (returns 0) and the result is the exact solution -/
example :
    let m : Array ℚ := #[0, 2, 1, 1, 0,  1, 1, 0, 0, 1,  3, 0, 1, 2, 2]
    (gjSolve (1/1000000000000 : ℚ) m 3 2 #[0, 0, 0, 0, 0, 0]).singular = false ∧
    (forward (1/1000000000000 : ℚ) 3 2 m).isSome = true ∧
    (gjSolve (1/1000000000000 : ℚ) m 3 2 #[0, 0, 0, 0, 0, 0]).result
      = #[1/5, 4/5, -1/5, 1/5, 7/5, -2/5] := by
  decide +kernel

/-- a singular system is reported (`gj_nonzero_only_if_tiny_or_zero_pivot` is not vacuous) -/
example : (gjSolve (1/1000000000000 : ℚ) #[1, 1, 0, 1,  1, 1, 0, 1,  1, 1, 1, 1] 3 1
    #[0, 0, 0]).singular = true := by
  decide +kernel

/-! # the 3×3 symmetric eigen-decomposition (`linalg3.pyx`) -/

section Eigen
open PysphVerif.Eigen3 Matrix

/-- the hypotheses on `sqrt` and `hypot2` used below are satisfiable: `Real.sqrt`, and both
bodies of `hypot2` (pinned `sqrt(x*x+y*y)`, repaired overflow-safe one) built on it -/
theorem eig_hyps_satisfiable :
    SqrtOK Real.sqrt ∧ HypOK (hypotNaive Real.sqrt) ∧ HypOK (hypotSafe abs Real.sqrt) :=
  ⟨sqrtOK_real, hypOK_naive sqrtOK_real, hypOK_safe sqrtOK_real⟩

/-- both bodies of `hypot2` have the two properties, for any `sqrt` that has its two -/
theorem eig_hypot_ok {sqrt : K → K} (hs : SqrtOK sqrt) :
    HypOK (hypotNaive sqrt) ∧ HypOK (hypotSafe abs sqrt) :=
  ⟨hypOK_naive hs, hypOK_safe hs⟩

/-! ## (a) the fast paths -/

/-- **diagonal fast path of `get_eigenvalvec`**: a symmetric matrix with zero off-diagonal
entries returns `R = I`, `e = diag A` without iterating, and that is an exact orthonormal
eigen-decomposition -/
theorem eig_diag_fast_path (sqrt : K → K) (hyp : K → K → K) (eps big : K) (fuel : Nat)
    (A : Mat K) (ev : Vec K) (hsym : A.Symm) (h01 : A 0 1 = 0) (h02 : A 0 2 = 0)
    (h12 : A 1 2 = 0) :
    (∃ o, getEigenvalvec abs sqrt hyp eps big fuel A ev = .diag o ∧ o.V = idMat ∧
        o.d = Vec.ofFn (fun i => A i i)) ∧
    Orthonormal (idMat : Mat K) ∧ IsEigDecomp A idMat (Vec.ofFn fun i => A i i) := by
  obtain ⟨s1, s2, s3⟩ := hsym
  refine ⟨⟨⟨idMat, Vec.ofFn (fun i => A i i), [500], []⟩, ?_, rfl, rfl⟩, orthonormal_idMat,
    isEigDecomp_diag A h01 h02 h12 (s1 ▸ h01) (s2 ▸ h02) (s3 ▸ h12)⟩
  unfold getEigenvalvec
  simp [h01, h02, h12]

/-- when the fast path is not taken, `get_eigenvalvec` is `eigen_decomposition` exactly when
`use_iter` (computed from the eigenvalue triple of the trigonometric `get_eigenvalues`, an
input here) says so -/
theorem eig_get_eigenvalvec_dispatch (sqrt : K → K) (hyp : K → K → K) (eps big : K) (fuel : Nat)
    (A : Mat K) (ev : Vec K) (h : ¬ (A 0 1 = A 0 2 ∧ A 0 2 = A 1 2 ∧ A 1 2 = 0)) :
    getEigenvalvec abs sqrt hyp eps big fuel A ev =
      if useIter big A ev then .iter (eigenDecomposition abs sqrt hyp eps fuel A)
      else .closedForm ev := by
  unfold getEigenvalvec
  have : ((A 0 1 == A 0 2) && (A 0 2 == A 1 2) && (A 1 2 == 0)) = false := by
    simp only [Bool.and_eq_false_iff, beq_eq_false_iff_ne, ne_eq]
    by_contra hc
    simp only [not_or, not_not] at hc
    exact h ⟨hc.1.1, hc.1.2, hc.2⟩
  rw [this]
  simp

/-- **`zero_matrix_case`** is taken exactly for the zero matrix (`s = Σ|aᵢⱼ| = 0`), and then
`V = I`, `d = 0` is an exact decomposition -/
theorem eig_zero_matrix_case (sqrt : K → K) (hyp : K → K → K) (eps : K) (fuel : Nat) (A : Mat K) :
    (absSum A = 0 ↔ A = ⟨0, 0, 0, 0, 0, 0, 0, 0, 0⟩) ∧
    (absSum A = 0 → eigenDecomposition abs sqrt hyp eps fuel A = .ok zeroMatrixCase ∧
      Orthonormal (zeroMatrixCase : Out K).V ∧
      IsEigDecomp A (zeroMatrixCase : Out K).V (zeroMatrixCase : Out K).d) := by
  refine ⟨absSum_eq_zero_iff A, fun h => ⟨eigenDecomposition_zero sqrt hyp eps fuel A h,
    orthonormal_idMat, ?_⟩⟩
  rw [(absSum_eq_zero_iff A).mp h]
  exact isEigDecomp_zero

/-! ## (b) the sort -/

/-- **the sort at the end of `tql2`** applies ONE permutation `σ` to the eigenvalues and to
the columns of `V`, and leaves `d` ascending -/
theorem eig_sort_permutes_and_sorts (t : TQ K) : ∃ σ : Equiv.Perm (Fin 3),
    (∀ j, (sortEig t).d.toF j = t.d.toF (σ j)) ∧
    (∀ i j, (sortEig t).V.toM i j = t.V.toM i (σ j)) ∧
    (sortEig t).d 0 ≤ (sortEig t).d 1 ∧ (sortEig t).d 1 ≤ (sortEig t).d 2 := by
  obtain ⟨σ, hp, h1, h2⟩ := sortEig_spec t
  exact ⟨σ, hp.1, hp.2, h1, h2⟩

/-- hence the sort preserves `A V = V diag(d)`, orthonormality and `V diag(d) Vᵀ` -/
theorem eig_sort_preserves (A : Mat K) (t : TQ K) :
    (IsEigDecomp A t.V t.d → IsEigDecomp A (sortEig t).V (sortEig t).d) ∧
    (Orthonormal t.V → Orthonormal (sortEig t).V) ∧
    (sortEig t).V.toM * Matrix.diagonal (sortEig t).d.toF * (sortEig t).V.toMᵀ =
      t.V.toM * Matrix.diagonal t.d.toF * t.V.toMᵀ := by
  obtain ⟨σ, hp, _, _⟩ := sortEig_spec t
  exact ⟨hp.isEigDecomp, hp.orthonormal, recon_permuted hp⟩

/-! ## (c) plane rotations and orthonormality -/

/-- **every plane rotation `tql2` applies** —
`V[k][i+1] = s V[k][i] + c h; V[k][i] = c V[k][i] - s h` with `c = p/r`, `s = e/r`,
`r = hypot2(p, e)`, `(p, e) ≠ (0, 0)` — keeps the columns of `V` orthonormal -/
theorem tql2_rotation_preserves_orthonormal {hyp : K → K → K} (hh : HypOK hyp) (p e : K)
    (hpe : p ≠ 0 ∨ e ≠ 0) (i : Nat) (hi : i < 2) (V : Mat K) (hV : Orthonormal V) :
    Orthonormal ((List.range 3).foldl (qlRotV (p / hyp p e) (e / hyp p e) i) V) := by
  have g := giv_of hh p e hpe
  have ho := rotM_orth (p / hyp p e) (e / hyp p e) g.f3 i
  have : i = 0 ∨ i = 1 := by omega
  rcases this with rfl | rfl
  · exact orthonormal_mul_rot V _ _ ho.1 (rotV_toM0 _ _ V) hV
  · exact orthonormal_mul_rot V _ _ ho.1 (rotV_toM1 _ _ V) hV

/-- **`tql2` preserves `VᵀV = I` for every number of iterations** (any `fuel`, any `d`, `e`):
the rotations are never degenerate because the sub-diagonal entries inside the active block
are non-zero (they failed `fabs(e[i]) <= eps*tst1`, and stay non-zero from sweep to sweep) -/
theorem tql2_preserves_orthonormal {hyp : K → K → K} (hh : HypOK hyp) (eps : K) (heps : 0 ≤ eps)
    (fuel : Nat) (s : St K) (t : TQ K) (hV : Orthonormal s.V)
    (h : tql2 abs hyp eps fuel s = .ok t) : Orthonormal t.V :=
  (tql2_spec hyp hh eps heps fuel s t hV (mul_eq_one_comm.mp hV) h).1

/-! ## (d) `tred2` -/

/-- **`tred2`**: for symmetric input the returned `V` is orthogonal and `V T Vᵀ = A`
(equivalently `Vᵀ A V = T`) with `T` the symmetric tridiagonal matrix with diagonal `d` and
sub-diagonal `e[1], e[2]` — in all four branch combinations (`scale == 0` or Householder at
`i = 2` and at `i = 1`); the side conditions the code relies on (`scale ≠ 0 ⇒ h > 0`,
`g = -sign(f) sqrt(h)`) are proved inside -/
theorem tred2_orthogonal_tridiagonal {sqrt : K → K} (hs : SqrtOK sqrt) (s : St K)
    (hsym : s.V.Symm) :
    Orthonormal (tred2 abs sqrt s).V ∧
    (tred2 abs sqrt s).V.toM * (tred2 abs sqrt s).V.toMᵀ = 1 ∧
    s.V.toM = (tred2 abs sqrt s).V.toM * Ttri (tred2 abs sqrt s).d (tred2 abs sqrt s).e *
      (tred2 abs sqrt s).V.toMᵀ :=
  tred2_spec hs s hsym

/-! ## (e) `tql2` as an orthogonal similarity -/

/-- **one pass of `while cont`** for any block `l < m < 3` whose inner sub-diagonal entries are
non-zero: there is an orthogonal `G` with `V' = V G` and `G T' Gᵀ = T - (e[m] dropped)`, where
`T`, `T'` are the tridiagonal matrices of `(d + f shift, e)` before and after the sweep — the
implicit-shift formulas (`d[l] = e[l]/(p+r)`, …, `p = -s*s2*c3*el1*e[l]/dl1`) are exact -/
theorem tql2_sweep_is_similarity {hyp : K → K → K} (hh : HypOK hyp) (l m : Nat) (hlm : l < m)
    (hm : m < 3) (t : TQ K) (hne : ∀ i, l ≤ i → i < m → t.e i ≠ 0)
    (hlow : ∀ i, i < l → t.e i = 0) :
    ∃ G : Matrix (Fin 3) (Fin 3) K, Gᵀ * G = 1 ∧ G * Gᵀ = 1 ∧
      (qlSweep hyp l m t).V.toM = t.V.toM * G ∧
      G * Tm l (qlSweep hyp l m t).d (qlSweep hyp l m t).e (qlSweep hyp l m t).f * Gᵀ =
        Tm l t.d t.e t.f - offM m (t.e m) :=
  (qlSweep_spec hyp hh l m hlm hm t hne hlow).sim

/-- **`tql2`, partial correctness with the dropped entries made explicit.**  Whatever the
number of sweeps, if `tql2` returns then
`V₀ T₀ V₀ᵀ = V diag(d) Vᵀ + Σₖ Wₖ offM(jₖ, xₖ) Wₖᵀ`, the sum running over the sub-diagonal
entries `xₖ` (position `(jₖ, jₖ+1)`, `Wₖ` = `V` at that moment, orthogonal) that the code
replaced by `0.0` because `fabs(xₖ) <= eps*tst1` (`TQ.drops`) -/
theorem tql2_decomposition {hyp : K → K → K} (hh : HypOK hyp) (eps : K) (heps : 0 ≤ eps)
    (fuel : Nat) (s : St K) (t : TQ K) (hV : Orthonormal s.V)
    (h : tql2 abs hyp eps fuel s = .ok t) :
    s.V.toM * Ttri s.d s.e * s.V.toMᵀ =
      t.V.toM * Matrix.diagonal t.d.toF * t.V.toMᵀ + dropSum t.drops ∧
    t.d 0 ≤ t.d 1 ∧ t.d 1 ≤ t.d 2 :=
  (tql2_spec hyp hh eps heps fuel s t hV (mul_eq_one_comm.mp hV) h).2

/-- **`eigen_decomposition`, partial correctness.**  For every symmetric `A` of any
magnitude, every number of sweeps: if it returns `(V, d)` then `V` is orthonormal, `d` is
ascending and `A = V diag(d) Vᵀ + (Σ|aᵢⱼ|) · Σₖ Wₖ offM(jₖ, xₖ) Wₖᵀ` -/
theorem eig_decomposition {sqrt : K → K} {hyp : K → K → K} (hs : SqrtOK sqrt) (hh : HypOK hyp)
    (eps : K) (heps : 0 ≤ eps) (fuel : Nat) (A : Mat K) (hsym : A.Symm) (o : Out K)
    (h : eigenDecomposition abs sqrt hyp eps fuel A = .ok o) :
    Orthonormal o.V ∧
    A.toM = o.V.toM * Matrix.diagonal o.d.toF * o.V.toMᵀ + absSum A • dropSum o.drops ∧
    o.d 0 ≤ o.d 1 ∧ o.d 1 ≤ o.d 2 :=
  eigenDecomposition_spec hs hh eps heps fuel A hsym o h

/-- **exact when nothing non-zero was dropped**: then `A V = V diag(d)` with `VᵀV = I` -/
theorem eig_decomposition_exact {sqrt : K → K} {hyp : K → K → K} (hs : SqrtOK sqrt)
    (hh : HypOK hyp) (eps : K) (heps : 0 ≤ eps) (fuel : Nat) (A : Mat K) (hsym : A.Symm)
    (o : Out K) (h : eigenDecomposition abs sqrt hyp eps fuel A = .ok o)
    (hdrop : ∀ x ∈ o.drops, x.1 = 0) :
    Orthonormal o.V ∧ IsEigDecomp A o.V o.d := by
  obtain ⟨h1, h2, _, _⟩ := eigenDecomposition_spec hs hh eps heps fuel A hsym o h
  rw [dropSum_eq_zero o.drops hdrop, smul_zero, add_zero] at h2
  exact ⟨h1, isEigDecomp_of_recon A o.V o.d h1 h2⟩

/-- what is NOT proved: that the QL iteration stops.  (For `eps > 0` it does, by the
convergence theory of the shifted QL algorithm; the model reports exhaustion of `fuel`
as `Err.noConv`, the harness has never seen it: ≤ 7 sweeps in 10⁵ matrices.) -/
def EigReturnsStatement : Prop :=
  ∀ (eps : ℝ), 0 < eps → ∀ A : Mat ℝ, A.Symm → ∃ fuel o,
    eigenDecomposition abs Real.sqrt (hypotSafe abs Real.sqrt) eps fuel A = .ok o

/-! ## (f) the scaling pre-pass -/

/-- **any magnitude**: for `c > 0`, `eigen_decomposition(c·A)` normalises to exactly the same
matrix `A/Σ|aᵢⱼ|` as `eigen_decomposition(A)`: it takes the same path, returns the same `V`
(and the same error, if any) and `c·d`.  (Not so for `c < 0`: `-A` is another matrix.  At
`Float` the statement is exact for `c = 2^k` without over/underflow — replayed on the
compiled code by the harness — and up to rounding otherwise: `s` is not a power of two.) -/
theorem eig_scaling (sqrt : K → K) (hyp : K → K → K) (eps : K) (fuel : Nat) (c : K) (hc : 0 < c)
    (A : Mat K) :
    eigenDecomposition abs sqrt hyp eps fuel (Mat.smul c A) =
      match eigenDecomposition abs sqrt hyp eps fuel A with
      | .error err => .error err
      | .ok o => .ok { o with d := Vec.smul c o.d } :=
  eigenDecomposition_smul sqrt hyp eps fuel c hc A

/-! ## non-vacuity (exact runs of the model over `ℚ`; `qsqrt` is exact on `p²/q²`) -/

/-- (a) a diagonal matrix meets the hypotheses of `eig_diag_fast_path` -/
example : (⟨2, 0, 0, 0, -1, 0, 0, 0, 5⟩ : Mat ℚ).Symm ∧
    (⟨2, 0, 0, 0, -1, 0, 0, 0, 5⟩ : Mat ℚ) 0 1 = 0 :=
  ⟨⟨rfl, rfl, rfl⟩, rfl⟩

/-- (b) an unsorted triple is sorted, columns move with it -/
example :
    let t : TQ ℚ := ⟨⟨1, 2, 3, 4, 5, 6, 7, 8, 9⟩, ⟨3, 1, 2⟩, ⟨0, 0, 0⟩, 0, 0, [], []⟩
    (sortEig t).d.toList = [1, 2, 3] ∧ (sortEig t).V.toList = [2, 3, 1, 5, 6, 4, 8, 9, 7] := by
  decide +kernel

/-- (c) a 3-4-5 rotation: `Giv` holds, the rotated identity is still orthonormal -/
example : Giv (3/5 : ℚ) (4/5) 5 3 4 ∧
    Orthonormal ((List.range 3).foldl (qlRotV (3/5 : ℚ) (4/5) 0) idMat) := by
  refine ⟨⟨by norm_num, by norm_num, by norm_num, by norm_num, by norm_num, by norm_num⟩, ?_⟩
  refine orthonormal_mul_rot idMat _ _ (rotM_orth (3/5 : ℚ) (4/5) (by norm_num) 0).1
    (rotV_toM0 _ _ _) orthonormal_idMat

/-- (d) `tred2` on a full symmetric matrix whose last row `(3, 4, 5)` has a rational norm:
Householder at `i = 2` and at `i = 1`; `VᵀV = I` and `V T Vᵀ = A` hold exactly -/
example : tred2Check ⟨2, 1, 3, 1, -1, 4, 3, 4, 5⟩ [-1/25, 26/25, 5] [0, 43/25, -5]
    [121, 111, 201, 211] = true := by
  decide +kernel

/-- (e) the whole routine on a matrix with a Householder step, one QL sweep on the block
`(1,2)` and a sort swap: returns, nothing non-zero dropped, `A V = V diag d` and `VᵀV = I`
exactly, `d = (15, 60, 140)` -/
example : eigCheck 3 ⟨60, 0, 36, 0, 60, 48, 36, 48, 95⟩
    [-12/25, 4/5, 9/25, -16/25, -3/5, 12/25, 3/5, 0, 4/5] [15, 60, 140] = true := by
  decide +kernel

/-- (e) plane-strain shape (coupled leading 2×2 block): `scale == 0` at `i = 2`, one sweep
on the block `(0,1)`, two sort swaps -/
example : eigCheck 3 ⟨17, -12, 0, -12, 10, 0, 0, 0, 3⟩
    [-3/5, 0, 4/5, -4/5, 0, -3/5, 0, 1, 0] [1, 3, 26] = true := by
  decide +kernel

/-- (f) scaling by `c = 7/2`: same `V`, `d` times `c` -/
example : eigCheck 3 (Mat.smul (7/2) ⟨17, -12, 0, -12, 10, 0, 0, 0, 3⟩)
    [-3/5, 0, 4/5, -4/5, 0, -3/5, 0, 1, 0] [7/2, 21/2, 91] = true := by
  decide +kernel

/-- the shift identity and the closing formula of the sweep on concrete numbers:
`d = (0, 7/12 …)` — hypotheses of `shift_identity` are satisfiable -/
example : ∃ w : ℚ, w ≠ 0 ∧ (35 : ℚ) - (0 - (-60) / w) = -60 * w :=
  (shift_identity (0 : ℚ) 35 (-60) (-7/24) (-25/24) (-4/3) (by norm_num) (by norm_num)
    (by norm_num) (by norm_num)) |> fun h => ⟨-4/3, h.1, h.2⟩

end Eigen

end PysphVerif.C13
