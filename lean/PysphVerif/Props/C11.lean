import PysphVerif.Lemmas.DumpLoadV1
/-!
# C11 — saved output loads back to the same particles and solver data

Property theorems only (helper lemmas live in `Lemmas/DumpLoad.lean`,
`Lemmas/DumpLoadNpz.lean`, `Lemmas/DumpLoadMany.lean`, `Lemmas/DumpLoadV1.lean`).  They
are about `Model/DumpLoad.lean`, which transcribes the two writers, the three
readers and the `ParticleArray` construction they drive, and is tied to the
code by executing `load(dump(...))` on real files.

The theorems hold for every well-formed source array (`WF`: coherent, aligned,
`tag/pid/gid` as `clear()` makes them — any further property names, C types,
strides, defaults, any constants, any output list naming properties, any number
of particles including none), every option combination (`detailed`,
`only_real`, `compress`) and every value type.  The file is an abstract nested
dictionary: the encodings of numpy/pickle/h5py are not modelled (partial).
-/
set_option linter.unusedSectionVars false
namespace PysphVerif.C11
open PysphVerif.DumpLoad

variable {V S : Type} [PVal V] [DecidableEq V]

/-! ## the core of every reader -/

/-- Serving the `add_property` requests derived from a dump **in any order**
(hdf5 iterates by name, npz in dictionary order) on a freshly cleared array
succeeds, and every source property comes back with its C type, stride and
default — whether or not it was written — and with exactly the stored slice
(`num × stride` leading entries: real particles only under `only_real`) as data
when it was written; no other property appears. -/
theorem readers_rebuild_in_any_order (pa : PArr V) (hwf : WF pa) (o : Opts)
    (arrs : List (String × List V))
    (hdump : getPropertyArrays pa o.detailed o.onlyReal = some arrs)
    (rs : List (AddReq V)) (hperm : rs.Perm (pa.props.map (reqOf arrs))) (name : String) :
    ∃ q, addAll (emptyArr name) rs = .ok q ∧
      (∀ p ∈ pa.props, ∃ p' ∈ q.props, p'.name = p.name ∧ p'.ctype = p.ctype ∧
        p'.stride = p.stride ∧ p'.default = p.default ∧
        (p.name ∈ storedNames pa o.detailed →
          p'.data = p.data.take (numParticles pa o.onlyReal * p.stride))) ∧
      (∀ p' ∈ q.props, ∃ p ∈ pa.props, p.name = p'.name) := by
  obtain ⟨arrs', hg, harrs⟩ := gpa_spec pa o.detailed o.onlyReal (storedNames_sub pa hwf _)
  rw [hdump] at hg
  cases hg
  obtain ⟨q, _, h1, _, _, _, _, hm, hn⟩ :=
    rebuild pa hwf o.detailed o.onlyReal arrs harrs rs hperm (emptyArr name) (sinv_clear _)
  exact ⟨q, h1, hm, hn⟩

/-! ## hdf5 -/

/-- `load(dump([pa]))` through an hdf5 file succeeds for every well-formed
array and every option combination, and delivers a `RoundTrip`. -/
theorem hdf5_roundtrip (pa : PArr V) (hwf : WF pa) (o : Opts) (sd : List (String × S)) :
    ∃ f q, dump .hdf5 o [pa] sd = some f ∧
      load f = .ok (sortByName sd, [(pa.name, q)]) ∧ RoundTrip o pa q := by
  obtain ⟨arrs, q, hg, hl, hrt⟩ := loadH5_spec pa hwf o
  refine ⟨File.hdf5 sd [(pa.name, h5ArrOf pa arrs)], q, ?_, ?_, hrt⟩
  · simp [dump, dumpHdf5, allArrayData, arrayDataStep, hg, particlesInfo, infoStep, dictSet,
      h5Entry, dictGet?, arrayInfo, h5ArrOf]
  · simp [load, sortByName, insertByName, collectStep, hl, dictSet, Except.map, bind, Except.bind,
      pure, Except.pure]

/-- name, and per property the same C type, stride and default; the same
property set; the same constants; the same output-array list (hdf5) -/
theorem roundtrip_meta_hdf5 (pa : PArr V) (hwf : WF pa) (o : Opts) (sd : List (String × S)) :
    ∃ f sd' q, dump .hdf5 o [pa] sd = some f ∧ load f = .ok (sd', [(pa.name, q)]) ∧
      q.name = pa.name ∧ q.outArrs = pa.outArrs ∧ q.consts.Perm pa.consts ∧
      (∀ p ∈ pa.props, ∃ p' ∈ q.props, p'.name = p.name ∧ p'.ctype = p.ctype ∧
        p'.stride = p.stride ∧ p'.default = p.default) ∧
      (∀ p' ∈ q.props, ∃ p ∈ pa.props, p.name = p'.name) ∧ (q.props.map (·.name)).Nodup := by
  obtain ⟨f, q, hd, hl, hrt⟩ := hdf5_roundtrip pa hwf o sd
  refine ⟨f, _, q, hd, hl, hrt.name, hrt.outArrs, hrt.consts, ?_, hrt.noExtra, hrt.nodup⟩
  intro p hp
  obtain ⟨p', hp', h1, h2, h3, h4, _⟩ := hrt.same p hp
  exact ⟨p', hp', h1, h2, h3, h4⟩

/-- every stored property has the same values for the same particles: all
particles, or the `nReal` real ones when `only_real` is set (hdf5) -/
theorem roundtrip_values_hdf5 (pa : PArr V) (hwf : WF pa) (o : Opts) (sd : List (String × S)) :
    ∃ f sd' q, dump .hdf5 o [pa] sd = some f ∧ load f = .ok (sd', [(pa.name, q)]) ∧
      ∀ p ∈ pa.props, p.name ∈ storedNames pa o.detailed →
        ∃ p' ∈ q.props, p'.name = p.name ∧
          p'.data = p.data.take ((if o.onlyReal then pa.nReal else numParticles pa false) * p.stride) := by
  obtain ⟨f, q, hd, hl, hrt⟩ := hdf5_roundtrip pa hwf o sd
  refine ⟨f, _, q, hd, hl, ?_⟩
  intro p hp hst
  obtain ⟨p', hp', h1, _, _, _, h5⟩ := hrt.same p hp
  refine ⟨p', hp', h1, ?_⟩
  rw [h5 hst]
  rfl

/-- an array without (stored) particles loads back as an array without particles (hdf5) -/
theorem empty_array_roundtrip_hdf5 (pa : PArr V) (hwf : WF pa) (o : Opts) (sd : List (String × S))
    (hempty : numParticles pa o.onlyReal = 0) :
    ∃ f sd' q, dump .hdf5 o [pa] sd = some f ∧ load f = .ok (sd', [(pa.name, q)]) ∧
      ∀ p' ∈ q.props, p'.data = [] := by
  obtain ⟨f, q, hd, hl, hrt⟩ := hdf5_roundtrip pa hwf o sd
  refine ⟨f, _, q, hd, hl, ?_⟩
  intro p' hp'
  obtain ⟨n, hn, hc⟩ := hrt.coh
  have hn0 : n = 0 := by
    rcases hn with e | e
    · exact e
    · rw [e, hempty]
  have := hc p' hp'
  rw [hn0, Nat.zero_mul] at this
  exact List.length_eq_zero_iff.1 this

/-! ## npz (version 2) -/

/-- `load(dump([pa]))` through an npz file succeeds for every well-formed array
and every option combination, delivers a `RoundTrip` with the constants in
their original order and solver data untouched, and `num_real_particles` of
the loaded array is the number of `Local` tags it holds (the reader aligns). -/
theorem npz_roundtrip (pa : PArr V) (hwf : WF pa) (o : Opts) (sd : List (String × S)) :
    ∃ f q, dump .npz o [pa] sd = some f ∧
      load f = .ok (sd, [(pa.name, q)]) ∧ RoundTrip o pa q ∧ q.consts = pa.consts ∧
      (∀ t ∈ q.props, t.name = "tag" → q.nReal = countLocal t.data) := by
  obtain ⟨arrs, q, hg, hl, hrt, hc, hnr⟩ := loadNpz_spec pa hwf o
  refine ⟨File.npz2 sd [(pa.name, npzArrOf pa arrs)], q, ?_, ?_, hrt, hc, hnr⟩
  · simp [dump, dumpNpz, allArrayData, arrayDataStep, hg, particlesInfo, infoStep, dictSet,
      npzEntry, dictGet?, npzArrOf]
  · simp [load, collectStep, hl, dictSet, Except.map, bind, Except.bind, pure, Except.pure]

/-- name, and per property the same C type, stride and default; the same
property set; the same constants; the same output-array list (npz) -/
theorem roundtrip_meta_npz (pa : PArr V) (hwf : WF pa) (o : Opts) (sd : List (String × S)) :
    ∃ f sd' q, dump .npz o [pa] sd = some f ∧ load f = .ok (sd', [(pa.name, q)]) ∧
      q.name = pa.name ∧ q.outArrs = pa.outArrs ∧ q.consts = pa.consts ∧
      (∀ p ∈ pa.props, ∃ p' ∈ q.props, p'.name = p.name ∧ p'.ctype = p.ctype ∧
        p'.stride = p.stride ∧ p'.default = p.default) ∧
      (∀ p' ∈ q.props, ∃ p ∈ pa.props, p.name = p'.name) ∧ (q.props.map (·.name)).Nodup := by
  obtain ⟨f, q, hd, hl, hrt, hc, _⟩ := npz_roundtrip pa hwf o sd
  refine ⟨f, _, q, hd, hl, hrt.name, hrt.outArrs, hc, ?_, hrt.noExtra, hrt.nodup⟩
  intro p hp
  obtain ⟨p', hp', h1, h2, h3, h4, _⟩ := hrt.same p hp
  exact ⟨p', hp', h1, h2, h3, h4⟩

/-- every stored property has the same values for the same particles: all
particles, or the `nReal` real ones when `only_real` is set (npz) -/
theorem roundtrip_values_npz (pa : PArr V) (hwf : WF pa) (o : Opts) (sd : List (String × S)) :
    ∃ f sd' q, dump .npz o [pa] sd = some f ∧ load f = .ok (sd', [(pa.name, q)]) ∧
      ∀ p ∈ pa.props, p.name ∈ storedNames pa o.detailed →
        ∃ p' ∈ q.props, p'.name = p.name ∧
          p'.data = p.data.take ((if o.onlyReal then pa.nReal else numParticles pa false) * p.stride) := by
  obtain ⟨f, q, hd, hl, hrt, _, _⟩ := npz_roundtrip pa hwf o sd
  refine ⟨f, _, q, hd, hl, ?_⟩
  intro p hp hst
  obtain ⟨p', hp', h1, _, _, _, h5⟩ := hrt.same p hp
  refine ⟨p', hp', h1, ?_⟩
  rw [h5 hst]
  rfl

/-- an array without (stored) particles loads back as an array without particles (npz) -/
theorem empty_array_roundtrip_npz (pa : PArr V) (hwf : WF pa) (o : Opts) (sd : List (String × S))
    (hempty : numParticles pa o.onlyReal = 0) :
    ∃ f sd' q, dump .npz o [pa] sd = some f ∧ load f = .ok (sd', [(pa.name, q)]) ∧
      ∀ p' ∈ q.props, p'.data = [] := by
  obtain ⟨f, q, hd, hl, hrt, _, _⟩ := npz_roundtrip pa hwf o sd
  refine ⟨f, _, q, hd, hl, ?_⟩
  intro p' hp'
  obtain ⟨n, hn, hc⟩ := hrt.coh
  have hn0 : n = 0 := by
    rcases hn with e | e
    · exact e
    · rw [e, hempty]
  have := hc p' hp'
  rw [hn0, Nat.zero_mul] at this
  exact List.length_eq_zero_iff.1 this

/-- compression does not change what is written (the abstract file), hence not what loads -/
theorem compress_irrelevant (fmt : Fmt) (o : Opts) (arrays : List (PArr V)) (sd : List (String × S)) :
    dump fmt { o with compress := true } arrays sd = dump fmt { o with compress := false } arrays sd := by
  cases fmt <;> rfl

/-! ## files holding several arrays -/

/-- `load(dump(arrays))` through an hdf5 file, for ANY list of well-formed arrays
with distinct names: the load succeeds and returns the arrays in NAME order (the
reader walks the h5 group sorted) — the loaded list is, entry by entry, the
name-sorted source list with every array replaced by a `RoundTrip` of it.
Consequently the keys are a permutation of the source names, nothing is lost or
added, and every source array is found under its name. -/
theorem hdf5_roundtrip_many (arrays : List (PArr V)) (hwf : ∀ pa ∈ arrays, WF pa)
    (hnd : (arrays.map (·.name)).Nodup) (o : Opts) (sd : List (String × S)) :
    ∃ f qs, dump .hdf5 o arrays sd = some f ∧ load f = .ok (sortByName sd, qs) ∧
      List.Forall₂ (fun e r => r.1 = e.1 ∧ RoundTrip o e.2 r.2)
        (sortByName (arrays.map (fun pa => (pa.name, pa)))) qs ∧
      (qs.map (·.1)).Perm (arrays.map (·.name)) ∧ qs.length = arrays.length ∧
      (∀ pa ∈ arrays, ∃ q, (pa.name, q) ∈ qs ∧ RoundTrip o pa q) := by
  obtain ⟨hg, qs, hl, hqs⟩ := loadH5_many arrays hwf hnd o sd
  exact ⟨_, qs, dumpHdf5_many o arrays hg hnd sd, hl, hqs,
    sorted_forall2_members arrays (RoundTrip o) qs hqs⟩

/-- `load(dump(arrays))` through an npz file, for ANY list of well-formed arrays
with distinct names: the load succeeds, the solver data is untouched and the
loaded dictionary lists the arrays in DUMP order, each one a `RoundTrip` of its
source with the constants in their original order and `num_real_particles`
equal to the number of `Local` tags. -/
theorem npz_roundtrip_many (arrays : List (PArr V)) (hwf : ∀ pa ∈ arrays, WF pa)
    (hnd : (arrays.map (·.name)).Nodup) (o : Opts) (sd : List (String × S)) :
    ∃ f qs, dump .npz o arrays sd = some f ∧ load f = .ok (sd, qs) ∧
      qs.map (·.1) = arrays.map (·.name) ∧
      List.Forall₂ (fun pa e => e.1 = pa.name ∧ RoundTrip o pa e.2 ∧ e.2.consts = pa.consts ∧
        (∀ t ∈ e.2.props, t.name = "tag" → e.2.nReal = countLocal t.data)) arrays qs := by
  obtain ⟨hg, qs, hl, hqs⟩ := loadNpz_many arrays hwf hnd o sd
  exact ⟨_, qs, dumpNpz_many o arrays hg hnd sd, hl,
    forall2_map_eq (fun pa : PArr V => pa.name) (fun e : String × PArr V => e.1) hqs
      (fun _ _ h => h.1), hqs⟩

/-! ## version-1 npz files -/

/-- The version-1 reader (`get_particle_array(name=…, **arrays)`) returns what
`dump_v1` wrote, for every well-formed source array whose STORED properties all
have stride 1 (the format has no place for a stride: with a strided stored
property and at least one particle the reader raises, see the example below).
`V1Loaded`: every stored property comes back under its name with exactly the
stored slice as data; all sixteen default properties exist; nothing else
appears; C type, stride (1) and default of every loaded property are functions
of its NAME (`v1CType`, `v1Dflt` — the source's are not in the file); there are
no constants; the output list is the fixed `v1OutArrs`; all loaded properties
have one common length (0 or the stored particle count); `num_real_particles`
is the number of `Local` tags. -/
theorem v1_loads (pa : PArr V) (hwf : WF pa) (o : Opts) (sd : List (String × S))
    (hs1 : ∀ p ∈ pa.props, p.name ∈ storedNames pa o.detailed → p.stride = 1) :
    ∃ f q, dumpV1 o [pa] sd = some f ∧ load f = .ok (sd, [(pa.name, q)]) ∧ V1Loaded o pa q := by
  obtain ⟨hg, qs, hl, hqs⟩ := loadV1_many [pa] (by simpa using hwf) (by simp) o sd
    (by simpa using hs1)
  have hd := dumpV1_many o [pa] hg (by simp) sd
  cases hqs with
  | cons h ht =>
    cases ht
    rename_i e
    obtain ⟨h1, h2⟩ := h
    have he : e = (pa.name, e.2) := by rw [← h1]
    rw [he] at hl
    exact ⟨_, e.2, hd, hl, h2⟩

/-- the same for a version-1 file holding any list of arrays with distinct
names: they come back in dump order, solver data untouched -/
theorem v1_loads_many (arrays : List (PArr V)) (hwf : ∀ pa ∈ arrays, WF pa)
    (hnd : (arrays.map (·.name)).Nodup) (o : Opts) (sd : List (String × S))
    (hs1 : ∀ pa ∈ arrays, ∀ p ∈ pa.props, p.name ∈ storedNames pa o.detailed → p.stride = 1) :
    ∃ f qs, dumpV1 o arrays sd = some f ∧ load f = .ok (sd, qs) ∧
      qs.map (·.1) = arrays.map (·.name) ∧
      List.Forall₂ (fun pa e => e.1 = pa.name ∧ V1Loaded o pa e.2) arrays qs := by
  obtain ⟨hg, qs, hl, hqs⟩ := loadV1_many arrays hwf hnd o sd hs1
  exact ⟨_, qs, dumpV1_many o arrays hg hnd sd, hl,
    forall2_map_eq (fun pa : PArr V => pa.name) (fun e : String × PArr V => e.1) hqs
      (fun _ _ h => h.1), hqs⟩

/-! ## solver data -/

/-- whenever a written file loads, the solver data that comes back is the
solver data that went in: identical for npz, the same dictionary in name
order for hdf5 -/
theorem solver_data_roundtrip (fmt : Fmt) (o : Opts) (arrays : List (PArr V))
    (sd : List (String × S)) (f : File V S) (hd : dump fmt o arrays sd = some f)
    (sd' : List (String × S)) (as : List (String × PArr V)) (hl : load f = .ok (sd', as)) :
    sd'.Perm sd ∧ (fmt = .npz → sd' = sd) := by
  cases fmt with
  | npz =>
    simp only [dump, dumpNpz, Option.map_eq_some_iff] at hd
    obtain ⟨aad, _, e⟩ := hd
    subst e
    simp only [load, Except.map] at hl
    split at hl
    · cases hl
    · simp only [Except.ok.injEq, Prod.mk.injEq] at hl
      exact ⟨by rw [← hl.1], fun _ => hl.1.symm⟩
  | hdf5 =>
    simp only [dump, dumpHdf5, Option.bind_eq_some_iff, Option.map_eq_some_iff] at hd
    obtain ⟨aad, _, es, _, e⟩ := hd
    subst e
    simp only [load, Except.map] at hl
    split at hl
    · cases hl
    · simp only [Except.ok.injEq, Prod.mk.injEq] at hl
      exact ⟨by rw [← hl.1]; exact sortByName_perm sd, fun h => by cases h⟩

/-! ## non-vacuity: a concrete well-formed array and what the model computes for it -/

instance : PVal Nat := ⟨0, 4294967295⟩

instance (n : String) : Decidable (isBase n) := by unfold isBase; infer_instance

/-- the value of a successful `load (dump …)` -/
def okOf {α : Type} : Option (Except String α) → Option α
  | some (.ok a) => some a
  | _ => none

/-- three particles (two real, one ghost), a strided property, an integer
property with default 7 that is NOT in the output list -/
def exArr : PArr Nat :=
  { name := "f",
    props := [⟨"tag", .int, 1, 0, [0, 0, 2]⟩, ⟨"pid", .int, 1, 0, [0, 0, 0]⟩,
              ⟨"gid", .uint, 1, 4294967295, [1, 2, 3]⟩, ⟨"x", .double, 1, 0, [5, 6, 7]⟩,
              ⟨"A", .double, 2, 7, [1, 2, 3, 4, 5, 6]⟩, ⟨"k", .int, 1, 7, [1, 1, 1]⟩],
    consts := [⟨"c", .double, [1, 2]⟩], outArrs := ["x", "A"], nReal := 2 }

example : WF exArr := by
  refine { nodup := by decide, hasBase := ?_, baseMeta := by decide, stridePos := by decide,
           coh := by decide, nreal := by decide, aligned := by decide, outSub := by decide,
           constsNodup := by decide, constsDisj := by decide, constsTy := by decide }
  intro n hn
  rcases hn with e | e | e <;> subst e <;> decide

/-- brief hdf5 output of the real particles: `k` is not written, yet comes back
with type int, default 7 and (two particles) the data `[7, 7]`; `A` keeps its
stride and the first `2 × 2` values -/
example : okOf ((dump .hdf5 ⟨false, true, false⟩ [exArr] [("t", 1)]).map load) =
    some (([("t", 1)], [("f",
      { name := "f",
        props := [⟨"tag", .int, 1, 0, [0, 0]⟩, ⟨"pid", .int, 1, 0, [0, 0]⟩,
                  ⟨"gid", .uint, 1, 4294967295, [4294967295, 4294967295]⟩,
                  ⟨"A", .double, 2, 7, [1, 2, 3, 4]⟩, ⟨"k", .int, 1, 7, [7, 7]⟩,
                  ⟨"x", .double, 1, 0, [5, 6]⟩],
        consts := [⟨"c", .double, [1, 2]⟩], outArrs := ["x", "A"], nReal := 2 })])) := by
  decide +kernel

/-- a second array for the same file: other name, empty output list (so every
property is written) -/
def exArrB : PArr Nat := { exArr with name := "b", outArrs := [] }

example : (∀ pa ∈ [exArr, exArrB], WF pa) ∧ ([exArr, exArrB].map (·.name)).Nodup := by
  refine ⟨?_, by decide⟩
  intro pa hpa
  simp only [List.mem_cons, List.not_mem_nil, or_false] at hpa
  rcases hpa with rfl | rfl <;>
  · refine { nodup := by decide, hasBase := ?_, baseMeta := by decide, stridePos := by decide,
             coh := by decide, nreal := by decide, aligned := by decide, outSub := by decide,
             constsNodup := by decide, constsDisj := by decide, constsTy := by decide }
    intro n hn
    rcases hn with e | e | e <;> subst e <;> decide

/-- two arrays dumped as `[f, b]` to hdf5 come back as `[b, f]` (name order);
`b` had every property written, `f` only `x` and `A` -/
example : okOf ((dump .hdf5 ⟨false, true, false⟩ [exArr, exArrB] [("t", 1)]).map load) =
    some (([("t", 1)], [("b",
      { name := "b",
        props := [⟨"tag", .int, 1, 0, [0, 0]⟩, ⟨"pid", .int, 1, 0, [0, 0]⟩,
                  ⟨"gid", .uint, 1, 4294967295, [1, 2]⟩,
                  ⟨"A", .double, 2, 7, [1, 2, 3, 4]⟩, ⟨"k", .int, 1, 7, [1, 1]⟩,
                  ⟨"x", .double, 1, 0, [5, 6]⟩],
        consts := [⟨"c", .double, [1, 2]⟩], outArrs := [], nReal := 2 }), ("f",
      { name := "f",
        props := [⟨"tag", .int, 1, 0, [0, 0]⟩, ⟨"pid", .int, 1, 0, [0, 0]⟩,
                  ⟨"gid", .uint, 1, 4294967295, [4294967295, 4294967295]⟩,
                  ⟨"A", .double, 2, 7, [1, 2, 3, 4]⟩, ⟨"k", .int, 1, 7, [7, 7]⟩,
                  ⟨"x", .double, 1, 0, [5, 6]⟩],
        consts := [⟨"c", .double, [1, 2]⟩], outArrs := ["x", "A"], nReal := 2 })])) := by
  decide +kernel

/-- through npz the same two arrays keep the dump order -/
example : (okOf ((dump .npz ⟨false, false, false⟩ [exArr, exArrB] [("t", 1)]).map load)).map
    (fun r => r.2.map (·.1)) = some ["f", "b"] := by
  decide +kernel

/-- an array whose stored properties (`x`, `k`, `tag`) all have stride 1 -/
def exArrV1 : PArr Nat := { exArr with outArrs := ["x", "k", "tag"] }

example : WF exArrV1 ∧
    ∀ p ∈ exArrV1.props, p.name ∈ storedNames exArrV1 false → p.stride = 1 := by
  refine ⟨{ nodup := by decide, hasBase := ?_, baseMeta := by decide, stridePos := by decide,
            coh := by decide, nreal := by decide, aligned := by decide, outSub := by decide,
            constsNodup := by decide, constsDisj := by decide, constsTy := by decide },
          by decide⟩
  intro n hn
  rcases hn with e | e | e <;> subst e <;> decide

/-- version 1: `x`, `k`, `tag` come back with their values; `k` (int, default 7
in the source) is now double with default 0; `gid`/`pid` and the other default
properties are filled in; the strided `A` and the constant `c` are gone -/
example : okOf ((dumpV1 ⟨false, false, false⟩ [exArrV1] [("t", 1)]).map load) =
    some (([("t", 1)], [("f",
      { name := "f",
        props := [⟨"tag", .int, 1, 0, [0, 0, 2]⟩, ⟨"pid", .int, 1, 0, [0, 0, 0]⟩,
                  ⟨"gid", .uint, 1, 4294967295, [4294967295, 4294967295, 4294967295]⟩,
                  ⟨"x", .double, 1, 0, [5, 6, 7]⟩, ⟨"k", .double, 1, 0, [1, 1, 1]⟩,
                  ⟨"y", .double, 1, 0, [0, 0, 0]⟩, ⟨"z", .double, 1, 0, [0, 0, 0]⟩,
                  ⟨"u", .double, 1, 0, [0, 0, 0]⟩, ⟨"v", .double, 1, 0, [0, 0, 0]⟩,
                  ⟨"w", .double, 1, 0, [0, 0, 0]⟩, ⟨"m", .double, 1, 0, [0, 0, 0]⟩,
                  ⟨"h", .double, 1, 0, [0, 0, 0]⟩, ⟨"rho", .double, 1, 0, [0, 0, 0]⟩,
                  ⟨"p", .double, 1, 0, [0, 0, 0]⟩, ⟨"au", .double, 1, 0, [0, 0, 0]⟩,
                  ⟨"av", .double, 1, 0, [0, 0, 0]⟩, ⟨"aw", .double, 1, 0, [0, 0, 0]⟩],
        consts := [], outArrs := v1OutArrs, nReal := 2 })])) := by
  decide +kernel

/-- why `v1_loads` asks for stride 1: with the strided `A` among the stored
properties (3 particles) the version-1 reader raises (`ValueError`, sizes) -/
example : okOf ((dumpV1 ⟨false, false, false⟩ [exArr] [("t", 1)]).map load) = none := by
  decide +kernel

end PysphVerif.C11
