import PysphVerif.Model.Needs
/-! # C20 — property theorems (in progress) -/
namespace PysphVerif.C20
open PysphVerif.Needs

theorem placeholder_ok : firstError (fun _ => Verdict.ok) [] = Verdict.ok := rfl

end PysphVerif.C20
