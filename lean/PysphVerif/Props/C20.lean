import PysphVerif.Lemmas.Needs
import PysphVerif.Lemmas.NeedsCodegen
import PysphVerif.Lemmas.NeedsObjects
/-!
# C20 — incomplete problems are rejected at set-up, never compiled and run

Property theorems only (helper lemmas live in `Lemmas/Needs.lean`).  They are
about `Model/Needs.lean`, which transcribes the set-up time checks
(`check_equation_array_properties` as repaired by the `fix:` commit,
`AccelerationEval.__init__`, `_check_integrator_steppers`,
`_check_arrays_for_properties`) *and* the pointer set-up of the generated code
(`get_dest_array_setup`, `get_src_array_setup`, `get_array_setup`), and is tied
to the code by differential execution on every run.

All statements hold for every precomputed-symbol table, every list of particle
arrays, every program (any number of groups, sub-groups, empty groups, repeated
equations), every set of steppers.  What an equation *needs* is specified
independently of the code's closure loop, by the inductive reachability
relation `Reach` (`NeedsDst`, `NeedsSrc` in `Lemmas/Needs.lean`).
-/
set_option linter.unusedSectionVars false
namespace PysphVerif.C20
open PysphVerif.Needs

/-! ## what "complete" means -/

/-- The problem is complete for equation `e`: destination and sources exist,
and every property or constant `e` needs — explicitly through a `d_*`/`s_*`
argument of one of its five methods, or implicitly through a precomputed
symbol reachable from the arguments of its `loop` — is present in the
destination, respectively in **every** source. -/
def Complete (t : Table) (arrs : List PArr) (e : Eqn) : Prop :=
  ∃ d, findArr arrs e.dest = some d ∧ (∀ n, NeedsDst t e n → strip n ∈ d.props) ∧
    ∀ s ∈ e.sources.getD [], ∃ a, findArr arrs s = some a ∧
      ∀ n, NeedsSrc t e n → strip n ∈ a.props

/-- The set of precomputed symbols `Group._setup_precomputed` arrives at is
exactly the set reachable from the loop arguments (the `while not done` loop
neither stops early nor adds anything else). -/
theorem precomputed_is_reachable_set (t : Table) (args : List Name) (s : Name) :
    s ∈ closure t args ↔ Reach t args s :=
  mem_closure_iff t args s

/-! ## the equation check is complete -/

/-- **check_complete.**  If building the evaluator raises nothing, every
equation of the program (in whatever group or sub-group) is complete: nothing
it needs explicitly or implicitly is missing from any array it is applied to,
and every array name it uses exists. -/
theorem check_complete (t : Table) (arrs : List PArr) (gs : List GroupT)
    (h : checkProgram t arrs gs = Verdict.ok) :
    ∀ e ∈ allEquations gs, Complete t arrs e := by
  intro e he
  have h1 := (firstError_ok _ _).mp h e he
  obtain ⟨d, hd, hdn, hsn⟩ := checkEquationWith_ok h1
  refine ⟨d, hd, ?_, ?_⟩
  · intro n hn
    exact hdn n ((mem_groupNeeds_dst t e n).mpr hn)
  · intro s hs
    obtain ⟨a, ha, han⟩ := hsn s hs
    exact ⟨a, ha, fun n hn => han n ((mem_groupNeeds_src t e n).mpr hn)⟩

/-- Contrapositive form, as the property is worded: an equation that lacks
something makes the build raise. -/
theorem incomplete_is_rejected (t : Table) (arrs : List PArr) (gs : List GroupT)
    (e : Eqn) (he : e ∈ allEquations gs) (hinc : ¬ Complete t arrs e) :
    checkProgram t arrs gs ≠ Verdict.ok :=
  fun h => hinc (check_complete t arrs gs h e he)

/-! ## no missing property reaches execution -/

private theorem leaf_sub (gs : List GroupT) (leaf : List Eqn)
    (hl : leaf ∈ gs.flatMap GroupT.leaves) (e : Eqn) (he : e ∈ leaf) : e ∈ allEquations gs := by
  obtain ⟨g, hg, hlg⟩ := List.mem_flatMap.mp hl
  refine List.mem_flatMap.mpr ⟨g, hg, ?_⟩
  cases g with
  | flat es =>
    simp only [GroupT.leaves, List.mem_singleton] at hlg
    subst hlg
    exact he
  | sub sgs =>
    simp only [GroupT.leaves] at hlg
    exact List.mem_flatMap.mpr ⟨leaf, hlg, he⟩

/-- every pointer the generated `compute` takes for a (sub-)group belongs to a
need of one of its equations -/
theorem groupAccesses_are_needs (t : Table) (eqs : List Eqn) (a p : Name)
    (h : (a, p) ∈ groupAccesses t eqs) :
    (∃ e ∈ eqs, e.dest = a ∧ ∃ n, NeedsDst t e n ∧ p = strip n) ∨
    (∃ e ∈ eqs, a ∈ e.sources.getD [] ∧ ∃ n, NeedsSrc t e n ∧ p = strip n) := by
  unfold groupAccesses at h
  obtain ⟨dest, _, h⟩ := List.mem_flatMap.mp h
  rcases List.mem_append.mp h with h | h
  · left
    obtain ⟨n, hn, hpair⟩ := List.mem_map.mp h
    simp only [Prod.mk.injEq] at hpair
    obtain ⟨rfl, rfl⟩ := hpair
    unfold destSetup at hn
    rcases List.mem_append.mp hn with hn | hn
    · obtain ⟨e, he, hne⟩ := (mem_groupDstNames t _ n).mp hn
      simp only [noSource, ofDest, List.mem_filter, beq_iff_eq] at he
      exact ⟨e, he.1.1, he.1.2, n, hne, rfl⟩
    · obtain ⟨s, _, hn⟩ := List.mem_flatMap.mp hn
      obtain ⟨e, he, hne⟩ := (mem_groupDstNames t _ n).mp hn
      simp only [withSource, ofDest, List.mem_filter, beq_iff_eq] at he
      exact ⟨e, he.1.1, he.1.2, n, hne, rfl⟩
  · right
    obtain ⟨s, _, h⟩ := List.mem_flatMap.mp h
    obtain ⟨n, hn, hpair⟩ := List.mem_map.mp h
    simp only [Prod.mk.injEq] at hpair
    obtain ⟨rfl, rfl⟩ := hpair
    unfold srcSetup at hn
    obtain ⟨e, he, hne⟩ := (mem_groupSrcNames t _ n).mp hn
    simp only [withSource, ofDest, List.mem_filter, beq_iff_eq, List.contains_eq_mem,
      decide_eq_true_eq] at he
    exact ⟨e, he.1.1, he.2, n, hne, rfl⟩

/-- **generated_reads_exist.**  If building the evaluator raises nothing, every
`x = dst.<p>.data` / `x = src.<p>.data` pointer the generated `compute` takes —
for every group, sub-group, destination and source — is of a property or
constant that array has: a missing property can neither crash the interpreter
nor read unrelated memory. -/
theorem generated_reads_exist (t : Table) (arrs : List PArr) (gs : List GroupT)
    (h : checkProgram t arrs gs = Verdict.ok) :
    ∀ ap ∈ programAccesses t gs, ∃ arr, findArr arrs ap.1 = some arr ∧ ap.2 ∈ arr.props := by
  rintro ⟨a, p⟩ hap
  obtain ⟨leaf, hleaf, hacc⟩ := List.mem_flatMap.mp hap
  rcases groupAccesses_are_needs t leaf a p hacc with
    ⟨e, he, hd, n, hn, rfl⟩ | ⟨e, he, hs, n, hn, rfl⟩
  · obtain ⟨d, hfd, hdn, _⟩ := check_complete t arrs gs h e (leaf_sub gs leaf hleaf e he)
    exact ⟨d, by rw [← hd]; exact hfd, hdn n hn⟩
  · obtain ⟨_, _, _, hsn⟩ := check_complete t arrs gs h e (leaf_sub gs leaf hleaf e he)
    obtain ⟨arr, hfa, han⟩ := hsn a hs
    exact ⟨arr, hfa, han n hn⟩

/-! ## the error names the equation and what is missing -/

/-- **error_names_equation_and_missing.**  A raised error is the verdict of the
first equation (in program order) that fails, it carries that equation's name,
and
* `invalid dest` names its destination, which is not a particle array;
* `invalid source` names one of its sources, which is not a particle array;
* `missing properties` lists, per array, exactly the needed names (explicit and
  implicit) that array lacks, for the destination and every source, leaving
  none out. -/
theorem error_names_equation_and_missing (t : Table) (arrs : List PArr) (gs : List GroupT)
    (v : Verdict) (h : checkProgram t arrs gs = v) (hv : v ≠ Verdict.ok) :
    ∃ pre e post, allEquations gs = pre ++ e :: post ∧
      (∀ x ∈ pre, Complete t arrs x) ∧
      match v with
      | Verdict.ok => False
      | Verdict.invalidDest n d => n = e.name ∧ d = e.dest ∧ findArr arrs e.dest = none
      | Verdict.invalidSource n s =>
          n = e.name ∧ s ∈ e.sources.getD [] ∧ findArr arrs s = none
      | Verdict.missing n errs =>
          n = e.name ∧ errs ≠ [] ∧ ∃ d, findArr arrs e.dest = some d ∧
          (∀ err ∈ errs,
            (err.1 = e.dest ∧ ∀ x, x ∈ err.2 ↔ (∃ m, NeedsDst t e m ∧ x = strip m) ∧ x ∉ d.props) ∨
            (∃ s ∈ e.sources.getD [], ∃ a, findArr arrs s = some a ∧ err.1 = s ∧
              ∀ x, x ∈ err.2 ↔ (∃ m, NeedsSrc t e m ∧ x = strip m) ∧ x ∉ a.props)) ∧
          (∀ m, NeedsDst t e m → strip m ∉ d.props →
            ∃ err ∈ errs, err.1 = e.dest ∧ strip m ∈ err.2) ∧
          (∀ s ∈ e.sources.getD [], ∀ a, findArr arrs s = some a →
            ∀ m, NeedsSrc t e m → strip m ∉ a.props →
              ∃ err ∈ errs, err.1 = s ∧ strip m ∈ err.2) := by
  obtain ⟨pre, e, post, hsplit, hpre, hfe⟩ := firstError_err _ _ v h hv
  refine ⟨pre, e, post, hsplit, ?_, ?_⟩
  · intro x hx
    obtain ⟨d, hd, hdn, hsn⟩ := checkEquationWith_ok (hpre x hx)
    refine ⟨d, hd, fun n hn => hdn n ((mem_groupNeeds_dst t x n).mpr hn), ?_⟩
    intro s hs
    obtain ⟨a, ha, han⟩ := hsn s hs
    exact ⟨a, ha, fun n hn => han n ((mem_groupNeeds_src t x n).mpr hn)⟩
  · have hmapd : ∀ x, x ∈ (groupNeeds t e).2.map strip ↔ ∃ m, NeedsDst t e m ∧ x = strip m := by
      intro x
      simp only [List.mem_map, mem_groupNeeds_dst]
      constructor
      · rintro ⟨m, hm, rfl⟩; exact ⟨m, hm, rfl⟩
      · rintro ⟨m, hm, rfl⟩; exact ⟨m, hm, rfl⟩
    have hmaps : ∀ x, x ∈ (groupNeeds t e).1.map strip ↔ ∃ m, NeedsSrc t e m ∧ x = strip m := by
      intro x
      simp only [List.mem_map, mem_groupNeeds_src]
      constructor
      · rintro ⟨m, hm, rfl⟩; exact ⟨m, hm, rfl⟩
      · rintro ⟨m, hm, rfl⟩; exact ⟨m, hm, rfl⟩
    cases v with
    | ok => exact hv rfl
    | invalidDest n d => exact checkEquationWith_invalidDest hfe
    | invalidSource n s =>
      obtain ⟨h1, _, srcs, h2, h3, h4⟩ := checkEquationWith_invalidSource hfe
      exact ⟨h1, by rw [h2]; exact h3, h4⟩
    | missing n errs =>
      obtain ⟨h1, h2, d, hd, _, h4, h5, h6⟩ := checkEquationWith_missing hfe
      refine ⟨h1, h2, d, hd, ?_, ?_, ?_⟩
      · intro err herr
        rcases h4 err herr with ⟨c1, c2, _⟩ | ⟨s, hs, a, ha, c1, c2, _⟩
        · left
          exact ⟨c1, fun x => by rw [c2 x, hmapd x]⟩
        · right
          exact ⟨s, hs, a, ha, c1, fun x => by rw [c2 x, hmaps x]⟩
      · intro m hm hmd
        exact h5 (strip m) ((hmapd _).mpr ⟨m, hm, rfl⟩) hmd
      · intro s hs a ha m hm hma
        exact h6 s hs a ha (strip m) ((hmaps _).mpr ⟨m, hm, rfl⟩) hma

/-- **rejection_is_justified.**  The check raises only when the problem really
is incomplete — with one exception that the code has and the model keeps: the
test is `eq_props < props` (a *strict* subset), so an array that holds nothing
but names the equation needs is reported too (with an empty "missing" set).
Every `ParticleArray` carries `tag`, `pid`, `gid`, so this needs an equation
that uses all three. -/
theorem rejection_is_justified (t : Table) (arrs : List PArr) (gs : List GroupT)
    (v : Verdict) (h : checkProgram t arrs gs = v) (hv : v ≠ Verdict.ok) :
    ∃ e ∈ allEquations gs,
      ¬ Complete t arrs e ∨
      (∃ d, findArr arrs e.dest = some d ∧ ∀ x ∈ d.props, ∃ m, NeedsDst t e m ∧ x = strip m) ∨
      (∃ s ∈ e.sources.getD [], ∃ a, findArr arrs s = some a ∧
        ∀ x ∈ a.props, ∃ m, NeedsSrc t e m ∧ x = strip m) := by
  obtain ⟨pre, e, post, hsplit, _, hfe⟩ := firstError_err _ _ v h hv
  refine ⟨e, by rw [hsplit]; simp, ?_⟩
  have hmapd : ∀ x, x ∈ (groupNeeds t e).2.map strip ↔ ∃ m, NeedsDst t e m ∧ x = strip m := by
    intro x
    simp only [List.mem_map, mem_groupNeeds_dst]
    constructor
    · rintro ⟨m, hm, rfl⟩; exact ⟨m, hm, rfl⟩
    · rintro ⟨m, hm, rfl⟩; exact ⟨m, hm, rfl⟩
  have hmaps : ∀ x, x ∈ (groupNeeds t e).1.map strip ↔ ∃ m, NeedsSrc t e m ∧ x = strip m := by
    intro x
    simp only [List.mem_map, mem_groupNeeds_src]
    constructor
    · rintro ⟨m, hm, rfl⟩; exact ⟨m, hm, rfl⟩
    · rintro ⟨m, hm, rfl⟩; exact ⟨m, hm, rfl⟩
  cases v with
  | ok => exact absurd rfl hv
  | invalidDest n d =>
    left
    obtain ⟨_, _, hnone⟩ := checkEquationWith_invalidDest hfe
    rintro ⟨d', hd', _⟩
    rw [hnone] at hd'; cases hd'
  | invalidSource n s =>
    left
    obtain ⟨_, _, srcs, h2, h3, h4⟩ := checkEquationWith_invalidSource hfe
    rintro ⟨_, _, _, hs⟩
    obtain ⟨a, ha, _⟩ := hs s (by rw [h2]; exact h3)
    rw [h4] at ha; cases ha
  | missing n errs =>
    obtain ⟨_, hne, d, hd, _, h4, _, _⟩ := checkEquationWith_missing hfe
    obtain ⟨err, herr⟩ := List.exists_mem_of_ne_nil _ hne
    rcases h4 err herr with ⟨_, _, c3⟩ | ⟨s, hs, a, ha, _, _, c3⟩
    · rcases c3 with ⟨x, hx, hxd⟩ | hall
      · left
        rintro ⟨d', hd', hdn, _⟩
        rw [hd] at hd'; cases hd'
        obtain ⟨m, hm, rfl⟩ := (hmapd x).mp hx
        exact hxd (hdn m hm)
      · right; left
        exact ⟨d, hd, fun x hx => (hmapd x).mp (hall x hx)⟩
    · rcases c3 with ⟨x, hx, hxa⟩ | hall
      · left
        rintro ⟨_, _, _, hsn⟩
        obtain ⟨a', ha', han⟩ := hsn s hs
        rw [ha] at ha'; cases ha'
        obtain ⟨m, hm, rfl⟩ := (hmaps x).mp hx
        exact hxa (han m hm)
      · right; right
        exact ⟨s, hs, a, ha, fun x hx => (hmaps x).mp (hall x hx)⟩

/-- **needs_are_read.**  Conversely to `groupAccesses_are_needs`, everything an
equation of a (sub-)group needs is a pointer the generated code takes: the
check demands nothing the generated code does not use.  (`sources = some []`
does not occur: `Equation.__init__` turns an empty list into `None`.) -/
theorem needs_are_read (t : Table) (eqs : List Eqn) (e : Eqn) (he : e ∈ eqs)
    (hsrc : e.sources ≠ some []) :
    (∀ n, NeedsDst t e n → (e.dest, strip n) ∈ groupAccesses t eqs) ∧
    (∀ s ∈ e.sources.getD [], ∀ n, NeedsSrc t e n → (s, strip n) ∈ groupAccesses t eqs) := by
  have hdest : e.dest ∈ destList eqs := by
    simp only [destList, List.mem_eraseDups, List.mem_map]
    exact ⟨e, he, rfl⟩
  have hmine : e ∈ ofDest eqs e.dest := by
    simp only [ofDest, List.mem_filter, beq_self_eq_true, and_true]
    exact he
  constructor
  · intro n hn
    unfold groupAccesses
    refine List.mem_flatMap.mpr ⟨e.dest, hdest, List.mem_append.mpr (Or.inl ?_)⟩
    refine List.mem_map.mpr ⟨n, ?_, rfl⟩
    unfold destSetup
    cases hs : e.sources with
    | none =>
      refine List.mem_append.mpr (Or.inl ((mem_groupDstNames t _ n).mpr ⟨e, ?_, hn⟩))
      simp only [noSource, List.mem_filter]
      exact ⟨hmine, by simp [hs]⟩
    | some srcs =>
      cases srcs with
      | nil => exact absurd hs hsrc
      | cons s0 rest =>
        refine List.mem_append.mpr (Or.inr (List.mem_flatMap.mpr ⟨s0, ?_, ?_⟩))
        · simp only [sourceList, List.mem_eraseDups, List.mem_flatMap]
          exact ⟨e, hmine, by simp [hs]⟩
        · refine (mem_groupDstNames t _ n).mpr ⟨e, ?_, hn⟩
          simp only [withSource, List.mem_filter]
          exact ⟨hmine, by simp [hs]⟩
  · intro s hs n hn
    unfold groupAccesses
    refine List.mem_flatMap.mpr ⟨e.dest, hdest, List.mem_append.mpr (Or.inr ?_)⟩
    refine List.mem_flatMap.mpr ⟨s, ?_, List.mem_map.mpr ⟨n, ?_, rfl⟩⟩
    · simp only [sourceList, List.mem_eraseDups, List.mem_flatMap]
      exact ⟨e, hmine, hs⟩
    · unfold srcSetup
      refine (mem_groupSrcNames t _ n).mpr ⟨e, ?_, hn⟩
      simp only [withSource, List.mem_filter, List.contains_eq_mem, decide_eq_true_eq]
      exact ⟨hmine, hs⟩

/-! ## integrator steppers -/

theorem mem_wrapperNames (sts : List Stepper) (m : Name) :
    m ∈ wrapperNames sts ↔ ∃ st ∈ sts, m ∈ st.pyStages ∨ m ∈ st.methods.map (·.1) := by
  unfold wrapperNames
  rw [mem_sortNames]
  simp only [List.mem_eraseDups, List.mem_flatMap, List.mem_append]

private theorem checkStepperNames_ok (arrs : List PArr) (sts : List Stepper)
    (h : checkStepperNames arrs sts = SVerdict.ok) :
    ∀ st ∈ sts, ∃ pa, findArr arrs st.dest = some pa := by
  induction sts with
  | nil => intro st hst; cases hst
  | cons s rest ih =>
    simp only [checkStepperNames] at h
    split at h
    · cases h
    · rename_i hs
      intro st hst
      rcases List.mem_cons.mp hst with rfl | hst
      · cases hf : findArr arrs st.dest with
        | none => rw [hf] at hs; simp at hs
        | some pa => exact ⟨pa, rfl⟩
      · exact ih h st hst

private theorem checkStepperNames_err (arrs : List PArr) (sts : List Stepper) (v : SVerdict)
    (h : checkStepperNames arrs sts = v) (hv : v ≠ SVerdict.ok) :
    ∃ st ∈ sts, v = SVerdict.invalidStepper st.dest ∧ findArr arrs st.dest = none := by
  induction sts with
  | nil => simp only [checkStepperNames] at h; exact absurd h.symm hv
  | cons s rest ih =>
    simp only [checkStepperNames] at h
    split at h
    · rename_i hs
      refine ⟨s, List.mem_cons_self, h.symm, ?_⟩
      simpa using hs
    · obtain ⟨st, hst, h1, h2⟩ := ih h
      exact ⟨st, List.mem_cons_of_mem _ hst, h1, h2⟩

/-- **stepper_check_complete.**  If `SPHCompiler(...)` generates the integrator
code without raising, every stepper keyword is a particle array and every
`d_*`/`s_*` argument of every stepper method that is wrapped
(`initialize`, `stage1`, …) is a property or constant of that array. -/
theorem stepper_check_complete (arrs : List PArr) (sts : List Stepper)
    (h : checkSteppers arrs sts = SVerdict.ok) :
    ∀ st ∈ sts, ∃ pa, findArr arrs st.dest = some pa ∧
      ∀ m, (m ∈ st.methods.map (·.1) ∨ m ∈ wrapperNames sts) →
        ∀ x ∈ st.args m, (isSrcArr x || isDstArr x) = true → strip x ∈ pa.props := by
  intro st hst
  unfold checkSteppers at h
  cases hn : checkStepperNames arrs sts with
  | invalidStepper n => rw [hn] at h; cases h
  | missing a b c => rw [hn] at h; cases h
  | ok =>
    rw [hn] at h
    simp only at h
    obtain ⟨pa, hpa⟩ := checkStepperNames_ok arrs sts hn st hst
    refine ⟨pa, hpa, ?_⟩
    intro m hm x hx hxa
    have hmw : m ∈ wrapperNames sts := by
      rcases hm with hm | hm
      · exact (mem_wrapperNames sts m).mpr ⟨st, hst, Or.inr hm⟩
      · exact hm
    have h1 := (firstSError_ok _ _).mp h m hmw
    have h2 := (firstSError_ok _ _).mp h1 st hst
    simp only [checkStepperMethod, hpa] at h2
    split at h2
    · rename_i hsub
      apply (subset_iff _ _).mp hsub
      simp only [stepperProps, List.mem_map, List.mem_filter]
      exact ⟨x, ⟨hx, hxa⟩, rfl⟩
    · cases h2

/-- the generated integrator takes only pointers that exist -/
theorem stepper_reads_exist (arrs : List PArr) (sts : List Stepper)
    (h : checkSteppers arrs sts = SVerdict.ok) :
    ∀ ap ∈ stepperAccesses sts, ∃ pa, findArr arrs ap.1 = some pa ∧ ap.2 ∈ pa.props := by
  rintro ⟨a, p⟩ hap
  simp only [stepperAccesses, List.mem_flatMap, List.mem_map, Prod.mk.injEq] at hap
  obtain ⟨st, hst, m, hm, q, hq, rfl, rfl⟩ := hap
  obtain ⟨pa, hpa, hall⟩ := stepper_check_complete arrs sts h st hst
  refine ⟨pa, hpa, ?_⟩
  simp only [stepperProps, List.mem_map, List.mem_filter] at hq
  obtain ⟨x, ⟨hx, hxa⟩, rfl⟩ := hq
  exact hall m (Or.inr hm) x hx hxa

/-- **stepper_error_names.**  A stepper error names a keyword that is not a
particle array, or the class of a stepper, the array it is applied to and a
non-empty list of exactly the names one of its methods needs and that array
lacks. -/
theorem stepper_error_names (arrs : List PArr) (sts : List Stepper) (v : SVerdict)
    (h : checkSteppers arrs sts = v) :
    match v with
    | SVerdict.ok => True
    | SVerdict.invalidStepper n => ∃ st ∈ sts, st.dest = n ∧ findArr arrs n = none
    | SVerdict.missing c d ns =>
        ∃ st ∈ sts, st.cls = c ∧ st.dest = d ∧ ∃ pa, findArr arrs d = some pa ∧
          ∃ m ∈ wrapperNames sts, ns ≠ [] ∧
            ∀ x, x ∈ ns ↔ x ∈ stepperProps (st.args m) ∧ x ∉ pa.props := by
  cases v with
  | ok => trivial
  | invalidStepper n =>
    simp only
    unfold checkSteppers at h
    cases hn : checkStepperNames arrs sts with
    | ok =>
      rw [hn] at h
      simp only at h
      obtain ⟨m, _, h1⟩ := firstSError_err _ _ _ h (by simp)
      obtain ⟨st, hst, h2⟩ := firstSError_err _ _ _ h1 (by simp)
      simp only [checkStepperMethod] at h2
      split at h2
      · rename_i hf
        simp only [SVerdict.invalidStepper.injEq] at h2
        exact ⟨st, hst, h2, by rw [← h2]; exact hf⟩
      · split at h2 <;> cases h2
    | invalidStepper n' =>
      rw [hn] at h
      simp only [SVerdict.invalidStepper.injEq] at h
      obtain ⟨st, hst, h1, h2⟩ := checkStepperNames_err arrs sts _ hn (by simp)
      simp only [SVerdict.invalidStepper.injEq] at h1
      subst h
      exact ⟨st, hst, h1.symm, by rw [h1]; exact h2⟩
    | missing a b c =>
      obtain ⟨st, _, h1, _⟩ := checkStepperNames_err arrs sts _ hn (by simp)
      cases h1
  | missing c d ns =>
    simp only
    unfold checkSteppers at h
    cases hn : checkStepperNames arrs sts with
    | ok =>
      rw [hn] at h
      simp only at h
      obtain ⟨m, hm, h1⟩ := firstSError_err _ _ _ h (by simp)
      obtain ⟨st, hst, h2⟩ := firstSError_err _ _ _ h1 (by simp)
      simp only [checkStepperMethod] at h2
      split at h2
      · cases h2
      · rename_i pa hf
        split at h2
        · cases h2
        · rename_i hsub
          simp only [SVerdict.missing.injEq] at h2
          obtain ⟨rfl, rfl, rfl⟩ := h2
          have hmem : ∀ x, x ∈ sortNames (((stepperProps (st.args m)).filter
              (fun x => !pa.props.contains x)).eraseDups) ↔
              x ∈ stepperProps (st.args m) ∧ x ∉ pa.props := by
            intro x
            rw [mem_sortNames]
            simp
          refine ⟨st, hst, rfl, rfl, pa, hf, m, hm, ?_, hmem⟩
          have : ∃ x, x ∈ stepperProps (st.args m) ∧ x ∉ pa.props := by
            apply Classical.byContradiction
            intro hne
            apply hsub
            apply (subset_iff _ _).mpr
            intro x hx
            apply Classical.byContradiction
            intro hxp
            exact hne ⟨x, hx, hxp⟩
          obtain ⟨x, hx, hxp⟩ := this
          intro hnil
          have := (hmem x).mpr ⟨hx, hxp⟩
          rw [hnil] at this
          cases this
    | invalidStepper n' => rw [hn] at h; cases h
    | missing a b c' =>
      obtain ⟨st, _, h1, _⟩ := checkStepperNames_err arrs sts _ hn (by simp)
      cases h1

/-! ## the three sites of the integrator code generator: check, declaration, binding

`get_array_declarations` checks `s | d`, declares `s | d`; `get_array_setup`
binds `s | d` — three separate statements (`Model/NeedsCodegen.lean`).  A
source-style argument `s_p` of a stepper method is bound to the array being
stepped (`s_p = dst.p.data`), so it is a need on that array exactly like `d_p`. -/

/-- **stepper_source_style_args_checked.**  If the integrator code is generated
without an error, then for every stepper and every wrapped method, every
*source-style* argument `s_p` names a property or constant `p` of the array the
stepper is applied to (it is not enough that some other array has `p`). -/
theorem stepper_source_style_args_checked (arrs : List PArr) (sts : List Stepper)
    (h : checkSteppers arrs sts = SVerdict.ok) :
    ∀ st ∈ sts, ∃ pa, findArr arrs st.dest = some pa ∧
      ∀ m ∈ wrapperNames sts, ∀ x ∈ st.args m, isSrcArr x = true → strip x ∈ pa.props := by
  intro st hst
  obtain ⟨pa, hpa, hall⟩ := stepper_check_complete arrs sts h st hst
  exact ⟨pa, hpa, fun m hm x hx hs => hall m (Or.inr hm) x hx (by simp [hs])⟩

/-- **stepper_bound_names_are_checked.**  Every pointer variable the generated
integrator binds (`n = dst.<n[2:]>.data`, the lines of `get_array_setup`) is a
`s_*`/`d_*` argument whose property exists in the array `dst` stands for: the
binding site binds nothing the check site has not checked. -/
theorem stepper_bound_names_are_checked (arrs : List PArr) (sts : List Stepper)
    (h : checkSteppers arrs sts = SVerdict.ok) :
    ∀ b ∈ stepperBindings sts, ∃ pa, findArr arrs b.1 = some pa ∧ b.2.2 ∈ pa.props ∧
      (b.2.1 = "s_" ++ b.2.2 ∨ b.2.1 = "d_" ++ b.2.2) := by
  rintro ⟨a, n, p⟩ hb
  simp only [stepperBindings, List.mem_flatMap, List.mem_map, Prod.mk.injEq] at hb
  obtain ⟨st, hst, m, hm, n', hn', rfl, rfl, rfl⟩ := hb
  obtain ⟨hargs, hsd⟩ := (mem_stepperSetupNames st m n').mp hn'
  obtain ⟨pa, hpa, hall⟩ := stepper_check_complete arrs sts h st hst
  refine ⟨pa, hpa, hall m (Or.inr hm) n' hargs hsd, ?_⟩
  rcases Bool.or_eq_true_iff.mp hsd with hs | hd
  · exact Or.inl (src_strip n' hs).symm
  · exact Or.inr (dst_strip n' hd).symm

/-- **stepper_decl_types_known.**  When the check of a method passes for every
stepper, every name `get_array_declarations(method)` declares is a key of
`known_types`: the declaration site cannot raise the bare `KeyError`. -/
theorem stepper_decl_types_known (arrs : List PArr) (sts : List Stepper) (m : Name)
    (h : checkStepperDecl arrs sts m = SVerdict.ok) :
    ∀ n ∈ stepperDeclNames sts m, n ∈ knownTypes arrs := by
  intro n hn
  obtain ⟨st, hst, hn⟩ := (mem_stepperDeclNames sts m n).mp hn
  obtain ⟨hargs, hsd⟩ := (mem_stepperArrNames _ n).mp hn
  have h2 := (firstSError_ok _ _).mp h st hst
  simp only [checkStepperMethod] at h2
  split at h2
  · cases h2
  · rename_i pa hpa
    split at h2
    · rename_i hsub
      refine mem_knownTypes (findArr_mem hpa) hsd ?_
      apply (subset_iff _ _).mp hsub
      simp only [stepperProps, List.mem_map, List.mem_filter]
      exact ⟨n, ⟨hargs, hsd⟩, rfl⟩
    · cases h2

/-- **stepper_decl_total.**  `get_array_declarations(method)` either raises the
RuntimeError of the check or returns declarations; it never fails with a
`KeyError` (an error that names neither stepper nor array). -/
theorem stepper_decl_total (arrs : List PArr) (sts : List Stepper) (m n : Name) :
    stepperDecl arrs sts m ≠ DeclOutcome.keyError n := by
  unfold stepperDecl
  cases hc : checkStepperDecl arrs sts m with
  | ok =>
    simp only
    split
    · rename_i k hk
      have hmem := List.mem_of_find?_eq_some hk
      have hnot := List.find?_some hk
      have := stepper_decl_types_known arrs sts m hc k hmem
      simp [this] at hnot
    · simp
  | invalidStepper a => simp
  | missing a b c => simp

/-- **stepper_missing_arg_is_rejected.**  The converse direction, stated for a
single argument: if all stepper keywords are particle arrays and some method of
some stepper has a `s_*` or `d_*` argument whose property the stepped array
lacks — whatever the other arrays hold — then code generation raises the
"requires the following properties" error (whose content is described by
`stepper_error_names`). -/
theorem stepper_missing_arg_is_rejected (arrs : List PArr) (sts : List Stepper)
    (hnames : checkStepperNames arrs sts = SVerdict.ok)
    (st : Stepper) (hst : st ∈ sts) (m : Name) (hm : m ∈ st.methods.map (·.1))
    (x : Name) (hx : x ∈ st.args m) (hsd : (isSrcArr x || isDstArr x) = true)
    (pa : PArr) (hpa : findArr arrs st.dest = some pa) (hmiss : strip x ∉ pa.props) :
    ∃ c d ns, checkSteppers arrs sts = SVerdict.missing c d ns := by
  cases hv : checkSteppers arrs sts with
  | ok =>
    obtain ⟨pa', hpa', hall⟩ := stepper_check_complete arrs sts hv st hst
    rw [hpa] at hpa'
    cases hpa'
    exact absurd (hall m (Or.inl hm) x hx hsd) hmiss
  | invalidStepper n =>
    have := stepper_error_names arrs sts _ hv
    simp only at this
    obtain ⟨st', hst', hd, hnone⟩ := this
    obtain ⟨pa', hpa'⟩ := checkStepperNames_ok arrs sts hnames st' hst'
    rw [hd, hnone] at hpa'
    cases hpa'
  | missing c d ns => exact ⟨c, d, ns, rfl⟩

/-! ## object identity: one stepper object given to several arrays

`Integrator(fluid=step, solid=step)` hands ONE stepper object to two keywords
(`Model/NeedsObjects.lean`).  The code generator ranges over keywords, so the
check is per (array, stepper) pair.  A check per stepper OBJECT would be
incomplete, and it differs from the code exactly when an object is shared. -/

/-- **shared_stepper_checked_per_array.**  If the integrator code is generated
without an error then for EVERY keyword — also one that was given a stepper
object some earlier keyword already carries — every `d_*`/`s_*` argument of every
wrapped method of its stepper is a property or constant of THAT keyword's array. -/
theorem shared_stepper_checked_per_array (arrs : List PArr) (s : StepperSetup)
    (h : checkSetup arrs s = SVerdict.ok) :
    ∀ k ∈ s.kw, ∀ o, s.objs[k.2]? = some o → ∃ pa, findArr arrs k.1 = some pa ∧
      ∀ m, (m ∈ o.methods.map (·.1) ∨ m ∈ wrapperNames s.pairs) →
        ∀ x ∈ (o.on k.1).args m, (isSrcArr x || isDstArr x) = true → strip x ∈ pa.props := by
  intro k hk o ho
  have hmem : o.on k.1 ∈ s.pairs := (mem_pairsOf _ _ _).mpr ⟨k, hk, o, ho, rfl⟩
  exact stepper_check_complete arrs s.pairs h (o.on k.1) hmem

/-- **shared_stepper_bindings_exist.**  Every pointer the generated integrator
binds — one set-up per keyword, whether or not its stepper object is shared —
exists in the array of that keyword. -/
theorem shared_stepper_bindings_exist (arrs : List PArr) (s : StepperSetup)
    (h : checkSetup arrs s = SVerdict.ok) :
    ∀ b ∈ setupBindings s, ∃ pa, findArr arrs b.1 = some pa ∧ b.2.2 ∈ pa.props := by
  intro b hb
  obtain ⟨pa, hpa, hp, _⟩ := stepper_bound_names_are_checked arrs s.pairs h b hb
  exact ⟨pa, hpa, hp⟩

/-- **shared_stepper_incomplete_is_rejected.**  If all keywords are particle
arrays and the array of SOME keyword — first or later among those that carry
the same object — lacks a property that a method of its stepper names through
`d_*` or `s_*`, code generation raises the "requires the following properties"
error. -/
theorem shared_stepper_incomplete_is_rejected (arrs : List PArr) (s : StepperSetup)
    (hnames : checkStepperNames arrs s.pairs = SVerdict.ok)
    (k : Name × Nat) (hk : k ∈ s.kw) (o : StepObj) (ho : s.objs[k.2]? = some o)
    (m : Name) (hm : m ∈ o.methods.map (·.1))
    (x : Name) (hx : x ∈ (o.on k.1).args m) (hsd : (isSrcArr x || isDstArr x) = true)
    (pa : PArr) (hpa : findArr arrs k.1 = some pa) (hmiss : strip x ∉ pa.props) :
    ∃ c d ns, checkSetup arrs s = SVerdict.missing c d ns := by
  have hmem : o.on k.1 ∈ s.pairs := (mem_pairsOf _ _ _).mpr ⟨k, hk, o, ho, rfl⟩
  exact stepper_missing_arg_is_rejected arrs s.pairs hnames (o.on k.1) hmem m hm x hx hsd pa
    hpa hmiss

/-- **per_object_check_agrees_when_unshared.**  When every keyword was given
its own stepper object (also objects of one class), checking once per object is
the same as what the code does; the two can differ only on a shared object. -/
theorem per_object_check_agrees_when_unshared (arrs : List PArr) (s : StepperSetup)
    (h : (s.kw.map (·.2)).Nodup) : checkSetupPerObject arrs s = checkSetup arrs s := by
  unfold checkSetupPerObject checkSetup checkSteppers StepperSetup.pairs
  rw [firstPerObject_eq_self [] s.kw h (fun _ _ hm => by cases hm)]
  cases checkStepperNames arrs (pairsOf s.objs s.kw) <;> rfl

def rk2Obj : StepObj :=
  { cls := "RK2Step",
    methods := [("initialize", ["self", "d_idx", "d_x0", "d_x"]),
                ("stage1", ["self", "d_idx", "d_x0", "d_x", "d_u", "dt"])],
    pyStages := [] }
def rk2Arrs : List PArr :=
  [{ name := "fluid", props := ["tag", "pid", "gid", "x", "u", "x0"] },
   { name := "solid", props := ["tag", "pid", "gid", "x", "u"] }]
/-- `step = RK2Step(); Integrator(fluid=step, solid=step)` -/
def rk2Shared : StepperSetup := { objs := [rk2Obj], kw := [("fluid", 0), ("solid", 0)] }

/-- **per_object_check_incomplete (counterexample).**  A property check that is
run once per stepper object accepts `Integrator(fluid=step, solid=step)` with a
`solid` that has no `x0`, although the generated integrator binds
`d_x0 = dst.x0.data` for `solid`; the check of the code (per keyword) rejects it
naming the class, `solid` and `x0`. -/
theorem per_object_check_incomplete :
    rk2Shared.wf = true ∧
    checkSetupPerObject rk2Arrs rk2Shared = SVerdict.ok ∧
    ("solid", "d_x0", "x0") ∈ setupBindings rk2Shared ∧
    (∀ pa, findArr rk2Arrs "solid" = some pa → "x0" ∉ pa.props) ∧
    checkSetup rk2Arrs rk2Shared = SVerdict.missing "RK2Step" "solid" ["x0"] := by
  refine ⟨by decide +kernel, by decide +kernel, by decide +kernel, ?_, by decide +kernel⟩
  intro pa h
  have : findArr rk2Arrs "solid" =
      some { name := "solid", props := ["tag", "pid", "gid", "x", "u"] } := by decide +kernel
  rw [this] at h
  cases h
  decide +kernel

/-! ## the whole build -/

/-- **no_incomplete_problem_reaches_execution.**  If `AccelerationEval(...)`
followed by `SPHCompiler(...)` code generation raises nothing, then every
equation and every stepper is complete and every array pointer taken by the
generated evaluator and integrator exists. -/
theorem no_incomplete_problem_reaches_execution (t : Table) (arrs : List PArr)
    (gs : List GroupT) (sts : List Stepper) (h : buildAll t arrs gs sts = Outcome.ok) :
    (∀ e ∈ allEquations gs, Complete t arrs e) ∧
    (∀ ap ∈ programAccesses t gs, ∃ arr, findArr arrs ap.1 = some arr ∧ ap.2 ∈ arr.props) ∧
    (∀ ap ∈ stepperAccesses sts, ∃ pa, findArr arrs ap.1 = some pa ∧ ap.2 ∈ pa.props) := by
  unfold buildAll at h
  cases hc : checkProgram t arrs gs with
  | ok =>
    rw [hc] at h
    simp only at h
    cases hs : checkSteppers arrs sts with
    | ok =>
      exact ⟨check_complete t arrs gs hc, generated_reads_exist t arrs gs hc,
        stepper_reads_exist arrs sts hs⟩
    | invalidStepper n => rw [hs] at h; cases h
    | missing a b c => rw [hs] at h; cases h
  | invalidDest a b => rw [hc] at h; cases h
  | invalidSource a b => rw [hc] at h; cases h
  | missing a b => rw [hc] at h; cases h

/-! ## the checker before the repair (pinned tree, finding F10) -/

/-- What the pinned checker did establish: the explicit needs only. -/
theorem orig_check_complete_partial (arrs : List PArr) (gs : List GroupT)
    (h : checkProgramOrig arrs gs = Verdict.ok) :
    ∀ e ∈ allEquations gs, ∃ d, findArr arrs e.dest = some d ∧
      (∀ n ∈ e.allArgs, isDstArr n = true → strip n ∈ d.props) ∧
      ∀ s ∈ e.sources.getD [], ∃ a, findArr arrs s = some a ∧
        ∀ n ∈ e.allArgs, isSrcArr n = true → strip n ∈ a.props := by
  intro e he
  have h1 := (firstError_ok _ _).mp h e he
  obtain ⟨d, hd, hdn, hsn⟩ := checkEquationWith_ok h1
  refine ⟨d, hd, ?_, ?_⟩
  · intro n hn hnd
    exact hdn n (by simp [explicitNeeds, hn, hnd])
  · intro s hs
    obtain ⟨a, ha, han⟩ := hsn s hs
    exact ⟨a, ha, fun n hn hns => han n (by simp [explicitNeeds, hn, hns])⟩

def vijTable : Table := [("VIJ", ["VIJ", "d_idx", "d_u", "d_v", "d_w", "s_idx", "s_u", "s_v", "s_w"])]
def vijEqn : Eqn :=
  { name := "UsesVIJ", dest := "f", sources := some ["f"], mInit := none, mInitPair := none
    mLoop := some ["self", "d_idx", "d_au", "VIJ"], mLoopAll := none, mPostLoop := none }
def vijArrs : List PArr := [{ name := "f", props := ["tag", "pid", "gid", "au", "v", "w"] }]

/-- **F10 (counterexample).**  The checker of the pinned tree accepted an
equation using `VIJ` on an array without `u`, although the generated code takes
the pointer `dst.u.data`. -/
theorem orig_check_incomplete :
    checkProgramOrig vijArrs [GroupT.flat [vijEqn]] = Verdict.ok ∧
    ("f", "u") ∈ programAccesses vijTable [GroupT.flat [vijEqn]] ∧
    ∀ arr, findArr vijArrs "f" = some arr → "u" ∉ arr.props := by
  refine ⟨by decide +kernel, by decide +kernel, ?_⟩
  intro arr h
  have : findArr vijArrs "f" = some { name := "f", props := ["tag", "pid", "gid", "au", "v", "w"] } := by
    decide +kernel
  rw [this] at h
  cases h
  decide +kernel

/-- the repaired checker rejects it, naming the equation, the array and `u` -/
theorem repaired_check_rejects_F10 :
    checkProgram vijTable vijArrs [GroupT.flat [vijEqn]] =
      Verdict.missing "UsesVIJ" [("f", ["u"]), ("f", ["u"])] := by
  decide +kernel

/-- The repair only adds rejections: whatever the repaired checker accepts the
pinned one accepted too. -/
theorem repair_is_conservative (t : Table) (arrs : List PArr) (gs : List GroupT)
    (h : checkProgram t arrs gs = Verdict.ok) : checkProgramOrig arrs gs = Verdict.ok := by
  apply (firstError_ok _ _).mpr
  intro e he
  have h1 := (firstError_ok _ _).mp h e he
  -- every explicit need is a need of the repaired checker
  have hd : ∀ x ∈ (explicitNeeds e).2.map strip, x ∈ (groupNeeds t e).2.map strip := by
    intro x hx
    obtain ⟨n, hn, rfl⟩ := List.mem_map.mp hx
    simp only [explicitNeeds, List.mem_filter] at hn
    exact List.mem_map.mpr ⟨n, (mem_groupNeeds_dst t e n).mpr ⟨hn.2, Or.inl hn.1⟩, rfl⟩
  have hs : ∀ x ∈ (explicitNeeds e).1.map strip, x ∈ (groupNeeds t e).1.map strip := by
    intro x hx
    obtain ⟨n, hn, rfl⟩ := List.mem_map.mp hx
    simp only [explicitNeeds, List.mem_filter] at hn
    exact List.mem_map.mpr ⟨n, (mem_groupNeeds_src t e n).mpr ⟨hn.2, Or.inl hn.1⟩, rfl⟩
  have hmono : ∀ (a : PArr) (n1 n2 : List Name), (∀ x ∈ n1, x ∈ n2) →
      checkArray a n2 = none → checkArray a n1 = none := by
    intro a n1 n2 h12 hc
    unfold checkArray at hc ⊢
    split at hc
    · rename_i hss
      simp only [strictSubset, Bool.and_eq_true, Bool.not_eq_true'] at hss
      have h1' : subset n1 a.props = true :=
        (subset_iff _ _).mpr (fun x hx => (subset_iff _ _).mp hss.1 x (h12 x hx))
      have h2' : subset a.props n1 = false := by
        cases hb : subset a.props n1 with
        | false => rfl
        | true =>
          have : subset a.props n2 = true :=
            (subset_iff _ _).mpr (fun x hx => h12 x ((subset_iff _ _).mp hb x hx))
          rw [this] at hss
          exact absurd hss.2 (by simp)
      simp [strictSubset, h1', h2']
    · cases hc
  unfold checkEquationOrig
  unfold checkEquation checkEquationWith at h1
  unfold checkEquationWith
  cases hfd : findArr arrs e.dest with
  | none => rw [hfd] at h1; cases h1
  | some d =>
    rw [hfd] at h1
    simp only at h1 ⊢
    cases hsrc : e.sources with
    | none =>
      rw [hsrc] at h1
      simp only at h1 ⊢
      cases hc : checkArray d ((groupNeeds t e).2.map strip) with
      | none => rw [hmono d _ _ hd hc]
      | some err => rw [hc] at h1; cases h1
    | some srcs =>
      rw [hsrc] at h1
      simp only at h1 ⊢
      cases hf : srcs.find? (fun s => (findArr arrs s).isNone) with
      | some s => rw [hf] at h1; cases h1
      | none =>
        rw [hf] at h1
        simp only at h1 ⊢
        split at h1
        · rename_i hemp
          simp only [List.isEmpty_iff, List.append_eq_nil_iff, List.filterMap_eq_nil_iff] at hemp
          obtain ⟨e1, e2⟩ := hemp
          have hc : checkArray d ((groupNeeds t e).2.map strip) = none := by
            cases hcc : checkArray d ((groupNeeds t e).2.map strip) with
            | none => rfl
            | some x => rw [hcc] at e1; simp at e1
          have hnil : (checkArray d ((explicitNeeds e).2.map strip)).toList ++
              srcs.filterMap (checkSrc arrs ((explicitNeeds e).1.map strip)) = [] := by
            rw [hmono d _ _ hd hc]
            simp only [Option.toList_none, List.nil_append, List.filterMap_eq_nil_iff]
            intro s hsm
            have := e2 s hsm
            unfold checkSrc at this ⊢
            cases hfa : findArr arrs s with
            | none => rfl
            | some a =>
              rw [hfa] at this
              exact hmono a _ _ hs this
          simp [hnil]
        · cases h1

/-! ## non-vacuity: concrete problems meeting the hypotheses -/

def wijTable : Table :=
  [("HIJ", ["HIJ", "d_h", "d_idx", "s_h", "s_idx"]),
   ("XIJ", ["XIJ", "d_idx", "d_x", "d_y", "d_z", "s_idx", "s_x", "s_y", "s_z"]),
   ("R2IJ", ["R2IJ", "XIJ"]), ("RIJ", ["R2IJ", "RIJ", "sqrt"]),
   ("WIJ", ["HIJ", "KERNEL", "RIJ", "WIJ", "XIJ"])]
def sdEqn : Eqn :=
  { name := "SummationDensity", dest := "fluid", sources := some ["fluid", "solid"]
    mInit := some ["self", "d_idx", "d_rho"], mInitPair := none
    mLoop := some ["self", "d_idx", "d_rho", "s_idx", "s_m", "WIJ"], mLoopAll := none
    mPostLoop := none }
def sdArrs : List PArr :=
  [{ name := "fluid", props := ["tag", "pid", "gid", "x", "y", "z", "h", "m", "rho"] },
   { name := "solid", props := ["tag", "pid", "gid", "x", "y", "z", "h", "m"] }]

/-- a complete two-array problem inside a sub-group is accepted, the closure of
`WIJ` is all five symbols, and the generated code reads `h` of the solid -/
example :
    checkProgram wijTable sdArrs [GroupT.sub [[sdEqn], []]] = Verdict.ok ∧
    closure wijTable sdEqn.loopArgs = ["WIJ", "HIJ", "RIJ", "XIJ", "R2IJ"] ∧
    ("solid", "h") ∈ programAccesses wijTable [GroupT.sub [[sdEqn], []]] := by
  refine ⟨by decide +kernel, by decide +kernel, by decide +kernel⟩

/-- removing the implicitly needed `h` from the second source is rejected -/
example :
    checkProgram wijTable
      [{ name := "fluid", props := ["tag", "pid", "gid", "x", "y", "z", "h", "m", "rho"] },
       { name := "solid", props := ["tag", "pid", "gid", "x", "y", "z", "m"] }]
      [GroupT.sub [[sdEqn], []]] =
    Verdict.missing "SummationDensity" [("solid", ["h"])] := by
  decide +kernel

/-- a stepper whose `stage1` needs `x0` on an array without it -/
example :
    checkSteppers sdArrs
      [{ dest := "fluid", cls := "RK2Step",
         methods := [("initialize", ["self", "d_idx", "d_x"]),
                     ("stage1", ["self", "d_idx", "d_x", "d_x0", "dt"])],
         pyStages := [] }] =
    SVerdict.missing "RK2Step" "fluid" ["x0"] := by
  decide +kernel

/-- a damped stepper that names the damping coefficient through a source-style
argument: complete on `fluid`, incomplete on `solid` although `fluid` has it -/
def dampStepper (dest : Name) : Stepper :=
  { dest := dest, cls := "DampedEulerStep",
    methods := [("stage1", ["self", "d_idx", "d_x", "d_rho", "s_damp", "dt"])], pyStages := [] }
def dampArrs : List PArr :=
  [{ name := "fluid", props := ["tag", "pid", "gid", "x", "rho", "damp"] },
   { name := "solid", props := ["tag", "pid", "gid", "x", "rho"] }]

example :
    checkSteppers dampArrs [dampStepper "fluid"] = SVerdict.ok ∧
    checkSteppers dampArrs [dampStepper "fluid", dampStepper "solid"] =
      SVerdict.missing "DampedEulerStep" "solid" ["damp"] ∧
    "s_damp" ∈ knownTypes dampArrs ∧
    ("fluid", "s_damp", "damp") ∈ stepperBindings [dampStepper "fluid"] ∧
    stepperDeclNames [dampStepper "fluid"] "stage1" = ["d_rho", "d_x", "s_damp"] := by
  refine ⟨by decide +kernel, by decide +kernel, by decide +kernel, by decide +kernel,
    by decide +kernel⟩

/-- two objects of one class are checked one by one by either reading; the shared
object with the incomplete array named first is rejected by both -/
example :
    checkSetup rk2Arrs { objs := [rk2Obj, rk2Obj], kw := [("fluid", 0), ("solid", 1)] } =
      SVerdict.missing "RK2Step" "solid" ["x0"] ∧
    checkSetupPerObject rk2Arrs { objs := [rk2Obj, rk2Obj], kw := [("fluid", 0), ("solid", 1)] } =
      SVerdict.missing "RK2Step" "solid" ["x0"] ∧
    checkSetupPerObject rk2Arrs { objs := [rk2Obj], kw := [("solid", 0), ("fluid", 0)] } =
      SVerdict.missing "RK2Step" "solid" ["x0"] ∧
    checkSetup [{ name := "fluid", props := ["tag", "pid", "gid", "x", "u", "x0"] },
                { name := "solid", props := ["tag", "pid", "gid", "x", "u", "x0", "m"] }]
      rk2Shared = SVerdict.ok := by
  refine ⟨by decide +kernel, by decide +kernel, by decide +kernel, by decide +kernel⟩

end PysphVerif.C20
