import PysphVerif.Lemmas.SolverLoop
import PysphVerif.Lemmas.SolverLoopTerm
/-!
# C10 — the solver loop reaches `tf` exactly and honours the output schedule

Property theorems only (helper lemmas live in `Lemmas/SolverLoop.lean`).  They
are about `Model/SolverLoop.lean`, which transcribes `Solver.solve`,
`_get_timestep`, `_compute_timestep`, `_damp_timestep`,
`_dump_output_if_needed`, `_land_on_output_time` and `_get_solver_data` (as
repaired by proposed_fixes/C10-output-time-landing.diff) and is tied to the
code by bit-exact differential execution of whole event traces at `Float`.

All statements hold over every linearly ordered field `α` and every
configuration `c`, initial step `dt0` with `Good c dt0`: ε ≥ 0, tf ≥ 0,
arbitrary positive damping factors, an ARBITRARY positive adaptive sequence
`c.adapt : ℕ → Option α` (with `none` = the integrator declines), arbitrary
`pfreq`, `n_damp`, `max_steps`, and any sorted list of requested times
(clustered, duplicated, on step times, equal to or beyond tf).
`(solve c dt0).2` is the whole event trace, `(solve c dt0).1` the final state.
`terminates` and the two exact `recorded_dt_*_mode` theorems additionally
assume `Lower`: a positive lower bound on the proposed steps and a
non-decreasing damping ramp inside `[fmin, 1]`.

What is NOT covered: rounding of `t + dt` (the theorems are exact-field; the
harness evaluates the property on every implementation trace instead), and
the one measure-zero corner kept as a disjunct in `dump_at_requested_time`.
-/
set_option linter.unusedSectionVars false
namespace PysphVerif.C10
open PysphVerif.SolverLoop

variable {α : Type} [Field α] [LinearOrder α] [IsStrictOrderedRing α]

/-- the states with which `integrator.step(t, dt)` was called, in order -/
def stepsOf : List (Ev α) → List (St α)
  | [] => []
  | Ev.step s :: rest => s :: stepsOf rest
  | _ :: rest => stepsOf rest

/-- the trace without the dump events -/
def noDumps : List (Ev α) → List (Ev α)
  | [] => []
  | Ev.dump _ :: rest => noDumps rest
  | e :: rest => e :: noDumps rest

/-- `(pre, step, post)*` -/
def Bracketed : List (Ev α) → Prop
  | [] => True
  | Ev.pre :: Ev.step _ :: Ev.post :: rest => Bracketed rest
  | _ => False

/-! ## structure of the trace (private helpers) -/

private theorem dumpIfNeeded_snd (c : Cfg α) (g : St α) :
    (dumpIfNeeded c g).2 = [] ∨ (dumpIfNeeded c g).2 = [Ev.dump (dumpIfNeeded c g).1] := by
  unfold dumpIfNeeded
  split
  · left; rfl
  · dsimp only
    split
    · right; rfl
    · left; rfl

private theorem mem_iterEv (c : Cfg α) (s : St α) (e : Ev α) (h : e ∈ iterEv c s) :
    e = Ev.pre ∨ e = Ev.step s ∨ e = Ev.post ∨ e = Ev.dump (iterSt c s) := by
  unfold iterEv at h
  rcases List.mem_append.mp h with h1 | h2
  · simp at h1
    rcases h1 with h | h | h
    · left; exact h
    · right; left; exact h
    · right; right; left; exact h
  · right; right; right
    rcases dumpIfNeeded_snd c (getTimestep c (advance c s)) with h0 | h0
    · rw [h0] at h2; simp at h2
    · rw [h0] at h2; simpa [iterSt] using h2

private theorem mem_solve (c : Cfg α) (dt0 : α) (e : Ev α) (h : e ∈ (solve c dt0).2) :
    e = Ev.dump (init c dt0) ∨ e ∈ (loop c c.maxSteps (start c dt0)).2 ∨
      e = Ev.dump (solve c dt0).1 := by
  unfold solve at h ⊢
  simp only [List.mem_append, List.mem_cons, List.not_mem_nil, or_false] at h
  rcases h with (h | h) | h
  · left; exact h
  · right; left; exact h
  · right; right; exact h

/-- every event of the loop satisfies `Q` if every event of a guarded pass from
a state satisfying the invariant does -/
private theorem loop_inv_events (c : Cfg α) (dt0 : α) (G : Good c dt0) (Q : Ev α → Prop)
    (hev : ∀ s, Inv c s → guard c s = true → ∀ e ∈ iterEv c s, Q e) :
    ∀ e ∈ (loop c c.maxSteps (start c dt0)).2, Q e :=
  loop_events c (Inv c) Q
    (fun s I hg => inv_iterSt c dt0 G s I (guard_running c s hg).1) hev _ _ (inv_start c dt0 G)

private theorem inv_final (c : Cfg α) (dt0 : α) (G : Good c dt0) : Inv c (solve c dt0).1 :=
  loop_final c (Inv c) (fun s I hg => inv_iterSt c dt0 G s I (guard_running c s hg).1)
    _ _ (inv_start c dt0 G)

/-- a `step` event of the run is a guarded loop-head state satisfying the invariant -/
private theorem step_event (c : Cfg α) (dt0 : α) (G : Good c dt0) (s : St α)
    (h : Ev.step s ∈ (solve c dt0).2) : Inv c s ∧ Running c s := by
  rcases mem_solve c dt0 _ h with h | h | h
  · cases h
  · refine loop_inv_events c dt0 G (fun e => ∀ s, e = Ev.step s → Inv c s ∧ Running c s) ?_ _ h s rfl
    intro s' I hg e he s'' hs
    subst hs
    rcases mem_iterEv c s' _ he with h | h | h | h
    · cases h
    · cases h; exact ⟨I, (guard_running c s' hg).1⟩
    · cases h
    · cases h
  · cases h

/-! ## time increases strictly -/

/-- Every step the integrator is asked to take has `dt > 0`. -/
theorem step_dt_pos (c : Cfg α) (dt0 : α) (G : Good c dt0) (s : St α)
    (h : Ev.step s ∈ (solve c dt0).2) : 0 < s.dt :=
  let ⟨I, hr⟩ := step_event c dt0 G s h; I.dt_pos hr

private theorem iterSt_t (c : Cfg α) (s : St α) : (iterSt c s).t = s.t + s.dt := by
  unfold iterSt
  rw [dumpIfNeeded_fst]
  split
  · rw [(getTimestep_fields c _).1]; rfl
  · rw [(landOn_t _ _).1, (getTimestep_fields c _).1]; rfl

private theorem iterSt_count (c : Cfg α) (s : St α) : (iterSt c s).count = s.count + 1 := by
  unfold iterSt
  rw [dumpIfNeeded_fst]
  split
  · rw [(getTimestep_fields c _).2.2]; rfl
  · rw [(landOn_t _ _).2.2.1, (getTimestep_fields c _).2.2]; rfl

private theorem stepsOf_append (l1 l2 : List (Ev α)) :
    stepsOf (l1 ++ l2) = stepsOf l1 ++ stepsOf l2 := by
  induction l1 with
  | nil => rfl
  | cons e rest ih => cases e <;> simp [stepsOf, ih]

private theorem stepsOf_iterEv (c : Cfg α) (s : St α) : stepsOf (iterEv c s) = [s] := by
  unfold iterEv
  rcases dumpIfNeeded_snd c (getTimestep c (advance c s)) with h0 | h0 <;>
    rw [h0] <;> simp [stepsOf]

private theorem mem_stepsOf (l : List (Ev α)) (b : St α) : b ∈ stepsOf l ↔ Ev.step b ∈ l := by
  induction l with
  | nil => simp [stepsOf]
  | cons e rest ih => cases e <;> simp [stepsOf, ih]

private theorem loop_steps_ge (c : Cfg α) (dt0 : α) (G : Good c dt0) :
    ∀ fuel s, Inv c s → ∀ b, Ev.step b ∈ (loop c fuel s).2 → s.t ≤ b.t := by
  intro fuel s I b hb
  refine loop_events c (fun s' => Inv c s' ∧ s.t ≤ s'.t) (fun e => ∀ b, e = Ev.step b → s.t ≤ b.t)
    ?_ ?_ fuel s ⟨I, le_refl _⟩ _ hb b rfl
  · intro s' ⟨I', hle⟩ hg
    have hr := (guard_running c s' hg).1
    refine ⟨inv_iterSt c dt0 G s' I' hr, ?_⟩
    rw [iterSt_t]
    have := I'.dt_pos hr
    linarith
  · intro s' ⟨_, hle⟩ _ e he b' hb'
    subst hb'
    rcases mem_iterEv c s' _ he with h | h | h | h
    · cases h
    · cases h; exact hle
    · cases h
    · cases h

private theorem loop_steps_pairwise (c : Cfg α) (dt0 : α) (G : Good c dt0) :
    ∀ fuel s, Inv c s → (stepsOf (loop c fuel s).2).Pairwise (fun a b => a.t + a.dt ≤ b.t) := by
  intro fuel
  induction fuel with
  | zero => intro s _; simp [loop, stepsOf]
  | succ n ih =>
    intro s I
    unfold loop
    split
    · rename_i hg
      have hr := (guard_running c s hg).1
      have I' := inv_iterSt c dt0 G s I hr
      simp only [stepsOf_append, stepsOf_iterEv, List.singleton_append]
      refine List.pairwise_cons.mpr ⟨?_, ih _ I'⟩
      intro b hb
      have := loop_steps_ge c dt0 G n _ I' b ((mem_stepsOf _ _).mp hb)
      rw [iterSt_t] at this
      exact this
    · simp [stepsOf]

/-- **Time increases strictly.**  Every later step starts at or after the end
`t + dt` of every earlier one (and each `dt` is positive by `step_dt_pos`). -/
theorem time_strictly_increases (c : Cfg α) (dt0 : α) (G : Good c dt0) :
    (stepsOf (solve c dt0).2).Pairwise (fun a b => a.t + a.dt ≤ b.t ∧ a.t < b.t) := by
  have h1 : stepsOf (solve c dt0).2 = stepsOf (loop c c.maxSteps (start c dt0)).2 := by
    unfold solve
    simp [stepsOf_append, stepsOf]
  have h2 := loop_steps_pairwise c dt0 G c.maxSteps _ (inv_start c dt0 G)
  rw [h1]
  have hpos : ∀ a ∈ stepsOf (loop c c.maxSteps (start c dt0)).2, 0 < a.dt := by
    intro a ha
    apply step_dt_pos c dt0 G a
    rw [← mem_stepsOf, h1]; exact ha
  clear h1
  generalize stepsOf (loop c c.maxSteps (start c dt0)).2 = L at h2 hpos
  induction h2 with
  | nil => exact List.Pairwise.nil
  | @cons a l hab _ ih =>
    refine List.Pairwise.cons ?_ (ih (fun x hx => hpos x (List.mem_cons_of_mem _ hx)))
    intro b hb
    have := hab b hb
    have := hpos a (List.mem_cons_self)
    exact ⟨hab b hb, by linarith⟩

/-- The time handed to the next `integrator.step` is exactly `t + dt`. -/
theorem time_advances_by_dt (c : Cfg α) (s : St α) :
    (iterSt c s).t = s.t + s.dt ∧ (iterSt c s).count = s.count + 1 :=
  ⟨iterSt_t c s, iterSt_count c s⟩

/-! ## no step exceeds the current step size -/

/-- Outside the early return, `nom` is the current step size: the value the
integrator proposed (or, when it declines / in fixed mode, the undamped
previous nominal step) times the damping factor for this iteration. -/
theorem nom_is_current_step_size (c : Cfg α) (a : St α) (h : ¬ absv (c.tf - a.t) < a.eps) :
    (getTimestep c a).nom =
      (computeTimestep c (restorePrev a)).1 * newDamp c (computeTimestep c (restorePrev a)).2 ∧
    (getTimestep c a).damp = newDamp c (computeTimestep c (restorePrev a)).2 := by
  unfold getTimestep
  simp only [h, if_false]
  exact ⟨(dampAndLand_fields c _ _).2.2.2.2.2, (dampAndLand_fields c _ _).2.2.2.2.1⟩

/-- **No step exceeds the current (damped, adaptive or fixed) step size**,
except that the step that lands on `tf` may be longer by less than ε. -/
theorem step_le_current_dt (c : Cfg α) (dt0 : α) (G : Good c dt0) (s : St α)
    (h : Ev.step s ∈ (solve c dt0).2) :
    s.dt ≤ s.nom ∨ (s.landed = true ∧ s.dt < s.nom + s.eps) :=
  let ⟨I, hr⟩ := step_event c dt0 G s h; I.le_nom hr

/-! ## the loop ends at `tf` -/

/-- **Reaches `tf`.**  If the loop was not stopped by `max_steps`, the final
time satisfies `tf - ε ≤ t ≤ tf` with ε the solver's own final epsilon; time
never exceeds `tf`. -/
theorem lands_on_tf (c : Cfg α) (dt0 : α) (G : Good c dt0)
    (hmax : (solve c dt0).1.count < c.maxSteps) :
    (solve c dt0).1.t ≤ c.tf ∧ c.tf - (solve c dt0).1.t ≤ (solve c dt0).1.eps := by
  have I := inv_final c dt0 G
  refine ⟨I.t_le_tf, ?_⟩
  have hg : SolverLoop.guard c (solve c dt0).1 = false := by
    apply loop_final_guard
    have : (start c dt0).count = 0 := by
      unfold start
      rw [(landOn_t _ _).2.2.1, (getTimestep_fields c _).2.2]; rfl
    omega
  have hmax' : (loop c c.maxSteps (start c dt0)).1.count < c.maxSteps := hmax
  have : ¬ ((loop c c.maxSteps (start c dt0)).1.eps < c.tf - (loop c c.maxSteps (start c dt0)).1.t) := by
    intro h
    have : SolverLoop.guard c (loop c c.maxSteps (start c dt0)).1 = true := by
      simp [SolverLoop.guard, h, hmax']
    rw [show (solve c dt0).1 = (loop c c.maxSteps (start c dt0)).1 from rfl] at hg
    rw [hg] at this; cases this
  exact not_lt.mp this

/-- With ε = 0 the final time is exactly `tf`. -/
theorem lands_on_tf_exact (c : Cfg α) (dt0 : α) (G : Good c dt0) (h0 : c.EPS = 0)
    (hmax : (solve c dt0).1.count < c.maxSteps) : (solve c dt0).1.t = c.tf := by
  obtain ⟨h1, h2⟩ := lands_on_tf c dt0 G hmax
  have heps : (solve c dt0).1.eps = 0 := by
    refine loop_final c (fun s => s.eps = 0) ?_ _ _ ?_
    · intro s _ _
      unfold iterSt
      rw [dumpIfNeeded_fst]
      split
      · rw [(getTimestep_fields c _).2.1]; simp [advance, h0]
      · rw [(landOn_t _ _).2.1, (getTimestep_fields c _).2.1]; simp [advance, h0]
    · unfold start
      rw [(landOn_t _ _).2.1, (getTimestep_fields c _).2.1]; simp [init, h0]
  rw [heps] at h2
  linarith

/-- `max_steps` is honoured. -/
theorem count_le_max_steps (c : Cfg α) (dt0 : α) : (solve c dt0).1.count ≤ c.maxSteps := by
  have : ∀ fuel s, s.count ≤ c.maxSteps → (loop c fuel s).1.count ≤ c.maxSteps := by
    intro fuel
    induction fuel with
    | zero => intro s h; exact h
    | succ n ih =>
      intro s h
      unfold loop
      split
      · rename_i hg
        apply ih
        rw [iterSt_count]
        have := (guard_running c s hg).2
        omega
      · exact h
  apply this
  have : (start c dt0).count = 0 := by
    unfold start
    rw [(landOn_t _ _).2.2.1, (getTimestep_fields c _).2.2]; rfl
  omega

/-! ## requested output times are never stepped past -/

/-- **Never past a requested time.**  A step that starts more than ε before a
requested time `T` ends at or before `T`. -/
theorem never_past_requested_time (c : Cfg α) (dt0 : α) (G : Good c dt0) (s : St α)
    (h : Ev.step s ∈ (solve c dt0).2) (T : α) (hT : T ∈ c.outT) (hbefore : s.eps < T - s.t) :
    s.t + s.dt ≤ T :=
  let ⟨I, hr⟩ := step_event c dt0 G s h; I.not_past hr T hT hbefore

/-! ## the recorded step size -/

/-- a `dump` event of the run carries a state satisfying the invariant -/
private theorem dump_event (c : Cfg α) (dt0 : α) (G : Good c dt0) (s : St α)
    (h : Ev.dump s ∈ (solve c dt0).2) : s = init c dt0 ∨ Inv c s := by
  rcases mem_solve c dt0 _ h with h | h | h
  · left; cases h; rfl
  · right
    refine loop_inv_events c dt0 G (fun e => ∀ s, e = Ev.dump s → Inv c s) ?_ _ h s rfl
    intro s' I hg e he s'' hs
    subst hs
    rcases mem_iterEv c s' _ he with h | h | h | h
    · cases h
    · cases h
    · cases h
    · cases h; exact inv_iterSt c dt0 G s' I (guard_running c s' hg).1
  · right; cases h; exact inv_final c dt0 G

/-- **The recorded step size is the nominal one.**  Every dump written while
the run is still short of `tf` and not on the step that lands on `tf` records
`nom / damp`: the current undamped step size, whether or not the next step
was shortened to land on a requested time. -/
theorem recorded_dt_is_nominal (c : Cfg α) (dt0 : α) (G : Good c dt0) (s : St α)
    (h : Ev.dump s ∈ (solve c dt0).2) (hr : Running c s) (hl : s.landed = false) :
    solverData s = s.nom / s.damp := by
  rcases dump_event c dt0 G s h with rfl | I
  · simp [solverData, undamped, init]
  · exact I.rec_nom hr hl

/-- … and `nom / damp` is the undamped current step: what the integrator
proposed, or the undamped previous nominal step. -/
theorem nominal_undamped (c : Cfg α) (dt0 : α) (G : Good c dt0) (a : St α)
    (h : ¬ absv (c.tf - a.t) < a.eps) :
    (getTimestep c a).nom / (getTimestep c a).damp = (computeTimestep c (restorePrev a)).1 := by
  obtain ⟨h1, h2⟩ := nom_is_current_step_size c a h
  rw [h1, h2]
  have := newDamp_pos c (computeTimestep c (restorePrev a)).2 G.hdamp
  rw [mul_div_assoc, div_self (ne_of_gt this), mul_one]

/-! ## callbacks -/

private theorem noDumps_append (l1 l2 : List (Ev α)) :
    noDumps (l1 ++ l2) = noDumps l1 ++ noDumps l2 := by
  induction l1 with
  | nil => rfl
  | cons e rest ih => cases e <;> simp [noDumps, ih]

private theorem noDumps_iterEv (c : Cfg α) (s : St α) :
    noDumps (iterEv c s) = [Ev.pre, Ev.step s, Ev.post] := by
  unfold iterEv
  rcases dumpIfNeeded_snd c (getTimestep c (advance c s)) with h0 | h0 <;>
    rw [h0] <;> simp [noDumps]

private theorem loop_bracketed (c : Cfg α) :
    ∀ fuel s, Bracketed (noDumps (loop c fuel s).2) ∧
      (loop c fuel s).1.count = s.count + (stepsOf (loop c fuel s).2).length := by
  intro fuel
  induction fuel with
  | zero => intro s; simp [loop, noDumps, Bracketed, stepsOf]
  | succ n ih =>
    intro s
    unfold loop
    split
    · obtain ⟨h1, h2⟩ := ih (iterSt c s)
      simp only [noDumps_append, noDumps_iterEv, stepsOf_append, stepsOf_iterEv]
      refine ⟨h1, ?_⟩
      rw [h2, iterSt_count]
      simp; omega
    · simp [noDumps, Bracketed, stepsOf]

/-- **Callbacks run exactly once per step**: without the dump events the trace
is `(pre, step, post)*`, and the final iteration count is the number of steps. -/
theorem callbacks_once_per_step (c : Cfg α) (dt0 : α) :
    Bracketed (noDumps (solve c dt0).2) ∧
    (solve c dt0).1.count = (stepsOf (solve c dt0).2).length := by
  obtain ⟨h1, h2⟩ := loop_bracketed c c.maxSteps (start c dt0)
  have hc : (start c dt0).count = 0 := by
    unfold start
    rw [(landOn_t _ _).2.2.1, (getTimestep_fields c _).2.2]; rfl
  unfold solve
  simp only [noDumps_append, stepsOf_append]
  simp only [noDumps, stepsOf, List.nil_append, List.append_nil]
  exact ⟨h1, by rw [h2, hc]; simp⟩

/-! ## dumps at the start, at the end, every `pfreq` iterations -/

/-- The trace starts with a dump of the initial state (t = 0, count = 0,
recorded dt = the configured one) and ends with a dump of the final state. -/
theorem dump_at_start_and_end (c : Cfg α) (dt0 : α) :
    (solve c dt0).2.head? = some (Ev.dump (init c dt0)) ∧
    (solve c dt0).2.getLast? = some (Ev.dump (solve c dt0).1) ∧
    (init c dt0).t = 0 ∧ (init c dt0).count = 0 ∧ solverData (init c dt0) = dt0 := by
  refine ⟨by simp [solve], ?_, rfl, rfl, by simp [solverData, undamped, init]⟩
  simp only [solve]
  exact List.getLast?_concat

private theorem loop_pfreq (c : Cfg α) :
    ∀ fuel s k, s.count < k → k ≤ (loop c fuel s).1.count → k % c.pfreq = 0 →
      ∃ d, Ev.dump d ∈ (loop c fuel s).2 ++ [Ev.dump (loop c fuel s).1] ∧ d.count = k := by
  intro fuel
  induction fuel with
  | zero => intro s k h1 h2 _; simp [loop] at h2; omega
  | succ n ih =>
    intro s k h1 h2 hk
    unfold loop at h2 ⊢
    split at h2
    · rename_i hg
      simp only [hg, if_true]
      by_cases hk1 : k = s.count + 1
      · -- the pass that brings the count to k
        by_cases hearly : absv ((getTimestep c (advance c s)).t - c.tf) < (getTimestep c (advance c s)).eps
        · -- early return of `_dump_output_if_needed`: the loop ends, final dump
          have hst : iterSt c s = getTimestep c (advance c s) := by
            unfold iterSt; rw [dumpIfNeeded_fst]; simp [hearly]
          have hng : SolverLoop.guard c (iterSt c s) = false := by
            rw [hst]
            have : ¬ Running c (getTimestep c (advance c s)) :=
              fun hr => (running_not_early c _ hr).2 hearly
            unfold Running at this
            simp [SolverLoop.guard, this]
          have hl : loop c n (iterSt c s) = (iterSt c s, []) := by
            cases n with
            | zero => rfl
            | succ m => unfold loop; simp [hng]
          refine ⟨iterSt c s, ?_, by rw [iterSt_count, hk1]⟩
          rw [hl]; simp
        · refine ⟨iterSt c s, ?_, by rw [iterSt_count, hk1]⟩
          apply List.mem_append_left
          apply List.mem_append_left
          unfold iterEv
          apply List.mem_append_right
          have hcount : (getTimestep c (advance c s)).count % c.pfreq = 0 := by
            rw [(getTimestep_fields c _).2.2]
            show (s.count + 1) % c.pfreq = 0
            rw [← hk1]; exact hk
          unfold iterSt dumpIfNeeded
          simp [hearly, hcount]
      · have hlt : (iterSt c s).count < k := by rw [iterSt_count]; omega
        obtain ⟨d, hd, hdk⟩ := ih (iterSt c s) k hlt h2 hk
        refine ⟨d, ?_, hdk⟩
        rcases List.mem_append.mp hd with h | h
        · exact List.mem_append_left _ (List.mem_append_right _ h)
        · exact List.mem_append_right _ h
    · simp at h2; omega

/-- **Output every `pfreq`-th iteration**: for every multiple `k` of `pfreq`
up to the final iteration count there is a dump with iteration count `k`. -/
theorem dump_every_pfreq (c : Cfg α) (dt0 : α) (k : Nat) (hk : k ≤ (solve c dt0).1.count)
    (hmod : k % c.pfreq = 0) : ∃ d, Ev.dump d ∈ (solve c dt0).2 ∧ d.count = k := by
  have hc : (start c dt0).count = 0 := by
    unfold start
    rw [(landOn_t _ _).2.2.1, (getTimestep_fields c _).2.2]; rfl
  by_cases h0 : k = 0
  · exact ⟨init c dt0, by simp [solve], by rw [h0]; rfl⟩
  · obtain ⟨d, hd, hdk⟩ := loop_pfreq c c.maxSteps (start c dt0) k (by omega) hk hmod
    refine ⟨d, ?_, hdk⟩
    unfold solve
    rcases List.mem_append.mp hd with h | h
    · simp [h]
    · simp at h; simp [h]

/-! ## output at every requested time -/

private theorem loop_of_not_guard (c : Cfg α) (fuel : Nat) (s : St α)
    (h : SolverLoop.guard c s = false) : loop c fuel s = (s, []) := by
  cases fuel with
  | zero => rfl
  | succ m => unfold loop; simp [h]

private theorem loop_of_guard (c : Cfg α) (n : Nat) (s : St α)
    (h : SolverLoop.guard c s = true) :
    loop c (n + 1) s = ((loop c n (iterSt c s)).1, iterEv c s ++ (loop c n (iterSt c s)).2) := by
  rw [loop]; simp [h]

private theorem iterSt_eps (c : Cfg α) (s : St α) :
    (iterSt c s).eps = (getTimestep c (advance c s)).eps ∧
    (iterSt c s).t = (getTimestep c (advance c s)).t := by
  unfold iterSt
  rw [dumpIfNeeded_fst]
  split
  · exact ⟨rfl, rfl⟩
  · exact ⟨(landOn_t _ _).2.1, (landOn_t _ _).1⟩

private theorem loop_reaches (c : Cfg α) (dt0 : α) (G : Good c dt0) (T : α) (hT : T ∈ c.outT)
    (hTtf : T ≤ c.tf) :
    ∀ fuel s, Inv c s → s.t + s.eps < T → (loop c fuel s).1.count < c.maxSteps →
      c.maxSteps - s.count ≤ fuel →
      (∃ d, Ev.dump d ∈ (loop c fuel s).2 ++ [Ev.dump (loop c fuel s).1] ∧ |T - d.t| ≤ d.eps) ∨
      (∃ s', Ev.step s' ∈ (loop c fuel s).2 ∧ T - s'.t = s'.eps) := by
  intro fuel
  induction fuel with
  | zero =>
    intro s _ _ hc hf
    simp only [loop] at hc
    omega
  | succ n ih =>
    intro s I hb hc hf
    by_cases hg : SolverLoop.guard c s = true
    · have hr := (guard_running c s hg).1
      rw [loop_of_guard c n s hg] at hc ⊢
      simp only at hc ⊢
      have I' := inv_iterSt c dt0 G s I hr
      have hle : (iterSt c s).t ≤ T := by
        rw [iterSt_t]; exact I.not_past hr T hT (by linarith)
      by_cases hb' : (iterSt c s).t + (iterSt c s).eps < T
      · have hf' : c.maxSteps - (iterSt c s).count ≤ n := by rw [iterSt_count]; omega
        rcases ih (iterSt c s) I' hb' hc hf' with ⟨d, hd, hdT⟩ | ⟨s', hs', hsT⟩
        · left
          refine ⟨d, ?_, hdT⟩
          rcases List.mem_append.mp hd with h | h
          · exact List.mem_append_left _ (List.mem_append_right _ h)
          · exact List.mem_append_right _ h
        · right
          exact ⟨s', List.mem_append_right _ hs', hsT⟩
      · -- the pass arrives within ε of T
        have hclose : T - (iterSt c s).t ≤ (iterSt c s).eps := by linarith [not_lt.mp hb']
        have habs : |T - (iterSt c s).t| ≤ (iterSt c s).eps := by
          rw [abs_of_nonneg (by linarith)]; exact hclose
        have final_dump : loop c n (iterSt c s) = (iterSt c s, []) →
            ∃ d, Ev.dump d ∈ (iterEv c s ++ (loop c n (iterSt c s)).2) ++
              [Ev.dump (loop c n (iterSt c s)).1] ∧ |T - d.t| ≤ d.eps := by
          intro hl
          refine ⟨iterSt c s, ?_, habs⟩
          rw [hl]; simp
        by_cases hearly : absv ((getTimestep c (advance c s)).t - c.tf) <
            (getTimestep c (advance c s)).eps
        · left
          apply final_dump
          apply loop_of_not_guard
          have hst : iterSt c s = getTimestep c (advance c s) := by
            unfold iterSt; rw [dumpIfNeeded_fst]; simp [hearly]
          rw [hst]
          have : ¬ Running c (getTimestep c (advance c s)) :=
            fun hr => (running_not_early c _ hr).2 hearly
          unfold Running at this
          simp [SolverLoop.guard, this]
        · by_cases hnear : T - (iterSt c s).t < (iterSt c s).eps
          · left
            refine ⟨iterSt c s, ?_, habs⟩
            apply List.mem_append_left
            apply List.mem_append_left
            unfold iterEv
            apply List.mem_append_right
            have hn : nearAny (getTimestep c (advance c s)) c.outT = true := by
              unfold nearAny
              rw [List.any_eq_true]
              refine ⟨T, hT, ?_⟩
              unfold nearOne
              rw [absv_eq_abs, ← (iterSt_eps c s).1, ← (iterSt_eps c s).2,
                abs_of_nonneg (by linarith)]
              simpa using hnear
            unfold iterSt dumpIfNeeded
            simp [hearly, hn]
          · have heq : T - (iterSt c s).t = (iterSt c s).eps :=
              le_antisymm hclose (not_lt.mp hnear)
            by_cases hg' : SolverLoop.guard c (iterSt c s) = true
            · cases n with
              | zero => left; exact final_dump rfl
              | succ m =>
                right
                refine ⟨iterSt c s, ?_, heq⟩
                apply List.mem_append_right
                rw [loop_of_guard c m _ hg']
                apply List.mem_append_left
                simp [iterEv]
            · left
              apply final_dump
              exact loop_of_not_guard c n _ (by simpa using hg')
    · -- the loop has ended short of T although T ≤ tf: impossible
      have hgf : SolverLoop.guard c s = false := by simpa using hg
      rw [loop_of_not_guard c _ s hgf] at hc
      simp only at hc
      have : ¬ Running c s := by
        intro hr
        have : SolverLoop.guard c s = true := by
          unfold Running at hr; simp [SolverLoop.guard, hr, hc]
        rw [hgf] at this; cases this
      unfold Running at this
      have := not_lt.mp this
      linarith

/-- **Output at every requested time.**  If the loop was not stopped by
`max_steps`, then for every requested time `T` in `[0, tf]` there is a dump at
a time within the solver's ε of `T` — except in the corner where a step starts
at EXACTLY `T - ε` (the code's test is the strict `|T - t| < ε`; in the
repaired code such a state does not land on `T` either, as `T - t > ε` fails). -/
theorem dump_at_requested_time (c : Cfg α) (dt0 : α) (G : Good c dt0) (T : α)
    (hT : T ∈ c.outT) (h0 : 0 ≤ T) (hTtf : T ≤ c.tf)
    (hmax : (solve c dt0).1.count < c.maxSteps) :
    (∃ d, Ev.dump d ∈ (solve c dt0).2 ∧ |T - d.t| ≤ d.eps) ∨
    (∃ s, Ev.step s ∈ (solve c dt0).2 ∧ T - s.t = s.eps) := by
  have hc : (start c dt0).count = 0 := by
    unfold start
    rw [(landOn_t _ _).2.2.1, (getTimestep_fields c _).2.2]; rfl
  have ht : (start c dt0).t = 0 := by
    unfold start
    rw [(landOn_t _ _).1, (getTimestep_fields c _).1]; rfl
  have he : (start c dt0).eps = (init c dt0).eps := by
    unfold start
    rw [(landOn_t _ _).2.1, (getTimestep_fields c _).2.1]
  by_cases hb : (start c dt0).t + (start c dt0).eps < T
  · rcases loop_reaches c dt0 G T hT hTtf c.maxSteps (start c dt0) (inv_start c dt0 G) hb hmax
      (by omega) with ⟨d, hd, hdT⟩ | ⟨s', hs', hsT⟩
    · left
      refine ⟨d, ?_, hdT⟩
      unfold solve
      rcases List.mem_append.mp hd with h | h
      · simp [h]
      · simp at h; simp [h]
    · right
      refine ⟨s', ?_, hsT⟩
      unfold solve
      simp [hs']
  · left
    refine ⟨init c dt0, by simp [solve], ?_⟩
    rw [ht, he] at hb
    have : (init c dt0).t = 0 := rfl
    rw [this, sub_zero, abs_of_nonneg h0]
    linarith [not_lt.mp hb]

/-! ## termination -/

/-- **The loop reaches `tf` — it is never `max_steps` that stops it** — for
every adaptive sequence bounded below: if every step the integrator proposes
and the configured step are ≥ `umin > 0`, the damping factors lie in
`[fmin, 1]` and do not decrease, `tf ≤ N·umin·fmin`, and `max_steps` leaves
room for `N` full steps plus one landing per requested time, then `solve`
ends with `tf - ε ≤ t ≤ tf` after at most `N + len(output_at_times)` steps. -/
theorem terminates (c : Cfg α) (dt0 : α) (G : Good c dt0) (umin fmin : α)
    (L : Lower c dt0 umin fmin) (N : Nat) (hN : c.tf ≤ N * (umin * fmin))
    (hmax : N + c.outT.length ≤ c.maxSteps) :
    (solve c dt0).1.t ≤ c.tf ∧ c.tf - (solve c dt0).1.t ≤ (solve c dt0).1.eps ∧
    (solve c dt0).1.count ≤ N + c.outT.length := by
  have hc : (start c dt0).count = 0 := by
    unfold start
    rw [(landOn_t _ _).2.2.1, (getTimestep_fields c _).2.2]; rfl
  have ht : (start c dt0).t = 0 := by
    unfold start
    rw [(landOn_t _ _).1, (getTimestep_fields c _).1]; rfl
  have ha := ahead_le_length c.outT (start c dt0).t
  obtain ⟨h1, h2⟩ := loop_terminates c dt0 umin fmin G L (N + c.outT.length) c.maxSteps
    (start c dt0) N (inv_start c dt0 G) (inv2_start c dt0 umin fmin G L)
    (by rw [ht, sub_zero]; exact hN) (by omega) hmax (by rw [hc]; omega)
  have I : Inv c (solve c dt0).1 :=
    loop_final c (Inv c) (fun s I hg => inv_iterSt c dt0 G s I (guard_running c s hg).1)
      _ _ (inv_start c dt0 G)
  refine ⟨I.t_le_tf, ?_, ?_⟩
  · unfold Running at h1; exact not_lt.mp h1
  · rw [hc] at h2
    show (loop c c.maxSteps (start c dt0)).1.count ≤ _
    omega

/-! ## the recorded step size, exactly -/

private theorem dump_event2 (c : Cfg α) (dt0 umin fmin : α) (G : Good c dt0)
    (L : Lower c dt0 umin fmin) (s : St α) (h : Ev.dump s ∈ (solve c dt0).2) :
    s = init c dt0 ∨ (Inv c s ∧ Inv2 c dt0 umin s) := by
  have hstep : ∀ s, Inv c s ∧ Inv2 c dt0 umin s → SolverLoop.guard c s = true →
      Inv c (iterSt c s) ∧ Inv2 c dt0 umin (iterSt c s) := by
    intro s ⟨I, J⟩ hg
    have hr := (guard_running c s hg).1
    exact ⟨inv_iterSt c dt0 G s I hr, inv2_iterSt c dt0 umin fmin G L s I J hr⟩
  have h0 : Inv c (start c dt0) ∧ Inv2 c dt0 umin (start c dt0) :=
    ⟨inv_start c dt0 G, inv2_start c dt0 umin fmin G L⟩
  rcases mem_solve c dt0 _ h with h | h | h
  · left; cases h; rfl
  · right
    refine loop_events c (fun s => Inv c s ∧ Inv2 c dt0 umin s)
      (fun e => ∀ s, e = Ev.dump s → Inv c s ∧ Inv2 c dt0 umin s) hstep ?_ _ _ h0 _ h s rfl
    intro s' IJ hg e he s'' hs
    subst hs
    rcases mem_iterEv c s' _ he with h | h | h | h
    · cases h
    · cases h
    · cases h
    · cases h; exact hstep s' IJ hg
  · right; cases h
    exact loop_final c (fun s => Inv c s ∧ Inv2 c dt0 umin s) hstep _ _ h0

/-- **Fixed-step mode: every dump records exactly the configured `dt`**
(while the run is short of `tf` and not on the step that lands on `tf`), no
matter how many steps were shortened to land on requested times and whatever
the damping. -/
theorem recorded_dt_fixed_mode (c : Cfg α) (dt0 umin fmin : α) (G : Good c dt0)
    (L : Lower c dt0 umin fmin) (hfix : c.adaptive = false) (s : St α)
    (h : Ev.dump s ∈ (solve c dt0).2) (hr : Running c s) (hl : s.landed = false) :
    solverData s = dt0 := by
  rcases dump_event2 c dt0 umin fmin G L s h with rfl | ⟨I, J⟩
  · simp [solverData, undamped, init]
  · rw [solverData_eq, J.fixed_saved hfix hr hl, mul_div_assoc,
      div_self (ne_of_gt I.damp_pos), mul_one]

/-- **Adaptive mode: every dump records exactly the step the integrator last
proposed** (its `calls`-th answer), undamped and unaffected by shortening. -/
theorem recorded_dt_adaptive_mode (c : Cfg α) (dt0 umin fmin : α) (G : Good c dt0)
    (L : Lower c dt0 umin fmin) (had : c.adaptive = true) (s : St α)
    (h : Ev.dump s ∈ (solve c dt0).2) (hr : Running c s) (hl : s.landed = false)
    (v : α) (hcalls : 1 ≤ s.calls) (hv : c.adapt (s.calls - 1) = some v) :
    solverData s = v := by
  rcases dump_event2 c dt0 umin fmin G L s h with rfl | ⟨I, J⟩
  · simp [init] at hcalls
  · rw [solverData_eq, (J.adapt_saved had hr hl).2 v hv, mul_div_assoc,
      div_self (ne_of_gt I.damp_pos), mul_one]

/-! ## non-vacuity: a concrete run meeting the hypotheses (over ℚ) -/

/-- adaptive (the integrator declines every third call), damped for two
iterations, three requested times of which two coincide -/
def exC : Cfg ℚ :=
  { tf := 1, EPS := 1/1000, pfreq := 2, outT := [3/10, 7/20, 7/20], nDamp := 2, maxSteps := 100,
    adaptive := true, dampFac := fun k => if k = 0 then 1/2 else 1,
    adapt := fun k => if k % 3 = 2 then none else some (1/4), cast := fun n => (n : ℚ) }

example : Good exC (1/5) := by
  refine ⟨by norm_num [exC], by norm_num [exC], fun n => Nat.cast_nonneg n, ?_, ?_, by norm_num, ?_⟩
  · intro k; simp only [exC]; split <;> norm_num
  · intro k v h
    simp only [exC] at h
    split at h
    · cases h
    · cases h; norm_num
  · simp [exC]; norm_num

example : (stepsOf (solve exC (1/5)).2).map (fun s => (s.t, s.dt)) =
    [(0, 1/8), (1/8, 7/40), (3/10, 1/20), (7/20, 1/4), (3/5, 1/4), (17/20, 3/20)] := by
  decide +kernel

example : (solve exC (1/5)).1.t = 1 ∧ (solve exC (1/5)).1.count = 6 ∧
    (solve exC (1/5)).1.count < exC.maxSteps := by decide +kernel

/-- its dumps: start; on the requested times 3/10 (also a pfreq dump) and 7/20;
iteration 4; the end.  The recorded dt is the adaptive 1/4 even where the
next step was shortened (1/20 at t = 3/10). -/
example : (solve exC (1/5)).2.filterMap
      (fun e => match e with | Ev.dump s => some (s.t, s.count, solverData s) | _ => none) =
    [(0, 0, 1/5), (3/10, 2, 1/4), (7/20, 3, 1/4), (3/5, 4, 1/4), (1, 6, 3/20)] := by
  decide +kernel

/-- the hypotheses of `terminates` are met by the same run (`umin = 1/5`,
`fmin = 1/2`, `N = 10`): it ends at `tf` after 6 ≤ 10 + 3 steps -/
example : Lower exC (1/5) (1/5) (1/2) ∧ exC.tf ≤ (10 : Nat) * ((1/5 : ℚ) * (1/2)) ∧
    10 + exC.outT.length ≤ exC.maxSteps := by
  refine ⟨⟨by norm_num, by norm_num, by norm_num, le_refl _, ?_, ?_, ?_, ?_⟩,
    by norm_num [exC], by simp [exC]⟩
  · intro k v h
    simp only [exC] at h
    split at h
    · cases h
    · cases h; norm_num
  · intro k; simp only [exC]; split <;> norm_num
  · intro k; simp only [exC]; split <;> norm_num
  · intro k; simp only [exC]; split <;> norm_num

/-! ## the code before the fix violates the property, in exact arithmetic too

`Pinned.solve` transcribes the pinned `solve`/`_get_timestep`/
`_dump_output_if_needed` (validated bit for bit against the pinned code).
Each of the three statements exhibits a configuration meeting every hypothesis
of the theorems above on which the pinned loop breaks the corresponding clause. -/

/-- the states `dump_output` saw, in order -/
def dumpsOf : List (Ev α) → List (St α)
  | [] => []
  | Ev.dump s :: rest => s :: dumpsOf rest
  | _ :: rest => dumpsOf rest

/-- dt = 1/10, tf = 1, ε = tf/1000 per iteration, no damping, fixed step -/
def pinnedBase : Cfg ℚ :=
  { tf := 1, EPS := 1/1000, pfreq := 1, outT := [], nDamp := 0, maxSteps := 100, adaptive := false,
    dampFac := fun _ => 1, adapt := fun _ => none, cast := fun n => (n : ℚ) }

/-- a requested time inside the first step -/
def pinnedC1 : Cfg ℚ := { pinnedBase with outT := [1/20] }
/-- two requested times within ε ahead of the step time 3/10 and a third at 7/20 -/
def pinnedC2 : Cfg ℚ := { pinnedBase with outT := [301/1000, 302/1000, 7/20] }
/-- three damped iterations and a requested time ε/2 short of the end of the second step -/
def pinnedC3 : Cfg ℚ :=
  { pinnedBase with nDamp := 3, dampFac := fun k => if k = 0 then 1/4 else if k = 1 then 1/2 else 3/4,
                    outT := [1/40 + 1/20 - 1/2000] }

private theorem good_of (c : Cfg ℚ) (h1 : c.EPS = 1/1000) (h2 : c.tf = 1)
    (h3 : c.cast = fun n : Nat => (n : ℚ)) (h4 : ∀ k, 0 < c.dampFac k)
    (h5 : c.adapt = fun _ => none) (h6 : c.outT.Pairwise (· ≤ ·)) : Good c (1/10) := by
  refine ⟨?_, ?_, ?_, h4, ?_, by norm_num, h6⟩
  · rw [h1]; norm_num
  · rw [h2]; norm_num
  · intro n; rw [h3]; exact Nat.cast_nonneg n
  · intro k v h; rw [h5] at h; cases h

/-- **Defect 2 (first step).**  The pinned loop steps from 0 to 1/10 over the
requested time 1/20: `never_past_requested_time` fails for it. -/
theorem pinned_first_step_counterexample :
    Good pinnedC1 (1/10) ∧
    ∃ s ∈ stepsOf (Pinned.solve pinnedC1 (1/10)).2, ∃ T ∈ pinnedC1.outT,
      s.eps < T - s.t ∧ T < s.t + s.dt := by
  refine ⟨good_of _ rfl rfl rfl (fun _ => by simp [pinnedC1, pinnedBase]) rfl
    (by simp [pinnedC1, pinnedBase]), ?_⟩
  decide +kernel

/-- **Defect 3 (cluster).**  With two requested times within ε ahead of the
current time the pinned loop steps over a third one closer than `dt`. -/
theorem pinned_cluster_counterexample :
    Good pinnedC2 (1/10) ∧
    ∃ s ∈ stepsOf (Pinned.solve pinnedC2 (1/10)).2, ∃ T ∈ pinnedC2.outT,
      s.eps < T - s.t ∧ T < s.t + s.dt := by
  refine ⟨good_of _ rfl rfl rfl (fun _ => by simp [pinnedC2, pinnedBase]) rfl
    (by simp [pinnedC2, pinnedBase]; norm_num), ?_⟩
  decide +kernel

/-- **Defect 1 (stale `_prev_dt`).**  Fixed step 1/10 with three damped
iterations and a requested time ε/2 short of a step end: from then on every
pinned dump records 1/15 (and the undamped steps ARE 1/15), where
`recorded_dt_fixed_mode` proves 1/10 for the repaired loop. -/
theorem pinned_stale_prev_dt_counterexample :
    Good pinnedC3 (1/10) ∧ Lower pinnedC3 (1/10) (1/10) (1/4) ∧ pinnedC3.adaptive = false ∧
    (∃ s ∈ dumpsOf (Pinned.solve pinnedC3 (1/10)).2, s.eps < pinnedC3.tf - s.t ∧
      s.landed = false ∧ solverData s = 1/15) ∧
    (∃ s ∈ stepsOf (Pinned.solve pinnedC3 (1/10)).2, s.damp = 1 ∧ s.landed = false ∧ s.dt = 1/15) := by
  have hd : ∀ k : Nat, (0:ℚ) < (if k = 0 then 1/4 else if k = 1 then 1/2 else 3/4) := by
    intro k; split_ifs <;> norm_num
  refine ⟨good_of _ rfl rfl rfl hd rfl (by simp [pinnedC3, pinnedBase]), ?_, rfl, ?_, ?_⟩
  · refine ⟨by norm_num, by norm_num, by norm_num, le_refl _, ?_, ?_, ?_, ?_⟩
    · intro k v h; cases h
    · intro k; simp only [pinnedC3]; split_ifs <;> norm_num
    · intro k; simp only [pinnedC3]; split_ifs <;> norm_num
    · intro k; simp only [pinnedC3]; split_ifs <;> first | contradiction | omega | norm_num
  · decide +kernel
  · decide +kernel

end PysphVerif.C10
