import PysphVerif.Lemmas.Stepper
import PysphVerif.Lemmas.StepperHist
import PysphVerif.Lemmas.StepperSession
import PysphVerif.Gen.Timesteps
/-!
# C04 — the compiled integrator performs `one_timestep` exactly as written

Property theorems only (helper lemmas live in `Lemmas/Stepper.lean`).  They are
about `Model/Stepper.lean` — `step`/`runR` transcribe the class generated from
`integrator_cython.mako`, `literalStep`/`literalRun` are the property's reading
of the same `one_timestep` body — and about the programs in
`Gen/Timesteps.lean`, which `translate/timestep2lean.py` re-derives from the
`one_timestep` sources on every run.

The statements hold for EVERY program in the language {initialize, stage k,
compute_accelerations i upd, update_domain, do_post_stage e k} (not only the
shipped ones), every assignment of steppers to arrays, every world (state type
and the seven operations the generated code invokes, e.g. the real particle
arrays, or the event log of the tracers), every `t`, `dt`, every number type
(no arithmetic law is used) and every sequence of consecutive steps.
-/
set_option linter.unusedSectionVars false
namespace PysphVerif.C04
open PysphVerif.Stepper

variable {σ τ : Type}

/-! ## the generated class refines the literal reading -/

/-- One step of the compiled integrator leaves the world in the state obtained
by executing `one_timestep` literally: every `stageN()`/`initialize()` runs,
per array, the Python hook and then the stepper method on exactly the
particles whose tag is 0, with the step's `dt` and the current stage time;
`compute_accelerations(i, upd)` refreshes neighbours iff `upd` and evaluates
set `i` at that time; the callback gets `(t + stage_dt, dt, stage)`.
The only hypothesis is C06's alignment invariant (real particles first),
which is what lets the generated loop run over `range(size(real=True))`. -/
theorem stepper_refines_literal (A : Arith τ) (W : World σ τ) (hW : WorldAligned W)
    (cfg : Cfg) (prog : Program) (t dt : τ) (s : σ) :
    step A W cfg prog t dt s = literalStep A W cfg prog t dt s := by
  unfold step stepR literalStep
  exact (fold_eq_litGo A W hW cfg t dt prog [] _ s (regsTrack_init A t dt)).1

/-- The alignment hypothesis is needed: in a world whose arrays are not
aligned the generated loop and the literal reading differ (witness: one array,
tags `[2, 0]`, one real particle; the loop steps slot 0, a ghost). -/
def misalignedWorld : World (List Nat) Nat where
  hook := fun _ _ _ _ s => s
  stepOne := fun _ _ i _ _ s => s ++ [i]
  nReal := fun _ _ => 1
  tags := fun _ _ => [2, 0]
  nnpsUpdate := id
  evalAcc := fun _ _ _ s => s
  updateDomain := id
  callback := fun _ _ _ s => s

def natArith : Arith Nat where
  add := (· + ·)
  sub := (· - ·)
  mul := (· * ·)
  div := (· / ·)
  neg := id
  lit := fun n _ => n.toNat

theorem alignment_is_necessary :
    ∃ (cfg : Cfg) (prog : Program),
      step natArith misalignedWorld cfg prog 0 0 [] ≠
      literalStep natArith misalignedWorld cfg prog 0 0 [] := by
  refine ⟨{ arrays := [{ name := "a", sig := { methods := [.stage 1], hooks := [] } }],
            hasCallback := false, nEvals := 1 }, [.stage 1], ?_⟩
  decide

/-! ## which particles a stage touches -/

/-- In the tracer world (any hook behaviour): a stage wrapper, for one array,
emits the hook event (if the stepper has the hook) and then exactly the step
events of indices `0, 1, …, nReal-1` in this order, `nReal` being read AFTER
the hook ran; nothing else — in particular no index `≥ nReal` (the ghosts) —
and the sizes change only through the hook. -/
theorem stage_touches_exactly_real (grow : String → Meth → Nat) (m : Meth) (t dt : τ)
    (s : TState τ) (a : ArrayCfg) :
    let W := traceWorld grow
    let s1 := if m ∈ a.sig.hooks then W.hook a.name m t dt s else s
    wrapperDest W m t dt s a =
      { events := s1.events ++
          (if m ∈ a.sig.methods then
            (List.range (W.nReal a.name s1)).map (fun i => Event.step a.name m i t dt) else []),
        sizes := s1.sizes } := by
  intro W s1
  unfold wrapperDest
  by_cases hm : m ∈ a.sig.methods
  · simp only [hm, if_true]
    exact loopReal_trace grow a.name m t dt _ _
  · simp only [hm, if_false, List.append_nil]
    rfl

/-- every array that has a stepper is visited exactly once per stage call:
the destination order is a permutation of the integrator's steppers -/
theorem dest_order_perm (cfg : Cfg) : (destOrder cfg).Perm cfg.arrays := by
  unfold destOrder
  induction cfg.arrays with
  | nil => exact List.Perm.refl _
  | cons a as ih => exact (insertByName_perm a _).trans (List.Perm.cons a ih)

/-- … and the visits happen in sorted name order (`sorted(steppers.keys())`) -/
theorem dest_order_sorted (cfg : Cfg) : (destOrder cfg).Pairwise NameLe := by
  unfold destOrder
  induction cfg.arrays with
  | nil => exact List.Pairwise.nil
  | cons a as ih => exact insertByName_sorted a _ ih

/-! ## the time a stage sees -/

/-- After any prefix `done` of the pasted body the registers of the compiled
object are: `orig_t = t`, `dt = dt`, and `t` = the argument of the last
`do_post_stage` executed (`t + stage_dt`), or the step's `t` if there was none.
Every stage wrapper, hook and evaluator reads `self.t`, `self.dt`. -/
theorem stage_time_is_last_post_stage (A : Arith τ) (W : World σ τ) (cfg : Cfg)
    (t dt : τ) (done : List Cmd) (s : σ) :
    let r := (done.foldl (execCmd A W cfg t dt) ({ origT := t, t := t, dt := dt }, s)).1
    r.origT = t ∧ r.dt = dt ∧ r.t = stageTime A done t dt := by
  intro r
  -- the register part of `execCmd` does not look at the world
  have key : ∀ (rest done0 : List Cmd) (r0 : Regs τ) (s0 : σ), RegsTrack A done0 t dt r0 →
      RegsTrack A (done0 ++ rest) t dt (rest.foldl (execCmd A W cfg t dt) (r0, s0)).1 := by
    intro rest
    induction rest with
    | nil => intro done0 r0 s0 h; simpa using h
    | cons c cs ih =>
      intro done0 r0 s0 h
      obtain ⟨h1, h2, h3⟩ := h
      have hstep : RegsTrack A (done0 ++ [c]) t dt (execCmd A W cfg t dt (r0, s0) c).1 := by
        rcases c with _ | k | ⟨i, upd⟩ | _ | ⟨e, k⟩
        · exact ⟨h1, h2, by
            rw [stageTime_snoc_other A done0 _ t dt (by intro e k h; cases h)]; exact h3⟩
        · exact ⟨h1, h2, by
            rw [stageTime_snoc_other A done0 _ t dt (by intro e k h; cases h)]; exact h3⟩
        · exact ⟨h1, h2, by
            rw [stageTime_snoc_other A done0 _ t dt (by intro e k h; cases h)]; exact h3⟩
        · exact ⟨h1, h2, by
            rw [stageTime_snoc_other A done0 _ t dt (by intro e k h; cases h)]; exact h3⟩
        · refine ⟨h1, h2, ?_⟩
          simp only [execCmd, h1]
          rw [stageTime_snoc_post]
      have := ih (done0 ++ [c]) _ (execCmd A W cfg t dt (r0, s0) c).2 hstep
      simpa [List.append_assoc] using this
  have h := key done [] _ s (regsTrack_init A t dt)
  rw [List.nil_append] at h
  exact h

/-- nothing leaks from one step into the next: whatever the registers held
(the previous step's `orig_t, t, dt`), `step(t, dt)` overwrites them first -/
theorem step_ignores_stale_registers (A : Arith τ) (W : World σ τ) (cfg : Cfg)
    (prog : Program) (t dt : τ) (r1 r2 : Regs τ) (s : σ) :
    stepR A W cfg prog t dt (r1, s) = stepR A W cfg prog t dt (r2, s) := rfl

/-! ## several consecutive steps -/

/-- `k` consecutive steps on one compiled object are the fold of single steps,
each of which is the literal execution: for every history `(t₁,dt₁), …` the
final state is `literalRun`. -/
theorem multi_step_compose (A : Arith τ) (W : World σ τ) (hW : WorldAligned W)
    (cfg : Cfg) (prog : Program) (steps : List (τ × τ)) (r : Regs τ) (s : σ) :
    (runR A W cfg prog steps (r, s)).2 = literalRun A W cfg prog steps s := by
  unfold runR literalRun
  induction steps generalizing r s with
  | nil => rfl
  | cons x xs ih =>
    simp only [List.foldl_cons]
    have h1 : (runStepR A W cfg prog (r, s) x).2 = literalStep A W cfg prog x.1 x.2 s := by
      have := stepper_refines_literal A W hW cfg prog x.1 x.2 s
      unfold step at this
      exact this
    rw [← h1]
    exact ih _ _

theorem run_append (A : Arith τ) (W : World σ τ) (cfg : Cfg) (prog : Program)
    (xs ys : List (τ × τ)) (st : Regs τ × σ) :
    runR A W cfg prog (xs ++ ys) st = runR A W cfg prog ys (runR A W cfg prog xs st) := by
  simp [runR, List.foldl_append]

/-! ## the trace, in closed form -/

/-- With tracer steppers whose hooks leave the sizes alone, the event log of
one step is, statement by statement, `cmdEvents` at the stage time determined
by the statements before it (`specEvents`): nothing is reordered, dropped or
repeated. -/
theorem trace_closed_form (A : Arith τ) (cfg : Cfg) (prog : Program) (t dt : τ)
    (s : TState τ) :
    step A staticWorld cfg prog t dt s =
      { events := s.events ++ specEvents A cfg s.sizes prog t dt, sizes := s.sizes } := by
  rw [stepper_refines_literal A staticWorld (traceWorld_aligned _)]
  exact litGo_static A cfg t dt prog [] s

/-- The post-stage callback fires exactly once per `do_post_stage` statement,
in program order, with arguments `(t + stage_dt, dt, stage)`; never when no
callback is set. -/
theorem callback_once_per_stage (A : Arith τ) (cfg : Cfg) (prog : Program) (t dt : τ)
    (s : TState τ) (hs : s.events = []) :
    callbacksOf (step A staticWorld cfg prog t dt s).events =
      if cfg.hasCallback then
        (posts prog).map (fun x => (A.add t (x.1.eval A t dt), dt, x.2))
      else [] := by
  rw [trace_closed_form, hs, List.nil_append]
  exact callbacksOf_specGo A cfg s.sizes t dt prog []

/-! ## the shipped integrators (table regenerated from the source) -/

/-- Every `one_timestep` in the tree calls its stages in order 1..n, reports
each with exactly one `do_post_stage(_, k)` before the next stage, and ends
the step at `t + dt`.  (Re-checked against the regenerated table on every run;
an integrator that skips or duplicates a post-stage call breaks this.) -/
theorem shipped_programs_well_staged :
    ∀ x ∈ Gen.Timesteps.programs, wellStaged x.2.2 = true := by
  decide

/-- For a well-staged program (all shipped ones are, see above) with a callback
set: the callback fires exactly once per stage, with stage numbers
`1, 2, …, n` in this order, always with the step's `dt`, and the last call
reports time `t + dt`. -/
theorem well_staged_callbacks (A : Arith τ) (cfg : Cfg) (prog : Program) (t dt : τ)
    (s : TState τ) (hs : s.events = []) (hcb : cfg.hasCallback = true)
    (hw : wellStaged prog = true) :
    let cbs := callbacksOf (step A staticWorld cfg prog t dt s).events
    cbs.map (·.2.2) = List.range' 1 cbs.length ∧
    (∀ c ∈ cbs, c.2.1 = dt) ∧
    (stagePosts prog ≠ [] → (cbs.map (·.1)).getLast? = some (A.add t dt)) := by
  intro cbs
  have hc : cbs = (posts prog).map (fun x => (A.add t (x.1.eval A t dt), dt, x.2)) := by
    have := callback_once_per_stage A cfg prog t dt s hs
    simpa [hcb] using this
  obtain ⟨h1, h2⟩ := wellStagedFrom_posts 1 (stagePosts prog) hw
  rw [posts_stagePosts] at h1 h2
  refine ⟨?_, ?_, ?_⟩
  · rw [hc, List.map_map, List.length_map]
    exact h1
  · intro c hcm
    rw [hc] at hcm
    obtain ⟨x, _, rfl⟩ := List.mem_map.mp hcm
    rfl
  · intro hne
    have h3 := h2 hne
    rw [hc, List.map_map]
    have : ((fun x : τ × τ × Nat => x.1) ∘ fun x : Expr × Nat => (A.add t (x.1.eval A t dt), dt, x.2)) =
        (fun e : Expr => A.add t (e.eval A t dt)) ∘ (fun x : Expr × Nat => x.1) := rfl
    rw [this, ← List.map_map, List.getLast?_map, h3]
    rfl

/-- every shipped program only evaluates sets 0 or 1 and its last statement
group leaves the registers at `t + dt` -/
theorem shipped_programs_end_at_t_plus_dt (A : Arith τ) (t dt : τ) :
    ∀ x ∈ Gen.Timesteps.programs, stageTime A x.2.2 t dt = A.add t dt := by
  intro x hx
  simp only [Gen.Timesteps.programs, List.mem_cons, List.mem_nil_iff, or_false] at hx
  rcases hx with h | h | h | h | h | h | h | h | h | h | h | h | h | h | h | h <;>
    subst h <;> rfl

/-! ## histories of public calls on one integrator object

`Model/StepperHist.lean`: between steps the user calls `set_nnps`,
`set_post_stage_callback`, `set_fixed_h` (and may add particles).  The NNPS
objects and callbacks are identified by numbers. -/

section History
open PysphVerif.StepperHist

/-- For EVERY history of public calls (steps interleaved with `set_nnps`,
`set_post_stage_callback`, `set_fixed_h`, particles added between steps) on
one integrator object, the particles end in the state obtained by reading the
history literally: each step executes `one_timestep` literally with "the
integrator's NNPS" = the argument of the most recent `set_nnps` in the history
text (`compute_accelerations` refreshes THAT object, `update_domain` re-creates
ghosts through THAT object) and the callback of the most recent
`set_post_stage_callback` (none after `None`); the setters themselves do not
touch the particles.  Nothing an earlier step looked up survives into a later
one. -/
theorem history_refines_literal (A : Arith τ) (H : HWorld σ τ)
    (hH : ∀ p, WorldAligned (H.view p)) (cfg : Cfg) (prog : Program) (p0 : PyRegs)
    (ops : List (Op τ)) (r : Regs τ) (s : σ) :
    (runHist A H cfg prog ops { py := p0, regs := r, world := s }).world =
      literalHist A H cfg prog p0 ops s := by
  have h := (runHist_eq_litHistGo A H hH cfg prog p0 ops [] r s).1
  rw [pyAfter_nil] at h
  exact h

/-- the attributes of the object after a history are the arguments of the
most recent setter calls in the history text -/
theorem hist_attributes_are_last_set (A : Arith τ) (H : HWorld σ τ)
    (hH : ∀ p, WorldAligned (H.view p)) (cfg : Cfg) (prog : Program) (p0 : PyRegs)
    (ops : List (Op τ)) (r : Regs τ) (s : σ) :
    (runHist A H cfg prog ops { py := p0, regs := r, world := s }).py = pyAfter p0 ops := by
  have h := (runHist_eq_litHistGo A H hH cfg prog p0 ops [] r s).2
  rw [pyAfter_nil, List.nil_append] at h
  exact h

/-- In the tracer world: after ANY history `ops`, the events a further step
appends refresh (`nnps k`) and re-create ghosts through (`domain k`) no NNPS
object other than the one given to the most recent `set_nnps` of `ops` (the
initial one if there was none), and call no callback object other than the one
given to the most recent `set_post_stage_callback`. -/
theorem refresh_targets_last_set_nnps (A : Arith τ) (grow : String → Meth → Nat) (cfg : Cfg)
    (prog : Program) (p0 : PyRegs) (ops : List (Op τ)) (r : Regs τ) (s : HState τ) (t dt : τ) :
    let st := runHist A (htraceWorld grow) cfg prog ops { py := p0, regs := r, world := s }
    ∃ new, (applyOp A (htraceWorld grow) cfg prog st (.step t dt)).world.events =
        st.world.events ++ new ∧
      (∀ k ∈ nnpsTargets new, k = (lastNnps ops).getD p0.nnps) ∧
      (∀ c ∈ callbackTargets new, some c = (lastCallback ops).getD p0.callback) := by
  intro st
  have hpy : st.py = pyAfter p0 ops :=
    hist_attributes_are_last_set A (htraceWorld grow) (htraceWorld_aligned grow) cfg prog p0 ops r s
  have h := stepR_inv A ((htraceWorld grow).view st.py)
    (OnlyTargets st.world.events st.py.nnps st.py.callback)
    (htrace_keeps grow st.py st.world.events) (cfgAt cfg st.py) prog t dt (st.regs, st.world)
    ⟨[], by simp, by simp [nnpsTargets], by simp [callbackTargets]⟩
  obtain ⟨new, hn, ha, hb⟩ := h
  refine ⟨new, hn, ?_, ?_⟩
  · intro k hk
    rw [ha k hk, hpy]
    rfl
  · intro c hc
    rw [hb c hc, hpy]
    rfl

/-- `set_fixed_h` has no influence on what a step does: histories that differ
only in their `set_fixed_h` calls (and the initial flag) leave the same
particles.  (An `update_domain` that is skipped "because h is fixed" breaks
this.) -/
theorem fixed_h_is_irrelevant_to_steps (A : Arith τ) (H : HWorld σ τ) (cfg : Cfg) (prog : Program)
    (ops : List (Op τ)) (st st' : HSt σ τ)
    (h1 : st.py.nnps = st'.py.nnps) (h2 : st.py.callback = st'.py.callback)
    (h3 : st.regs = st'.regs) (h4 : st.world = st'.world) :
    (runHist A H cfg prog ops st).world =
      (runHist A H cfg prog (ops.filter (fun o => o.fixedH?.isNone)) st').world := by
  have hview : ∀ p p' : PyRegs, p.nnps = p'.nnps → p.callback = p'.callback →
      H.view p = H.view p' ∧ cfgAt cfg p = cfgAt cfg p' := by
    intro p p' a b
    simp [HWorld.view, cfgAt, a, b]
  suffices hs : ∀ (ops : List (Op τ)) (st st' : HSt σ τ), st.py.nnps = st'.py.nnps →
      st.py.callback = st'.py.callback → st.regs = st'.regs → st.world = st'.world →
      (runHist A H cfg prog ops st).world =
        (runHist A H cfg prog (ops.filter (fun o => o.fixedH?.isNone)) st').world from
    hs ops st st' h1 h2 h3 h4
  intro ops
  induction ops with
  | nil => intro st st' _ _ _ h4; simpa [runHist] using h4
  | cons op ops ih =>
    intro st st' h1 h2 h3 h4
    cases op with
    | setFixedH b =>
      simp only [Op.fixedH?, Option.isNone_some, Bool.false_eq_true, not_false_eq_true,
        List.filter_cons_of_neg]
      exact ih (applyOp A H cfg prog st (.setFixedH b)) st' h1 h2 h3 h4
    | step t dt =>
      have hv := hview st.py st'.py h1 h2
      simp only [Op.fixedH?, Option.isNone_none, List.filter_cons_of_pos, runHist, List.foldl_cons]
      refine ih _ _ h1 h2 ?_ ?_ <;> simp only [applyOp, hv.1, hv.2, h3, h4]
    | setNnps k =>
      simp only [Op.fixedH?, Option.isNone_none, List.filter_cons_of_pos, runHist, List.foldl_cons]
      exact ih _ _ rfl h2 h3 h4
    | setCallback c =>
      simp only [Op.fixedH?, Option.isNone_none, List.filter_cons_of_pos, runHist, List.foldl_cons]
      exact ih _ _ h1 rfl h3 h4
    | addParticles d n =>
      simp only [Op.fixedH?, Option.isNone_none, List.filter_cons_of_pos, runHist, List.foldl_cons]
      refine ih _ _ h1 h2 h3 ?_
      simp only [applyOp, h4]

end History

/-! ## sessions: several integrators compiled one after the other in one process

What survives from one `SPHCompiler.compile()` to the next is the set of
extension modules already built, keyed by a digest of the WHOLE generated text
(`Model/StepperSession.lean`); `get_timestep_code` itself reads the text of the
object's own `one_timestep` and nothing else. -/

open PysphVerif.StepperHist PysphVerif.StepperSession

/-- In EVERY session -- any classes, in any order, whatever their `__module__`
and `__qualname__` (equal names included), starting from any consistent set of
modules built earlier -- every class gets the module rendered from ITS OWN
`one_timestep` text, provided the digest under which built modules are found
does not identify two different texts. -/
theorem session_compiles_own_text {κ ρ : Type} [DecidableEq κ] (digest : GenText ρ → κ)
    (hinj : ∀ a b, digest a = digest b → a = b) (built : Built κ ρ)
    (hb : Consistent digest built) (cs : List (IClass ρ)) :
    compileSession digest built cs = cs.map render :=
  compileSession_eq_map digest hinj cs built hb

/-- ... hence member `i` of any session, over any history of public calls,
leaves the particles in the state of the literal execution of the `one_timestep`
written in (or inherited by) ITS class: what was compiled before it in the
process is irrelevant. -/
theorem session_member_refines_literal {κ ρ : Type} [DecidableEq κ] (digest : GenText ρ → κ)
    (hinj : ∀ a b, digest a = digest b → a = b) (built : Built κ ρ)
    (hb : Consistent digest built) (cs : List (IClass ρ)) (i : Nat) (c : IClass ρ)
    (m : GenText ρ) (hc : cs[i]? = some c) (hm : (compileSession digest built cs)[i]? = some m)
    (A : Arith τ) (H : HWorld σ τ) (hH : ∀ p, WorldAligned (H.view p)) (cfg : Cfg)
    (p0 : PyRegs) (ops : List (Op τ)) (r : Regs τ) (s : σ) :
    (runHist A H cfg m.body ops { py := p0, regs := r, world := s }).world =
      literalHist A H cfg c.ownText p0 ops s := by
  rw [session_compiles_own_text digest hinj built hb, List.getElem?_map, hc] at hm
  cases hm
  exact history_refines_literal A H hH cfg c.ownText p0 ops r s

/-- the module a class gets does not depend on the session before it -/
theorem session_independent_of_earlier_members {κ ρ : Type} [DecidableEq κ]
    (digest : GenText ρ → κ) (hinj : ∀ a b, digest a = digest b → a = b)
    (built built' : Built κ ρ) (hb : Consistent digest built) (hb' : Consistent digest built')
    (pre pre' : List (IClass ρ)) (c : IClass ρ) :
    (compileSession digest built (pre ++ [c])).getLast? =
      (compileSession digest built' (pre' ++ [c])).getLast? := by
  rw [session_compiles_own_text digest hinj built hb,
    session_compiles_own_text digest hinj built' hb']
  simp

/-- The hypothesis is about something: remembering the body of `one_timestep`
per `(cls.__module__, cls.__qualname__)` -- a key that does identify different
texts -- gives the second of two equally named classes the first one's body. -/
theorem keying_by_class_name_is_unsound :
    ∃ c1 c2 : IClass Unit, c1.modName = c2.modName ∧ c1.qualName = c2.qualName ∧
      (sessionNameKeyed [] [c1, c2]).map GenText.body ≠ [c1.ownText, c2.ownText] := by
  refine ⟨⟨"m", "make.<locals>.GenIntegrator", [.stage 2, .stage 1], ()⟩,
    ⟨"m", "make.<locals>.GenIntegrator", [.stage 1, .stage 2], ()⟩, rfl, rfl, ?_⟩
  simp [sessionNameKeyed, renderNameKeyed, lookupName, render]

/-! ## non-vacuity -/

/-- a concrete run: PEC integrator, two arrays (keyword order `b, a`), `b`
with a `py_stage1` hook, callback set -/
def exCfg : Cfg :=
  { arrays := [{ name := "b", sig := { methods := [.initialize, .stage 1, .stage 2],
                                       hooks := [.stage 1] } },
               { name := "a", sig := { methods := [.stage 1, .stage 2], hooks := [] } }],
    hasCallback := true, nEvals := 1 }

def exState : TState Rat := { events := [], sizes := [("b", 2, 1), ("a", 1, 2)] }

example : wellFormed exCfg Gen.Timesteps.prog_pysph_sph_integrator_PECIntegrator = true := by
  decide

example :
    callbacksOf (step Arith.rat staticWorld exCfg
      Gen.Timesteps.prog_pysph_sph_integrator_PECIntegrator 1 (1/4) exState).events =
      [((9 : Rat)/8, (1 : Rat)/4, 1), ((5 : Rat)/4, (1 : Rat)/4, 2)] := by
  decide +kernel

example : (step Arith.rat staticWorld exCfg
      Gen.Timesteps.prog_pysph_sph_integrator_PECIntegrator 1 (1/4) exState).events.length = 15 := by
  decide +kernel

example : WorldAligned (traceWorld (τ := Rat) (fun _ _ => 1)) := traceWorld_aligned _

/-- a concrete history: step, replace the NNPS (object 0 -> 7) and the callback
(object 0 -> 3), step again: the second step refreshes object 7 only -/
example :
    open PysphVerif.StepperHist in
    nnpsTargets (runHist Arith.rat (htraceWorld (fun _ _ => 0)) exCfg
      Gen.Timesteps.prog_pysph_sph_integrator_PECIntegrator
      [.step 1 (1/4), .setNnps 7, .setCallback (some 3), .setFixedH true, .step (5/4) (1/4)]
      { py := { nnps := 0, callback := some 0, fixedH := false },
        regs := { origT := 0, t := 0, dt := 0 },
        world := { events := [], sizes := [("b", 2, 1), ("a", 1, 2)] } }).world.events = [0, 0, 0, 7, 7, 7] := by
  decide +kernel

example :
    open PysphVerif.StepperHist in
    callbackTargets (runHist Arith.rat (htraceWorld (fun _ _ => 0)) exCfg
      Gen.Timesteps.prog_pysph_sph_integrator_PECIntegrator
      [.step 1 (1/4), .setNnps 7, .setCallback (some 3), .step (5/4) (1/4), .setCallback none,
       .step (3/2) (1/4)]
      { py := { nnps := 0, callback := some 0, fixedH := false },
        regs := { origT := 0, t := 0, dt := 0 },
        world := { events := [], sizes := [("b", 2, 1), ("a", 1, 2)] } }).world.events = [0, 0, 3, 3] := by
  decide +kernel

/-- a session of three classes, two of them with equal names and different
texts, the third inheriting the text of the first; modules found by the text
itself (`digest = id`); one module of another text already built -/
example :
    (compileSession (κ := GenText Unit) id
        [({ body := [.stage 3], rest := () }, { body := [.stage 3], rest := () })]
        [⟨"m", "f.<locals>.I", [.stage 2, .stage 1], ()⟩,
         ⟨"m", "f.<locals>.I", [.stage 1, .stage 2], ()⟩,
         ⟨"m", "J", [.stage 2, .stage 1], ()⟩]).map GenText.body =
      ([[.stage 2, .stage 1], [.stage 1, .stage 2], [.stage 2, .stage 1]] : List (List Cmd)) := by
  decide

end PysphVerif.C04

