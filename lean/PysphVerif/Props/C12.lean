import PysphVerif.Lemmas.SchemeNeeds
import PysphVerif.Gen.Schemes
/-!
# C12 — every shipped scheme yields a complete, generatable simulation

`Gen/Schemes.lean` is re-extracted from the current source on every run: for
every `Scheme` class that provides `setup_properties`, every combination of
its options, every supported dimension, with and without solid arrays,
`clean=True/False`, the translator RUNS `configure`, `configure_solver`,
`setup_properties`, `get_equations` on plain particle arrays and records the
outcome.  The quantifier of the property is that finite table, so the
theorems below are proofs for the tree they were generated from:

* general part (all tables, all bodies): the Boolean check is sound and
  complete for the specification `Complete`; the precomputed-symbol closure
  is exactly the reachable set; every legal option combination is a grid
  point; completeness is monotone in the arrays' property sets;
* table part: every body of the generated table passes the check
  (`decide +kernel` over the WHOLE table), lifted to every grid point.
-/
namespace PysphVerif.C12
open PysphVerif.SchemeNeeds PysphVerif.Gen.Schemes

/-! ## general theorems (any table) -/

/-- the Boolean check decides the specification (`complete_iff_check`): sound -/
theorem check_sound (t : List PreSym) (kinds : List EqKind) (sk : List StepKind) (b : Body) :
    checkBody t kinds sk b = true → Complete t kinds sk b :=
  complete_of_check t kinds sk b

/-- … and complete, given that the closure loops terminated, which the check tests -/
theorem check_complete (t : List PreSym) (kinds : List EqKind) (sk : List StepKind) (b : Body)
    (hcl : ∀ e ∈ b.eqs, ∀ k, kinds[e.kind]? = some k → closedB t (closure t k.loopPre) = true) :
    Complete t kinds sk b → checkBody t kinds sk b = true :=
  check_of_complete t kinds sk b hcl

/-- `Group._setup_precomputed`, as transcribed, computes exactly the symbols
reachable from the loop's arguments through the code blocks -/
theorem closure_is_reachable_set (t : List PreSym) (m0 : Mask)
    (hcl : closedB t (closure t m0) = true) (i : Nat) :
    (closure t m0).testBit i = true ↔ Reach t m0 i :=
  closure_iff_reach t m0 hcl i

/-- what `Group([eq]).get_array_names()` returns (plus the `dst.` reads) is
exactly what the specification demands of the destination -/
theorem needsD_exact (t : List PreSym) (k : EqKind)
    (hcl : closedB t (closure t k.loopPre) = true) (p : Nat) :
    (needsD t k ||| k.implicitD).testBit p = true ↔ NeedsD t k p :=
  ⟨spec_of_needsD t k, needsD_of_spec t k hcl⟩

theorem needsS_exact (t : List PreSym) (k : EqKind)
    (hcl : closedB t (closure t k.loopPre) = true) (p : Nat) :
    (needsS t k).testBit p = true ↔ NeedsS t k p :=
  ⟨spec_of_needsS t k, needsS_of_spec t k hcl⟩

/-- every legal choice of one value per axis is a point of the grid -/
theorem every_combination_is_a_grid_point (g : SchemeGrid) (ds : List Nat)
    (h : ValidDigits (radices g) ds) : flatIndex (radices g) ds 0 < gridSize g :=
  flatIndex_lt g ds h

/-- more properties never hurt: if every array of `b'` has at least the
properties of the corresponding array of `b` (same equations, same steppers),
completeness carries over — e.g. from `clean=True` to `clean=False` -/
theorem complete_mono (t : List PreSym) (kinds : List EqKind) (sk : List StepKind) (b b' : Body)
    (heq : b'.eqs = b.eqs) (hst : b'.steppers = b.steppers)
    (hlen : b.arrays.length ≤ b'.arrays.length)
    (hsup : ∀ a p, HasProp b a p → HasProp b' a p)
    (h : Complete t kinds sk b) : Complete t kinds sk b' := by
  have hia : ∀ a, IsArray b a → IsArray b' a := fun a ha => Nat.lt_of_lt_of_le ha hlen
  constructor
  · intro e he
    rw [heq] at he
    obtain ⟨k, hk, hd, hp, hs⟩ := h.1 e he
    refine ⟨k, hk, hia _ hd, fun p hn => hsup _ _ (hp p hn), ?_⟩
    intro srcs hsrc s hsm
    obtain ⟨h1, h2⟩ := hs srcs hsrc s hsm
    exact ⟨hia _ h1, fun p hn => hsup _ _ (h2 p hn)⟩
  · intro st hstm
    rw [hst] at hstm
    obtain ⟨k, hk, ha, hp⟩ := h.2 st hstm
    exact ⟨k, hk, hia _ ha, fun p hn => hsup _ _ (hp p hn)⟩

/-- what the real checker accepts has all explicit and precomputed-symbol
arrays of the destination (it uses the strict-subset test, which is stronger) -/
theorem real_checker_covers_dest (t : List PreSym) (kinds : List EqKind) (b : Body) (e : EqInst)
    (h : acceptsEq t kinds b e = true) :
    ∃ k da, kinds[e.kind]? = some k ∧ b.arrays[e.dest]? = some da ∧
      ∀ p, (needsD t k).testBit p = true → da.2.testBit p = true := by
  obtain ⟨k, da, hk, hda, hsub⟩ := acceptsEq_subset t kinds b e h
  exact ⟨k, da, hk, hda, fun p hp => subsetB_testBit hsub hp⟩

/-- the type check is sound: when it passes, every property of every array has
a recorded C type, and every array argument an element of which an equation or
stepper uses as an index (subscript of another array, `range` bound, assigned to
a local declared `int`/`long`/…) is known to the code generator as an integer
pointer — an `int`/`unsigned int`/`long` property of some array of the problem
and a `float`/`double` property of none -/
theorem types_check_sound (kinds : List EqKind) (sk : List StepKind) (b : Body) :
    typesOk kinds sk b = true → TypesOk kinds sk b :=
  typesOk_sound kinds sk b

/-- the index part of the check is exactly its specification (both directions) -/
theorem index_types_check_exact (kinds : List EqKind) (sk : List StepKind) (b : Body) :
    (subsetB (idxUsed kinds sk b) (intKnown b) &&
      ((idxUsed kinds sk b &&& floatKnown b) == 0)) = true ↔
    ∀ p, IndexUsed kinds sk b p → KnownIntegral b p :=
  indexTypes_iff kinds sk b

/-- a configuration where an index-used name is a `double` property of some
array (the seeded `orig_idx` defect) or an integer property of none cannot pass -/
theorem types_check_rejects_bad_index (kinds : List EqKind) (sk : List StepKind) (b : Body) (p : Nat)
    (hu : IndexUsed kinds sk b p) (hbad : ¬ KnownIntegral b p) : typesOk kinds sk b = false :=
  typesOk_false_of_bad_index kinds sk b p hu hbad

/-! ## the generated table (kernel evaluation over the whole table) -/

/-- every distinct outcome of running a configuration passes the completeness check -/
theorem bodies_checked : bodies.all (checkBody preTable eqKinds stepKinds) = true := by
  decide +kernel

/-- … and is accepted by the model of the real fail-fast checkers -/
theorem bodies_accepted : bodies.all (acceptsBody preTable eqKinds stepKinds) = true := by
  decide +kernel

/-- … and passes the type check: index-used array arguments are integer properties -/
theorem bodies_index_types_ok : bodies.all (typesOk eqKinds stepKinds) = true := by
  decide +kernel

/-- every grid entry is `0` (rejected by the scheme) or names a body of the table -/
theorem entries_in_range : schemeTable.all (runsInRange bodies.length) = true := by
  decide +kernel

/-- every scheme's table has exactly one entry per point of its grid -/
theorem grid_full : schemeTable.all (fun g => g.bodyOf.length == gridSize g) = true := by
  decide +kernel

/-- the only combinations a scheme itself refuses are MAGMA2's "the chosen
smoothing-length procedure needs its parameter" -/
theorem rejections_only_magma2 :
    schemeTable.all (fun g => g.name == "MAGMA2Scheme" || !(g.runs.any (fun r => r.2 == 0)))
      = true := by
  decide +kernel

/-- the scheme classes the table covers -/
theorem schemes_covered :
    schemeTable.map (·.name) =
      ["WCSPHScheme", "TVFScheme", "AdamiHuAdamsScheme", "GasDScheme", "GSPHScheme",
       "ADKEScheme", "GTVFScheme", "EDACScheme", "CRKSPHScheme", "PCISPHScheme",
       "IISPHScheme", "ISPHScheme", "SISPHScheme", "MAGMA2Scheme", "TSPHScheme",
       "PSPHScheme", "SchemeChooser"] := by
  decide +kernel

theorem bodyOf_length {g : SchemeGrid} (hg : g ∈ schemeTable) : g.bodyOf.length = gridSize g := by
  have h := grid_full
  simp only [List.all_eq_true, beq_iff_eq] at h
  exact h g hg

/-! ## the property -/

/-- **C12, completeness.**  For every scheme of the table and every point of
its option grid (options × dim × solids × clean), the scheme either rejects
the combination itself or, after `configure_solver` and `setup_properties`,
every equation of `get_equations` and every integrator stepper references
only properties and constants its arrays have. -/
theorem all_configs_complete :
    ∀ g ∈ schemeTable, ∀ i, i < gridSize g →
      PointOk preTable eqKinds stepKinds bodies g i := by
  intro g hg i hi
  have hr := entries_in_range
  simp only [List.all_eq_true] at hr
  rw [← bodyOf_length hg] at hi
  obtain ⟨c, hc, h⟩ := point_of_runs _ bodies g bodies_checked (hr g hg) i hi
  refine ⟨c, hc, ?_⟩
  rcases h with h0 | ⟨b, hb, hchk⟩
  · left; exact h0
  · right; exact ⟨b, hb, complete_of_check _ _ _ b hchk⟩

/-- the same, indexed by the option values themselves -/
theorem all_option_combinations_complete :
    ∀ g ∈ schemeTable, ∀ ds, ValidDigits (radices g) ds →
      PointOk preTable eqKinds stepKinds bodies g (flatIndex (radices g) ds 0) :=
  fun g hg ds h => all_configs_complete g hg _ (flatIndex_lt g ds h)

/-- **C12, acceptance.**  For every grid point the real set-up checks
(`check_equation_array_properties` for every equation, the stepper checks of
the integrator helper) raise nothing. -/
theorem all_configs_accepted :
    ∀ g ∈ schemeTable, ∀ i, i < gridSize g →
      PointAccepted preTable eqKinds stepKinds bodies g i := by
  intro g hg i hi
  have hr := entries_in_range
  simp only [List.all_eq_true] at hr
  rw [← bodyOf_length hg] at hi
  exact point_of_runs _ bodies g bodies_accepted (hr g hg) i hi

/-- **C12, generatable: index types.**  For every grid point the scheme either
rejects the combination itself or, after `setup_properties`, every property has
one C type and every array argument whose elements an equation or stepper uses as
an index has an integer known type, so the generated Cython does not contain
`int = double` or a `double` subscript. -/
theorem all_configs_index_types_ok :
    ∀ g ∈ schemeTable, ∀ i, i < gridSize g →
      PointTypesOk eqKinds stepKinds bodies g i := by
  intro g hg i hi
  have hr := entries_in_range
  simp only [List.all_eq_true] at hr
  rw [← bodyOf_length hg] at hi
  obtain ⟨c, hc, h⟩ := point_of_runs _ bodies g bodies_index_types_ok (hr g hg) i hi
  refine ⟨c, hc, ?_⟩
  rcases h with h0 | ⟨b, hb, hchk⟩
  · left; exact h0
  · right; exact ⟨b, hb, typesOk_sound _ _ b hchk⟩

/-! ## non-vacuity -/

/-- the type theorem is not vacuous: some configuration does use an array
element as an index … -/
example : ∃ b ∈ bodies, idxUsed eqKinds stepKinds b ≠ 0 := by
  decide +kernel

/-- … and the check discriminates: move every integer property of such a
configuration to `double` and it fails -/
example : ((bodies.find? (fun b => idxUsed eqKinds stepKinds b != 0)).map (fun b =>
    typesOk eqKinds stepKinds { b with types := b.types.map (fun t =>
      { t with int := 0, uint := 0, long := 0,
               double := t.double ||| t.int ||| t.uint ||| t.long }) }))
    = some false := by
  decide +kernel

/-- the table is not empty and its bodies are not trivial -/
example : ∃ g ∈ schemeTable, g.name = "WCSPHScheme" ∧ 1000 < gridSize g := by
  refine ⟨gridWCSPHScheme, by simp [schemeTable], by decide +kernel, by decide +kernel⟩

example : ∃ b ∈ bodies, 5 ≤ b.eqs.length ∧ 2 ≤ b.arrays.length ∧ 1 ≤ b.steppers.length := by
  decide +kernel

/-- the check discriminates: strip every property from the arrays of the first
body and it fails -/
example : (bodies.head?.map (fun b =>
    checkBody preTable eqKinds stepKinds { b with arrays := b.arrays.map (fun a => (a.1, 0)) }))
    = some false := by
  decide +kernel

/-- a legal multi-index -/
example : ValidDigits (radices gridTVFScheme) [2, 1, 0, 1, 1] := by
  simp [radices, gridTVFScheme, ValidDigits]

end PysphVerif.C12
