import PysphVerif.Lemmas.SchemeNeeds
import PysphVerif.Lemmas.SchemeStages
import PysphVerif.Gen.Schemes
/-!
# C12 — every shipped scheme yields a complete, generatable simulation

`Gen/Schemes.lean` is re-extracted from the current source on every run: for
every `Scheme` class that provides `setup_properties`, every combination of
its options, every supported dimension, with and without solid arrays,
`clean=True/False`, the translator RUNS `configure`, `configure_solver`,
`setup_properties`, `get_equations` on plain particle arrays and records the
outcome.  The quantifier of the property is that finite table, so the
theorems below are proofs for the tree they were generated from:

* general part (all tables, all bodies): the Boolean check is sound and
  complete for the specification `Complete`; the precomputed-symbol closure
  is exactly the reachable set; every legal option combination is a grid
  point; completeness is monotone in the arrays' property sets;
* table part: every body of the generated table passes the check
  (`decide +kernel` over the WHOLE table), lifted to every grid point.
-/
namespace PysphVerif.C12
open PysphVerif.SchemeNeeds PysphVerif.Gen.Schemes

/-! ## general theorems (any table) -/

/-- the Boolean check decides the specification (`complete_iff_check`): sound -/
theorem check_sound (t : List PreSym) (kinds : List EqKind) (sk : List StepKind) (b : Body) :
    checkBody t kinds sk b = true → Complete t kinds sk b :=
  complete_of_check t kinds sk b

/-- … and complete, given that the closure loops terminated, which the check tests -/
theorem check_complete (t : List PreSym) (kinds : List EqKind) (sk : List StepKind) (b : Body)
    (hcl : ∀ e ∈ b.eqs, ∀ k, kinds[e.kind]? = some k → closedB t (closure t k.loopPre) = true) :
    Complete t kinds sk b → checkBody t kinds sk b = true :=
  check_of_complete t kinds sk b hcl

/-- `Group._setup_precomputed`, as transcribed, computes exactly the symbols
reachable from the loop's arguments through the code blocks -/
theorem closure_is_reachable_set (t : List PreSym) (m0 : Mask)
    (hcl : closedB t (closure t m0) = true) (i : Nat) :
    (closure t m0).testBit i = true ↔ Reach t m0 i :=
  closure_iff_reach t m0 hcl i

/-- what `Group([eq]).get_array_names()` returns (plus the `dst.` reads) is
exactly what the specification demands of the destination -/
theorem needsD_exact (t : List PreSym) (k : EqKind)
    (hcl : closedB t (closure t k.loopPre) = true) (p : Nat) :
    (needsD t k ||| k.implicitD).testBit p = true ↔ NeedsD t k p :=
  ⟨spec_of_needsD t k, needsD_of_spec t k hcl⟩

theorem needsS_exact (t : List PreSym) (k : EqKind)
    (hcl : closedB t (closure t k.loopPre) = true) (p : Nat) :
    (needsS t k).testBit p = true ↔ NeedsS t k p :=
  ⟨spec_of_needsS t k, needsS_of_spec t k hcl⟩

/-- every legal choice of one value per axis is a point of the grid -/
theorem every_combination_is_a_grid_point (g : SchemeGrid) (ds : List Nat)
    (h : ValidDigits (radices g) ds) : flatIndex (radices g) ds 0 < gridSize g :=
  flatIndex_lt g ds h

/-- more properties never hurt: if every array of `b'` has at least the
properties of the corresponding array of `b` (same equations, same steppers),
completeness carries over — e.g. from `clean=True` to `clean=False` -/
theorem complete_mono (t : List PreSym) (kinds : List EqKind) (sk : List StepKind) (b b' : Body)
    (heq : b'.eqs = b.eqs) (hst : b'.steppers = b.steppers)
    (hlen : b.arrays.length ≤ b'.arrays.length)
    (hsup : ∀ a p, HasProp b a p → HasProp b' a p)
    (h : Complete t kinds sk b) : Complete t kinds sk b' := by
  have hia : ∀ a, IsArray b a → IsArray b' a := fun a ha => Nat.lt_of_lt_of_le ha hlen
  constructor
  · intro e he
    rw [heq] at he
    obtain ⟨k, hk, hd, hp, hs⟩ := h.1 e he
    refine ⟨k, hk, hia _ hd, fun p hn => hsup _ _ (hp p hn), ?_⟩
    intro srcs hsrc s hsm
    obtain ⟨h1, h2⟩ := hs srcs hsrc s hsm
    exact ⟨hia _ h1, fun p hn => hsup _ _ (h2 p hn)⟩
  · intro st hstm
    rw [hst] at hstm
    obtain ⟨k, hk, ha, hp⟩ := h.2 st hstm
    exact ⟨k, hk, hia _ ha, fun p hn => hsup _ _ (hp p hn)⟩

/-- what the real checker accepts has all explicit and precomputed-symbol
arrays of the destination (it uses the strict-subset test, which is stronger) -/
theorem real_checker_covers_dest (t : List PreSym) (kinds : List EqKind) (b : Body) (e : EqInst)
    (h : acceptsEq t kinds b e = true) :
    ∃ k da, kinds[e.kind]? = some k ∧ b.arrays[e.dest]? = some da ∧
      ∀ p, (needsD t k).testBit p = true → da.2.testBit p = true := by
  obtain ⟨k, da, hk, hda, hsub⟩ := acceptsEq_subset t kinds b e h
  exact ⟨k, da, hk, hda, fun p hp => subsetB_testBit hsub hp⟩

/-- the type check is sound: when it passes, every property of every array has
a recorded C type, and every array argument an element of which an equation or
stepper uses as an index (subscript of another array, `range` bound, assigned to
a local declared `int`/`long`/…) is known to the code generator as an integer
pointer — an `int`/`unsigned int`/`long` property of some array of the problem
and a `float`/`double` property of none -/
theorem types_check_sound (kinds : List EqKind) (sk : List StepKind) (b : Body) :
    typesOk kinds sk b = true → TypesOk kinds sk b :=
  typesOk_sound kinds sk b

/-- the index part of the check is exactly its specification (both directions) -/
theorem index_types_check_exact (kinds : List EqKind) (sk : List StepKind) (b : Body) :
    (subsetB (idxUsed kinds sk b) (intKnown b) &&
      ((idxUsed kinds sk b &&& floatKnown b) == 0)) = true ↔
    ∀ p, IndexUsed kinds sk b p → KnownIntegral b p :=
  indexTypes_iff kinds sk b

/-- a configuration where an index-used name is a `double` property of some
array (the seeded `orig_idx` defect) or an integer property of none cannot pass -/
theorem types_check_rejects_bad_index (kinds : List EqKind) (sk : List StepKind) (b : Body) (p : Nat)
    (hu : IndexUsed kinds sk b p) (hbad : ¬ KnownIntegral b p) : typesOk kinds sk b = false :=
  typesOk_false_of_bad_index kinds sk b p hu hbad

/-- the stage check is exactly its specification: it passes iff every member
of the generated `Integrator` class that the integrator's `one_timestep` uses
beyond the template's own (`initialize`, `stage1`, …) is a wrapper that some
stepper of the configuration makes the code generator emit -/
theorem stages_check_exact (ik : List IntegKind) (sk : List StepKind) (b : Body) :
    stagesOk ik sk b = true ↔ StagesProvided ik sk b :=
  stagesOk_iff ik sk b

/-- an integrator that drives a stage no stepper has (the seeded
`TVDRK3Integrator` over `WCSPHStep`s: `stage3`) cannot pass -/
theorem stages_check_rejects_missing_stage (ik : List IntegKind) (sk : List StepKind) (b : Body)
    (i : IntegKind) (m : String) (hi : ik[b.integ]? = some i) (hm : m ∈ i.calls)
    (hno : ∀ st ∈ b.steppers, ∀ k, sk[st.1]? = some k → ¬ Wraps k m) :
    stagesOk ik sk b = false := by
  cases h : stagesOk ik sk b with
  | false => rfl
  | true =>
    obtain ⟨i', hi', hall⟩ := (stagesOk_iff ik sk b).mp h
    rw [hi] at hi'
    cases hi'
    obtain ⟨st, hst, k, hk, hw⟩ := hall m hm
    exact absurd hw (hno st hst k hk)

/-- `extra_steppers`: the steppers of a configuration are the caller's, then
the scheme's defaults for exactly the arrays the caller did not mention -/
theorem extra_steppers_merge (b : Body) (ex : List (Nat × Nat)) (st : Nat × Nat) :
    st ∈ (withExtra b ex).steppers ↔ st ∈ ex ∨ (st ∈ b.steppers ∧ ∀ e ∈ ex, e.2 ≠ st.2) :=
  mem_withExtra b ex st

/-- `extra_steppers={}` is `extra_steppers=None` -/
theorem extra_steppers_empty (b : Body) : withExtra b [] = b := withExtra_nil b

/-- a complete configuration stays complete under ANY caller-supplied steppers
(of any classes `uks`, for any arrays) each of which finds the properties it
references on its array -/
theorem complete_with_extra_steppers (t : List PreSym) (kinds : List EqKind)
    (sk uks : List StepKind) (b : Body) (ex : List (Nat × Nat))
    (h : Complete t kinds sk b) (hex : ∀ st ∈ ex, CompleteStepper (sk ++ uks) b st) :
    Complete t kinds (sk ++ uks) (withExtra b ex) :=
  complete_withExtra t kinds (sk ++ uks) b ex (complete_more_kinds t kinds sk uks b h) hex

/-! ## the generated table (kernel evaluation over the whole table) -/

/-- every distinct outcome of running a configuration passes the completeness check -/
theorem bodies_checked : bodies.all (checkBody preTable eqKinds stepKinds) = true := by
  decide +kernel

/-- … and is accepted by the model of the real fail-fast checkers -/
theorem bodies_accepted : bodies.all (acceptsBody preTable eqKinds stepKinds) = true := by
  decide +kernel

/-- … and passes the type check: index-used array arguments are integer properties -/
theorem bodies_index_types_ok : bodies.all (typesOk eqKinds stepKinds) = true := by
  decide +kernel

/-- … and its integrator only drives stages that some stepper provides -/
theorem bodies_stages_ok : bodies.all (stagesOk integKinds stepKinds) = true := by
  decide +kernel

/-- … already the steppers of the first array (the fluid) provide them all -/
theorem bodies_fluid_stages_ok :
    bodies.all (fun b => stagesOk integKinds stepKinds (onlyArray b 0)) = true := by
  decide +kernel

/-- every grid entry is `0` (rejected by the scheme) or names a body of the table -/
theorem entries_in_range : schemeTable.all (runsInRange bodies.length) = true := by
  decide +kernel

/-- every scheme's table has exactly one entry per point of its grid -/
theorem grid_full : schemeTable.all (fun g => g.bodyOf.length == gridSize g) = true := by
  decide +kernel

/-- the only combinations a scheme itself refuses are MAGMA2's "the chosen
smoothing-length procedure needs its parameter" -/
theorem rejections_only_magma2 :
    schemeTable.all (fun g => g.name == "MAGMA2Scheme" || !(g.runs.any (fun r => r.2 == 0)))
      = true := by
  decide +kernel

/-- the scheme classes the table covers -/
theorem schemes_covered :
    schemeTable.map (·.name) =
      ["WCSPHScheme", "TVFScheme", "AdamiHuAdamsScheme", "GasDScheme", "GSPHScheme",
       "ADKEScheme", "GTVFScheme", "EDACScheme", "CRKSPHScheme", "PCISPHScheme",
       "IISPHScheme", "ISPHScheme", "SISPHScheme", "MAGMA2Scheme", "TSPHScheme",
       "PSPHScheme", "SchemeChooser"] := by
  decide +kernel

theorem bodyOf_length {g : SchemeGrid} (hg : g ∈ schemeTable) : g.bodyOf.length = gridSize g := by
  have h := grid_full
  simp only [List.all_eq_true, beq_iff_eq] at h
  exact h g hg

/-! ## the property -/

/-- **C12, completeness.**  For every scheme of the table and every point of
its option grid (options × dim × solids × clean), the scheme either rejects
the combination itself or, after `configure_solver` and `setup_properties`,
every equation of `get_equations` and every integrator stepper references
only properties and constants its arrays have. -/
theorem all_configs_complete :
    ∀ g ∈ schemeTable, ∀ i, i < gridSize g →
      PointOk preTable eqKinds stepKinds bodies g i := by
  intro g hg i hi
  have hr := entries_in_range
  simp only [List.all_eq_true] at hr
  rw [← bodyOf_length hg] at hi
  obtain ⟨c, hc, h⟩ := point_of_runs _ bodies g bodies_checked (hr g hg) i hi
  refine ⟨c, hc, ?_⟩
  rcases h with h0 | ⟨b, hb, hchk⟩
  · left; exact h0
  · right; exact ⟨b, hb, complete_of_check _ _ _ b hchk⟩

/-- the same, indexed by the option values themselves -/
theorem all_option_combinations_complete :
    ∀ g ∈ schemeTable, ∀ ds, ValidDigits (radices g) ds →
      PointOk preTable eqKinds stepKinds bodies g (flatIndex (radices g) ds 0) :=
  fun g hg ds h => all_configs_complete g hg _ (flatIndex_lt g ds h)

/-- **C12, acceptance.**  For every grid point the real set-up checks
(`check_equation_array_properties` for every equation, the stepper checks of
the integrator helper) raise nothing. -/
theorem all_configs_accepted :
    ∀ g ∈ schemeTable, ∀ i, i < gridSize g →
      PointAccepted preTable eqKinds stepKinds bodies g i := by
  intro g hg i hi
  have hr := entries_in_range
  simp only [List.all_eq_true] at hr
  rw [← bodyOf_length hg] at hi
  exact point_of_runs _ bodies g bodies_accepted (hr g hg) i hi

/-- **C12, generatable: index types.**  For every grid point the scheme either
rejects the combination itself or, after `setup_properties`, every property has
one C type and every array argument whose elements an equation or stepper uses as
an index has an integer known type, so the generated Cython does not contain
`int = double` or a `double` subscript. -/
theorem all_configs_index_types_ok :
    ∀ g ∈ schemeTable, ∀ i, i < gridSize g →
      PointTypesOk eqKinds stepKinds bodies g i := by
  intro g hg i hi
  have hr := entries_in_range
  simp only [List.all_eq_true] at hr
  rw [← bodyOf_length hg] at hi
  obtain ⟨c, hc, h⟩ := point_of_runs _ bodies g bodies_index_types_ok (hr g hg) i hi
  refine ⟨c, hc, ?_⟩
  rcases h with h0 | ⟨b, hb, hchk⟩
  · left; exact h0
  · right; exact ⟨b, hb, typesOk_sound _ _ b hchk⟩

/-- **C12, generatable: stages.**  For every grid point (options × solver
options such as `integrator_cls` × dim × solids × clean) the scheme either
rejects the combination or the steppers it chose provide every stage the
integrator's `one_timestep` drives, so the generated `Integrator` class has
every method its time step calls. -/
theorem all_configs_stages_provided :
    ∀ g ∈ schemeTable, ∀ i, i < gridSize g →
      PointStagesOk integKinds stepKinds bodies g i := by
  intro g hg i hi
  have hr := entries_in_range
  simp only [List.all_eq_true] at hr
  rw [← bodyOf_length hg] at hi
  obtain ⟨c, hc, h⟩ := point_of_runs _ bodies g bodies_stages_ok (hr g hg) i hi
  refine ⟨c, hc, ?_⟩
  rcases h with h0 | ⟨b, hb, hchk⟩
  · left; exact h0
  · right; exact ⟨b, hb, (stagesOk_iff _ _ b).mp hchk⟩

/-- **C12 with `extra_steppers`.**  For every grid point the scheme accepts and
EVERY `extra_steppers` dict (steppers of any classes `uks`, `ex` = (class,
array) pairs): if each caller-supplied stepper references only properties its
array has after `setup_properties`, the configuration is complete; and if the
caller leaves the first array (the fluid) to the scheme, every stage the
integrator drives is still provided. -/
theorem all_configs_complete_with_extra_steppers :
    ∀ g ∈ schemeTable, ∀ i, i < gridSize g →
      ∃ c, g.bodyOf[i]? = some c ∧ (c = 0 ∨ ∃ b, bodies[c - 1]? = some b ∧
        ∀ (uks : List StepKind) (ex : List (Nat × Nat)),
          ((∀ st ∈ ex, CompleteStepper (stepKinds ++ uks) b st) →
            Complete preTable eqKinds (stepKinds ++ uks) (withExtra b ex)) ∧
          ((∀ e ∈ ex, e.2 ≠ 0) →
            StagesProvided integKinds (stepKinds ++ uks) (withExtra b ex))) := by
  intro g hg i hi
  have hr := entries_in_range
  simp only [List.all_eq_true] at hr
  rw [← bodyOf_length hg] at hi
  obtain ⟨c, hc, h⟩ := point_of_runs _ bodies g bodies_checked (hr g hg) i hi
  obtain ⟨c', hc', h'⟩ := point_of_runs _ bodies g bodies_fluid_stages_ok (hr g hg) i hi
  rw [hc] at hc'
  cases hc'
  refine ⟨c, hc, ?_⟩
  rcases h with h0 | ⟨b, hb, hchk⟩
  · left; exact h0
  rcases h' with h0 | ⟨b', hb', hst⟩
  · left; exact h0
  right
  rw [hb] at hb'
  cases hb'
  refine ⟨b, hb, ?_⟩
  intro uks ex
  constructor
  · intro hex
    exact complete_with_extra_steppers _ _ _ uks b ex (complete_of_check _ _ _ b hchk) hex
  · intro hex
    exact stages_withExtra_of_array _ _ b 0 ex
      (stagesProvided_more_kinds _ _ uks _ ((stagesOk_iff _ _ _).mp hst)) hex

/-! ## non-vacuity -/

/-- the stage theorem is not vacuous: three-stage integrators occur … -/
example : ∃ i ∈ integKinds, "stage3" ∈ i.calls := by
  decide +kernel

/-- … and the check discriminates: give the first configuration whose
integrator drives `stage3` the steppers of a two-stage configuration (what the
seeded `isinstance(cls, TVDRK3Integrator)` does) and it fails -/
example : ((bodies.find? (fun b => (integKinds[b.integ]?.map
      (fun i => i.calls.contains "stage3")) == some true)).map (fun b =>
    stagesOk integKinds stepKinds { b with steppers := b.steppers.map (fun st =>
      ((stepKinds.findIdx? (fun k => !(stepWrappers k).contains "stage3")).getD 0, st.2)) }))
    = some false := by
  decide +kernel

/-- a caller-supplied stepper for the second array (a wall) of a configuration
with two arrays replaces exactly that array's default -/
example : ((bodies.find? (fun b => b.arrays.length == 2 && b.steppers.length == 2)).map (fun b =>
    (withExtra b [(0, 1)]).steppers.map (·.2))) = some [1, 0] := by
  decide +kernel

/-- the type theorem is not vacuous: some configuration does use an array
element as an index … -/
example : ∃ b ∈ bodies, idxUsed eqKinds stepKinds b ≠ 0 := by
  decide +kernel

/-- … and the check discriminates: move every integer property of such a
configuration to `double` and it fails -/
example : ((bodies.find? (fun b => idxUsed eqKinds stepKinds b != 0)).map (fun b =>
    typesOk eqKinds stepKinds { b with types := b.types.map (fun t =>
      { t with int := 0, uint := 0, long := 0,
               double := t.double ||| t.int ||| t.uint ||| t.long }) }))
    = some false := by
  decide +kernel

/-- the table is not empty and its bodies are not trivial -/
example : ∃ g ∈ schemeTable, g.name = "WCSPHScheme" ∧ 1000 < gridSize g := by
  refine ⟨gridWCSPHScheme, by simp [schemeTable], by decide +kernel, by decide +kernel⟩

example : ∃ b ∈ bodies, 5 ≤ b.eqs.length ∧ 2 ≤ b.arrays.length ∧ 1 ≤ b.steppers.length := by
  decide +kernel

/-- the check discriminates: strip every property from the arrays of the first
body and it fails -/
example : (bodies.head?.map (fun b =>
    checkBody preTable eqKinds stepKinds { b with arrays := b.arrays.map (fun a => (a.1, 0)) }))
    = some false := by
  decide +kernel

/-- a legal multi-index -/
example : ValidDigits (radices gridTVFScheme) [2, 1, 0, 1, 1] := by
  simp [radices, gridTVFScheme, ValidDigits]

end PysphVerif.C12
