import PysphVerif.Lemmas.Reorder
/-!
# C17 — spatial re-ordering is a pure permutation of whole particles

Property theorems only (helper lemmas live in `Lemmas/Reorder.lean`).  They are
about `Model/Reorder.lean`, which transcribes `get_spatially_ordered_indices`
of the five traversal families (8 classes), cyarray's `c_align_array`,
`ParticleArray.align_particles` and `NNPS.spatially_order_particles`, and is
tied to the code by exact differential execution (`harness/c17.py`).

Quantification: every assignment of particles to cells / keys / octants
(with the range condition the geometry guarantees, stated per theorem), every
number of particles, every particle array (any number of properties, any
strides, any tags), every index permutation, every history of re-orderings,
also with arbitrary edits of the array (particles / properties added and
removed) between them.

`spatiallyOrderOrig` is the code of the pinned tree, `spatiallyOrder` the
repaired code (proposed_fixes/C17-reorder-align.diff).
-/
namespace PysphVerif.C17
open PysphVerif.Reorder List

/-! ## the ordered index list is a permutation of `0..n-1` -/

/-- LinkedListNNPS / BoxSortNNPS: cells in ascending order, inside a cell
the most recently binned particle first — whatever the cell assignment. -/
theorem ordered_indices_eq_LinkedList (cid : Nat → Nat) (ncells n : Nat) :
    llOrder cid ncells n =
      (range ncells).flatMap (fun c => ((range n).filter (fun i => cid i == c)).reverse) :=
  llOrder_eq cid ncells n

/-- … a permutation of `0..n-1` exactly when every particle's cell index is
inside the `head` array (each particle in exactly one bucket, each bucket
visited once). -/
theorem ordered_indices_perm_LinkedList (cid : Nat → Nat) (ncells n : Nat) :
    llOrder cid ncells n ~ range n ↔ ∀ i, i < n → cid i < ncells := by
  constructor
  · intro hp i hi
    have hmem : i ∈ llOrder cid ncells n := hp.mem_iff.mpr (by simpa using hi)
    rw [llOrder_eq] at hmem
    obtain ⟨c, hc, hic⟩ := mem_flatMap.mp hmem
    simp only [llBucket, mem_reverse, mem_filter, beq_iff_eq] at hic
    rw [hic.2]; simpa using hc
  · exact llOrder_perm cid ncells n

example : llOrder (fun i => [0, 2, 0, 1, 2].getD i 0) 3 5 = [2, 0, 3, 4, 1] := by decide

/-- finding `C17:ll-coincident-lowdim` in the model: one particle in a 2D
problem binned (by the padded z extent) into cell 13 of 9 — the list is empty. -/
theorem ordered_indices_LinkedList_out_of_range_counterexample :
    ¬ (llOrder (fun _ => 13) 9 1 ~ range 1) := by
  rw [ordered_indices_perm_LinkedList]
  intro h; exact absurd (h 0 (by omega)) (by omega)

/-- ZOrderNNPS / ExtendedZOrderNNPS / StratifiedSFCNNPS: `pids` is `0..n-1`
sorted by key — for *any* sorting routine that permutes its input
(`std::sort`'s contract), whatever the keys. -/
theorem ordered_indices_perm_ZOrder_any_sort (srt : List Nat → List Nat)
    (hsrt : ∀ l, srt l ~ l) (n : Nat) : srt (range n) ~ range n := hsrt _

/-- … and for the executable model (stable merge sort by key). -/
theorem ordered_indices_perm_ZOrder (key : Nat → Nat) (n : Nat) : sortOrder key n ~ range n :=
  sortOrder_perm key n

/-- the keys are non-decreasing along the list (it *is* the spatial order) -/
theorem ordered_indices_sorted_ZOrder (key : Nat → Nat) (n : Nat) :
    (sortOrder key n).Pairwise (fun a b => key a ≤ key b) := sortOrder_sorted key n

-- (unconditional; the driver evaluates `sort key=5,1,5,0` to `3,1,0,2` — `mergeSort` is defined by
-- well-founded recursion and does not reduce under `decide`)
example : (sortOrder (fun i => [5, 1, 5, 0].getD i 0) 4).length = 4 :=
  (ordered_indices_perm_ZOrder _ 4).length_eq.trans (by simp)

/-- CellIndexingNNPS: the particle id travels in the low `I` bits of the
sorted 32-bit key; the ids read back are a permutation as long as
`n ≤ 2^I` (`I = ⌊1 + log2 n⌋`) and `I ≤ 32` — even when the cell part
overflows 32 bits. -/
theorem ordered_indices_perm_CellIndexing (I : Nat) (cell : Nat → Nat) (n : Nat)
    (hI : I ≤ 32) (hn : n ≤ 2 ^ I) : ciOrder I cell n ~ range n :=
  ciOrder_perm I cell n hI hn

-- hypotheses met by a non-trivial instance (5 particles, `I = ⌊1 + log2 5⌋ = 3`)
example : 3 ≤ 32 ∧ 5 ≤ 2 ^ 3 := by decide
example : ciId 3 (ciKey 3 (fun _ => 2 ^ 31) 4) = 4 := by decide

/-- OctreeNNPS / CompressedOctreeNNPS: `pids` (leaves in depth-first octant
order) is a permutation of the particles handed to the builder, for every
octant classifier with values `< 8`, every leaf size, every stopping rule and
every recursion depth. -/
theorem ordered_indices_perm_Octree (leafMax : Nat) (digit : Nat → Nat → Nat)
    (stop : List Nat → Bool) (hd : ∀ d q, digit d q < 8) (fuel n : Nat) :
    octOrder leafMax digit stop fuel n ~ range n :=
  octBuild_perm leafMax digit stop hd fuel [] (range n)

example : octOrder 2 (fun d q => ([[0, 1], [1], [0, 0], [1]].getD q []).getD d 0)
    (fun p => p == [1]) 5 4 = [2, 0, 1, 3] := by decide

/-! ## the gather (`c_align_array`) with a stride -/

variable {α : Type} [Inhabited α]

/-- **rows stay together**: element `i·s+k` of the result is element
`idx[i]·s+k` of the source, for every stride `s`, row `i` and component
`k < s` (no hypothesis on `idx`). -/
theorem gather_keeps_rows_together (idx : List Nat) (s : Nat) (data : List α) (i k : Nat)
    (hi : i < data.length / s) (hk : k < s) :
    (gather idx s data).getD (i * s + k) default = data.getD (idx.getD i i * s + k) default :=
  gather_getD idx s data i k hi hk

theorem gather_preserves_length (idx : List Nat) (s : Nat) (data : List α) :
    (gather idx s data).length = data.length := gather_length idx s data

/-- **multiset of rows preserved**: gathering through a permutation of the
row numbers permutes the rows (each a block of `s` elements). -/
theorem gather_perm_preserves_multiset (idx : List Nat) (s : Nat) (data : List α)
    (hp : idx ~ range (data.length / s)) : rowsOf s (gather idx s data) ~ rowsOf s data :=
  rowsOf_gather_perm idx s data hp

example : gather [2, 0, 1] 2 [1, 2, 3, 4, 5, 6, (7 : Int)] = [5, 6, 1, 2, 3, 4, 7] := by decide

/-! ## whole particles -/

/-- after `spatially_order_particles` (pinned or repaired) the particles —
each with its values in *all* properties, strided ones included — are a
permutation of the particles before. -/
theorem reorder_preserves_particles_orig (idx : List Nat) (pa : PA) (hwf : pa.wf = true)
    (hp : idx ~ range pa.n) : (spatiallyOrderOrig idx pa).particles ~ pa.particles :=
  particles_gatherAll_perm pa idx hwf hp

theorem reorder_preserves_particles (idx : List Nat) (pa : PA) (hwf : pa.wf = true)
    (hp : idx ~ range pa.n) : (spatiallyOrder idx pa).particles ~ pa.particles :=
  particles_fixed_perm idx pa hwf hp

/-- particle `i` of the re-ordered array (pinned code) is the old particle
`idx[i]`, whole. -/
theorem reorder_moves_whole_particles (idx : List Nat) (pa : PA) (hwf : pa.wf = true)
    (hl : idx.length = pa.n) : (spatiallyOrderOrig idx pa).particles = idx.map pa.particle :=
  particles_gatherAll pa idx hwf hl

/-! ## real particles ahead of ghost / remote ones -/

/-- the property's clause, as a statement about a re-ordering routine `f` -/
def RealFirstAfterReorder (f : List Nat → PA → PA) : Prop :=
  ∀ (idx : List Nat) (pa : PA), pa.wf = true → pa.realFirst = true → idx ~ range pa.n →
    (f idx pa).realFirst = true

def cexPA : PA :=
  { props := [⟨"tag", 1, [0, 2]⟩, ⟨"A", 2, [10, 11, 20, 21]⟩], nReal := 1 }

/-- **F6**: the pinned `spatially_order_particles` violates it — Local, Ghost
re-ordered by `[1, 0]` leaves the ghost in slot 0 with `num_real_particles = 1`. -/
theorem real_first_after_reorder_orig_counterexample : ¬ RealFirstAfterReorder spatiallyOrderOrig := by
  intro h
  have := h [1, 0] cexPA (by decide) (by decide) (by decide)
  revert this
  decide

/-- what does hold for the pinned code: arrays without non-Local tags -/
theorem real_first_after_reorder_orig_partial (idx : List Nat) (pa : PA) (hwf : pa.wf = true)
    (hall : ∀ t ∈ pa.tags, t = localTag) (hn : pa.nReal = pa.n) (hp : idx ~ range pa.n) :
    (spatiallyOrderOrig idx pa).realFirst = true := by
  have hl : idx.length = pa.tags.length := by simpa [PA.n] using hp.length_eq
  have htags : (spatiallyOrderOrig idx pa).tags = idx.map (fun i => pa.tags.getD i default) := by
    unfold spatiallyOrderOrig
    rw [tags_gatherAll pa idx hwf, gather_one idx pa.tags hl]
  have hnr : (spatiallyOrderOrig idx pa).nReal = pa.n := hn
  have hlen : (spatiallyOrderOrig idx pa).tags.length = pa.n := by
    rw [htags, length_map, hl]; rfl
  have hall' : ∀ t ∈ (spatiallyOrderOrig idx pa).tags, t = localTag := by
    rw [htags]
    intro t ht
    obtain ⟨x, hx, rfl⟩ := mem_map.mp ht
    have hxn : x < pa.tags.length := by simpa [PA.n] using hp.mem_iff.mp hx
    apply hall
    simp [getD_eq_getElem?_getD, getElem?_eq_getElem hxn]
  unfold PA.realFirst
  rw [hnr, n_orig idx pa hwf]
  have h1 : take pa.n (spatiallyOrderOrig idx pa).tags = (spatiallyOrderOrig idx pa).tags :=
    take_of_length_le (by omega)
  have h2 : drop pa.n (spatiallyOrderOrig idx pa).tags = [] := drop_of_length_le (by omega)
  rw [h1, h2]
  simp only [all_nil, Bool.and_true, Nat.le_refl, decide_true, all_eq_true, beq_iff_eq]
  exact hall'

/-- **real particles first after the (repaired) re-ordering** — every array,
every tag pattern, every index list (no hypothesis on `idx` at all). -/
theorem real_first_after_reorder (idx : List Nat) (pa : PA) (hwf : pa.wf = true) :
    (spatiallyOrder idx pa).realFirst = true :=
  realFirst_align _ (wf_orig idx pa hwf)

theorem real_first_after_reorder_full : RealFirstAfterReorder spatiallyOrder :=
  fun idx pa hwf _ _ => real_first_after_reorder idx pa hwf

/-- `num_real_particles` afterwards is the number of Local tags -/
theorem num_real_after_reorder (idx : List Nat) (pa : PA) :
    (spatiallyOrder idx pa).nReal = countLocal (spatiallyOrderOrig idx pa).tags :=
  nReal_align _

example : spatiallyOrder [1, 0] cexPA =
    { props := [⟨"tag", 1, [0, 2]⟩, ⟨"A", 2, [10, 11, 20, 21]⟩], nReal := 1 } := by decide

example : (spatiallyOrder [2, 0, 1]
    { props := [⟨"tag", 1, [0, 0, 2]⟩, ⟨"A", 2, [1, 2, 3, 4, 5, 6]⟩], nReal := 2 }).realFirst = true := by
  decide

/-! ## repeated re-ordering -/

/-- any history of re-orderings of one array (each by some permutation of its
slots, e.g. the ordered indices of any of the classes above after any motion
of the particles) keeps the multiset of whole particles, the shape of the
array, the particle count, and leaves the real particles first. -/
theorem repeated_reordering (idxs : List (List Nat)) (pa : PA) (hwf : pa.wf = true)
    (h : ∀ idx ∈ idxs, idx ~ range pa.n) (h0 : idxs = [] → pa.realFirst = true) :
    (reorderHistory idxs pa).particles ~ pa.particles ∧ (reorderHistory idxs pa).wf = true ∧
    (reorderHistory idxs pa).n = pa.n ∧ (reorderHistory idxs pa).realFirst = true :=
  reorderHistory_spec idxs pa hwf h h0

example : (reorderHistory [[1, 0, 2], [2, 1, 0]]
    { props := [⟨"tag", 1, [0, 0, 2]⟩, ⟨"A", 2, [1, 2, 3, 4, 5, 6]⟩], nReal := 2 }) =
    { props := [⟨"tag", 1, [0, 0, 2]⟩, ⟨"A", 2, [1, 2, 3, 4, 5, 6]⟩], nReal := 2 } := by decide

/-! ## histories on ONE search structure: the arrays are edited between the re-orderings

`spatiallyOrder idx pa` reads the array as it is when the re-order runs:
`pa.props` are the properties it has *then* (also those added after the search
structure was made), `pa.n` the particle count it has *then*.  So
`reorder_preserves_particles` / `reorder_moves_whole_particles` /
`real_first_after_reorder`, which quantify over every `pa`, already cover a
re-order after any edit; there is no NNPS-object state in the model in which a
property list or a count of construction time could survive (the code has
such state: `NNPSParticleArrayWrapper` — that the code does not *use* it in
the re-order is what the harness's edit histories test, seeds A2/B2).
`history_with_edits` spells the consequence out. -/

/-- the gather visits exactly the properties the array has at the time of the
re-order, in their order -/
theorem reorder_gathers_current_properties (idx : List Nat) (pa : PA) :
    (spatiallyOrder idx pa).names = pa.names := names_fixed idx pa

/-- any life of an array — re-orders interleaved with arbitrary edits
(`add_particles`, `remove_particles`, ghosts made by a domain manager,
`add_property`, `ensure_properties`, `remove_property`, motion; anything that
leaves a well-formed array), each re-order using a permutation of the slots
the array has at that time: **every** re-order keeps the multiset of whole
particles over the properties the array has then, the property list, the
count, and leaves the real particles first. -/
theorem history_with_edits (evs : List Event) (pa : PA) (hwf : pa.wf = true)
    (h : Admissible pa evs) : EveryReorderGood pa evs :=
  (everyReorderGood_of_admissible evs pa hwf h).1

def histPA : PA :=
  { props := [⟨"tag", 1, [0, 2, 0]⟩, ⟨"oid", 1, [0, 1, 2]⟩], nReal := 2 }

/-- `add_particles`: one more Local particle, value 7 in every component of
every other property -/
def histAddCol (c : Col) : Col :=
  { c with data := c.data ++ List.replicate c.stride (if c.name == "tag" then 0 else 7) }

def histAdd (pa : PA) : PA := { pa with props := pa.props.map histAddCol }

def histEvents : List Event :=
  [.reorder [2, 0, 1], .edit (addProp "V" 2 [0, 1, 20, 21, 10, 11]), .reorder [1, 0, 2],
   .edit histAdd, .reorder [3, 2, 1, 0]]

-- a non-trivial admissible history: a strided property is added after the first
-- re-order, a particle after the second
example : histPA.wf = true ∧ Admissible histPA histEvents := by
  refine ⟨by decide, by decide, by decide, by decide, by decide, by decide, trivial⟩

example : runEvents histPA histEvents =
    { props := [⟨"tag", 1, [0, 0, 0, 2]⟩, ⟨"oid", 1, [7, 2, 0, 1]⟩,
                ⟨"V", 2, [7, 7, 0, 1, 20, 21, 10, 11]⟩], nReal := 3 } := by decide

/-- **seed shape B2** in the model: gathering only a property list remembered
from construction time tears a later property off its particle. -/
theorem stale_property_list_counterexample :
    ¬ ∀ (cached : List String) (idx : List Nat) (pa : PA), pa.wf = true → idx ~ range pa.n →
        (spatiallyOrderCached cached idx pa).particles ~ pa.particles := by
  intro h
  have := h ["tag", "oid"] [1, 0]
    { props := [⟨"tag", 1, [0, 0]⟩, ⟨"oid", 1, [0, 1]⟩, ⟨"T", 1, [10, 20]⟩], nReal := 2 }
    (by decide) (by decide)
  revert this
  decide

/-- **seed shape A2** in the model: an index list made for the particle count
`n₀` of construction time is not a permutation of the slots of an array that
has `n ≠ n₀` particles now — whatever the keys. -/
theorem stale_particle_count_counterexample (key : Nat → Nat) (n₀ n : Nat) (hne : n₀ ≠ n) :
    ¬ (sortOrder key n₀ ~ range n) := by
  intro h
  have h1 := (sortOrder_perm key n₀).length_eq
  have h2 := h.length_eq
  simp only [length_range] at h1 h2
  omega

/-! ## neighbour queries after the following update

`reorder_then_update_exact` is not a theorem of this file: after the gather
the array is just another particle array (same multiset of particles, real
ones first), and exactness of the search on *every* array is C01's theorem.
Here it is an oracle test on the real code (brute force, every run). -/

end PysphVerif.C17
