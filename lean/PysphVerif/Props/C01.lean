import PysphVerif.Lemmas.Nnps
import PysphVerif.Lemmas.NnpsTree
import Mathlib.Data.Rat.Floor
/-!
# C01 — every neighbour-search algorithm returns exactly the true neighbour set

Property theorems only (helper lemmas live in `Lemmas/Nnps.lean`).  They are
about `Model/Nnps.lean`, which transcribes the shared front end of
`nnps_base.pyx` (cell size, acceptance test, brute force), the Grid family's
3×3×3 stencil, the linked-list storage of `LinkedListNNPS`, the neighbour
cache and the pruning test of the octree query; the model is tied to the 12
compiled classes by differential execution on dyadic-grid inputs
(`harness/c01.py`).

All geometric statements hold over every linearly ordered field, every point
cloud, every radius scale `rs ≥ 0`, every origin of the cell grid; storage
statements hold for every insertion sequence / schedule.
-/
set_option linter.unusedSectionVars false
namespace PysphVerif.C01
open PysphVerif.Nnps

section geometry
variable {α : Type} [Field α] [LinearOrder α] [IsStrictOrderedRing α]

/-- The acceptance test is symmetric in source and destination: `j` is
returned for `i` exactly when `i` is returned for `j`. -/
theorem isNbr_symm (rs : α) (p q : Pt α) : isNbr rs q p = isNbr rs p q := by
  simp only [isNbr, gather, scatter, dist2_comm q p]
  exact Bool.or_comm _ _

/-- `d² < r²` forces every axis difference below `r`. -/
theorem sq_lt_imp_axis_lt (p q : Pt α) (r : α) (hr : 0 ≤ r) (h : dist2 p q < r * r) :
    |p.x - q.x| < r ∧ |p.y - q.y| < r ∧ |p.z - q.z| < r :=
  lt_cell_of_dist2_lt hr h

/-- What the acceptance test means: the distance is below `rs·max(h_i, h_j)`
(squared form), for non-negative `rs`, `h`. -/
theorem isNbr_iff (rs : α) (q p : Pt α) :
    isNbr rs q p = true ↔
      dist2 p q < (rs * q.h) * (rs * q.h) ∨ dist2 p q < (rs * p.h) * (rs * p.h) := by
  simp only [isNbr, gather, scatter, Nnps.sq, Bool.or_eq_true]
  constructor
  · rintro (h | h)
    · exact Or.inl (of_decide_eq_true h)
    · exact Or.inr (of_decide_eq_true h)
  · rintro (h | h)
    · exact Or.inl (decide_eq_true h)
    · exact Or.inr (decide_eq_true h)

end geometry

section floor
variable {α : Type} [Field α] [LinearOrder α] [IsStrictOrderedRing α] [FloorRing α]

/-- Points closer than one cell size land in the same or adjacent cells. -/
theorem floor_adj (x y c : α) (hc : 0 < c) (h : |x - y| < c) : |⌊x / c⌋ - ⌊y / c⌋| ≤ 1 := by
  have := floor_adj_aux x y c hc h
  rw [Int.abs_eq_natAbs]
  exact_mod_cast this

/-- A neighbour (in the sense of the acceptance test) whose cut-off does not
exceed the cell size lies in the 3×3×3 stencil of the destination's cell,
whatever the origin of the grid. -/
theorem grid_cover (rs c : α) (o q p : Pt α) (hc : 0 < c) (hrs : 0 ≤ rs)
    (hq : 0 ≤ q.h) (hp : 0 ≤ p.h) (hqc : rs * q.h ≤ c) (hpc : rs * p.h ≤ c)
    (h : isNbr rs q p = true) :
    inStencil (cell3 Int.floor c o q) (cell3 Int.floor c o p) = true := by
  have key : ∃ r, 0 ≤ r ∧ r ≤ c ∧ dist2 p q < r * r := by
    rcases (isNbr_iff rs q p).mp h with h1 | h1
    · exact ⟨rs * q.h, mul_nonneg hrs hq, hqc, h1⟩
    · exact ⟨rs * p.h, mul_nonneg hrs hp, hpc, h1⟩
  obtain ⟨r, hr0, hrc, hd⟩ := key
  obtain ⟨hx, hy, hz⟩ := lt_cell_of_dist2_lt hr0 hd
  have ax : ∀ (a b o' : α), |a - b| < r →
      (cellOf Int.floor c o' b - cellOf Int.floor c o' a).natAbs ≤ 1 := by
    intro a b o' hab
    have : |(b - o') - (a - o')| < c := by
      have e : (b - o') - (a - o') = -(a - b) := by ring
      rw [e, abs_neg]; exact lt_of_lt_of_le hab hrc
    exact floor_adj_aux (b - o') (a - o') c hc this
  simp only [inStencil, cell3, Bool.and_eq_true]
  exact ⟨⟨decide_eq_true (ax p.x q.x o.x hx), decide_eq_true (ax p.y q.y o.y hy)⟩,
    decide_eq_true (ax p.z q.z o.z hz)⟩

end floor

/-! ## master theorem -/
section master
variable {α : Type} [Field α] [LinearOrder α] [IsStrictOrderedRing α]

theorem accepts_lt (rs : α) (src : List (Pt α)) (q : Pt α) (j : Nat)
    (h : accepts rs src q j = true) : j < src.length := by
  unfold accepts at h
  cases hj : src[j]? with
  | none => rw [hj] at h; cases h
  | some p => exact (List.getElem?_eq_some_iff.mp hj).1

/-- **Master theorem.**  Whatever produces the candidate indices: if every
accepted source index is among the candidates and no candidate is repeated,
the filtered candidates are exactly the brute-force neighbour list up to order,
without duplicates, and all indices are valid. -/
theorem exact_of_cover_nodup (rs : α) (src : List (Pt α)) (q : Pt α) (cands : List Nat)
    (hcover : ∀ j, j < src.length → accepts rs src q j = true → j ∈ cands)
    (hnd : cands.Nodup) :
    (nbrsOf rs src q cands).Perm (bruteForce rs src q) ∧ (nbrsOf rs src q cands).Nodup ∧
      ∀ j ∈ nbrsOf rs src q cands, j < src.length := by
  have nd1 : (nbrsOf rs src q cands).Nodup := hnd.filter _
  have nd2 : (bruteForce rs src q).Nodup := List.nodup_range.filter _
  refine ⟨?_, nd1, ?_⟩
  · rw [List.perm_ext_iff_of_nodup nd1 nd2]
    intro j
    simp only [nbrsOf, bruteForce, List.mem_filter, List.mem_range]
    constructor
    · rintro ⟨_, ha⟩; exact ⟨accepts_lt rs src q j ha, ha⟩
    · rintro ⟨hl, ha⟩; exact ⟨hcover j hl ha, ha⟩
  · intro j hj
    simp only [nbrsOf, List.mem_filter] at hj
    exact accepts_lt rs src q j hj.2

/-- The brute-force list itself: no duplicates, valid indices, and `j` is in it
exactly when the acceptance test holds for source particle `j`. -/
theorem bruteForce_spec (rs : α) (src : List (Pt α)) (q : Pt α) :
    (bruteForce rs src q).Nodup ∧
      ∀ j, j ∈ bruteForce rs src q ↔ ∃ p, src[j]? = some p ∧ isNbr rs q p = true := by
  refine ⟨List.nodup_range.filter _, ?_⟩
  intro j
  simp only [bruteForce, nbrsOf, List.mem_filter, List.mem_range]
  constructor
  · rintro ⟨_, ha⟩
    unfold accepts at ha
    cases hj : src[j]? with
    | none => rw [hj] at ha; cases ha
    | some p => rw [hj] at ha; exact ⟨p, rfl, ha⟩
  · rintro ⟨p, hp, hn⟩
    refine ⟨(List.getElem?_eq_some_iff.mp hp).1, ?_⟩
    unfold accepts; rw [hp]; exact hn

end master

/-! ## Grid family (LinkedList, BoxSort, DictBoxSort, SpatialHash, CellIndexing) -/
section grid
variable {α : Type} [Field α] [LinearOrder α] [IsStrictOrderedRing α] [FloorRing α]

/-- The Grid family returns exactly the brute-force list (same order even, as
both enumerate source indices increasingly) when the cell size is at least
every particle's cut-off `rs·h`. -/
theorem nbrs_exact_grid (rs c : α) (o : Pt α) (src : List (Pt α)) (q : Pt α)
    (hc : 0 < c) (hrs : 0 ≤ rs) (hq : 0 ≤ q.h) (hqc : rs * q.h ≤ c)
    (hsrc : ∀ p ∈ src, 0 ≤ p.h ∧ rs * p.h ≤ c) :
    gridNbrs Int.floor rs c o src q = bruteForce rs src q := by
  simp only [gridNbrs, gridCands, nbrsOf, bruteForce, List.filter_filter]
  apply List.filter_congr
  intro j _
  cases hj : src[j]? with
  | none => simp [accepts, hj]
  | some p =>
    by_cases ha : accepts rs src q j = true
    · have hn : isNbr rs q p = true := by simpa [accepts, hj] using ha
      have hp := hsrc p (List.mem_of_getElem? hj)
      have := grid_cover rs c o q p hc hrs hq hp.1 hqc hp.2 hn
      simp [ha, this]
    · simp [ha]

/-- Any class whose candidate list is a permutation of the stencil's particles
(that is what the storage lemmas establish for each Grid-family class) returns
the brute-force set, without duplicates, with valid indices. -/
theorem nbrs_exact_of_cands_perm_grid (rs c : α) (o : Pt α) (src : List (Pt α)) (q : Pt α)
    (cands : List Nat) (hperm : cands.Perm (gridCands Int.floor c o src q))
    (hc : 0 < c) (hrs : 0 ≤ rs) (hq : 0 ≤ q.h) (hqc : rs * q.h ≤ c)
    (hsrc : ∀ p ∈ src, 0 ≤ p.h ∧ rs * p.h ≤ c) :
    (nbrsOf rs src q cands).Perm (bruteForce rs src q) ∧ (nbrsOf rs src q cands).Nodup ∧
      ∀ j ∈ nbrsOf rs src q cands, j < src.length := by
  have hg := nbrs_exact_grid rs c o src q hc hrs hq hqc hsrc
  have hp : (nbrsOf rs src q cands).Perm (bruteForce rs src q) := by
    rw [← hg]; exact hperm.filter _
  have nd2 : (bruteForce rs src q).Nodup := List.nodup_range.filter _
  refine ⟨hp, hp.nodup_iff.mpr nd2, ?_⟩
  intro j hj
  simp only [nbrsOf, List.mem_filter] at hj
  exact accepts_lt rs src q j hj.2

/-- The cell size chosen by `_compute_cell_size_for_binning` is positive and at
least the cut-off `rs·h` of every particle of every array. -/
theorem cellSize_covers (rs tiny : α) (hss : List (List α)) (hrs : 0 ≤ rs)
    (ht0 : 0 < tiny) (ht1 : tiny ≤ 1) :
    0 < cellSize rs tiny hss ∧
      ∀ hs ∈ hss, ∀ h ∈ hs, rs * h ≤ cellSize rs tiny hss := by
  constructor
  · unfold cellSize; split
    · exact one_pos
    · exact lt_of_lt_of_le ht0 (not_lt.mp ‹_›)
  · intro hs hh h hx
    have hle : rs * h ≤ rs * hmaxAll hss :=
      mul_le_mul_of_nonneg_left (hmaxAll_ge hss hs hh h hx) hrs
    unfold cellSize; split
    · exact le_trans hle (le_trans (le_of_lt ‹_›) ht1)
    · exact hle

/-- Grid family with the cell size the code computes: exact for every
destination particle of every array against every source array. -/
theorem nbrs_exact_grid_cellSize (rs tiny : α) (o : Pt α) (arrs : List (List (Pt α)))
    (src dst : List (Pt α)) (q : Pt α) (hs : src ∈ arrs) (hd : dst ∈ arrs) (hq : q ∈ dst)
    (hrs : 0 ≤ rs) (ht0 : 0 < tiny) (ht1 : tiny ≤ 1)
    (hpos : ∀ a ∈ arrs, ∀ p ∈ a, 0 ≤ p.h) :
    gridNbrs Int.floor rs (cellSize rs tiny (arrs.map (fun a => a.map (·.h)))) o src q =
      bruteForce rs src q := by
  obtain ⟨hc, hcov⟩ := cellSize_covers rs tiny (arrs.map (fun a => a.map (·.h))) hrs ht0 ht1
  apply nbrs_exact_grid rs _ o src q hc hrs (hpos dst hd q hq)
  · exact hcov _ (List.mem_map_of_mem hd) _ (List.mem_map_of_mem hq)
  · intro p hp
    exact ⟨hpos src hs p hp, hcov _ (List.mem_map_of_mem hs) _ (List.mem_map_of_mem hp)⟩

end grid

/-! ## storage: linked list -/

theorem build_snoc (items : List (Nat × Nat)) (x : Nat × Nat) :
    LL.build (items ++ [x]) = (LL.build items).insert x := by
  simp [LL.build, List.foldl_append]

/-- After any insertion sequence with distinct particle ids, walking `head[c]`
(with at least as much fuel as there are particles) lists exactly the inserted
particles of flattened cell `c`, most recently inserted first — in particular
each exactly once. -/
theorem ll_traverse_eq_bucket (items : List (Nat × Nat))
    (hnd : (items.map (·.1)).Nodup) (c : Nat) :
    ∀ n, items.length ≤ n →
      (LL.build items).traverse n c =
        ((items.filter (fun ic => ic.2 = c)).map (·.1)).reverse := by
  induction items using List.reverseRecOn with
  | nil =>
    intro n _
    simp [LL.traverse, LL.build, LL.empty]
    cases n <;> rfl
  | append_singleton items x ih =>
    intro n hn
    obtain ⟨i, c'⟩ := x
    have hnd' : (items.map (·.1)).Nodup ∧ i ∉ items.map (·.1) := by
      rw [List.map_append, List.nodup_append] at hnd
      refine ⟨hnd.1, fun hm => ?_⟩
      exact hnd.2.2 i hm i (by simp) rfl
    have hlen : items.length + 1 ≤ n := by simpa using hn
    have ihn := ih hnd'.1
    have hnotin : ∀ m, items.length ≤ m → i ∉ (LL.build items).walk m ((LL.build items).head c) := by
      intro m hm hmem
      have := ihn m hm
      simp only [LL.traverse] at this
      rw [this] at hmem
      simp only [List.mem_reverse, List.mem_map, List.mem_filter] at hmem
      obtain ⟨a, ⟨ha, _⟩, hai⟩ := hmem
      exact hnd'.2 (List.mem_map.mpr ⟨a, ha, hai⟩)
    rw [build_snoc]
    simp only [LL.traverse, List.filter_append, List.map_append, List.reverse_append]
    by_cases hcc : c' = c
    · subst hcc
      obtain ⟨m, rfl⟩ : ∃ m, n = m + 1 := ⟨n - 1, by omega⟩
      have hm : items.length ≤ m := by omega
      have hhead : ((LL.build items).insert (i, c')).head c' = some i := by simp [LL.insert]
      have hnext : ((LL.build items).insert (i, c')).next i = (LL.build items).head c' := by
        simp [LL.insert]
      rw [hhead]
      simp only [LL.walk, hnext]
      rw [walk_insert_of_not_mem _ _ _ _ _ (hnotin m hm)]
      have := ihn m hm
      simp only [LL.traverse] at this
      rw [this]
      simp
    · have hhead : ((LL.build items).insert (i, c')).head c = (LL.build items).head c := by
        simp only [LL.insert]
        rw [if_neg (fun e => hcc e.symm)]
      rw [hhead, walk_insert_of_not_mem _ _ _ _ _ (hnotin n (by omega))]
      have := ihn n (by omega)
      simp only [LL.traverse] at this
      rw [this]
      simp [hcc]

/-! ## neighbour cache -/

/-- For every assignment of destinations to threads and every order in which
the fills happen (`sched`), a later `get_neighbors` for any destination `d`
returns exactly what `find_nearest_neighbors` produces for `d` — whether `d`
was filled by some thread before or is filled on demand now. -/
theorem cache_get_eq_find (find : Nat → List Nat) (sched : List (Nat × Nat)) (d : Nat) :
    (Cache.get find (Cache.run find Cache.reset sched) d).2 = find d := by
  have hinv := Cache.inv_run find sched Cache.reset (Cache.inv_reset find)
  have hinv' := Cache.inv_fillGuarded find _ (0, d) hinv
  have hc := Cache.cached_fillGuarded find (Cache.run find Cache.reset sched) 0 d
  exact (hinv' d hc).2.2

/-- … and successive gets keep answering correctly (the cache never goes stale
between updates). -/
theorem cache_get_preserves (find : Nat → List Nat) (s : Cache) (d e : Nat)
    (h : Cache.Inv find s) :
    Cache.Inv find (Cache.get find s d).1 ∧
      (Cache.get find (Cache.get find s d).1 e).2 = find e := by
  have h1 := Cache.inv_fillGuarded find s (0, d) h
  refine ⟨h1, ?_⟩
  have h2 := Cache.inv_fillGuarded find _ (0, e) h1
  exact (h2 e (Cache.cached_fillGuarded find _ 0 e)).2.2

/-- `update()` forgets everything. -/
theorem cache_update_resets (d : Nat) : Cache.reset.cached d = false := rfl

/-! ## Tree family (Octree, CompressedOctree) -/
section tree
variable {α : Type} [Field α] [LinearOrder α] [IsStrictOrderedRing α]

/-- The tree query returns exactly the brute-force set for every tree that
satisfies `TreeInv` (every stored particle lies in the closed cube of each of
its ancestors and has `h ≤ hmax` there), stores every source index exactly
once; the pruning test `|centre − q| ≥ len/2 + rs·max(h_q, hmax)` never cuts a
subtree that holds an accepted particle. -/
theorem tree_query_exact (rs : α) (src : List (Pt α)) (q : Pt α) (t : Nnps.Tree α)
    (hrs : 0 ≤ rs) (hq : 0 ≤ q.h) (hpos : ∀ p ∈ src, 0 ≤ p.h)
    (hinv : TreeInv src t) (hnd : (Nnps.Tree.pids t).Nodup)
    (hall : ∀ j, j < src.length → j ∈ Nnps.Tree.pids t) :
    (treeNbrs rs src q t).Perm (bruteForce rs src q) ∧ (treeNbrs rs src q t).Nodup ∧
      ∀ j ∈ treeNbrs rs src q t, j < src.length :=
  exact_of_cover_nodup rs src q (Nnps.Tree.cands rs q t)
    (fun j hj ha => cands_cover rs src q hrs hq hpos t hinv j (hall j hj) ha)
    (hnd.sublist (cands_sublist rs q t))

end tree

/-! ## non-vacuity / executable examples (over ℚ, core `Rat.floor`) -/

/-- three sources, exact tie excluded: `(3,4,0)` is at distance 5 = `rs·h` -/
example :
    let src : List (Pt Rat) := [⟨0, 0, 0, 5/2⟩, ⟨3, 4, 0, 5/2⟩, ⟨3, 399/100, 0, 5/2⟩]
    bruteForce (2 : Rat) src ⟨0, 0, 0, 5/2⟩ = [0, 2] ∧
    gridNbrs Rat.floor (2 : Rat) 5 ⟨-1/3, -1/3, 0, 0⟩ src ⟨0, 0, 0, 5/2⟩ = [0, 2] := by
  decide +kernel

/-- a two-leaf tree: the far leaf is pruned, the result is still exact -/
example :
    let src : List (Pt Rat) := [⟨0, 0, 0, 1/4⟩, ⟨1/4, 0, 0, 1/4⟩, ⟨4, 4, 4, 1/4⟩]
    let t : Nnps.Tree Rat := Nnps.Tree.node ⟨0, 0, 0, 1/4⟩ 4
      [Nnps.Tree.leaf ⟨0, 0, 0, 1/4⟩ (1/4) [0, 1], Nnps.Tree.leaf ⟨4, 4, 4, 1/4⟩ 0 [2]]
    treeNbrs (2 : Rat) src ⟨0, 0, 0, 1/4⟩ t = [0, 1] ∧
      bruteForce (2 : Rat) src ⟨0, 0, 0, 1/4⟩ = [0, 1] ∧
      pruned (2 : Rat) ⟨0, 0, 0, 1/4⟩ ⟨4, 4, 4, 1/4⟩ 0 = true := by
  decide +kernel

example : cellSize (2 : Rat) (1/1000000) [[1/4, 1/2], [], [1/8]] = 1 ∧
    hminScaled (2 : Rat) [[1/4, 1/2], [], [1/8]] = some 0 := by decide +kernel

example : (LL.build [(0, 3), (1, 5), (2, 3), (3, 3)]).traverse 4 3 = [3, 2, 0] := by
  decide +kernel

example :
    (Cache.get (fun d => [d, d + 1]) (Cache.run (fun d => [d, d + 1]) Cache.reset
      [(1, 2), (0, 0), (1, 1)]) 1).2 = [1, 2] := by decide +kernel

end PysphVerif.C01
