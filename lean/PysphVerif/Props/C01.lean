import PysphVerif.Lemmas.Nnps
import PysphVerif.Lemmas.NnpsTree
import PysphVerif.Lemmas.NnpsHash
import PysphVerif.Lemmas.NnpsCellIdx
import PysphVerif.Lemmas.NnpsSubgrid
import PysphVerif.Lemmas.NnpsMorton
import Mathlib.Data.Rat.Floor
/-!
# C01 — every neighbour-search algorithm returns exactly the true neighbour set

Property theorems only (helper lemmas live in `Lemmas/Nnps*.lean`).  They are
about `Model/Nnps.lean`, which transcribes the shared front end of
`nnps_base.pyx` (cell size, acceptance test, brute force), the Grid family's
3×3×3 stencil, the linked-list storage of `LinkedListNNPS`, the neighbour
cache and the pruning test of the octree query, and about
`Model/NnpsStore.lean`, which transcribes the per-class storage (flattened
cell index, BoxSort's `std::map`, DictBoxSort's dict, the chained hash table of
`spatial_hash.h`, CellIndexing's packed sorted keys, the sub-cells / mask /
per-box cut of `ExtendedSpatialHashNNPS`, the Morton key of `z_order.h`); the
model is tied to the 12 compiled classes by differential execution on
dyadic-grid inputs (`harness/c01.py`), which also dumps the real octrees and has
the driver check the hypotheses of `tree_query_exact` on them.

All geometric statements hold over every linearly ordered field, every point
cloud, every radius scale `rs ≥ 0`, every origin of the cell grid; storage
statements hold for every insertion sequence / schedule.
-/
set_option linter.unusedSectionVars false
namespace PysphVerif.C01
open PysphVerif.Nnps

section geometry
variable {α : Type} [Field α] [LinearOrder α] [IsStrictOrderedRing α]

/-- The acceptance test is symmetric in source and destination: `j` is
returned for `i` exactly when `i` is returned for `j`. -/
theorem isNbr_symm (rs : α) (p q : Pt α) : isNbr rs q p = isNbr rs p q := by
  simp only [isNbr, gather, scatter, dist2_comm q p]
  exact Bool.or_comm _ _

/-- `d² < r²` forces every axis difference below `r`. -/
theorem sq_lt_imp_axis_lt (p q : Pt α) (r : α) (hr : 0 ≤ r) (h : dist2 p q < r * r) :
    |p.x - q.x| < r ∧ |p.y - q.y| < r ∧ |p.z - q.z| < r :=
  lt_cell_of_dist2_lt hr h

/-- What the acceptance test means: the distance is below `rs·max(h_i, h_j)`
(squared form), for non-negative `rs`, `h`. -/
theorem isNbr_iff (rs : α) (q p : Pt α) :
    isNbr rs q p = true ↔
      dist2 p q < (rs * q.h) * (rs * q.h) ∨ dist2 p q < (rs * p.h) * (rs * p.h) := by
  simp only [isNbr, gather, scatter, Nnps.sq, Bool.or_eq_true]
  constructor
  · rintro (h | h)
    · exact Or.inl (of_decide_eq_true h)
    · exact Or.inr (of_decide_eq_true h)
  · rintro (h | h)
    · exact Or.inl (decide_eq_true h)
    · exact Or.inr (decide_eq_true h)

end geometry

section floor
variable {α : Type} [Field α] [LinearOrder α] [IsStrictOrderedRing α] [FloorRing α]

/-- Points closer than one cell size land in the same or adjacent cells. -/
theorem floor_adj (x y c : α) (hc : 0 < c) (h : |x - y| < c) : |⌊x / c⌋ - ⌊y / c⌋| ≤ 1 := by
  have := floor_adj_aux x y c hc h
  rw [Int.abs_eq_natAbs]
  exact_mod_cast this

/-- A neighbour (in the sense of the acceptance test) whose cut-off does not
exceed the cell size lies in the 3×3×3 stencil of the destination's cell,
whatever the origin of the grid. -/
theorem grid_cover (rs c : α) (o q p : Pt α) (hc : 0 < c) (hrs : 0 ≤ rs)
    (hq : 0 ≤ q.h) (hp : 0 ≤ p.h) (hqc : rs * q.h ≤ c) (hpc : rs * p.h ≤ c)
    (h : isNbr rs q p = true) :
    inStencil (cell3 Int.floor c o q) (cell3 Int.floor c o p) = true := by
  have key : ∃ r, 0 ≤ r ∧ r ≤ c ∧ dist2 p q < r * r := by
    rcases (isNbr_iff rs q p).mp h with h1 | h1
    · exact ⟨rs * q.h, mul_nonneg hrs hq, hqc, h1⟩
    · exact ⟨rs * p.h, mul_nonneg hrs hp, hpc, h1⟩
  obtain ⟨r, hr0, hrc, hd⟩ := key
  obtain ⟨hx, hy, hz⟩ := lt_cell_of_dist2_lt hr0 hd
  have ax : ∀ (a b o' : α), |a - b| < r →
      (cellOf Int.floor c o' b - cellOf Int.floor c o' a).natAbs ≤ 1 := by
    intro a b o' hab
    have : |(b - o') - (a - o')| < c := by
      have e : (b - o') - (a - o') = -(a - b) := by ring
      rw [e, abs_neg]; exact lt_of_lt_of_le hab hrc
    exact floor_adj_aux (b - o') (a - o') c hc this
  simp only [inStencil, cell3, Bool.and_eq_true]
  exact ⟨⟨decide_eq_true (ax p.x q.x o.x hx), decide_eq_true (ax p.y q.y o.y hy)⟩,
    decide_eq_true (ax p.z q.z o.z hz)⟩

end floor

/-! ## master theorem -/
section master
variable {α : Type} [Field α] [LinearOrder α] [IsStrictOrderedRing α]

theorem accepts_lt (rs : α) (src : List (Pt α)) (q : Pt α) (j : Nat)
    (h : accepts rs src q j = true) : j < src.length := by
  unfold accepts at h
  cases hj : src[j]? with
  | none => rw [hj] at h; cases h
  | some p => exact (List.getElem?_eq_some_iff.mp hj).1

/-- **Master theorem.**  Whatever produces the candidate indices: if every
accepted source index is among the candidates and no candidate is repeated,
the filtered candidates are exactly the brute-force neighbour list up to order,
without duplicates, and all indices are valid. -/
theorem exact_of_cover_nodup (rs : α) (src : List (Pt α)) (q : Pt α) (cands : List Nat)
    (hcover : ∀ j, j < src.length → accepts rs src q j = true → j ∈ cands)
    (hnd : cands.Nodup) :
    (nbrsOf rs src q cands).Perm (bruteForce rs src q) ∧ (nbrsOf rs src q cands).Nodup ∧
      ∀ j ∈ nbrsOf rs src q cands, j < src.length := by
  have nd1 : (nbrsOf rs src q cands).Nodup := hnd.filter _
  have nd2 : (bruteForce rs src q).Nodup := List.nodup_range.filter _
  refine ⟨?_, nd1, ?_⟩
  · rw [List.perm_ext_iff_of_nodup nd1 nd2]
    intro j
    simp only [nbrsOf, bruteForce, List.mem_filter, List.mem_range]
    constructor
    · rintro ⟨_, ha⟩; exact ⟨accepts_lt rs src q j ha, ha⟩
    · rintro ⟨hl, ha⟩; exact ⟨hcover j hl ha, ha⟩
  · intro j hj
    simp only [nbrsOf, List.mem_filter] at hj
    exact accepts_lt rs src q j hj.2

/-- The brute-force list itself: no duplicates, valid indices, and `j` is in it
exactly when the acceptance test holds for source particle `j`. -/
theorem bruteForce_spec (rs : α) (src : List (Pt α)) (q : Pt α) :
    (bruteForce rs src q).Nodup ∧
      ∀ j, j ∈ bruteForce rs src q ↔ ∃ p, src[j]? = some p ∧ isNbr rs q p = true := by
  refine ⟨List.nodup_range.filter _, ?_⟩
  intro j
  simp only [bruteForce, nbrsOf, List.mem_filter, List.mem_range]
  constructor
  · rintro ⟨_, ha⟩
    unfold accepts at ha
    cases hj : src[j]? with
    | none => rw [hj] at ha; cases ha
    | some p => rw [hj] at ha; exact ⟨p, rfl, ha⟩
  · rintro ⟨p, hp, hn⟩
    refine ⟨(List.getElem?_eq_some_iff.mp hp).1, ?_⟩
    unfold accepts; rw [hp]; exact hn

end master

/-! ## Grid family (LinkedList, BoxSort, DictBoxSort, SpatialHash, CellIndexing) -/
section grid
variable {α : Type} [Field α] [LinearOrder α] [IsStrictOrderedRing α] [FloorRing α]

/-- The Grid family returns exactly the brute-force list (same order even, as
both enumerate source indices increasingly) when the cell size is at least
every particle's cut-off `rs·h`. -/
theorem nbrs_exact_grid (rs c : α) (o : Pt α) (src : List (Pt α)) (q : Pt α)
    (hc : 0 < c) (hrs : 0 ≤ rs) (hq : 0 ≤ q.h) (hqc : rs * q.h ≤ c)
    (hsrc : ∀ p ∈ src, 0 ≤ p.h ∧ rs * p.h ≤ c) :
    gridNbrs Int.floor rs c o src q = bruteForce rs src q := by
  simp only [gridNbrs, gridCands, nbrsOf, bruteForce, List.filter_filter]
  apply List.filter_congr
  intro j _
  cases hj : src[j]? with
  | none => simp [accepts, hj]
  | some p =>
    by_cases ha : accepts rs src q j = true
    · have hn : isNbr rs q p = true := by simpa [accepts, hj] using ha
      have hp := hsrc p (List.mem_of_getElem? hj)
      have := grid_cover rs c o q p hc hrs hq hp.1 hqc hp.2 hn
      simp [ha, this]
    · simp [ha]

/-- Any class whose candidate list is a permutation of the stencil's particles
(that is what the storage lemmas establish for each Grid-family class) returns
the brute-force set, without duplicates, with valid indices. -/
theorem nbrs_exact_of_cands_perm_grid (rs c : α) (o : Pt α) (src : List (Pt α)) (q : Pt α)
    (cands : List Nat) (hperm : cands.Perm (gridCands Int.floor c o src q))
    (hc : 0 < c) (hrs : 0 ≤ rs) (hq : 0 ≤ q.h) (hqc : rs * q.h ≤ c)
    (hsrc : ∀ p ∈ src, 0 ≤ p.h ∧ rs * p.h ≤ c) :
    (nbrsOf rs src q cands).Perm (bruteForce rs src q) ∧ (nbrsOf rs src q cands).Nodup ∧
      ∀ j ∈ nbrsOf rs src q cands, j < src.length := by
  have hg := nbrs_exact_grid rs c o src q hc hrs hq hqc hsrc
  have hp : (nbrsOf rs src q cands).Perm (bruteForce rs src q) := by
    rw [← hg]; exact hperm.filter _
  have nd2 : (bruteForce rs src q).Nodup := List.nodup_range.filter _
  refine ⟨hp, hp.nodup_iff.mpr nd2, ?_⟩
  intro j hj
  simp only [nbrsOf, List.mem_filter] at hj
  exact accepts_lt rs src q j hj.2

/-- The cell size chosen by `_compute_cell_size_for_binning` is positive and at
least the cut-off `rs·h` of every particle of every array. -/
theorem cellSize_covers (rs tiny : α) (hss : List (List α)) (hrs : 0 ≤ rs)
    (ht0 : 0 < tiny) (ht1 : tiny ≤ 1) :
    0 < cellSize rs tiny hss ∧
      ∀ hs ∈ hss, ∀ h ∈ hs, rs * h ≤ cellSize rs tiny hss := by
  constructor
  · unfold cellSize; split
    · exact one_pos
    · exact lt_of_lt_of_le ht0 (not_lt.mp ‹_›)
  · intro hs hh h hx
    have hle : rs * h ≤ rs * hmaxAll hss :=
      mul_le_mul_of_nonneg_left (hmaxAll_ge hss hs hh h hx) hrs
    unfold cellSize; split
    · exact le_trans hle (le_trans (le_of_lt ‹_›) ht1)
    · exact hle

/-- Grid family with the cell size the code computes: exact for every
destination particle of every array against every source array. -/
theorem nbrs_exact_grid_cellSize (rs tiny : α) (o : Pt α) (arrs : List (List (Pt α)))
    (src dst : List (Pt α)) (q : Pt α) (hs : src ∈ arrs) (hd : dst ∈ arrs) (hq : q ∈ dst)
    (hrs : 0 ≤ rs) (ht0 : 0 < tiny) (ht1 : tiny ≤ 1)
    (hpos : ∀ a ∈ arrs, ∀ p ∈ a, 0 ≤ p.h) :
    gridNbrs Int.floor rs (cellSize rs tiny (arrs.map (fun a => a.map (·.h)))) o src q =
      bruteForce rs src q := by
  obtain ⟨hc, hcov⟩ := cellSize_covers rs tiny (arrs.map (fun a => a.map (·.h))) hrs ht0 ht1
  apply nbrs_exact_grid rs _ o src q hc hrs (hpos dst hd q hq)
  · exact hcov _ (List.mem_map_of_mem hd) _ (List.mem_map_of_mem hq)
  · intro p hp
    exact ⟨hpos src hs p hp, hcov _ (List.mem_map_of_mem hs) _ (List.mem_map_of_mem hp)⟩

/-! ## per-class storage: LinkedList, BoxSort, SpatialHash, DictBoxSort -/

/-- `flatten_raw` is injective on the cells that pass the `is_valid` test. -/
theorem flatten_inj (nc : Nat × Nat × Nat) (a b : Cell) (ha : isValidCell nc a = true)
    (hb : isValidCell nc b = true) (h : flattenCell nc a = flattenCell nc b) : a = b :=
  flattenCell_inj nc a b ha hb h

/-- The 27-cell loop with the `is_valid` test visits exactly the in-range cells adjacent to the
destination's cell (±1 per axis), none twice; and their flattened indices are distinct and lie
in `[0, ncx·ncy·ncz)`. -/
theorem stencil_enumerates_valid (nc : Nat × Nat × Nat) (cq : Cell) :
    ((stencilCells cq).filter (isValidCell nc)).Nodup ∧
    (∀ c, c ∈ (stencilCells cq).filter (isValidCell nc) ↔
      (inStencil cq c = true ∧ isValidCell nc c = true)) ∧
    (((stencilCells cq).filter (isValidCell nc)).map (flattenCell nc)).Nodup ∧
    ∀ c ∈ (stencilCells cq).filter (isValidCell nc),
      0 ≤ flattenCell nc c ∧ flattenCell nc c < ((nc.1 * nc.2.1 * nc.2.2 : Nat) : Int) := by
  have nd := (stencilCells_nodup cq).filter (isValidCell nc)
  refine ⟨nd, ?_, ?_, ?_⟩
  · intro c
    rw [List.mem_filter, mem_stencilCells]
  · refine nd.map_on ?_
    intro a ha b hb hab
    exact flattenCell_inj nc a b (List.mem_filter.mp ha).2 (List.mem_filter.mp hb).2 hab
  · intro c hc
    exact flattenCell_range nc c (List.mem_filter.mp hc).2

/-- **hash_get_eq_cell.**  For every hash function (so for every table size ≥ 1 and whatever
cells collide in a bucket), after any sequence of `add` calls the chain lookup `get(i,j,k)`
returns exactly the particle indices that were added with the integer cell `(i,j,k)`, in
insertion order (nothing when there is none): the chain compares the cell coordinates, not the
key. -/
theorem hash_get_eq_cell (hash : Cell → Nat) (items : List (Cell × Nat × α)) (c : Cell) :
    HTable.indices hash (HTable.build hash items) c =
      (items.filter (fun it => it.1 = c)).map (·.2.1) :=
  indices_build hash items c

/-- a particle not below the origin of the grid has non-negative cell coordinates -/
theorem cell_nonneg (c : α) (o p : Pt α) (hc : 0 < c)
    (hlo : o.x ≤ p.x ∧ o.y ≤ p.y ∧ o.z ≤ p.z) : nonnegCell (cell3 Int.floor c o p) = true := by
  rw [nonnegCell_iff]
  simp only [cell3, cellOf]
  refine ⟨Int.floor_nonneg.mpr ?_, Int.floor_nonneg.mpr ?_, Int.floor_nonneg.mpr ?_⟩
  · exact div_nonneg (sub_nonneg.mpr hlo.1) (le_of_lt hc)
  · exact div_nonneg (sub_nonneg.mpr hlo.2.1) (le_of_lt hc)
  · exact div_nonneg (sub_nonneg.mpr hlo.2.2) (le_of_lt hc)

/-- A coordinate inside the bounds `[xmin, xmax)` (or the degenerate `xmin = x = xmax`) gets a
cell index in `[0, ncx)` with `ncx = max 1 ⌈(xmax − xmin)/c⌉` as `_get_number_of_cells` computes
it. -/
theorem cell_in_range (x xmin xmax c : α) (hc : 0 < c) (h1 : xmin ≤ x)
    (h2 : x < xmax ∨ x = xmin) :
    0 ≤ ⌊(x - xmin) / c⌋ ∧ ⌊(x - xmin) / c⌋ < max 1 ⌈(xmax - xmin) / c⌉ := by
  refine ⟨Int.floor_nonneg.mpr (div_nonneg (sub_nonneg.mpr h1) (le_of_lt hc)), ?_⟩
  rcases h2 with h2 | h2
  · refine lt_of_lt_of_le ?_ (le_max_right _ _)
    rw [Int.floor_lt]
    refine lt_of_lt_of_le ?_ (Int.le_ceil _)
    exact div_lt_div_of_pos_right (by linarith) hc
  · refine lt_of_lt_of_le ?_ (le_max_left _ _)
    rw [h2, sub_self, zero_div, Int.floor_zero]
    exact Int.zero_lt_one

/-- The hypothesis `hvalid` of the LinkedList / BoxSort theorems follows from the bounds: with the
grid origin `lo` and the box `(ncx, ncy, ncz) = max 1 ⌈(hi − lo)/c⌉` per axis (what
`_get_number_of_cells` computes), every particle with `lo ≤ p < hi` per axis (or on a degenerate
axis `lo = p`) is binned into a valid cell. -/
theorem valid_of_bounds (c : α) (lo hi p : Pt α) (hc : 0 < c)
    (hx : lo.x ≤ p.x ∧ (p.x < hi.x ∨ p.x = lo.x)) (hy : lo.y ≤ p.y ∧ (p.y < hi.y ∨ p.y = lo.y))
    (hz : lo.z ≤ p.z ∧ (p.z < hi.z ∨ p.z = lo.z)) :
    isValidCell ((max 1 ⌈(hi.x - lo.x) / c⌉).toNat, (max 1 ⌈(hi.y - lo.y) / c⌉).toNat,
      (max 1 ⌈(hi.z - lo.z) / c⌉).toNat) (cell3 Int.floor c lo p) = true := by
  rw [isValidCell_iff]
  simp only [cell3, cellOf]
  obtain ⟨x0, x1⟩ := cell_in_range p.x lo.x hi.x c hc hx.1 hx.2
  obtain ⟨y0, y1⟩ := cell_in_range p.y lo.y hi.y c hc hy.1 hy.2
  obtain ⟨z0, z1⟩ := cell_in_range p.z lo.z hi.z c hc hz.1 hz.2
  have e : ∀ n : Int, ((max 1 n).toNat : Int) = max 1 n := fun n =>
    Int.toNat_of_nonneg (le_trans Int.one_nonneg (le_max_left _ _))
  rw [e, e, e]
  exact ⟨x0, x1, y0, y1, z0, z1⟩

private theorem cellAt_valid (c : α) (o : Pt α) (src : List (Pt α))
    (P : Cell → Bool) (h : ∀ p ∈ src, P (cell3 Int.floor c o p) = true) :
    ∀ j, j < src.length → P (cellAtOf Int.floor c o src j) = true := by
  intro j hj
  unfold cellAtOf
  rw [List.getElem?_eq_getElem hj]
  exact h _ (List.getElem_mem hj)

/-- **LinkedListNNPS**: binning by head insertion into `head[flatten(cell)]`, then walking the
chains of the valid cells among the 27 stencil cells, returns exactly the brute-force set
(no duplicates, valid indices) — for every cloud whose particles lie in valid cells (see
`cell_in_range`), every box `(ncx, ncy, ncz)` with `n_cells = ncx·ncy·ncz`, every cell size at
least the cut-offs. -/
theorem nbrs_exact_LinkedListNNPS (rs c : α) (o : Pt α) (nc : Nat × Nat × Nat)
    (src : List (Pt α)) (q : Pt α)
    (hc : 0 < c) (hrs : 0 ≤ rs) (hq : 0 ≤ q.h) (hqc : rs * q.h ≤ c)
    (hsrc : ∀ p ∈ src, 0 ≤ p.h ∧ rs * p.h ≤ c)
    (hvalid : ∀ p ∈ src, isValidCell nc (cell3 Int.floor c o p) = true) :
    let cands := llCands nc (nc.1 * nc.2.1 * nc.2.2) src.length (cellAtOf Int.floor c o src)
      (cell3 Int.floor c o q)
    (nbrsOf rs src q cands).Perm (bruteForce rs src q) ∧ (nbrsOf rs src q cands).Nodup ∧
      ∀ j ∈ nbrsOf rs src q cands, j < src.length := by
  intro cands
  refine nbrs_exact_of_cands_perm_grid rs c o src q cands ?_ hc hrs hq hqc hsrc
  rw [gridCands_eq_stencilIdx]
  exact ll_cands_perm nc src.length _ _ (cellAt_valid c o src (isValidCell nc) hvalid)

/-- **BoxSortNNPS**: the same walk with the dense index `cell_to_index[flatten(cell)]` of the
`std::map` built by `_count_occupied_cells` over the flattened ids `ids` of all particles of all
arrays (only `ids ⊇` this array's ids is used). -/
theorem nbrs_exact_BoxSortNNPS (rs c : α) (o : Pt α) (nc : Nat × Nat × Nat) (ids : List Int)
    (src : List (Pt α)) (q : Pt α)
    (hc : 0 < c) (hrs : 0 ≤ rs) (hq : 0 ≤ q.h) (hqc : rs * q.h ≤ c)
    (hsrc : ∀ p ∈ src, 0 ≤ p.h ∧ rs * p.h ≤ c)
    (hvalid : ∀ p ∈ src, isValidCell nc (cell3 Int.floor c o p) = true)
    (hids : ∀ p ∈ src, flattenCell nc (cell3 Int.floor c o p) ∈ ids) :
    let cands := boxCands nc (occupied ids) src.length (cellAtOf Int.floor c o src)
      (cell3 Int.floor c o q)
    (nbrsOf rs src q cands).Perm (bruteForce rs src q) ∧ (nbrsOf rs src q cands).Nodup ∧
      ∀ j ∈ nbrsOf rs src q cands, j < src.length := by
  intro cands
  refine nbrs_exact_of_cands_perm_grid rs c o src q cands ?_ hc hrs hq hqc hsrc
  rw [gridCands_eq_stencilIdx]
  refine box_cands_perm nc _ src.length _ _ (cellAt_valid c o src (isValidCell nc) hvalid) ?_
  intro j hj
  unfold cellAtOf
  rw [List.getElem?_eq_getElem hj, mem_occupied]
  exact hids _ (List.getElem_mem hj)

/-- **SpatialHashNNPS**: exact for every table size ≥ 1 (every bucket index is then inside
the table), whatever cells collide. -/
theorem nbrs_exact_SpatialHashNNPS (rs c : α) (o : Pt α) (size : Nat) (hsize : 1 ≤ size)
    (src : List (Pt α)) (q : Pt α)
    (hc : 0 < c) (hrs : 0 ≤ rs) (hq : 0 ≤ q.h) (hqc : rs * q.h ≤ c)
    (hsrc : ∀ p ∈ src, 0 ≤ p.h ∧ rs * p.h ≤ c)
    (hlo : ∀ p ∈ src, o.x ≤ p.x ∧ o.y ≤ p.y ∧ o.z ≤ p.z) :
    let cands := shCands (spatialHash size) src.length (cellAtOf Int.floor c o src) (hAtOf src)
      (cell3 Int.floor c o q)
    ((nbrsOf rs src q cands).Perm (bruteForce rs src q) ∧ (nbrsOf rs src q cands).Nodup ∧
      ∀ j ∈ nbrsOf rs src q cands, j < src.length) ∧ ∀ cell, spatialHash size cell < size := by
  intro cands
  refine ⟨?_, spatialHash_lt size hsize⟩
  refine nbrs_exact_of_cands_perm_grid rs c o src q cands ?_ hc hrs hq hqc hsrc
  rw [gridCands_eq_stencilIdx]
  exact sh_cands_perm _ src.length _ _ _
    (cellAt_valid c o src nonnegCell (fun p hp => cell_nonneg c o p hc (hlo p hp)))

/-- **DictBoxSortNNPS**: `items` is whatever `_bin` inserted for all arrays, in any order; the
items of the source array `s` are its particles with their cells in index order. -/
theorem nbrs_exact_DictBoxSortNNPS (rs c : α) (o : Pt α) (items : List (Nat × Nat × Cell))
    (s : Nat) (src : List (Pt α)) (q : Pt α)
    (hc : 0 < c) (hrs : 0 ≤ rs) (hq : 0 ≤ q.h) (hqc : rs * q.h ≤ c)
    (hsrc : ∀ p ∈ src, 0 ≤ p.h ∧ rs * p.h ≤ c)
    (hitems : items.filter (fun t => t.1 = s) =
      dictItems s src.length (cellAtOf Int.floor c o src)) :
    let cands := dictCands (dictBuild items) s (cell3 Int.floor c o q)
    (nbrsOf rs src q cands).Perm (bruteForce rs src q) ∧ (nbrsOf rs src q cands).Nodup ∧
      ∀ j ∈ nbrsOf rs src q cands, j < src.length := by
  intro cands
  refine nbrs_exact_of_cands_perm_grid rs c o src q cands ?_ hc hrs hq hqc hsrc
  rw [gridCands_eq_stencilIdx]
  exact dict_cands_perm items s src.length _ _ hitems

/-! ### CellIndexing: packed 32-bit keys -/

/-- **pack_unpack.**  Under the explicit no-overflow guard `ciFits` (index below `2^I`, x cell
below `2^J`, y cell below `2^K`, whole sum below `2^32`), `_get_id`, `_get_x`, `_get_y`,
`_get_z` recover exactly what `_get_key` packed. -/
theorem pack_unpack (I J K n : Nat) (c : Nat × Nat × Nat) (h : ciFits I J K n c = true) :
    ciId I (ciKey I J K n c) = n ∧ ciCell I J K (ciKey I J K n c) = c :=
  ⟨(ci_unpack I J K n c h).1, (ci_unpack I J K n c h).2.1⟩

/-- **pack_inj.**  Under the guard two keys coincide only for the same particle index and the
same cell. -/
theorem pack_inj (I J K n n' : Nat) (c c' : Nat × Nat × Nat) (h : ciFits I J K n c = true)
    (h' : ciFits I J K n' c' = true) (e : ciKey I J K n c = ciKey I J K n' c') :
    n = n' ∧ c = c' :=
  ci_pack_inj I J K n n' c c' h h' e

/-- **CellIndexingNNPS** under the guard: every particle's key and the key of every visited
stencil box fit (for whatever bit widths `I, J, K` the `log2` expressions produced).  Sorting the
keys, detecting the runs of equal decoded cells, `std::map` lookup of the box key and the walk
over the run return exactly the brute-force set. -/
theorem nbrs_exact_CellIndexingNNPS (rs c : α) (o : Pt α) (I J K : Nat)
    (src : List (Pt α)) (q : Pt α)
    (hc : 0 < c) (hrs : 0 ≤ rs) (hq : 0 ≤ q.h) (hqc : rs * q.h ≤ c)
    (hsrc : ∀ p ∈ src, 0 ≤ p.h ∧ rs * p.h ≤ c)
    (hlo : ∀ p ∈ src, o.x ≤ p.x ∧ o.y ≤ p.y ∧ o.z ≤ p.z)
    (hfit : ∀ j, j < src.length → ciFits I J K j (cellAtOf Int.floor c o src j).toNat3 = true)
    (hbox : ∀ b ∈ neighborBoxesZ (cell3 Int.floor c o q), ciFits I J K 0 b.toNat3 = true) :
    let cands := ciCands I J K src.length (cellAtOf Int.floor c o src) (cell3 Int.floor c o q)
    (nbrsOf rs src q cands).Perm (bruteForce rs src q) ∧ (nbrsOf rs src q cands).Nodup ∧
      ∀ j ∈ nbrsOf rs src q cands, j < src.length := by
  intro cands
  refine nbrs_exact_of_cands_perm_grid rs c o src q cands ?_ hc hrs hq hqc hsrc
  rw [gridCands_eq_stencilIdx]
  exact ci_cands_perm I J K src.length _ _
    (cellAt_valid c o src nonnegCell (fun p hp => cell_nonneg c o p hc (hlo p hp))) hfit hbox

end grid

/-- The guard is necessary: with `J = 0` bits for the x cell (what
`<u_int>(1 + log2(ceil(0/cell_size)))` yields for a cloud without extent in x) the boxes
`(1, 0, 0)` and `(0, 1, 0)` of the stencil get the same key, and the particle of cell `(0,1,0)`
is visited twice (three particles with cells `(0,0,0), (0,0,0), (0,1,0)`, `I = 2`, `K = 2`;
this is the input of `proposed_fixes/C01-cellindexing-zero-extent-bits.diff`). -/
theorem ci_guard_necessary :
    ¬ (ciCands 2 0 2 3 (fun j => if j = 2 then (0, 1, 0) else (0, 0, 0)) (0, 0, 0)).Nodup := by
  decide +kernel

/-- NOT proved: CellIndexing without the guard ("aliased boxes only add candidates that fail
the acceptance test and two stencil boxes never alias").  `ci_guard_necessary` shows that it is
false for the bit widths the pinned code computes on clouds without x (or y) extent. -/
def nbrs_exact_CellIndexingNNPS_unguarded : Prop :=
  ∀ (rs c : ℚ) (o : Pt ℚ) (I J K : Nat) (src : List (Pt ℚ)) (q : Pt ℚ),
    0 < c → 0 ≤ rs → 0 ≤ q.h → rs * q.h ≤ c → (∀ p ∈ src, 0 ≤ p.h ∧ rs * p.h ≤ c) →
    (∀ p ∈ src, o.x ≤ p.x ∧ o.y ≤ p.y ∧ o.z ≤ p.z) →
    (nbrsOf rs src q (ciCands I J K src.length (cellAtOf Int.floor c o src)
      (cell3 Int.floor c o q))).Perm (bruteForce rs src q)

/-! ## Sub-grid family (ExtendedSpatialHashNNPS, exact mode) -/
section subgrid
variable {α : Type} [Field α] [LinearOrder α] [IsStrictOrderedRing α] [FloorRing α]

/-- **subgrid_cover.**  With sub-cells of size `c/H` (`H ≥ 1`), a neighbour `p` of `q` whose
cut-off does not exceed the cell size `c` lies in a sub-cell whose offset `m` from the query's
sub-cell satisfies, on every axis, `|m| ≤ H` (inside the mask `±H`) and
`|m| ≤ ⌈rs·max(hm, h_q)/(c/H)⌉` for every `hm ≥ h_p` (the per-box cut with the box's `h_max`). -/
theorem subgrid_cover (rs c : α) (H : Nat) (o q p : Pt α) (hm : α) (hc : 0 < c) (hH : 1 ≤ H)
    (hrs : 0 ≤ rs) (hq : 0 ≤ q.h) (hp : 0 ≤ p.h) (hqc : rs * q.h ≤ c) (hpc : rs * p.h ≤ c)
    (hhm : p.h ≤ hm) (h : isNbr rs q p = true) :
    let a := cell3 Int.floor (c / (H : α)) o p
    let b := cell3 Int.floor (c / (H : α)) o q
    let K := ⌈rs * fmaxA hm q.h / (c / (H : α))⌉
    ((a.1 - b.1).natAbs ≤ H ∧ (a.2.1 - b.2.1).natAbs ≤ H ∧ (a.2.2 - b.2.2).natAbs ≤ H) ∧
    (((a.1 - b.1).natAbs : Int) ≤ K ∧ ((a.2.1 - b.2.1).natAbs : Int) ≤ K ∧
      ((a.2.2 - b.2.2).natAbs : Int) ≤ K) := by
  intro a b K
  have hHpos : (0 : α) < (H : α) := by exact_mod_cast hH
  have hs : 0 < c / (H : α) := div_pos hc hHpos
  have key : ∃ r, 0 ≤ r ∧ r ≤ c ∧ r ≤ rs * fmaxA hm q.h ∧ dist2 p q < r * r := by
    rcases (isNbr_iff rs q p).mp h with h1 | h1
    · exact ⟨rs * q.h, mul_nonneg hrs hq, hqc,
        mul_le_mul_of_nonneg_left (fmaxA_ge_right _ _) hrs, h1⟩
    · exact ⟨rs * p.h, mul_nonneg hrs hp, hpc,
        mul_le_mul_of_nonneg_left (le_trans hhm (fmaxA_ge_left _ _)) hrs, h1⟩
  obtain ⟨r, hr0, hrc, hrR, hd⟩ := key
  obtain ⟨hx, hy, hz⟩ := lt_cell_of_dist2_lt hr0 hd
  have hKH : ⌈r / (c / (H : α))⌉ ≤ (H : Int) := by
    rw [Int.ceil_le, div_le_iff₀ hs]
    have : ((H : Int) : α) * (c / (H : α)) = c := by
      push_cast; field_simp
    rw [this]; exact hrc
  have hKK : ⌈r / (c / (H : α))⌉ ≤ K :=
    Int.ceil_mono (div_le_div_of_nonneg_right hrR (le_of_lt hs))
  have ax : ∀ (u v o' : α), |u - v| < r →
      ((⌊(u - o') / (c / (H : α))⌋ - ⌊(v - o') / (c / (H : α))⌋).natAbs : Int) ≤
        ⌈r / (c / (H : α))⌉ := by
    intro u v o' huv
    apply floor_adj_ceil _ _ r _ hs
    have e : (u - o') - (v - o') = u - v := by ring
    rw [e]; exact huv
  have ax1 := ax p.x q.x o.x hx
  have ax2 := ax p.y q.y o.y hy
  have ax3 := ax p.z q.z o.z hz
  simp only [a, b, cell3, cellOf]
  refine ⟨⟨?_, ?_, ?_⟩, ⟨?_, ?_, ?_⟩⟩ <;> omega

/-- **ExtendedSpatialHashNNPS (exact mode)**: particles hashed by sub-cell of size `c/H`, the
full `±H` mask, the per-box cut with the box's `h_max`; exact for every `H ≥ 1`, every hash
function / table size, every cloud with cut-offs at most `c`. -/
theorem nbrs_exact_ExtendedSpatialHashNNPS (rs c : α) (H : Nat) (o : Pt α) (hash : Cell → Nat)
    (src : List (Pt α)) (q : Pt α)
    (hc : 0 < c) (hH : 1 ≤ H) (hrs : 0 ≤ rs) (hq : 0 ≤ q.h) (hqc : rs * q.h ≤ c)
    (hsrc : ∀ p ∈ src, 0 ≤ p.h ∧ rs * p.h ≤ c)
    (hlo : ∀ p ∈ src, o.x ≤ p.x ∧ o.y ≤ p.y ∧ o.z ≤ p.z) :
    let cands := eshCands Int.ceil hash H rs (c / (H : α)) src.length
      (cellAtOf Int.floor (c / (H : α)) o src) (hAtOf src) q.h (cell3 Int.floor (c / (H : α)) o q)
    (nbrsOf rs src q cands).Perm (bruteForce rs src q) ∧ (nbrsOf rs src q cands).Nodup ∧
      ∀ j ∈ nbrsOf rs src q cands, j < src.length := by
  intro cands
  have hHpos : (0 : α) < (H : α) := by exact_mod_cast hH
  have hs : 0 < c / (H : α) := div_pos hc hHpos
  refine exact_of_cover_nodup rs src q cands ?_ (eshCands_nodup _ _ _ _ _ _ _ _ _ _)
  intro j hj ha
  have hjs : src[j]? = some src[j] := List.getElem?_eq_getElem hj
  have hn : isNbr rs q src[j] = true := by simpa [accepts, hjs] using ha
  have hmem : src[j] ∈ src := List.getElem_mem hj
  obtain ⟨e, hget, hmax⟩ := hmax_hashItems hash src.length
    (cellAtOf Int.floor (c / (H : α)) o src) (hAtOf src) j hj
  have hcellj : cellAtOf Int.floor (c / (H : α)) o src j = cell3 Int.floor (c / (H : α)) o src[j] := by
    simp only [cellAtOf, hjs]
  have hhj : hAtOf src j = src[j].h := by simp only [hAtOf, hjs]
  rw [hhj] at hmax
  obtain ⟨⟨m1, m2, m3⟩, ⟨k1, k2, k3⟩⟩ := subgrid_cover rs c H o q src[j] e.hmax hc hH hrs hq
    (hsrc _ hmem).1 hqc (hsrc _ hmem).2 hmax hn
  rw [hcellj] at hget
  show j ∈ eshCands Int.ceil hash H rs (c / (H : α)) src.length
    (cellAtOf Int.floor (c / (H : α)) o src) (hAtOf src) q.h (cell3 Int.floor (c / (H : α)) o q)
  generalize cell3 Int.floor (c / (H : α)) o q = b at m1 m2 m3 k1 k2 k3 ⊢
  have hnn := cell_nonneg _ o _ hs (hlo _ hmem)
  generalize hadef : cell3 Int.floor (c / (H : α)) o src[j] = a at m1 m2 m3 k1 k2 k3 hget hnn hcellj
  have hadd : Cell.add b (a.1 - b.1, a.2.1 - b.2.1, a.2.2 - b.2.2) = a := by
    simp only [Cell.add]
    ext <;> simp
  apply mem_eshCands Int.ceil hash H rs (c / (H : α)) src.length _ (hAtOf src) q.h b j hj
    (a.1 - b.1, a.2.1 - b.2.1, a.2.2 - b.2.2)
  · exact (mem_hMaskExact H _).mpr ⟨m1, m2, m3⟩
  · unfold eshBoxOk
    rw [hadd, hget]
    simp only [Bool.and_eq_true, decide_eq_true_eq]
    exact ⟨hnn, ⟨k1, k2⟩, k3⟩
  · rw [hadd, hcellj]

end subgrid

/-! ## storage: linked list -/

/-- After any insertion sequence with distinct particle ids, walking `head[c]`
(with at least as much fuel as there are particles) lists exactly the inserted
particles of flattened cell `c`, most recently inserted first — in particular
each exactly once. -/
theorem ll_traverse_eq_bucket (items : List (Nat × Nat))
    (hnd : (items.map (·.1)).Nodup) (c : Nat) :
    ∀ n, items.length ≤ n →
      (LL.build items).traverse n c =
        ((items.filter (fun ic => ic.2 = c)).map (·.1)).reverse :=
  traverse_eq_bucket items hnd c

/-! ## neighbour cache -/

/-- For every assignment of destinations to threads and every order in which
the fills happen (`sched`), a later `get_neighbors` for any destination `d`
returns exactly what `find_nearest_neighbors` produces for `d` — whether `d`
was filled by some thread before or is filled on demand now. -/
theorem cache_get_eq_find (find : Nat → List Nat) (sched : List (Nat × Nat)) (d : Nat) :
    (Cache.get find (Cache.run find Cache.reset sched) d).2 = find d := by
  have hinv := Cache.inv_run find sched Cache.reset (Cache.inv_reset find)
  have hinv' := Cache.inv_fillGuarded find _ (0, d) hinv
  have hc := Cache.cached_fillGuarded find (Cache.run find Cache.reset sched) 0 d
  exact (hinv' d hc).2.2

/-- … and successive gets keep answering correctly (the cache never goes stale
between updates). -/
theorem cache_get_preserves (find : Nat → List Nat) (s : Cache) (d e : Nat)
    (h : Cache.Inv find s) :
    Cache.Inv find (Cache.get find s d).1 ∧
      (Cache.get find (Cache.get find s d).1 e).2 = find e := by
  have h1 := Cache.inv_fillGuarded find s (0, d) h
  refine ⟨h1, ?_⟩
  have h2 := Cache.inv_fillGuarded find _ (0, e) h1
  exact (h2 e (Cache.cached_fillGuarded find _ 0 e)).2.2

/-- `update()` forgets everything. -/
theorem cache_update_resets (d : Nat) : Cache.reset.cached d = false := rfl

/-! ## Tree family (Octree, CompressedOctree) -/
section tree
variable {α : Type} [Field α] [LinearOrder α] [IsStrictOrderedRing α]

/-- The tree query returns exactly the brute-force set for every tree that
satisfies `TreeInv` (every stored particle lies in the closed cube of each of
its ancestors and has `h ≤ hmax` there), stores every source index exactly
once; the pruning test `|centre − q| ≥ len/2 + rs·max(h_q, hmax)` never cuts a
subtree that holds an accepted particle. -/
theorem tree_query_exact (rs : α) (src : List (Pt α)) (q : Pt α) (t : Nnps.Tree α)
    (hrs : 0 ≤ rs) (hq : 0 ≤ q.h) (hpos : ∀ p ∈ src, 0 ≤ p.h)
    (hinv : TreeInv src t) (hnd : (Nnps.Tree.pids t).Nodup)
    (hall : ∀ j, j < src.length → j ∈ Nnps.Tree.pids t) :
    (treeNbrs rs src q t).Perm (bruteForce rs src q) ∧ (treeNbrs rs src q t).Nodup ∧
      ∀ j ∈ treeNbrs rs src q t, j < src.length :=
  exact_of_cover_nodup rs src q (Nnps.Tree.cands rs q t)
    (fun j hj ha => cands_cover rs src q hrs hq hpos t hinv j (hall j hj) ha)
    (hnd.sublist (cands_sublist rs q t))

/-- The form the check uses on every run: the driver evaluates `Tree.invB` (exact rational
arithmetic on the doubles of the REAL tree dumped from `pysph.base.octree`), `Nodup` and
coverage of the leaf index lists; when they hold the query on that very tree is exact. -/
theorem tree_query_exact_checked (rs : α) (src : List (Pt α)) (q : Pt α) (t : Nnps.Tree α)
    (hrs : 0 ≤ rs) (hq : 0 ≤ q.h) (hpos : ∀ p ∈ src, 0 ≤ p.h)
    (hinv : Nnps.Tree.invB src t = true) (hnd : (Nnps.Tree.pids t).Nodup)
    (hall : ∀ j, j < src.length → j ∈ Nnps.Tree.pids t) :
    (treeNbrs rs src q t).Perm (bruteForce rs src q) ∧ (treeNbrs rs src q t).Nodup ∧
      ∀ j ∈ treeNbrs rs src q t, j < src.length :=
  tree_query_exact rs src q t hrs hq hpos (invB_sound src t hinv) hnd hall

end tree

/-! ## Morton keys (`z_order.h`) -/

/-- Bit `3b + r` of `get_key(i, j, k)` is bit `b` of coordinate `r` (`r = 0, 1, 2` for
`i, j, k`), for coordinates below 2^21. -/
theorem morton_key_bits (i j k : Nat) (hi : i < 2 ^ 21) (hj : j < 2 ^ 21) (hk : k < 2 ^ 21)
    (b : Nat) (hb : b < 21) :
    (mortonKey i j k).testBit (3 * b) = i.testBit b ∧
    (mortonKey i j k).testBit (3 * b + 1) = j.testBit b ∧
    (mortonKey i j k).testBit (3 * b + 2) = k.testBit b :=
  key_bits i j k hi hj hk b hb

/-- **key_inj.**  `get_key` is injective on cell coordinates below 2^21: two cells share a
Morton key only if they are the same cell. -/
theorem key_inj (i j k i' j' k' : Nat) (hi : i < 2 ^ 21) (hj : j < 2 ^ 21) (hk : k < 2 ^ 21)
    (hi' : i' < 2 ^ 21) (hj' : j' < 2 ^ 21) (hk' : k' < 2 ^ 21)
    (h : mortonKey i j k = mortonKey i' j' k') : i = i' ∧ j = j' ∧ k = k' :=
  mortonKey_inj i j k i' j' k' hi hj hk hi' hj' hk' h

/-- non-vacuity: the largest coordinate fills exactly the bits `0, 3, …, 60`; three of them fill
63 bits; a small key -/
example : mortonSpread (2 ^ 21 - 1) = 0x1249249249249249 ∧
    mortonKey (2 ^ 21 - 1) (2 ^ 21 - 1) (2 ^ 21 - 1) = 2 ^ 63 - 1 ∧
    mortonKey 3 1 2 = 43 := by decide +kernel

/-! ## non-vacuity / executable examples (over ℚ, core `Rat.floor`) -/

/-- three sources, exact tie excluded: `(3,4,0)` is at distance 5 = `rs·h` -/
example :
    let src : List (Pt Rat) := [⟨0, 0, 0, 5/2⟩, ⟨3, 4, 0, 5/2⟩, ⟨3, 399/100, 0, 5/2⟩]
    bruteForce (2 : Rat) src ⟨0, 0, 0, 5/2⟩ = [0, 2] ∧
    gridNbrs Rat.floor (2 : Rat) 5 ⟨-1/3, -1/3, 0, 0⟩ src ⟨0, 0, 0, 5/2⟩ = [0, 2] := by
  decide +kernel

/-- a two-leaf tree: the far leaf is pruned, the result is still exact -/
example :
    let src : List (Pt Rat) := [⟨0, 0, 0, 1/4⟩, ⟨1/4, 0, 0, 1/4⟩, ⟨4, 4, 4, 1/4⟩]
    let t : Nnps.Tree Rat := Nnps.Tree.node ⟨0, 0, 0, 1/4⟩ 4
      [Nnps.Tree.leaf ⟨0, 0, 0, 1/4⟩ (1/4) [0, 1], Nnps.Tree.leaf ⟨4, 4, 4, 1/4⟩ 0 [2]]
    treeNbrs (2 : Rat) src ⟨0, 0, 0, 1/4⟩ t = [0, 1] ∧
      bruteForce (2 : Rat) src ⟨0, 0, 0, 1/4⟩ = [0, 1] ∧
      pruned (2 : Rat) ⟨0, 0, 0, 1/4⟩ ⟨4, 4, 4, 1/4⟩ 0 = true := by
  decide +kernel

example : cellSize (2 : Rat) (1/1000000) [[1/4, 1/2], [], [1/8]] = 1 ∧
    hminScaled (2 : Rat) [[1/4, 1/2], [], [1/8]] = some 0 := by decide +kernel

example : (LL.build [(0, 3), (1, 5), (2, 3), (3, 3)]).traverse 4 3 = [3, 2, 0] := by
  decide +kernel

example :
    (Cache.get (fun d => [d, d + 1]) (Cache.run (fun d => [d, d + 1]) Cache.reset
      [(1, 2), (0, 0), (1, 1)]) 1).2 = [1, 2] := by decide +kernel

/-- the per-class storage models on one cloud (five sources, the fourth far away, the third in
an adjacent cell but beyond the cut-off): hypotheses of the `nbrs_exact_<Class>` theorems hold,
every class visits the same four candidates and returns the brute-force set -/
example :
    let src : List (Pt Rat) :=
      [⟨0, 0, 0, 1/4⟩, ⟨1/4, 0, 0, 1/4⟩, ⟨3/4, 1/2, 0, 1/4⟩, ⟨2, 2, 0, 1/4⟩, ⟨1/4, 1/4, 0, 1/8⟩]
    let o : Pt Rat := ⟨-1/100, -1/100, 0, 0⟩
    let q : Pt Rat := ⟨1/4, 0, 0, 1/4⟩
    let cellAt := cellAtOf Rat.floor (1/2 : Rat) o src
    let cq := cell3 Rat.floor (1/2 : Rat) o q
    let nc : Nat × Nat × Nat := (5, 5, 1)
    bruteForce (2 : Rat) src q = [0, 1, 4] ∧
    (List.range 5).all (fun j => isValidCell nc (cellAt j)) = true ∧
    llCands nc 25 5 cellAt cq = [4, 1, 0, 2] ∧
    boxCands nc (occupied ((List.range 5).map (fun j => flattenCell nc (cellAt j)))) 5 cellAt cq =
      [4, 1, 0, 2] ∧
    shCands (spatialHash 1) 5 cellAt (hAtOf src) cq = [0, 1, 4, 2] ∧
    shCands (spatialHash 7) 5 cellAt (hAtOf src) cq = [0, 1, 4, 2] ∧
    dictCands (dictBuild (dictItems 0 2 (fun _ => (7, 7, 7)) ++ dictItems 1 5 cellAt)) 1 cq =
      [0, 1, 4, 2] ∧
    (List.range 5).all (fun j => ciFits 3 3 3 j (cellAt j).toNat3) = true ∧
    (neighborBoxesZ cq).all (fun b => ciFits 3 3 3 0 b.toNat3) = true ∧
    ciCands 3 3 3 5 cellAt cq = [0, 1, 4, 2] ∧
    nbrsOf (2 : Rat) src q (ciCands 3 3 3 5 cellAt cq) = [0, 1, 4] := by
  decide +kernel

/-- the sub-grid model (H = 2, sub-cell 1/4, table size 7) on the same cloud: four boxes pass the
per-box cut, the result is the brute-force set -/
example :
    let src : List (Pt Rat) :=
      [⟨0, 0, 0, 1/4⟩, ⟨1/4, 0, 0, 1/4⟩, ⟨3/4, 1/2, 0, 1/4⟩, ⟨2, 2, 0, 1/4⟩, ⟨1/4, 1/4, 0, 1/8⟩]
    let o : Pt Rat := ⟨-1/100, -1/100, 0, 0⟩
    let q : Pt Rat := ⟨1/4, 0, 0, 1/4⟩
    let cands := eshCands Rat.ceil (spatialHash 7) 2 (2 : Rat) (1/4) 5
      (cellAtOf Rat.floor (1/4 : Rat) o src) (hAtOf src) q.h (cell3 Rat.floor (1/4 : Rat) o q)
    cands = [0, 1, 4, 2] ∧ nbrsOf (2 : Rat) src q cands = [0, 1, 4] := by
  decide +kernel

/-- packed keys: `I = 3, J = 3, K = 3`, particle 5 in cell (2, 7, 1) -/
example : ciKey 3 3 3 5 (2, 7, 1) = 5 + 8 * 2 + 64 * 7 + 512 * 1 ∧
    ciFits 3 3 3 5 (2, 7, 1) = true ∧ ciId 3 (ciKey 3 3 3 5 (2, 7, 1)) = 5 ∧
    ciCell 3 3 3 (ciKey 3 3 3 5 (2, 7, 1)) = (2, 7, 1) ∧
    ciFits 3 3 3 5 (8, 7, 1) = false := by decide +kernel

/-- the executable invariant check accepts the two-leaf tree above and rejects it when the first
leaf's cube is too short for particle 1 -/
example :
    let src : List (Pt Rat) := [⟨0, 0, 0, 1/4⟩, ⟨1/4, 0, 0, 1/4⟩, ⟨4, 4, 4, 1/4⟩]
    Nnps.Tree.invB src (Nnps.Tree.node ⟨0, 0, 0, 1/4⟩ 4
      [Nnps.Tree.leaf ⟨0, 0, 0, 1/4⟩ (1/4) [0, 1], Nnps.Tree.leaf ⟨4, 4, 4, 1/4⟩ 0 [2]]) = true ∧
    Nnps.Tree.invB src (Nnps.Tree.node ⟨0, 0, 0, 1/4⟩ 4
      [Nnps.Tree.leaf ⟨0, 0, 0, 1/4⟩ (1/8) [0, 1], Nnps.Tree.leaf ⟨4, 4, 4, 1/4⟩ 0 [2]]) = false := by
  decide +kernel

end PysphVerif.C01
