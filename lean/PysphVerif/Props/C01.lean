import PysphVerif.Lemmas.Nnps
import PysphVerif.Lemmas.NnpsTree
import PysphVerif.Lemmas.NnpsHash
import PysphVerif.Lemmas.NnpsCellIdx
import PysphVerif.Lemmas.NnpsSubgrid
import PysphVerif.Lemmas.NnpsMorton
import PysphVerif.Lemmas.NnpsZOrder
import PysphVerif.Lemmas.NnpsZOrderSym
import PysphVerif.Lemmas.NnpsStrat
import PysphVerif.Lemmas.NnpsSfc
import PysphVerif.Lemmas.NnpsBounds
import PysphVerif.Lemmas.NnpsAlias
import Mathlib.Data.Rat.Floor
/-!
# C01 — every neighbour-search algorithm returns exactly the true neighbour set

Property theorems only (helper lemmas live in `Lemmas/Nnps*.lean`).  They are
about `Model/Nnps.lean`, which transcribes the shared front end of
`nnps_base.pyx` (cell size, acceptance test, brute force), the Grid family's
3×3×3 stencil, the linked-list storage of `LinkedListNNPS`, the neighbour
cache and the pruning test of the octree query, and about
`Model/NnpsStore.lean`, which transcribes the per-class storage (flattened
cell index, BoxSort's `std::map`, DictBoxSort's dict, the chained hash table of
`spatial_hash.h`, CellIndexing's packed sorted keys, the sub-cells / mask /
per-box cut of `ExtendedSpatialHashNNPS`, the Morton key of `z_order.h`), about
`Model/NnpsBounds.lean` (`NNPS._compute_bounds` with its padding, `_get_number_of_cells`) and
`Model/NnpsAlias.lean` (who owns the memory a query writes to: output arrays as views of the
cache's buffers, `c_reset` vs `length = 0`); the
model is tied to the 12 compiled classes by differential execution on
dyadic-grid inputs (`harness/c01.py`), which also dumps the real octrees and has
the driver check the hypotheses of `tree_query_exact` on them.

All geometric statements hold over every linearly ordered field, every point
cloud, every radius scale `rs ≥ 0`, every origin of the cell grid; storage
statements hold for every insertion sequence / schedule.
-/
set_option linter.unusedSectionVars false
namespace PysphVerif.C01
open PysphVerif.Nnps

section geometry
variable {α : Type} [Field α] [LinearOrder α] [IsStrictOrderedRing α]

/-- The acceptance test is symmetric in source and destination: `j` is
returned for `i` exactly when `i` is returned for `j`. -/
theorem isNbr_symm (rs : α) (p q : Pt α) : isNbr rs q p = isNbr rs p q := by
  simp only [isNbr, gather, scatter, dist2_comm q p]
  exact Bool.or_comm _ _

/-- `d² < r²` forces every axis difference below `r`. -/
theorem sq_lt_imp_axis_lt (p q : Pt α) (r : α) (hr : 0 ≤ r) (h : dist2 p q < r * r) :
    |p.x - q.x| < r ∧ |p.y - q.y| < r ∧ |p.z - q.z| < r :=
  lt_cell_of_dist2_lt hr h

/-- What the acceptance test means: the distance is below `rs·max(h_i, h_j)`
(squared form), for non-negative `rs`, `h`. -/
theorem isNbr_iff (rs : α) (q p : Pt α) :
    isNbr rs q p = true ↔
      dist2 p q < (rs * q.h) * (rs * q.h) ∨ dist2 p q < (rs * p.h) * (rs * p.h) := by
  simp only [isNbr, gather, scatter, Nnps.sq, Bool.or_eq_true]
  constructor
  · rintro (h | h)
    · exact Or.inl (of_decide_eq_true h)
    · exact Or.inr (of_decide_eq_true h)
  · rintro (h | h)
    · exact Or.inl (decide_eq_true h)
    · exact Or.inr (decide_eq_true h)

end geometry

section floor
variable {α : Type} [Field α] [LinearOrder α] [IsStrictOrderedRing α] [FloorRing α]

/-- Points closer than one cell size land in the same or adjacent cells. -/
theorem floor_adj (x y c : α) (hc : 0 < c) (h : |x - y| < c) : |⌊x / c⌋ - ⌊y / c⌋| ≤ 1 := by
  have := floor_adj_aux x y c hc h
  rw [Int.abs_eq_natAbs]
  exact_mod_cast this

/-- A neighbour (in the sense of the acceptance test) whose cut-off does not
exceed the cell size lies in the 3×3×3 stencil of the destination's cell,
whatever the origin of the grid. -/
theorem grid_cover (rs c : α) (o q p : Pt α) (hc : 0 < c) (hrs : 0 ≤ rs)
    (hq : 0 ≤ q.h) (hp : 0 ≤ p.h) (hqc : rs * q.h ≤ c) (hpc : rs * p.h ≤ c)
    (h : isNbr rs q p = true) :
    inStencil (cell3 Int.floor c o q) (cell3 Int.floor c o p) = true := by
  have key : ∃ r, 0 ≤ r ∧ r ≤ c ∧ dist2 p q < r * r := by
    rcases (isNbr_iff rs q p).mp h with h1 | h1
    · exact ⟨rs * q.h, mul_nonneg hrs hq, hqc, h1⟩
    · exact ⟨rs * p.h, mul_nonneg hrs hp, hpc, h1⟩
  obtain ⟨r, hr0, hrc, hd⟩ := key
  obtain ⟨hx, hy, hz⟩ := lt_cell_of_dist2_lt hr0 hd
  have ax : ∀ (a b o' : α), |a - b| < r →
      (cellOf Int.floor c o' b - cellOf Int.floor c o' a).natAbs ≤ 1 := by
    intro a b o' hab
    have : |(b - o') - (a - o')| < c := by
      have e : (b - o') - (a - o') = -(a - b) := by ring
      rw [e, abs_neg]; exact lt_of_lt_of_le hab hrc
    exact floor_adj_aux (b - o') (a - o') c hc this
  simp only [inStencil, cell3, Bool.and_eq_true]
  exact ⟨⟨decide_eq_true (ax p.x q.x o.x hx), decide_eq_true (ax p.y q.y o.y hy)⟩,
    decide_eq_true (ax p.z q.z o.z hz)⟩

end floor

/-! ## master theorem -/
section master
variable {α : Type} [Field α] [LinearOrder α] [IsStrictOrderedRing α]

theorem accepts_lt (rs : α) (src : List (Pt α)) (q : Pt α) (j : Nat)
    (h : accepts rs src q j = true) : j < src.length := by
  unfold accepts at h
  cases hj : src[j]? with
  | none => rw [hj] at h; cases h
  | some p => exact (List.getElem?_eq_some_iff.mp hj).1

/-- **Master theorem.**  Whatever produces the candidate indices: if every
accepted source index is among the candidates and no candidate is repeated,
the filtered candidates are exactly the brute-force neighbour list up to order,
without duplicates, and all indices are valid. -/
theorem exact_of_cover_nodup (rs : α) (src : List (Pt α)) (q : Pt α) (cands : List Nat)
    (hcover : ∀ j, j < src.length → accepts rs src q j = true → j ∈ cands)
    (hnd : cands.Nodup) :
    (nbrsOf rs src q cands).Perm (bruteForce rs src q) ∧ (nbrsOf rs src q cands).Nodup ∧
      ∀ j ∈ nbrsOf rs src q cands, j < src.length := by
  have nd1 : (nbrsOf rs src q cands).Nodup := hnd.filter _
  have nd2 : (bruteForce rs src q).Nodup := List.nodup_range.filter _
  refine ⟨?_, nd1, ?_⟩
  · rw [List.perm_ext_iff_of_nodup nd1 nd2]
    intro j
    simp only [nbrsOf, bruteForce, List.mem_filter, List.mem_range]
    constructor
    · rintro ⟨_, ha⟩; exact ⟨accepts_lt rs src q j ha, ha⟩
    · rintro ⟨hl, ha⟩; exact ⟨hcover j hl ha, ha⟩
  · intro j hj
    simp only [nbrsOf, List.mem_filter] at hj
    exact accepts_lt rs src q j hj.2

/-- The brute-force list itself: no duplicates, valid indices, and `j` is in it
exactly when the acceptance test holds for source particle `j`. -/
theorem bruteForce_spec (rs : α) (src : List (Pt α)) (q : Pt α) :
    (bruteForce rs src q).Nodup ∧
      ∀ j, j ∈ bruteForce rs src q ↔ ∃ p, src[j]? = some p ∧ isNbr rs q p = true := by
  refine ⟨List.nodup_range.filter _, ?_⟩
  intro j
  simp only [bruteForce, nbrsOf, List.mem_filter, List.mem_range]
  constructor
  · rintro ⟨_, ha⟩
    unfold accepts at ha
    cases hj : src[j]? with
    | none => rw [hj] at ha; cases ha
    | some p => rw [hj] at ha; exact ⟨p, rfl, ha⟩
  · rintro ⟨p, hp, hn⟩
    refine ⟨(List.getElem?_eq_some_iff.mp hp).1, ?_⟩
    unfold accepts; rw [hp]; exact hn

end master

/-! ## Grid family (LinkedList, BoxSort, DictBoxSort, SpatialHash, CellIndexing) -/
section grid
variable {α : Type} [Field α] [LinearOrder α] [IsStrictOrderedRing α] [FloorRing α]

/-- The Grid family returns exactly the brute-force list (same order even, as
both enumerate source indices increasingly) when the cell size is at least
every particle's cut-off `rs·h`. -/
theorem nbrs_exact_grid (rs c : α) (o : Pt α) (src : List (Pt α)) (q : Pt α)
    (hc : 0 < c) (hrs : 0 ≤ rs) (hq : 0 ≤ q.h) (hqc : rs * q.h ≤ c)
    (hsrc : ∀ p ∈ src, 0 ≤ p.h ∧ rs * p.h ≤ c) :
    gridNbrs Int.floor rs c o src q = bruteForce rs src q := by
  simp only [gridNbrs, gridCands, nbrsOf, bruteForce, List.filter_filter]
  apply List.filter_congr
  intro j _
  cases hj : src[j]? with
  | none => simp [accepts, hj]
  | some p =>
    by_cases ha : accepts rs src q j = true
    · have hn : isNbr rs q p = true := by simpa [accepts, hj] using ha
      have hp := hsrc p (List.mem_of_getElem? hj)
      have := grid_cover rs c o q p hc hrs hq hp.1 hqc hp.2 hn
      simp [ha, this]
    · simp [ha]

/-- Any class whose candidate list is a permutation of the stencil's particles
(that is what the storage lemmas establish for each Grid-family class) returns
the brute-force set, without duplicates, with valid indices. -/
theorem nbrs_exact_of_cands_perm_grid (rs c : α) (o : Pt α) (src : List (Pt α)) (q : Pt α)
    (cands : List Nat) (hperm : cands.Perm (gridCands Int.floor c o src q))
    (hc : 0 < c) (hrs : 0 ≤ rs) (hq : 0 ≤ q.h) (hqc : rs * q.h ≤ c)
    (hsrc : ∀ p ∈ src, 0 ≤ p.h ∧ rs * p.h ≤ c) :
    (nbrsOf rs src q cands).Perm (bruteForce rs src q) ∧ (nbrsOf rs src q cands).Nodup ∧
      ∀ j ∈ nbrsOf rs src q cands, j < src.length := by
  have hg := nbrs_exact_grid rs c o src q hc hrs hq hqc hsrc
  have hp : (nbrsOf rs src q cands).Perm (bruteForce rs src q) := by
    rw [← hg]; exact hperm.filter _
  have nd2 : (bruteForce rs src q).Nodup := List.nodup_range.filter _
  refine ⟨hp, hp.nodup_iff.mpr nd2, ?_⟩
  intro j hj
  simp only [nbrsOf, List.mem_filter] at hj
  exact accepts_lt rs src q j hj.2

/-- The cell size chosen by `_compute_cell_size_for_binning` is positive and at
least the cut-off `rs·h` of every particle of every array. -/
theorem cellSize_covers (rs tiny : α) (hss : List (List α)) (hrs : 0 ≤ rs)
    (ht0 : 0 < tiny) (ht1 : tiny ≤ 1) :
    0 < cellSize rs tiny hss ∧
      ∀ hs ∈ hss, ∀ h ∈ hs, rs * h ≤ cellSize rs tiny hss := by
  constructor
  · unfold cellSize; split
    · exact one_pos
    · exact lt_of_lt_of_le ht0 (not_lt.mp ‹_›)
  · intro hs hh h hx
    have hle : rs * h ≤ rs * hmaxAll hss :=
      mul_le_mul_of_nonneg_left (hmaxAll_ge hss hs hh h hx) hrs
    unfold cellSize; split
    · exact le_trans hle (le_trans (le_of_lt ‹_›) ht1)
    · exact hle

/-- Grid family with the cell size the code computes: exact for every
destination particle of every array against every source array. -/
theorem nbrs_exact_grid_cellSize (rs tiny : α) (o : Pt α) (arrs : List (List (Pt α)))
    (src dst : List (Pt α)) (q : Pt α) (hs : src ∈ arrs) (hd : dst ∈ arrs) (hq : q ∈ dst)
    (hrs : 0 ≤ rs) (ht0 : 0 < tiny) (ht1 : tiny ≤ 1)
    (hpos : ∀ a ∈ arrs, ∀ p ∈ a, 0 ≤ p.h) :
    gridNbrs Int.floor rs (cellSize rs tiny (arrs.map (fun a => a.map (·.h)))) o src q =
      bruteForce rs src q := by
  obtain ⟨hc, hcov⟩ := cellSize_covers rs tiny (arrs.map (fun a => a.map (·.h))) hrs ht0 ht1
  apply nbrs_exact_grid rs _ o src q hc hrs (hpos dst hd q hq)
  · exact hcov _ (List.mem_map_of_mem hd) _ (List.mem_map_of_mem hq)
  · intro p hp
    exact ⟨hpos src hs p hp, hcov _ (List.mem_map_of_mem hs) _ (List.mem_map_of_mem hp)⟩

/-! ## per-class storage: LinkedList, BoxSort, SpatialHash, DictBoxSort -/

/-- `flatten_raw` is injective on the cells that pass the `is_valid` test. -/
theorem flatten_inj (nc : Nat × Nat × Nat) (a b : Cell) (ha : isValidCell nc a = true)
    (hb : isValidCell nc b = true) (h : flattenCell nc a = flattenCell nc b) : a = b :=
  flattenCell_inj nc a b ha hb h

/-- The 27-cell loop with the `is_valid` test visits exactly the in-range cells adjacent to the
destination's cell (±1 per axis), none twice; and their flattened indices are distinct and lie
in `[0, ncx·ncy·ncz)`. -/
theorem stencil_enumerates_valid (nc : Nat × Nat × Nat) (cq : Cell) :
    ((stencilCells cq).filter (isValidCell nc)).Nodup ∧
    (∀ c, c ∈ (stencilCells cq).filter (isValidCell nc) ↔
      (inStencil cq c = true ∧ isValidCell nc c = true)) ∧
    (((stencilCells cq).filter (isValidCell nc)).map (flattenCell nc)).Nodup ∧
    ∀ c ∈ (stencilCells cq).filter (isValidCell nc),
      0 ≤ flattenCell nc c ∧ flattenCell nc c < ((nc.1 * nc.2.1 * nc.2.2 : Nat) : Int) := by
  have nd := (stencilCells_nodup cq).filter (isValidCell nc)
  refine ⟨nd, ?_, ?_, ?_⟩
  · intro c
    rw [List.mem_filter, mem_stencilCells]
  · refine nd.map_on ?_
    intro a ha b hb hab
    exact flattenCell_inj nc a b (List.mem_filter.mp ha).2 (List.mem_filter.mp hb).2 hab
  · intro c hc
    exact flattenCell_range nc c (List.mem_filter.mp hc).2

/-- **hash_get_eq_cell.**  For every hash function (so for every table size ≥ 1 and whatever
cells collide in a bucket), after any sequence of `add` calls the chain lookup `get(i,j,k)`
returns exactly the particle indices that were added with the integer cell `(i,j,k)`, in
insertion order (nothing when there is none): the chain compares the cell coordinates, not the
key. -/
theorem hash_get_eq_cell (hash : Cell → Nat) (items : List (Cell × Nat × α)) (c : Cell) :
    HTable.indices hash (HTable.build hash items) c =
      (items.filter (fun it => it.1 = c)).map (·.2.1) :=
  indices_build hash items c

/-- a particle not below the origin of the grid has non-negative cell coordinates -/
theorem cell_nonneg (c : α) (o p : Pt α) (hc : 0 < c)
    (hlo : o.x ≤ p.x ∧ o.y ≤ p.y ∧ o.z ≤ p.z) : nonnegCell (cell3 Int.floor c o p) = true := by
  rw [nonnegCell_iff]
  simp only [cell3, cellOf]
  refine ⟨Int.floor_nonneg.mpr ?_, Int.floor_nonneg.mpr ?_, Int.floor_nonneg.mpr ?_⟩
  · exact div_nonneg (sub_nonneg.mpr hlo.1) (le_of_lt hc)
  · exact div_nonneg (sub_nonneg.mpr hlo.2.1) (le_of_lt hc)
  · exact div_nonneg (sub_nonneg.mpr hlo.2.2) (le_of_lt hc)

/-- A coordinate inside the bounds `[xmin, xmax)` (or the degenerate `xmin = x = xmax`) gets a
cell index in `[0, ncx)` with `ncx = max 1 ⌈(xmax − xmin)/c⌉` as `_get_number_of_cells` computes
it. -/
theorem cell_in_range (x xmin xmax c : α) (hc : 0 < c) (h1 : xmin ≤ x)
    (h2 : x < xmax ∨ x = xmin) :
    0 ≤ ⌊(x - xmin) / c⌋ ∧ ⌊(x - xmin) / c⌋ < max 1 ⌈(xmax - xmin) / c⌉ := by
  refine ⟨Int.floor_nonneg.mpr (div_nonneg (sub_nonneg.mpr h1) (le_of_lt hc)), ?_⟩
  rcases h2 with h2 | h2
  · refine lt_of_lt_of_le ?_ (le_max_right _ _)
    rw [Int.floor_lt]
    refine lt_of_lt_of_le ?_ (Int.le_ceil _)
    exact div_lt_div_of_pos_right (by linarith) hc
  · refine lt_of_lt_of_le ?_ (le_max_left _ _)
    rw [h2, sub_self, zero_div, Int.floor_zero]
    exact Int.zero_lt_one

/-- The hypothesis `hvalid` of the LinkedList / BoxSort theorems follows from the bounds: with the
grid origin `lo` and the box `(ncx, ncy, ncz) = max 1 ⌈(hi − lo)/c⌉` per axis (what
`_get_number_of_cells` computes), every particle with `lo ≤ p < hi` per axis (or on a degenerate
axis `lo = p`) is binned into a valid cell. -/
theorem valid_of_bounds (c : α) (lo hi p : Pt α) (hc : 0 < c)
    (hx : lo.x ≤ p.x ∧ (p.x < hi.x ∨ p.x = lo.x)) (hy : lo.y ≤ p.y ∧ (p.y < hi.y ∨ p.y = lo.y))
    (hz : lo.z ≤ p.z ∧ (p.z < hi.z ∨ p.z = lo.z)) :
    isValidCell ((max 1 ⌈(hi.x - lo.x) / c⌉).toNat, (max 1 ⌈(hi.y - lo.y) / c⌉).toNat,
      (max 1 ⌈(hi.z - lo.z) / c⌉).toNat) (cell3 Int.floor c lo p) = true := by
  rw [isValidCell_iff]
  simp only [cell3, cellOf]
  obtain ⟨x0, x1⟩ := cell_in_range p.x lo.x hi.x c hc hx.1 hx.2
  obtain ⟨y0, y1⟩ := cell_in_range p.y lo.y hi.y c hc hy.1 hy.2
  obtain ⟨z0, z1⟩ := cell_in_range p.z lo.z hi.z c hc hz.1 hz.2
  have e : ∀ n : Int, ((max 1 n).toNat : Int) = max 1 n := fun n =>
    Int.toNat_of_nonneg (le_trans Int.one_nonneg (le_max_left _ _))
  rw [e, e, e]
  exact ⟨x0, x1, y0, y1, z0, z1⟩

private theorem cellAt_valid (c : α) (o : Pt α) (src : List (Pt α))
    (P : Cell → Bool) (h : ∀ p ∈ src, P (cell3 Int.floor c o p) = true) :
    ∀ j, j < src.length → P (cellAtOf Int.floor c o src j) = true := by
  intro j hj
  unfold cellAtOf
  rw [List.getElem?_eq_getElem hj]
  exact h _ (List.getElem_mem hj)

/-- **LinkedListNNPS**: binning by head insertion into `head[flatten(cell)]`, then walking the
chains of the valid cells among the 27 stencil cells, returns exactly the brute-force set
(no duplicates, valid indices) — for every cloud whose particles lie in valid cells (see
`cell_in_range`), every box `(ncx, ncy, ncz)` with `n_cells = ncx·ncy·ncz`, every cell size at
least the cut-offs. -/
theorem nbrs_exact_LinkedListNNPS (rs c : α) (o : Pt α) (nc : Nat × Nat × Nat)
    (src : List (Pt α)) (q : Pt α)
    (hc : 0 < c) (hrs : 0 ≤ rs) (hq : 0 ≤ q.h) (hqc : rs * q.h ≤ c)
    (hsrc : ∀ p ∈ src, 0 ≤ p.h ∧ rs * p.h ≤ c)
    (hvalid : ∀ p ∈ src, isValidCell nc (cell3 Int.floor c o p) = true) :
    let cands := llCands nc (nc.1 * nc.2.1 * nc.2.2) src.length (cellAtOf Int.floor c o src)
      (cell3 Int.floor c o q)
    (nbrsOf rs src q cands).Perm (bruteForce rs src q) ∧ (nbrsOf rs src q cands).Nodup ∧
      ∀ j ∈ nbrsOf rs src q cands, j < src.length := by
  intro cands
  refine nbrs_exact_of_cands_perm_grid rs c o src q cands ?_ hc hrs hq hqc hsrc
  rw [gridCands_eq_stencilIdx]
  exact ll_cands_perm nc src.length _ _ (cellAt_valid c o src (isValidCell nc) hvalid)

/-- **BoxSortNNPS**: the same walk with the dense index `cell_to_index[flatten(cell)]` of the
`std::map` built by `_count_occupied_cells` over the flattened ids `ids` of all particles of all
arrays (only `ids ⊇` this array's ids is used). -/
theorem nbrs_exact_BoxSortNNPS (rs c : α) (o : Pt α) (nc : Nat × Nat × Nat) (ids : List Int)
    (src : List (Pt α)) (q : Pt α)
    (hc : 0 < c) (hrs : 0 ≤ rs) (hq : 0 ≤ q.h) (hqc : rs * q.h ≤ c)
    (hsrc : ∀ p ∈ src, 0 ≤ p.h ∧ rs * p.h ≤ c)
    (hvalid : ∀ p ∈ src, isValidCell nc (cell3 Int.floor c o p) = true)
    (hids : ∀ p ∈ src, flattenCell nc (cell3 Int.floor c o p) ∈ ids) :
    let cands := boxCands nc (occupied ids) src.length (cellAtOf Int.floor c o src)
      (cell3 Int.floor c o q)
    (nbrsOf rs src q cands).Perm (bruteForce rs src q) ∧ (nbrsOf rs src q cands).Nodup ∧
      ∀ j ∈ nbrsOf rs src q cands, j < src.length := by
  intro cands
  refine nbrs_exact_of_cands_perm_grid rs c o src q cands ?_ hc hrs hq hqc hsrc
  rw [gridCands_eq_stencilIdx]
  refine box_cands_perm nc _ src.length _ _ (cellAt_valid c o src (isValidCell nc) hvalid) ?_
  intro j hj
  unfold cellAtOf
  rw [List.getElem?_eq_getElem hj, mem_occupied]
  exact hids _ (List.getElem_mem hj)

/-- **SpatialHashNNPS**: exact for every table size ≥ 1 (every bucket index is then inside
the table), whatever cells collide. -/
theorem nbrs_exact_SpatialHashNNPS (rs c : α) (o : Pt α) (size : Nat) (hsize : 1 ≤ size)
    (src : List (Pt α)) (q : Pt α)
    (hc : 0 < c) (hrs : 0 ≤ rs) (hq : 0 ≤ q.h) (hqc : rs * q.h ≤ c)
    (hsrc : ∀ p ∈ src, 0 ≤ p.h ∧ rs * p.h ≤ c)
    (hlo : ∀ p ∈ src, o.x ≤ p.x ∧ o.y ≤ p.y ∧ o.z ≤ p.z) :
    let cands := shCands (spatialHash size) src.length (cellAtOf Int.floor c o src) (hAtOf src)
      (cell3 Int.floor c o q)
    ((nbrsOf rs src q cands).Perm (bruteForce rs src q) ∧ (nbrsOf rs src q cands).Nodup ∧
      ∀ j ∈ nbrsOf rs src q cands, j < src.length) ∧ ∀ cell, spatialHash size cell < size := by
  intro cands
  refine ⟨?_, spatialHash_lt size hsize⟩
  refine nbrs_exact_of_cands_perm_grid rs c o src q cands ?_ hc hrs hq hqc hsrc
  rw [gridCands_eq_stencilIdx]
  exact sh_cands_perm _ src.length _ _ _
    (cellAt_valid c o src nonnegCell (fun p hp => cell_nonneg c o p hc (hlo p hp)))

/-- **DictBoxSortNNPS**: `items` is whatever `_bin` inserted for all arrays, in any order; the
items of the source array `s` are its particles with their cells in index order. -/
theorem nbrs_exact_DictBoxSortNNPS (rs c : α) (o : Pt α) (items : List (Nat × Nat × Cell))
    (s : Nat) (src : List (Pt α)) (q : Pt α)
    (hc : 0 < c) (hrs : 0 ≤ rs) (hq : 0 ≤ q.h) (hqc : rs * q.h ≤ c)
    (hsrc : ∀ p ∈ src, 0 ≤ p.h ∧ rs * p.h ≤ c)
    (hitems : items.filter (fun t => t.1 = s) =
      dictItems s src.length (cellAtOf Int.floor c o src)) :
    let cands := dictCands (dictBuild items) s (cell3 Int.floor c o q)
    (nbrsOf rs src q cands).Perm (bruteForce rs src q) ∧ (nbrsOf rs src q cands).Nodup ∧
      ∀ j ∈ nbrsOf rs src q cands, j < src.length := by
  intro cands
  refine nbrs_exact_of_cands_perm_grid rs c o src q cands ?_ hc hrs hq hqc hsrc
  rw [gridCands_eq_stencilIdx]
  exact dict_cands_perm items s src.length _ _ hitems

/-! ### CellIndexing: packed 32-bit keys -/

/-- **pack_unpack.**  Under the explicit no-overflow guard `ciFits` (index below `2^I`, x cell
below `2^J`, y cell below `2^K`, whole sum below `2^32`), `_get_id`, `_get_x`, `_get_y`,
`_get_z` recover exactly what `_get_key` packed. -/
theorem pack_unpack (I J K n : Nat) (c : Nat × Nat × Nat) (h : ciFits I J K n c = true) :
    ciId I (ciKey I J K n c) = n ∧ ciCell I J K (ciKey I J K n c) = c :=
  ⟨(ci_unpack I J K n c h).1, (ci_unpack I J K n c h).2.1⟩

/-- **pack_inj.**  Under the guard two keys coincide only for the same particle index and the
same cell. -/
theorem pack_inj (I J K n n' : Nat) (c c' : Nat × Nat × Nat) (h : ciFits I J K n c = true)
    (h' : ciFits I J K n' c' = true) (e : ciKey I J K n c = ciKey I J K n' c') :
    n = n' ∧ c = c' :=
  ci_pack_inj I J K n n' c c' h h' e

/-- **CellIndexingNNPS** under the guard: every particle's key and the key of every visited
stencil box fit (for whatever bit widths `I, J, K` the `log2` expressions produced).  Sorting the
keys, detecting the runs of equal decoded cells, `std::map` lookup of the box key and the walk
over the run return exactly the brute-force set. -/
theorem nbrs_exact_CellIndexingNNPS (rs c : α) (o : Pt α) (I J K : Nat)
    (src : List (Pt α)) (q : Pt α)
    (hc : 0 < c) (hrs : 0 ≤ rs) (hq : 0 ≤ q.h) (hqc : rs * q.h ≤ c)
    (hsrc : ∀ p ∈ src, 0 ≤ p.h ∧ rs * p.h ≤ c)
    (hlo : ∀ p ∈ src, o.x ≤ p.x ∧ o.y ≤ p.y ∧ o.z ≤ p.z)
    (hfit : ∀ j, j < src.length → ciFits I J K j (cellAtOf Int.floor c o src j).toNat3 = true)
    (hbox : ∀ b ∈ neighborBoxesZ (cell3 Int.floor c o q), ciFits I J K 0 b.toNat3 = true) :
    let cands := ciCands I J K src.length (cellAtOf Int.floor c o src) (cell3 Int.floor c o q)
    (nbrsOf rs src q cands).Perm (bruteForce rs src q) ∧ (nbrsOf rs src q cands).Nodup ∧
      ∀ j ∈ nbrsOf rs src q cands, j < src.length := by
  intro cands
  refine nbrs_exact_of_cands_perm_grid rs c o src q cands ?_ hc hrs hq hqc hsrc
  rw [gridCands_eq_stencilIdx]
  exact ci_cands_perm I J K src.length _ _
    (cellAt_valid c o src nonnegCell (fun p hp => cell_nonneg c o p hc (hlo p hp))) hfit hbox

end grid

/-- The guard is necessary: with `J = 0` bits for the x cell (what
`<u_int>(1 + log2(ceil(0/cell_size)))` yields for a cloud without extent in x) the boxes
`(1, 0, 0)` and `(0, 1, 0)` of the stencil get the same key, and the particle of cell `(0,1,0)`
is visited twice (three particles with cells `(0,0,0), (0,0,0), (0,1,0)`, `I = 2`, `K = 2`;
this is the input of `proposed_fixes/C01-cellindexing-zero-extent-bits.diff`). -/
theorem ci_guard_necessary :
    ¬ (ciCands 2 0 2 3 (fun j => if j = 2 then (0, 1, 0) else (0, 0, 0)) (0, 0, 0)).Nodup := by
  decide +kernel

/-- NOT proved: CellIndexing without the guard ("aliased boxes only add candidates that fail
the acceptance test and two stencil boxes never alias").  `ci_guard_necessary` shows that it is
false for the bit widths the pinned code computes on clouds without x (or y) extent. -/
def nbrs_exact_CellIndexingNNPS_unguarded : Prop :=
  ∀ (rs c : ℚ) (o : Pt ℚ) (I J K : Nat) (src : List (Pt ℚ)) (q : Pt ℚ),
    0 < c → 0 ≤ rs → 0 ≤ q.h → rs * q.h ≤ c → (∀ p ∈ src, 0 ≤ p.h ∧ rs * p.h ≤ c) →
    (∀ p ∈ src, o.x ≤ p.x ∧ o.y ≤ p.y ∧ o.z ≤ p.z) →
    (nbrsOf rs src q (ciCands I J K src.length (cellAtOf Int.floor c o src)
      (cell3 Int.floor c o q))).Perm (bruteForce rs src q)

/-! ## Sub-grid family (ExtendedSpatialHashNNPS, exact mode) -/
section subgrid
variable {α : Type} [Field α] [LinearOrder α] [IsStrictOrderedRing α] [FloorRing α]

/-- **subgrid_cover.**  With sub-cells of size `c/H` (`H ≥ 1`), a neighbour `p` of `q` whose
cut-off does not exceed the cell size `c` lies in a sub-cell whose offset `m` from the query's
sub-cell satisfies, on every axis, `|m| ≤ H` (inside the mask `±H`) and
`|m| ≤ ⌈rs·max(hm, h_q)/(c/H)⌉` for every `hm ≥ h_p` (the per-box cut with the box's `h_max`). -/
theorem subgrid_cover (rs c : α) (H : Nat) (o q p : Pt α) (hm : α) (hc : 0 < c) (hH : 1 ≤ H)
    (hrs : 0 ≤ rs) (hq : 0 ≤ q.h) (hp : 0 ≤ p.h) (hqc : rs * q.h ≤ c) (hpc : rs * p.h ≤ c)
    (hhm : p.h ≤ hm) (h : isNbr rs q p = true) :
    let a := cell3 Int.floor (c / (H : α)) o p
    let b := cell3 Int.floor (c / (H : α)) o q
    let K := ⌈rs * fmaxA hm q.h / (c / (H : α))⌉
    ((a.1 - b.1).natAbs ≤ H ∧ (a.2.1 - b.2.1).natAbs ≤ H ∧ (a.2.2 - b.2.2).natAbs ≤ H) ∧
    (((a.1 - b.1).natAbs : Int) ≤ K ∧ ((a.2.1 - b.2.1).natAbs : Int) ≤ K ∧
      ((a.2.2 - b.2.2).natAbs : Int) ≤ K) := by
  intro a b K
  have hHpos : (0 : α) < (H : α) := by exact_mod_cast hH
  have hs : 0 < c / (H : α) := div_pos hc hHpos
  have key : ∃ r, 0 ≤ r ∧ r ≤ c ∧ r ≤ rs * fmaxA hm q.h ∧ dist2 p q < r * r := by
    rcases (isNbr_iff rs q p).mp h with h1 | h1
    · exact ⟨rs * q.h, mul_nonneg hrs hq, hqc,
        mul_le_mul_of_nonneg_left (fmaxA_ge_right _ _) hrs, h1⟩
    · exact ⟨rs * p.h, mul_nonneg hrs hp, hpc,
        mul_le_mul_of_nonneg_left (le_trans hhm (fmaxA_ge_left _ _)) hrs, h1⟩
  obtain ⟨r, hr0, hrc, hrR, hd⟩ := key
  obtain ⟨hx, hy, hz⟩ := lt_cell_of_dist2_lt hr0 hd
  have hKH : ⌈r / (c / (H : α))⌉ ≤ (H : Int) := by
    rw [Int.ceil_le, div_le_iff₀ hs]
    have : ((H : Int) : α) * (c / (H : α)) = c := by
      push_cast; field_simp
    rw [this]; exact hrc
  have hKK : ⌈r / (c / (H : α))⌉ ≤ K :=
    Int.ceil_mono (div_le_div_of_nonneg_right hrR (le_of_lt hs))
  have ax : ∀ (u v o' : α), |u - v| < r →
      ((⌊(u - o') / (c / (H : α))⌋ - ⌊(v - o') / (c / (H : α))⌋).natAbs : Int) ≤
        ⌈r / (c / (H : α))⌉ := by
    intro u v o' huv
    apply floor_adj_ceil _ _ r _ hs
    have e : (u - o') - (v - o') = u - v := by ring
    rw [e]; exact huv
  have ax1 := ax p.x q.x o.x hx
  have ax2 := ax p.y q.y o.y hy
  have ax3 := ax p.z q.z o.z hz
  simp only [a, b, cell3, cellOf]
  refine ⟨⟨?_, ?_, ?_⟩, ⟨?_, ?_, ?_⟩⟩ <;> omega

/-- **ExtendedSpatialHashNNPS (exact mode)**: particles hashed by sub-cell of size `c/H`, the
full `±H` mask, the per-box cut with the box's `h_max`; exact for every `H ≥ 1`, every hash
function / table size, every cloud with cut-offs at most `c`. -/
theorem nbrs_exact_ExtendedSpatialHashNNPS (rs c : α) (H : Nat) (o : Pt α) (hash : Cell → Nat)
    (src : List (Pt α)) (q : Pt α)
    (hc : 0 < c) (hH : 1 ≤ H) (hrs : 0 ≤ rs) (hq : 0 ≤ q.h) (hqc : rs * q.h ≤ c)
    (hsrc : ∀ p ∈ src, 0 ≤ p.h ∧ rs * p.h ≤ c)
    (hlo : ∀ p ∈ src, o.x ≤ p.x ∧ o.y ≤ p.y ∧ o.z ≤ p.z) :
    let cands := eshCands Int.ceil hash H rs (c / (H : α)) src.length
      (cellAtOf Int.floor (c / (H : α)) o src) (hAtOf src) q.h (cell3 Int.floor (c / (H : α)) o q)
    (nbrsOf rs src q cands).Perm (bruteForce rs src q) ∧ (nbrsOf rs src q cands).Nodup ∧
      ∀ j ∈ nbrsOf rs src q cands, j < src.length := by
  intro cands
  have hHpos : (0 : α) < (H : α) := by exact_mod_cast hH
  have hs : 0 < c / (H : α) := div_pos hc hHpos
  refine exact_of_cover_nodup rs src q cands ?_ (eshCands_nodup _ _ _ _ _ _ _ _ _ _)
  intro j hj ha
  have hjs : src[j]? = some src[j] := List.getElem?_eq_getElem hj
  have hn : isNbr rs q src[j] = true := by simpa [accepts, hjs] using ha
  have hmem : src[j] ∈ src := List.getElem_mem hj
  obtain ⟨e, hget, hmax⟩ := hmax_hashItems hash src.length
    (cellAtOf Int.floor (c / (H : α)) o src) (hAtOf src) j hj
  have hcellj : cellAtOf Int.floor (c / (H : α)) o src j = cell3 Int.floor (c / (H : α)) o src[j] := by
    simp only [cellAtOf, hjs]
  have hhj : hAtOf src j = src[j].h := by simp only [hAtOf, hjs]
  rw [hhj] at hmax
  obtain ⟨⟨m1, m2, m3⟩, ⟨k1, k2, k3⟩⟩ := subgrid_cover rs c H o q src[j] e.hmax hc hH hrs hq
    (hsrc _ hmem).1 hqc (hsrc _ hmem).2 hmax hn
  rw [hcellj] at hget
  show j ∈ eshCands Int.ceil hash H rs (c / (H : α)) src.length
    (cellAtOf Int.floor (c / (H : α)) o src) (hAtOf src) q.h (cell3 Int.floor (c / (H : α)) o q)
  generalize cell3 Int.floor (c / (H : α)) o q = b at m1 m2 m3 k1 k2 k3 ⊢
  have hnn := cell_nonneg _ o _ hs (hlo _ hmem)
  generalize hadef : cell3 Int.floor (c / (H : α)) o src[j] = a at m1 m2 m3 k1 k2 k3 hget hnn hcellj
  have hadd : Cell.add b (a.1 - b.1, a.2.1 - b.2.1, a.2.2 - b.2.2) = a := by
    simp only [Cell.add]
    ext <;> simp
  apply mem_eshCands Int.ceil hash H rs (c / (H : α)) src.length _ (hAtOf src) q.h b j hj
    (a.1 - b.1, a.2.1 - b.2.1, a.2.2 - b.2.2)
  · exact (mem_hMaskExact H _).mpr ⟨m1, m2, m3⟩
  · unfold eshBoxOk
    rw [hadd, hget]
    simp only [Bool.and_eq_true, decide_eq_true_eq]
    exact ⟨hnn, ⟨k1, k2⟩, k3⟩
  · rw [hadd, hcellj]

end subgrid

/-! ## storage: linked list -/

/-- After any insertion sequence with distinct particle ids, walking `head[c]`
(with at least as much fuel as there are particles) lists exactly the inserted
particles of flattened cell `c`, most recently inserted first — in particular
each exactly once. -/
theorem ll_traverse_eq_bucket (items : List (Nat × Nat))
    (hnd : (items.map (·.1)).Nodup) (c : Nat) :
    ∀ n, items.length ≤ n →
      (LL.build items).traverse n c =
        ((items.filter (fun ic => ic.2 = c)).map (·.1)).reverse :=
  traverse_eq_bucket items hnd c

/-! ## neighbour cache -/

/-- For every assignment of destinations to threads and every order in which
the fills happen (`sched`), a later `get_neighbors` for any destination `d`
returns exactly what `find_nearest_neighbors` produces for `d` — whether `d`
was filled by some thread before or is filled on demand now. -/
theorem cache_get_eq_find (find : Nat → List Nat) (sched : List (Nat × Nat)) (d : Nat) :
    (Cache.get find (Cache.run find Cache.reset sched) d).2 = find d := by
  have hinv := Cache.inv_run find sched Cache.reset (Cache.inv_reset find)
  have hinv' := Cache.inv_fillGuarded find _ (0, d) hinv
  have hc := Cache.cached_fillGuarded find (Cache.run find Cache.reset sched) 0 d
  exact (hinv' d hc).2.2

/-- … and successive gets keep answering correctly (the cache never goes stale
between updates). -/
theorem cache_get_preserves (find : Nat → List Nat) (s : Cache) (d e : Nat)
    (h : Cache.Inv find s) :
    Cache.Inv find (Cache.get find s d).1 ∧
      (Cache.get find (Cache.get find s d).1 e).2 = find e := by
  have h1 := Cache.inv_fillGuarded find s (0, d) h
  refine ⟨h1, ?_⟩
  have h2 := Cache.inv_fillGuarded find _ (0, e) h1
  exact (h2 e (Cache.cached_fillGuarded find _ 0 e)).2.2

/-- `update()` forgets everything. -/
theorem cache_update_resets (d : Nat) : Cache.reset.cached d = false := rfl

/-! ## who owns the memory a query writes to (`Model/NnpsAlias.lean`)

A cached query does not copy: it turns the caller's output array into a VIEW of the cache's
per-thread buffer.  The statements below are about every history of calls of the query API on any
number of NNPS objects / (dst, src) pairs (caches `c`) with any number of output arrays `a`, shared
or not, in any mix. -/

/-- **A query never writes the cache storage**: an un-cached query that detaches the output array
first (`c_reset()`, what `get_nearest_particles_no_cache(…, prealloc=False)` and
`get_nearest_particles` with the cache off do) leaves every cache of every object exactly as it
was, whatever the array was a view of. -/
theorem direct_query_never_writes_cache (find : Nat → Nat → List Nat) (s : AState) (c d a : Nat) :
    (s.step find (AOp.direct true c d a)).1.caches = s.caches :=
  stepDirect_caches find s true c d a (emptied_detach _)

/-- … and so does the `prealloc=True` form on an array that is not a view (the caller's own,
pre-allocated array, as the flag promises). -/
theorem prealloc_query_never_writes_cache (find : Nat → Nat → List Nat) (s : AState) (c d a : Nat)
    (h : (s.arrs a).view = none) :
    (s.step find (AOp.direct false c d a)).1.caches = s.caches :=
  stepDirect_caches find s false c d a (by rw [emptied_keep]; exact h)

/-- **Every history of queries is exact**: starting from freshly updated caches, after ANY sequence
of cached queries, un-cached queries and cache resets, on any objects / array pairs, with output
arrays shared between them in any way, every call hands the caller exactly what
`find_nearest_neighbors` produces for that call — provided only that `prealloc=True` is never used
on an array that is currently a view (`safeRun`).  In particular a cached entry read again after
any number of interleaved un-cached queries made with the same output array is unchanged. -/
theorem query_history_exact (find : Nat → Nat → List Nat) (ops : List AOp)
    (hs : AState.safeRun find AState.init ops = true) :
    (AState.run find AState.init ops).2 = ops.map (AOp.expected find) :=
  (AState.run_ok find ops AState.init (AState.inv_init find) hs).2

/-- the same from any state whose caches are consistent, together with the invariant that makes
the statement compose over updates -/
theorem query_history_exact_from (find : Nat → Nat → List Nat) (ops : List AOp) (s : AState)
    (h : AState.Inv find s) (hs : AState.safeRun find s ops = true) :
    AState.Inv find (AState.run find s ops).1 ∧
      (AState.run find s ops).2 = ops.map (AOp.expected find) :=
  AState.run_ok find ops s h hs

/-- **The detach is necessary**: with `length = 0` in place of `c_reset()` (the two branches of
`get_nearest_particles_no_cache` merged into "just empty the array") the history
cached(0) → un-cached(1) → cached(0) with ONE output array returns the neighbours of particle 1
for particle 0: the un-cached query wrote into the cache's buffer.  (Kernel-checked on the model;
this is the history class the harness runs against the compiled classes.) -/
theorem detach_necessary :
    let find : Nat → Nat → List Nat := fun _ d => [10 * d, 10 * d + 1]
    let ops := [AOp.cached 0 0 0, AOp.direct false 0 1 0, AOp.cached 0 0 0]
    AState.safeRun find AState.init ops = false ∧
    (AState.run find AState.init ops).2 = [[0, 1], [10, 11], [10, 11]] ∧
    ops.map (AOp.expected find) = [[0, 1], [10, 11], [0, 1]] := by
  decide +kernel

/-- non-vacuity: a safe history over two caches and two output arrays (shared array 0 goes
cached → un-cached → cached on another cache → `prealloc` after a detach; a reset in between) -/
example :
    let find : Nat → Nat → List Nat := fun c d => [c, d, c + d]
    let ops := [AOp.cached 0 2 0, AOp.direct true 1 0 0, AOp.cached 0 2 0, AOp.cached 1 1 0,
      AOp.cached 0 1 1, AOp.direct true 0 0 0, AOp.direct false 1 3 0, AOp.reset 0 1,
      AOp.cached 0 2 1, AOp.cached 1 1 0]
    AState.safeRun find AState.init ops = true ∧
    (AState.run find AState.init ops).2 =
      [[0, 2, 2], [1, 0, 1], [0, 2, 2], [1, 1, 2], [0, 1, 1], [0, 0, 0], [1, 3, 4], [],
       [0, 2, 2], [1, 1, 2]] := by
  decide +kernel

/-! ## the padded bounds put every particle into a valid cell (`Model/NnpsBounds.lean`) -/
section bounds
variable {α : Type} [Field α] [LinearOrder α] [IsStrictOrderedRing α] [FloorRing α]

/-- **Every particle lands in a valid cell.**  For every list of particle arrays (empty ones
included), every padding fraction `pad > 0` (the code: 0.01), every cell size `c > 0`: with
`xmin / xmax` as `NNPS._compute_bounds` computes them and `ncells_per_dim` as
`_get_number_of_cells` counts them (`max 1 ⌈(xmax − xmin)/c⌉` per axis), the cell
`⌊(x − xmin)/c⌋` of every particle of every array passes `is_valid` of `get_valid_cell_index`.
The reason is the padding on BOTH sides: the lower one keeps the cell index non-negative, the
upper one keeps the particle with the largest coordinate strictly below `xmax` (see
`upper_pad_necessary`); an axis without extent gets one cell. -/
theorem padded_bounds_valid (big pad eps half c : α) (hpad : 0 < pad) (hhalf : 0 < half)
    (hc : 0 < c) (arrs : List (List (Pt α))) (a : List (Pt α)) (ha : a ∈ arrs) (p : Pt α)
    (hp : p ∈ a) :
    isValidCell (ncells Int.ceil c (boundsOf big pad eps half c arrs))
      (cell3 Int.floor c (boundsOf big pad eps half c arrs).origin p) = true := by
  obtain ⟨hx, hy, hz⟩ := boundsOf_inAxis big pad eps half c hpad hhalf hc arrs a ha p hp
  exact valid_of_inAxis c hc _ p hx hy hz

/-- **LinkedListNNPS with the bounds the code computes**: the validity hypothesis of
`nbrs_exact_LinkedListNNPS` is discharged by `padded_bounds_valid` — grid origin `xmin`, box
`ncells_per_dim` from `_compute_bounds` / `_get_number_of_cells` over all arrays, source array any
of them. -/
theorem nbrs_exact_LinkedListNNPS_bounds (rs big pad eps half c : α) (hpad : 0 < pad)
    (hhalf : 0 < half) (arrs : List (List (Pt α))) (src : List (Pt α)) (hsrcm : src ∈ arrs)
    (q : Pt α) (hc : 0 < c) (hrs : 0 ≤ rs) (hq : 0 ≤ q.h) (hqc : rs * q.h ≤ c)
    (hsrc : ∀ p ∈ src, 0 ≤ p.h ∧ rs * p.h ≤ c) :
    let B := boundsOf big pad eps half c arrs
    let nc := ncells Int.ceil c B
    let cands := llCands nc (nc.1 * nc.2.1 * nc.2.2) src.length (cellAtOf Int.floor c B.origin src)
      (cell3 Int.floor c B.origin q)
    (nbrsOf rs src q cands).Perm (bruteForce rs src q) ∧ (nbrsOf rs src q cands).Nodup ∧
      ∀ j ∈ nbrsOf rs src q cands, j < src.length :=
  nbrs_exact_LinkedListNNPS rs c _ _ src q hc hrs hq hqc hsrc
    (fun p hp => padded_bounds_valid big pad eps half c hpad hhalf hc arrs src hsrcm p hp)

/-- … and BoxSortNNPS (same box; `ids ⊇` the flattened ids of the source array). -/
theorem nbrs_exact_BoxSortNNPS_bounds (rs big pad eps half c : α) (hpad : 0 < pad)
    (hhalf : 0 < half) (arrs : List (List (Pt α))) (src : List (Pt α)) (hsrcm : src ∈ arrs)
    (ids : List Int) (q : Pt α) (hc : 0 < c) (hrs : 0 ≤ rs) (hq : 0 ≤ q.h) (hqc : rs * q.h ≤ c)
    (hsrc : ∀ p ∈ src, 0 ≤ p.h ∧ rs * p.h ≤ c) :
    let B := boundsOf big pad eps half c arrs
    let nc := ncells Int.ceil c B
    (∀ p ∈ src, flattenCell nc (cell3 Int.floor c B.origin p) ∈ ids) →
    let cands := boxCands nc (occupied ids) src.length (cellAtOf Int.floor c B.origin src)
      (cell3 Int.floor c B.origin q)
    (nbrsOf rs src q cands).Perm (bruteForce rs src q) ∧ (nbrsOf rs src q cands).Nodup ∧
      ∀ j ∈ nbrsOf rs src q cands, j < src.length := by
  intro B nc hids
  exact nbrs_exact_BoxSortNNPS rs c _ _ ids src q hc hrs hq hqc hsrc
    (fun p hp => padded_bounds_valid big pad eps half c hpad hhalf hc arrs src hsrcm p hp) hids

end bounds

/-- **The upper padding is necessary**: with only the lower limit moved (`xmin -= lx*0.01`, no
`xmax += lx*0.01`) a lattice whose padded extent is a whole number of cells — two particles 100
cells apart, `(100 + 1)/1 = 101` — bins its last particle in cell 101 of 101: outside the box, never
visited by a query.  With the code's bounds the same particle is in cell 101 of 102. -/
theorem upper_pad_necessary :
    let arrs : List (List (Pt Rat)) := [[⟨0, 0, 0, 1/2⟩, ⟨100, 0, 0, 1/2⟩]]
    let big : Rat := 10 ^ 100
    let Bl := boundsOfLowerOnly big (1/100) (1/1000000000000) (1/2) 1 arrs
    let B := boundsOf big (1/100) (1/1000000000000) (1/2) 1 arrs
    Bl.x = (-1, 100) ∧ ncells Rat.ceil 1 Bl = (101, 1, 1) ∧
    cell3 Rat.floor 1 Bl.origin ⟨100, 0, 0, 1/2⟩ = (101, 0, 0) ∧
    allValid Rat.floor Rat.ceil 1 Bl arrs = false ∧
    B.x = (-1, 101) ∧ ncells Rat.ceil 1 B = (102, 1, 1) ∧
    allValid Rat.floor Rat.ceil 1 B arrs = true := by
  decide +kernel

/-- non-vacuity of `padded_bounds_valid` and the degenerate branches: two arrays and an empty one
in the plane `z = 0` (an axis without extent gets one cell); a single point (every extent below
`eps`: half a cell on every side); no particle at all -/
example :
    let big : Rat := 10 ^ 100
    let arrs : List (List (Pt Rat)) :=
      [[⟨0, 0, 0, 1/4⟩, ⟨1, 1/2, 0, 1/4⟩], [], [⟨5/2, -1/4, 0, 1/8⟩]]
    let B := boundsOf big (1/100) (1/1000000000000) (1/2) (1/2) arrs
    B.x = (-1/40, 101/40) ∧ B.z = (0, 0) ∧ ncells Rat.ceil (1/2) B = (6, 2, 1) ∧
    allValid Rat.floor Rat.ceil (1/2) B arrs = true ∧
    (boundsOf big (1/100) (1/1000000000000) (1/2) (1/2) [[⟨3, 4, 5, 1/4⟩]]).x = (11/4, 13/4) ∧
    (boundsOf big (1/100) (1/1000000000000) (1/2) (1/2) ([[], []] : List (List (Pt Rat)))).y =
      (-1/4, 1/4) := by
  decide +kernel

/-! ## Tree family (Octree, CompressedOctree) -/
section tree
variable {α : Type} [Field α] [LinearOrder α] [IsStrictOrderedRing α]

/-- The tree query returns exactly the brute-force set for every tree that
satisfies `TreeInv` (every stored particle lies in the closed cube of each of
its ancestors and has `h ≤ hmax` there), stores every source index exactly
once; the pruning test `|centre − q| ≥ len/2 + rs·max(h_q, hmax)` never cuts a
subtree that holds an accepted particle. -/
theorem tree_query_exact (rs : α) (src : List (Pt α)) (q : Pt α) (t : Nnps.Tree α)
    (hrs : 0 ≤ rs) (hq : 0 ≤ q.h) (hpos : ∀ p ∈ src, 0 ≤ p.h)
    (hinv : TreeInv src t) (hnd : (Nnps.Tree.pids t).Nodup)
    (hall : ∀ j, j < src.length → j ∈ Nnps.Tree.pids t) :
    (treeNbrs rs src q t).Perm (bruteForce rs src q) ∧ (treeNbrs rs src q t).Nodup ∧
      ∀ j ∈ treeNbrs rs src q t, j < src.length :=
  exact_of_cover_nodup rs src q (Nnps.Tree.cands rs q t)
    (fun j hj ha => cands_cover rs src q hrs hq hpos t hinv j (hall j hj) ha)
    (hnd.sublist (cands_sublist rs q t))

/-- The form the check uses on every run: the driver evaluates `Tree.invB` (exact rational
arithmetic on the doubles of the REAL tree dumped from `pysph.base.octree`), `Nodup` and
coverage of the leaf index lists; when they hold the query on that very tree is exact. -/
theorem tree_query_exact_checked (rs : α) (src : List (Pt α)) (q : Pt α) (t : Nnps.Tree α)
    (hrs : 0 ≤ rs) (hq : 0 ≤ q.h) (hpos : ∀ p ∈ src, 0 ≤ p.h)
    (hinv : Nnps.Tree.invB src t = true) (hnd : (Nnps.Tree.pids t).Nodup)
    (hall : ∀ j, j < src.length → j ∈ Nnps.Tree.pids t) :
    (treeNbrs rs src q t).Perm (bruteForce rs src q) ∧ (treeNbrs rs src q t).Nodup ∧
      ∀ j ∈ treeNbrs rs src q t, j < src.length :=
  tree_query_exact rs src q t hrs hq hpos (invB_sound src t hinv) hnd hall

end tree

/-! ## Morton keys (`z_order.h`) -/

/-- Bit `3b + r` of `get_key(i, j, k)` is bit `b` of coordinate `r` (`r = 0, 1, 2` for
`i, j, k`), for coordinates below 2^21. -/
theorem morton_key_bits (i j k : Nat) (hi : i < 2 ^ 21) (hj : j < 2 ^ 21) (hk : k < 2 ^ 21)
    (b : Nat) (hb : b < 21) :
    (mortonKey i j k).testBit (3 * b) = i.testBit b ∧
    (mortonKey i j k).testBit (3 * b + 1) = j.testBit b ∧
    (mortonKey i j k).testBit (3 * b + 2) = k.testBit b :=
  key_bits i j k hi hj hk b hb

/-- **key_inj.**  `get_key` is injective on cell coordinates below 2^21: two cells share a
Morton key only if they are the same cell. -/
theorem key_inj (i j k i' j' k' : Nat) (hi : i < 2 ^ 21) (hj : j < 2 ^ 21) (hk : k < 2 ^ 21)
    (hi' : i' < 2 ^ 21) (hj' : j' < 2 ^ 21) (hk' : k' < 2 ^ 21)
    (h : mortonKey i j k = mortonKey i' j' k') : i = i' ∧ j = j' ∧ k = k' :=
  mortonKey_inj i j k i' j' k' hi hj hk hi' hj' hk' h

/-- non-vacuity: the largest coordinate fills exactly the bits `0, 3, …, 60`; three of them fill
63 bits; a small key -/
example : mortonSpread (2 ^ 21 - 1) = 0x1249249249249249 ∧
    mortonKey (2 ^ 21 - 1) (2 ^ 21 - 1) (2 ^ 21 - 1) = 2 ^ 63 - 1 ∧
    mortonKey 3 1 2 = 43 := by decide +kernel

/-! ## z-order family (ZOrderNNPS, ExtendedZOrderNNPS) -/

/-- `std::sort` at its specification: whatever order it leaves equal keys in, the result is a
permutation of all particle ids, sorted by key -/
def SortSpec (srt : (Nat → Nat) → Nat → List Nat) : Prop :=
  ∀ key n, (srt key n).Perm (List.range n) ∧ (srt key n).Pairwise (fun p q => key p ≤ key q)

/-- the insertion sort the executable model uses is one such function -/
theorem sortPids_sortSpec : SortSpec sortPids := fun key n => sortPids_spec key n

section zorder
variable {α : Type} [Field α] [LinearOrder α] [IsStrictOrderedRing α] [FloorRing α]

/-- the hypotheses on the arrays make every `ZIn` of the model acceptable -/
private theorem zIn_ok (cs : α) (o : Pt α) (maxKey H : Nat) (srt : (Nat → Nat) → Nat → List Nat)
    (hsrt : SortSpec srt) (arrs : List (List (Pt α)))
    (hfit : ∀ a ∈ arrs, ∀ p ∈ a, cellGuard H (cell3 Int.floor cs o p) = true)
    (hkey : ∀ a ∈ arrs, ∀ p ∈ a, zKey (cell3 Int.floor cs o p) < maxKey) :
    ∀ inp ∈ arrs.map (zInOfPts Int.floor cs o srt), inp.Ok maxKey := by
  intro inp hinp
  obtain ⟨arr, harr, rfl⟩ := List.mem_map.mp hinp
  have hcell : ∀ j, ∀ hj : j < arr.length,
      cellAtOf Int.floor cs o arr j = cell3 Int.floor cs o arr[j] := by
    intro j hj
    simp only [cellAtOf, List.getElem?_eq_getElem hj]
  refine ⟨(hsrt _ _).1, (hsrt _ _).2, ?_, ?_⟩
  · intro j hj
    show cellFits21 (cellAtOf Int.floor cs o arr j) = true
    rw [hcell j hj]
    exact cellGuard_fits H _ (hfit arr harr _ (List.getElem_mem hj))
  · intro j hj
    show zKey (cellAtOf Int.floor cs o arr j) < maxKey
    rw [hcell j hj]
    exact hkey arr harr _ (List.getElem_mem hj)

/-- **ZOrderNNPS** (as it is in the tree now).  For every list of particle arrays (empty ones
included), every sorting function, every (source, destination) pair and every destination
particle `i`: the per-array sorted `(key, pid)` lists and `key_to_idx`, the cell-id numbering
shared by all arrays, `_fill_nbr_boxes` with its second pass over the cells the source array does
not occupy, and the walk of `find_nearest_neighbors` over the row of `i`'s cell id return exactly
the brute-force set, without duplicates, with valid indices.

Hypotheses: cell size `c > 0` at least every cut-off `rs·h`; every particle's cell has
non-negative coordinates with one to spare below 2^21 (`cellGuard 1`, the range in which `get_key`
is injective); every particle's key is below `max_key` (the size of `key_to_idx`). -/
theorem nbrs_exact_ZOrderNNPS (rs c : α) (o : Pt α) (maxKey : Nat)
    (srt : (Nat → Nat) → Nat → List Nat) (hsrt : SortSpec srt) (arrs : List (List (Pt α)))
    (s d i : Nat) (src dst : List (Pt α)) (q : Pt α)
    (hs : arrs[s]? = some src) (hd : arrs[d]? = some dst) (hq : dst[i]? = some q)
    (hc : 0 < c) (hrs : 0 ≤ rs)
    (hh : ∀ a ∈ arrs, ∀ p ∈ a, 0 ≤ p.h ∧ rs * p.h ≤ c)
    (hfit : ∀ a ∈ arrs, ∀ p ∈ a, cellGuard 1 (cell3 Int.floor c o p) = true)
    (hkey : ∀ a ∈ arrs, ∀ p ∈ a, zKey (cell3 Int.floor c o p) < maxKey) :
    let cands := zOrderCands maxKey (arrs.map (zInOfPts Int.floor c o srt)) s d i
    (nbrsOf rs src q cands).Perm (bruteForce rs src q) ∧ (nbrsOf rs src q cands).Nodup ∧
      ∀ j ∈ nbrsOf rs src q cands, j < src.length := by
  intro cands
  have hsm : src ∈ arrs := List.mem_of_getElem? hs
  have hdm : dst ∈ arrs := List.mem_of_getElem? hd
  have hqm : q ∈ dst := List.mem_of_getElem? hq
  have hi : i < dst.length := (List.getElem?_eq_some_iff.mp hq).1
  have hcq : cellAtOf Int.floor c o dst i = cell3 Int.floor c o q := by simp only [cellAtOf, hq]
  refine nbrs_exact_of_cands_perm_grid rs c o src q cands ?_ hc hrs (hh dst hdm q hqm).1
    (hh dst hdm q hqm).2 (hh src hsm)
  rw [gridCands_eq_stencilIdx]
  have hperm := zCandsGen_perm maxKey 27 (maskZ 1) (maskZ_nodup 1)
    (arrs.map (zInOfPts Int.floor c o srt)) (zIn_ok c o maxKey 1 srt hsrt arrs hfit hkey) s d i
    (zInOfPts Int.floor c o srt src) (zInOfPts Int.floor c o srt dst)
    (by rw [List.getElem?_map, hs]; rfl) (by rw [List.getElem?_map, hd]; rfl) hi
    (zBoxes_fit 1 _ (by
      show cellGuard 1 (cellAtOf Int.floor c o dst i) = true
      rw [hcq]; exact hfit dst hdm q hqm))
  refine hperm.trans (List.Perm.of_eq ?_)
  show (List.range src.length).filter (fun j => decide (cellAtOf Int.floor c o src j ∈
    zBoxes (maskZ 1) (cellAtOf Int.floor c o dst i))) = _
  rw [hcq]
  unfold stencilIdx
  apply List.filter_congr
  intro j hj
  have hj' := List.mem_range.mp hj
  have hcj : cellAtOf Int.floor c o src j = cell3 Int.floor c o src[j] := by
    simp only [cellAtOf, List.getElem?_eq_getElem hj']
  have hnn : nonnegCell (cellAtOf Int.floor c o src j) = true := by
    rw [hcj]
    exact cellFits21_nonneg _ (cellGuard_fits 1 _ (hfit src hsm _ (List.getElem_mem hj')))
  have : (cellAtOf Int.floor c o src j ∈ zBoxes (maskZ 1) (cell3 Int.floor c o q)) ↔
      inStencil (cell3 Int.floor c o q) (cellAtOf Int.floor c o src j) = true := by
    rw [mem_zBoxes_maskZ, inStencil_iff]
    constructor
    · rintro ⟨_, h1, h2, h3⟩; exact ⟨by omega, by omega, by omega⟩
    · rintro ⟨h1, h2, h3⟩; exact ⟨hnn, by omega, by omega, by omega⟩
  by_cases hin : inStencil (cell3 Int.floor c o q) (cellAtOf Int.floor c o src j) = true
  · simp [hin, this.mpr hin]
  · have hn : ¬ cellAtOf Int.floor c o src j ∈ zBoxes (maskZ 1) (cell3 Int.floor c o q) :=
      fun h => hin (this.mp h)
    simp [hin, hn]

/-- **ExtendedZOrderNNPS, `asymmetric=True`**: sub-cells of size `c/H` (`H ≥ 1`), the full `±H`
mask, otherwise the bookkeeping of ZOrderNNPS; exact under the same hypotheses with the guard
taken on the sub-cells (`H` to spare below 2^21). -/
theorem nbrs_exact_ExtendedZOrderNNPS_asym (rs c : α) (H : Nat) (o : Pt α) (maxKey : Nat)
    (srt : (Nat → Nat) → Nat → List Nat) (hsrt : SortSpec srt) (arrs : List (List (Pt α)))
    (s d i : Nat) (src dst : List (Pt α)) (q : Pt α)
    (hs : arrs[s]? = some src) (hd : arrs[d]? = some dst) (hq : dst[i]? = some q)
    (hc : 0 < c) (hH : 1 ≤ H) (hrs : 0 ≤ rs)
    (hh : ∀ a ∈ arrs, ∀ p ∈ a, 0 ≤ p.h ∧ rs * p.h ≤ c)
    (hfit : ∀ a ∈ arrs, ∀ p ∈ a, cellGuard H (cell3 Int.floor (c / (H : α)) o p) = true)
    (hkey : ∀ a ∈ arrs, ∀ p ∈ a, zKey (cell3 Int.floor (c / (H : α)) o p) < maxKey) :
    let cands := extZOrderAsymCands maxKey H (arrs.map (zInOfPts Int.floor (c / (H : α)) o srt)) s d i
    (nbrsOf rs src q cands).Perm (bruteForce rs src q) ∧ (nbrsOf rs src q cands).Nodup ∧
      ∀ j ∈ nbrsOf rs src q cands, j < src.length := by
  intro cands
  have hsm : src ∈ arrs := List.mem_of_getElem? hs
  have hdm : dst ∈ arrs := List.mem_of_getElem? hd
  have hqm : q ∈ dst := List.mem_of_getElem? hq
  have hi : i < dst.length := (List.getElem?_eq_some_iff.mp hq).1
  have hcq : cellAtOf Int.floor (c / (H : α)) o dst i = cell3 Int.floor (c / (H : α)) o q := by
    simp only [cellAtOf, hq]
  have hperm := zCandsGen_perm maxKey ((2 * H + 1) ^ 3) (maskZ H) (maskZ_nodup H)
    (arrs.map (zInOfPts Int.floor (c / (H : α)) o srt))
    (zIn_ok (c / (H : α)) o maxKey H srt hsrt arrs hfit hkey) s d i
    (zInOfPts Int.floor (c / (H : α)) o srt src) (zInOfPts Int.floor (c / (H : α)) o srt dst)
    (by rw [List.getElem?_map, hs]; rfl) (by rw [List.getElem?_map, hd]; rfl) hi
    (zBoxes_fit H _ (by
      show cellGuard H (cellAtOf Int.floor (c / (H : α)) o dst i) = true
      rw [hcq]; exact hfit dst hdm q hqm))
  have hperm' : cands.Perm ((List.range src.length).filter (fun j =>
      decide (cellAtOf Int.floor (c / (H : α)) o src j ∈
        zBoxes (maskZ H) (cell3 Int.floor (c / (H : α)) o q)))) := by
    have := hperm
    rw [show (zInOfPts Int.floor (c / (H : α)) o srt dst).cellAt i =
      cellAtOf Int.floor (c / (H : α)) o dst i from rfl, hcq] at this
    exact this
  refine exact_of_cover_nodup rs src q cands ?_ (hperm'.nodup_iff.mpr (List.nodup_range.filter _))
  intro j hj ha
  rw [hperm'.mem_iff, List.mem_filter, List.mem_range, decide_eq_true_eq]
  refine ⟨hj, ?_⟩
  have hjs : src[j]? = some src[j] := List.getElem?_eq_getElem hj
  have hn : isNbr rs q src[j] = true := by simpa [accepts, hjs] using ha
  have hmem : src[j] ∈ src := List.getElem_mem hj
  have hcj : cellAtOf Int.floor (c / (H : α)) o src j = cell3 Int.floor (c / (H : α)) o src[j] := by
    simp only [cellAtOf, hjs]
  obtain ⟨⟨m1, m2, m3⟩, _⟩ := subgrid_cover rs c H o q src[j] src[j].h hc hH hrs (hh dst hdm q hqm).1
    (hh src hsm _ hmem).1 (hh dst hdm q hqm).2 (hh src hsm _ hmem).2 (le_refl _) hn
  rw [hcj, mem_zBoxes_maskZ]
  exact ⟨cellFits21_nonneg _ (cellGuard_fits H _ (hfit src hsm _ hmem)), m1, m2, m3⟩

/-- **ExtendedZOrderNNPS, `asymmetric=False`** (as it is in the tree now): sub-cells `c/H`, and a
box at offset `m` from the destination particle's sub-cell is kept only if
`|m| ≤ ⌈rs·max(hmax_src[cid of the box], h_cell)/(c/H)⌉` on every axis, where `h_cell` is the
largest `h` over ALL arrays in the destination particle's sub-cell (`_cell_hmax`) joined with the
source array's own `hmax` entry of that cell id.  The pruning never drops a box that holds a true
neighbour: `hmax_src[cid]` bounds the `h` of the box's source particles, `h_cell` bounds the `h` of
the destination particle, whichever array it belongs to. -/
theorem nbrs_exact_ExtendedZOrderNNPS_sym (rs c : α) (H : Nat) (o : Pt α) (maxKey : Nat)
    (srt : (Nat → Nat) → Nat → List Nat) (hsrt : SortSpec srt) (arrs : List (List (Pt α)))
    (s d i : Nat) (src dst : List (Pt α)) (q : Pt α)
    (hs : arrs[s]? = some src) (hd : arrs[d]? = some dst) (hq : dst[i]? = some q)
    (hc : 0 < c) (hH : 1 ≤ H) (hrs : 0 ≤ rs)
    (hh : ∀ a ∈ arrs, ∀ p ∈ a, 0 ≤ p.h ∧ rs * p.h ≤ c)
    (hfit : ∀ a ∈ arrs, ∀ p ∈ a, cellGuard H (cell3 Int.floor (c / (H : α)) o p) = true)
    (hkey : ∀ a ∈ arrs, ∀ p ∈ a, zKey (cell3 Int.floor (c / (H : α)) o p) < maxKey) :
    let cands := extZOrderSymCands Int.ceil maxKey H rs (c / (H : α))
      (arrs.map (zInOfPts Int.floor (c / (H : α)) o srt)) (arrs.map (fun a => hAtOf a)) s d i
    (nbrsOf rs src q cands).Perm (bruteForce rs src q) ∧ (nbrsOf rs src q cands).Nodup ∧
      ∀ j ∈ nbrsOf rs src q cands, j < src.length := by
  intro cands
  have hsm : src ∈ arrs := List.mem_of_getElem? hs
  have hdm : dst ∈ arrs := List.mem_of_getElem? hd
  have hqm : q ∈ dst := List.mem_of_getElem? hq
  have hi : i < dst.length := (List.getElem?_eq_some_iff.mp hq).1
  have hHpos : (0 : α) < (H : α) := by exact_mod_cast hH
  have hsub : 0 < c / (H : α) := div_pos hc hHpos
  have hok := zIn_ok (c / (H : α)) o maxKey H srt hsrt arrs hfit hkey
  obtain ⟨a, b, hai, hbi, ctx⟩ := ZCtx.mk' maxKey (arrs.map (zInOfPts Int.floor (c / (H : α)) o srt))
    hok s d i (zInOfPts Int.floor (c / (H : α)) o srt src) (zInOfPts Int.floor (c / (H : α)) o srt dst)
    (by rw [List.getElem?_map, hs]; rfl) (by rw [List.getElem?_map, hd]; rfl) hi
  have han : a.n = src.length := by rw [show a.n = a.toIn.n from rfl, hai]; rfl
  have hacell : a.cellAt = cellAtOf Int.floor (c / (H : α)) o src := by
    rw [show a.cellAt = a.toIn.cellAt from rfl, hai]; rfl
  have hbcell : b.cellAt = cellAtOf Int.floor (c / (H : α)) o dst := by
    rw [show b.cellAt = b.toIn.cellAt from rfl, hbi]; rfl
  have hcq : b.cellAt i = cell3 Int.floor (c / (H : α)) o q := by
    rw [hbcell]; simp only [cellAtOf, hq]
  have ha : a ∈ (zBuild (arrs.map (zInOfPts Int.floor (c / (H : α)) o srt))).1 :=
    List.mem_of_getElem? ctx.has
  have hhs : (arrs.map (fun a => hAtOf a))[s]? = some (hAtOf src) := by
    rw [List.getElem?_map, hs]; rfl
  have hhd : (arrs.map (fun a => hAtOf a))[d]? = some (hAtOf dst) := by
    rw [List.getElem?_map, hd]; rfl
  have hcands : cands = zCandsRow a (zLengths a) (zRows ((2 * H + 1) ^ 3)
      (zBuild (arrs.map (zInOfPts Int.floor (c / (H : α)) o srt))).1 s a
      (zNbrSym Int.ceil maxKey H rs (c / (H : α))
        ((zBuild (arrs.map (zInOfPts Int.floor (c / (H : α)) o srt))).1.zip
          (arrs.map (fun a => hAtOf a))) a (hAtOf src)) (b.cids i)) := by
    show extZOrderSymCands _ _ _ _ _ _ _ _ _ _ = _
    unfold extZOrderSymCands
    simp only [ctx.has, ctx.hbd, hhs]
  by_cases hne : a.pids = []
  · have h0 : src.length = 0 := by rw [← han]; exact ok_n_zero maxKey a ctx.oka hne
    rw [hcands, zCandsRow_empty _ _ _ _ _ _ hne]
    exact exact_of_cover_nodup rs src q [] (fun j hj _ => by omega) List.nodup_nil
  · have hnn : ∀ c' cid, ∀ x ∈ zNbrSym Int.ceil maxKey H rs (c / (H : α))
        ((zBuild (arrs.map (zInOfPts Int.floor (c / (H : α)) o srt))).1.zip
          (arrs.map (fun a => hAtOf a))) a (hAtOf src) c' cid, 0 ≤ x := by
      intro c' cid
      unfold zNbrSym
      exact zNbrIdxSym_nonneg _ _ _ _ _ _ _ _ _
    rw [hcands, zCandsRow_rows maxKey _ _ s d i a b ctx _ hnn hne]
    unfold zNbrSym
    rw [zSym_flatMap]
    generalize hhq : fmaxA (zHmax a (hAtOf src) (b.cids i))
      (cellHmax maxKey ((zBuild (arrs.map (zInOfPts Int.floor (c / (H : α)) o srt))).1.zip
        (arrs.map (fun a => hAtOf a))) (zKey (b.cellAt i))) = hq'
    have hboxfit : ∀ bx ∈ zBoxes (maskZ H) (b.cellAt i), cellFits21 bx = true :=
      zBoxes_fit H _ (by rw [hcq]; exact hfit dst hdm q hqm)
    refine exact_of_cover_nodup rs src q _ ?_
      (zSym_nodup Int.ceil maxKey (maskZ H) (maskZ_nodup H) rs (c / (H : α)) _ _ ctx.inv a ha
        ctx.oka _ _ _ hboxfit)
    intro j hj hacc
    have hjs : src[j]? = some src[j] := List.getElem?_eq_getElem hj
    have hn : isNbr rs q src[j] = true := by simpa [accepts, hjs] using hacc
    have hmem : src[j] ∈ src := List.getElem_mem hj
    have hcj : a.cellAt j = cell3 Int.floor (c / (H : α)) o src[j] := by
      rw [hacell]; simp only [cellAtOf, hjs]
    have hjn : j < a.n := by rw [han]; exact hj
    have hjp : j ∈ a.pids := (ok_mem_pids maxKey a ctx.oka j).mpr hjn
    -- the source particle's h is bounded by its cell id's hmax entry
    have hhm : src[j].h ≤ zHmax a (hAtOf src) (a.cids j) := by
      have := zHmax_ge _ _ ctx.inv a ha (hAtOf src) j hjp
      simpa [hAtOf, hjs] using this
    -- the destination particle's h is bounded by `_cell_hmax` of its cell
    have hqh : q.h ≤ hq' := by
      rw [← hhq]
      refine le_trans ?_ (fmaxA_ge_right _ _)
      have hzip : (b, hAtOf dst) ∈ (zBuild (arrs.map (zInOfPts Int.floor (c / (H : α)) o srt))).1.zip
          (arrs.map (fun a => hAtOf a)) := by
        apply List.mem_of_getElem? (i := d)
        rw [List.getElem?_zip_eq_some]
        exact ⟨ctx.hbd, hhd⟩
      have hib : i ∈ b.pids := (ok_mem_pids maxKey b ctx.okb i).mpr ctx.hi
      have := cellHmax_ge maxKey _
        (fun x hx => ctx.inv.keysEq x.1 (List.of_mem_zip hx).1)
        (fun x hx => ctx.inv.sorted x.1 (List.of_mem_zip hx).1)
        b (hAtOf dst) hzip i hib (ctx.okb.below i ctx.hi)
      rw [show b.key i = zKey (b.cellAt i) from rfl] at this
      simpa [hAtOf, hq] using this
    obtain ⟨⟨m1, m2, m3⟩, ⟨k1, k2, k3⟩⟩ := subgrid_cover rs c H o q src[j]
      (zHmax a (hAtOf src) (a.cids j)) hc hH hrs (hh dst hdm q hqm).1 (hh src hsm _ hmem).1
      (hh dst hdm q hqm).2 (hh src hsm _ hmem).2 hhm hn
    have hceil : ⌈rs * fmaxA (zHmax a (hAtOf src) (a.cids j)) q.h / (c / (H : α))⌉ ≤
        ⌈rs * fmaxA (zHmax a (hAtOf src) (a.cids j)) hq' / (c / (H : α))⌉ := by
      apply Int.ceil_mono
      apply div_le_div_of_nonneg_right _ (le_of_lt hsub)
      exact mul_le_mul_of_nonneg_left (fmaxA_mono_right _ _ _ hqh) hrs
    rw [← hcj, ← hcq] at m1 m2 m3 k1 k2 k3
    apply zSym_mem Int.ceil maxKey (maskZ H) rs (c / (H : α)) _ _ ctx.inv a ha ctx.oka _ _ _ j hjn
      ((a.cellAt j).1 - (b.cellAt i).1, (a.cellAt j).2.1 - (b.cellAt i).2.1,
        (a.cellAt j).2.2 - (b.cellAt i).2.2)
    · exact (mem_maskZ H _).mpr ⟨m1, m2, m3⟩
    · simp only [Cell.add]; ext <;> simp
    · exact ⟨le_trans k1 hceil, le_trans k2 hceil, le_trans k3 hceil⟩

end zorder

/-! ## stratified classes (StratifiedHashNNPS) -/
section strat
variable {α : Type} [Field α] [LinearOrder α] [IsStrictOrderedRing α] [FloorRing α]

/-- **strat_cover.**  Let the source particle `p` be stored at a level whose cell size is `U/H`
with `rs·h_p ≤ U` (`U` = the upper end of the level's interval of cut-offs).  Then for EVERY
destination particle `q` (whatever its `h`) of which `p` is a neighbour, `p`'s cell at that level
lies within the mask half-width `⌈max(rs·h_q, U)·H/U⌉` the query uses for that level, on every
axis. -/
theorem strat_cover (rs U : α) (H : Nat) (o q p : Pt α) (hU : 0 < U) (hH : 1 ≤ H) (hrs : 0 ≤ rs)
    (hq : 0 ≤ q.h) (hp : 0 ≤ p.h) (hpU : rs * p.h ≤ U) (h : isNbr rs q p = true) :
    let a := cell3 Int.floor (U / (H : α)) o p
    let b := cell3 Int.floor (U / (H : α)) o q
    let K := ⌈fmaxA (rs * q.h) U * (H : α) / U⌉.toNat
    (a.1 - b.1).natAbs ≤ K ∧ (a.2.1 - b.2.1).natAbs ≤ K ∧ (a.2.2 - b.2.2).natAbs ≤ K := by
  intro a b K
  have hHpos : (0 : α) < (H : α) := by exact_mod_cast hH
  have hs : 0 < U / (H : α) := div_pos hU hHpos
  have key : ∃ r, 0 ≤ r ∧ r ≤ fmaxA (rs * q.h) U ∧ dist2 p q < r * r := by
    rcases (isNbr_iff rs q p).mp h with h1 | h1
    · exact ⟨rs * q.h, mul_nonneg hrs hq, fmaxA_ge_left _ _, h1⟩
    · exact ⟨rs * p.h, mul_nonneg hrs hp, le_trans hpU (fmaxA_ge_right _ _), h1⟩
  obtain ⟨r, hr0, hrR, hd⟩ := key
  obtain ⟨hx, hy, hz⟩ := lt_cell_of_dist2_lt hr0 hd
  have hKK : ⌈r / (U / (H : α))⌉ ≤ ⌈fmaxA (rs * q.h) U * (H : α) / U⌉ := by
    apply Int.ceil_mono
    rw [div_div_eq_mul_div]
    apply div_le_div_of_nonneg_right _ (le_of_lt hU)
    exact mul_le_mul_of_nonneg_right hrR (le_of_lt hHpos)
  have ax : ∀ (u v o' : α), |u - v| < r →
      ((⌊(u - o') / (U / (H : α))⌋ - ⌊(v - o') / (U / (H : α))⌋).natAbs : Int) ≤
        ⌈r / (U / (H : α))⌉ := by
    intro u v o' huv
    apply floor_adj_ceil _ _ r _ hs
    have e : (u - o') - (v - o') = u - v := by ring
    rw [e]; exact huv
  have ax1 := ax p.x q.x o.x hx
  have ax2 := ax p.y q.y o.y hy
  have ax3 := ax p.z q.z o.z hz
  simp only [a, b, K, cell3, cellOf]
  refine ⟨?_, ?_, ?_⟩ <;> omega

/-- **StratifiedHashNNPS** (as it is in the tree now): `num_levels = L` hash tables per array,
a particle stored at level `floor((rs·h − hmin)/interval)` by its cell of size
`(hmin + (level+1)·interval)/H`, the query visiting, for every non-empty level, the mask of
half-width `⌈max(rs·h_q, U_level)·H/U_level⌉`.  Exact for every hash function / table size, every
`L, H ≥ 1`, every `EPS > 0`, every destination particle (no bound on its `h`), every source array
with cut-offs at most the cell size `cs ≥ hmin ≥ 0`. -/
theorem nbrs_exact_StratifiedHashNNPS (rs cs hmin eps : α) (L H : Nat) (o : Pt α)
    (hash : Cell → Nat) (src : List (Pt α)) (q : Pt α)
    (hrs : 0 < rs) (hL : 1 ≤ L) (hH : 1 ≤ H) (heps : 0 < eps) (hmin0 : 0 ≤ hmin) (hcs : hmin ≤ cs)
    (hq : 0 ≤ q.h) (hsrc : ∀ p ∈ src, 0 ≤ p.h ∧ rs * p.h ≤ cs)
    (hlo : ∀ p ∈ src, o.x ≤ p.x ∧ o.y ≤ p.y ∧ o.z ≤ p.z) :
    let cands := stratHashCands Int.floor Int.ceil hash rs cs hmin eps L H o src q
    (nbrsOf rs src q cands).Perm (bruteForce rs src q) ∧ (nbrsOf rs src q cands).Nodup ∧
      ∀ j ∈ nbrsOf rs src q cands, j < src.length := by
  intro cands
  have hivl := stratInterval_pos cs hmin eps L hL heps hcs
  have hHpos : (0 : α) < (H : α) := by exact_mod_cast hH
  refine exact_of_cover_nodup rs src q cands ?_ (stratGen_nodup _ _ _ _ _ _ _ _)
  intro j hj ha
  have hjs : src[j]? = some src[j] := List.getElem?_eq_getElem hj
  have hn : isNbr rs q src[j] = true := by simpa [accepts, hjs] using ha
  have hmem : src[j] ∈ src := List.getElem_mem hj
  have hhj : hAtOf src j = src[j].h := by simp only [hAtOf, hjs]
  apply mem_stratGen _ _ _ _ _ _ _ _ j hj
  · show stratLevel Int.floor rs hmin (stratInterval cs hmin eps L) (hAtOf src j) < L
    rw [hhj]
    exact strat_level_lt rs cs hmin eps _ L hL heps hcs (hsrc _ hmem).2
  · show cellAtOf Int.floor _ o src j ∈ stratBoxes _ _
    rw [hhj]
    generalize hl : stratLevel Int.floor rs hmin (stratInterval cs hmin eps L) src[j].h = l
    have hU := stratHmaxLevel_pos rs hmin (stratInterval cs hmin eps L) l hrs hmin0 hivl
    have hpU : rs * src[j].h ≤ stratHmaxLevel rs hmin (stratInterval cs hmin eps L) l := by
      rw [← hl]; exact le_of_lt (strat_level_bound rs hmin _ _ hrs hivl)
    have hcj : cellAtOf Int.floor (stratHmaxLevel rs hmin (stratInterval cs hmin eps L) l / (H : α))
        o src j = cell3 Int.floor (stratHmaxLevel rs hmin (stratInterval cs hmin eps L) l / (H : α))
          o src[j] := by simp only [cellAtOf, hjs]
    rw [hcj, mem_stratBoxes]
    refine ⟨cell_nonneg _ o _ (div_pos hU hHpos) (hlo _ hmem), ?_⟩
    exact strat_cover rs _ H o q src[j] hU hH (le_of_lt hrs) hq (hsrc _ hmem).1 hpU hn

/-- **sfc_cover.**  Source particle `p` stored at a level with cell size `rs·ck`, `h_p ≤ ck`;
destination particle `q` with `0 < h_q ≤ hm` (`hm` = the largest `h` in `q`'s cell, `_cell_hmax`).
If `p` is a neighbour of `q`, `p`'s cell at that level lies within `⌈hm/ck⌉` (= `_get_H(hm, ck)`)
of `q`'s cell at that level on every axis. -/
theorem sfc_cover (rs ck hm : α) (o q p : Pt α) (hck : 0 < ck) (hrs : 0 < rs) (hq : 0 < q.h)
    (hp : 0 ≤ p.h) (hpk : p.h ≤ ck) (hqm : q.h ≤ hm) (h : isNbr rs q p = true) :
    let a := cell3 Int.floor (rs * ck) o p
    let b := cell3 Int.floor (rs * ck) o q
    let K := ⌈hm / ck⌉.toNat
    (a.1 - b.1).natAbs ≤ K ∧ (a.2.1 - b.2.1).natAbs ≤ K ∧ (a.2.2 - b.2.2).natAbs ≤ K := by
  intro a b K
  have hs : 0 < rs * ck := mul_pos hrs hck
  have hm0 : 0 < hm := lt_of_lt_of_le hq hqm
  have hone : (1 : Int) ≤ ⌈hm / ck⌉ := Int.one_le_ceil_iff.mpr (div_pos hm0 hck)
  have key : ∃ r, 0 ≤ r ∧ dist2 p q < r * r ∧ ⌈r / (rs * ck)⌉ ≤ ⌈hm / ck⌉ := by
    rcases (isNbr_iff rs q p).mp h with h1 | h1
    · refine ⟨rs * q.h, mul_nonneg (le_of_lt hrs) (le_of_lt hq), h1, Int.ceil_mono ?_⟩
      rw [mul_div_mul_left _ _ (ne_of_gt hrs)]
      exact div_le_div_of_nonneg_right hqm (le_of_lt hck)
    · refine ⟨rs * p.h, mul_nonneg (le_of_lt hrs) hp, h1, le_trans ?_ hone⟩
      rw [Int.ceil_le, mul_div_mul_left _ _ (ne_of_gt hrs)]
      simpa using (div_le_one hck).mpr hpk
  obtain ⟨r, hr0, hd, hKK⟩ := key
  obtain ⟨hx, hy, hz⟩ := lt_cell_of_dist2_lt hr0 hd
  have ax : ∀ (u v o' : α), |u - v| < r →
      ((⌊(u - o') / (rs * ck)⌋ - ⌊(v - o') / (rs * ck)⌋).natAbs : Int) ≤ ⌈r / (rs * ck)⌉ := by
    intro u v o' huv
    apply floor_adj_ceil _ _ r _ hs
    have e : (u - o') - (v - o') = u - v := by ring
    rw [e]; exact huv
  have ax1 := ax p.x q.x o.x hx
  have ax2 := ax p.y q.y o.y hy
  have ax3 := ax p.z q.z o.z hz
  simp only [a, b, K, cell3, cellOf]
  refine ⟨?_, ?_, ?_⟩ <;> omega

/-- the cells of the coarser levels are the finest-level cell divided by `2^k` (the levels' grids
are nested) -/
theorem sfc_cell_nested (s0 : α) (o p : Pt α) (k : Nat) :
    cell3 Int.floor (s0 * 2 ^ k) o p =
      ((cell3 Int.floor s0 o p).1 / 2 ^ k, (cell3 Int.floor s0 o p).2.1 / 2 ^ k,
        (cell3 Int.floor s0 o p).2.2 / 2 ^ k) := by
  have ax : ∀ u : α, ⌊u / (s0 * 2 ^ k)⌋ = ⌊u / s0⌋ / 2 ^ k := by
    intro u
    have e : u / (s0 * 2 ^ k) = (u / s0) / ((2 ^ k : ℕ) : α) := by
      push_cast; rw [div_div]
    rw [e, Int.floor_div_natCast]
    push_cast; rfl
  simp only [cell3, cellOf, ax]

/-- componentwise division of a cell by `2^k` -/
private def divk (k : Nat) (c : Cell) : Cell := (c.1 / 2 ^ k, c.2.1 / 2 ^ k, c.2.2 / 2 ^ k)

private theorem divk_guard (G k : Nat) (c : Cell) (h : cellGuard G c = true) :
    cellGuard G (divk k c) = true := by
  rw [cellGuard_iff] at h ⊢
  obtain ⟨⟨a1, a2⟩, ⟨b1, b2⟩, ⟨c1, c2⟩⟩ := h
  have p2 : (0 : Int) ≤ 2 ^ k := by positivity
  have e1 := Int.ediv_le_self (2 ^ k) a1
  have e2 := Int.ediv_le_self (2 ^ k) b1
  have e3 := Int.ediv_le_self (2 ^ k) c1
  have n1 := Int.ediv_nonneg a1 p2
  have n2 := Int.ediv_nonneg b1 p2
  have n3 := Int.ediv_nonneg c1 p2
  simp only [divk]
  refine ⟨⟨n1, ?_⟩, ⟨n2, ?_⟩, ⟨n3, ?_⟩⟩ <;> omega

/-- **StratifiedSFCNNPS** (as it is in the tree now; asymmetric mode, the only one the constructor
can select).  `L` levels with cell sizes `rs·c0·2^k`; a particle of level `lev h` is keyed by
`(level << B) + get_key(cell at its level)`; the keys are sorted per array; for every (level,
finest-level key) met — the source array's own particles first, then the particles of the other
arrays — one segment of `nbr_boxes` lists, for every level `k`, the boxes `±⌈hmax_cell/(c0·2^k)⌉`
around the representative's cell at level `k` that the source array occupies (`hmax_cell` =
`_cell_hmax`: the largest `h` over ALL arrays in the representative's cell at its level); the query
walks the runs of the segment of (level of `q`, finest-level key of `q`).  The result is exactly
the brute-force set, without duplicates, with valid indices, for every list of arrays (empty ones
included), every sorting function, every (source, destination) pair.

Hypotheses: `h > 0`; the level function `lev` (any function of `h`) maps every particle to an
existing level whose cell size is at least the particle's cut-off (`h ≤ c0·2^(lev h)`) — the
code's `_get_level` guarantees this only up to its `EPS` (see `sfc_level_eps_sliver`); the
decidable guards: finest-level cells non-negative with `G` to spare below 2^21 where
`h ≤ G·c0` for all particles (so every mask cell is in the range where `get_key` is injective),
keys without level bits below `2^B`. -/
theorem nbrs_exact_StratifiedSFCNNPS (rs c0 : α) (L B G : Nat) (o : Pt α) (lev : α → Nat)
    (size cells : Nat → α) (hsize : ∀ k, k < L → size k = rs * c0 * 2 ^ k)
    (hcells : ∀ k, k < L → cells k = c0 * 2 ^ k)
    (srt : (Nat → Nat) → Nat → List Nat) (hsrt : SortSpec srt) (arrs : List (List (Pt α)))
    (s d i : Nat) (src dst : List (Pt α)) (q : Pt α)
    (hs : arrs[s]? = some src) (hd : arrs[d]? = some dst) (hq : dst[i]? = some q)
    (hrs : 0 < rs) (hc0 : 0 < c0)
    (hpart : ∀ a ∈ arrs, ∀ p ∈ a, 0 < p.h ∧ lev p.h < L ∧ p.h ≤ c0 * 2 ^ (lev p.h) ∧
      p.h ≤ (G : α) * c0)
    (hfit : ∀ a ∈ arrs, ∀ p ∈ a, cellGuard G (cell3 Int.floor (rs * c0) o p) = true)
    (hkey : ∀ a ∈ arrs, ∀ p ∈ a, zKey (cell3 Int.floor (rs * c0 * 2 ^ (lev p.h)) o p) < 2 ^ B) :
    let cands := sfcCands Int.ceil B L cells
      (arrs.map (sInOfPtsGen Int.floor size lev o srt B))
      (arrs.map (fun a => hAtOf a)) s d i
    (nbrsOf rs src q cands).Perm (bruteForce rs src q) ∧ (nbrsOf rs src q cands).Nodup ∧
      ∀ j ∈ nbrsOf rs src q cands, j < src.length := by
  intro cands
  have hsm : src ∈ arrs := List.mem_of_getElem? hs
  have hdm : dst ∈ arrs := List.mem_of_getElem? hd
  have hqm : q ∈ dst := List.mem_of_getElem? hq
  have hi : i < dst.length := (List.getElem?_eq_some_iff.mp hq).1
  -- the input arrays of the model and their cells
  generalize hmk : (fun arr => sfcFill B (sInOfPtsGen Int.floor size lev o srt B arr)) = mk
  have hmkn : ∀ arr, (mk arr).n = arr.length := by intro arr; rw [← hmk]; rfl
  have hmkl : ∀ arr j, (mk arr).levelOf j = lev (hAtOf arr j) := by intro arr j; rw [← hmk]; rfl
  have hmkc : ∀ arr k j, (mk arr).cellAtL k j = cellAtOf Int.floor (size k) o arr j := by
    intro arr k j; rw [← hmk]; rfl
  have hcellL : ∀ arr, ∀ j, ∀ hj : j < arr.length, ∀ k, k < L →
      (mk arr).cellAtL k j = divk k (cell3 Int.floor (rs * c0) o arr[j]) := by
    intro arr j hj k hk
    rw [hmkc, hsize k hk]
    simp only [cellAtOf, List.getElem?_eq_getElem hj]
    exact sfc_cell_nested (rs * c0) o _ k
  have hL : 0 < L := lt_of_le_of_lt (Nat.zero_le _) (hpart dst hdm q hqm).2.1
  have hlevL : ∀ arr, ∀ j, ∀ hj : j < arr.length, (mk arr).levelOf j = lev arr[j].h := by
    intro arr j hj
    rw [hmkl]
    simp only [hAtOf, List.getElem?_eq_getElem hj]
  have hokIn : ∀ arr ∈ arrs, (mk arr).Ok B L := by
    intro arr harr
    rw [← hmk]
    apply sfcFill_ok
    refine ⟨(hsrt _ _).1, (hsrt _ _).2, ?_, ?_⟩
    · intro j hj k hk
      have := hcellL arr j hj k hk
      rw [← hmk] at this
      show cellFits21 ((sfcFill B (sInOfPtsGen Int.floor size lev o srt B arr)).cellAtL k j) = true
      rw [this]
      exact cellGuard_fits G _ (divk_guard G k _ (hfit arr harr _ (List.getElem_mem hj)))
    · intro j hj
      have hlv := (hpart arr harr _ (List.getElem_mem hj)).2.1
      show zKey (cellAtOf Int.floor (size (lev (hAtOf arr j))) o arr j) < 2 ^ B
      simp only [cellAtOf, hAtOf, List.getElem?_eq_getElem hj]
      rw [hsize _ hlv]
      exact hkey arr harr _ (List.getElem_mem hj)
  -- the model's arrays
  have has : (List.map (sfcFill B) (arrs.map (sInOfPtsGen Int.floor size lev o srt B)))
      = arrs.map mk := by rw [List.map_map, ← hmk]; rfl
  have e1 : (arrs.map mk)[s]? = some (mk src) := by rw [List.getElem?_map, hs]; rfl
  have e2 : (arrs.map mk)[d]? = some (mk dst) := by rw [List.getElem?_map, hd]; rfl
  have hc : cands = sfcCands Int.ceil B L cells
      (arrs.map (sInOfPtsGen Int.floor size lev o srt B))
      (arrs.map (fun a => hAtOf a)) s d i := rfl
  rw [hc]
  unfold sfcCands
  simp only [has, e1, e2]
  have hoka := hokIn src hsm
  have hokb := hokIn dst hdm
  have hokAll : ∀ x ∈ arrs.map mk, x.Ok B L := by
    intro x hx
    obtain ⟨arr, harr, rfl⟩ := List.mem_map.mp hx
    exact hokIn arr harr
  by_cases hne : (mk src).pids.isEmpty = true
  · have h0 : src.length = 0 := by
      have := hoka.perm.length_eq
      rw [List.isEmpty_iff] at hne
      rw [hne, hmkn] at this
      simpa using this.symm
    simp only [hne, if_true]
    exact exact_of_cover_nodup rs src q [] (fun j hj _ => by omega) List.nodup_nil
  · simp only [hne, Bool.false_eq_true, if_false]
    -- the table entry of (level of q, finest key of q) is the segment of a representative
    have hib : i ∈ (mk dst).pids := (hokb.mem_pids i).mpr (by rw [hmkn]; exact hi)
    obtain ⟨w, ⟨hw1, hw2⟩, ⟨hwl, hwk⟩, htab⟩ := sfcTable_fold
      (sfcWriterSeg Int.ceil B L cells
        ((arrs.map mk).zip (arrs.map (fun a => hAtOf a))) (mk src))
      ((mk dst).levelOf i) (zKey ((mk dst).cellAtL 0 i)) (fun w => w.1 ∈ arrs.map mk ∧ w.2 ∈ w.1.pids)
      (sfcWriters (arrs.map mk) s (mk src)) (fun _ _ => none)
      (fun w hw => mem_sfcWriters _ s _ (List.mem_of_getElem? e1) w hw) (Or.inl rfl)
      (Or.inl ⟨(mk dst, i), sfcWriters_covers _ s d _ _ e1 e2 i hib, rfl, rfl⟩)
    unfold sfcTable
    rw [htab]
    simp only
    -- the representative has the cells of q at every level
    obtain ⟨warr, hwarr, hwe⟩ := List.mem_map.mp hw1
    have hwj : w.2 < warr.length := by
      have := (hokAll w.1 hw1).mem_pids w.2 |>.mp hw2
      rw [← hwe, hmkn] at this; exact this
    have hcell0 : cell3 Int.floor (rs * c0) o warr[w.2] = cell3 Int.floor (rs * c0) o q := by
      have h1 := hcellL warr w.2 hwj 0 hL
      have h2 := hcellL dst i hi 0 hL
      rw [hwe] at h1
      have hz : w.1.cellAtL 0 w.2 = (mk dst).cellAtL 0 i := by
        apply zKey_inj _ _ _ _ hwk
        · exact (hokAll w.1 hw1).fits w.2 ((hokAll w.1 hw1).mem_pids w.2 |>.mp hw2) 0 hL
        · exact hokb.fits i (by rw [hmkn]; exact hi) 0 hL
      rw [h1, h2] at hz
      have hq' : dst[i] = q := by
        have := List.getElem?_eq_getElem hi; rw [hq] at this; exact (Option.some.inj this).symm
      rw [hq'] at hz
      simpa [divk] using hz
    have hrep : ∀ k, k < L → w.1.cellAtL k w.2 = divk k (cell3 Int.floor (rs * c0) o q) := by
      intro k hk
      rw [← hwe, hcellL warr w.2 hwj k hk, hcell0]
    have hqcell : ∀ k, divk k (cell3 Int.floor (rs * c0) o q) = cell3 Int.floor (rs * c0 * 2 ^ k) o q :=
      fun k => (sfc_cell_nested (rs * c0) o q k).symm
    have hqlev : (mk dst).levelOf i = lev q.h := by
      rw [hlevL dst i hi]
      have := List.getElem?_eq_getElem hi; rw [hq] at this
      rw [← Option.some.inj this]
    -- the largest h in q's cell
    generalize hhm : sfcCellHmax B ((arrs.map mk).zip (arrs.map (fun a => hAtOf a)))
      (w.1.levelOf w.2) (w.1.skey w.2) = hmc
    have hqL : (mk dst).levelOf i < L := by rw [hqlev]; exact (hpart dst hdm q hqm).2.1
    have hskey : w.1.skey w.2 = (mk dst).skey i := by
      show zKey (w.1.cellAtL (w.1.levelOf w.2) w.2) = zKey ((mk dst).cellAtL ((mk dst).levelOf i) i)
      rw [hwl, hrep _ hqL, hcellL dst i hi _ hqL]
      have := List.getElem?_eq_getElem hi; rw [hq] at this
      rw [← Option.some.inj this]
    have hqh : q.h ≤ hmc := by
      rw [← hhm, hwl, hskey]
      have hzip : (mk dst, hAtOf dst) ∈ (arrs.map mk).zip (arrs.map (fun a => hAtOf a)) := by
        apply List.mem_of_getElem? (i := d)
        rw [List.getElem?_zip_eq_some]
        exact ⟨e2, by rw [List.getElem?_map, hd]; rfl⟩
      have := sfcCellHmax_ge B L _ (fun x hx => hokAll x.1 (List.of_mem_zip hx).1) (mk dst) (hAtOf dst)
        hzip i (by rw [hmkn]; exact hi)
      simpa [hAtOf, hq] using this
    have hmcG : hmc ≤ (G : α) * c0 := by
      rw [← hhm]
      apply sfcCellHmax_le B _ _ _ _ (mul_nonneg (Nat.cast_nonneg G) (le_of_lt hc0))
      intro x hx p hp
      have hx1 := (List.of_mem_zip hx)
      obtain ⟨k, hk⟩ := List.mem_iff_getElem?.mp hx
      rw [List.getElem?_zip_eq_some] at hk
      obtain ⟨arr, harr⟩ : ∃ arr, arrs[k]? = some arr := by
        cases h : arrs[k]? with
        | none => rw [List.getElem?_map, h] at hk; exact absurd hk.1 (by simp)
        | some arr => exact ⟨arr, rfl⟩
      have hx1e : x.1 = mk arr := by
        have := hk.1; rw [List.getElem?_map, harr] at this; exact (Option.some.inj this).symm
      have hx2e : x.2 = hAtOf arr := by
        have := hk.2; rw [List.getElem?_map, harr] at this; exact (Option.some.inj this).symm
      have harrm : arr ∈ arrs := List.mem_of_getElem? harr
      have hpl : p < arr.length := by
        have := (hokIn arr harrm).mem_pids p |>.mp (by rw [← hx1e]; exact hp)
        rw [hmkn] at this; exact this
      rw [hx2e]
      simp only [hAtOf, List.getElem?_eq_getElem hpl]
      exact (hpart arr harrm _ (List.getElem_mem hpl)).2.2.2
    -- mask half-widths and boxes
    have hck : ∀ k : Nat, (0 : α) < c0 * 2 ^ k := fun k => mul_pos hc0 (by positivity)
    have hHk : ∀ k : Nat, ⌈hmc / (c0 * 2 ^ k)⌉.toNat ≤ G := by
      intro k
      have h1 : hmc / (c0 * 2 ^ k) ≤ (G : α) := by
        rw [div_le_iff₀ (hck k)]
        have : (1 : α) ≤ 2 ^ k := one_le_pow₀ (by norm_num)
        have hG0 : (0 : α) ≤ (G : α) := Nat.cast_nonneg G
        calc hmc ≤ (G : α) * c0 := hmcG
          _ = (G : α) * (c0 * 1) := by ring
          _ ≤ (G : α) * (c0 * 2 ^ k) := by
            apply mul_le_mul_of_nonneg_left _ hG0
            exact mul_le_mul_of_nonneg_left this (le_of_lt hc0)
      have h2 : ⌈hmc / (c0 * 2 ^ k)⌉ ≤ (G : Int) := by
        rw [Int.ceil_le]; exact_mod_cast h1
      omega
    have hqguard : ∀ k, cellGuard G (divk k (cell3 Int.floor (rs * c0) o q)) = true :=
      fun k => divk_guard G k _ (hfit dst hdm q hqm)
    have hboxfit : ∀ k, ∀ bx ∈ zBoxes (maskZ (⌈hmc / (c0 * 2 ^ k)⌉.toNat))
        (divk k (cell3 Int.floor (rs * c0) o q)), cellFits21 bx = true := by
      intro k bx hbx
      obtain ⟨hnn, h1, h2, h3⟩ := (mem_zBoxes_maskZ _ _ _).mp hbx
      have hg := (cellGuard_iff G _).mp (hqguard k)
      have hH := hHk k
      rw [nonnegCell_iff] at hnn
      rw [cellFits21_iff]
      refine ⟨⟨hnn.1, ?_⟩, ⟨hnn.2.1, ?_⟩, ⟨hnn.2.2, ?_⟩⟩ <;> omega
    -- the walk over the segment = levels × boxes × runs
    have hseg : (sfcWriterSeg Int.ceil B L cells
        ((arrs.map mk).zip (arrs.map (fun a => hAtOf a))) (mk src) w).flatMap (sfcRun B (mk src)) =
        (List.range L).flatMap (fun k =>
          (zBoxes (maskZ (⌈hmc / (c0 * 2 ^ k)⌉.toNat)) (divk k (cell3 Int.floor (rs * c0) o q))).flatMap
            (sfcLookup B (mk src) k)) := by
      unfold sfcWriterSeg sfcSegment
      rw [hhm, List.flatMap_assoc]
      apply List.flatMap_congr
      intro k hk
      have hkL : k < L := List.mem_range.mp hk
      have hne0 : ¬ c0 * 2 ^ k = 0 := ne_of_gt (hck k)
      simp only [hcells k hkL, hne0, if_false, hrep k hkL]
      rw [flatMap_filterMap_eq]
      unfold zBoxes
      apply List.flatMap_congr
      intro bx _
      unfold sfcLookup
      cases (mk src).getIdx B k (zKey bx) <;> rfl
    rw [hseg]
    have hspec : ∀ k, k < L → ∀ bx ∈ zBoxes (maskZ (⌈hmc / (c0 * 2 ^ k)⌉.toNat))
        (divk k (cell3 Int.floor (rs * c0) o q)),
        (sfcLookup B (mk src) k bx).Nodup ∧ ∀ j, j ∈ sfcLookup B (mk src) k bx ↔
          j < src.length ∧ (mk src).levelOf j = k ∧ (mk src).cellAtL k j = bx := by
      intro k hkL bx hbx
      have := sfcLookup_spec B L (mk src) hoka k hkL bx (hboxfit k bx hbx)
      rw [hmkn] at this
      exact this
    refine exact_of_cover_nodup rs src q _ ?_
      (levelFlat_nodup L src.length (mk src).levelOf (mk src).cellAtL _ _
        (fun k => zBoxes_nodup _ (maskZ_nodup _) _) hspec)
    intro j hj hacc
    have hjs : src[j]? = some src[j] := List.getElem?_eq_getElem hj
    have hn : isNbr rs q src[j] = true := by simpa [accepts, hjs] using hacc
    have hmem : src[j] ∈ src := List.getElem_mem hj
    obtain ⟨hp0, hpL, hpc, _⟩ := hpart src hsm _ hmem
    have hq0 : 0 < q.h := (hpart dst hdm q hqm).1
    apply mem_levelFlat L src.length (mk src).levelOf (mk src).cellAtL _ _ hspec j hj
    · rw [hlevL src j hj]; exact hpL
    · rw [hlevL src j hj, hcellL src j hj _ hpL, mem_zBoxes_maskZ]
      refine ⟨cellFits21_nonneg _ (cellGuard_fits G _ (divk_guard G _ _ (hfit src hsm _ hmem))), ?_⟩
      have := sfc_cover rs (c0 * 2 ^ (lev src[j].h)) hmc o q src[j] (hck _) hrs hq0 (le_of_lt hp0) hpc
        hqh hn
      rw [show rs * (c0 * 2 ^ (lev src[j].h)) = rs * c0 * 2 ^ (lev src[j].h) by ring] at this
      rw [hqcell, sfc_cell_nested (rs * c0) o src[j] (lev src[j].h)] at *
      simpa [divk, sfc_cell_nested] using this

private theorem pow2_eq (n : Nat) : (pow2 n : α) = 2 ^ n := by
  induction n with
  | zero => simp [pow2]
  | succ n ih => simp only [pow2, ih]; ring

/-- the cell sizes of the code, `(cell_size/radius_scale)/2^(num_levels-k-1)`, are the finest one
times `2^k` -/
theorem sfcCell_eq (rs cs : α) (L k : Nat) (hk : k < L) :
    sfcCell rs cs L k = sfcCell rs cs L 0 * 2 ^ k := by
  unfold sfcCell
  rw [pow2_eq, pow2_eq]
  have e : L - 0 - 1 = (L - k - 1) + k := by omega
  rw [e, pow_add]
  have h2 : (2 : α) ^ k ≠ 0 := by positivity
  have h3 : (2 : α) ^ (L - k - 1) ≠ 0 := by positivity
  field_simp

/-- **StratifiedSFCNNPS with the cell sizes of the code and the level function it had before the
`fix:` commit** (`current_cells[k] = (cell_size/radius_scale)/2^(num_levels-k-1)`, `_get_level`
with its absolute `EPS`, read in exact arithmetic): exact whenever that `_get_level` puts every
particle at a level whose cell size is at least its cut-off — which it did except in the `EPS`
sliver of `sfc_level_eps_sliver`.  The repaired code needs no such hypothesis:
`nbrs_exact_StratifiedSFCNNPS_code`. -/
theorem nbrs_exact_StratifiedSFCNNPS_prefix_code (rs cs eps : α) (L B G : Nat) (o : Pt α)
    (srt : (Nat → Nat) → Nat → List Nat) (hsrt : SortSpec srt) (arrs : List (List (Pt α)))
    (s d i : Nat) (src dst : List (Pt α)) (q : Pt α)
    (hs : arrs[s]? = some src) (hd : arrs[d]? = some dst) (hq : dst[i]? = some q)
    (hrs : 0 < rs) (hcs : 0 < cs)
    (hpart : ∀ a ∈ arrs, ∀ p ∈ a, 0 < p.h ∧ sfcLevelOf rs cs eps L p.h < L ∧
      p.h ≤ sfcCell rs cs L 0 * 2 ^ (sfcLevelOf rs cs eps L p.h) ∧ p.h ≤ (G : α) * sfcCell rs cs L 0)
    (hfit : ∀ a ∈ arrs, ∀ p ∈ a, cellGuard G (cell3 Int.floor (rs * sfcCell rs cs L 0) o p) = true)
    (hkey : ∀ a ∈ arrs, ∀ p ∈ a, zKey (cell3 Int.floor
      (rs * sfcCell rs cs L 0 * 2 ^ (sfcLevelOf rs cs eps L p.h)) o p) < 2 ^ B) :
    let cands := sfcCands Int.ceil B L (sfcCell rs cs L)
      (arrs.map (sInOfPts Int.floor rs cs eps L o srt B)) (arrs.map (fun a => hAtOf a)) s d i
    (nbrsOf rs src q cands).Perm (bruteForce rs src q) ∧ (nbrsOf rs src q cands).Nodup ∧
      ∀ j ∈ nbrsOf rs src q cands, j < src.length := by
  have hc0 : 0 < sfcCell rs cs L 0 := by
    unfold sfcCell
    rw [pow2_eq]
    exact div_pos (div_pos hcs hrs) (by positivity)
  exact nbrs_exact_StratifiedSFCNNPS rs (sfcCell rs cs L 0) L B G o (sfcLevelOf rs cs eps L)
    (fun k => rs * sfcCell rs cs L k) (sfcCell rs cs L)
    (fun k hk => by simp only [sfcCell_eq rs cs L k hk]; ring) (fun k hk => sfcCell_eq rs cs L k hk)
    srt hsrt arrs s d i src dst q hs hd hq hrs hc0 hpart hfit hkey

private theorem ceilLog2Aux_spec (r : α) :
    ∀ fuel m0, m0 ≤ ceilLog2Aux r fuel m0 ∧
      ∀ m', m0 ≤ m' → m' < ceilLog2Aux r fuel m0 → (pow2 m' : α) < r := by
  intro fuel
  induction fuel with
  | zero => intro m0; exact ⟨le_refl _, fun m' h1 h2 => by simp only [ceilLog2Aux] at h2; omega⟩
  | succ f ih =>
    intro m0
    unfold ceilLog2Aux
    by_cases h : (pow2 m0 : α) < r
    · simp only [h, if_true]
      obtain ⟨i1, i2⟩ := ih (m0 + 1)
      refine ⟨by omega, fun m' h1 h2 => ?_⟩
      by_cases e : m' = m0
      · rw [e]; exact h
      · exact i2 m' (by omega) h2
    · simp only [h, if_false]
      exact ⟨le_refl _, fun m' h1 h2 => by omega⟩

/-- **The repaired `_get_level` satisfies the level hypothesis** of
`nbrs_exact_StratifiedSFCNNPS_code`: with `m = max(1, ⌈log2(cs/(rs·h))⌉)` every particle with
`0 < h`, `rs·h ≤ cs` gets an existing level whose cell size `rs·c0·2^level` is at least its
cut-off (`c0 = (cs/rs)/2^(L-1)`, `L ≥ 1`). -/
theorem sfcLevelFixed_ok (rs cs h : α) (L : Nat) (hL : 1 ≤ L) (hrs : 0 < rs) (hh : 0 < h)
    (hcs : rs * h ≤ cs) :
    sfcLevelOfFixed rs cs L h < L ∧
      h ≤ sfcCell rs cs L 0 * 2 ^ (sfcLevelOfFixed rs cs L h) := by
  have hA : 0 < cs / rs := div_pos (lt_of_lt_of_le (mul_pos hrs hh) hcs) hrs
  have hr1 : (1 : α) ≤ cs / rs / h := by
    rw [le_div_iff₀ hh, le_div_iff₀ hrs]; linarith
  obtain ⟨_, hmin⟩ := ceilLog2Aux_spec (cs / rs / h) 64 0
  have hbelow : ∀ m', m' < ceilLog2 (cs / rs / h) → (2 : α) ^ m' < cs / rs / h := by
    intro m' hm'
    have := hmin m' (Nat.zero_le _) hm'
    rwa [pow2_eq] at this
  -- `2^(m-1) ≤ r` for the `m` the repaired code uses
  have hkey : ∀ e, e + 1 ≤ max 1 (ceilLog2 (cs / rs / h)) → (2 : α) ^ e ≤ cs / rs / h := by
    intro e he
    by_cases h0 : e = 0
    · rw [h0, pow_zero]; exact hr1
    · exact le_of_lt (hbelow e (by omega))
  have hle : ∀ e, (2 : α) ^ e ≤ cs / rs / h → h ≤ cs / rs / 2 ^ e := by
    intro e he
    have h2 : (0 : α) < 2 ^ e := by positivity
    rw [le_div_iff₀ h2]
    rw [le_div_iff₀ hh] at he
    linarith [mul_comm h ((2 : α) ^ e)]
  unfold sfcLevelOfFixed
  generalize hm : max 1 (ceilLog2 (cs / rs / h)) = m at hkey
  have hm1 : 1 ≤ m := by rw [← hm]; exact le_max_left _ _
  refine ⟨by omega, ?_⟩
  unfold sfcCell
  rw [pow2_eq]
  by_cases hmL : m ≤ L
  · have e1 : min L m = m := Nat.min_eq_right hmL
    rw [e1]
    have e2 : L - 0 - 1 = (m - 1) + (L - m) := by omega
    rw [e2, pow_add]
    have h3 : (2 : α) ^ (L - m) ≠ 0 := by positivity
    have h4 : (2 : α) ^ (m - 1) ≠ 0 := by positivity
    have : cs / rs / (2 ^ (m - 1) * 2 ^ (L - m)) * 2 ^ (L - m) = cs / rs / 2 ^ (m - 1) := by
      field_simp
    rw [this]
    exact hle _ (hkey (m - 1) (by omega))
  · have e1 : min L m = L := Nat.min_eq_left (by omega)
    rw [e1, Nat.sub_self, pow_zero, mul_one]
    have e2 : L - 0 - 1 = L - 1 := by omega
    rw [e2]
    exact hle _ (hkey (L - 1) (by omega))

/-- **StratifiedSFCNNPS with the cell sizes and the level function of the code** (as repaired):
`current_cells[k] = (cell_size/radius_scale)/2^(num_levels-k-1)` and
`_get_level(h) = L - min(L, max(1, ⌈log2(cs/rs/h)⌉))`, read in exact arithmetic.  The level
hypothesis of the general theorem is discharged by `sfcLevelFixed_ok`: all that is asked of the
particles is `0 < h` and `rs·h ≤ cell_size` (the cell size is `rs·hmax`), whatever `h` is. -/
theorem nbrs_exact_StratifiedSFCNNPS_code (rs cs : α) (L B G : Nat) (o : Pt α)
    (srt : (Nat → Nat) → Nat → List Nat) (hsrt : SortSpec srt) (arrs : List (List (Pt α)))
    (s d i : Nat) (src dst : List (Pt α)) (q : Pt α)
    (hs : arrs[s]? = some src) (hd : arrs[d]? = some dst) (hq : dst[i]? = some q)
    (hL : 1 ≤ L) (hrs : 0 < rs) (hcs : 0 < cs)
    (hpart : ∀ a ∈ arrs, ∀ p ∈ a, 0 < p.h ∧ rs * p.h ≤ cs ∧ p.h ≤ (G : α) * sfcCell rs cs L 0)
    (hfit : ∀ a ∈ arrs, ∀ p ∈ a, cellGuard G (cell3 Int.floor (rs * sfcCell rs cs L 0) o p) = true)
    (hkey : ∀ a ∈ arrs, ∀ p ∈ a, zKey (cell3 Int.floor
      (rs * sfcCell rs cs L 0 * 2 ^ (sfcLevelOfFixed rs cs L p.h)) o p) < 2 ^ B) :
    let cands := sfcCands Int.ceil B L (sfcCell rs cs L)
      (arrs.map (sInOfPtsFixed Int.floor rs cs L o srt B)) (arrs.map (fun a => hAtOf a)) s d i
    (nbrsOf rs src q cands).Perm (bruteForce rs src q) ∧ (nbrsOf rs src q cands).Nodup ∧
      ∀ j ∈ nbrsOf rs src q cands, j < src.length := by
  have hc0 : 0 < sfcCell rs cs L 0 := by
    unfold sfcCell
    rw [pow2_eq]
    exact div_pos (div_pos hcs hrs) (by positivity)
  have hpart' : ∀ a ∈ arrs, ∀ p ∈ a, 0 < p.h ∧ sfcLevelOfFixed rs cs L p.h < L ∧
      p.h ≤ sfcCell rs cs L 0 * 2 ^ (sfcLevelOfFixed rs cs L p.h) ∧
      p.h ≤ (G : α) * sfcCell rs cs L 0 := by
    intro a ha p hp
    obtain ⟨h0, h1, h2⟩ := hpart a ha p hp
    obtain ⟨l1, l2⟩ := sfcLevelFixed_ok rs cs p.h L hL hrs h0 h1
    exact ⟨h0, l1, l2, h2⟩
  exact nbrs_exact_StratifiedSFCNNPS rs (sfcCell rs cs L 0) L B G o (sfcLevelOfFixed rs cs L)
    (fun k => rs * sfcCell rs cs L k) (sfcCell rs cs L)
    (fun k hk => by simp only [sfcCell_eq rs cs L k hk]; ring) (fun k hk => sfcCell_eq rs cs L k hk)
    srt hsrt arrs s d i src dst q hs hd hq hrs hc0 hpart' hfit hkey

end strat

/-! ## non-vacuity / executable examples (over ℚ, core `Rat.floor`) -/

/-- three sources, exact tie excluded: `(3,4,0)` is at distance 5 = `rs·h` -/
example :
    let src : List (Pt Rat) := [⟨0, 0, 0, 5/2⟩, ⟨3, 4, 0, 5/2⟩, ⟨3, 399/100, 0, 5/2⟩]
    bruteForce (2 : Rat) src ⟨0, 0, 0, 5/2⟩ = [0, 2] ∧
    gridNbrs Rat.floor (2 : Rat) 5 ⟨-1/3, -1/3, 0, 0⟩ src ⟨0, 0, 0, 5/2⟩ = [0, 2] := by
  decide +kernel

/-- a two-leaf tree: the far leaf is pruned, the result is still exact -/
example :
    let src : List (Pt Rat) := [⟨0, 0, 0, 1/4⟩, ⟨1/4, 0, 0, 1/4⟩, ⟨4, 4, 4, 1/4⟩]
    let t : Nnps.Tree Rat := Nnps.Tree.node ⟨0, 0, 0, 1/4⟩ 4
      [Nnps.Tree.leaf ⟨0, 0, 0, 1/4⟩ (1/4) [0, 1], Nnps.Tree.leaf ⟨4, 4, 4, 1/4⟩ 0 [2]]
    treeNbrs (2 : Rat) src ⟨0, 0, 0, 1/4⟩ t = [0, 1] ∧
      bruteForce (2 : Rat) src ⟨0, 0, 0, 1/4⟩ = [0, 1] ∧
      pruned (2 : Rat) ⟨0, 0, 0, 1/4⟩ ⟨4, 4, 4, 1/4⟩ 0 = true := by
  decide +kernel

example : cellSize (2 : Rat) (1/1000000) [[1/4, 1/2], [], [1/8]] = 1 ∧
    hminScaled (2 : Rat) [[1/4, 1/2], [], [1/8]] = some 0 := by decide +kernel

example : (LL.build [(0, 3), (1, 5), (2, 3), (3, 3)]).traverse 4 3 = [3, 2, 0] := by
  decide +kernel

example :
    (Cache.get (fun d => [d, d + 1]) (Cache.run (fun d => [d, d + 1]) Cache.reset
      [(1, 2), (0, 0), (1, 1)]) 1).2 = [1, 2] := by decide +kernel

/-- the per-class storage models on one cloud (five sources, the fourth far away, the third in
an adjacent cell but beyond the cut-off): hypotheses of the `nbrs_exact_<Class>` theorems hold,
every class visits the same four candidates and returns the brute-force set -/
example :
    let src : List (Pt Rat) :=
      [⟨0, 0, 0, 1/4⟩, ⟨1/4, 0, 0, 1/4⟩, ⟨3/4, 1/2, 0, 1/4⟩, ⟨2, 2, 0, 1/4⟩, ⟨1/4, 1/4, 0, 1/8⟩]
    let o : Pt Rat := ⟨-1/100, -1/100, 0, 0⟩
    let q : Pt Rat := ⟨1/4, 0, 0, 1/4⟩
    let cellAt := cellAtOf Rat.floor (1/2 : Rat) o src
    let cq := cell3 Rat.floor (1/2 : Rat) o q
    let nc : Nat × Nat × Nat := (5, 5, 1)
    bruteForce (2 : Rat) src q = [0, 1, 4] ∧
    (List.range 5).all (fun j => isValidCell nc (cellAt j)) = true ∧
    llCands nc 25 5 cellAt cq = [4, 1, 0, 2] ∧
    boxCands nc (occupied ((List.range 5).map (fun j => flattenCell nc (cellAt j)))) 5 cellAt cq =
      [4, 1, 0, 2] ∧
    shCands (spatialHash 1) 5 cellAt (hAtOf src) cq = [0, 1, 4, 2] ∧
    shCands (spatialHash 7) 5 cellAt (hAtOf src) cq = [0, 1, 4, 2] ∧
    dictCands (dictBuild (dictItems 0 2 (fun _ => (7, 7, 7)) ++ dictItems 1 5 cellAt)) 1 cq =
      [0, 1, 4, 2] ∧
    (List.range 5).all (fun j => ciFits 3 3 3 j (cellAt j).toNat3) = true ∧
    (neighborBoxesZ cq).all (fun b => ciFits 3 3 3 0 b.toNat3) = true ∧
    ciCands 3 3 3 5 cellAt cq = [0, 1, 4, 2] ∧
    nbrsOf (2 : Rat) src q (ciCands 3 3 3 5 cellAt cq) = [0, 1, 4] := by
  decide +kernel

/-- the sub-grid model (H = 2, sub-cell 1/4, table size 7) on the same cloud: four boxes pass the
per-box cut, the result is the brute-force set -/
example :
    let src : List (Pt Rat) :=
      [⟨0, 0, 0, 1/4⟩, ⟨1/4, 0, 0, 1/4⟩, ⟨3/4, 1/2, 0, 1/4⟩, ⟨2, 2, 0, 1/4⟩, ⟨1/4, 1/4, 0, 1/8⟩]
    let o : Pt Rat := ⟨-1/100, -1/100, 0, 0⟩
    let q : Pt Rat := ⟨1/4, 0, 0, 1/4⟩
    let cands := eshCands Rat.ceil (spatialHash 7) 2 (2 : Rat) (1/4) 5
      (cellAtOf Rat.floor (1/4 : Rat) o src) (hAtOf src) q.h (cell3 Rat.floor (1/4 : Rat) o q)
    cands = [0, 1, 4, 2] ∧ nbrsOf (2 : Rat) src q cands = [0, 1, 4] := by
  decide +kernel

/-- packed keys: `I = 3, J = 3, K = 3`, particle 5 in cell (2, 7, 1) -/
example : ciKey 3 3 3 5 (2, 7, 1) = 5 + 8 * 2 + 64 * 7 + 512 * 1 ∧
    ciFits 3 3 3 5 (2, 7, 1) = true ∧ ciId 3 (ciKey 3 3 3 5 (2, 7, 1)) = 5 ∧
    ciCell 3 3 3 (ciKey 3 3 3 5 (2, 7, 1)) = (2, 7, 1) ∧
    ciFits 3 3 3 5 (8, 7, 1) = false := by decide +kernel

/-- the executable invariant check accepts the two-leaf tree above and rejects it when the first
leaf's cube is too short for particle 1 -/
example :
    let src : List (Pt Rat) := [⟨0, 0, 0, 1/4⟩, ⟨1/4, 0, 0, 1/4⟩, ⟨4, 4, 4, 1/4⟩]
    Nnps.Tree.invB src (Nnps.Tree.node ⟨0, 0, 0, 1/4⟩ 4
      [Nnps.Tree.leaf ⟨0, 0, 0, 1/4⟩ (1/4) [0, 1], Nnps.Tree.leaf ⟨4, 4, 4, 1/4⟩ 0 [2]]) = true ∧
    Nnps.Tree.invB src (Nnps.Tree.node ⟨0, 0, 0, 1/4⟩ 4
      [Nnps.Tree.leaf ⟨0, 0, 0, 1/4⟩ (1/8) [0, 1], Nnps.Tree.leaf ⟨4, 4, 4, 1/4⟩ 0 [2]]) = false := by
  decide +kernel

/-- **The level hypothesis of `nbrs_exact_StratifiedSFCNNPS` is not implied by `_get_level`.**
`_get_level` adds the absolute `EPS = 1e-13` to the cell size before taking `log2`: a particle
whose cut-off `rs·h` exceeds a level's cell size `s` by a relative amount below `EPS/cell_size` is
still put at that level.  With `cell_size = 1/512`, two levels: the source particle 2 has
`rs·h = (1/1024)(1 + 2e-11)`, is stored at level 0 (cell size `1/1024`), lies two cells away from
the destination particle 1 at distance `(1/1024)(1 + 1e-11) < rs·h` — a true neighbour by a
relative margin of 1e-11, far outside the rounding band 2^-40 ≈ 9e-13 — and the model of the
code does not return it.  (Reproduced on the compiled class: see the C01 report, key
`C01:StratifiedSFCNNPS:level-eps-sliver`.) -/
theorem sfc_level_eps_sliver :
    let rs : Rat := 2
    let cs : Rat := 1/512
    let eps : Rat := 1/10000000000000
    let hj : Rat := (1/2048) * (1 + 1/50000000000)
    let xq : Rat := 10/1024 - 1/1000000000000000
    let src : List (Pt Rat) :=
      [⟨0, 0, 0, 1/1024⟩, ⟨xq, 0, 0, 3/20480⟩, ⟨xq + (1/1024) * (1 + 1/100000000000), 0, 0, hj⟩]
    let o : Pt Rat := ⟨0, 0, 0, 0⟩
    let ins := [src].map (sInOfPts Rat.floor rs cs eps 2 o sortPids 64)
    -- level 0, although the cut-off exceeds the level's cell size
    sfcLevelOf rs cs eps 2 hj = 0 ∧ rs * sfcCell rs cs 2 0 < rs * hj ∧
    src.map (fun p => sfcLevelOf rs cs eps 2 p.h) = [1, 0, 0] ∧
    -- the neighbour is missed
    bruteForce rs src ⟨xq, 0, 0, 3/20480⟩ = [1, 2] ∧
    nbrsOf rs src ⟨xq, 0, 0, 3/20480⟩
      (sfcCands Rat.ceil 64 2 (sfcCell rs cs 2) ins [hAtOf src] 0 0 1) = [1] := by
  decide +kernel

/-! ### z-order family and stratified classes: non-vacuity / executable examples -/

/-- three arrays on the cloud of the storage examples: the second array is sparse (its particle 0
lies in a cell the first array does not occupy, its particle 1 shares a cell with particle 3 of the
first), the third is empty.  The hypotheses of `nbrs_exact_ZOrderNNPS` hold (`cellGuard 1`, keys
below `max_key`), the shared cell ids are `0,0,1,2,0 / 3,2 / -`, the row of cell id 3 (a cell only
array 1 occupies) in array 0's `nbr_boxes` is filled by the second pass with the start index 3 of
the neighbouring run, and the (src, dst) pairs give the brute-force sets. -/
example :
    let a0 : List (Pt Rat) :=
      [⟨0, 0, 0, 1/4⟩, ⟨1/4, 0, 0, 1/4⟩, ⟨3/4, 1/2, 0, 1/4⟩, ⟨2, 2, 0, 1/4⟩, ⟨1/4, 1/4, 0, 1/8⟩]
    let a1 : List (Pt Rat) := [⟨1, 3/4, 0, 1/4⟩, ⟨9/4, 2, 0, 1/8⟩]
    let arrs := [a0, a1, []]
    let o : Pt Rat := ⟨-1/100, -1/100, 0, 0⟩
    let ins := arrs.map (zInOfPts Rat.floor (1/2 : Rat) o sortPids)
    let zs := (zBuild ins).1
    let z0 : ZArr := zs.getD 0 ⟨0, fun _ => (0,0,0), [], [], []⟩
    (arrs.all (fun a => a.all (fun p => cellGuard 1 (cell3 Rat.floor (1/2) o p) &&
      decide (zKey (cell3 Rat.floor (1/2) o p) < 1000)))) = true ∧
    zs.map (fun a => (List.range a.n).map a.cids) = [[0, 0, 1, 2, 0], [3, 2], []] ∧
    (zBuild ins).2 = 4 ∧ zs.map (fun a => a.pids) = [[0, 1, 4, 2, 3], [0, 1], []] ∧
    ((zRows 27 zs 0 z0 (fun c _ => zNbrIdx 1000 (maskZ 1) z0 c) 3).take 3 = [3, -1, -1]) ∧
    ((zRows 27 zs 0 z0 (fun c _ => zNbrIdx 1000 (maskZ 1) z0 c) 0).take 3 = [0, 3, -1]) ∧
    zOrderCands 1000 ins 0 1 0 = [2] ∧
    nbrsOf (2 : Rat) a0 ⟨1, 3/4, 0, 1/4⟩ (zOrderCands 1000 ins 0 1 0) = [2] ∧
    bruteForce (2 : Rat) a0 ⟨1, 3/4, 0, 1/4⟩ = [2] ∧
    nbrsOf (2 : Rat) a1 ⟨2, 2, 0, 1/4⟩ (zOrderCands 1000 ins 1 0 3) = [1] ∧
    bruteForce (2 : Rat) a1 ⟨2, 2, 0, 1/4⟩ = [1] ∧
    zOrderCands 1000 ins 2 0 3 = [] := by
  decide +kernel

/-- ExtendedZOrderNNPS on the same arrays, `H = 2` (sub-cells 1/4), asymmetric and symmetric
mode: guard and key range hold, exact results for a destination of the same and of another array -/
example :
    let a0 : List (Pt Rat) :=
      [⟨0, 0, 0, 1/4⟩, ⟨1/4, 0, 0, 1/4⟩, ⟨3/4, 1/2, 0, 1/4⟩, ⟨2, 2, 0, 1/4⟩, ⟨1/4, 1/4, 0, 1/8⟩]
    let a1 : List (Pt Rat) := [⟨1, 3/4, 0, 1/4⟩, ⟨9/4, 2, 0, 1/8⟩]
    let arrs := [a0, a1, []]
    let o : Pt Rat := ⟨-1/100, -1/100, 0, 0⟩
    let ins := arrs.map (zInOfPts Rat.floor (1/4 : Rat) o sortPids)
    let hs := arrs.map (fun a => hAtOf a)
    let q : Pt Rat := ⟨1/4, 1/4, 0, 1/8⟩
    (arrs.all (fun a => a.all (fun p => cellGuard 2 (cell3 Rat.floor (1/4) o p) &&
      decide (zKey (cell3 Rat.floor (1/4) o p) < 10000)))) = true ∧
    extZOrderAsymCands 10000 2 ins 0 0 4 = [0, 1, 4, 2] ∧
    extZOrderSymCands Rat.ceil 10000 2 (2 : Rat) (1/4) ins hs 0 0 4 = [0, 1, 4, 2] ∧
    nbrsOf (2 : Rat) a0 q (extZOrderAsymCands 10000 2 ins 0 0 4) = [0, 1, 4] ∧
    nbrsOf (2 : Rat) a0 q (extZOrderSymCands Rat.ceil 10000 2 (2 : Rat) (1/4) ins hs 0 0 4) = [0, 1, 4] ∧
    bruteForce (2 : Rat) a0 q = [0, 1, 4] ∧
    extZOrderAsymCands 10000 2 ins 0 1 0 = [2] ∧
    extZOrderSymCands Rat.ceil 10000 2 (2 : Rat) (1/4) ins hs 0 1 0 = [2] := by
  decide +kernel

/-- StratifiedHashNNPS with two levels (`hmin = 1/4`, `cs = 1/2`, `EPS = 1e-6`): the particle with
`h = 1/8` is stored at level 0, the others at level 1; a query with `h = 1/4` uses mask half-width
2 at level 0 and 1 at level 1; exact result -/
example :
    let src : List (Pt Rat) :=
      [⟨0, 0, 0, 1/4⟩, ⟨1/4, 0, 0, 1/4⟩, ⟨3/4, 1/2, 0, 1/4⟩, ⟨2, 2, 0, 1/4⟩, ⟨1/4, 1/4, 0, 1/8⟩]
    let o : Pt Rat := ⟨-1/100, -1/100, 0, 0⟩
    let q : Pt Rat := ⟨1/4, 1/4, 0, 1/8⟩
    let ivl := stratInterval (1/2 : Rat) (1/4) (1/1000000) 2
    src.map (fun p => stratLevel Rat.floor (2 : Rat) (1/4) ivl p.h) = [1, 1, 1, 1, 0] ∧
    stratHq Rat.ceil (2 : Rat) (1/4) ivl 1 q.h 0 = 1 ∧ stratHq Rat.ceil (2 : Rat) (1/4) ivl 1 (1/4) 0 = 2 ∧
    stratHq Rat.ceil (2 : Rat) (1/4) ivl 1 q.h 1 = 1 ∧
    stratHashCands Rat.floor Rat.ceil (spatialHash 7) (2 : Rat) (1/2) (1/4) (1/1000000) 2 1 o src q =
      [4, 0, 1, 2] ∧
    nbrsOf (2 : Rat) src q (stratHashCands Rat.floor Rat.ceil (spatialHash 7) (2 : Rat) (1/2) (1/4)
      (1/1000000) 2 1 o src q) = [4, 0, 1] ∧
    bruteForce (2 : Rat) src q = [0, 1, 4] := by
  decide +kernel

/-- StratifiedSFCNNPS with two levels on two arrays: levels `1,1,1,1,0 / 1,0`,
`current_cells = 1/8, 1/4`; the query of array 1's particle 0 (whose finest-level cell holds no
particle of array 0) finds its segment because the other arrays' particles are representatives too -/
example :
    let a0 : List (Pt Rat) :=
      [⟨0, 0, 0, 1/4⟩, ⟨1/4, 0, 0, 1/4⟩, ⟨3/4, 1/2, 0, 1/4⟩, ⟨2, 2, 0, 1/4⟩, ⟨1/4, 1/4, 0, 1/16⟩]
    let a1 : List (Pt Rat) := [⟨1, 3/4, 0, 1/4⟩, ⟨9/4, 2, 0, 1/16⟩]
    let arrs := [a0, a1]
    let o : Pt Rat := ⟨-1/100, -1/100, 0, 0⟩
    let ins := arrs.map (sInOfPtsFixed Rat.floor (2 : Rat) (1/2) 2 o sortPids 64)
    let hs := arrs.map (fun a => hAtOf a)
    arrs.map (fun a => a.map (fun p => sfcLevelOfFixed (2 : Rat) (1/2) 2 p.h)) = [[1, 1, 1, 1, 0], [1, 0]] ∧
    [sfcCell (2 : Rat) (1/2) 2 0, sfcCell (2 : Rat) (1/2) 2 1] = [1/8, 1/4] ∧
    sfcCands Rat.ceil 64 2 (sfcCell (2 : Rat) (1/2) 2) ins hs 0 1 0 = [2] ∧
    sfcCands Rat.ceil 64 2 (sfcCell (2 : Rat) (1/2) 2) ins hs 0 0 4 = [4, 0, 1, 2] ∧
    nbrsOf (2 : Rat) a0 ⟨1/4, 1/4, 0, 1/16⟩ (sfcCands Rat.ceil 64 2 (sfcCell (2 : Rat) (1/2) 2) ins hs 0 0 4)
      = [4, 0, 1] ∧
    sfcCands Rat.ceil 64 2 (sfcCell (2 : Rat) (1/2) 2) ins hs 1 0 3 = [1] := by
  decide +kernel

end PysphVerif.C01
