import PysphVerif.Lemmas.InletOutlet
import PysphVerif.Lemmas.InletOutletMirror
import Mathlib.Tactic.Ring
import Mathlib.Tactic.Linarith
import Mathlib.Algebra.Order.Field.Basic
/-!
# C16 — inlets and outlets move each particle across exactly once

Property theorems about `Model/InletOutlet.lean`, for every state, every zone
(any refpoint, normal, length, tolerance), every number type carrying the
operations the code uses, every `props_to_copy` mask and default values.
Lists are particle arrays; `l₁.Perm l₂` ("the same particles up to slot
order") is how "exactly once / nothing created, duplicated or lost" is said.
-/
set_option linter.unusedSectionVars false
set_option linter.unusedSimpArgs false

namespace PysphVerif.Props.C16
open PysphVerif.InletOutlet List

variable {α : Type} [Add α] [Sub α] [Mul α] [Neg α] [LT α] [DecidableLT α]
  [OfNat α 1] [OfNat α 2]

/-- the inlet / fluid / outlet array as `IOEvaluate` leaves it (only the working
properties `disp`, `ioid` change) -/
def inletEval (zn : Zone α) (s : State α) : List (Particle α) := s.inlet.map (evalOne zn zn.len)
def fluidEval (zn : Zone α) (s : State α) : List (Particle α) := s.fluid.map (evalOne zn zn.big)
def outletEval (zn : Zone α) (s : State α) : List (Particle α) := s.outlet.map (evalOne zn zn.len)

/-- the inlet particles that left the inlet zone on the fluid side: in the
real-particle view, zone id 0 -/
def crossing (zn : Zone α) (s : State α) : List (Particle α) :=
  (realView (inletEval zn s)).filter (ioidIs 0)

/-- the fluid particles beyond the outlet plane: real-particle view, zone id 1 -/
def leaving (zn : Zone α) (s : State α) : List (Particle α) :=
  (realView (fluidEval zn s)).filter (ioidIs 1)

/-- recycling of one inlet particle -/
def recycle (zn : Zone α) (p : Particle α) : Particle α := if ioidIs 0 p then shiftUp zn p else p

/-! ## inlet (base `InletBase.update`; hybrid `Inlet.update` shares the body) -/

theorem inletBody_spec (zn : Zone α) (dF : Particle α) (s s' : State α)
    (h : inletBody zn dF s = some s') :
    s'.fluid = extractInto Mask.all dF (inletEval zn s)
        (whereFrom (ioidIs 0) 0 (realView (inletEval zn s))) (fluidEval zn s) ∧
    s'.inlet = (realView (inletEval zn s)).map (recycle zn)
        ++ (inletEval zn s).drop (nReal (inletEval zn s)) ∧
    s'.outlet = s.outlet ∧ s'.ghostOut = s.ghostOut ∧
    s'.urefIn = s.urefIn ∧ s'.urefFluid = s.urefFluid ∧
    (match s.ghostIn with
     | none => s'.ghostIn = none
     | some g => ∃ g2, modifyAt (shiftDown zn)
         (whereFrom (ioidIs 0) 0 (realView (inletEval zn s))) g = some g2 ∧
         s'.ghostIn = some g2) := by
  unfold inletBody at h
  simp only [modifyAt_self] at h
  cases hg : s.ghostIn with
  | none =>
    rw [hg] at h; simp only at h; cases h
    exact ⟨rfl, rfl, rfl, rfl, rfl, rfl, rfl⟩
  | some g =>
    rw [hg] at h; simp only at h
    split at h
    · cases h
    · rename_i g2 hg2
      cases h
      exact ⟨rfl, rfl, rfl, rfl, rfl, rfl, g2, hg2, rfl⟩

/-- **A particle leaving the inlet zone appears exactly once in the fluid with
its properties copied**: after the update the fluid array is, up to slot
order, the old fluid array plus one whole-record copy of every crossing inlet
particle — nothing else is created, duplicated or lost. -/
theorem inlet_copy_exactly_once_per_crossing (zn : Zone α) (dF : Particle α) (s s' : State α)
    (h : inletBody zn dF s = some s') :
    s'.fluid.Perm (fluidEval zn s ++ crossing zn s) := by
  rw [(inletBody_spec zn dF s s' h).1]
  have := extractInto_perm Mask.all dF (ioidIs 0) (inletEval zn s) (fluidEval zn s)
  have e : copyInto Mask.all dF = id := funext (fun p => copyInto_all dF p)
  rw [e, List.map_id] at this
  exact this

/-- **… while its inlet original is recycled one zone length upstream**: the
inlet array keeps every slot; exactly the crossing particles are translated by
`+length·normal`, everything else (other particles, other properties) stays. -/
theorem inlet_recycled_one_length (zn : Zone α) (dF : Particle α) (s s' : State α)
    (h : inletBody zn dF s = some s') :
    s'.inlet = (realView (inletEval zn s)).map (recycle zn)
        ++ (inletEval zn s).drop (nReal (inletEval zn s)) :=
  (inletBody_spec zn dF s s' h).2.1

/-- the inlet never gains or loses a particle -/
theorem inlet_count_constant (zn : Zone α) (dF : Particle α) (s s' : State α)
    (h : inletBody zn dF s = some s') : s'.inlet.length = s.inlet.length := by
  rw [inlet_recycled_one_length zn dF s s' h, List.length_append, List.length_map,
    realView_length, List.length_drop]
  have := nReal_le_length (inletEval zn s)
  simp only [inletEval, List.length_map] at this ⊢
  omega

/-- the ghost of the inlet is shifted by `-length·normal` in exactly the slots
whose inlet particle was recycled (needs the ghost array to cover the view) -/
theorem inlet_ghost_recycled (zn : Zone α) (dF : Particle α) (s s' : State α)
    (g : List (Particle α)) (hg : s.ghostIn = some g) (hlen : s.inlet.length ≤ g.length)
    (h : inletBody zn dF s = some s') :
    s'.ghostIn = some (List.zipWith (fun p q => if ioidIs 0 p then shiftDown zn q else q)
        (realView (inletEval zn s)) (g.take (nReal (inletEval zn s)))
        ++ g.drop (nReal (inletEval zn s))) := by
  have hs := (inletBody_spec zn dF s s' h).2.2.2.2.2.2
  rw [hg] at hs
  obtain ⟨g2, hg2, hs'⟩ := hs
  rw [hs']
  have hn : nReal (inletEval zn s) ≤ g.length := by
    have h1 := nReal_le_length (inletEval zn s)
    have h2 : (inletEval zn s).length = s.inlet.length := by simp [inletEval]
    omega
  rw [modifyAt_other (ioidIs 0) (shiftDown zn) (inletEval zn s) g g2 hn hg2]

/-- the inlet update does not touch the outlet side -/
theorem inlet_nothing_else_changes (zn : Zone α) (dF : Particle α) (s s' : State α)
    (h : inletBody zn dF s = some s') :
    s'.outlet = s.outlet ∧ s'.ghostOut = s.ghostOut ∧ s'.urefIn = s.urefIn ∧
    s'.urefFluid = s.urefFluid :=
  let t := inletBody_spec zn dF s s' h
  ⟨t.2.2.1, t.2.2.2.1, t.2.2.2.2.1, t.2.2.2.2.2.1⟩

/-- without a ghost array the inlet update never raises; with one it raises
only if a selected index lies beyond the ghost's real-particle view -/
theorem inlet_no_ghost_succeeds (zn : Zone α) (dF : Particle α) (s : State α)
    (hg : s.ghostIn = none) : ∃ s', inletBody zn dF s = some s' := by
  unfold inletBody
  simp only [modifyAt_self, hg]
  exact ⟨_, rfl⟩

/-- an update at an inactive stage changes nothing -/
theorem inactive_stage_is_identity (zn : Zone α) (m : Mask) (dF dO dG : Particle α) (s : State α) :
    inletUpdate zn dF false s = some s ∧ outletUpdate zn m dO false s = some s ∧
    mirrorOutletUpdate zn m dO dG false s = some s := ⟨rfl, rfl, rfl⟩

/-- hybrid `Inlet.update`: the same bookkeeping on the same arrays; only the
fluid's `uref` constant is averaged first -/
theorem hybrid_inlet_same_bookkeeping (half : α) (zn : Zone α) (dF : Particle α) (s s' : State α)
    (h : hybridInletUpdate half zn dF true s = some s') :
    s'.fluid.Perm (fluidEval zn s ++ crossing zn s) ∧
    s'.inlet = (realView (inletEval zn s)).map (recycle zn)
        ++ (inletEval zn s).drop (nReal (inletEval zn s)) ∧
    s'.outlet = s.outlet ∧ s'.urefFluid = half * (s.urefIn + s.urefFluid) := by
  unfold hybridInletUpdate at h
  simp only [if_true] at h
  have h1 := inlet_copy_exactly_once_per_crossing zn dF _ s' h
  have h2 := inlet_recycled_one_length zn dF _ s' h
  have h3 := inlet_nothing_else_changes zn dF _ s' h
  exact ⟨h1, h2, h3.1, h3.2.2.2⟩

/-! ## outlet (base `OutletBase.update`) -/

/-- the outlet array after the arrivals, before the far-end deletion -/
def outletMid (zn : Zone α) (m : Mask) (dO : Particle α) (s : State α) : List (Particle α) :=
  extractInto m dO (fluidEval zn s) (whereFrom (ioidIs 1) 0 (realView (fluidEval zn s)))
    (outletEval zn s)

/-- the outlet particles deleted at the far end: real-particle view, zone id 2 -/
def deleted (zn : Zone α) (m : Mask) (dO : Particle α) (s : State α) : List (Particle α) :=
  (realView (outletMid zn m dO s)).filter (ioidIs 2)

theorem outletBody_spec (zn : Zone α) (m : Mask) (dO : Particle α) (s s' : State α)
    (h : outletBody zn m dO s = some s') :
    removeParticles (whereFrom (ioidIs 1) 0 (realView (fluidEval zn s))) (fluidEval zn s)
      = some s'.fluid ∧
    removeParticles (whereFrom (ioidIs 2) 0 (realView (outletMid zn m dO s))) (outletMid zn m dO s)
      = some s'.outlet ∧
    s'.inlet = s.inlet ∧ s'.ghostIn = s.ghostIn ∧ s'.ghostOut = s.ghostOut ∧
    s'.urefIn = s.urefIn ∧ s'.urefFluid = s.urefFluid := by
  unfold outletBody at h
  simp only at h
  split at h
  · cases h
  · rename_i fluid2 hf
    split at h
    · cases h
    · rename_i outlet3 ho
      cases h
      exact ⟨hf, ho, rfl, rfl, rfl, rfl, rfl⟩

/-- **A fluid particle crossing the outlet plane moves exactly once to the
outlet array** (fluid side): the old fluid array is, up to order, the new
fluid array plus the leaving particles — they are gone from the fluid, nothing
else is. -/
theorem outlet_move_exactly_once_fluid (zn : Zone α) (m : Mask) (dO : Particle α) (s s' : State α)
    (h : outletBody zn m dO s = some s') :
    (s'.fluid ++ leaving zn s).Perm (fluidEval zn s) :=
  removeParticles_perm (ioidIs 1) _ _ (outletBody_spec zn m dO s s' h).1

/-- (outlet side) the outlet array after the update plus what was deleted at
its far end is, up to order, the old outlet array plus exactly one copy
(`props_to_copy` from the particle, the rest the outlet's defaults) of every
leaving fluid particle. -/
theorem outlet_move_exactly_once (zn : Zone α) (m : Mask) (dO : Particle α) (s s' : State α)
    (h : outletBody zn m dO s = some s') :
    (s'.outlet ++ deleted zn m dO s).Perm
      (outletEval zn s ++ (leaving zn s).map (copyInto m dO)) :=
  (removeParticles_perm (ioidIs 2) _ _ (outletBody_spec zn m dO s s' h).2.1).trans
    (extractInto_perm m dO (ioidIs 1) (fluidEval zn s) (outletEval zn s))

/-- **A particle leaving the far end of the outlet zone is deleted**: every
deleted particle was in the outlet's real-particle view with zone id 2, and no
such particle survives in the view's image: the survivors and the deleted
partition the outlet array. -/
theorem outlet_delete_far (zn : Zone α) (m : Mask) (dO : Particle α) (s s' : State α)
    (h : outletBody zn m dO s = some s') :
    (∀ p ∈ deleted zn m dO s, p ∈ realView (outletMid zn m dO s) ∧ p.ioid = 2) ∧
    (s'.outlet ++ deleted zn m dO s).Perm (outletMid zn m dO s) := by
  refine ⟨?_, removeParticles_perm (ioidIs 2) _ _ (outletBody_spec zn m dO s s' h).2.1⟩
  intro p hp
  have := List.mem_filter.mp hp
  exact ⟨this.1, by simpa [ioidIs] using this.2⟩

/-- the outlet update does not touch the inlet side -/
theorem outlet_nothing_else_changes (zn : Zone α) (m : Mask) (dO : Particle α) (s s' : State α)
    (h : outletBody zn m dO s = some s') :
    s'.inlet = s.inlet ∧ s'.ghostIn = s.ghostIn ∧ s'.ghostOut = s.ghostOut ∧
    s'.urefIn = s.urefIn ∧ s'.urefFluid = s.urefFluid :=
  (outletBody_spec zn m dO s s' h).2.2

/-- the base outlet update never raises -/
theorem outlet_succeeds (zn : Zone α) (m : Mask) (dO : Particle α) (s : State α) :
    ∃ s', outletBody zn m dO s = some s' := by
  unfold outletBody
  obtain ⟨f2, hf⟩ := removeParticles_isSome (ioidIs 1) (s.fluid.map (evalOne zn zn.big))
  simp only [hf]
  obtain ⟨o3, ho⟩ := removeParticles_isSome (ioidIs 2)
    (extractInto m dO (s.fluid.map (evalOne zn zn.big))
      (whereFrom (ioidIs 1) 0 (realView (s.fluid.map (evalOne zn zn.big))))
      (s.outlet.map (evalOne zn zn.len)))
  simp only [ho]
  exact ⟨_, rfl⟩

/-- sharp form of **deleted at the far end**: when the outlet array is aligned
on entry (its real-particle view is its Local particles) and no arriving copy
carries zone id 2, the deleted particles are exactly the old Local outlet
particles beyond the far end — the arrivals of this very call are never
deleted, and no other outlet particle is. -/
theorem outlet_deletes_exactly_far_local (zn : Zone α) (m : Mask) (dO : Particle α) (s : State α)
    (hal : (realView (outletEval zn s)).Perm ((outletEval zn s).filter isLocal))
    (hnew : ∀ p ∈ leaving zn s, ioidIs 2 (copyInto m dO p) = false) :
    (deleted zn m dO s).Perm
      ((outletEval zn s).filter (fun p => ioidIs 2 p && isLocal p)) := by
  unfold deleted outletMid extractInto
  split
  · have := List.Perm.filter (ioidIs 2) hal
    rw [List.filter_filter] at this
    exact this
  · rw [gather_where_realView]
    have h1 := List.Perm.filter (ioidIs 2)
      (realView_align_perm (outletEval zn s ++
        ((realView (fluidEval zn s)).filter (ioidIs 1)).map (copyInto m dO)))
    rw [List.filter_filter, List.filter_append] at h1
    have h2 : (((realView (fluidEval zn s)).filter (ioidIs 1)).map (copyInto m dO)).filter
        (fun p => ioidIs 2 p && isLocal p) = [] := by
      apply List.filter_eq_nil_iff.mpr
      intro q hq
      obtain ⟨p, hp, rfl⟩ := List.mem_map.mp hq
      simp [hnew p hp]
    rw [h2, List.append_nil] at h1
    exact h1

/-- with `ioid` among `props_to_copy` the arrivals carry zone id 1, so the
side condition of `outlet_deletes_exactly_far_local` holds -/
theorem arrivals_not_far_when_ioid_copied (zn : Zone α) (m : Mask) (dO : Particle α) (s : State α)
    (hm : m.ioid = true) : ∀ p ∈ leaving zn s, ioidIs 2 (copyInto m dO p) = false := by
  intro p hp
  have h1 : p.ioid = 1 := by
    have := (List.mem_filter.mp hp).2
    simpa [ioidIs] using this
  simp [ioidIs, copyInto, hm, h1]

/-! ## mirror `Outlet.update` -/

/-- what the mirror outlet appends to the outlet array -/
def mirrorArrivals (zn : Zone α) (m : Mask) (dO : Particle α) (s : State α) : List (Particle α) :=
  if (whereFrom (ioidIs 1) 0 (realView (fluidEval zn s))).length = 0 then []
  else realView (align ((gather (whereFrom (ioidIs 1) 0 (realView (fluidEval zn s)))
      (fluidEval zn s)).map (copyInto m { dO with tag := 0 })))

def mirrorMid (zn : Zone α) (m : Mask) (dO : Particle α) (s : State α) : List (Particle α) :=
  addParticles (mirrorArrivals zn m dO s) (outletEval zn s)

def mirrorDeleted (zn : Zone α) (m : Mask) (dO : Particle α) (s : State α) : List (Particle α) :=
  (realView (mirrorMid zn m dO s)).filter (ioidIs 2)

theorem mirrorOutletBody_spec (zn : Zone α) (m : Mask) (dO dG : Particle α) (s s' : State α)
    (h : mirrorOutletBody zn m dO dG s = some s') :
    removeParticles (whereFrom (ioidIs 1) 0 (realView (fluidEval zn s))) (fluidEval zn s)
      = some s'.fluid ∧
    removeParticles (whereFrom (ioidIs 2) 0 (realView (mirrorMid zn m dO s))) (mirrorMid zn m dO s)
      = some s'.outlet ∧
    s'.inlet = s.inlet ∧ s'.ghostIn = s.ghostIn ∧
    s'.urefIn = s.urefIn ∧ s'.urefFluid = s.urefFluid := by
  unfold mirrorOutletBody at h
  simp only at h
  split at h
  · cases h
  · split at h
    · cases h
    · rename_i fluid2 hf
      split at h
      · cases h
      · rename_i outlet3 ho
        split at h
        · cases h; exact ⟨hf, ho, rfl, rfl, rfl, rfl⟩
        · split at h
          · cases h
          · cases h; exact ⟨hf, ho, rfl, rfl, rfl, rfl⟩

/-- mirror family, fluid side: the leaving particles are gone from the fluid,
nothing else is -/
theorem mirror_outlet_move_exactly_once_fluid (zn : Zone α) (m : Mask) (dO dG : Particle α)
    (s s' : State α) (h : mirrorOutletBody zn m dO dG s = some s') :
    (s'.fluid ++ leaving zn s).Perm (fluidEval zn s) :=
  removeParticles_perm (ioidIs 1) _ _ (mirrorOutletBody_spec zn m dO dG s s' h).1

theorem addParticles_perm (given l : List (Particle α)) :
    (addParticles given l).Perm (l ++ given) := by
  unfold addParticles
  split
  · exact align_perm _
  · exact List.Perm.refl _

theorem copyInto_tag0_local (m : Mask) (dO p : Particle α) (hp : isLocal p = true) :
    isLocal (copyInto m { dO with tag := 0 } p) = true := by
  unfold isLocal at hp ⊢
  unfold copyInto
  cases hm : m.tag <;> simp [hm] at * <;> exact hp

/-- mirror family, outlet side: provided the leaving particles are Local (they
are whenever the fluid array is aligned), the outlet gains exactly one copy of
each and loses exactly what is deleted at the far end. -/
theorem mirror_outlet_move_exactly_once (zn : Zone α) (m : Mask) (dO dG : Particle α)
    (s s' : State α) (h : mirrorOutletBody zn m dO dG s = some s')
    (hloc : ∀ p ∈ leaving zn s, isLocal p = true) :
    (s'.outlet ++ mirrorDeleted zn m dO s).Perm
      (outletEval zn s ++ (leaving zn s).map (copyInto m { dO with tag := 0 })) := by
  have h1 := removeParticles_perm (ioidIs 2) _ _ (mirrorOutletBody_spec zn m dO dG s s' h).2.1
  refine h1.trans ((addParticles_perm _ _).trans (List.Perm.append_left _ ?_))
  unfold mirrorArrivals
  rw [gather_where_realView]
  split
  · rename_i h0
    have : (realView (fluidEval zn s)).filter (ioidIs 1) = [] := by
      rw [whereFrom_length] at h0
      exact List.eq_nil_of_length_eq_zero h0
    simp [leaving, this]
  · -- every arrival is Local, so the real view of the aligned temporary array is all of it
    have hall : ∀ q ∈ (leaving zn s).map (copyInto m { dO with tag := 0 }), isLocal q = true := by
      intro q hq
      obtain ⟨p, hp, rfl⟩ := List.mem_map.mp hq
      exact copyInto_tag0_local m dO p (hloc p hp)
    have := realView_align_perm ((leaving zn s).map (copyInto m { dO with tag := 0 }))
    rw [List.filter_eq_self.mpr hall] at this
    exact this

/-! ### the ghost of the mirror outlet stays index-aligned -/

/-- the outlet's ghost array after the reflected arrivals were appended, before
the far-end deletion (`ghost_pa.add_particles(**pa_add.get_property_arrays())`
under `if len(all_idx) > 0`) -/
def mirrorGhostMid (zn : Zone α) (m : Mask) (dG : Particle α) (s : State α)
    (g : List (Particle α)) : List (Particle α) :=
  if (whereFrom (ioidIs 1) 0 (realView (fluidEval zn s))).length > 0 then
    addParticles (realView (align ((gather (whereFrom (ioidIs 1) 0 (realView (fluidEval zn s)))
      (fluidEval zn s)).map (fun p => copyInto m { dG with tag := 0 } (reflect zn p))))) g
  else g

/-- with a ghost array a successful mirror update leaves a ghost array: the one
after the arrivals with the SAME index list removed that was removed from the
outlet array -/
theorem mirrorOutletBody_ghost_spec (zn : Zone α) (m : Mask) (dO dG : Particle α) (s s' : State α)
    (g : List (Particle α)) (hg : s.ghostOut = some g)
    (h : mirrorOutletBody zn m dO dG s = some s') :
    ∃ g', s'.ghostOut = some g' ∧
      removeParticles (whereFrom (ioidIs 2) 0 (realView (mirrorMid zn m dO s)))
        (mirrorGhostMid zn m dG s g) = some g' := by
  unfold mirrorOutletBody at h
  simp only [hg] at h
  split at h
  · cases h
  · rename_i gh2 hgh
    split at h
    · cases h
    · split at h
      · cases h
      · split at h
        · -- gh2 = none is impossible with a ghost array
          exfalso
          split at hgh
          · split at hgh <;> cases hgh
          · cases hgh
        · rename_i g2
          have hg2 : g2 = mirrorGhostMid zn m dG s g := by
            unfold mirrorGhostMid fluidEval
            split at hgh
            · rename_i hpos
              rw [if_pos hpos]
              split at hgh
              · simp only [Option.some.injEq] at hgh
                exact hgh.symm
              · cases hgh
            · rename_i hpos
              rw [if_neg hpos]
              simp only [Option.some.injEq] at hgh
              exact hgh.symm
          split at h
          · cases h
          · rename_i g3 hg3
            cases h
            refine ⟨g3, rfl, ?_⟩
            rw [← hg2]
            exact hg3

/-- **The mirror family's ghost array stays index-aligned with the outlet
array** (same length, slot `k` of the ghost carries the label of slot `k` of the
outlet) through `mirrorOutletBody`, given it is aligned on entry, every particle
of fluid, outlet and ghost is Local and `lbl` is among `props_to_copy`.
Why: both arrays get the arrivals appended in the same order (the reflection
keeps the label), then `remove_particles` is called with one index list on
both, and the swap-remove performs a slot permutation that depends on the index
list and the array length only (`removeRows_map`, `removeRows_zip`); with all
particles Local `align_particles` makes no move.
Relative to the earlier unproved `def` of the same name the hypotheses
`m.x = m.y = m.z = m.u = true` and `g.length = s.outlet.length` are dropped (not
needed: if `x y z u` are not all copied and a particle arrives, the update
raises, contradicting `h`; equal length follows from equal labels), and the
conclusion also states the equal length. -/
theorem mirror_ghost_stays_aligned (zn : Zone α) (m : Mask) (dO dG : Particle α) (s s' : State α)
    (g g' : List (Particle α))
    (hg : s.ghostOut = some g)
    (hloc : ∀ p ∈ s.fluid ++ s.outlet ++ g, isLocal p = true)
    (hl : m.lbl = true)
    (hal : List.map (·.lbl) g = List.map (·.lbl) s.outlet)
    (h : mirrorOutletBody zn m dO dG s = some s') (hg' : s'.ghostOut = some g') :
    List.map (·.lbl) g' = List.map (·.lbl) s'.outlet ∧ g'.length = s'.outlet.length := by
  have hF : ∀ p ∈ fluidEval zn s, isLocal p = true :=
    evalOne_all_local zn _ _ (fun p hp => hloc p (by simp [hp]))
  have hO : ∀ p ∈ outletEval zn s, isLocal p = true :=
    evalOne_all_local zn _ _ (fun p hp => hloc p (by simp [hp]))
  have hG : ∀ p ∈ g, isLocal p = true := fun p hp => hloc p (by simp [hp])
  have hcO : ∀ p, isLocal p = true → isLocal (copyInto m { dO with tag := 0 } p) = true :=
    fun p hp => copyInto_tag0_local m dO p hp
  have hcG : ∀ p, isLocal p = true →
      isLocal (copyInto m { dG with tag := 0 } (reflect zn p)) = true :=
    fun p hp => copyInto_tag0_local m dG (reflect zn p) hp
  -- the two arrays after the arrivals were appended
  have hmidO : mirrorMid zn m dO s = outletEval zn s
      ++ ((fluidEval zn s).filter (ioidIs 1)).map (copyInto m { dO with tag := 0 }) := by
    unfold mirrorMid mirrorArrivals
    rw [arrivals_of_all_local (ioidIs 1) _ (fluidEval zn s) hF hcO]
    apply addParticles_of_all_local
    intro p hp
    rcases List.mem_append.mp hp with h1 | h1
    · exact hO p h1
    · obtain ⟨q, hq, rfl⟩ := List.mem_map.mp h1
      exact hcO q (hF q (List.mem_filter.mp hq).1)
  have hmidG : mirrorGhostMid zn m dG s g = g
      ++ ((fluidEval zn s).filter (ioidIs 1)).map
          (fun p => copyInto m { dG with tag := 0 } (reflect zn p)) := by
    unfold mirrorGhostMid
    exact ghost_arrivals_of_all_local (ioidIs 1) _ (fluidEval zn s) g hF hG hcG
  have hallO : ∀ p ∈ mirrorMid zn m dO s, isLocal p = true := by
    rw [hmidO]
    intro p hp
    rcases List.mem_append.mp hp with h1 | h1
    · exact hO p h1
    · obtain ⟨q, hq, rfl⟩ := List.mem_map.mp h1
      exact hcO q (hF q (List.mem_filter.mp hq).1)
  have hallG : ∀ p ∈ mirrorGhostMid zn m dG s g, isLocal p = true := by
    rw [hmidG]
    intro p hp
    rcases List.mem_append.mp hp with h1 | h1
    · exact hG p h1
    · obtain ⟨q, hq, rfl⟩ := List.mem_map.mp h1
      exact hcG q (hF q (List.mem_filter.mp hq).1)
  have hlab : (mirrorGhostMid zn m dG s g).map (·.lbl) = (mirrorMid zn m dO s).map (·.lbl) := by
    rw [hmidO, hmidG, List.map_append, List.map_append, hal, List.map_map, List.map_map]
    congr 1
    · simp [outletEval, evalOne]
    · apply List.map_congr_left
      intro p _
      simp only [Function.comp, copyInto_lbl _ _ _ hl]
      rfl
  obtain ⟨g3, hg3, hr⟩ := mirrorOutletBody_ghost_spec zn m dO dG s s' g hg h
  rw [hg'] at hg3
  cases hg3
  have ho := (mirrorOutletBody_spec zn m dO dG s s' h).2.1
  have := removeParticles_labels_aligned _ _ _ _ _ hallO hallG ho hr hlab
  exact ⟨this, by simpa using congrArg List.length this⟩

/-! ## histories -/

/-- one inlet/outlet pair: zones, default values of fluid / outlet / outlet-ghost
arrays, `props_to_copy`, the `0.5` of the hybrid family -/
structure Cfg (α : Type) where
  zin : Zone α
  zout : Zone α
  dF : Particle α
  dO : Particle α
  dG : Particle α
  mask : Mask
  half : α

/-- whatever happens to the particles between two update calls (integrator
stages, other equations, a user callback): an arbitrary slot-wise change of
every property of every array — displacement fields of any size included -/
structure Motion (α : Type) where
  inlet : Nat → Particle α → Particle α
  ghostIn : Nat → Particle α → Particle α
  fluid : Nat → Particle α → Particle α
  outlet : Nat → Particle α → Particle α
  ghostOut : Nat → Particle α → Particle α

def Motion.apply (mv : Motion α) (s : State α) : State α :=
  { s with inlet := s.inlet.mapIdx mv.inlet,
           ghostIn := s.ghostIn.map (fun g => g.mapIdx mv.ghostIn),
           fluid := s.fluid.mapIdx mv.fluid,
           outlet := s.outlet.mapIdx mv.outlet,
           ghostOut := s.ghostOut.map (fun g => g.mapIdx mv.ghostOut) }

inductive Op (α : Type) where
  | move (mv : Motion α)
  | inlet (active : Bool)          -- InletBase.update (four families)
  | hybridInlet (active : Bool)    -- hybrid Inlet.update
  | outlet (active : Bool)         -- OutletBase.update (four families)
  | mirrorOutlet (active : Bool)   -- mirror Outlet.update

/-- the account the property speaks of: how many particles entered the fluid
through the inlet, how many left it through the outlet plane — counted on the
state *before* each update by the geometric criterion, not by the bookkeeping -/
structure Acct where
  entered : Nat
  left : Nat

def stepOp (c : Cfg α) (op : Op α) (sa : State α × Acct) : Option (State α × Acct) :=
  match op with
  | .move mv => some (mv.apply sa.1, sa.2)
  | .inlet act => (inletUpdate c.zin c.dF act sa.1).map (fun s' =>
      (s', { sa.2 with entered := sa.2.entered + if act then (crossing c.zin sa.1).length else 0 }))
  | .hybridInlet act => (hybridInletUpdate c.half c.zin c.dF act sa.1).map (fun s' =>
      (s', { sa.2 with entered := sa.2.entered + if act then (crossing c.zin sa.1).length else 0 }))
  | .outlet act => (outletUpdate c.zout c.mask c.dO act sa.1).map (fun s' =>
      (s', { sa.2 with left := sa.2.left + if act then (leaving c.zout sa.1).length else 0 }))
  | .mirrorOutlet act => (mirrorOutletUpdate c.zout c.mask c.dO c.dG act sa.1).map (fun s' =>
      (s', { sa.2 with left := sa.2.left + if act then (leaving c.zout sa.1).length else 0 }))

/-- a history: any sequence of moves and update calls; `none` = an update raised -/
def run (c : Cfg α) : List (Op α) → State α × Acct → Option (State α × Acct)
  | [], sa => some sa
  | op :: ops, sa => (stepOp c op sa).bind (run c ops)

theorem step_count (c : Cfg α) (op : Op α) (sa sa' : State α × Acct)
    (h : stepOp c op sa = some sa') :
    sa'.1.fluid.length + sa'.2.left + sa.2.entered
      = sa.1.fluid.length + sa'.2.entered + sa.2.left ∧
    sa'.1.inlet.length = sa.1.inlet.length := by
  obtain ⟨s, a⟩ := sa
  cases op with
  | move mv =>
    simp only [stepOp, Option.some.injEq] at h
    subst h
    simp [Motion.apply]
    omega
  | inlet act =>
    simp only [stepOp, Option.map_eq_some_iff] at h
    obtain ⟨s', hs, rfl⟩ := h
    cases act with
    | false => simp only [inletUpdate, Bool.false_eq_true, if_false, Option.some.injEq] at hs
               subst hs; simp; omega
    | true =>
      simp only [inletUpdate, if_true] at hs
      have hp := (inlet_copy_exactly_once_per_crossing c.zin c.dF s s' hs).length_eq
      have hi := inlet_count_constant c.zin c.dF s s' hs
      simp only [List.length_append, fluidEval, List.length_map] at hp
      simp [hi]; omega
  | hybridInlet act =>
    simp only [stepOp, Option.map_eq_some_iff] at h
    obtain ⟨s', hs, rfl⟩ := h
    cases act with
    | false => simp only [hybridInletUpdate, Bool.false_eq_true, if_false,
                 Option.some.injEq] at hs
               subst hs; simp; omega
    | true =>
      simp only [hybridInletUpdate, if_true] at hs
      have hp := (inlet_copy_exactly_once_per_crossing c.zin c.dF _ s' hs).length_eq
      have hi := inlet_count_constant c.zin c.dF _ s' hs
      simp only [List.length_append, fluidEval, List.length_map] at hp
      have hc : (crossing c.zin { s with urefFluid := c.half * (s.urefIn + s.urefFluid) }).length
          = (crossing c.zin s).length := rfl
      simp at hi
      simp [hi]; omega
  | outlet act =>
    simp only [stepOp, Option.map_eq_some_iff] at h
    obtain ⟨s', hs, rfl⟩ := h
    cases act with
    | false => simp only [outletUpdate, Bool.false_eq_true, if_false, Option.some.injEq] at hs
               subst hs; simp; omega
    | true =>
      simp only [outletUpdate, if_true] at hs
      have hp := (outlet_move_exactly_once_fluid c.zout c.mask c.dO s s' hs).length_eq
      have hi := (outlet_nothing_else_changes c.zout c.mask c.dO s s' hs).1
      simp only [List.length_append, fluidEval, List.length_map] at hp
      simp [hi]; omega
  | mirrorOutlet act =>
    simp only [stepOp, Option.map_eq_some_iff] at h
    obtain ⟨s', hs, rfl⟩ := h
    cases act with
    | false => simp only [mirrorOutletUpdate, Bool.false_eq_true, if_false,
                 Option.some.injEq] at hs
               subst hs; simp; omega
    | true =>
      simp only [mirrorOutletUpdate, if_true] at hs
      have hp := (mirror_outlet_move_exactly_once_fluid c.zout c.mask c.dO c.dG s s' hs).length_eq
      have hi := (mirrorOutletBody_spec c.zout c.mask c.dO c.dG s s' hs).2.2.1
      simp only [List.length_append, fluidEval, List.length_map] at hp
      simp [hi]; omega

theorem run_count (c : Cfg α) (ops : List (Op α)) (sa sa' : State α × Acct)
    (h : run c ops sa = some sa') :
    sa'.1.fluid.length + sa'.2.left + sa.2.entered
      = sa.1.fluid.length + sa'.2.entered + sa.2.left ∧
    sa'.1.inlet.length = sa.1.inlet.length := by
  induction ops generalizing sa with
  | nil => simp only [run, Option.some.injEq] at h; subst h; exact ⟨by omega, rfl⟩
  | cons op ops ih =>
    simp only [run, Option.bind_eq_some_iff] at h
    obtain ⟨mid, h1, h2⟩ := h
    have a := step_count c op sa mid h1
    have b := ih mid h2
    exact ⟨by omega, by omega⟩

/-- **fluid count = initial + entered − left at all times**: after any history
of moves (arbitrary displacement fields, several particles crossing at once,
particles crossing and returning) and update calls of any of the update
classes, at active or inactive stages. -/
theorem count_conservation (c : Cfg α) (ops : List (Op α)) (s0 s : State α) (a : Acct)
    (h : run c ops (s0, ⟨0, 0⟩) = some (s, a)) :
    s.fluid.length + a.left = s0.fluid.length + a.entered := by
  have := (run_count c ops _ _ h).1
  simpa using this

/-- the inlet buffer keeps its size through every history (originals are
recycled, never consumed) -/
theorem inlet_size_invariant (c : Cfg α) (ops : List (Op α)) (s0 s : State α) (a0 a : Acct)
    (h : run c ops (s0, a0) = some (s, a)) : s.inlet.length = s0.inlet.length :=
  (run_count c ops _ _ h).2

/-! ## labels: no particle is ever duplicated

The harness stores a unique label in the passive property `lbl`.  The particles
"in the flow" are those of the fluid and outlet arrays (an inlet particle is a
template: its crossing is COPIED into the fluid while the original is recycled
and keeps living in the inlet array). -/

/-- the labels of the particles that are in the flow: fluid and outlet arrays -/
def labels (s : State α) : List Int := (s.fluid ++ s.outlet).map (·.lbl)

/-- **the base outlet update creates no label**: the labels in the flow after
the call are, with multiplicity, among those before (the moved particles keep
theirs, the deleted ones disappear) -/
theorem outlet_creates_no_label (zn : Zone α) (m : Mask) (dO : Particle α) (s s' : State α)
    (hl : m.lbl = true) (h : outletBody zn m dO s = some s') :
    (labels s').Subperm (labels s) := by
  have h1 := outlet_move_exactly_once_fluid zn m dO s s' h
  have h2 := outlet_move_exactly_once zn m dO s s' h
  have h3 : (((leaving zn s).map (copyInto m dO)).map (·.lbl)).Subperm
      ((leaving zn s).map (·.lbl)) := by
    rw [List.map_map]
    have : ((fun p : Particle α => p.lbl) ∘ copyInto m dO) = (fun p => p.lbl) :=
      funext (fun p => copyInto_lbl m dO p hl)
    rw [this]
  have := labels_step_subperm h1 h2 h3
  unfold labels
  rw [List.map_append, List.map_append] at this ⊢
  rw [fluidEval, outletEval, map_lbl_evalOne, map_lbl_evalOne] at this
  exact this

/-- the mirror outlet update creates no label either — for every state, aligned
or not, Local or not -/
theorem mirror_outlet_creates_no_label (zn : Zone α) (m : Mask) (dO dG : Particle α)
    (s s' : State α) (hl : m.lbl = true) (h : mirrorOutletBody zn m dO dG s = some s') :
    (labels s').Subperm (labels s) := by
  have h1 := mirror_outlet_move_exactly_once_fluid zn m dO dG s s' h
  have h2 : (s'.outlet ++ mirrorDeleted zn m dO s).Perm
      (outletEval zn s ++ mirrorArrivals zn m dO s) :=
    (removeParticles_perm (ioidIs 2) _ _ (mirrorOutletBody_spec zn m dO dG s s' h).2.1).trans
      (addParticles_perm _ _)
  have h3 : ((mirrorArrivals zn m dO s).map (·.lbl)).Subperm ((leaving zn s).map (·.lbl)) := by
    unfold mirrorArrivals
    split
    · exact List.nil_subperm
    · rw [gather_where_realView]
      have a := subperm_map (fun p : Particle α => p.lbl) (realView_align_subperm
        (((realView (fluidEval zn s)).filter (ioidIs 1)).map
          (copyInto m { dO with tag := 0 })))
      refine a.trans ?_
      rw [List.map_map]
      have : ((fun p : Particle α => p.lbl) ∘ copyInto m { dO with tag := 0 })
          = (fun p => p.lbl) := funext (fun p => copyInto_lbl m _ p hl)
      rw [this]
      exact Subperm.refl _
  have := labels_step_subperm h1 h2 h3
  unfold labels
  rw [List.map_append, List.map_append] at this ⊢
  rw [fluidEval, outletEval, map_lbl_evalOne, map_lbl_evalOne] at this
  exact this

/-- the inlet adds to the flow exactly the labels of the crossing particles
(whole-record copies; the originals stay in the inlet array) -/
theorem inlet_adds_crossing_labels (zn : Zone α) (dF : Particle α) (s s' : State α)
    (h : inletBody zn dF s = some s') :
    (labels s').Perm (labels s ++ (crossing zn s).map (·.lbl)) := by
  have h1 := (inlet_copy_exactly_once_per_crossing zn dF s s' h).map (·.lbl)
  have h2 := (inlet_nothing_else_changes zn dF s s' h).1
  unfold labels
  rw [List.map_append, List.map_append, h2]
  rw [List.map_append, fluidEval, map_lbl_evalOne] at h1
  refine (h1.append_right _).trans ?_
  rw [List.append_assoc, List.append_assoc]
  exact List.Perm.append_left _ List.perm_append_comm

/-- a move that relabels no fluid or outlet particle -/
def Motion.keepsLabels (mv : Motion α) : Prop :=
  (∀ i p, (mv.fluid i p).lbl = p.lbl) ∧ (∀ i p, (mv.outlet i p).lbl = p.lbl)

/-- side condition of one operation for label uniqueness: a move relabels no
fluid/outlet particle; the particles an active inlet update copies into the
fluid carry pairwise distinct labels not yet in the flow (the recycled original
keeps its label in the inlet array — the harness relabels it after the call,
which in this model is a `move` on the inlet array); the outlet updates need
nothing -/
def freshAt (c : Cfg α) (op : Op α) (s : State α) : Prop :=
  match op with
  | .move mv => mv.keepsLabels
  | .inlet act => act = true → (labels s ++ (crossing c.zin s).map (·.lbl)).Nodup
  | .hybridInlet act => act = true → (labels s ++ (crossing c.zin s).map (·.lbl)).Nodup
  | .outlet _ => True
  | .mirrorOutlet _ => True

/-- the side condition holds before every operation of the history -/
def FreshRun (c : Cfg α) : List (Op α) → State α × Acct → Prop
  | [], _ => True
  | op :: ops, sa => freshAt c op sa.1 ∧ ∀ sa', stepOp c op sa = some sa' → FreshRun c ops sa'

/-- one operation keeps the labels in the flow pairwise distinct -/
theorem step_keeps_labels_nodup (c : Cfg α) (hl : c.mask.lbl = true) (op : Op α)
    (sa sa' : State α × Acct) (hf : freshAt c op sa.1) (h : stepOp c op sa = some sa')
    (hd : (labels sa.1).Nodup) : (labels sa'.1).Nodup := by
  obtain ⟨s, a⟩ := sa
  cases op with
  | move mv =>
    simp only [stepOp, Option.some.injEq] at h
    subst h
    simp only [freshAt, Motion.keepsLabels] at hf
    have : labels (mv.apply s) = labels s := by
      simp only [labels, Motion.apply, List.map_append, map_lbl_mapIdx _ _ hf.1,
        map_lbl_mapIdx _ _ hf.2]
    simpa [this] using hd
  | inlet act =>
    simp only [stepOp, Option.map_eq_some_iff] at h
    obtain ⟨s', hs, rfl⟩ := h
    cases act with
    | false => simp only [inletUpdate, Bool.false_eq_true, if_false, Option.some.injEq] at hs
               subst hs; exact hd
    | true =>
      simp only [inletUpdate, if_true] at hs
      exact (inlet_adds_crossing_labels c.zin c.dF s s' hs).nodup_iff.mpr (hf rfl)
  | hybridInlet act =>
    simp only [stepOp, Option.map_eq_some_iff] at h
    obtain ⟨s', hs, rfl⟩ := h
    cases act with
    | false => simp only [hybridInletUpdate, Bool.false_eq_true, if_false,
                 Option.some.injEq] at hs
               subst hs; exact hd
    | true =>
      simp only [hybridInletUpdate, if_true] at hs
      exact (inlet_adds_crossing_labels c.zin c.dF _ s' hs).nodup_iff.mpr (hf rfl)
  | outlet act =>
    simp only [stepOp, Option.map_eq_some_iff] at h
    obtain ⟨s', hs, rfl⟩ := h
    cases act with
    | false => simp only [outletUpdate, Bool.false_eq_true, if_false, Option.some.injEq] at hs
               subst hs; exact hd
    | true =>
      simp only [outletUpdate, if_true] at hs
      exact nodup_of_subperm (outlet_creates_no_label c.zout c.mask c.dO s s' hl hs) hd
  | mirrorOutlet act =>
    simp only [stepOp, Option.map_eq_some_iff] at h
    obtain ⟨s', hs, rfl⟩ := h
    cases act with
    | false => simp only [mirrorOutletUpdate, Bool.false_eq_true, if_false,
                 Option.some.injEq] at hs
               subst hs; exact hd
    | true =>
      simp only [mirrorOutletUpdate, if_true] at hs
      exact nodup_of_subperm
        (mirror_outlet_creates_no_label c.zout c.mask c.dO c.dG s s' hl hs) hd

/-- **No particle is ever duplicated**: if the labels of the particles in the
flow (fluid ∪ outlet) are pairwise distinct, they are after any history of
moves and update calls of all five classes at active or inactive stages,
provided `lbl` is among `props_to_copy`, no move relabels a fluid/outlet
particle, and each particle entering through an inlet carries a label new to
the flow (`FreshRun`; the outlet updates need no side condition — they never
create a label). -/
theorem labels_never_duplicated (c : Cfg α) (hl : c.mask.lbl = true) (ops : List (Op α))
    (sa sa' : State α × Acct) (hf : FreshRun c ops sa) (h : run c ops sa = some sa')
    (hd : (labels sa.1).Nodup) : (labels sa'.1).Nodup := by
  induction ops generalizing sa with
  | nil => simp only [run, Option.some.injEq] at h; subst h; exact hd
  | cons op ops ih =>
    simp only [run, Option.bind_eq_some_iff] at h
    obtain ⟨mid, h1, h2⟩ := h
    exact ih mid (hf.2 mid h1) h2 (step_keeps_labels_nodup c hl op sa mid hf.1 h1 hd)


/-- the operations that cannot add a particle to the flow: label-keeping moves
and the two outlet updates -/
def outletSide : Op α → Prop
  | .move mv => mv.keepsLabels
  | .outlet _ => True
  | .mirrorOutlet _ => True
  | .inlet _ => False
  | .hybridInlet _ => False

theorem freshRun_of_outletSide (c : Cfg α) (ops : List (Op α)) (h : ∀ op ∈ ops, outletSide op)
    (sa : State α × Acct) : FreshRun c ops sa := by
  induction ops generalizing sa with
  | nil => trivial
  | cons op ops ih =>
    refine ⟨?_, fun sa' _ => ih (fun o ho => h o (by simp [ho])) sa'⟩
    have := h op (by simp)
    cases op with
    | move mv => exact this
    | inlet _ => exact this.elim
    | hybridInlet _ => exact this.elim
    | outlet _ => trivial
    | mirrorOutlet _ => trivial

/-- unconditional form for the outlet side: any history of label-keeping moves
and (mirror) outlet updates keeps the labels in the flow pairwise distinct -/
theorem outlet_history_never_duplicates (c : Cfg α) (hl : c.mask.lbl = true) (ops : List (Op α))
    (h : ∀ op ∈ ops, outletSide op) (sa sa' : State α × Acct) (hr : run c ops sa = some sa')
    (hd : (labels sa.1).Nodup) : (labels sa'.1).Nodup :=
  labels_never_duplicated c hl ops sa sa' (freshRun_of_outletSide c ops h sa) hr hd

/-! ## zone geometry over an ordered field -/

section field
variable {K : Type} [Field K] [LinearOrder K] [IsStrictOrderedRing K]

/-- zone id 0 ("in the fluid") means: not beyond the interface by more than the
tolerance — or, a quirk of the `if/elif/else`, exactly `length + tolerance`
beyond it (neither `<` nor `>` holds there) -/
theorem zoneId_eq_zero_iff (eps L d : K) (hL : 0 ≤ L) :
    zoneId eps L d = 0 ↔ d ≤ eps ∨ d - L = eps := by
  unfold zoneId
  constructor
  · intro h
    by_cases h1 : eps < d ∧ d - L < eps
    · simp [h1] at h
    · by_cases h2 : eps < d - L
      · simp [h1, h2] at h
      · by_cases h3 : eps < d
        · right
          have : ¬ d - L < eps := fun hh => h1 ⟨h3, hh⟩
          exact le_antisymm (not_lt.mp h2) (not_lt.mp this)
        · left; exact not_lt.mp h3
  · rintro (h | h)
    · have h1 : ¬ (eps < d ∧ d - L < eps) := fun hh => absurd hh.1 (not_lt.mpr h)
      have h2 : ¬ eps < d - L := by
        intro hh; have : d - L ≤ d := by linarith
        linarith
      simp [h1, h2]
    · have h1 : ¬ (eps < d ∧ d - L < eps) := fun hh => by rw [h] at hh; exact lt_irrefl _ hh.2
      have h2 : ¬ eps < d - L := by rw [h]; exact lt_irrefl _
      simp [h1, h2]

theorem zoneId_eq_one_iff (eps L d : K) : zoneId eps L d = 1 ↔ eps < d ∧ d - L < eps := by
  unfold zoneId
  by_cases h1 : eps < d ∧ d - L < eps
  · simp [h1]
  · by_cases h2 : eps < d - L <;> simp [h1, h2]

theorem zoneId_eq_two_iff (eps L d : K) (hL : 0 ≤ L) : zoneId eps L d = 2 ↔ eps < d - L := by
  unfold zoneId
  by_cases h1 : eps < d ∧ d - L < eps
  · have : ¬ eps < d - L := not_lt.mpr (le_of_lt h1.2)
    simp [h1, this]
  · by_cases h2 : eps < d - L <;> simp [h1, h2]

/-- recycling moves a particle exactly one zone length along the normal:
its signed distance grows by `length · |n|²` -/
theorem signedDist_shiftUp (zn : Zone K) (p : Particle K) :
    signedDist zn (shiftUp zn p)
      = signedDist zn p + zn.len * (zn.nx * zn.nx + zn.ny * zn.ny + zn.nz * zn.nz) := by
  simp only [signedDist, shiftUp]; ring

/-- **recycled one zone length upstream**: an inlet particle that crossed the
interface by less than one zone length is, after recycling, back inside the
inlet zone (unit normal) -/
theorem recycled_back_inside (zn : Zone K) (p : Particle K)
    (hn : zn.nx * zn.nx + zn.ny * zn.ny + zn.nz * zn.nz = 1)
    (hlo : zn.eps - zn.len < signedDist zn p) (hhi : signedDist zn p < zn.eps) :
    (evalOne zn zn.len (shiftUp zn p)).ioid = 1 := by
  simp only [evalOne]
  rw [zoneId_eq_one_iff, signedDist_shiftUp, hn]
  constructor <;> linarith

/-- **moved more than one zone length in a step** (stated separately, as the
property does): the recycled original is still on the fluid side, so the next
update call copies it again — one copy per update call, each copy of a
"new" recycled particle -/
theorem overshoot_still_outside (zn : Zone K) (p : Particle K) (hL : 0 ≤ zn.len)
    (hn : zn.nx * zn.nx + zn.ny * zn.ny + zn.nz * zn.nz = 1)
    (h : signedDist zn p + zn.len ≤ zn.eps) :
    (evalOne zn zn.len (shiftUp zn p)).ioid = 0 := by
  simp only [evalOne]
  rw [zoneId_eq_zero_iff _ _ _ hL, signedDist_shiftUp, hn]
  left; linarith

/-- the ghost of the inlet stays the mirror image of its inlet particle when
both are recycled (unit normal): reflecting the recycled original gives the
ghost shifted by `-length·normal` -/
theorem ghost_stays_mirror_image (zn : Zone K) (p : Particle K)
    (hn : zn.nx * zn.nx + zn.ny * zn.ny + zn.nz * zn.nz = 1) :
    (reflect zn (shiftUp zn p)).x = (shiftDown zn (reflect zn p)).x ∧
    (reflect zn (shiftUp zn p)).y = (shiftDown zn (reflect zn p)).y ∧
    (reflect zn (shiftUp zn p)).z = (shiftDown zn (reflect zn p)).z := by
  have key : signedDist zn (shiftUp zn p) = signedDist zn p + zn.len := by
    rw [signedDist_shiftUp, hn]; ring
  simp only [reflect, shiftDown, key]
  simp only [shiftUp]
  refine ⟨by ring, by ring, by ring⟩

end field

/-! ## non-vacuity: concrete states meeting the hypotheses (tests, not claims) -/
section examples

/-- inlet zone `-1/2 < x < 0` (normal `-x`), outlet zone `1 < x < 3/2` -/
def exZin : Zone Rat := ⟨0, 0, 0, -1, 0, 0, 1/2, 1/1000000, 1000⟩
def exZout : Zone Rat := ⟨1, 0, 0, 1, 0, 0, 1/2, 1/1000000, 1000⟩
def exP (x : Rat) (lbl : Int) (tag : Int := 0) : Particle Rat := ⟨x, 0, 0, 1, 0, 0, tag, lbl, 7⟩
def exCfg : Cfg Rat := ⟨exZin, exZout, exP 0 0, exP 0 0, exP 0 0, Mask.all, 1/2⟩
def exState : State Rat :=
  { inlet := [exP (-3/8) 1, exP (1/8) 2, exP (1/4) 3, exP (1/16) 4 2],
    ghostIn := some [exP (3/8) 1, exP (-1/8) 2, exP (-1/4) 3, exP (-1/16) 4],
    fluid := [exP (1/2) 11, exP (9/8) 12, exP (3/4) 14, exP (5/4) 13 2],
    outlet := [exP (5/4) 21, exP (13/8) 22], ghostOut := none, urefIn := 1, urefFluid := 0 }

/-- two Local inlet particles cross together (the ghost-tagged one does not
count); they are copied once each and recycled by `length` -/
example : (inletBody exZin (exP 0 0) exState).map
      (fun s => (s.fluid.map (·.lbl), s.inlet.map (·.x), (s.ghostIn.getD []).map (·.x)))
    = some ([11, 12, 14, 2, 3, 13], [-3/8, -3/8, -1/4, 1/16], [3/8, 3/8, 1/4, -1/16]) := by
  decide +kernel

example : (crossing exZin exState).map (·.lbl) = [2, 3] := by decide +kernel

/-- one fluid particle moves to the outlet, one outlet particle is deleted -/
example : (outletBody exZout Mask.all (exP 0 0) exState).map
      (fun s => (s.fluid.map (·.lbl), s.outlet.map (·.lbl)))
    = some ([11, 14, 13], [21, 12]) := by
  decide +kernel

example : (leaving exZout exState).map (·.lbl) = [12] ∧
    (deleted exZout Mask.all (exP 0 0) exState).map (·.lbl) = [22] := by decide +kernel

/-- a history with a move, both updates, an inactive stage and the hybrid and
mirror classes: the account is non-trivial -/
example : (run exCfg [.inlet true, .outlet true, .move ⟨fun _ p => p, fun _ p => p,
        fun _ p => { p with x := p.x + 1/2 }, fun _ p => p, fun _ p => p⟩,
        .outlet false, .mirrorOutlet true, .hybridInlet true] (exState, ⟨0, 0⟩)).map
      (fun sa => (sa.1.fluid.length, sa.2.entered, sa.2.left))
    = some (4, 2, 2) := by
  decide +kernel

/-- overshoot: moved more than a zone length, still outside after recycling -/
example : (evalOne exZin exZin.len (shiftUp exZin (exP (3/4) 5))).ioid = 0 := by decide +kernel

/-- mirror family with a ghost array, every particle Local, ghost index-aligned
with the outlet: two fluid particles arrive, one outlet particle (slot 1, label
22) is deleted by swap-remove — the hypotheses of `mirror_ghost_stays_aligned`
hold and the slot order really changes -/
def exMirror : State Rat :=
  { inlet := [], ghostIn := none,
    fluid := [exP (1/2) 11, exP (9/8) 12, exP (3/4) 14, exP (5/4) 13],
    outlet := [exP (5/4) 21, exP (13/8) 22, exP (11/8) 23],
    ghostOut := some [exP (3/4) 21, exP (3/8) 22, exP (5/8) 23],
    urefIn := 1, urefFluid := 0 }

example : (∀ p ∈ exMirror.fluid ++ exMirror.outlet ++ (exMirror.ghostOut.getD []),
      isLocal p = true) ∧
    List.map (·.lbl) (exMirror.ghostOut.getD []) = List.map (·.lbl) exMirror.outlet ∧
    (mirrorOutletBody exZout Mask.all (exP 0 0) (exP 0 0) exMirror).map
      (fun s => (s.fluid.map (·.lbl), s.outlet.map (·.lbl), (s.ghostOut.getD []).map (·.lbl),
        (s.ghostOut.getD []).map (·.x)))
    = some ([11, 14], [21, 13, 23, 12], [21, 13, 23, 12], [3/4, 3/4, 5/8, 7/8]) := by
  decide +kernel

/-- `removeRows` with one index list on two arrays = on the zipped array -/
example : removeRows [1, 3] (List.zip [10, 11, 12, 13, 14] ['a', 'b', 'c', 'd', 'e'])
    = List.zip (removeRows [1, 3] [10, 11, 12, 13, 14]) (removeRows [1, 3] ['a', 'b', 'c', 'd', 'e'])
    ∧ removeRows [1, 3] [10, 11, 12, 13, 14] = [10, 14, 12] := by decide

/-- label uniqueness: the demo state has pairwise distinct labels in the flow,
the crossing inlet particles carry new ones, so `FreshRun` holds for an inlet
call; and an outlet-side history (with a label-keeping move) is non-trivial -/
example : (labels exState).Nodup ∧ FreshRun exCfg [.inlet true] (exState, ⟨0, 0⟩) :=
  ⟨by decide +kernel, fun _ => by decide +kernel, fun _ _ => trivial⟩

example : (∀ op ∈ ([.outlet true, .move ⟨fun _ p => p, fun _ p => p,
        fun _ p => { p with x := p.x + 1/2 }, fun _ p => p, fun _ p => p⟩,
        .mirrorOutlet true] : List (Op Rat)), outletSide op) ∧
    (run exCfg [.outlet true, .move ⟨fun _ p => p, fun _ p => p,
        fun _ p => { p with x := p.x + 1/2 }, fun _ p => p, fun _ p => p⟩,
        .mirrorOutlet true] (exState, ⟨0, 0⟩)).map (fun sa => labels sa.1)
      = some [11, 13, 21, 12, 14] := by
  refine ⟨?_, by decide +kernel⟩
  intro op hop
  simp only [List.mem_cons, List.not_mem_nil, or_false] at hop
  rcases hop with rfl | rfl | rfl
  · trivial
  · exact ⟨fun _ _ => rfl, fun _ _ => rfl⟩
  · trivial

end examples

end PysphVerif.Props.C16
