import PysphVerif.Lemmas.Schedule
/-!
# C03 — groups run in the documented order, over the documented particles

Property theorems only (helper lemmas live in `Lemmas/Schedule.lean`).  They are about
`Model/Schedule.lean`:

* `implTrace` transcribes `MegaGroup._make_data`, the mako template (`do_group`, the body of
  `compute`) and the helper's index-range / iteration / condition code;
* `specTrace` is the documented order, sentence by sentence.

`implTrace` is tied to the real pipeline (AccelerationEval → SPHCompiler → generated Cython →
compiled module) on every run by tracer equations (harness/c03.py).

All statements hold for every program (any number of groups, sub-groups, destinations, sources,
equations with any subset of hooks), every oracle — condition and convergence outcomes, array
sizes, named start/stop values and neighbour lists may depend arbitrarily on the history of calls
made so far — and every starting history.
-/
set_option linter.unusedSectionVars false
namespace PysphVerif.C03
open PysphVerif.Schedule

/-! ## `MegaGroup._make_data` preserves the user's order -/

/-- The regrouping by destination, then by source, is a family of plain `filter`s of the user's
equation list (so user order is kept everywhere), destinations and sources appear in order of
first appearance. -/
theorem megagroup_preserves_order (eqs : List Equation) (hnd : eqs.Nodup)
    (hs : ∀ e ∈ eqs, e.sources.Nodup) :
    (makeData eqs).map (·.1) = firstAppearance (eqs.map (·.dest)) ∧
    ∀ d, (makeDest eqs d).all = eqs.filter (fun e => e.dest == d) ∧
      (makeDest eqs d).noSrc = eqs.filter (fun e => e.dest == d && e.noSource) ∧
      (makeDest eqs d).sources =
        (firstAppearance ((eqs.filter (fun e => e.dest == d)).flatMap (·.sources))).map
          (fun s => (s, eqs.filter (fun e => e.dest == d && e.sources.contains s))) := by
  refine ⟨?_, fun d => ?_⟩
  · rw [makeData_eq eqs hnd hs, List.map_map]
    simp [Function.comp_def]
  · rw [makeDest_eq eqs d hnd hs]
    simp only [specData, srcDict, dictOf, List.filter_filter]
    refine ⟨trivial, ?_, ?_⟩
    · apply List.filter_congr; intro e _; exact Bool.and_comm _ _
    · apply List.map_congr_left; intro s _
      congr 1
      apply List.filter_congr; intro e _; exact Bool.and_comm _ _

/-- Without any hypothesis: every list the template iterates over is a sub-list (same relative
order) of what the user wrote. -/
theorem megagroup_sublists (eqs : List Equation) (d : Nat) :
    (makeDest eqs d).all.Sublist eqs ∧ (makeDest eqs d).noSrc.Sublist eqs := by
  suffices h : ∀ (l p : List Equation) (dd : DestData), dd.all.Sublist p → dd.noSrc.Sublist p →
      (l.foldl (destDataStep d) dd).all.Sublist (p ++ l) ∧
      (l.foldl (destDataStep d) dd).noSrc.Sublist (p ++ l) by
    simpa [makeDest] using h eqs [] ⟨[], [], []⟩ (by simp) (by simp)
  intro l
  induction l with
  | nil => intro p dd h1 h2; simpa using ⟨h1, h2⟩
  | cons e l ih =>
    intro p dd h1 h2
    have := ih (p ++ [e]) (destDataStep d dd e)
    simp only [List.append_assoc, List.singleton_append] at this
    simp only [List.foldl_cons]
    apply this
    · unfold destDataStep
      by_cases hd : (e.dest != d) = true
      · simp only [hd, if_true]; exact h1.trans (List.sublist_append_left _ _)
      · simp only [hd, Bool.false_eq_true, if_false]
        by_cases hc : dd.all.contains e = true <;> by_cases hn : e.noSource = true <;>
          simp only [hc, hn, if_true, Bool.false_eq_true, if_false]
        all_goals first
          | exact h1.trans (List.sublist_append_left _ _)
          | exact List.Sublist.append h1 (List.Sublist.refl _)
    · unfold destDataStep
      by_cases hd : (e.dest != d) = true
      · simp only [hd, if_true]; exact h2.trans (List.sublist_append_left _ _)
      · simp only [hd, Bool.false_eq_true, if_false]
        by_cases hn : e.noSource = true <;> simp only [hn, if_true, Bool.false_eq_true, if_false]
        · exact List.Sublist.append h2 (List.Sublist.refl _)
        · exact h2.trans (List.sublist_append_left _ _)

/-! ## The generated evaluation performs exactly the documented sequence of calls -/

/-- For every well-formed program, every oracle and enough fuel for the iterated groups, the
calls made by the generated `compute` are exactly the documented ones, in the documented order.
(`Program.WF`: no equation object twice in a group, no source named twice in one equation,
`1 ≤ max_iterations`, `min_iterations ≤ max_iterations` for iterated groups, a top-level group
without equations has no callables — see the theorems below for what happens otherwise.) -/
theorem implTrace_eq_specTrace (O : Oracle) (P : Program) (hwf : P.WF) (fuel : Nat)
    (hfuel : ∀ g ∈ specGroups P, g.maxIter ≤ fuel) :
    implTrace O fuel P = specTrace O P := by
  unfold implTrace specTrace
  rw [implRun_eq_specRun O fuel P hwf hfuel]

/-- The same from any starting history (a second `compute`, a later stage, …). -/
theorem implRun_eq_specRun_from (O : Oracle) (P : Program) (hwf : P.WF) (fuel : Nat)
    (hfuel : ∀ g ∈ specGroups P, g.maxIter ≤ fuel) (h : Hist) :
    implRun O fuel P h = specRun O P h :=
  implRun_eq_specRun O fuel P hwf hfuel h

/-! ## Destination indices -/

/-- `N` is `stop_idx` if given (number or named), else the number of real particles, or of all
particles when `real=False`. -/
theorem np_dest (O : Oracle) (h : Hist) (a : Attrs) (d : Nat) :
    npDest O h a d =
      match a.stop with
      | some (.num n) => n
      | some (.named k) => O.named h d k
      | none => if a.real then O.size h d true else O.size h d false := by
  unfold npDest
  cases a.stop with
  | none => cases a.real <;> rfl
  | some s => cases s <;> rfl

/-- Destination indices are exactly `range(start_idx, N)`. -/
theorem dest_range (O : Oracle) (h : Hist) (a : Attrs) (d i : Nat) :
    i ∈ destRange O h a d ↔ startIdx O h a d ≤ i ∧ i < npDest O h a d := by
  unfold destRange
  rw [List.mem_range'_1]
  omega

/-- An explicit `stop_idx` is taken as given: the `real` flag plays no part, so a stop beyond the
number of real particles selects ghost/remote destinations also in a `real=True` group (no clamp to
`size(real)`). -/
theorem explicit_stop_ignores_real (O : Oracle) (h : Hist) (a : Attrs) (d : Nat) (r : Bool)
    (hs : a.stop.isSome = true) :
    destRange O h { a with real := r } d = destRange O h a d := by
  unfold destRange npDest startIdx
  cases hst : a.stop with
  | none => simp [hst] at hs
  | some s => cases s <;> rfl

/-- …in increasing order, each once. -/
theorem dest_range_sorted (O : Oracle) (h : Hist) (a : Attrs) (d : Nat) :
    (destRange O h a d).Pairwise (· < ·) := by
  unfold destRange
  exact List.pairwise_lt_range'


/-- At the level of calls: every per-particle call made while a destination is processed
(initialize, initialize_pair, loop_all, loop, post_loop, source-free loop) is for that destination
array and for an index in `range(start_idx, N)` — never a particle before `start_idx`, never one at
or beyond `N` (so never a ghost when `real=True` and no `stop_idx` is given). -/
theorem dest_indices_in_range (O : Oracle) (a : Attrs) (ddd : Nat × DestData) (h : Hist) :
    ∃ new, doDest O a ddd h = new ++ h ∧
      ∀ e ∈ new, ∀ d i, e.particle? = some (d, i) →
        d = ddd.1 ∧ startIdx O h a ddd.1 ≤ i ∧ i < npDest O h a ddd.1 := by
  obtain ⟨new, e1, p1⟩ := ext_doDest_range O a ddd h
  refine ⟨new, e1, fun e he d i hp => ?_⟩
  obtain ⟨hd, hi⟩ := p1 e he d i hp
  exact ⟨hd, (dest_range O h a ddd.1 i).mp hi⟩

/-! ## Iterated groups -/

/-- An iterated group with `1 ≤ max_iterations`, `min_iterations ≤ max_iterations` runs `n`
passes with `max 1 min ≤ n ≤ max`; `converged()` is consulted (for all equations) exactly after
the passes numbered `≥ min`; `n` is the FIRST pass after which the stopping test
`count ≥ min ∧ (all converged ∨ count = max)` holds. -/
theorem iteration_bounds (O : Oracle) (gid : GId) (a : Attrs) (convEqs : List Equation)
    (body : Hist → Hist) (fuel : Nat) (h : Hist)
    (hmax : 1 ≤ a.maxIter) (hmin : a.minIter ≤ a.maxIter) (hfuel : a.maxIter ≤ fuel) :
    ∃ n, 1 ≤ n ∧ a.minIter ≤ n ∧ n ≤ a.maxIter ∧
      implIter O gid a convEqs body fuel 1 h = passes O a convEqs body n 1 h ∧
      stopsAfter O a convEqs body n (passes O a convEqs body (n - 1) 1 h) = true ∧
      ∀ k, 1 ≤ k → k < n →
        stopsAfter O a convEqs body k (passes O a convEqs body (k - 1) 1 h) = false := by
  obtain ⟨m, h1, h2, h3, h4, h5, h6⟩ :=
    implIter_passes O gid a convEqs body (a.maxIter - 1) fuel 1 h (by omega) hmin (by omega)
  refine ⟨m, h1, by omega, by omega, h4, ?_, ?_⟩
  · have : 1 + m - 1 = m := by omega
    rw [this] at h5; exact h5
  · intro k hk1 hkn
    have := h6 (k - 1) (by omega)
    have e : 1 + (k - 1) = k := by omega
    rw [e] at this; exact this

/-- The point the hypothesis of `iteration_bounds` excludes: with `min_iterations >
max_iterations` (or `max_iterations = 0`) the generated test `count == max` can never fire once
`count ≥ min`, so only convergence ends the loop — if the equations never all converge the
loop runs for ever (any amount of fuel is exhausted). -/
theorem iteration_unbounded_when_min_gt_max (O : Oracle) (gid : GId) (a : Attrs)
    (convEqs : List Equation) (body : Hist → Hist)
    (hbad : a.maxIter < a.minIter ∨ a.maxIter = 0)
    (hnever : ∀ h, (queryConv O convEqs h).2 = false) (fuel : Nat) (h : Hist) :
    ∃ rest, implIter O gid a convEqs body fuel 1 h = Event.diverged gid :: rest := by
  suffices hgen : ∀ fuel count h, 1 ≤ count →
      ∃ rest, implIter O gid a convEqs body fuel count h = Event.diverged gid :: rest from
    hgen fuel 1 h (by omega)
  intro fuel
  induction fuel with
  | zero => intro count h _; exact ⟨h, rfl⟩
  | succ f ih =>
    intro count h hc
    simp only [implIter]
    by_cases hle : a.minIter ≤ count
    · have hne : (count == a.maxIter) = false := by
        have : count ≠ a.maxIter := by omega
        simpa using this
      simp only [hle, if_true, hnever, hne, Bool.or_false, Bool.false_eq_true, if_false]
      exact ih (count + 1) _ (by omega)
    · simp only [hle, if_false]
      exact ih (count + 1) _ (by omega)

/-! ## Conditions -/

/-- A top-level group (with at least one equation or sub-group) whose condition returns False
makes no call at all: no pre/post, no equation method, no NNPS refresh, no converged(). -/
theorem skipped_when_condition_false (O : Oracle) (fuel : Nat) (g : Top) (gi : Nat) (h : Hist)
    (hc : (match g with | .leaf l => l.attrs.hasCond | .parent a _ => a.hasCond) = true)
    (hne : ∀ l, g = .leaf l → l.eqs ≠ [])
    (hf : O.cond h ⟨gi, none⟩ = false) :
    doTop O fuel (g, gi) h = Event.cond ⟨gi, none⟩ false :: h := by
  cases g with
  | leaf l =>
    have : l.eqs.isEmpty = false := by simpa using hne l rfl
    simp only at hc
    simp [doTop, isEmpty_makeData, this, wrapCond, hc, hf]
  | parent a subs =>
    simp only at hc
    simp [doTop, wrapCond, hc, hf]

/-- The same for a sub-group inside its parent. -/
theorem sub_group_skipped_when_condition_false (O : Oracle) (gi k : Nat) (l : Leaf) (h : Hist)
    (hc : l.attrs.hasCond = true) (hf : O.cond h ⟨gi, some k⟩ = false) :
    doSub O gi (l, k) h = Event.cond ⟨gi, some k⟩ false :: h := by
  simp [doSub, wrapCond, hc, hf]

/-- A condition is asked exactly once per evaluation of the group (outside the iteration),
before anything else of the group. -/
theorem condition_asked_first (O : Oracle) (gid : GId) (a : Attrs) (body : Hist → Hist)
    (h : Hist) (hc : a.hasCond = true) (ht : O.cond h gid = true) :
    wrapCond O gid a body h = body (Event.cond gid true :: h) := by
  simp [wrapCond, hc, ht]

/-! ## pre / post / update_nnps -/

/-- One pass over a group of equations: `pre` (if any) is the first call, `post` (if any) the
last, the NNPS refresh (if requested) comes after every destination and just before `post`, and
in between there are only calls of equation methods — each of pre/post exactly once. -/
theorem pre_post_once_per_pass (O : Oracle) (gid : GId) (a : Attrs) (eqs : List Equation)
    (h : Hist) :
    ∃ mid, (∀ e ∈ mid, e.isHook = true) ∧
      doGroup O gid a (makeData eqs) h =
        (if a.hasPost then [Event.post gid] else []) ++
        (if a.updateNnps then [Event.nnps gid] else []) ++ mid ++
        (if a.hasPre then [Event.pre gid] else []) ++ h :=
  doGroup_shape O gid a (makeData eqs) h

/-- The template never looks at a sub-group's `iterate`, `min_iterations`, `max_iterations`. -/
theorem sub_group_iterate_ignored (O : Oracle) (gi k : Nat) (l : Leaf) (it : Bool) (mn mx : Nat) :
    doSub O gi ({ l with attrs := { l.attrs with iterate := it, minIter := mn, maxIter := mx } }, k)
      = doSub O gi (l, k) := by
  have hd : ∀ ddd h, doDest O { l.attrs with iterate := it, minIter := mn, maxIter := mx } ddd h
      = doDest O l.attrs ddd h := by
    intro ddd h
    have hr : destRange O h { l.attrs with iterate := it, minIter := mn, maxIter := mx } ddd.1
        = destRange O h l.attrs ddd.1 := rfl
    unfold doDest
    simp only [hr]
  funext h
  unfold doSub wrapCond
  have hg : ∀ h, doGroup O ⟨gi, some k⟩ { l.attrs with iterate := it, minIter := mn, maxIter := mx }
      (makeData l.eqs) h = doGroup O ⟨gi, some k⟩ l.attrs (makeData l.eqs) h := by
    intro h
    unfold doGroup
    rw [forEach_congr (fun ddd _ h => hd ddd h)]
  simp only [hg]

/-! ## Groups are identified by position, never by name -/

/-- `Group(name=…)` is a label for the profiling output only.  Two programs that differ only in
the names of their groups — none, unique ones, or the SAME name on several top-level groups and/or
sub-groups — make exactly the same calls, generated code and documented order alike: every
`condition` / `pre` / `post` in a trace carries the position (`GId`: `self.groups[i]`,
`self.groups[i].data[k]`) of the group that owns it, and that position is all the model ever
looks at. -/
theorem group_name_irrelevant (O : Oracle) (fuel : Nat) (P Q : Program)
    (hPQ : P.eraseNames = Q.eraseNames) :
    implTrace O fuel P = implTrace O fuel Q ∧ specTrace O P = specTrace O Q := by
  unfold implTrace specTrace
  rw [← implRun_eraseNames O fuel P, ← implRun_eraseNames O fuel Q,
      ← specRun_eraseNames O P, ← specRun_eraseNames O Q, hPQ]
  exact ⟨rfl, rfl⟩

/-- the same from any starting history, in the form "names can be dropped" -/
theorem group_names_can_be_erased (O : Oracle) (fuel : Nat) (P : Program) (h : Hist) :
    implRun O fuel P.eraseNames h = implRun O fuel P h ∧
    specRun O P.eraseNames h = specRun O P h :=
  ⟨implRun_eraseNames O fuel P h, specRun_eraseNames O P h⟩

/-- names play no part in well-formedness either -/
theorem eraseNames_wf (P : Program) : P.eraseNames.WF ↔ P.WF := by
  cases P with
  | flat eqs => exact Iff.rfl
  | groups gs =>
    have key : ∀ g : Top, g.eraseNames.WF ↔ g.WF := by
      intro g
      cases g with
      | leaf l => exact Iff.rfl
      | parent a subs =>
        show (a.eraseName.iterOK ∧ ∀ l ∈ subs.map Leaf.eraseNames, l.WF) ↔
          (a.iterOK ∧ ∀ l ∈ subs, l.WF)
        constructor
        · rintro ⟨h1, h2⟩
          exact ⟨h1, fun l hl => h2 l.eraseNames (List.mem_map_of_mem hl)⟩
        · rintro ⟨h1, h2⟩
          refine ⟨h1, fun l hl => ?_⟩
          obtain ⟨l', hl', rfl⟩ := List.mem_map.mp hl
          exact h2 l' hl'
    show (∀ g ∈ gs.map Top.eraseNames, g.WF) ↔ (∀ g ∈ gs, g.WF)
    constructor
    · intro h g hg
      exact (key g).mp (h g.eraseNames (List.mem_map_of_mem hg))
    · intro h g hg
      obtain ⟨g', hg', rfl⟩ := List.mem_map.mp hg
      exact (key g').mpr (h g' hg')

/-- A top-level group without equations is skipped entirely, callables included
(`% if len(group.data) > 0`) — the point excluded by `Program.WF`. -/
theorem empty_top_group_is_skipped (O : Oracle) (fuel gi : Nat) (a : Attrs) (h : Hist) :
    doTop O fuel (.leaf ⟨a, []⟩, gi) h = h := by
  simp [doTop, makeData, destList]

/-! ## Neighbours -/

/-- For one destination particle and one source: `loop_all` of every equation that has it (user
order) with the neighbour list, then for every neighbour the NNPS returned — in that order, none
filtered out, ghosts or not — `loop` of every equation that has it (user order). -/
theorem src_particle_calls (O : Oracle) (d s : Nat) (g : List Equation) (i : Nat) (h : Hist) :
    srcParticle O d s g i h =
      ((g.filter (·.has .loopAll)).map (fun e => Event.loopAll e.id d s i (O.nbrs h d s i)) ++
       (O.nbrs h d s i).flatMap (fun j =>
          (g.filter (·.has .loop)).map (fun e => Event.loop e.id d s i j))).reverse ++ h := by
  rw [srcParticle_eq]
  unfold specSrcParticle specCalls
  simp only
  have emitAll : ∀ (l : List Equation) (mk : Equation → Event) (h : Hist),
      forEach l (fun e h => mk e :: h) h = (l.map mk).reverse ++ h := by
    intro l mk
    induction l with
    | nil => intro h; rfl
    | cons e l ih => intro h; simp [ih]
  have perNbr : ∀ (nb : List Nat) (h : Hist),
      forEach nb (fun j => forEach (g.filter (·.has .loop))
        (fun e h => Event.loop e.id d s i j :: h)) h =
      (nb.flatMap (fun j => (g.filter (·.has .loop)).map
        (fun e => Event.loop e.id d s i j))).reverse ++ h := by
    intro nb
    induction nb with
    | nil => intro h; rfl
    | cons j nb ih => intro h; simp [ih, emitAll]
  rw [emitAll, perNbr]
  simp


/-! ## Non-vacuity: concrete programs (checked by evaluation; these are tests, not the claim) -/

/-- a non-trivial program (iterated group with two destinations, a source-free equation, an
NNPS refresh; a conditional group with two sub-groups) meets `Program.WF` -/
example : Example.prog.WF := by decide

/-- …and on it, with a history-dependent oracle, both sides are the same 87 calls -/
example : implTrace Example.oracle 5 Example.prog = specTrace Example.oracle Example.prog ∧
    (implTrace Example.oracle 5 Example.prog).length = 87 := by
  decide +kernel

/-- groups that share a name keep their own callbacks: in `Example.sameNames` two top-level groups
are both called `density` and two sub-groups both `correct`; with the first `density` condition
False and the second True (first `correct` True, second False) the first group is skipped, the
second runs between ITS pre and post, sub-group 2.0 runs, 2.1 is skipped -/
example : implTrace Example.posOracle 1 Example.sameNames =
    [.cond ⟨0, none⟩ false,
     .cond ⟨1, none⟩ true, .pre ⟨1, none⟩, .init 2 0 0, .post ⟨1, none⟩,
     .pre ⟨2, none⟩,
     .cond ⟨2, some 0⟩ true, .pre ⟨2, some 0⟩, .init 3 0 0, .post ⟨2, some 0⟩,
     .cond ⟨2, some 1⟩ false,
     .post ⟨2, none⟩,
     .cond ⟨3, some 0⟩ true, .init 5 0 0, .post ⟨3, some 0⟩] ∧
    specTrace Example.posOracle Example.sameNames
      = implTrace Example.posOracle 1 Example.sameNames ∧
    Example.sameNames.WF ∧ Example.sameNames.eraseNames ≠ Example.sameNames := by decide +kernel

/-- `Program.WF` cannot be dropped: a top-level group without equations but with `pre` -/
example : implTrace Example.oracle 1 Example.emptyWithPre
    ≠ specTrace Example.oracle Example.emptyWithPre := by decide

/-- `Program.WF` cannot be dropped: `min_iterations = 3 > max_iterations = 2` runs 3 passes -/
example : implTrace Example.oracle 9 Example.minGtMax
    ≠ specTrace Example.oracle Example.minGtMax := by decide

/-- explicit stop beyond the real count: array 0 of the example oracle has 2 real particles and 3
in all; a default (`real=True`) group with `stop_idx=3` (numeric) works on 0, 1 and the ghost 2, with
`start_idx=1` on 1 and 2; without `stop_idx` on the real ones only -/
example : destRange Example.oracle [] { stop := some (.num 3) } 0 = [0, 1, 2] ∧
    destRange Example.oracle [] { start := .num 1, stop := some (.num 3) } 0 = [1, 2] ∧
    destRange Example.oracle [] { stop := some (.num 3), real := false } 0 = [0, 1, 2] ∧
    destRange Example.oracle [] {} 0 = [0, 1] := by decide

/-- hypotheses of `iteration_bounds` are satisfiable and the bound is attained -/
example : (1 : Nat) ≤ ({ iterate := true, minIter := 2, maxIter := 3 } : Attrs).maxIter ∧
    ({ iterate := true, minIter := 2, maxIter := 3 } : Attrs).minIter ≤ 3 := by decide

end PysphVerif.C03
