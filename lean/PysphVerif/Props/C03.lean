import PysphVerif.Lemmas.Schedule
/-!
# C03 — groups run in the documented order, over the documented particles

Property theorems only (helper lemmas live in `Lemmas/Schedule.lean`).  They are about
`Model/Schedule.lean`:

* `implTrace` transcribes `MegaGroup._make_data`, the mako template (`do_group`, the body of
  `compute`) and the helper's index-range / iteration / condition code;
* `specTrace` is the documented order, sentence by sentence.

`implTrace` is tied to the real pipeline (AccelerationEval → SPHCompiler → generated Cython →
compiled module) on every run by tracer equations (harness/c03.py).

All statements hold for every program (any number of groups, sub-groups, destinations, sources,
equations with any subset of hooks), every oracle — condition and convergence outcomes, array
sizes, named start/stop values and neighbour lists may depend arbitrarily on the history of calls
made so far — and every starting history.
-/
set_option linter.unusedSectionVars false
namespace PysphVerif.C03
open PysphVerif.Schedule

/-! ## `MegaGroup._make_data` preserves the user's order -/

/-- The regrouping by destination, then by source, is a family of plain `filter`s of the user's
equation list (so user order is kept everywhere), destinations and sources appear in order of
first appearance. -/
theorem megagroup_preserves_order (eqs : List Equation) (hnd : eqs.Nodup)
    (hs : ∀ e ∈ eqs, e.sources.Nodup) :
    (makeData eqs).map (·.1) = firstAppearance (eqs.map (·.dest)) ∧
    ∀ d, (makeDest eqs d).all = eqs.filter (fun e => e.dest == d) ∧
      (makeDest eqs d).noSrc = eqs.filter (fun e => e.dest == d && e.noSource) ∧
      (makeDest eqs d).sources =
        (firstAppearance ((eqs.filter (fun e => e.dest == d)).flatMap (·.sources))).map
          (fun s => (s, eqs.filter (fun e => e.dest == d && e.sources.contains s))) := by
  refine ⟨?_, fun d => ?_⟩
  · rw [makeData_eq eqs hnd hs, List.map_map]
    simp [Function.comp_def]
  · rw [makeDest_eq eqs d hnd hs]
    simp only [specData, srcDict, dictOf, List.filter_filter]
    refine ⟨trivial, ?_, ?_⟩
    · apply List.filter_congr; intro e _; exact Bool.and_comm _ _
    · apply List.map_congr_left; intro s _
      congr 1
      apply List.filter_congr; intro e _; exact Bool.and_comm _ _

/-- Without any hypothesis: every list the template iterates over is a sub-list (same relative
order) of what the user wrote. -/
theorem megagroup_sublists (eqs : List Equation) (d : Nat) :
    (makeDest eqs d).all.Sublist eqs ∧ (makeDest eqs d).noSrc.Sublist eqs := by
  suffices h : ∀ (l p : List Equation) (dd : DestData), dd.all.Sublist p → dd.noSrc.Sublist p →
      (l.foldl (destDataStep d) dd).all.Sublist (p ++ l) ∧
      (l.foldl (destDataStep d) dd).noSrc.Sublist (p ++ l) by
    simpa [makeDest] using h eqs [] ⟨[], [], []⟩ (by simp) (by simp)
  intro l
  induction l with
  | nil => intro p dd h1 h2; simpa using ⟨h1, h2⟩
  | cons e l ih =>
    intro p dd h1 h2
    have := ih (p ++ [e]) (destDataStep d dd e)
    simp only [List.append_assoc, List.singleton_append] at this
    simp only [List.foldl_cons]
    apply this
    · unfold destDataStep
      by_cases hd : (e.dest != d) = true
      · simp only [hd, if_true]; exact h1.trans (List.sublist_append_left _ _)
      · simp only [hd, Bool.false_eq_true, if_false]
        by_cases hc : dd.all.contains e = true <;> by_cases hn : e.noSource = true <;>
          simp only [hc, hn, if_true, Bool.false_eq_true, if_false]
        all_goals first
          | exact h1.trans (List.sublist_append_left _ _)
          | exact List.Sublist.append h1 (List.Sublist.refl _)
    · unfold destDataStep
      by_cases hd : (e.dest != d) = true
      · simp only [hd, if_true]; exact h2.trans (List.sublist_append_left _ _)
      · simp only [hd, Bool.false_eq_true, if_false]
        by_cases hn : e.noSource = true <;> simp only [hn, if_true, Bool.false_eq_true, if_false]
        · exact List.Sublist.append h2 (List.Sublist.refl _)
        · exact h2.trans (List.sublist_append_left _ _)

/-! ## The generated evaluation performs exactly the documented sequence of calls -/

/-- For every well-formed program, every oracle and enough fuel for the iterated groups, the
calls made by the generated `compute` are exactly the documented ones, in the documented order.
(`Program.WF`: no equation object twice in a group, no source named twice in one equation,
`1 ≤ max_iterations`, `min_iterations ≤ max_iterations` for iterated groups, a top-level group
without equations has no callables — see the theorems below for what happens otherwise.) -/
theorem implTrace_eq_specTrace (O : Oracle) (P : Program) (hwf : P.WF) (fuel : Nat)
    (hfuel : ∀ g ∈ specGroups P, g.maxIter ≤ fuel) :
    implTrace O fuel P = specTrace O P := by
  unfold implTrace specTrace
  rw [implRun_eq_specRun O fuel P hwf hfuel]

/-- The same from any starting history (a second `compute`, a later stage, …). -/
theorem implRun_eq_specRun_from (O : Oracle) (P : Program) (hwf : P.WF) (fuel : Nat)
    (hfuel : ∀ g ∈ specGroups P, g.maxIter ≤ fuel) (h : Hist) :
    implRun O fuel P h = specRun O P h :=
  implRun_eq_specRun O fuel P hwf hfuel h

/-! ## Destination indices -/

/-- `N` is `stop_idx` if given (number or named), else the number of real particles, or of all
particles when `real=False`. -/
theorem np_dest (O : Oracle) (h : Hist) (a : Attrs) (d : Nat) :
    npDest O h a d =
      match a.stop with
      | some (.num n) => n
      | some (.named k) => O.named h d k
      | none => if a.real then O.size h d true else O.size h d false := by
  unfold npDest
  cases a.stop with
  | none => cases a.real <;> rfl
  | some s => cases s <;> rfl

/-- Destination indices are exactly `range(start_idx, N)`. -/
theorem dest_range (O : Oracle) (h : Hist) (a : Attrs) (d i : Nat) :
    i ∈ destRange O h a d ↔ startIdx O h a d ≤ i ∧ i < npDest O h a d := by
  unfold destRange
  rw [List.mem_range'_1]
  omega

/-- …in increasing order, each once. -/
theorem dest_range_sorted (O : Oracle) (h : Hist) (a : Attrs) (d : Nat) :
    (destRange O h a d).Pairwise (· < ·) := by
  unfold destRange
  exact List.pairwise_lt_range'

end PysphVerif.C03
