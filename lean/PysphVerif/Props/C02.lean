import PysphVerif.Model.Codegen
import PysphVerif.Gen.Precomp
import PysphVerif.Lemmas.CodegenSort
import PysphVerif.Lemmas.CodegenClosure
import PysphVerif.Lemmas.CodegenWiring
import PysphVerif.Lemmas.CodegenGroups
import PysphVerif.Lemmas.CodegenOpts
import PysphVerif.Lemmas.CodegenIter
/-!
# C02 — compiled equations compute what the Python equation source says

Property theorems only (helper lemmas: `Lemmas/CodegenSort.lean`,
`Lemmas/CodegenClosure.lean`, `Lemmas/CodegenWiring.lean`, `Lemmas/CodegenGroups.lean`,
`Lemmas/CodegenOpts.lean`).  They are about
* the table `Gen/Precomp.lean`, regenerated from `equation.py::precomputed_symbols()`
  and `docs/source/design/equations.rst` on every run, and
* the model `Model/Codegen.lean` of `sort_precomputed`, `Group._setup_precomputed`,
  `MegaGroup._make_data`, the pointer / declaration / scratch-vector set-up and the call
  sites of the group callables (`_compute_group_map`, `get_condition_call`, `get_pre_call`,
  `get_post_call`) of `acceleration_eval_cython_helper.py`, and
* the model `Model/CodegenOpts.lean` of the destination loop limits (`get_dest_array_setup`,
  `get_parallel_range`: `Group(start_idx=, stop_idx=, real=)`) and of the attribute declarations
  of the equation wrapper classes (`get_equation_wrappers`, compyle `detect_type`).
What transpiled *user* code computes (compyle, Cython, g++) is outside every model
and is carried by differential execution in `harness/c02.py` (testing).
-/
set_option linter.unusedSectionVars false
namespace PysphVerif.Props.C02
open PysphVerif.Codegen PysphVerif.Gen.Precomp

/-! ## 1. the precomputed symbols are their documented formulas -/

/-- every documented formula is, statement for statement and operation for
operation (so also bit for bit in floating point), the code block of that symbol -/
theorem precomp_code_eq_doc :
    ∀ e ∈ docTable, codeTable.lookup e.1 = some e.2 := by decide

/-- the same for the symbols the documentation does not list, against the naming
convention of the documented `W*`/`DW*` family -/
theorem precomp_code_eq_conv :
    ∀ e ∈ convTable, codeTable.lookup e.1 = some e.2 := by decide

/-- no code block is left without a specification -/
theorem precomp_all_specified :
    ∀ e ∈ codeTable, (docTable ++ convTable).lookup e.1 = some e.2 := by decide

/-- semantic form: in every number system, for every particle data, kernel
functions and prior store, the code block of a symbol leaves the values its
documented formula denotes -/
theorem precomp_matches_doc {α : Type} [Add α] [Sub α] [Mul α] [Div α] [Neg α] [NatCast α]
    (env : Env α) (st : Store α) (s : String) (bd : Block)
    (h : (s, bd) ∈ docTable ++ convTable) :
    ∃ bc, codeTable.lookup s = some bc ∧ evalBlock env st bc = evalBlock env st bd := by
  refine ⟨bd, ?_, rfl⟩
  rcases List.mem_append.mp h with h | h
  · exact precomp_code_eq_doc (s, bd) h
  · exact precomp_code_eq_conv (s, bd) h

/-- the symbol sets the sort and the closure work with (`cb.symbols`) are the names
that occur in the translated blocks -/
theorem symbols_table_consistent :
    ∀ e ∈ codeTable, sortDedup (Block.names e.2) = symbolsTable.syms e.1 := by decide

/-- …and the table has one entry per code block, in the same order -/
theorem symbols_table_keys : symbolsTable.map (·.1) = codeTable.map (·.1) := by decide

example : (docTable.length, convTable.length, codeTable.length) = (14, 7, 21) := by decide

/-! ## 2. `sort_precomputed` -/

section sort
variable {ν : Type} [DecidableEq ν]

/-- the sorted result contains exactly the given symbols, each once -/
theorem sort_is_perm (le : ν → ν → Bool) (t : Table ν) (keys out : List ν) (hk : keys.Nodup)
    (h : sortPrecomputed le t keys = .ok out) : out.Perm keys :=
  sortPrecomputed_perm le t keys out hk h

/-- every symbol comes after all the symbols its code mentions: no element of
the result precedes one of its own dependencies, and each dependency does occur
strictly before -/
theorem sort_respects_deps (le : ν → ν → Bool) (t : Table ν) (keys out : List ν)
    (hk : keys.Nodup) (h : sortPrecomputed le t keys = .ok out) :
    out.Pairwise (fun x y => y ∉ depends t x) ∧
    ∀ x ∈ out, ∀ d ∈ depends t x, ∃ l1 l2, out = l1 ++ x :: l2 ∧ d ∈ l1 :=
  ⟨sortPrecomputed_pairwise le t keys out hk h,
   fun x hx d hd => sortPrecomputed_deps_before le t keys out hk h x d hx hd⟩

/-- on an acyclic dependency relation the `while pre_comp_names` loop ends within
`len(precomputed)` passes (the model's fuel) and the sort succeeds -/
theorem sort_terminates_on_dag (le : ν → ν → Bool) (t : Table ν) (keys : List ν)
    (hk : keys.Nodup) (hc : depsClosed t keys = true) (ha : Acyclic t keys) :
    ∃ out, sortPrecomputed le t keys = .ok out :=
  sortPrecomputed_terminates le t keys hk hc ha

end sort

/-- the shipped table is acyclic (decided on the regenerated table) -/
theorem precomp_table_acyclic : Acyclic symbolsTable (symbolsTable.map (·.1)) :=
  acyclic_of_acyclicB symbolsTable (by decide)

/-- why termination is a theorem: on a two-symbol cycle no pass assigns a weight
and the Python loop spins for ever (the model reports exhausted fuel) -/
theorem sort_diverges_on_cycle :
    sortPrecomputed strLe [("A", ["B"]), ("B", ["A"])] ["A", "B"] = .diverges := by decide

/-- and a symbol that mentions a precomputed symbol outside the given set raises -/
theorem sort_keyerror_when_unclosed :
    sortPrecomputed strLe symbolsTable ["RIJ"] = .keyError := by decide

example : sortPrecomputed strLe symbolsTable ["RIJ", "WIJ", "XIJ", "HIJ", "R2IJ"] =
    .ok ["HIJ", "XIJ", "R2IJ", "RIJ", "WIJ"] := by decide

/-! ## 3. `Group._setup_precomputed` -/

section closure
variable {ν : Type} [DecidableEq ν]

/-- the symbols of a group are the least set that contains the precomputed
symbols among the `loop` arguments and is closed under "is mentioned by the code
of"; it is duplicate free and consists of table keys -/
theorem closure_closed_minimal (t : Table ν) (args : List ν) :
    (∀ s ∈ args, t.has s = true → s ∈ closure t args) ∧
    ClosedUnder t (· ∈ closure t args) ∧
    (∀ S : ν → Prop, ClosedUnder t S → (∀ s ∈ args, t.has s = true → S s) →
      ∀ x ∈ closure t args, S x) ∧
    (closure t args).Nodup ∧ (∀ x ∈ closure t args, t.has x = true) :=
  ⟨closure_contains_args t args, closure_closed t args,
   fun S hS h0 => closure_minimal t args S hS h0, closure_nodup t args, closure_keys t args⟩

/-- so the sort that follows never meets a symbol without a weight entry -/
theorem setup_never_keyerror (le : ν → ν → Bool) (t : Table ν) (args : List ν) :
    setupPrecomputed le t args ≠ .keyError := by
  unfold setupPrecomputed sortPrecomputed
  rw [closure_depsClosed t args]
  simp only [Bool.not_true, Bool.false_eq_true, ↓reduceIte]
  split <;> simp

end closure

/-- with the shipped table, whatever the `loop` signatures of a group are, the
set-up succeeds: sorted symbols, all of the closure, dependencies first -/
theorem setup_ok_on_shipped_table (args : List String) :
    ∃ out, setupPrecomputed strLe symbolsTable args = .ok out ∧
      out.Perm (closure symbolsTable args) ∧
      out.Pairwise (fun x y => y ∉ depends symbolsTable x) := by
  obtain ⟨out, h⟩ := setupPrecomputed_ok strLe symbolsTable args precomp_table_acyclic
  exact ⟨out, h, sortPrecomputed_perm strLe symbolsTable _ out (closure_nodup _ _) h,
    sortPrecomputed_pairwise strLe symbolsTable _ out (closure_nodup _ _) h⟩

example : setupPrecomputed strLe symbolsTable ["d_idx", "s_idx", "d_au", "s_m", "DWIJ", "VIJ"] =
    .ok ["HIJ", "VIJ", "XIJ", "R2IJ", "RIJ", "DWIJ"] := by decide

/-! ## 4. pointer wiring -/

/-- a `d_*` name is never bound to the source and an `s_*` name never to the
destination, and each is bound to the array of its own name -/
theorem wiring_sound (t : Table Name) (eqs : List Eqn) :
    ∀ db ∈ wiring t eqs,
      (∀ a ∈ db.assigns, a.side = .dst ∧ isDstArr a.lhs = true ∧ a.prop = strip a.lhs) ∧
      (∀ sb ∈ db.srcs, ∀ a ∈ sb.assigns,
        a.side = .src ∧ isSrcArr a.lhs = true ∧ a.prop = strip a.lhs) :=
  wiring_sides t eqs

/-- every destination array a method of an equation names is bound, in the block of
the equation's destination, before any method runs -/
theorem wiring_covers_dest (t : Table Name) (eqs : List Eqn) (e : Eqn) (he : e ∈ eqs)
    (x : Name) (hx : x ∈ e.allArgs) (hd : isDstArr x = true) :
    ∃ db ∈ wiring t eqs, db.dest = e.dest ∧ e ∈ db.allEqs ∧
      (⟨x, .dst, strip x⟩ : Assign) ∈ db.assigns :=
  wiring_dest_cover t eqs e he x hx hd

/-- every source array a method names is bound in the block of each of the
equation's sources, where its loop runs -/
theorem wiring_covers_src (t : Table Name) (eqs : List Eqn) (e : Eqn) (he : e ∈ eqs)
    (s : Name) (hs : s ∈ e.sources) (x : Name) (hx : x ∈ e.allArgs) (hsrc : isSrcArr x = true) :
    ∃ db ∈ wiring t eqs, db.dest = e.dest ∧ ∃ sb ∈ db.srcs, sb.source = s ∧ e ∈ sb.eqs ∧
      (⟨x, .src, strip x⟩ : Assign) ∈ sb.assigns :=
  wiring_src_cover t eqs e he s hs x hx hsrc

/-- the arrays the precomputed formulas of a source block read are bound too:
source arrays in that block, destination arrays in the enclosing block -/
theorem wiring_covers_precomputed (t : Table Name) (eqs : List Eqn) :
    ∀ db ∈ wiring t eqs, ∀ sb ∈ db.srcs, ∀ p ∈ groupPrecomp t sb.eqs, ∀ x ∈ t.syms p,
      (isSrcArr x = true → (⟨x, .src, strip x⟩ : Assign) ∈ sb.assigns) ∧
      (isDstArr x = true → (⟨x, .dst, strip x⟩ : Assign) ∈ db.assigns) :=
  wiring_precomp_cover t eqs

/-- the declared C type of `d_p` / `s_p` is the C type of the property's carray,
provided all particle arrays that carry `p` agree on it (`hcons`; otherwise the
generated wrapper declares the attribute twice and does not compile) and a carray
class has one C type (`hfun`, true of cyarray by construction) -/
theorem wiring_types (pas : List PArr) (p cls cty : Name)
    (hex : ∃ pa ∈ pas, (p, cls, cty) ∈ pa.props)
    (hcons : ∀ pa ∈ pas, ∀ q ∈ pa.props, q.1 = p → q.2.2 = cty)
    (hfun : ∀ pa ∈ pas, ∀ q ∈ pa.props, ∀ pa' ∈ pas, ∀ q' ∈ pa'.props,
      q.2.1 = q'.2.1 → q.2.2 = q'.2.2) :
    lookupLast (knownTypes (allArrayNames pas)) ("d_" ++ p) = some (cty ++ "*") ∧
    lookupLast (knownTypes (allArrayNames pas)) ("s_" ++ p) = some (cty ++ "*") :=
  knownTypes_sound pas p cls cty hex hcons hfun

/-- per-thread scratch vectors: the parts of two threads do not overlap and lie
inside the allocation -/
theorem scratch_disjoint (size n i j k l : Nat) (hi : i < n) (hj : j < n) (hij : i ≠ j)
    (hk : k < size) (hl : l < size) :
    scratchOffset size i + k ≠ scratchOffset size j + l ∧
    scratchOffset size i + k < scratchAlloc size n :=
  scratch_parts size n i j k l hi hj hij hk hl

example : (wiring symbolsTable
    [{ uid := 0, name := "E", dest := "f", sources := ["s"], mInit := none, mInitPair := none,
       mLoop := some ["d_idx", "s_idx", "d_au", "s_m", "WIJ"], mLoopAll := none,
       mPostLoop := none }]).map (fun db => (db.dest, db.assigns.map (·.lhs),
         db.srcs.map (fun sb => (sb.source, sb.assigns.map (·.lhs))))) =
    [("f", ["d_au", "d_h", "d_x", "d_y", "d_z"], [("s", ["s_h", "s_m", "s_x", "s_y", "s_z"])])] := by
  decide +kernel

/-! ## 5. the callables of a group are called for that group

Whether the equations of a group run at all is decided by ITS `condition(t, dt)`, and ITS
`pre` / `post` run before / after it: each call site in the generated `compute` must refer to
the group in whose text it stands. -/

/-- the group objects are pairwise distinct (they are: each `MegaGroup` is a fresh object) -/
def DistinctObjects (gs : List GTop) : Prop := ((allNodes gs).map (fun np => np.1.uid)).Nodup

/-- Every `….condition(t, dt)`, `….pre()`, `….post()` of the generated `compute` refers to
`self.groups[i]` / `self.groups[i].data[k]` with (i, k) the POSITION of the group in whose text
the call stands — for every list of groups and sub-groups, whatever their `name`s are (none,
unique, or the same label on several of them). -/
theorem callsites_own_group (gs : List GTop) (hd : DistinctObjects gs) :
    ∀ s ∈ callSites gs, s.target = some s.site :=
  callSitesBy_own GNode.uid gs hd

/-- …and every callable a group has is called there: a group at position `p` with a
`condition` / `pre` / `post` has the site `(kind, p, p)`. -/
theorem callsites_complete (gs : List GTop) (hd : DistinctObjects gs) (np : GNode × GPos)
    (hnp : np ∈ allNodes gs) :
    (np.1.hasCond = true → (⟨.cond, np.2, some np.2⟩ : CallSite) ∈ callSites gs) ∧
    (np.1.hasPre = true → (⟨.pre, np.2, some np.2⟩ : CallSite) ∈ callSites gs) ∧
    (np.1.hasPost = true → (⟨.post, np.2, some np.2⟩ : CallSite) ∈ callSites gs) := by
  have hl : gmLookup (groupMapBy GNode.uid gs) np.1.uid = some np.2 := by
    apply gmLookup_of_mem
    · unfold groupMapBy; rw [List.map_map]; exact hd
    · unfold groupMapBy; exact List.mem_map.mpr ⟨np, hnp, rfl⟩
  have hsub := nodeSites_sub_callSitesBy GNode.uid gs np hnp
  refine ⟨fun h => hsub _ ?_, fun h => hsub _ ?_, fun h => hsub _ ?_⟩ <;>
    simp [nodeSites, siteIf, h, hl]

/-- the positions the map hands out are the positions of the group tree: top-level groups are
numbered in order, the sub-groups of each in order -/
theorem group_positions (gs : List GTop) :
    (allNodes gs).map (·.2) =
      gs.zipIdx.flatMap (fun gt =>
        (⟨gt.2, none⟩ : GPos) :: (List.range gt.1.subs.length).map (fun k => ⟨gt.2, some k⟩)) := by
  unfold allNodes
  rw [List.map_flatMap]
  congr 1
  funext gt
  unfold topNodes
  simp only [List.map_cons, List.map_map, List.cons.injEq, true_and]
  generalize gt.1.subs = l
  have : ∀ (l : List GNode) (n : Nat),
      (l.zipIdx n).map ((fun (np : GNode × GPos) => np.2) ∘
        (fun (sk : GNode × Nat) => (sk.1, (⟨gt.2, some sk.2⟩ : GPos)))) =
      (List.range' n l.length).map (fun k => (⟨gt.2, some k⟩ : GPos)) := by
    intro l
    induction l with
    | nil => intro n; rfl
    | cons a l ih => intro n; simp [List.range'_succ, ih]
  rw [this l 0, List.range_eq_range']

/-- Why the key must be the object: if the map were keyed by `group.name`, two groups with
the same label would share one entry (the later assignment wins) — the first group would be
run under the SECOND group's condition, between the second group's pre and post. -/
theorem name_keyed_map_misdispatches :
    callSitesBy GNode.name
      [⟨⟨0, "density", true, true, true⟩, []⟩, ⟨⟨1, "density", true, true, true⟩, []⟩] =
    [⟨.cond, ⟨0, none⟩, some ⟨1, none⟩⟩, ⟨.pre, ⟨0, none⟩, some ⟨1, none⟩⟩,
     ⟨.post, ⟨0, none⟩, some ⟨1, none⟩⟩,
     ⟨.cond, ⟨1, none⟩, some ⟨1, none⟩⟩, ⟨.pre, ⟨1, none⟩, some ⟨1, none⟩⟩,
     ⟨.post, ⟨1, none⟩, some ⟨1, none⟩⟩] := by decide

/-- two top-level groups labelled `density`, a parent whose sub-groups are both labelled `sweep`
and a sub-group labelled like a top-level group -/
def sameNameGroups : List GTop :=
  [⟨⟨0, "density", true, true, false⟩, []⟩, ⟨⟨1, "density", true, false, true⟩, []⟩,
   ⟨⟨2, "outer", false, true, true⟩,
    [⟨3, "sweep", true, true, false⟩, ⟨4, "sweep", true, false, true⟩,
     ⟨5, "density", false, true, false⟩]⟩]

/-- non-vacuity: distinct objects with shared names, and every site is its own -/
example : DistinctObjects sameNameGroups ∧
    callSites sameNameGroups =
      [⟨.cond, ⟨0, none⟩, some ⟨0, none⟩⟩, ⟨.pre, ⟨0, none⟩, some ⟨0, none⟩⟩,
       ⟨.cond, ⟨1, none⟩, some ⟨1, none⟩⟩, ⟨.post, ⟨1, none⟩, some ⟨1, none⟩⟩,
       ⟨.pre, ⟨2, none⟩, some ⟨2, none⟩⟩,
       ⟨.cond, ⟨2, some 0⟩, some ⟨2, some 0⟩⟩, ⟨.pre, ⟨2, some 0⟩, some ⟨2, some 0⟩⟩,
       ⟨.cond, ⟨2, some 1⟩, some ⟨2, some 1⟩⟩, ⟨.post, ⟨2, some 1⟩, some ⟨2, some 1⟩⟩,
       ⟨.pre, ⟨2, some 2⟩, some ⟨2, some 2⟩⟩,
       ⟨.post, ⟨2, none⟩, some ⟨2, none⟩⟩] :=
  ⟨by unfold DistinctObjects; decide, by decide⟩

/-! ## 6. the methods of a group run for the destination indices the group asks for

`Group(start_idx=a, stop_idx=b, real=r)`: every loop of the block of a destination runs over
`range(D_START_IDX, NP_DEST, 1)` with the two limits the generator emits. -/

/-- For every option value (integer — 0 and negative ones included —, name of a
property/constant, `None`), every destination and every run-time state: the indices the
generated loops visit are exactly the documented `range(start, stop)`. -/
theorem dest_range_is_documented_range (σ : RtEnv) (dest : Name) (real : Bool) (start : StartIdx)
    (stop : StopIdx) (i : Int) :
    i ∈ loopIndices σ dest real start stop ↔
      docStart σ dest start ≤ i ∧ i < docStop σ dest real stop := by
  unfold loopIndices
  rw [mem_pyRange]
  cases start <;> cases stop <;> rfl

/-- each index is visited once, in increasing order -/
theorem dest_range_length (σ : RtEnv) (dest : Name) (real : Bool) (start : StartIdx) (stop : StopIdx) :
    (loopIndices σ dest real start stop).length =
      (docStop σ dest real stop - docStart σ dest start).toNat := by
  unfold loopIndices
  rw [pyRange_length]
  cases start <;> cases stop <;> rfl

/-- `stop_idx` "works like a range stop parameter": a stop at or below the start — the integer
0 with the default start in particular — leaves the group without any destination particle -/
theorem stop_at_or_below_start_runs_nothing (σ : RtEnv) (dest : Name) (real : Bool)
    (start : StartIdx) (stop : StopIdx) (h : docStop σ dest real stop ≤ docStart σ dest start) :
    loopIndices σ dest real start stop = [] := by
  unfold loopIndices
  apply pyRange_eq_nil
  cases start <;> cases stop <;> exact h

theorem stop_zero_runs_nothing (σ : RtEnv) (dest : Name) (real : Bool) :
    loopIndices σ dest real (.num 0) (.num 0) = [] :=
  stop_at_or_below_start_runs_nothing σ dest real _ _ (Int.le_refl 0)

/-- the defaults: all (real) particles of the destination, each once -/
theorem default_limits_run_all (σ : RtEnv) (dest : Name) (real : Bool) :
    loopIndices σ dest real (.num 0) .all =
      (List.range (σ.size dest real)).map (fun (k : Nat) => (k : Int)) := by
  unfold loopIndices
  exact pyRange_zero _

/-- Why `is None` and not the truth value: a generator that tests `not stop_idx` agrees with
the real one on every option but the integer 0 — and there it runs the group over ALL particles
of the destination instead of none. -/
theorem falsy_stop_runs_everything :
    let σ : RtEnv := { first := fun _ _ => 0, size := fun _ _ => 3 }
    loopIndicesFalsy σ "fluid" true (.num 0) (.num 0) = [0, 1, 2] ∧
    loopIndices σ "fluid" true (.num 0) (.num 0) = [] := by decide

theorem falsy_stop_differs_only_at_zero (dest : Name) (real : Bool) (stop : StopIdx)
    (h : stop ≠ .num 0) : stopExprFalsy dest real stop = stopExpr dest real stop := by
  cases stop with
  | all => rfl
  | ref p => rfl
  | num n =>
    have : n ≠ 0 := fun hn => h (by rw [hn])
    simp [stopExprFalsy, stopExpr, this]

/-- non-vacuity: a limit given by a constant of the destination, a frozen front of 2 particles -/
example :
    let σ : RtEnv := { first := fun d p => if d = "fluid" ∧ p = "n_fixed" then 2 else 7,
                       size := fun _ _ => 5 }
    loopIndices σ "fluid" true (.num 0) (.ref "n_fixed") = [0, 1] ∧
    loopIndices σ "fluid" false (.ref "n_fixed") .all = [2, 3, 4] := by decide

/-! ## 7. an equation object is re-created in C with attribute types that hold its values

`self.<var> = <Cls>(**equations[i].__dict__)`: every instance of a class NAME goes through the
one `cdef class` generated for that name; a `cdef public long` attribute silently truncates a
Python float. -/

/-- (repaired generator, `declsMerge`) For every list of equation objects and every instance
in it: a numeric scalar attribute is declared with a C type that holds the value of THAT
instance — whatever the other instances of the same class name carry (the representative
must carry a numeric scalar there too). -/
theorem wrapper_decl_holds_every_instance (insts : List Inst) (e : Inst) (he : e ∈ insts)
    (a : Name) (t : PyTag) (n : Nat) (hta : tagIn e a = some t) (ht : t.rank = some n)
    (r : Inst) (hr : lastOf insts e.cls = some r) (u : PyTag) (hu : (a, u) ∈ r.attrs)
    (m : Nat) (hm : u.rank = some m) :
    ∃ ty, (a, ty) ∈ declsMerge insts e.cls ∧
      ty = detectType (mergedTag (instsOf insts e.cls) a u) ∧ holds ty t = true := by
  refine ⟨_, ?_, rfl, ?_⟩
  · unfold declsMerge
    rw [hr]
    exact List.mem_map.mpr ⟨(a, u), hu, rfl⟩
  · obtain ⟨c, hc, hle⟩ := mergedTag_rank_ge_mem (instsOf insts e.cls) a u m hm e
      (mem_instsOf insts e he) t hta n ht
    exact holds_of_rank_le _ _ c n hc ht hle

/-- where all instances of a name agree on the type of every attribute (what the existing
generator silently assumes) the repaired and the existing generator emit the same class -/
theorem wrapper_policies_agree_when_uniform (insts : List Inst) (c : Name)
    (h : ∀ r, lastOf insts c = some r → ∀ kv ∈ r.attrs, ∀ e ∈ instsOf insts c,
      tagIn e kv.1 = some kv.2 ∨ tagIn e kv.1 = none) :
    declsMerge insts c = declsLast insts c := by
  unfold declsMerge declsLast
  cases hl : lastOf insts c with
  | none => rfl
  | some r =>
    apply List.map_congr_left
    intro kv hkv
    rw [mergedTag_of_uniform _ _ _ (h r hl kv hkv)]

/-- Why the representative must be widened (finding on the pinned tree): typed from the LAST
instance alone, `[Scale(k=0.5), Scale(k=1)]` declares `long k`, which does not hold 0.5. -/
theorem last_instance_policy_truncates :
    let insts : List Inst := [⟨"Scale", [("k", .float)]⟩, ⟨"Scale", [("k", .int)]⟩]
    declsLast insts "Scale" = [("k", "long")] ∧ holds "long" .float = false ∧
    declsMerge insts "Scale" = [("k", "double")] := by decide

/-- Why the class text must be generated per evaluator: with a process-wide memo keyed by the
class NAME the second evaluator of a process gets the declarations made for the first —
`Scale(k=2)` first, then `Scale(k=0.5)` is re-created with `long k`. -/
theorem class_name_cache_goes_stale :
    cachedRun [[⟨"Scale", [("k", .int)]⟩], [⟨"Scale", [("k", .float)]⟩]] [] =
      [[("Scale", [("k", "long")])], [("Scale", [("k", "long")])]] ∧
    wrapperDecls declsLast [⟨"Scale", [("k", .float)]⟩] = [("Scale", [("k", "double")])] := by
  decide

example : wrapperDecls declsMerge
    [⟨"B", [("ca", .float), ("dest", .str)]⟩, ⟨"A", [("on", .bool)]⟩,
     ⟨"B", [("ca", .int), ("dest", .str)]⟩] =
    [("A", [("on", "int")]), ("B", [("ca", "double"), ("dest", "str")])] := by decide

/-! ## 8. iterated groups: how often the methods of a group run

`Model/CodegenIter.lean` §8 (`Group.get_converged_condition`, `get_iteration_init`,
`get_iteration_check`). -/

/-- The break test polls EVERY equation object of the group (sub-groups included), each once,
in order -- whichever class of its hierarchy defines `converged`. -/
theorem break_test_polls_every_equation (g : IterGroup) :
    polled g = g.equations.map (·.var) := polled_eq_map g

/-- The convergence factor of the generated break test is true exactly when the `converged()`
of each equation of the group is positive (Group docstring: "until each equation's
converged() ... returns with a positive value"). -/
theorem break_test_iff_each_converged (g : IterGroup) (st : Name → Bool) :
    allConverged (polled g) st = true ↔ ∀ e ∈ g.equations, st e.var = true := by
  rw [allConverged_iff, break_test_polls_every_equation]
  simp [List.mem_map]

/-- The generated loop makes the documented number of sweeps, for every `min_iterations ≤
max_iterations`, `1 ≤ max_iterations` and every behaviour of the equations: the FIRST sweep
`k ≥ max(1, min_iterations)` after which every equation reports convergence, and
`max_iterations` if there is none before; it never stops while an equation of the group
still reports `converged() < 0` unless `max_iterations` is reached. -/
theorem iterated_group_sweeps_documented (g : IterGroup) (mn mx : Nat)
    (st : Nat → Name → Bool) (h1 : 1 ≤ mx) (h2 : mn ≤ mx) :
    ∃ k, groupSweeps (polled g) mn mx st = some k ∧ 1 ≤ k ∧ mn ≤ k ∧ k ≤ mx ∧
      ((∀ e ∈ g.equations, st k e.var = true) ∨ k = mx) ∧
      ∀ j, 1 ≤ j → mn ≤ j → j < k → ∃ e ∈ g.equations, st j e.var = false := by
  obtain ⟨k, hk, a, b, c, d, e⟩ :=
    iterateFrom_spec mn mx (fun k => allConverged (polled g) (st k)) mx 1 h1 h2 (by omega)
  refine ⟨k, hk, a, c, b, ?_, ?_⟩
  · rcases d with d | d
    · exact Or.inl ((break_test_iff_each_converged g (st k)).1 d)
    · exact Or.inr d
  · intro j hj1 hj2 hj3
    have hf := e j hj1 hj3 hj2
    apply Classical.byContradiction
    intro hcon
    have : ∀ e ∈ g.equations, st j e.var = true := by
      intro e he
      cases hv : st j e.var with
      | true => rfl
      | false => exact absurd ⟨e, he, hv⟩ hcon
    have := (break_test_iff_each_converged g (st j)).2 this
    simp [this] at hf

/-- Why the break test must not be restricted to the equations whose OWN class body defines
`converged`: an equation that inherits `converged` from a base equation class (reports
convergence after the 3rd sweep) keeps the pinned loop going for 3 sweeps; polling by the
class `__dict__` leaves after `min_iterations` = 1 sweep. -/
theorem own_dict_polling_stops_early :
    let g := IterGroup.leaf [⟨"relax_weighted0", false⟩]
    let st : Nat → Name → Bool := fun k _ => decide (3 ≤ k)
    groupSweeps (polled g) 1 6 st = some 3 ∧ groupSweeps (polledOwnDict g) 1 6 st = some 1 := by
  decide

example : groupSweeps (polled (.parent [[⟨"a0", true⟩], [⟨"b0", false⟩, ⟨"c0", true⟩]])) 2 4
    (fun k v => if v = "b0" then decide (3 ≤ k) else true) = some 3 := by decide

/-! ## 9. the arrays a re-bound evaluator reads and writes

`Model/CodegenIter.lean` §9 (`ParticleArrayWrapper.set_array`,
`AccelerationEval.update_particle_arrays`). -/

/-- After `update_particle_arrays` every property AND every constant of the new array is
bound to the new array, whatever the wrapper was bound to before. -/
theorem rebind_binds_props_and_consts (w : Wrapper) (pa : PArrObj) (k : Name)
    (h : k ∈ pa.props ∨ k ∈ pa.consts) : setArray w pa k = some pa.id := by
  rw [setArray_get]
  rcases h with h | h <;> simp [h]

/-- ... for any history of re-bindings: with arrays of the same property and constant names
(the documented precondition of `update_particle_arrays`) every attribute the wrapper has ever
bound refers into the LAST array passed -- nothing stays bound to an array of before. -/
theorem rebind_history_leaves_nothing_stale (first : PArrObj) (later : List PArrObj) (last : PArrObj)
    (hp : ∀ pa ∈ first :: later, ∀ k, (k ∈ pa.props ∨ k ∈ pa.consts) →
      (k ∈ last.props ∨ k ∈ last.consts)) (k : Name) (i : Nat)
    (hk : rebindHistory first (later ++ [last]) k = some i) : i = last.id := by
  unfold rebindHistory at hk
  rw [List.foldl_append] at hk
  simp only [List.foldl_cons, List.foldl_nil] at hk
  rw [setArray_get] at hk
  split at hk
  · exact (Option.some.inj hk).symm
  · rename_i hn
    exfalso
    -- k was bound by some earlier array, whose names are names of `last`
    have key : ∀ (l : List PArrObj) (w : Wrapper),
        (∀ pa ∈ l, ∀ k, (k ∈ pa.props ∨ k ∈ pa.consts) → (k ∈ last.props ∨ k ∈ last.consts)) →
        (∀ j, w k = some j → (k ∈ last.props ∨ k ∈ last.consts) ∨ k = "tag" ∨ k = "pid" ∨ k = "gid") →
        ∀ j, l.foldl setArray w k = some j →
          (k ∈ last.props ∨ k ∈ last.consts) ∨ k = "tag" ∨ k = "pid" ∨ k = "gid" := by
      intro l
      induction l with
      | nil => intro w _ hw j hj; exact hw j hj
      | cons pa rest ih =>
        intro w hl hw j hj
        simp only [List.foldl_cons] at hj
        apply ih (setArray w pa) (fun q hq => hl q (List.mem_cons_of_mem _ hq)) _ j hj
        intro j' hj'
        rw [setArray_get] at hj'
        split at hj'
        · rename_i hin
          rcases hin with hin | hin | hin
          · exact Or.inl (hl pa (List.mem_cons_self) k (Or.inr hin))
          · exact Or.inl (hl pa (List.mem_cons_self) k (Or.inl hin))
          · exact Or.inr hin
        · exact hw j' hj'
    have := key later (initWrapper first)
      (fun q hq => hp q (List.mem_cons_of_mem _ hq))
      (by
        intro j hj
        unfold initWrapper at hj
        rw [setArray_get] at hj
        split at hj
        · rename_i hin
          rcases hin with hin | hin | hin
          · exact Or.inl (hp first (List.mem_cons_self) k (Or.inr hin))
          · exact Or.inl (hp first (List.mem_cons_self) k (Or.inl hin))
          · exact Or.inr hin
        · cases hj) i hk
    rcases this with (h | h) | h
    · exact hn (Or.inr (Or.inl h))
    · exact hn (Or.inl h)
    · exact hn (Or.inr (Or.inr h))

/-- Why the constants must be bound in `set_array` and not once in `__init__`: after
`update_particle_arrays` the properties refer into the new array and the constant still into
the array the evaluator was built with -- reads see the old value, writes land in the old array. -/
theorem consts_bound_once_go_stale :
    let a0 : PArrObj := ⟨0, ["x", "rho"], ["fac"]⟩
    let a1 : PArrObj := ⟨1, ["x", "rho"], ["fac"]⟩
    rebindHistoryConstsOnce a0 [a1] "rho" = some 1 ∧ rebindHistoryConstsOnce a0 [a1] "fac" = some 0 ∧
    rebindHistory a0 [a1] "fac" = some 1 := by decide

example : rebindHistory ⟨0, ["x"], ["c0"]⟩ [⟨1, ["x"], ["c0"]⟩, ⟨2, ["x"], ["c0"]⟩] "c0" = some 2 := by
  decide

end PysphVerif.Props.C02
