import PysphVerif.Lemmas.Interp
/-!
# C14 — interpolation of particle data obeys its defining formulas

Property theorems only (helper lemmas live in `Lemmas/Interp.lean`).  They are
about `Model/Interp.lean`, which transcribes the interpolation equations of
`pysph/tools/interpolator.py` as left folds over the neighbour list a
destination point sees, and the `Interpolator`/`SPHEvaluator` bindings as a state
machine; the model is tied to the compiled code by bit-exact differential
execution (`harness/c14.py`).

All numeric statements hold over every linearly ordered field `α`, every
neighbour list (any length, any order, any number of source arrays
concatenated), arbitrary kernel values `w` (the kernel is a parameter: sign
hypotheses are stated where they are needed), arbitrary masses/densities, and
the threshold `tol` (`1e-12` in the code).  `sumOver g nbrs` is `Σ_j g j`.
-/
set_option linter.unusedSectionVars false
set_option linter.unusedVariables false
namespace PysphVerif.C14
open PysphVerif.Interp

variable {α : Type} [Field α] [LinearOrder α] [IsStrictOrderedRing α]

/-! ## Shepard -/

/-- 'shepard' returns `Σ w f / Σ w` when `Σ w` exceeds the threshold and the
un-normalised `Σ w f` otherwise. -/
theorem shepard_is_weighted_mean (tol : α) (nbrs : List (Nbr α)) :
    shepard tol nbrs =
      if tol < sumOver (fun nb => nb.w) nbrs then
        sumOver (fun nb => nb.w * nb.f) nbrs / sumOver (fun nb => nb.w) nbrs
      else sumOver (fun nb => nb.w * nb.f) nbrs := by
  simp [shepard, normPost, shepard_fold]

/-- With non-negative kernel values the Shepard value lies between the smallest
and the largest of the CONTRIBUTING source values (those with `w > 0`). -/
theorem weighted_mean_bounds (tol lo hi : α) (nbrs : List (Nbr α)) (htol : 0 ≤ tol)
    (hw : ∀ nb ∈ nbrs, 0 ≤ nb.w)
    (hden : tol < sumOver (fun nb => nb.w) nbrs)
    (hf : ∀ nb ∈ nbrs, 0 < nb.w → lo ≤ nb.f ∧ nb.f ≤ hi) :
    lo ≤ shepard tol nbrs ∧ shepard tol nbrs ≤ hi := by
  rw [shepard_is_weighted_mean, if_pos hden]
  exact weighted_mean_between (fun nb => nb.w) (fun nb => nb.f) nbrs lo hi hw hf
    (lt_of_le_of_lt htol hden)

/-- A field that is constant on the contributing sources is reproduced exactly
(no sign condition on the kernel). -/
theorem shepard_constant (tol c : α) (nbrs : List (Nbr α)) (htol : 0 ≤ tol)
    (hden : tol < sumOver (fun nb => nb.w) nbrs)
    (hf : ∀ nb ∈ nbrs, nb.w ≠ 0 → nb.f = c) :
    shepard tol nbrs = c := by
  rw [shepard_is_weighted_mean, if_pos hden,
    weighted_sum_const (fun nb => nb.w) (fun nb => nb.f) nbrs c hf]
  have : sumOver (fun nb => nb.w) nbrs ≠ 0 := ne_of_gt (lt_of_le_of_lt htol hden)
  field_simp

/-- Where no source is in range (no neighbour at all, or every kernel value
zero) the result is zero — for all five scalar accumulations. -/
theorem zero_when_no_source_in_range (tol : α) (nbrs : List (Nbr α)) (htol : 0 ≤ tol)
    (hw : ∀ nb ∈ nbrs, nb.w = 0) :
    shepard tol nbrs = 0 ∧ sph nbrs = 0 ∧ splash nbrs = 0 ∧ splashNorm tol nbrs = 0 := by
  have h1 : sumOver (fun nb => nb.w) nbrs = 0 := sumOver_zero hw
  have h2 : sumOver (fun nb => nb.w * nb.f) nbrs = 0 :=
    sumOver_zero (fun nb hnb => by simp [hw nb hnb])
  have h3 : sumOver (fun nb => nb.m / nb.rho * nb.w * nb.f) nbrs = 0 :=
    sumOver_zero (fun nb hnb => by simp [hw nb hnb])
  have h4 : sumOver (fun nb => nb.m / nb.rho * nb.w) nbrs = 0 :=
    sumOver_zero (fun nb hnb => by simp [hw nb hnb])
  refine ⟨?_, ?_, ?_, ?_⟩
  · rw [shepard_is_weighted_mean, h1, h2]; simp
  · unfold sph
    rw [foldl_step_eq sphStep (fun nb => nb.m / nb.rho * nb.w * nb.f) (fun _ _ => rfl), h3]; simp
  · unfold splash
    rw [foldl_step_eq splashStep (fun nb => nb.m / nb.rho * nb.w * nb.f) (fun _ _ => rfl), h3]
    simp
  · simp [splashNorm, normPost, splashNorm_fold, h3, h4]

/-- Below the threshold the (un-normalised) Shepard value is at most
`tol · max|f|`: "zero" to the code's own accuracy. -/
theorem shepard_small_below_threshold (tol F : α) (nbrs : List (Nbr α))
    (hw : ∀ nb ∈ nbrs, 0 ≤ nb.w) (hF0 : 0 ≤ F) (hF : ∀ nb ∈ nbrs, |nb.f| ≤ F)
    (hden : ¬ tol < sumOver (fun nb => nb.w) nbrs) :
    |shepard tol nbrs| ≤ tol * F := by
  rw [shepard_is_weighted_mean, if_neg hden]
  have hub : sumOver (fun nb => nb.w * nb.f) nbrs ≤ sumOver (fun nb => nb.w * F) nbrs :=
    sumOver_le (fun nb hnb => mul_le_mul_of_nonneg_left
      (le_trans (le_abs_self _) (hF nb hnb)) (hw nb hnb))
  have hlb : sumOver (fun nb => nb.w * (-F)) nbrs ≤ sumOver (fun nb => nb.w * nb.f) nbrs :=
    sumOver_le (fun nb hnb => mul_le_mul_of_nonneg_left
      (by have := hF nb hnb; have := neg_abs_le nb.f; linarith) (hw nb hnb))
  have e1 : sumOver (fun nb => nb.w * F) nbrs = F * sumOver (fun nb => nb.w) nbrs := by
    rw [← sumOver_mul_left]; exact sumOver_congr (fun nb _ => by ring)
  have e2 : sumOver (fun nb => nb.w * (-F)) nbrs = -(F * sumOver (fun nb => nb.w) nbrs) := by
    rw [← neg_mul, ← sumOver_mul_left]; exact sumOver_congr (fun nb _ => by ring)
  have hW : 0 ≤ sumOver (fun nb => nb.w) nbrs := sumOver_nonneg hw
  have hle : sumOver (fun nb => nb.w) nbrs ≤ tol := not_lt.mp hden
  rw [abs_le]
  rw [e1] at hub
  rw [e2] at hlb
  constructor
  · have : F * sumOver (fun nb => nb.w) nbrs ≤ tol * F := by
      rw [mul_comm]; exact mul_le_mul_of_nonneg_right hle hF0
    linarith
  · have : F * sumOver (fun nb => nb.w) nbrs ≤ tol * F := by
      rw [mul_comm]; exact mul_le_mul_of_nonneg_right hle hF0
    linarith

/-! ## sph, splash, splash_norm: the documented sums -/

/-- 'sph': `Σ_j (m_j/ρ_j) W_ij f_j` -/
theorem sph_is_documented_sum (nbrs : List (Nbr α)) :
    sph nbrs = sumOver (fun nb => nb.m / nb.rho * nb.w * nb.f) nbrs := by
  unfold sph
  rw [foldl_step_eq sphStep (fun nb => nb.m / nb.rho * nb.w * nb.f) (fun _ _ => rfl)]; ring

/-- 'splash': `Σ_j (m_j/ρ_j) W(r_ij, h_i) f_j` (the record's `w` is `WI`) -/
theorem splash_is_documented_sum (nbrs : List (Nbr α)) :
    splash nbrs = sumOver (fun nb => nb.m / nb.rho * nb.w * nb.f) nbrs := by
  unfold splash
  rw [foldl_step_eq splashStep (fun nb => nb.m / nb.rho * nb.w * nb.f) (fun _ _ => rfl)]; ring

/-- **user-supplied equation reading array constants** (`Interpolator(equations=…)`,
`SPHEvaluator`): the probe equation returns `gain · Σⱼ (mⱼ/rho0ⱼ) Wᵢⱼ fⱼ` with
`rho0ⱼ` the constant of the array neighbour `j` lives in and `gain` the constant
of the destination array; with `gain = 1` and the per-particle density in place
of `rho0` it is the 'sph' sum. -/
theorem sph_const_is_documented_sum (gain : α) (nbrs : List (Nbr α)) :
    sphConst gain nbrs = gain * sumOver (fun nb => nb.m / nb.rho * nb.w * nb.f) nbrs ∧
    sphConst 1 nbrs = sph nbrs := by
  have h : ∀ g : α, sphConst g nbrs = g * sumOver (fun nb => nb.m / nb.rho * nb.w * nb.f) nbrs := by
    intro g
    unfold sphConst
    rw [foldl_step_eq (sphConstStep g) (fun nb => g * (nb.m / nb.rho * nb.w * nb.f))
      (fun acc nb => by simp only [sphConstStep]; ring), sumOver_mul_left]
    ring
  refine ⟨h gain, ?_⟩
  rw [h 1]
  unfold sph
  rw [foldl_step_eq sphStep (fun nb => nb.m / nb.rho * nb.w * nb.f) (fun _ _ => rfl)]
  ring

/-- 'splash_norm': `Σ_j V_j W(r_ij,h_j) f_j / Σ_j V_j W(r_ij,h_j)` above the
threshold, the un-normalised sum otherwise -/
theorem splash_norm_is_documented_sum (tol : α) (nbrs : List (Nbr α)) :
    splashNorm tol nbrs =
      if tol < sumOver (fun nb => nb.m / nb.rho * nb.w) nbrs then
        sumOver (fun nb => nb.m / nb.rho * nb.w * nb.f) nbrs /
          sumOver (fun nb => nb.m / nb.rho * nb.w) nbrs
      else sumOver (fun nb => nb.m / nb.rho * nb.w * nb.f) nbrs := by
  simp [splashNorm, normPost, splashNorm_fold]

/-- 'splash_norm' is a weighted mean too: with non-negative weights `V_j W_j` it
stays between the extreme contributing values. -/
theorem splash_norm_bounds (tol lo hi : α) (nbrs : List (Nbr α)) (htol : 0 ≤ tol)
    (hw : ∀ nb ∈ nbrs, 0 ≤ nb.m / nb.rho * nb.w)
    (hden : tol < sumOver (fun nb => nb.m / nb.rho * nb.w) nbrs)
    (hf : ∀ nb ∈ nbrs, 0 < nb.m / nb.rho * nb.w → lo ≤ nb.f ∧ nb.f ≤ hi) :
    lo ≤ splashNorm tol nbrs ∧ splashNorm tol nbrs ≤ hi := by
  rw [splash_norm_is_documented_sum, if_pos hden]
  exact weighted_mean_between (fun nb => nb.m / nb.rho * nb.w) (fun nb => nb.f) nbrs lo hi hw hf
    (lt_of_le_of_lt htol hden)

/-- the density 'order1' first recomputes for every source particle:
`ρ_j = Σ_k m_k W_jk` -/
theorem summation_density_is_sum (nbrs : List (Nbr α)) :
    summationDensity nbrs = sumOver (fun nb => nb.m * nb.w) nbrs := by
  unfold summationDensity
  rw [foldl_step_eq rhoStep (fun nb => nb.m * nb.w) (fun _ _ => rfl)]; ring

/-! ## the value depends only on the set of in-range sources -/

/-- all scalar results in terms of sums (used below) -/
theorem results_as_sums (tol : α) (nbrs : List (Nbr α)) :
    shepard tol nbrs = normPost tol ⟨sumOver (fun nb => nb.w * nb.f) nbrs,
      sumOver (fun nb => nb.w) nbrs⟩ ∧
    splashNorm tol nbrs = normPost tol ⟨sumOver (fun nb => nb.m / nb.rho * nb.w * nb.f) nbrs,
      sumOver (fun nb => nb.m / nb.rho * nb.w) nbrs⟩ := by
  simp [shepard, splashNorm, shepard_fold, splashNorm_fold]

/-- The order in which the neighbour structure hands out the neighbours (and the
order of the source arrays) does not matter. -/
theorem neighbour_order_irrelevant (tol : α) (d : Pos α) {l1 l2 : List (Nbr α)}
    (h : l1.Perm l2) :
    shepard tol l1 = shepard tol l2 ∧ sph l1 = sph l2 ∧ splash l1 = splash l2 ∧
    splashNorm tol l1 = splashNorm tol l2 ∧
    (∀ r c, momentEntry d l1 r c = momentEntry d l2 r c) ∧
    (∀ r, psphEntry l1 r = psphEntry l2 r) := by
  refine ⟨?_, ?_, ?_, ?_, ?_, ?_⟩
  · rw [(results_as_sums tol l1).1, (results_as_sums tol l2).1, sumOver_perm _ h, sumOver_perm _ h]
  · rw [sph_is_documented_sum, sph_is_documented_sum, sumOver_perm _ h]
  · rw [splash_is_documented_sum, splash_is_documented_sum, sumOver_perm _ h]
  · rw [(results_as_sums tol l1).2, (results_as_sums tol l2).2, sumOver_perm _ h, sumOver_perm _ h]
  · intro r c; rw [momentEntry_eq, momentEntry_eq, sumOver_perm _ h]
  · intro r; rw [psphEntry_eq, psphEntry_eq, sumOver_perm _ h]

/-- Sources outside the kernel support (`w = 0`) contribute nothing: visiting
more candidates than necessary, or fewer as long as every source with `w ≠ 0`
is visited, gives the same value. -/
theorem out_of_range_sources_irrelevant (tol : α) (nbrs : List (Nbr α)) :
    let inRange := nbrs.filter (fun nb => decide (nb.w ≠ 0))
    shepard tol inRange = shepard tol nbrs ∧ sph inRange = sph nbrs ∧
    splash inRange = splash nbrs ∧ splashNorm tol inRange = splashNorm tol nbrs := by
  have hz : ∀ (g : Nbr α → α), (∀ nb, nb.w = 0 → g nb = 0) →
      sumOver g (nbrs.filter (fun nb => decide (nb.w ≠ 0))) = sumOver g nbrs := by
    intro g hg
    apply sumOver_filter
    intro nb _ hk
    exact hg nb (by simpa using hk)
  refine ⟨?_, ?_, ?_, ?_⟩
  · rw [(results_as_sums tol _).1, (results_as_sums tol nbrs).1,
      hz _ (fun nb h => by simp [h]), hz _ (fun nb h => h)]
  · rw [sph_is_documented_sum, sph_is_documented_sum, hz _ (fun nb h => by simp [h])]
  · rw [splash_is_documented_sum, splash_is_documented_sum, hz _ (fun nb h => by simp [h])]
  · rw [(results_as_sums tol _).2, (results_as_sums tol nbrs).2,
      hz _ (fun nb h => by simp [h]), hz _ (fun nb h => by simp [h])]

/-- Several source arrays: every sum is the sum of the per-array sums (no
array's contribution can be missing from the defined value). -/
theorem source_arrays_add_up (g : Nbr α → α) (perArray : List (List (Nbr α))) :
    sumOver g perArray.flatten = (perArray.map (sumOver g)).sum := by
  induction perArray with
  | nil => simp
  | cons l ls ih => simp [sumOver_append, ih]

/-! ## order1 -/

/-- `Σ_{c < n} M[r][c]·x[c]` for the moment matrix of destination `d` -/
def momentRow (d : Pos α) (nbrs : List (Nbr α)) (n r : Nat) (x : Nat → α) : α :=
  ((List.range n).map (fun c => momentEntry d nbrs r c * x c)).sum

/-- value and gradient of the affine field `a + g·x` at `d`, as the unknown
vector `(f(d), ∂x f, ∂y f, ∂z f)` -/
def affineSol (a : α) (g : Nat → α) (d : Pos α) : Nat → α
  | 0 => a + g 0 * d.x + g 1 * d.y + g 2 * d.z
  | k + 1 => g k

/-- The right-hand side 'order1' accumulates for an affine field IS the moment
matrix applied to (value, gradient) of that field at the destination — for every
kernel, every neighbour set, every choice of volumes `m/ρ`. -/
theorem order1_system_of_affine_field (d : Pos α) (nbrs : List (Nbr α)) (a : α) (g : Nat → α)
    (hf : ∀ nb ∈ nbrs, nb.f = a + g 0 * nb.sx + g 1 * nb.sy + g 2 * nb.sz) (r : Nat) :
    psphEntry nbrs r = momentRow d nbrs 4 r (affineSol a g d) := by
  have key : ∀ nb ∈ nbrs, psphTerm r nb =
      momentTerm d r 0 nb * affineSol a g d 0 + momentTerm d r 1 nb * g 0 +
      momentTerm d r 2 nb * g 1 + momentTerm d r 3 nb * g 2 := by
    intro nb hnb
    apply psphTerm_affine
    rw [hf nb hnb]
    simp only [affineSol, xij]
    ring
  rw [psphEntry_eq, sumOver_congr key]
  simp only [momentRow, momentEntry_eq, List.range_succ, List.range_zero, List.map_append,
    List.map_cons, List.map_nil, List.nil_append, List.sum_append, List.sum_cons, List.sum_nil,
    affineSol]
  rw [sumOver_add, sumOver_add, sumOver_add]
  have e : ∀ (c : Nat) (v : α), sumOver (fun nb => momentTerm d r c nb * v) nbrs =
      sumOver (momentTerm d r c) nbrs * v := by
    intro c v
    rw [mul_comm, ← sumOver_mul_left]; exact sumOver_congr (fun nb _ => by ring)
  rw [e, e, e, e]
  ring

/-- In `dim` dimensions only the leading `(dim+1)×(dim+1)` block is solved; for
a field that does not vary in the unused directions the truncated system holds
as well. -/
theorem order1_truncated_system (d : Pos α) (nbrs : List (Nbr α)) (a : α) (g : Nat → α)
    (hf : ∀ nb ∈ nbrs, nb.f = a + g 0 * nb.sx + g 1 * nb.sy + g 2 * nb.sz)
    (dim : Nat) (hdim : dim ≤ 3) (hg : ∀ k, dim ≤ k → g k = 0) (r : Nat) :
    psphEntry nbrs r = momentRow d nbrs (dim + 1) r (affineSol a g d) := by
  rw [order1_system_of_affine_field d nbrs a g hf r]
  have h3 : dim = 0 ∨ dim = 1 ∨ dim = 2 ∨ dim = 3 := by omega
  rcases h3 with h | h | h | h <;> subst h <;>
    simp [momentRow, List.range_succ, affineSol, hg]

/-- **order1 reproduces every linear field and its gradient wherever the moment
matrix is non-singular**: any exact solution `x` of the `(dim+1)`-system the code
hands to `gj_solve` is (value, gradient) of the field at the destination. -/
theorem order1_reproduces_linear (d : Pos α) (nbrs : List (Nbr α)) (a : α) (g : Nat → α)
    (hf : ∀ nb ∈ nbrs, nb.f = a + g 0 * nb.sx + g 1 * nb.sy + g 2 * nb.sz)
    (dim : Nat) (hdim : dim ≤ 3) (hg : ∀ k, dim ≤ k → g k = 0)
    (x : Nat → α)
    (hx : ∀ r < dim + 1, momentRow d nbrs (dim + 1) r x = psphEntry nbrs r)
    (hns : ∀ y : Nat → α, (∀ r < dim + 1, momentRow d nbrs (dim + 1) r y = 0) →
      ∀ c < dim + 1, y c = 0) :
    x 0 = a + g 0 * d.x + g 1 * d.y + g 2 * d.z ∧ ∀ k < dim, x (k + 1) = g k := by
  have hlin : ∀ r, momentRow d nbrs (dim + 1) r (fun c => x c - affineSol a g d c) =
      momentRow d nbrs (dim + 1) r x - momentRow d nbrs (dim + 1) r (affineSol a g d) := by
    intro r
    unfold momentRow
    generalize List.range (dim + 1) = L
    induction L with
    | nil => simp
    | cons c cs ih => simp only [List.map_cons, List.sum_cons, ih]; ring
  have hy := hns (fun c => x c - affineSol a g d c) (by
    intro r hr
    rw [hlin, hx r hr, order1_truncated_system d nbrs a g hf dim hdim hg r]; ring)
  constructor
  · have := hy 0 (by omega)
    simp only [affineSol] at this
    linarith
  · intro k hk
    have := hy (k + 1) (by omega)
    simp only [affineSol] at this
    linarith

/-- The defect repaired by `fix: first-order interpolation resets all four
components per point`: in the pinned code the z-gradient right-hand side of a
second `interpolate` call is off by exactly what the first call left behind, so
in 3-D the system no longer is the moment system of the field (components 0..2
were unaffected, which is why 1-D and 2-D results were right). -/
theorem pinned_order1_rhs_accumulates (prev : α) (nbrs : List (Nbr α)) (r : Nat) :
    psphEntryOrig prev nbrs r = psphEntry nbrs r + (if r = 3 then prev else 0) := by
  unfold psphEntryOrig
  rw [foldl_step_eq (psphStep r) (psphTerm r) (fun _ _ => rfl), psphEntry_eq]; ring

/-! ## bindings: interpolate always works on the latest rebinding -/

/-- After ANY history of `set_interpolation_points` / `update_particle_arrays` /
`update` / in-place changes following construction, `interpolate` fills, evaluates
and has binned exactly the arrays of the latest `update_particle_arrays` (or of
the constructor) plus the points object of the latest `set_interpolation_points`,
and returns the values of that points object. -/
theorem bindings_current (arrays : List Nat) (p : Nat) (ops : List Op)
    (hops : ∀ op ∈ ops, op.isInterp = true) :
    let r := interpolateReads (run (init arrays p) ops)
    r.filled = lastArrays arrays ops ∧
    r.result = lastPts p ops ∧
    r.evaluated = lastArrays arrays ops ++ [lastPts p ops] ∧
    r.binned = lastArrays arrays ops ++ [lastPts p ops] := by
  have hi := init_spec arrays p
  have hb := run_bound (init arrays p) ops hops hi.1
  have hap := run_arrays_pts (init arrays p) ops hops
  rw [hi.2.2.1, hi.2.2.2] at hap
  obtain ⟨h1, h2, _⟩ := hb
  simp only [interpolateReads]
  refine ⟨hap.1, hap.2, ?_, ?_⟩
  · rw [h1, hap.1, hap.2]
  · rw [h2, hap.1, hap.2]

/-- …and the neighbour lists it uses are those of the CURRENT particles whenever
the history does not end in an in-place change that was not followed by
`update()` or a rebinding. -/
theorem neighbours_current (arrays : List Nat) (p : Nat) (ops : List Op) (last : Op)
    (hops : ∀ op ∈ ops ++ [last], op.isInterp = true) (hlast : last.isMutate = false)
    (hlast2 : last.isTouch = false) :
    (interpolateReads (run (init arrays p) (ops ++ [last]))).neighboursCurrent = true := by
  have hb := run_bound (init arrays p) (ops ++ [last]) hops (init_spec arrays p).1
  have hf : Fresh (run (init arrays p) (ops ++ [last])) := by
    rw [run_append_singleton]; exact fresh_step _ _ hlast hlast2
  simp only [interpolateReads, Bool.and_eq_true, decide_eq_true_eq]
  exact ⟨hb.2.2, hf⟩

/-- In-place changes of DATA (masses, densities, property values, constants: `Op.touch`)
need no `update()`: whatever `interpolate` read, filled, had binned and whether its
neighbour lists were current is the same after any number of them — the Interpolator
holds references to the arrays, no copies of what is in them. -/
theorem data_changes_keep_bindings (s : IState) (os : List Nat) :
    run s (os.map Op.touch) = s := by
  induction os with
  | nil => rfl
  | cons o rest ih => simpa [run, step] using ih

theorem neighbours_current_after_data_changes (arrays : List Nat) (p : Nat) (ops : List Op)
    (last : Op) (os : List Nat)
    (hops : ∀ op ∈ ops ++ [last], op.isInterp = true) (hlast : last.isMutate = false)
    (hlast2 : last.isTouch = false) :
    (interpolateReads (run (init arrays p) ((ops ++ [last]) ++ os.map Op.touch))).neighboursCurrent
      = true := by
  have h := neighbours_current arrays p ops last hops hlast hlast2
  have e : run (init arrays p) ((ops ++ [last]) ++ os.map Op.touch) =
      run (run (init arrays p) (ops ++ [last])) (os.map Op.touch) := by
    simp [run, List.foldl_append]
  rw [e, data_changes_keep_bindings]; exact h

theorem neighbours_current_after_construction (arrays : List Nat) (p : Nat) :
    (interpolateReads (init arrays p)).neighboursCurrent = true := by
  have h := init_spec arrays p
  simp only [interpolateReads, Bool.and_eq_true, decide_eq_true_eq]
  exact ⟨h.1.2.2, h.2.1⟩

/-- `SPHEvaluator`: after any history of `update_particle_arrays` / `update` /
in-place changes, `evaluate` reads and has binned exactly the arrays of the latest
`update_particle_arrays` (or of the constructor). -/
def lastEvalObjs (o0 : List Nat) : List Op → List Nat
  | [] => o0
  | Op.evalUpdateArrays objs :: rest => lastEvalObjs objs rest
  | _ :: rest => lastEvalObjs o0 rest

/-- the SPHEvaluator's own operations -/
def isEvalOp : Op → Bool
  | Op.evalUpdateArrays _ => true
  | Op.update => true
  | Op.mutate _ => true
  | Op.touch _ => true
  | _ => false

theorem evaluator_bindings_current (objs : List Nat) (ops : List Op)
    (hops : ∀ op ∈ ops, isEvalOp op = true) :
    let r := interpolateReads (run (initEval objs) ops)
    r.evaluated = lastEvalObjs objs ops ∧ r.binned = lastEvalObjs objs ops := by
  have gen : ∀ (s : IState) (o0 : List Nat), s.evalObjs = o0 → s.nnps.objs = o0 →
      (run s ops).evalObjs = lastEvalObjs o0 ops ∧ (run s ops).nnps.objs = lastEvalObjs o0 ops := by
    induction ops with
    | nil => intro s o0 h1 h2; simp [run, lastEvalObjs, h1, h2]
    | cons op rest ih =>
      intro s o0 h1 h2
      have hrest : ∀ op ∈ rest, isEvalOp op = true := fun o ho => hops o (by simp [ho])
      simp only [run, List.foldl_cons]
      cases op with
      | evalUpdateArrays objs' =>
        exact ih hrest (step s (Op.evalUpdateArrays objs')) objs'
          (by simp [step, evalUpdateParticleArrays, setArrays, createNnps])
          (by simp [step, evalUpdateParticleArrays, setArrays, createNnps])
      | update =>
        exact ih hrest (step s Op.update) o0 (by simpa [step, updateOp] using h1)
          (by simpa [step, updateOp] using h2)
      | mutate o =>
        exact ih hrest (step s (Op.mutate o)) o0 (by simpa [step] using h1)
          (by simpa [step] using h2)
      | touch o =>
        exact ih hrest (step s (Op.touch o)) o0 (by simpa [step] using h1)
          (by simpa [step] using h2)
      | setPoints p => have := hops (Op.setPoints p) (by simp); simp [isEvalOp] at this
      | updateArrays as => have := hops (Op.updateArrays as) (by simp); simp [isEvalOp] at this
  have h := gen (initEval objs) objs (by simp [initEval, createNnps]) (by simp [initEval, createNnps])
  simpa [interpolateReads] using h

/-! ## constants: the evaluator reads the constants of the arrays currently bound -/

/-- After ANY history following construction, the constants (`s_<const>[0]`,
`d_<const>[0]`) the compiled loops read are those of the arrays of the latest
`update_particle_arrays` (or of the constructor) and of the points object of the
latest `set_interpolation_points` — the same objects whose per-particle
properties are read. -/
theorem constants_current (arrays : List Nat) (p : Nat) (ops : List Op)
    (hops : ∀ op ∈ ops, op.isInterp = true) :
    let r := interpolateReads (run (init arrays p) ops)
    r.constants = lastArrays arrays ops ++ [lastPts p ops] ∧ r.constants = r.evaluated := by
  have hc := run_constsBound (init arrays p) ops (constsBound_init arrays p)
  have hb := bindings_current arrays p ops hops
  simp only [interpolateReads] at hb ⊢
  unfold ConstsBound at hc
  exact ⟨by rw [hc]; exact hb.2.2.1, hc⟩

/-- `SPHEvaluator`: the same after any history of `update_particle_arrays` /
`update` / in-place changes. -/
theorem evaluator_constants_current (objs : List Nat) (ops : List Op)
    (hops : ∀ op ∈ ops, isEvalOp op = true) :
    (interpolateReads (run (initEval objs) ops)).constants = lastEvalObjs objs ops := by
  have hc := run_constsBound (initEval objs) ops (constsBound_initEval objs)
  have hb := evaluator_bindings_current objs ops hops
  simp only [interpolateReads] at hb ⊢
  unfold ConstsBound at hc
  rw [hc]; exact hb.1

/-- The VALUE of a constant the loop of the `k`-th array reads is the one stored
in the `k`-th currently bound array, whatever earlier arrays held (`cval o`: the
value stored in object `o`; arbitrary, so replaced arrays may carry any values). -/
theorem constant_values_current {γ : Type} (arrays : List Nat) (p : Nat) (ops : List Op)
    (hops : ∀ op ∈ ops, op.isInterp = true) (cval : Nat → γ) (k : Nat) :
    constRead (run (init arrays p) ops) cval k =
      ((lastArrays arrays ops ++ [lastPts p ops])[k]?).map cval := by
  have h := (constants_current arrays p ops hops).1
  simp only [interpolateReads] at h
  simp only [constRead, h]

/-! ## staging: the source values the equations read are those of the requested property -/

/-- An array that does not own the requested property contributes the value 0
for each of its particles (`data = 0.0` broadcast by `temp_prop[:] = data`);
an array that owns it contributes its values. -/
theorem missing_property_staged_as_zeros {β : Type} [OfNat β 0] (a : ArrData β) (prop : String) :
    (a.props.lookup prop = none →
      (stagedValues a prop).length = a.n ∧ ∀ v ∈ stagedValues a prop, v = 0) ∧
    (∀ vals, a.props.lookup prop = some vals → stagedValues a prop = vals) := by
  constructor
  · intro h
    simp only [stagedValues, h]
    exact ⟨List.length_replicate, fun v hv => (List.mem_replicate.mp hv).2⟩
  · intro vals h
    simp only [stagedValues, h]

/-- After ANY history following construction — rebindings, updates, in-place
changes AND earlier `interpolate` calls of any properties, starting from ANY
contents of the arrays' `temp_prop` (arrays may arrive with a used `temp_prop`) —
`interpolate(prop)` makes the evaluator read, for every source array it is bound
to, exactly the staged values of `prop`: the array's own values, or zeros when it
lacks the property. -/
theorem interpolate_stages_requested_property {β : Type} [OfNat β 0]
    (arrays : List Nat) (p : Nat) (temp0 : Temp β)
    (hist : List (HOp β)) (env : Nat → ArrData β) (prop : String)
    (hops : ∀ op ∈ bindOps hist, op.isInterp = true) :
    let h := hrun ⟨init arrays p, temp0⟩ (hist ++ [HOp.interp env prop])
    (interpolateReads h.s).evaluated =
      lastArrays arrays (bindOps hist) ++ [lastPts p (bindOps hist)] ∧
    ∀ o ∈ lastArrays arrays (bindOps hist), h.temp o = stagedValues (env o) prop := by
  intro h
  have hb := bindings_current arrays p (bindOps hist) hops
  have hs : h.s = run (init arrays p) (bindOps hist) := by
    show (hrun ⟨init arrays p, temp0⟩ (hist ++ [HOp.interp env prop])).s = _
    rw [hrun_append_singleton]
    show (hrun ⟨init arrays p, temp0⟩ hist).s = _
    rw [hrun_s]
  refine ⟨by rw [hs]; exact hb.2.2.1, ?_⟩
  intro o ho
  show (hrun ⟨init arrays p, temp0⟩ (hist ++ [HOp.interp env prop])).temp o = _
  rw [hrun_append_singleton]
  show stage env prop (hrun ⟨init arrays p, temp0⟩ hist).s.arrays _ o = _
  apply stage_mem
  rw [hrun_s]
  have := hb.1
  simp only [interpolateReads] at this
  rw [this]; exact ho

/-- **The value interpolated for a property depends only on the currently bound
arrays and that property, not on what was interpolated before**: two histories
(different earlier `interpolate` calls, different initial `temp_prop` contents,
different earlier rebindings) that end with the same bound source arrays stage
identical source values for `prop`. -/
theorem interpolate_independent_of_history {β : Type} [OfNat β 0]
    (arrays1 arrays2 : List Nat) (p1 p2 : Nat) (temp1 temp2 : Temp β)
    (hist1 hist2 : List (HOp β)) (env : Nat → ArrData β) (prop : String)
    (h1 : ∀ op ∈ bindOps hist1, op.isInterp = true)
    (h2 : ∀ op ∈ bindOps hist2, op.isInterp = true)
    (hsame : lastArrays arrays1 (bindOps hist1) = lastArrays arrays2 (bindOps hist2)) :
    ∀ o ∈ lastArrays arrays1 (bindOps hist1),
      (hrun ⟨init arrays1 p1, temp1⟩ (hist1 ++ [HOp.interp env prop])).temp o =
      (hrun ⟨init arrays2 p2, temp2⟩ (hist2 ++ [HOp.interp env prop])).temp o := by
  intro o ho
  rw [(interpolate_stages_requested_property arrays1 p1 temp1 hist1 env prop h1).2 o ho,
    (interpolate_stages_requested_property arrays2 p2 temp2 hist2 env prop h2).2 o (hsame ▸ ho)]

/-! ## the value returned at index `idx` belongs to the `idx`-th target point

`value p` stands for what the evaluator leaves for a target particle at position
`p` (any of the five methods, any component of order1: e.g.
`fun p => shepard tol (nbrs p)`); the coordinate arrays are arbitrary numpy views
(any shape, any strides, any offset into any buffer: C ordered, Fortran ordered,
transposed, sliced, reversed). -/

/-- **`interpolate(...)[idx]` is the method's value at `(x[idx], y[idx], z[idx])`**,
for every shape and every valid multi-index, whatever the memory layout of the
three coordinate arrays (before the final `squeeze`). -/
theorem result_index_matches_point {β γ : Type} [OfNat β 0] (value : Pos β → γ)
    (x y z : NdView β) (hy : y.shape = x.shape) (hz : z.shape = x.shape)
    (idx : List Nat) (hidx : inBounds x.shape idx = true) :
    interpolateGet value x y z idx = some (value ⟨x.elem idx, y.elem idx, z.elem idx⟩) := by
  have hk := ravelIndex_lt x.shape idx hidx
  simp only [interpolateGet, reshapedGet, List.getElem?_map,
    getElem?_targetPoints x y z hy hz _ hk, unravel_ravelIndex x.shape idx hidx, Option.map_some]

/-- The same for the array `interpolate` actually returns (`result.squeeze()`):
its entry `idx'` is the method's value at the point `x[idx]` where `idx` is `idx'`
with zeros inserted at the axes of length 1 — the element `x.squeeze()[idx']`
(`self.x`). -/
theorem squeezed_result_index_matches_point {β γ : Type} [OfNat β 0] (value : Pos β → γ)
    (x y z : NdView β) (hy : y.shape = x.shape) (hz : z.shape = x.shape)
    (idx' : List Nat) (hidx : inBounds (squeezeShape x.shape) idx' = true) :
    inBounds x.shape (unsqueeze x.shape idx') = true ∧
    interpolateSqueezedGet value x y z idx' =
      some (value ⟨x.elem (unsqueeze x.shape idx'), y.elem (unsqueeze x.shape idx'),
                   z.elem (unsqueeze x.shape idx')⟩) ∧
    ravelIndex x.shape (unsqueeze x.shape idx') = ravelIndex (squeezeShape x.shape) idx' := by
  have hb := inBounds_unsqueeze x.shape idx' hidx
  exact ⟨hb, result_index_matches_point value x y z hy hz _ hb,
    ravelIndex_unsqueeze x.shape idx' hidx⟩

/-- Nothing is lost or duplicated: multi-indices and target particles correspond
one to one (`unravel`/`ravelIndex` are mutually inverse on valid arguments), and
the value computed for the `k`-th target particle is returned at index
`unravel shape k`. -/
theorem every_target_particle_is_returned {β γ : Type} [OfNat β 0] (value : Pos β → γ)
    (x y z : NdView β) (k : Nat) (hk : k < size x.shape) :
    inBounds x.shape (unravel x.shape k) = true ∧
    ravelIndex x.shape (unravel x.shape k) = k ∧
    interpolateGet value x y z (unravel x.shape k) = ((targetPoints x y z).map value)[k]? := by
  refine ⟨inBounds_unravel _ _ hk, ravelIndex_unravel _ _ hk, ?_⟩
  simp only [interpolateGet, reshapedGet, ravelIndex_unravel _ _ hk]

/-- The target particles depend on the LOGICAL contents of the coordinate arrays
only: two arrays of the same shape with the same elements (a Fortran-ordered
array and its C-ordered copy, a strided view and its contiguous copy) give the
same particles in the same order. -/
theorem target_points_independent_of_layout {β : Type} [OfNat β 0] (x x' : NdView β)
    (hs : x'.shape = x.shape)
    (he : ∀ idx, inBounds x.shape idx = true → x'.elem idx = x.elem idx) :
    ravelC x' = ravelC x := by
  simp only [ravelC, hs]
  apply List.map_congr_left
  intro k hk
  exact he _ (inBounds_unravel _ _ (List.mem_range.mp hk))

/-! ## the target particles' smoothing length; dtype of the caller's arrays -/

/-- **Every target particle gets the largest real-particle smoothing length of
the source arrays, as a double, whatever the dtype `β` of the caller's coordinate
arrays** (any dtype whose `1` converts to `1`: float64, float32, int64, int32, …):
when `_get_max_h_in_arrays` returns `H` (no source array is empty), the `h` array is
`H` for each of the points, `H` bounds every source `h` from above, and `H` is
the `h` of some source particle provided smoothing lengths are `> -1` (they are
positive) and there is at least one source array. -/
theorem target_h_is_max_source_h {β : Type} [OfNat β 1] (cast : β → α) (hcast : cast 1 = 1)
    (hs : List (List α)) (xr : List β) (H : α) (hH : maxHInArrays hs = some H) :
    createTargetH cast hs xr = some (List.replicate xr.length H) ∧
    (∀ h ∈ hs, ∀ v ∈ h, v ≤ H) ∧
    (hs ≠ [] → (∀ h ∈ hs, ∀ v ∈ h, -1 < v) → ∃ h ∈ hs, H ∈ h) := by
  have hsp := maxHLoop_spec hs (-1) H hH
  refine ⟨?_, hsp.2.1, ?_⟩
  · simp only [createTargetH, hH, Option.map_some, targetH, scalarTimes, onesLike, List.map_map]
    congr 1
    rw [List.eq_replicate_iff]
    refine ⟨by simp, ?_⟩
    intro b hb
    obtain ⟨_, _, rfl⟩ := List.mem_map.mp hb
    simp [hcast]
  · intro hne hpos
    rcases hsp.2.2 with e | e
    · exfalso
      cases hs with
      | nil => exact hne rfl
      | cons h rest =>
        -- the first array is not empty (else `maxHInArrays` is `none`)
        cases h with
        | nil => simp [maxHInArrays, maxHLoop, npMax] at hH
        | cons v vs =>
          have h1 := hsp.2.1 (v :: vs) (by simp) v (by simp)
          have h2 := hpos (v :: vs) (by simp) v (by simp)
          rw [e] at h1
          exact absurd (lt_of_lt_of_le h2 h1) (lt_irrefl _)
    · exact e

/-- …so the smoothing length of the target particles does not depend on the
dtype or the values of the coordinate arrays: two sets of `n` points, given in
ANY two dtypes, get the same `h`. -/
theorem target_h_independent_of_points {β β' : Type} [OfNat β 1] [OfNat β' 1]
    (cast : β → α) (cast' : β' → α) (hc : cast 1 = 1) (hc' : cast' 1 = 1)
    (hs : List (List α)) (xr : List β) (xr' : List β') (hn : xr'.length = xr.length) :
    createTargetH cast' hs xr' = createTargetH cast hs xr := by
  cases hH : maxHInArrays hs with
  | none => simp [createTargetH, hH]
  | some H =>
    rw [(target_h_is_max_source_h cast hc hs xr H hH).1,
      (target_h_is_max_source_h cast' hc' hs xr' H hH).1, hn]

/-- The target particle made from element `idx` of a coordinate array of dtype
`β` sits at the double `cast (x[idx])`, for every shape, memory layout and dtype:
`result[idx]` (by `result_index_matches_point`, at `α`-valued views) is therefore
the value at the caller's point converted to double. -/
theorem target_coords_cast_index {β : Type} [OfNat β 0] (cast : β → α) (x : NdView β)
    (idx : List Nat) (hidx : inBounds x.shape idx = true) :
    (castRavel cast x)[ravelIndex x.shape idx]? = some (cast (x.elem idx)) := by
  have hk := ravelIndex_lt x.shape idx hidx
  simp [castRavel, ravelC, hk, unravel_ravelIndex x.shape idx hidx]

/-! ## non-vacuity: concrete neighbour lists / histories meeting the hypotheses -/

/-- fluid (object 1: `p`, `T`) and solid (object 2: `p` only, arriving with a used
`temp_prop`): `interpolate('T')` after `interpolate('p')` stages zeros for the
solid, not the pressures the previous call left in its `temp_prop` -/
example :
    let env : Nat → ArrData ℚ := fun o =>
      if o = 1 then ⟨2, [("p", [10, 11]), ("T", [300, 301])]⟩ else ⟨3, [("p", [20, 21, 22])]⟩
    let temp0 : Temp ℚ := fun o => if o = 2 then [7, 7, 7] else []
    let h1 := hrun ⟨init [1, 2] 3, temp0⟩ [HOp.interp env "p"]
    let h2 := hrun ⟨init [1, 2] 3, temp0⟩ [HOp.interp env "p", HOp.interp env "T"]
    h1.temp 2 = [20, 21, 22] ∧ h2.temp 1 = [300, 301] ∧ h2.temp 2 = [0, 0, 0] := by
  refine ⟨?_, ?_, ?_⟩ <;> decide +kernel


/-- three neighbours, one with zero weight and an outlying value: the mean of
the two contributing values 1 and 3 with weights 1/2, 1/4 is 5/3 ∈ [1, 3] -/
example :
    let nbrs : List (Nbr ℚ) :=
      [⟨1/2, 0, 0, 0, 0, 0, 0, 1, 1, 1⟩, ⟨0, 0, 0, 0, 1, 0, 0, 1, 1, 100⟩,
       ⟨1/4, 0, 0, 0, 2, 0, 0, 1, 1, 3⟩]
    shepard (1/1000000000000) nbrs = 5/3 ∧
    (∀ nb ∈ nbrs, 0 ≤ nb.w) ∧ (∀ nb ∈ nbrs, 0 < nb.w → (1:ℚ) ≤ nb.f ∧ nb.f ≤ 3) := by
  refine ⟨by decide +kernel, ?_, ?_⟩
  · intro nb h; simp at h; rcases h with rfl | rfl | rfl <;> norm_num
  · intro nb h; simp at h; rcases h with rfl | rfl | rfl <;> norm_num

/-- 1-D order1 on the affine field `2 + 3x` with three neighbours: the moment
system's solution is (value, slope) = (2 + 3·(1/2), 3) -/
example :
    let nbrs : List (Nbr ℚ) :=
      [⟨1, 1, 0, 0, 0, 0, 0, 1, 2, 2⟩, ⟨2, 0, 0, 0, 1/2, 0, 0, 1, 1, 7/2⟩,
       ⟨1, -1, 0, 0, 1, 0, 0, 1, 2, 5⟩]
    let d : Pos ℚ := ⟨1/2, 0, 0⟩
    (∀ nb ∈ nbrs, nb.f = 2 + 3 * nb.sx + 0 * nb.sy + 0 * nb.sz) ∧
    (order1 (1/1000000000000) 1 d nbrs).toList = [7/2, 3, 0, 0] := by
  refine ⟨?_, by decide +kernel⟩
  intro nb h; simp at h; rcases h with rfl | rfl | rfl <;> norm_num

/-- a history with rebindings, an in-place change and an update -/
example :
    let ops := [Op.mutate 1, Op.update, Op.updateArrays [5, 6], Op.setPoints 9, Op.mutate 5]
    interpolateReads (run (init [1, 2] 3) ops) =
      ⟨[5, 6], [5, 6, 9], [5, 6, 9], 9, false, [5, 6, 9]⟩ ∧
    interpolateReads (run (init [1, 2] 3) (ops ++ [Op.update])) =
      ⟨[5, 6], [5, 6, 9], [5, 6, 9], 9, true, [5, 6, 9]⟩ := by
  constructor <;> decide +kernel

/-- a 2×3 array held in Fortran order (strides 1, 2: the transposed view of a
C-ordered 3×2 array) next to a C-ordered `y` and a strided, reversed `z`:
`ravel()` lists the elements in logical order and `result[0, 2]`, `result[1, 0]`
are the values at `(x[0,2], y[0,2], z[0,2])`, `(x[1,0], y[1,0], z[1,0])`; the
memory order of `x` (10, 11, 12, …) is NOT the order of the particles -/
example :
    let x : NdView ℚ := ⟨[2, 3], [1, 2], 0, [10, 11, 12, 13, 14, 15]⟩
    let y : NdView ℚ := ⟨[2, 3], [3, 1], 0, [20, 21, 22, 23, 24, 25]⟩
    let z : NdView ℚ := ⟨[2, 3], [-6, 2], 7, [30, 31, 32, 33, 34, 35, 36, 37, 38, 39, 40, 41]⟩
    let value : Pos ℚ → ℚ := fun p => 10000 * p.x + 100 * p.y + p.z
    ravelC x = [10, 12, 14, 11, 13, 15] ∧ ravelC z = [37, 39, 41, 31, 33, 35] ∧
    x.elem [0, 2] = 14 ∧ y.elem [0, 2] = 22 ∧ z.elem [0, 2] = 41 ∧
    interpolateGet value x y z [0, 2] = some 142241 ∧
    interpolateGet value x y z [1, 0] = some 112331 ∧
    inBounds x.shape [0, 2] = true := by
  refine ⟨?_, ?_, ?_, ?_, ?_, ?_, ?_, ?_⟩ <;> decide +kernel

/-- shape (1, 2, 1, 3): the returned array has shape (2, 3) and its entry
`[1, 2]` is the value at `x[0, 1, 0, 2]` -/
example :
    let x : NdView ℚ := ⟨[1, 2, 1, 3], [0, 1, 0, 2], 0, [10, 11, 12, 13, 14, 15]⟩
    squeezeShape x.shape = [2, 3] ∧ unsqueeze x.shape [1, 2] = [0, 1, 0, 2] ∧
    interpolateSqueezedGet (fun p => p.x) x x x [1, 2] = some 15 ∧ x.elem [0, 1, 0, 2] = 15 := by
  refine ⟨?_, ?_, ?_, ?_⟩ <;> decide +kernel

/-- two source arrays with real-particle `h` lists `[3/10, 1/2]`, `[2/5]` and five
target points given as INTEGERS (dtype `Int`, converted by `Int.cast`): every
target particle gets `h = 1/2`, not `⌊1/2⌋ = 0` -/
example :
    maxHInArrays [[(3:ℚ)/10, 1/2], [2/5]] = some (1/2) ∧
    createTargetH (fun i : Int => (i : ℚ)) [[(3:ℚ)/10, 1/2], [2/5]] [1, 2, 3, 4, 5] =
      some [1/2, 1/2, 1/2, 1/2, 1/2] ∧
    castRavel (fun i : Int => (i : ℚ)) ⟨[2, 2], [1, 2], 0, [1, 2, 3, 4]⟩ = [1, 3, 2, 4] := by
  refine ⟨?_, ?_, ?_⟩ <;> decide +kernel

/-- the arrays are replaced (objects 5, 6 for 1, 2) and the points too (9 for 3):
the loop of the first array name then reads the constant stored in object 5
(`1250`), not the one of object 1 (`1000`); 'sph' with `rho0` and a gain -/
example :
    let cval : Nat → ℚ := fun o => if o = 1 then 1000 else if o = 5 then 1250 else 1
    let s := run (init [1, 2] 3) [Op.updateArrays [5, 6], Op.mutate 5, Op.update, Op.setPoints 9]
    constRead (init [1, 2] 3) cval 0 = some 1000 ∧ constRead s cval 0 = some 1250 ∧
    (interpolateReads s).constants = [5, 6, 9] ∧
    sphConst (2:ℚ) [⟨1/2, 0, 0, 0, 0, 0, 0, 3, 4, 5⟩, ⟨1/4, 0, 0, 0, 1, 0, 0, 1, 2, 8⟩] = 23/4 := by
  refine ⟨?_, ?_, ?_, ?_⟩ <;> decide +kernel

/-! ## order1 on arrays shared with the caller and with other evaluators -/

section SharedDensity
variable {α : Type} [Field α] [LinearOrder α] [IsStrictOrderedRing α] [BEq α]

/-- order1 writes, into every source particle it iterates over, the summation
density of the PRESENT masses: what `rho` held before the call (the caller's
values, zeros, the density another evaluator with another kernel left) does not
enter. -/
theorem order1_density_from_present_masses (tol : α) (dim : Nat) (g : SrcGeo α) (d : Pos α)
    (pn : List (PtNbr α)) (st st' : Store α) (hm : st.m = st'.m) (j : Nat) (hj : j ∈ g.ids) :
    (order1Compute tol dim g d pn st).1.rho j = densityAt st g j ∧
    (order1Compute tol dim g d pn st).1.rho j = (order1Compute tol dim g d pn st').1.rho j := by
  refine ⟨group1_rho_of_mem g st j hj, ?_⟩
  show (group1 g st).rho j = (group1 g st').rho j
  rw [group1_rho_of_mem g st j hj, group1_rho_of_mem g st' j hj, densityAt_congr st st' hm]

/-- **Every `interpolate` call of an order1 Interpolator is a function of the data
as they are at the call**: two states of the shared arrays with the same masses
and the same staged values give the same four numbers at every point whose
neighbours the density group covers, whatever `rho` holds in either. -/
theorem order1_independent_of_shared_rho (tol : α) (dim : Nat) (g : SrcGeo α) (d : Pos α)
    (pn : List (PtNbr α)) (hin : ∀ p ∈ pn, p.k ∈ g.ids) (st st' : Store α)
    (hm : st.m = st'.m) (hf : st.f = st'.f) :
    (order1Compute tol dim g d pn st).2 = (order1Compute tol dim g d pn st').2 := by
  rw [order1Compute_snd, order1Compute_snd, ptNbr_group1_congr g st st' hm hf pn hin]

/-- …in particular after ANY sequence of in-place changes of `rho` and of
computes of OTHER order1 evaluators over the same arrays (other kernels, other
points) since the last call: the next call returns what it would have returned
without them. -/
theorem order1_unaffected_by_other_evaluators (tol : α) (dim : Nat) (g : SrcGeo α) (d : Pos α)
    (pn : List (PtNbr α)) (hin : ∀ p ∈ pn, p.k ∈ g.ids) (st : Store α) (ops : List (SOp α))
    (hops : ∀ op ∈ ops, op.rhoOnly = true) :
    (order1Compute tol dim g d pn (srun st ops)).2 = (order1Compute tol dim g d pn st).2 := by
  have h := srun_rhoOnly st ops hops
  exact order1_independent_of_shared_rho tol dim g d pn hin _ _ h.1 h.2

/-- **order1 reproduces a linear field on EVERY call over shared arrays**: whatever
history the arrays went through (masses rescaled in place, `rho` overwritten by
anybody), the moment matrix group 2 builds and the right-hand side group 3 builds
in THIS call use the same volumes `m_k / rho_k` (the density group 1 has just
written), so any exact solution of the system is (value, gradient) of the field. -/
theorem order1_shared_reproduces_linear (g : SrcGeo α) (d : Pos α) (pn : List (PtNbr α))
    (st0 : Store α) (ops : List (SOp α)) (a : α) (gr : Nat → α)
    (hf : ∀ p ∈ pn, (srun st0 ops).f p.k = a + gr 0 * p.sx + gr 1 * p.sy + gr 2 * p.sz)
    (dim : Nat) (hdim : dim ≤ 3) (hg : ∀ k, dim ≤ k → gr k = 0)
    (x : Nat → α) :
    let nbrs := pn.map (ptNbr (group1 g (srun st0 ops)))
    (∀ r < dim + 1, momentRow d nbrs (dim + 1) r x = psphEntry nbrs r) →
    (∀ y : Nat → α, (∀ r < dim + 1, momentRow d nbrs (dim + 1) r y = 0) →
      ∀ c < dim + 1, y c = 0) →
    x 0 = a + gr 0 * d.x + gr 1 * d.y + gr 2 * d.z ∧ ∀ k < dim, x (k + 1) = gr k := by
  intro nbrs hx hns
  refine order1_reproduces_linear d nbrs a gr ?_ dim hdim hg x hx hns
  intro nb hnb
  obtain ⟨p, hp, rfl⟩ := List.mem_map.mp hnb
  simpa [ptNbr, group1] using hf p hp

end SharedDensity

/-- two source particles, one point between them, field `2 + 3x`; the arrays
arrive once with `rho = (5, 7)` left by somebody else and once with zeros, the
masses were tripled in place: the same, exact, answer -/
example :
    let g : SrcGeo ℚ := ⟨[0, 1], fun j => if j = 0 then [(0, 2), (1, 1)] else [(1, 2), (0, 1)]⟩
    let pn : List (PtNbr ℚ) := [⟨0, 1, 1, 0, 0, 0, 0, 0⟩, ⟨1, 1, -1, 0, 0, 1, 0, 0⟩]
    let d : Pos ℚ := ⟨1/2, 0, 0⟩
    let f : Nat → ℚ := fun k => if k = 0 then 2 else 5
    let st : Store ℚ := ⟨fun _ => 3, fun k => if k = 0 then 5 else 7, f⟩
    let st' : Store ℚ := ⟨fun _ => 3, fun _ => 0, f⟩
    (order1Compute (1/1000000000000) 1 g d pn st).2.toList = [7/2, 3, 0, 0] ∧
    (order1Compute (1/1000000000000) 1 g d pn st').2.toList = [7/2, 3, 0, 0] ∧
    (order1Compute (1/1000000000000) 1 g d pn (srun st [SOp.otherOrder1 ⟨[0, 1], fun _ => [(0, 1)]⟩])).2.toList
      = [7/2, 3, 0, 0] := by
  refine ⟨by decide +kernel, by decide +kernel, by decide +kernel⟩


end PysphVerif.C14
